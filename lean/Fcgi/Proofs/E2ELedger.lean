import Fcgi.Proofs.E2EEcho
/-!
# A ledger for the write log: handler records interleaved with parser replies
-/
namespace Fcgi.E2E
open Fcgi Fcgi.Req Fcgi.Str Fcgi.Async Fcgi.Run Fcgi.Spec Fcgi.C09E

/-! ## The write log is write-only: every function of the read side is uniform in it -/

/-- the transport with another write log -/
def relog (t : Transport) (a : Bytes) : Transport := { t with wlog := a }

@[simp] theorem relog_self (t : Transport) : relog t t.wlog = t := by cases t; rfl
@[simp] theorem relog_wlog (t : Transport) (a : Bytes) : (relog t a).wlog = a := rfl
@[simp] theorem relog_input (t : Transport) (a : Bytes) : (relog t a).input = t.input := rfl
@[simp] theorem relog_relog (t : Transport) (a b : Bytes) : relog (relog t a) b = relog t b := rfl
theorem relog_nil_app (t : Transport) (a : Bytes) : relog t (a ++ []) = relog t a := by rw [List.append_nil]

theorem writeV_unif (t : Transport) (sl : List Bytes) (tag : String) :
    ∃ x t0 res, ∀ a, (relog t a).writeV sl tag = (relog t0 (a ++ x), res) := by
  by_cases hd : sl.flatten.isEmpty
  · exact ⟨[], (t.writeV sl tag).1, (t.writeV sl tag).2, fun a => by
      simp [Transport.writeV, relog, hd, Transport.ev]⟩
  · rcases hw : t.wr with _ | ⟨an, rest⟩
    · exact ⟨sl.flatten, (t.writeV sl tag).1, (t.writeV sl tag).2, fun a => by
        simp [Transport.writeV, relog, hd, hw, Transport.ev]⟩
    · cases an with
      | n k => exact ⟨sl.flatten.take (min (max k 1) sl.flatten.length), (t.writeV sl tag).1, (t.writeV sl tag).2, fun a => by
          simp [Transport.writeV, relog, hd, hw, Transport.ev]⟩
      | all => exact ⟨sl.flatten, (t.writeV sl tag).1, (t.writeV sl tag).2, fun a => by
          simp [Transport.writeV, relog, hd, hw, Transport.ev]⟩
      | _ => exact ⟨[], (t.writeV sl tag).1, (t.writeV sl tag).2, fun a => by
          simp [Transport.writeV, relog, hd, hw, Transport.ev, Transport.wrErr]⟩

theorem read_unif (t : Transport) (cap : Nat) :
    ∃ t0 res, ∀ a, (relog t a).read cap = (relog t0 a, res) := by
  refine ⟨(t.read cap).1, (t.read cap).2, fun a => ?_⟩
  by_cases hc : cap = 0
  · simp [Transport.read, relog, Transport.ev, hc]
  · by_cases hi : t.input = []
    · rcases hr : t.rd with _ | ⟨an, rest⟩
      · cases hh : t.hold <;> cases hem : t.endMode <;>
          simp [Transport.read, relog, Transport.ev, Transport.rdErr, hc, hi, hr, hh, hem]
      · cases an <;> cases hh : t.hold <;> cases hem : t.endMode <;>
          simp [Transport.read, relog, Transport.ev, Transport.rdErr, hc, hi, hr, hh, hem]
    · rcases hr : t.rd with _ | ⟨an, rest⟩
      · simp [Transport.read, relog, Transport.ev, hc, hi, hr]
      · cases an <;> simp [Transport.read, relog, Transport.ev, Transport.rdErr, hc, hi, hr]

theorem outLoop_unif : ∀ (fuel : Nat) (sp : Str.Parser) (t : Transport),
    ∃ x t0 sp' res, ∀ a, outLoop fuel sp (relog t a) = (sp', relog t0 (a ++ x), res) := by
  intro fuel
  induction fuel with
  | zero => intro sp t; exact ⟨[], t, sp, _, fun a => by rw [relog_nil_app]; rfl⟩
  | succ k ih =>
    intro sp t
    by_cases he : sp.output.isEmpty
    · exact ⟨[], t, sp, .ready, fun a => by rw [relog_nil_app]; simp [outLoop, he]⟩
    · obtain ⟨x, t0, res, hw⟩ := writeV_unif t [sp.output] "W"
      match res, hw with
      | .pending, hw => exact ⟨x, t0, sp, .pending, fun a => by simp only [outLoop, he, Transport.write, hw a]; rfl⟩
      | .ready (.error e), hw =>
        exact ⟨x, t0, sp, .err e, fun a => by simp only [outLoop, he, Transport.write, hw a]; rfl⟩
      | .ready (.ok 0), hw =>
        exact ⟨x, t0, sp, .err .writeZero, fun a => by simp only [outLoop, he, Transport.write, hw a]; rfl⟩
      | .ready (.ok (n + 1)), hw =>
        obtain ⟨x2, t2, sp2, res2, h2⟩ := ih (sp.consumeOutput (n + 1)) t0
        exact ⟨x ++ x2, t2, sp2, res2, fun a => by
          simp only [outLoop, he, Transport.write, hw a]
          rw [← List.append_assoc]; exact h2 (a ++ x)⟩

theorem pollOutput_unif (r : AReq) (m : MutexSt) (t : Transport) :
    ∃ x t0 r' m' res, ∀ a, r.pollOutput m (relog t a) = (r', m', relog t0 (a ++ x), res) := by
  by_cases he : r.sp.output.isEmpty
  · by_cases hl : r.lock = .none
    · exact ⟨[], t, r, m, .ready, fun a => by rw [relog_nil_app]; simp [AReq.pollOutput, he, hl]⟩
    · exact ⟨[], t, r, m, _, fun a => by rw [relog_nil_app]; simp [AReq.pollOutput, he, hl]; rfl⟩
  · rcases hlp : lockPoll (if r.lock = .none then LockSt.polling else r.lock) m 0 with ⟨l, m1, got⟩
    cases got with
    | false => exact ⟨[], t, { r with lock := l }, m1, .pending, fun a => by
        rw [relog_nil_app]; simp [AReq.pollOutput, he, hlp]⟩
    | true =>
      obtain ⟨x, t0, sp', res, ho⟩ := outLoop_unif (r.sp.output.length + 1) r.sp t
      cases res with
      | ready => exact ⟨x, t0, { r with sp := sp', lock := .none }, none, .ready, fun a => by
          simp [AReq.pollOutput, he, hlp, ho a]⟩
      | pending => exact ⟨x, t0, { r with sp := sp', lock := l }, m1, .pending, fun a => by
          simp [AReq.pollOutput, he, hlp, ho a]⟩
      | err e => exact ⟨x, t0, { r with sp := sp', lock := l }, m1, .err e, fun a => by
          simp [AReq.pollOutput, he, hlp, ho a]⟩
      | panic s => exact ⟨x, t0, { r with sp := sp', lock := l }, m1, .panic s, fun a => by
          simp [AReq.pollOutput, he, hlp, ho a]⟩

theorem inLoop_unif (dest : Option Nat) : ∀ (fuel : Nat) (r : AReq) (new : Bytes) (m : MutexSt) (t : Transport),
    ∃ x t0 r' m' res, ∀ a, inLoop fuel r new dest m (relog t a) = (r', m', relog t0 (a ++ x), res) := by
  intro fuel
  induction fuel with
  | zero => intro r new m t; exact ⟨[], t, r, m, _, fun a => by rw [relog_nil_app]; rfl⟩
  | succ k ih =>
    intro r new m t
    rcases hp : r.sp.parse new dest with ⟨sp, pr⟩
    cases pr with
    | panic s => exact ⟨[], t, { r with sp := sp }, m, .panic s, fun a => by rw [relog_nil_app]; simp [inLoop, hp]⟩
    | err e => exact ⟨[], t, { r with sp := sp }, m, .err (ioOfPErr e), fun a => by rw [relog_nil_app]; simp [inLoop, hp]⟩
    | ok st =>
      by_cases hc : (st.streamEnd || decide (st.stream > 0)) = true
      · exact ⟨[], t, (if (!r.writeable && ({ r with sp := sp } : AReq).isFinalStream) = true then
            { r with sp := sp, writeable := true } else { r with sp := sp }), m, .ready st.stream st.delivered, fun a => by
          rw [relog_nil_app]; simp only [inLoop, hp, hc, if_true]⟩
      · obtain ⟨x, t0, r1, m1, res, ho⟩ := pollOutput_unif { r with sp := sp.compress } m t
        cases res with
        | pending => exact ⟨x, t0, r1, m1, .pending, fun a => by simp only [inLoop, hp, hc, ho a]; rfl⟩
        | err e => exact ⟨x, t0, r1, m1, .err e, fun a => by simp only [inLoop, hp, hc, ho a]; rfl⟩
        | panic s => exact ⟨x, t0, r1, m1, .panic s, fun a => by simp only [inLoop, hp, hc, ho a]; rfl⟩
        | ready =>
          obtain ⟨t1, rres, hr⟩ := read_unif t0 r1.sp.free
          match rres, hr with
          | .pending, hr => exact ⟨x, t1, r1, m1, .pending, fun a => by simp only [inLoop, hp, hc, ho a, hr]; rfl⟩
          | .ready (.error e), hr =>
            exact ⟨x, t1, r1, m1, .err e, fun a => by simp only [inLoop, hp, hc, ho a, hr]; rfl⟩
          | .ready (.ok []), hr =>
            exact ⟨x, t1, r1, m1, .err .unexpectedEof, fun a => by simp only [inLoop, hp, hc, ho a, hr]; rfl⟩
          | .ready (.ok (b :: bs)), hr =>
            obtain ⟨x2, t2, r2, m2, res2, h2⟩ := ih r1 (b :: bs) m1 t1
            exact ⟨x ++ x2, t2, r2, m2, res2, fun a => by
              simp only [inLoop, hp, hc, ho a, hr]
              rw [← List.append_assoc]; exact h2 (a ++ x)⟩

theorem pollInput_unif (r : AReq) (dest : Option Nat) (m : MutexSt) (t : Transport) :
    ∃ x t0 r' m' res, ∀ a, r.pollInput dest m (relog t a) = (r', m', relog t0 (a ++ x), res) := by
  have triv : ∀ (r' : AReq) (res : IRes), (∀ a, r.pollInput dest m (relog t a) = (r', m, relog t a, res)) →
      ∃ x t0 r' m' res, ∀ a, r.pollInput dest m (relog t a) = (r', m', relog t0 (a ++ x), res) :=
    fun r' res h => ⟨[], t, r', m, res, fun a => by rw [relog_nil_app]; exact h a⟩
  have main : (∀ a, r.pollInput dest m (relog t a) = (match r.pollOutput m (relog t a) with
      | (r, m, t, .pending) => (r, m, t, .pending)
      | (r, m, t, .err e) => (r, m, t, .err e)
      | (r, m, t, .panic s) => (r, m, t, .panic s)
      | (r, m, t, .ready) => inLoop (t.input.length + 2) r [] dest m t)) →
      ∃ x t0 r' m' res, ∀ a, r.pollInput dest m (relog t a) = (r', m', relog t0 (a ++ x), res) := by
    intro hm
    obtain ⟨x, t0, r1, m1, res, ho⟩ := pollOutput_unif r m t
    cases res with
    | pending => exact ⟨x, t0, r1, m1, .pending, fun a => by rw [hm a, ho a]⟩
    | err e => exact ⟨x, t0, r1, m1, .err e, fun a => by rw [hm a, ho a]⟩
    | panic s => exact ⟨x, t0, r1, m1, .panic s, fun a => by rw [hm a, ho a]⟩
    | ready =>
      obtain ⟨x2, t2, r2, m2, res2, h2⟩ := inLoop_unif dest (t0.input.length + 2) r1 [] m1 t0
      exact ⟨x ++ x2, t2, r2, m2, res2, fun a => by
        rw [hm a, ho a]
        show inLoop (t0.input.length + 2) r1 [] dest m1 (relog t0 (a ++ x)) = _
        rw [← List.append_assoc]; exact h2 (a ++ x)⟩
  cases dest with
  | none =>
    cases hb : r.sp.parsed with
    | nil => exact main fun a => by simp only [AReq.pollInput, hb]; rfl
    | cons y ys => exact triv r (.ready 0 []) fun a => by simp only [AReq.pollInput, hb]
  | some n =>
    cases n with
    | zero => exact triv r (.ready 0 []) fun a => by simp only [AReq.pollInput]
    | succ n =>
      cases hb : r.sp.parsed with
      | nil => exact main fun a => by simp only [AReq.pollInput, hb]; rfl
      | cons y ys =>
        exact triv { r with sp := r.sp.consumeStream (min (n + 1) (y :: ys).length) }
          (.ready (min (n + 1) (y :: ys).length) ((y :: ys).take (min (n + 1) (y :: ys).length)))
          (fun a => by simp only [AReq.pollInput, hb])

/-! ## The ledger -/

/-- `Ilv w a h`: the byte string `w` is an interleaving, segment by segment, of `a` (parser replies) and `h` (handler
bytes); both keep their order -/
inductive Ilv : Bytes → Bytes → Bytes → Prop
  | nil : Ilv [] [] []
  | rep {w a h : Bytes} (x : Bytes) : Ilv w a h → Ilv (w ++ x) (a ++ x) h
  | hnd {w a h : Bytes} (x : Bytes) : Ilv w a h → Ilv (w ++ x) a (h ++ x)

theorem Ben.relog {t : Transport} (hb : Ben t) (a : Bytes) : Ben (relog t a) := ⟨hb.rd, hb.wr, hb.hold, hb.em⟩

theorem tstep_relog {t t0 : Transport} {a x : Bytes} (b : Bytes) (h : TStep (relog t a) (relog t0 (a ++ x))) :
    TStep (relog t b) (relog t0 (b ++ x)) :=
  ⟨⟨h.tle.ev, ⟨x, rfl⟩, h.tle.inp⟩, h.rd, h.wr, h.hold, h.em, h.wk⟩

/-- `RSt` with a ledger: the log since `L` is an interleaving of the replies written so far and the handler bytes `H`;
the read-side state is that of `RSt` on the log with the handler bytes removed -/
def RStL (K : RCtx) (L P H : Bytes) (r : AReq) (m : MutexSt) (t : Transport) (dC dO : Bytes) : Prop :=
  ∃ w O1, t.wlog = L ++ w ∧ Ilv w O1 H ∧ RSt K L P r m (relog t (L ++ O1)) dC dO

def ReadPostL (K : RCtx) (n : Nat) (L P H dC : Bytes) (t : Transport) (r' : AReq) (m' : MutexSt)
    (t' : Transport) : IRes → Prop
  | .pending => (∃ dO', RStL K L P H r' m' t' dC dO') ∧ t'.woken = true ∧ ans t' < ans t
  | .ready k d => k = d.length ∧ ∃ dO', RStL K L P H r' m' t' (dC ++ d) dO' ∧ r'.lock = .none ∧ m' = none ∧
      (0 < k ∨ AtEnd K r' t' (dC ++ d) dO') ∧ (k = n ∨ Idle r'.sp ∨ AtEnd K r' t' (dC ++ d) dO') ∧
      (K.final = true → r'.writeable = true)
  | .err _ => False
  | .panic _ => False

theorem rstl_of {K : RCtx} {L P H : Bytes} {r' : AReq} {m' : MutexSt} {t0 : Transport} {w O1 x dC' dO' : Bytes}
    (hs' : RSt K L P r' m' (relog t0 (L ++ O1 ++ x)) dC' dO') (hi : Ilv w O1 H) :
    RStL K L P H r' m' (relog t0 (L ++ w ++ x)) dC' dO' :=
  ⟨w ++ x, O1 ++ x, by simp, hi.rep x, by
    show RSt K L P r' m' (relog t0 (L ++ (O1 ++ x))) dC' dO'
    rw [← List.append_assoc]; exact hs'⟩

/-- **`poll_input(Some(n))` with the ledger** -/
theorem pollInput_simL {K : RCtx} (hK : K.OK) {n : Nat} (hn : 0 < n) {L P H : Bytes} {r : AReq} {m : MutexSt}
    {t : Transport} {dC dO : Bytes} {r' : AReq} {m' : MutexSt} {t' : Transport} {res : IRes}
    (hb : Ben t) (hs : RStL K L P H r m t dC dO)
    (h : r.pollInput (some n) m t = (r', m', t', res)) :
    TStep t t' ∧ ReadPostL K n L P H dC t r' m' t' res := by
  obtain ⟨w, O1, hl, hi, hs⟩ := hs
  obtain ⟨x, t0, r1, m1, res1, hu⟩ := pollInput_unif r (some n) m t
  have h1 := hu t.wlog
  rw [relog_self, h] at h1
  injection h1 with e1 h1
  injection h1 with e2 h1
  injection h1 with e3 e4
  subst e1 e2 e3 e4
  obtain ⟨s1, s2, _⟩ := pollInput_sim hK hn (hb.relog _) hs (hu (L ++ O1))
  have s1' := tstep_relog t.wlog s1
  rw [relog_self] at s1'
  refine ⟨s1', ?_⟩
  rw [hl]
  cases res with
  | pending =>
    obtain ⟨⟨dO', hs'⟩, hw, ha⟩ := s2
    exact ⟨⟨dO', rstl_of hs' hi⟩, hw, ha⟩
  | ready k d =>
    obtain ⟨hk, dO', hs', a1, a2, a3, a4, a5⟩ := s2
    exact ⟨hk, dO', rstl_of hs' hi, a1, a2, a3, a4, a5⟩
  | err e => exact s2
  | panic s => exact s2

/-- between a `read` and the handler's next `write_all`: the lock is free, the replies generated so far (`dO`) are
written (`O₁`, in the ledger) or still queued; `w` = the log since the base -/
structure RQL (K : RCtx) (H : Bytes) (r : AReq) (t : Transport) (dC dO w : Bytes) : Prop where
  inv : ∃ G, RInv K r G t.input dC dO
  led : ∃ O1, O1 ++ r.sp.output = dO ∧ Ilv w O1 H
  lock : r.lock = .none

theorem RQL.rstl {K : RCtx} {H : Bytes} {r : AReq} {t : Transport} {dC dO w : Bytes} (h : RQL K H r t dC dO w)
    {Lb : Bytes} (hl : t.wlog = Lb ++ w) : RStL K Lb [] H r none t dC dO := by
  obtain ⟨O1, h1, h2⟩ := h.led
  exact ⟨w, O1, hl, h2, h.inv, lockInv_free h.lock, Or.inl rfl, ⟨O1, rfl, by rw [h1]; rfl⟩⟩

theorem RQL.of_rstl {K : RCtx} {Lb H : Bytes} {r : AReq} {m : MutexSt} {t : Transport}
    {dC dO : Bytes} (h : RStL K Lb [] H r m t dC dO) (hl : r.lock = .none) :
    ∃ w, t.wlog = Lb ++ w ∧ RQL K H r t dC dO w := by
  obtain ⟨w, O1, h1, h2, ⟨G, hi⟩, lk, mx, ⟨O1', l1, l2⟩⟩ := h
  have : O1' = O1 := (List.append_cancel_left l1).symm
  subst this
  exact ⟨w, h1, ⟨G, hi⟩, ⟨O1', by simpa using l2, h2⟩, hl⟩

theorem RQL.hnd {K : RCtx} {H : Bytes} {r : AReq} {t t' : Transport} {dC dO w : Bytes} (h : RQL K H r t dC dO w)
    (hin : t'.input = t.input) (x : Bytes) : RQL K (H ++ x) r t' dC dO (w ++ x) := by
  obtain ⟨O1, h1, h2⟩ := h.led
  obtain ⟨G, hi⟩ := h.inv
  exact ⟨⟨G, by rw [hin]; exact hi⟩, ⟨O1, h1, h2.hnd x⟩, h.lock⟩

theorem RQL.tr {K : RCtx} {H : Bytes} {r : AReq} {t t' : Transport} {dC dO w : Bytes} (h : RQL K H r t dC dO w)
    (hin : t'.input = t.input) : RQL K H r t' dC dO w := by
  obtain ⟨G, hi⟩ := h.inv
  exact ⟨⟨G, by rw [hin]; exact hi⟩, h.led, h.lock⟩

/-! ## The echo loop with the ledger (copies of `Proofs/E2EEcho` without `K.O = []`) -/

/-- one `read(1)` of the loop: pending, or exactly one byte (the next of the content), or 0 at the end -/
theorem read1_stepL {K : RCtx} (hK : K.OK) (h24 : 24 ≤ K.cap) {L H : Bytes} {r : AReq} {e : Run.Env}
    {dC dO : Bytes} (hb : Ben e.tr) (hs : RStL K L [] H r e.mutex e.tr dC dO)
    {r1 : AReq} {m1 : MutexSt} {t1 : Transport} {res : IRes}
    (hpi : r.pollInput (some 1) e.mutex e.tr = (r1, m1, t1, res)) :
    TStep e.tr t1 ∧
    match res with
    | .pending => (∃ dO', RStL K L [] H r1 m1 t1 dC dO') ∧ t1.woken = true ∧ ans t1 < ans e.tr
    | .ready k d => m1 = none ∧ k = d.length ∧ (K.final = true → r1.writeable = true) ∧
        ∃ w dO', t1.wlog = L ++ w ∧ RQL K H r1 t1 (dC ++ d) dO' w ∧
        ((∃ x, d = [x] ∧ ∃ rest, K.C = dC ++ x :: rest) ∨
         (d = [] ∧ dC = K.C ∧ dO' = K.O ∧ r1.sp.pay = 0 ∧ r1.sp.pad = 0 ∧ r1.sp.raw ++ t1.input = K.U))
    | .err _ => False
    | .panic _ => False := by
  obtain ⟨s1, s4⟩ := pollInput_simL hK (by omega : 0 < 1) hb hs hpi
  refine ⟨s1, ?_⟩
  have hainv : AInv r ∧ LockInv r e.mutex := by
    obtain ⟨_, _, _, _, ⟨G, hi⟩, lk, _⟩ := hs
    exact ⟨⟨hi.sinv, by rw [hi.capK]; exact h24⟩, lk⟩
  have hpo := (Async.pollInput_spec hainv.1 hainv.2 hpi).2.1
  cases res with
  | pending => exact s4
  | err x => exact s4.elim
  | panic x => exact s4.elim
  | ready k d =>
    obtain ⟨hk, dO', hs', hlk, hm1, hor, _, hwr⟩ := s4
    obtain ⟨w, hwl, hrq⟩ := RQL.of_rstl hs' hlk
    obtain ⟨hdl, hk1⟩ := hpo.rsome 1 k d rfl rfl
    obtain ⟨rest, hrest⟩ : ∃ rest, K.C = (dC ++ d) ++ rest := by
      obtain ⟨G, hi⟩ := hrq.inv
      exact ⟨_, (hi.now hK).1⟩
    refine ⟨hm1, hk, hwr, w, dO', hwl, hrq, ?_⟩
    rcases hor with hpos | ⟨a1, a2, a3, a4, a5⟩
    · left
      match d, hdl, hk with
      | [x], _, _ => exact ⟨x, rfl, rest, by rw [hrest]; simp⟩
      | [], h0, _ => simp at h0; omega
      | _ :: _ :: _, h2, _ => simp at h2; omega
    · match d, hdl with
      | [], _ => exact Or.inr ⟨rfl, by simpa using a1, a2, a3, a4, a5⟩
      | [x], _ => exact Or.inl ⟨x, rfl, rest, by rw [hrest]; simp⟩
      | _ :: _ :: _, h2 => simp at h2; omega

/-- how one poll of the echo loop ends -/
def EOutL (K : RCtx) (id : Nat) (st : ExitStatus) (Lb : Bytes) (e : Run.Env)
    (out : AReq × HState × Run.Env × HRes) : Prop :=
  out.2.2.1.segs = e.segs ∧ TStep e.tr out.2.2.1.tr ∧
  ((out.2.2.2 = .pending ∧ out.2.2.1.tr.woken = true ∧ ans out.2.2.1.tr < ans e.tr ∧
      ∃ (dC rem : Bytes) (ws : _root_.Fin 2 → Writer) (dO : Bytes), K.C = dC ++ rem ∧
        out.2.1 = { ops := echoOps rem st, sub := .fresh, writers := wtab ws, propagate := true } ∧
        RStL K Lb [] (outOf id (echoW dC)) out.1 out.2.2.1.mutex out.2.2.1.tr dC dO ∧
        (∀ j : _root_.Fin 2, WIdle (6 + j.val) id (ws j))) ∨
   (out.2.2.2 = .pending ∧ out.2.2.1.tr.woken = true ∧ ans out.2.2.1.tr < ans e.tr ∧
      ∃ (dC : Bytes) (b : UInt8) (rem : Bytes) (ws : _root_.Fin 2 → Writer) (L sent dO w : Bytes), K.C = dC ++ b :: rem ∧
        out.2.1.ops = .writeAll 0 [b] :: echoOps rem st ∧ out.2.1.propagate = true ∧ out.2.1.writers = wtab ws ∧
        WIdle 7 id (ws 1) ∧ WSt2 6 0 id (ws 0) out.2.2.1.mutex (restOf out.2.1.sub [b]) sent ∧
        out.2.2.1.tr.wlog = L ++ sent ∧
        L ++ streamRecords 6 id (restOf out.2.1.sub [b]) = Lb ++ w ++ streamRecords 6 id [b] ∧
        RQL K (outOf id (echoW dC)) out.1 out.2.2.1.tr (dC ++ [b]) dO w) ∨
   (out.2.2.2 = .done (.ok st) ∧ out.2.1.writers = [none, none] ∧ out.2.2.1.mutex = none ∧
      (∃ w, out.2.2.1.tr.wlog = Lb ++ w ∧ RQL K (outOf id (echoW K.C)) out.1 out.2.2.1.tr K.C K.O w) ∧
      out.1.sp.pay = 0 ∧ out.1.sp.pad = 0 ∧ out.1.sp.raw ++ out.2.2.1.tr.input = K.U ∧
      (K.final = true → out.1.writeable = true)))

theorem EOutL.after {K : RCtx} {id : Nat} {st : ExitStatus} {Lb : Bytes} {e e0 : Run.Env}
    {out : AReq × HState × Run.Env × HRes} (h : EOutL K id st Lb e out)
    (hts : TStep e0.tr e.tr) (hsg : e.segs = e0.segs) : EOutL K id st Lb e0 out := by
  obtain ⟨q0, q1, q2⟩ := h
  have := hts.ans_le
  refine ⟨q0.trans hsg, hts.trans q1, ?_⟩
  rcases q2 with ⟨a1, a2, a3, a4⟩ | ⟨a1, a2, a3, a4⟩ | a
  · exact Or.inl ⟨a1, a2, by omega, a4⟩
  · exact Or.inr (Or.inl ⟨a1, a2, by omega, a4⟩)
  · exact Or.inr (Or.inr a)

/-- the loop from a `read`, `rem` still to come -/
def PReadL (K : RCtx) (id : Nat) (st : ExitStatus) (Lb : Bytes) (rem : Bytes) : Prop :=
  ∀ (fuel : Nat) (r : AReq) (e : Run.Env) (ws : _root_.Fin 2 → Writer) (dC dO : Bytes),
    K.C = dC ++ rem → 3 * rem.length + 8 ≤ fuel → Ben e.tr →
    RStL K Lb [] (outOf id (echoW dC)) r e.mutex e.tr dC dO →
    (∀ j : _root_.Fin 2, WIdle (6 + j.val) id (ws j)) →
    EOutL K id st Lb e (handlerPoll fuel r
      { ops := echoOps rem st, sub := .fresh, writers := wtab ws, propagate := true } e)

/-- the loop from inside the `write_all` of `b`, `rem` still to come -/
def PWriteL (K : RCtx) (id : Nat) (st : ExitStatus) (Lb : Bytes) (b : UInt8) (rem : Bytes) : Prop :=
  ∀ (fuel : Nat) (r : AReq) (e : Run.Env) (ws : _root_.Fin 2 → Writer) (dC dO : Bytes) (sub : HSub) (L sent w : Bytes),
    K.C = dC ++ b :: rem → wcost (restOf sub [b]).length + 3 * rem.length + 8 ≤ fuel → Ben e.tr →
    RQL K (outOf id (echoW dC)) r e.tr (dC ++ [b]) dO w →
    WIdle 7 id (ws 1) → WSt2 6 0 id (ws 0) e.mutex (restOf sub [b]) sent → e.tr.wlog = L ++ sent →
    L ++ streamRecords 6 id (restOf sub [b]) = Lb ++ w ++ streamRecords 6 id [b] →
    EOutL K id st Lb e (handlerPoll fuel r
      { ops := .writeAll 0 [b] :: echoOps rem st, sub := sub, writers := wtab ws, propagate := true } e)

theorem pwrite_of_preadL {K : RCtx} {id : Nat} {st : ExitStatus} {Lb : Bytes} {rem : Bytes}
    (hn : PReadL K id st Lb rem) (b : UInt8) : PWriteL K id st Lb b rem := by
  intro fuel r e ws dC dO sub L sent w hC hf hb hrq hid1 hst hlog hL
  rcases writeAll_run2 (ty := 6) (me := 0) (id := id) r [b] (echoOps rem st) true (restOf sub [b]).length fuel sub
      (wtab ws) (ws 0) e L sent (by show 0 < 2; omega) (wtab_get ws 0) (Nat.le_refl _) (by omega) hb hst hlog with
    ⟨w', e', rd', L', sent', d1, d2, d3, d4, d5, d6, d7, d8, d9, d10, d11⟩ |
    ⟨w', e', f', d1, d2, d3, d4, d5, d6, d7, d8⟩
  · rw [d1]
    refine ⟨d9, d7, Or.inr (Or.inl ⟨rfl, d10, d11, dC, b, rem, (fun j => if j = 0 then w' else ws j), L', sent', dO, w, hC,
      rfl, rfl, wtab_set ws 0 w', ?_, ?_, d3, ?_, hrq.tr d8⟩)⟩
    · simp only [show ((1 : _root_.Fin 2) = 0) = False from by decide, if_false]; exact hid1
    · simp only [if_true]; exact d5
    · show L' ++ streamRecords 6 id rd' = _
      rw [d4]; exact hL
  · rw [d1, show (wtab ws).set 0 (some w') = _ from wtab_set ws 0 w']
    have hs1 : TStep e.tr (e'.ev "W=ok").tr := d6.trans (TStep.ev _ (by decide))
    have hrq' : RQL K (outOf id (echoW (dC ++ [b]))) r (e'.ev "W=ok").tr (dC ++ [b]) dO (w ++ streamRecords 6 id [b]) := by
      rw [outOf_echo_snoc]
      exact hrq.hnd (by show e'.tr.input = _; exact d7) _
    have hlog' : (e'.ev "W=ok").tr.wlog = Lb ++ (w ++ streamRecords 6 id [b]) := by
      show (e'.tr.ev _).wlog = _
      rw [Transport.ev_wlog, d3, hL, List.append_assoc]
    have hrst := hrq'.rstl hlog'
    have hm' : (e'.ev "W=ok").mutex = none := d5
    refine (hn f' r (e'.ev "W=ok") (fun j => if j = 0 then w' else ws j) (dC ++ [b]) dO
      (by rw [hC]; simp) (by omega) (hb.step hs1) (by rw [hm']; exact hrst) ?_).after hs1 d8
    intro j
    by_cases hj : j = 0
    · subst hj; simp only [if_true]; exact d4
    · simp only [if_neg hj]
      match j, hj with
      | ⟨0, _⟩, h => exact absurd rfl h
      | ⟨1, _⟩, _ => exact hid1

theorem pread_allL {K : RCtx} (hK : K.OK) (h24 : 24 ≤ K.cap) (id : Nat) (st : ExitStatus) (Lb : Bytes) :
    ∀ rem : Bytes, PReadL K id st Lb rem := by
  intro rem
  induction rem with
  | nil =>
    intro fuel r e ws dC dO hC hf hb hs hid
    obtain ⟨f, rfl⟩ : ∃ f, fuel = f + 4 := ⟨fuel - 4, by omega⟩
    show EOutL K id st Lb e (handlerPoll (f + 3 + 1) r
      { ops := .read 1 :: [.dropW 0, .dropW 1, .ret st], sub := .fresh, writers := wtab ws, propagate := true } e)
    rw [hp_read]
    rcases hpi : r.pollInput (some 1) e.mutex e.tr with ⟨r1, m1, t1, res⟩
    obtain ⟨s1, s2⟩ := read1_stepL hK h24 hb hs hpi
    cases res with
    | pending =>
      obtain ⟨⟨dO', hs'⟩, hw, ha⟩ := s2
      exact ⟨rfl, s1, Or.inl ⟨rfl, hw, ha, dC, [], ws, dO', hC, rfl, hs', hid⟩⟩
    | err x => exact s2.elim
    | panic x => exact s2.elim
    | ready k d =>
      obtain ⟨hm1, hk, hwr, w, dO', hwl, hrq, hcase⟩ := s2
      subst hm1
      rcases hcase with ⟨x, rfl, rest, hrest⟩ | ⟨rfl, hdc, hdo, hpay, hpad, hwire⟩
      · exfalso
        rw [hC, List.append_nil] at hrest
        have := congrArg List.length hrest
        simp at this
      · simp only
        rw [hp_dropW]
        simp only [wtab, List.getD_cons_zero, List.set_cons_zero]
        rw [hp_dropW]
        simp only [List.getD_cons_succ, List.getD_cons_zero, List.set_cons_succ, List.set_cons_zero]
        rw [hp_ret]
        have hs1 : TStep e.tr (t1.ev s!"r={k}:{hexOrDash ([] : Bytes)}") :=
          s1.trans (TStep.ev _ (by simp [isHS, toString_str]))
        rw [List.append_nil] at hrq
        refine ⟨rfl, hs1, Or.inr (Or.inr ⟨rfl, rfl, ?_, ⟨w, ?_, ?_⟩, hpay, hpad, hwire, hwr⟩)⟩
        · show lockDrop (ws 1).lock (lockDrop (ws 0).lock none) = none
          rw [(hid 0).lock, (hid 1).lock]; rfl
        · show (t1.ev _).wlog = _
          rw [Transport.ev_wlog, hwl]
        · rw [← hdc, ← hdo]
          exact hrq.tr rfl
  | cons b bs ih =>
    intro fuel r e ws dC dO hC hf hb hs hid
    obtain ⟨f, rfl⟩ : ∃ f, fuel = f + 1 := ⟨fuel - 1, by omega⟩
    show EOutL K id st Lb e (handlerPoll (f + 1) r
      { ops := .read 1 :: .writeAll 0 [b] :: echoOps bs st, sub := .fresh, writers := wtab ws, propagate := true } e)
    rw [hp_read]
    rcases hpi : r.pollInput (some 1) e.mutex e.tr with ⟨r1, m1, t1, res⟩
    obtain ⟨s1, s2⟩ := read1_stepL hK h24 hb hs hpi
    cases res with
    | pending =>
      obtain ⟨⟨dO', hs'⟩, hw, ha⟩ := s2
      exact ⟨rfl, s1, Or.inl ⟨rfl, hw, ha, dC, b :: bs, ws, dO', hC, rfl, hs', hid⟩⟩
    | err x => exact s2.elim
    | panic x => exact s2.elim
    | ready k d =>
      obtain ⟨hm1, hk, hwr, w, dO', hwl, hrq, hcase⟩ := s2
      subst hm1
      rcases hcase with ⟨x, rfl, rest, hrest⟩ | ⟨rfl, hdc, _⟩
      · have hx : x = b := by
          rw [hC] at hrest
          have := List.append_cancel_left hrest
          exact (List.cons.inj this).1.symm
        subst hx
        simp only
        have hs1 : TStep e.tr (t1.ev s!"r={k}:{hexOrDash [x]}") :=
          s1.trans (TStep.ev _ (by simp [isHS, toString_str]))
        have hrq' : RQL K (outOf id (echoW dC)) r1 (t1.ev s!"r={k}:{hexOrDash [x]}") (dC ++ [x]) dO' w := hrq.tr rfl
        refine ((pwrite_of_preadL ih x) f r1 _ ws dC dO' .fresh (Lb ++ w) [] w hC (by
            show wcost ([x] : Bytes).length + 3 * bs.length + 8 ≤ f
            simp only [List.length_cons] at hf
            have : wcost ([x] : Bytes).length = 2 := by show wcost 1 = 2; decide
            omega) (hb.step hs1) hrq'
          (hid 1) ((hid 0).wst 0 [x]) (by
            show (t1.ev _).wlog = _
            rw [Transport.ev_wlog, hwl, List.append_nil]) rfl).after hs1 rfl
      · exfalso
        rw [hdc] at hC
        have := congrArg List.length hC
        simp at this

/-! ## The connection level -/

theorem RStL.cong {K : RCtx} {L P H : Bytes} {r : AReq} {m m' : MutexSt} {t t' : Transport} {dC dO : Bytes}
    (h : RStL K L P H r m t dC dO) (hm : m' = m) (hin : t'.input = t.input) (hwl : t'.wlog = t.wlog) :
    RStL K L P H r m' t' dC dO := by
  obtain ⟨w, O1, h1, h2, h3⟩ := h
  subst hm
  exact ⟨w, O1, hwl.trans h1, h2, ⟨by show ∃ G, RInv K r G t'.input dC dO; rw [hin]; exact h3.inv, h3.lk, h3.mx, h3.log⟩⟩

/-- the final log: the base, then an interleaving of the owed stream replies with the handler's records and the
epilogue -/
def Led (g : Cfg) (Lf : Bytes) : Prop :=
  ∃ w, Lf = g.L1 ++ w ∧ Ilv w g.Ob (outOf g.p.id (echoW g.content) ++ g.epi)

def TQL (g : Cfg) (c : Conn) : Prop := ∃ Lf, Led g Lf ∧ LE g Lf g.epi c
def AQL (g : Cfg) (c : Conn) : Prop := ∃ Lf, Led g Lf ∧ AfterE g Lf c
def FQL (g : Cfg) (c : Conn) : Prop := ∃ Lf, Led g Lf ∧ FinE g Lf c

/-- the handler at a `read` of the loop -/
def HERL (g : Cfg) (c : Conn) : Prop :=
  ∃ (r : AReq) (dC rem : Bytes) (ws : _root_.Fin 2 → Writer) (dO : Bytes), g.content = dC ++ rem ∧
    c.phase = .handler r { ops := echoOps rem g.st, sub := .fresh, writers := wtab ws, propagate := true } ∧
    RStL g.K g.L1 [] (outOf g.p.id (echoW dC)) r c.env.mutex c.env.tr dC dO ∧
    (∀ j : _root_.Fin 2, WIdle (6 + j.val) g.p.id (ws j)) ∧
    Ben c.env.tr ∧ c.stop = false ∧ Ev1 g c.env.tr ∧ c.scripts = g.more

/-- the handler inside a `write_all` of the loop -/
def HEWL (g : Cfg) (c : Conn) : Prop :=
  ∃ (r : AReq) (h : HState) (dC : Bytes) (b : UInt8) (rem : Bytes) (ws : _root_.Fin 2 → Writer) (L sent dO w : Bytes),
    g.content = dC ++ b :: rem ∧ c.phase = .handler r h ∧
    h.ops = .writeAll 0 [b] :: echoOps rem g.st ∧ h.propagate = true ∧ h.writers = wtab ws ∧
    WIdle 7 g.p.id (ws 1) ∧ WSt2 6 0 g.p.id (ws 0) c.env.mutex (restOf h.sub [b]) sent ∧
    c.env.tr.wlog = L ++ sent ∧
    L ++ streamRecords 6 g.p.id (restOf h.sub [b]) = g.L1 ++ w ++ streamRecords 6 g.p.id [b] ∧
    RQL g.K (outOf g.p.id (echoW dC)) r c.env.tr (dC ++ [b]) dO w ∧
    Ben c.env.tr ∧ c.stop = false ∧ Ev1 g c.env.tr ∧ c.scripts = g.more

def S0L (g : Cfg) (c : Conn) : Prop := FStage g c ∨ HERL g c ∨ HEWL g c
def SL (g : Cfg) (c : Conn) : Prop := S0L g c ∨ TQL g c
abbrev RL (g : Cfg) (N : Nat) (c : Conn) : Prop := GRes3 (SL g) (AQL g) (FQL g) N c

theorem SL.cong {g : Cfg} (c c' : Conn) (h : SL g c)
    (hph : c'.phase = c.phase) (hsc : c'.scripts = c.scripts) (hstop : c'.stop = c.stop)
    (hm : c'.env.mutex = c.env.mutex) (hs : TrSame c.env.tr c'.env.tr) : SL g c' := by
  rcases h with (h | ⟨r, dC, rem, ws, dO, h0, h1, h2, h3, h4, h5, h6, h7⟩ |
    ⟨r, h, dC, b, rem, ws, L, sent, dO, w, h0, h1, a1, a2, a3, a4, a5, a6, a7, a8, h4, h5, h6, h7⟩) | ⟨Lf, hl, h⟩
  · exact Or.inl (Or.inl (h.cong hph hsc hstop hm hs))
  · exact Or.inl (Or.inr (Or.inl ⟨r, dC, rem, ws, dO, h0, hph.trans h1, h2.cong hm hs.input hs.wlog, h3, hs.ben h4,
      hstop.trans h5, hs.ev1 h6, hsc.trans h7⟩))
  · exact Or.inl (Or.inr (Or.inr ⟨r, h, dC, b, rem, ws, L, sent, dO, w, h0, hph.trans h1, a1, a2, a3, a4, by rw [hm]; exact a5,
      by rw [hs.wlog]; exact a6, a7, a8.tr hs.input, hs.ben h4, hstop.trans h5, hs.ev1 h6, hsc.trans h7⟩))
  · exact Or.inr ⟨Lf, hl, h.cong hph hsc hstop hm hs⟩

theorem bdoneL {g : Cfg} {c : Conn} {r0 r : AReq} {h h' : HState} {e' : Run.Env}
    {w O1 : Bytes} (hph : c.phase = .handler r0 h)
    (heq : handlerPoll ((handlerFuel c.env r0 + scriptOf c)) r0 h c.env = (r, h', e', .done (.ok g.st)))
    (hws : h'.writers = [none, none]) (hm : e'.mutex = none)
    (hlog : e'.tr.wlog = g.L1 ++ w) (hil : Ilv w O1 (outOf g.p.id (echoW g.content)))
    (hfin : REnd g.N r e'.tr.input) (hO : O1 ++ r.sp.output = g.Ob)
    (hts : TStep c.env.tr e'.tr) (hsg : e'.segs = c.env.segs)
    (hb : Ben c.env.tr) (hstop : c.stop = false) (hev : Ev1 g c.env.tr) (hsc : c.scripts = g.more) :
    RL g 3 c := by
  have hstep := C07.handler_step c r0 h hph
  rw [heq] at hstep
  have halive : (h'.writers.filter Option.isSome).length = 0 := by rw [hws]; rfl
  simp only [halive] at hstep
  have hstep' : stepConn c =
      .next ⟨.closing r .start g.st 0, e'.ev s!"HE(ok:{showStatus g.st})", c.scripts, c.stop⟩ := hstep
  have hts2 : TStep c.env.tr (e'.tr.ev s!"HE(ok:{showStatus g.st})") :=
    hts.trans (TStep.ev _ (by simp [isHS, toString_str]))
  obtain ⟨heq2, hce⟩ := close_start_eq (g := g) (r := r) (t := e'.tr.ev s!"HE(ok:{showStatus g.st})") hfin
  have hled : Led g (g.L1 ++ w ++ r.sp.output ++ g.epi) :=
    ⟨w ++ r.sp.output ++ g.epi, by simp only [List.append_assoc], by
      have := ((hil.rep r.sp.output).hnd g.epi)
      rw [hO] at this; exact this⟩
  have hcore := eclose_out (g := g) (Lf := g.L1 ++ w ++ r.sp.output ++ g.epi) (ep := g.epi)
    (c := ⟨.closing r .start g.st 0, e'.ev s!"HE(ok:{showStatus g.st})", c.scripts, c.stop⟩)
    (r := r) (r2 := closeReq r) (cs := .start) (rest := r.sp.output) rfl
    (by show closePoll r .start g.st 0 e'.mutex _ = closeP4 _ none _ _
        rw [hm]; exact heq2)
    (.refl _) hce
    (by show (e'.tr.ev _).wlog ++ r.sp.output ++ g.epi = _
        rw [Transport.ev_wlog, hlog])
    (hb.step hts2) hstop (hev.step hts2) hsc
  have hres : RL g 2 ⟨.closing r .start g.st 0, e'.ev s!"HE(ok:{showStatus g.st})", c.scripts, c.stop⟩ := hcore.imp
    (fun c' _ x => Or.inr ⟨_, hled, x⟩)
    (fun c' _ x => (⟨_, hled, x⟩ : AQL g c'))
    (fun c' _ x => (⟨_, hled, x⟩ : FQL g c'))
  exact (GRes3.of_steps (Steps.one hstep') ⟨hts2.w, hsg, rfl⟩ hres).mono (by omega)

theorem tq_pollL {g : Cfg} {c : Conn} (h : TQL g c) : RL g 2 c := by
  obtain ⟨Lf, hl, h⟩ := h
  exact (le_poll h).imp
    (fun c' _ x => Or.inr ⟨Lf, hl, x⟩)
    (fun c' _ x => ⟨Lf, hl, x⟩)
    (fun c' _ x => ⟨Lf, hl, x⟩)

/-- The hypotheses on the request: those of `EOK` without `quiet`. -/
structure EOKL (g : Cfg) : Prop where
  wf : WellFormedPreamble g.p g.recs
  role : g.p.role = 1
  pairs : ∀ q ∈ g.p.pairs, (NV.enc q).length ≤ alignedBufsize g.b
  noise : NoiseFits (alignedBufsize g.b) g.recs
  hb : Body g.p.id 5 g.content g.body
  hf : NoiseFits (alignedBufsize g.b) g.body
  hp : g.pad.length < 256
  hX2 : g.X2 = []
  hX : g.X = serAll g.body ++ g.term.ser
  hU : g.U = g.term.ser
  hs : g.hscript = echoScript g.content g.st

theorem EOKL.fok {g : Cfg} (ok : EOKL g) : FOK g := ⟨ok.wf, ok.pairs, ok.noise⟩
theorem EOKL.hid {g : Cfg} (ok : EOKL g) : g.p.id < 65536 := (pid_of_wf ok.wf).2
theorem EOKL.kok {g : Cfg} (ok : EOKL g) : g.K.OK := resp_kok ok.hid ok.hb ok.hf ok.hp ok.hX2 ok.hX
theorem EOKL.kfin {g : Cfg} (ok : EOKL g) : g.K.final = true := by
  simp [RCtx.final, Cfg.K, ok.role, nextInputStream, RT.stdin]

/-- what a poll of the echo loop comes to -/
theorem eout_resL {g : Cfg} (ok : EOKL g) {c : Conn} {r0 : AReq} {h : HState}
    (hph : c.phase = .handler r0 h) {out : AReq × HState × Run.Env × HRes}
    (heq : handlerPoll ((handlerFuel c.env r0 + scriptOf c)) r0 h c.env = out)
    (ho : EOutL g.K g.p.id g.st g.L1 c.env out)
    (hb : Ben c.env.tr) (hstop : c.stop = false) (hev : Ev1 g c.env.tr) (hsc : c.scripts = g.more) :
    RL g 3 c := by
  obtain ⟨r', h', e', res⟩ := out
  obtain ⟨q0, q1, q2⟩ := ho
  simp only at q0 q1 q2
  rcases q2 with ⟨rfl, hwk, hans, dC, rem, ws, dO, hC, rfl, hrst, hid⟩ |
      ⟨rfl, hwk, hans, dC, b, rem, ws, L, sent, dO, w, hC, a1, a2, a3, a4, a5, a6, a7, a8⟩ |
      ⟨rfl, hws, hm, ⟨w, hlog, hrq⟩, hpay, hpad, hwire, hwr⟩
  · have hstep := C07.handler_step c r0 h hph
    rw [heq] at hstep
    have hstep' : stepConn c = .halt ⟨.handler r' _, e', c.scripts, c.stop⟩ .pending := hstep
    exact Or.inl (Or.inl ⟨_, (Halts.now hstep').mono (by omega), ⟨q1.w, q0, rfl⟩,
      Or.inl (Or.inr (Or.inl ⟨r', dC, rem, ws, dO, hC, rfl, hrst, hid, hb.step q1, hstop, hev.step q1, hsc⟩)), hwk, hans⟩)
  · have hstep := C07.handler_step c r0 h hph
    rw [heq] at hstep
    have hstep' : stepConn c = .halt ⟨.handler r' h', e', c.scripts, c.stop⟩ .pending := hstep
    exact Or.inl (Or.inl ⟨_, (Halts.now hstep').mono (by omega), ⟨q1.w, q0, rfl⟩,
      Or.inl (Or.inr (Or.inr ⟨r', h', dC, b, rem, ws, L, sent, dO, w, hC, rfl, a1, a2, a3, a4, a5, a6, a7, a8, hb.step q1, hstop,
        hev.step q1, hsc⟩)), hwk, hans⟩)
  · obtain ⟨G, hi⟩ := hrq.inv
    obtain ⟨O1, hO, hil⟩ := hrq.led
    have hfin : REnd g.N r' e'.tr.input := by
      have := REnd.of_read hi (hwr ok.kfin) hrq.lock hpay hpad hwire
      have hN : g.K.ectx = g.N := by simp [RCtx.ectx, Cfg.N, Cfg.K, ok.hX2, ok.hU]
      rw [hN] at this; exact this
    exact bdoneL hph heq hws hm hlog hil hfin hO q1 q0 hb hstop hev hsc

theorem her_pollL {g : Cfg} (ok : EOKL g) {c : Conn} (h : HERL g c) : RL g 3 c := by
  obtain ⟨r, dC, rem, ws, dO, hC, hph, hrst, hid, hb, hstop, hev, hsc⟩ := h
  have hfuel := handlerFuel_ge c.env r
  have hsc0 : scriptOf c = 3 * rem.length + 4 := by rw [scriptOf_handler hph, scriptCost_echo]
  have h24 : 24 ≤ g.K.cap := cap24 g
  exact eout_resL ok hph rfl (pread_allL ok.kok h24 g.p.id g.st g.L1 rem _ r c.env ws dC dO hC (by omega) hb hrst hid)
    hb hstop hev hsc

theorem hew_pollL {g : Cfg} (ok : EOKL g) {c : Conn} (h : HEWL g c) : RL g 3 c := by
  obtain ⟨r, ⟨ops, sub, wsl, pr⟩, dC, b, rem, ws, L, sent, dO, w, hC, hph, a1, a2, a3, a4, a5, a6, a7, a8, hb, hstop, hev, hsc⟩ := h
  simp only at a1 a2 a3 a5 a7
  subst a1 a2 a3
  have hfuel := handlerFuel_ge c.env r
  have h24 : 24 ≤ g.K.cap := cap24 g
  have hsc0 : scriptOf c = curCost sub (.writeAll 0 [b]) + (3 * rem.length + 4) := by
    rw [scriptOf_handler hph]
    have := scriptCost_echo rem g.st (wtab ws) true
    rw [scriptCost_fresh] at this
    simp only [scriptCost, this]
  have hwc := wcost_le_cur sub b
  exact eout_resL ok hph rfl (pwrite_of_preadL (pread_allL ok.kok h24 g.p.id g.st g.L1 rem) b _ r c.env ws dC dO sub L sent w
    hC (by omega) hb a8 a4 a5 a6 a7) hb hstop hev hsc

/-- the first poll of the handler: both writers are opened, then the loop -/
theorem echo_firstL {g : Cfg} (ok : EOKL g) (c : Conn) (hc : FirstCfg g c) : RL g 6 c := by
  obtain ⟨e1, hph, hlen, hwire, hlog, hm, hb, hstop, hev, hsc⟩ := hc
  have hrole : g.p.request.role = 1 := ok.role
  have hstart : C03SI.Start g.K.E (Str.Parser.fromParser g.cap g.p.request e1 g.mc) :=
    C03SI.start_fresh g.cap g.p.request e1 g.mc hlen ok.hid (Or.inl hrole)
  have hrinv : RInv g.K (AReq.new (Str.Parser.fromParser g.cap g.p.request e1 g.mc)) e1 c.env.tr.input [] [] := by
    refine ⟨hstart.mtch, hstart.inv, rfl, rfl, rfl, hwire, fun x => ?_⟩
    have := C03SI.rem_start hstart x
    show refWire g.K.E (e1 ++ x) = (Rem g.K.E (Str.Parser.fromParser g.cap g.p.request e1 g.mc) x).pre [] []
    rw [this]; rfl
  rw [ok.hs] at hph
  have hwr : (AReq.new (Str.Parser.fromParser g.cap g.p.request e1 g.mc)).writeable = true := by
    simp [AReq.new, Str.Parser.fromParser, hrole, inputStreams]
  have hfuel := handlerFuel_ge c.env (AReq.new (Str.Parser.fromParser g.cap g.p.request e1 g.mc))
  have hsc0 : scriptOf c = 2 + (3 * g.content.length + 4) := by
    rw [scriptOf_handler hph]
    have := scriptCost_echo g.content g.st [] true
    rw [scriptCost_fresh] at this
    rw [scriptCost_fresh]
    simp only [echoScript, List.map_cons, List.sum_cons, opCost, this]
    omega
  have h24 : 24 ≤ g.K.cap := cap24 g
  refine (eout_resL ok hph rfl ?_ hb hstop hev hsc).mono (by omega)
  obtain ⟨f2, hf2⟩ : ∃ f2, (handlerFuel c.env (AReq.new (Str.Parser.fromParser g.cap g.p.request e1 g.mc)) + scriptOf c) = f2 + 2 :=
    ⟨(handlerFuel c.env (AReq.new (Str.Parser.fromParser g.cap g.p.request e1 g.mc)) + scriptOf c) - 2, by omega⟩
  rw [hf2]
  show EOutL g.K g.p.id g.st g.L1 c.env (handlerPoll (f2 + 1 + 1) _
    { ops := .open_ 6 :: .open_ 7 :: echoOps g.content g.st, sub := .fresh, writers := [], propagate := true } c.env)
  rw [hp_open]
  rw [if_neg (by simp [hwr, outputStreams, RT.stdout, RT.stderr])]
  rw [hp_open]
  rw [if_neg (by simp [hwr, outputStreams, RT.stdout, RT.stderr])]
  have hs1 : TStep c.env.tr ((c.env.ev s!"o=w{([] : List (Option Writer)).length}").ev
      s!"o=w{(([] : List (Option Writer)) ++ [some ({ rtype := 6, id := (AReq.new (Str.Parser.fromParser g.cap g.p.request e1 g.mc)).sp.request.id } : Writer)]).length}").tr :=
    (TStep.ev _ (by decide)).trans (TStep.ev _ (by simp [isHS, toString_str]))
  refine (pread_allL ok.kok h24 g.p.id g.st g.L1 g.content f2 _ _
    (fun j => if j = 0 then { rtype := 6, id := g.p.id } else { rtype := 7, id := g.p.id }) [] [] rfl (by omega)
    (hb.step hs1) ?_ (fun j => by
      match j with
      | ⟨0, _⟩ => exact ⟨rfl, rfl, rfl, rfl⟩
      | ⟨1, _⟩ => exact ⟨rfl, rfl, rfl, rfl⟩)).after hs1 rfl
  refine ⟨[], [], ?_, .nil, ⟨e1, hrinv⟩, by rw [show ((c.env.ev _).ev _).mutex = c.env.mutex from rfl, hm]; exact lockInv_free rfl,
    Or.inl hm, ⟨[], rfl, rfl⟩⟩
  show ((c.env.tr.ev _).ev _).wlog = _
  rw [Transport.ev_wlog, Transport.ev_wlog, hlog, List.append_nil]

theorem sl_poll {g : Cfg} (ok : EOKL g) {c : Conn} (h : SL g c) : RL g (2 * c.env.tr.input.length + 15) c := by
  rcases h with (h | h | h) | h
  · exact fstage_poll3 ok.fok (fun _ h => Or.inl (Or.inl h)) (echo_firstL ok) h
  · exact (her_pollL ok h).mono (by omega)
  · exact (hew_pollL ok h).mono (by omega)
  · exact (tq_pollL h).mono (by omega)

/-- **The executor** for the echo Responder with any noise. -/
theorem run_echoL {g : Cfg} (ok : EOKL g) {Z : Bytes}
    (hns : NoStuckW g.cap g.mc (g.U ++ Z))
    (hNF : ∀ F x, F ++ x ++ Z = g.U ++ Z → (run .header F g.mc).st.isFinal = false)
    (em : EndMode) (evs0 : List String) (c : Conn) (n0 fuel : Nat) (hst : FStage g c)
    (hem : c.env.tr.endMode = em) (hev0 : ∀ s ∈ evs0, s ∈ c.env.tr.events)
    (hsegs : c.env.segs = []) (hf : ans c.env.tr + 1 ≤ fuel) :
    ∃ c'' fin, runTask fuel c n0 none = (c'', fin) ∧
      (GEnd g.cap g.mc Z g.more (g.hs0 + 1)
          (fun Lf : Bytes => g.p.flags.toNat % 2 = 1 ∧ Led g Lf)
          (fun _ => g.U ++ Z) (fun Lf => Lf)
          (fun _ => [hsEvent g.p.request]) em evs0 (ans c.env.tr) c'' fin ∨
       (fin = "RET" ∧ FQL g c'' ∧ c''.env.tr.endMode = em ∧ (∀ s ∈ evs0, s ∈ c''.env.tr.events))) :=
  run_stages3' (cap24 g) (fun _ _ => hns) (fun _ _ => hNF)
    (fun c c' h => SL.cong c c' h)
    (fun _ h => (sl_poll ok h).imp (fun _ _ h => h) (fun c1 _ h => by
      obtain ⟨Lf, hl, haf⟩ := h
      obtain ⟨raw, hph, hw, hraw⟩ := haf.ph
      exact ⟨Lf, ⟨haf.keep, hl⟩,
        Or.inr ⟨raw, hph, by rw [hw], hraw, haf.log, haf.ben, haf.stop⟩,
        ⟨haf.sc, haf.mtx, haf.ev.1, fun s hs => by rw [List.mem_singleton.1 hs]; exact haf.ev.2⟩⟩) (fun _ _ h => h))
    em evs0 c n0 fuel (Or.inl (Or.inl hst)) hem hev0 hsegs hf

end Fcgi.E2E
