import Fcgi.Proofs.E2ERun
/-!
# End-to-end composition (C07) — part 7: a closed-loop client sending several requests

`closedLoop`: the executor `runTask` driven by a client that keeps one request outstanding: whenever
the task has parked (`STALL`) the client sends the next request's bytes and the task is woken.
`chain_run`: for a chain of KEEP_CONN requests (`Linked`) every request is served in turn.  The write
log at which a request starts depends on how the previous ones were served (which of the replies
owed for stream noise came before resp. after the handler's output), so the `L0` fields of the
configurations after the first are ignored and threaded through instead (`LogChain`).
-/
namespace Fcgi.E2E
open Fcgi Fcgi.Req Fcgi.Str Fcgi.Async Fcgi.Run Fcgi.Spec

/-- the peer sends `w` (the transport's input was exhausted) -/
def feed (c : Conn) (w : Bytes) : Conn :=
  { c with env := { c.env with tr := { c.env.tr with input := w } } }

/-- The executor with a closed-loop client: it sends the next request when the task has parked. -/
def closedLoop (fuel : Nat) : List Bytes → Conn → Nat → Conn × String
  | [], c, n => runTask fuel c n none
  | w :: ws, c, n =>
    match runTask fuel c n none with
    | (c', fin) => if fin = "STALL" then closedLoop fuel ws (feed c' w) (n + 1000) else (c', fin)

/-- `g2` is the request the client sends after `g` on the same connection. -/
structure Linked (g g2 : Cfg) : Prop where
  b : g2.b = g.b
  mc : g2.mc = g.mc
  hs0 : g2.hs0 = g.hs0 + 1
  more : g.more = (g2.hscript, true) :: g2.more
  keep : g.p.flags.toNat % 2 = 1

def ChainFrom : Cfg → List Cfg → Prop
  | _, [] => True
  | g, g2 :: gs => Linked g g2 ∧ ChainFrom g2 gs

/-- `g` started at write log `L` -/
def Cfg.at (g : Cfg) (L : Bytes) : Cfg := { g with L0 := L }

theorem Cfg.Shape.at {g : Cfg} (h : g.Shape) (L : Bytes) : (g.at L).Shape := by
  cases h with
  | responderU hr hb hf hp hX2 hX hU hOt hrv hs hfu => exact .responderU hr hb hf hp hX2 hX hU hOt hrv hs hfu
  | authorizer hr hX hU hOt hrv hs hfu => exact .authorizer hr hX hU hOt hrv hs hfu
  | filterU hr hb hb2 hf hf2 hp hp2 hX2 hX hU hOt hrv hs hfu =>
    exact .filterU hr hb hb2 hf hf2 hp hp2 hX2 hX hU hOt hrv hs hfu

theorem Cfg.OK.at {g : Cfg} (ok : g.OK) (L : Bytes) : (g.at L).OK :=
  ⟨ok.wf, ok.pairs, ok.noise, ok.shape.at L⟩

/-- the write log after the requests `gs` were served one after the other, starting from `L` -/
def LogChain : Bytes → List Cfg → Bytes → Prop
  | L, [], L' => L' = L
  | L, g :: gs, L' => ∃ O1 O2, O1 ++ O2 = g.Ot ∧ LogChain ((g.at L).L3 O1 O2) gs L'

/-- the last request of the chain -/
def lastP (g : Cfg) (gs : List Cfg) : Cfg := (g :: gs).getLast (by simp)

theorem lastP_cons (g g2 : Cfg) (gs : List Cfg) : lastP g (g2 :: gs) = lastP g2 gs := by
  simp [lastP, List.getLast_cons_cons]

theorem lastP_at (g : Cfg) (gs : List Cfg) (L : Bytes) : ∃ L', lastP (g.at L) gs = (lastP g gs).at L' := by
  cases gs with
  | nil => exact ⟨L, rfl⟩
  | cons g2 gs => exact ⟨(lastP g2 gs).L0, by rw [lastP_cons, lastP_cons]; rfl⟩

theorem track_nil (cap mc : Nat) : track cap mc [] = ⟨cap, [], .header, mc⟩ := by
  simp only [track, resting_header mc]

/-- The parked connection, fed the next request, stands at the start of that request's
`parse_request` (mid-`read`, nothing consumed yet). -/
theorem next_stage {g g2 : Cfg} {O1 O2 : Bytes} {c : Conn} (hp : Parked g O1 O2 c) (hl : Linked g g2)
    (hL : g2.L0 = g.L3 O1 O2) : Stage g2 (feed c g2.W) := by
  have hcap : g2.cap = g.cap := by simp only [Cfg.cap, hl.b]
  refine .parse (F := []) ⟨?_, hp.stop, ⟨hp.ben.rd, hp.ben.wr, hp.ben.hold, hp.ben.em⟩, ?_, Or.inl ⟨?_, ?_, ?_⟩⟩
    (hp.sc.trans hl.more) hp.mtx (hp.ev.1.trans hl.hs0.symm)
  · show [] ++ g2.W ++ [] = g2.W
    simp
  · rw [resting_header]; exact Nat.zero_le _
  · show c.phase = _
    rw [hp.ph, track_nil, hcap, hl.mc]
  · rw [resting_header]; rfl
  · show c.env.tr.wlog = g2.L0 ++ _
    rw [resting_header, hp.log, hL]; simp

theorem Linked.at_right {g g2 : Cfg} (h : Linked g g2) (L : Bytes) : Linked g (g2.at L) :=
  ⟨h.b, h.mc, h.hs0, h.more, h.keep⟩

theorem ChainFrom.at_left : ∀ {gs : List Cfg} {g : Cfg} (_ : ChainFrom g gs) (L : Bytes), ChainFrom (g.at L) gs
  | [], _, _, _ => trivial
  | _ :: _, _, h, _ => ⟨⟨h.1.b, h.1.mc, h.1.hs0, h.1.more, h.1.keep⟩, h.2⟩

/-- How the closed loop ends, in terms of the last request `gl` of the chain. -/
structure ChainEnd (gl : Cfg) (c' : Conn) (fin : String) : Prop where
  hs : hsCount c'.env.tr.events = gl.hs0 + 1
  sc : c'.scripts = gl.more
  fin : (fin = "RET" ∧ c'.phase = .finished ∧
          (gl.p.flags.toNat % 2 = 0 ∨ (gl.p.flags.toNat % 2 = 1 ∧ c'.env.tr.endMode = .eof))) ∨
        (fin = "STALL" ∧ c'.phase = .parseReq ⟨gl.cap, [], .header, gl.mc⟩ .reading ∧
          c'.env.tr.input = [] ∧ gl.p.flags.toNat % 2 = 1)

theorem ChainEnd.at {gl : Cfg} {L : Bytes} {c' : Conn} {fin : String} (h : ChainEnd (gl.at L) c' fin) :
    ChainEnd gl c' fin := ⟨h.hs, h.sc, h.fin⟩

theorem chain_run : ∀ (gs : List Cfg) (g : Cfg) (c : Conn) (n fuel : Nat),
    Stage g c → c.env.segs = [] → c.env.tr.endMode = .pend → ans c.env.tr + 1 ≤ fuel →
    4 * c.env.tr.input.length + 17 ≤ 100000 → g.OK →
    (∀ g' ∈ gs, g'.OK ∧ 4 * g'.W.length + 17 ≤ 100000) → ChainFrom g gs →
    ∃ c' fin, closedLoop fuel (gs.map Cfg.W) c n = (c', fin) ∧
      (∀ s, s ∈ c.env.tr.events → s ∈ c'.env.tr.events) ∧ c'.env.tr.endMode = .pend ∧
      LogChain g.L0 (g :: gs) c'.env.tr.wlog ∧ ChainEnd (lastP g gs) c' fin ∧
      (∀ g' ∈ g :: gs, hsEvent g'.p.request ∈ c'.env.tr.events ∧ ∀ s ∈ g'.revs, s ∈ c'.env.tr.events) := by
  intro gs
  induction gs with
  | nil =>
    intro g c n fuel hst hsegs hem hf hlen ok _ _
    obtain ⟨c', ⟨hem', _, _, hevm⟩, O1, O2, hO, hres⟩ :=
      run_from_stage ok (ans c.env.tr) c n fuel hst hsegs (Nat.le_refl _) hf hlen
    rcases hres with ⟨hrun, hfin⟩ | ⟨hrun, hpk⟩
    · refine ⟨c', "RET", hrun, hevm, hem'.trans hem, ⟨O1, O2, hO, hfin.log⟩,
        ⟨hfin.ev.1, hfin.sc, Or.inl ⟨rfl, hfin.ph, hfin.why⟩⟩, fun g' hg' => ?_⟩
      rw [List.mem_singleton.1 hg']
      exact ⟨hfin.ev.2, hfin.re⟩
    · refine ⟨c', "STALL", hrun, hevm, hem'.trans hem, ⟨O1, O2, hO, hpk.log⟩,
        ⟨hpk.ev.1, hpk.sc, Or.inr ⟨rfl, hpk.ph, hpk.inp, hpk.keep⟩⟩, fun g' hg' => ?_⟩
      rw [List.mem_singleton.1 hg']
      exact ⟨hpk.ev.2, hpk.re⟩
  | cons g2 gs ih =>
    intro g c n fuel hst hsegs hem hf hlen ok hall hch
    obtain ⟨hl, hch2⟩ := hch
    obtain ⟨c', ⟨hem', hans', hsegs', hevm⟩, O1, O2, hO, hres⟩ :=
      run_from_stage ok (ans c.env.tr) c n fuel hst hsegs (Nat.le_refl _) hf hlen
    rcases hres with ⟨hrun, hfin⟩ | ⟨hrun, hpk⟩
    · exfalso
      rcases hfin.why with h | ⟨_, h⟩
      · have := hl.keep; omega
      · rw [hem', hem] at h; cases h
    · have hst2 := next_stage (g2 := g2.at (g.L3 O1 O2)) hpk (hl.at_right _) rfl
      obtain ⟨ok2, hlen2⟩ := hall g2 (List.mem_cons_self)
      obtain ⟨c2, fin2, hrun2, hevm2, hem2, hlog2, hend2, hall2⟩ :=
        ih (g2.at (g.L3 O1 O2)) (feed c' g2.W) (n + 1000) fuel hst2 hsegs'
          (by show c'.env.tr.endMode = .pend; rw [hem', hem])
          (by show ans c'.env.tr + 1 ≤ fuel; omega) hlen2 (ok2.at _)
          (fun g' hg' => hall g' (List.mem_cons_of_mem _ hg')) (hch2.at_left _)
      obtain ⟨L', hL'⟩ := lastP_at g2 gs (g.L3 O1 O2)
      refine ⟨c2, fin2, ?_, fun s hs => hevm2 s (hevm s hs), hem2, ⟨O1, O2, hO, ?_⟩, ?_, ?_⟩
      · simp only [closedLoop, List.map_cons, hrun, if_true]
        exact hrun2
      · have : (g.at g.L0) = g := by cases g; rfl
        rw [this]
        obtain ⟨P1, P2, hP, hrest⟩ := hlog2
        exact ⟨P1, P2, hP, by
          have h2 : ((g2.at (g.L3 O1 O2)).at (g2.at (g.L3 O1 O2)).L0) = g2.at (g.L3 O1 O2) := rfl
          rw [h2] at hrest
          exact hrest⟩
      · rw [lastP_cons]
        rw [hL'] at hend2
        exact hend2.at
      · intro g' hg'
        rcases List.mem_cons.1 hg' with rfl | hg'
        · exact ⟨hevm2 _ hpk.ev.2, fun s hs => hevm2 _ (hpk.re s hs)⟩
        · rcases List.mem_cons.1 hg' with rfl | hg''
          · exact hall2 (g'.at (g.L3 O1 O2)) List.mem_cons_self
          · exact hall2 g' (List.mem_cons_of_mem _ hg'')

/-- `chain_run` without any bound on the size of the requests -/
theorem chain_run' : ∀ (gs : List Cfg) (g : Cfg) (c : Conn) (n fuel : Nat),
    Stage g c → c.env.segs = [] → c.env.tr.endMode = .pend → ans c.env.tr + 1 ≤ fuel →
    g.OK → (∀ g' ∈ gs, g'.OK) → ChainFrom g gs →
    ∃ c' fin, closedLoop fuel (gs.map Cfg.W) c n = (c', fin) ∧
      (∀ s, s ∈ c.env.tr.events → s ∈ c'.env.tr.events) ∧ c'.env.tr.endMode = .pend ∧
      LogChain g.L0 (g :: gs) c'.env.tr.wlog ∧ ChainEnd (lastP g gs) c' fin ∧
      (∀ g' ∈ g :: gs, hsEvent g'.p.request ∈ c'.env.tr.events ∧ ∀ s ∈ g'.revs, s ∈ c'.env.tr.events) := by
  intro gs
  induction gs with
  | nil =>
    intro g c n fuel hst hsegs hem hf ok _ _
    obtain ⟨c', ⟨hem', _, _, hevm⟩, O1, O2, hO, hres⟩ :=
      run_from_stage' ok (ans c.env.tr) c n fuel hst hsegs (Nat.le_refl _) hf
    rcases hres with ⟨hrun, hfin⟩ | ⟨hrun, hpk⟩
    · refine ⟨c', "RET", hrun, hevm, hem'.trans hem, ⟨O1, O2, hO, hfin.log⟩,
        ⟨hfin.ev.1, hfin.sc, Or.inl ⟨rfl, hfin.ph, hfin.why⟩⟩, fun g' hg' => ?_⟩
      rw [List.mem_singleton.1 hg']
      exact ⟨hfin.ev.2, hfin.re⟩
    · refine ⟨c', "STALL", hrun, hevm, hem'.trans hem, ⟨O1, O2, hO, hpk.log⟩,
        ⟨hpk.ev.1, hpk.sc, Or.inr ⟨rfl, hpk.ph, hpk.inp, hpk.keep⟩⟩, fun g' hg' => ?_⟩
      rw [List.mem_singleton.1 hg']
      exact ⟨hpk.ev.2, hpk.re⟩
  | cons g2 gs ih =>
    intro g c n fuel hst hsegs hem hf ok hall hch
    obtain ⟨hl, hch2⟩ := hch
    obtain ⟨c', ⟨hem', hans', hsegs', hevm⟩, O1, O2, hO, hres⟩ :=
      run_from_stage' ok (ans c.env.tr) c n fuel hst hsegs (Nat.le_refl _) hf
    rcases hres with ⟨hrun, hfin⟩ | ⟨hrun, hpk⟩
    · exfalso
      rcases hfin.why with h | ⟨_, h⟩
      · have := hl.keep; omega
      · rw [hem', hem] at h; cases h
    · have hst2 := next_stage (g2 := g2.at (g.L3 O1 O2)) hpk (hl.at_right _) rfl
      have ok2 := hall g2 (List.mem_cons_self)
      obtain ⟨c2, fin2, hrun2, hevm2, hem2, hlog2, hend2, hall2⟩ :=
        ih (g2.at (g.L3 O1 O2)) (feed c' g2.W) (n + 1000) fuel hst2 hsegs'
          (by show c'.env.tr.endMode = .pend; rw [hem', hem])
          (by show ans c'.env.tr + 1 ≤ fuel; omega) (ok2.at _)
          (fun g' hg' => hall g' (List.mem_cons_of_mem _ hg')) (hch2.at_left _)
      obtain ⟨L', hL'⟩ := lastP_at g2 gs (g.L3 O1 O2)
      refine ⟨c2, fin2, ?_, fun s hs => hevm2 s (hevm s hs), hem2, ⟨O1, O2, hO, ?_⟩, ?_, ?_⟩
      · simp only [closedLoop, List.map_cons, hrun, if_true]
        exact hrun2
      · have : (g.at g.L0) = g := by cases g; rfl
        rw [this]
        obtain ⟨P1, P2, hP, hrest⟩ := hlog2
        exact ⟨P1, P2, hP, by
          have h2 : ((g2.at (g.L3 O1 O2)).at (g2.at (g.L3 O1 O2)).L0) = g2.at (g.L3 O1 O2) := rfl
          rw [h2] at hrest
          exact hrest⟩
      · rw [lastP_cons]
        rw [hL'] at hend2
        exact hend2.at
      · intro g' hg'
        rcases List.mem_cons.1 hg' with rfl | hg'
        · exact ⟨hevm2 _ hpk.ev.2, fun s hs => hevm2 _ (hpk.re s hs)⟩
        · rcases List.mem_cons.1 hg' with rfl | hg''
          · exact hall2 (g'.at (g.L3 O1 O2)) List.mem_cons_self
          · exact hall2 g' (List.mem_cons_of_mem _ hg'')


end Fcgi.E2E
