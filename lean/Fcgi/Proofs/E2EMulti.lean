import Fcgi.Proofs.E2ERun
/-!
# End-to-end composition (C07) — part 7: a closed-loop client sending several requests

`closedLoop`: the executor `runTask` driven by a client that keeps one request outstanding: whenever
the task has parked (`STALL`) the client sends the next request's bytes and the task is woken.
`chain_run`: for a chain of KEEP_CONN requests (`Linked`) every request is served in turn.
-/
namespace Fcgi.E2E
open Fcgi Fcgi.Req Fcgi.Str Fcgi.Async Fcgi.Run Fcgi.Spec

/-- the peer sends `w` (the transport's input was exhausted) -/
def feed (c : Conn) (w : Bytes) : Conn :=
  { c with env := { c.env with tr := { c.env.tr with input := w } } }

/-- The executor with a closed-loop client: it sends the next request when the task has parked. -/
def closedLoop (fuel : Nat) : List Bytes → Conn → Nat → Conn × String
  | [], c, n => runTask fuel c n none
  | w :: ws, c, n =>
    match runTask fuel c n none with
    | (c', fin) => if fin = "STALL" then closedLoop fuel ws (feed c' w) (n + 1000) else (c', fin)

/-- `g2` is the request the client sends after `g` on the same connection. -/
structure Linked (g g2 : Cfg) : Prop where
  b : g2.b = g.b
  mc : g2.mc = g.mc
  L0 : g2.L0 = g.L3
  hs0 : g2.hs0 = g.hs0 + 1
  more : g.more = (script g2.data g2.st, true) :: g2.more
  keep : g.p.flags.toNat % 2 = 1

def ChainFrom : Cfg → List Cfg → Prop
  | _, [] => True
  | g, g2 :: gs => Linked g g2 ∧ ChainFrom g2 gs

theorem track_nil (cap mc : Nat) : track cap mc [] = ⟨cap, [], .header, mc⟩ := by
  simp only [track, resting_header mc]

/-- The parked connection, fed the next request, stands at the start of that request's
`parse_request` (mid-`read`, nothing consumed yet). -/
theorem next_stage {g g2 : Cfg} {c : Conn} (hp : Parked g c) (hl : Linked g g2) :
    Stage g2 (feed c g2.W) := by
  have hcap : g2.cap = g.cap := by simp only [Cfg.cap, hl.b]
  refine .parse (F := []) ⟨?_, hp.stop, ⟨hp.ben.rd, hp.ben.wr, hp.ben.hold, hp.ben.em⟩, ?_, Or.inl ⟨?_, ?_, ?_⟩⟩
    (hp.sc.trans hl.more) hp.mtx (hp.ev.1.trans hl.hs0.symm)
  · show [] ++ g2.W ++ [] = g2.W
    simp
  · rw [resting_header]; exact Nat.zero_le _
  · show c.phase = _
    rw [hp.ph, track_nil, hcap, hl.mc]
  · rw [resting_header]; rfl
  · show c.env.tr.wlog = g2.L0 ++ _
    rw [resting_header, hp.log, hl.L0]; simp

theorem chain_run : ∀ (gs : List Cfg) (g : Cfg) (c : Conn) (n fuel : Nat),
    Stage g c → c.env.segs = [] → c.env.tr.endMode = .pend → ans c.env.tr + 1 ≤ fuel →
    4 * c.env.tr.input.length + 17 ≤ 100000 → g.OK →
    (∀ g' ∈ gs, g'.OK ∧ 4 * g'.W.length + 17 ≤ 100000) → ChainFrom g gs →
    ∃ c' fin, closedLoop fuel (gs.map Cfg.W) c n = (c', fin) ∧
 (∀ s, s ∈ c.env.tr.events → s ∈ c'.env.tr.events) ∧ c'.env.tr.endMode = .pend ∧
      ((fin = "RET" ∧ Fin ((g :: gs).getLast (by simp)) c') ∨
       (fin = "STALL" ∧ Parked ((g :: gs).getLast (by simp)) c')) ∧
      (∀ g' ∈ g :: gs, hsEvent g'.p.request ∈ c'.env.tr.events ∧ rEvent g'.content ∈ c'.env.tr.events) := by
  intro gs
  induction gs with
  | nil =>
    intro g c n fuel hst hsegs hem hf hlen ok _ _
    obtain ⟨c', ⟨hem', _, _, hevm⟩, hres⟩ := run_from_stage ok (ans c.env.tr) c n fuel hst hsegs (Nat.le_refl _) hf hlen
    rcases hres with ⟨hrun, hfin⟩ | ⟨hrun, hpk⟩
    · refine ⟨c', "RET", hrun, hevm, hem'.trans hem, Or.inl ⟨rfl, hfin⟩, fun g' hg' => ?_⟩
      rw [List.mem_singleton.1 hg']
      exact ⟨hfin.ev.2, hfin.re⟩
    · refine ⟨c', "STALL", hrun, hevm, hem'.trans hem, Or.inr ⟨rfl, hpk⟩, fun g' hg' => ?_⟩
      rw [List.mem_singleton.1 hg']
      exact ⟨hpk.ev.2, hpk.re⟩
  | cons g2 gs ih =>
    intro g c n fuel hst hsegs hem hf hlen ok hall hch
    obtain ⟨hl, hch2⟩ := hch
    obtain ⟨c', ⟨hem', hans', hsegs', hevm⟩, hres⟩ :=
      run_from_stage ok (ans c.env.tr) c n fuel hst hsegs (Nat.le_refl _) hf hlen
    rcases hres with ⟨hrun, hfin⟩ | ⟨hrun, hpk⟩
    · exfalso
      rcases hfin.why with h | ⟨_, h⟩
      · have := hl.keep; omega
      · rw [hem', hem] at h; cases h
    · have hst2 := next_stage hpk hl
      obtain ⟨ok2, hlen2⟩ := hall g2 (List.mem_cons_self)
      obtain ⟨c2, fin2, hrun2, hevm2, hem2, hres2, hall2⟩ := ih g2 (feed c' g2.W) (n + 1000) fuel hst2 hsegs'
        (by show c'.env.tr.endMode = .pend; rw [hem', hem])
        (by show ans c'.env.tr + 1 ≤ fuel; omega) hlen2 ok2
        (fun g' hg' => hall g' (List.mem_cons_of_mem _ hg')) hch2
      refine ⟨c2, fin2, ?_, fun s hs => hevm2 s (hevm s hs), hem2, ?_, ?_⟩
      · simp only [closedLoop, List.map_cons, hrun, if_true]
        exact hrun2
      · rw [List.getLast_cons_cons]
        exact hres2
      · intro g' hg'
        rcases List.mem_cons.1 hg' with rfl | hg'
        · exact ⟨hevm2 _ hpk.ev.2, hevm2 _ hpk.re⟩
        · exact hall2 g' hg'

end Fcgi.E2E
