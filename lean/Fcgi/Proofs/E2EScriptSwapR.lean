import Fcgi.Proofs.E2EScriptIndepR
/-!
# Replacing the READ answers a run has not consumed

`swpR kq s t`: the transport `t` with the LAST `kq` read answers of its script replaced by `s`.  If a run on `t` ends
with at least `kq ≥ 1` read answers left, it is the same run on `swpR kq s t` (`runTask_swR`, `closedLoop_swR`): the
read-side analogue of `Proofs/E2EScriptSwap`.  Generated from `Proofs/E2EScriptIndepR` (`/verif/.run/gen/swapR.py`)
and adapted.
-/
namespace Fcgi.E2E
open Fcgi Fcgi.Req Fcgi.Str Fcgi.Async Fcgi.Run Fcgi.Spec Fcgi.Indep3 Fcgi.C12Inv

def swpR (kq : Nat) (s : List RdAns) (t : Transport) : Transport := { t with rd := t.rd.take (t.rd.length - kq) ++ s }
def swpER (kq : Nat) (s : List RdAns) (e : Run.Env) : Run.Env := { e with tr := swpR kq s e.tr }
def swpCR (kq : Nat) (s : List RdAns) (c : Conn) : Conn := { c with env := swpER kq s c.env }
def mapOutSR (kq : Nat) (s : List RdAns) (x : CloseOut) : CloseOut := (x.1, x.2.1, x.2.2.1, swpR kq s x.2.2.2.1, x.2.2.2.2)
def mapMidSR (kq : Nat) (s : List RdAns) (x : CloseMid) : CloseMid := (x.1, x.2.1, swpR kq s x.2.2.1, x.2.2.2)
def mapXSR (kq : Nat) (s : List RdAns) : Except CloseOut CloseMid → Except CloseOut CloseMid
  | .error x => .error (mapOutSR kq s x)
  | .ok y => .ok (mapMidSR kq s y)
def mapStepSR (kq : Nat) (s : List RdAns) : Step → Step
  | .next c => .next (swpCR kq s c)
  | .halt c r => .halt (swpCR kq s c) r

theorem le_upR {kq : Nat} {t' t : Transport} (h : kq ≤ t'.rd.length) (hs : RS t' t) : kq ≤ t.rd.length :=
  Nat.le_trans h (List.IsSuffix.length_le hs)

theorem writeV_swR (kq : Nat) (s : List RdAns) (t : Transport) (sl : List Bytes) (tag : String) :
    (swpR kq s t).writeV sl tag = (swpR kq s (t.writeV sl tag).1, (t.writeV sl tag).2) := by
  obtain ⟨input, endMode, rd, wr, fl, wlog, events, hold, woken, readWaker, abortKind⟩ := t
  unfold Transport.writeV swpR
  simp only
  repeat' split
  all_goals first | rfl | simp_all [Transport.ev, Transport.wrErr]

theorem flush_swR (kq : Nat) (s : List RdAns) (t : Transport) : (swpR kq s t).flush = (swpR kq s t.flush.1, t.flush.2) := by
  obtain ⟨input, endMode, rd, wr, fl, wlog, events, hold, woken, readWaker, abortKind⟩ := t
  unfold Transport.flush swpR
  simp only
  repeat' split
  all_goals first | rfl | simp_all [Transport.ev, Transport.flErr]

theorem ev_swR (kq : Nat) (s : List RdAns) (t : Transport) (e : String) : (swpR kq s t).ev e = swpR kq s (t.ev e) := rfl

theorem read_swR (kq : Nat) (hk1 : 1 ≤ kq) (s : List RdAns) (t : Transport) (cap : Nat)
    (h : kq ≤ (t.read cap).1.rd.length) :
    (swpR kq s t).read cap = (swpR kq s (t.read cap).1, (t.read cap).2) := by
  obtain ⟨input, endMode, rd, wr, fl, wlog, events, hold, woken, readWaker, abortKind⟩ := t
  by_cases hc : cap = 0
  · subst hc
    unfold Transport.read swpR
    simp [Transport.ev]
  · have hc' : (cap == 0) = false := by simpa using hc
    cases rd with
    | nil =>
      exfalso
      unfold Transport.read at h
      simp only [hc', Bool.false_eq_true, if_false] at h
      have : ∀ (p : Transport × Poll (Except IoErr Bytes)), p.1.rd = [] → kq ≤ p.1.rd.length → False := by
        intro p hp hk; rw [hp] at hk; simp at hk; omega
      refine this _ ?_ h
      repeat' split
      all_goals simp [Transport.ev]
    | cons a rest =>
      have hr : kq ≤ rest.length := by
        unfold Transport.read at h
        simp only [hc', Bool.false_eq_true, if_false] at h
        have : ∀ (p : Transport × Poll (Except IoErr Bytes)), p.1.rd = rest → kq ≤ p.1.rd.length → kq ≤ rest.length := by
          intro p hp hk; rw [hp] at hk; exact hk
        refine this _ ?_ h
        repeat' split
        all_goals simp [Transport.ev]
      have e1 : (a :: rest).length - kq = (rest.length - kq) + 1 := by simp only [List.length_cons]; omega
      unfold Transport.read swpR
      simp only [hc', Bool.false_eq_true, if_false, e1, List.take_succ_cons, List.cons_append]
      repeat' split
      all_goals first | rfl | simp_all [Transport.ev, Transport.rdErr]

theorem closeP3_swR (kq : Nat) (s : List RdAns) (r : AReq) (m : MutexSt) (t : Transport) (st : CloseSt) (status : ExitStatus)
    (alive : Nat) : closeP3 r m (swpR kq s t) st status alive = mapXSR kq s (closeP3 r m t st status alive) := by
  simp only [closeP3]
  split
  · split <;> rfl
  · rfl

theorem release_go_swR (kq : Nat) (s : List RdAns) : ∀ (fuel : Nat) (e : Run.Env) (any : Bool),
    Run.Env.release.go fuel (swpER kq s e) any =
      (swpER kq s (Run.Env.release.go fuel e any).1, (Run.Env.release.go fuel e any).2) := by
  intro fuel
  induction fuel with
  | zero => intro e any; unfold Run.Env.release.go; rfl
  | succ n ih =>
    intro e any
    obtain ⟨tr, mutex, segs⟩ := e
    cases segs with
    | nil => unfold Run.Env.release.go; rfl
    | cons p rest =>
      obtain ⟨g, bs⟩ := p
      simp only [Run.Env.release.go, swpER]
      have e0 : (swpR kq s tr).wlog = tr.wlog := rfl
      rw [e0]
      by_cases hg : g.open_ tr.wlog = true
      · simp only [hg, if_true]
        exact ih ⟨{ tr with input := tr.input ++ bs }, mutex, rest⟩ true
      · simp only [hg]
        rfl

theorem release_swR (kq : Nat) (s : List RdAns) (e : Run.Env) :
    (swpER kq s e).release = (swpER kq s e.release.1, e.release.2) := by
  have h := release_go_swR kq s (e.segs.length + 1) e false
  unfold Run.Env.release
  simp only [swpER] at h ⊢
  simp only [h]
  rfl

theorem prePoll_swR (kq : Nat) (s : List RdAns) (c : Conn) (n : Nat) (sa : Option Nat) :
    prePoll (swpCR kq s c) n sa = swpCR kq s (prePoll c n sa) := by
  unfold prePoll
  split
  · simp only [swpCR, release_swR]; rfl
  · simp only [swpCR, release_swR]; rfl

theorem writeAllLoop_swR (kq : Nat) (hk1 : 1 ≤ kq) (s : List RdAns) : ∀ (fuel : Nat) (buf : Bytes) (t : Transport)
    {rest : Bytes} {t' : Transport} {res : ORes}, writeAllLoop fuel buf t = (rest, t', res) → kq ≤ t'.rd.length →
    writeAllLoop fuel buf (swpR kq s t) = (rest, swpR kq s t', res) := by
  intro fuel
  induction fuel with
  | zero => intro buf t rest t' res h _; simp only [writeAllLoop] at h ⊢; cases h; rfl
  | succ n ih =>
    intro buf t rest t' res h hne
    simp only [writeAllLoop] at h ⊢
    by_cases hbuf : buf.isEmpty = true
    · simp only [hbuf, if_true] at h ⊢
      cases h; rfl
    · simp only [hbuf, Bool.false_eq_true, if_false, Transport.write] at h ⊢
      rw [writeV_swR kq s t _ _]
      rcases hw : t.writeV [buf] "W" with ⟨tw, r⟩
      rw [hw] at h
      simp only
      cases r with
      | pending => simp only at h ⊢; cases h; rfl
      | ready x =>
        cases x with
        | error e => simp only at h ⊢; cases h; rfl
        | ok k =>
          cases k with
          | zero => simp only at h ⊢; cases h; rfl
          | succ k => simp only at h ⊢; exact ih _ _ h hne

theorem outLoop_swR (kq : Nat) (hk1 : 1 ≤ kq) (s : List RdAns) : ∀ (fuel : Nat) (sp : Str.Parser) (t : Transport)
    {sp' : Str.Parser} {t' : Transport} {res : ORes}, outLoop fuel sp t = (sp', t', res) → kq ≤ t'.rd.length →
    outLoop fuel sp (swpR kq s t) = (sp', swpR kq s t', res) := by
  intro fuel
  induction fuel with
  | zero => intro sp t sp' t' res h _; simp only [outLoop] at h ⊢; cases h; rfl
  | succ n ih =>
    intro sp t sp' t' res h hne
    simp only [outLoop] at h ⊢
    by_cases hbuf : sp.output.isEmpty = true
    · simp only [hbuf, if_true] at h ⊢
      cases h; rfl
    · simp only [hbuf, Bool.false_eq_true, if_false, Transport.write] at h ⊢
      rw [writeV_swR kq s t _ _]
      rcases hw : t.writeV [sp.output] "W" with ⟨tw, r⟩
      rw [hw] at h
      simp only
      cases r with
      | pending => simp only at h ⊢; cases h; rfl
      | ready x =>
        cases x with
        | error e => simp only at h ⊢; cases h; rfl
        | ok k =>
          cases k with
          | zero => simp only at h ⊢; cases h; rfl
          | succ k => simp only at h ⊢; exact ih _ _ h hne

theorem pollOutput_swR (kq : Nat) (hk1 : 1 ≤ kq) (s : List RdAns) {r : AReq} {m : MutexSt} {t : Transport}
    {r' : AReq} {m' : MutexSt} {t' : Transport} {res : ORes}
    (h : r.pollOutput m t = (r', m', t', res)) (hne : kq ≤ t'.rd.length) :
    r.pollOutput m (swpR kq s t) = (r', m', swpR kq s t', res) := by
  simp only [AReq.pollOutput] at h ⊢
  by_cases he : r.sp.output.isEmpty = true
  · simp only [he, if_true] at h ⊢
    split at h <;> (cases h; simp_all)
  · simp only [he, Bool.false_eq_true, if_false] at h ⊢
    rcases hlp : lockPoll (if r.lock == .none then LockSt.polling else r.lock) m 0 with ⟨l, m1, got⟩
    simp only [hlp] at h ⊢
    cases got with
    | false => simp only [Bool.not_false, if_true] at h ⊢; cases h; rfl
    | true =>
      simp only [Bool.not_true, Bool.false_eq_true, if_false] at h ⊢
      rcases ho : outLoop (r.sp.output.length + 1) r.sp t with ⟨sp1, t1, o1⟩
      rw [ho] at h
      have hne1 : kq ≤ t1.rd.length := by
        cases o1 <;> (simp only at h; cases h; exact hne)
      rw [outLoop_swR kq hk1 s _ _ _ ho hne1]
      cases o1 <;> (simp only at h ⊢; cases h; rfl)

theorem inLoop_swR (kq : Nat) (hk1 : 1 ≤ kq) (s : List RdAns) : ∀ (fuel : Nat) (r : AReq) (new : Bytes) (dest : Option Nat) (m : MutexSt)
    (t : Transport) {r' : AReq} {m' : MutexSt} {t' : Transport} {res : IRes},
    inLoop fuel r new dest m t = (r', m', t', res) → kq ≤ t'.rd.length →
    inLoop fuel r new dest m (swpR kq s t) = (r', m', swpR kq s t', res) := by
  intro fuel
  induction fuel with
  | zero => intro r new dest m t r' m' t' res h _; simp only [inLoop] at h ⊢; cases h; rfl
  | succ n ih =>
    intro r new dest m t r' m' t' res h hne
    rw [inLoop_succ] at h ⊢
    rcases hp : r.sp.parse new dest with ⟨sp, pr⟩
    rw [hp] at h
    cases pr with
    | panic x => simp only at h ⊢; cases h; rfl
    | err x => simp only at h ⊢; cases h; rfl
    | ok st =>
      simp only at h ⊢
      by_cases hc : (st.streamEnd || decide (st.stream > 0)) = true
      · simp only [hc, if_true] at h ⊢; cases h; rfl
      · simp only [hc, Bool.false_eq_true, if_false] at h ⊢
        rcases hpo : ({ r with sp := sp.compress } : AReq).pollOutput m t with ⟨r1, m1, t1, o1⟩
        rw [hpo] at h
        have hne1 : kq ≤ t1.rd.length := by
          cases o1 with
          | ready => exact le_upR hne (inCont_rs h)
          | pending => simp only at h; cases h; exact hne
          | err e => simp only at h; cases h; exact hne
          | panic x => simp only at h; cases h; exact hne
        rw [pollOutput_swR kq hk1 s hpo hne1]
        cases o1 with
        | pending => simp only at h ⊢; cases h; rfl
        | err e => simp only at h ⊢; cases h; rfl
        | panic x => simp only at h ⊢; cases h; rfl
        | ready =>
          simp only at h ⊢
          unfold inCont at h ⊢
          rcases hr : t1.read r1.sp.free with ⟨t2, x⟩
          rw [hr] at h
          have hk2 : kq ≤ t2.rd.length := by
            cases x with
            | pending => simp only at h; cases h; exact hne
            | ready y =>
              cases y with
              | error e => simp only at h; cases h; exact hne
              | ok bs =>
                cases bs with
                | nil => simp only at h; cases h; exact hne
                | cons b bs => simp only at h; exact le_upR hne (inLoop_rl _ _ _ _ _ _ h).rd
          rw [read_swR kq hk1 s t1 _ (by rw [hr]; exact hk2), hr]
          simp only
          cases x with
          | pending => simp only at h ⊢; cases h; rfl
          | ready y =>
            cases y with
            | error e => simp only at h ⊢; cases h; rfl
            | ok bs =>
              cases bs with
              | nil => simp only at h ⊢; cases h; rfl
              | cons b bs => simp only at h ⊢; exact ih _ _ _ _ _ h hne

theorem pollInput_swR (kq : Nat) (hk1 : 1 ≤ kq) (s : List RdAns) {r : AReq} {dest : Option Nat} {m : MutexSt} {t : Transport}
    {r' : AReq} {m' : MutexSt} {t' : Transport} {res : IRes}
    (h : r.pollInput dest m t = (r', m', t', res)) (hne : kq ≤ t'.rd.length) :
    r.pollInput dest m (swpR kq s t) = (r', m', swpR kq s t', res) := by
  have main : piMain r dest m t = (r', m', t', res) → piMain r dest m (swpR kq s t) = (r', m', swpR kq s t', res) := by
    intro h
    unfold piMain at h ⊢
    rcases hpo : r.pollOutput m t with ⟨r1, m1, t1, o1⟩
    rw [hpo] at h
    have hne1 : kq ≤ t1.rd.length := by
      cases o1 with
      | ready => simp only at h; exact le_upR hne (inLoop_rl _ _ _ _ _ _ h).rd
      | pending => simp only at h; cases h; exact hne
      | err e => simp only at h; cases h; exact hne
      | panic x => simp only at h; cases h; exact hne
    rw [pollOutput_swR kq hk1 s hpo hne1]
    cases o1 with
    | pending => simp only at h ⊢; cases h; rfl
    | err e => simp only at h ⊢; cases h; rfl
    | panic x => simp only at h ⊢; cases h; rfl
    | ready => simp only at h ⊢; exact inLoop_swR kq hk1 s _ _ _ _ _ _ h hne
  rw [pollInput_eq] at h ⊢
  rcases dest with _ | n
  · rcases hb : r.sp.parsed with _ | ⟨b, bs⟩
    · rw [hb] at h; exact main h
    · rw [hb] at h; simp only at h ⊢; cases h; rfl
  · rcases n with _ | n
    · simp only at h ⊢; cases h; rfl
    · rcases hb : r.sp.parsed with _ | ⟨b, bs⟩
      · rw [hb] at h; exact main h
      · rw [hb] at h; simp only at h ⊢; cases h; rfl

theorem writeablePoll_swR (kq : Nat) (hk1 : 1 ≤ kq) (s : List RdAns) {r : AReq} {started : Bool} {m : MutexSt} {t : Transport}
    {r' : AReq} {b : Bool} {m' : MutexSt} {t' : Transport} {res : ORes}
    (h : r.writeablePoll started m t = (r', b, m', t', res)) (hne : kq ≤ t'.rd.length) :
    r.writeablePoll started m (swpR kq s t) = (r', b, m', swpR kq s t', res) := by
  simp only [AReq.writeablePoll] at h ⊢
  by_cases hc : (!started && r.writeable) = true
  · simp only [hc, if_true] at h ⊢; cases h; rfl
  · simp only [hc, Bool.false_eq_true, if_false] at h ⊢
    generalize hr1 : (if started = true then some r else
      match r.sp.setStream (inputStreams r.sp.request.role).getLast? with
      | .ok sp => some { r with sp := sp }
      | _ => none) = r1 at h ⊢
    cases r1 with
    | none => simp only at h ⊢; cases h; rfl
    | some r2 =>
      simp only at h ⊢
      rcases hpi : r2.pollInput none m t with ⟨r3, m3, t3, x⟩
      rw [hpi] at h
      have hne3 : kq ≤ t3.rd.length := by cases x <;> (simp only at h; cases h; exact hne)
      rw [pollInput_swR kq hk1 s hpi hne3]
      cases x <;> (simp only at h ⊢; cases h; rfl)

theorem writeLoop_swR (kq : Nat) (hk1 : 1 ≤ kq) (s : List RdAns) : ∀ (fuel : Nat) (w : Writer) (head buf : Bytes) (t : Transport)
    {w' : Writer} {t' : Transport} {res : WRes}, writeLoop fuel w head buf t = (w', t', res) → kq ≤ t'.rd.length →
    writeLoop fuel w head buf (swpR kq s t) = (w', swpR kq s t', res) := by
  intro fuel
  induction fuel with
  | zero => intro w head buf t w' t' res h _; simp only [writeLoop] at h ⊢; cases h; rfl
  | succ n ih =>
    intro w head buf t w' t' res h hne
    simp only [writeLoop] at h ⊢
    by_cases h1 : (!w.isWriting) = true
    · simp only [h1, if_true] at h ⊢; cases h; rfl
    · simp only [h1, Bool.false_eq_true, if_false] at h ⊢
      by_cases h2 : w.contentLen > buf.length
      · simp only [h2, if_true] at h ⊢; cases h; rfl
      · simp only [h2, if_false] at h ⊢
        rw [writeV_swR kq s t _ _]
        rcases hw : t.writeV [head.drop w.headIdx, buf.drop (buf.length - w.contentLen), zeros w.padLen] "V" with ⟨tw, r⟩
        rw [hw] at h
        simp only
        cases r with
        | pending => simp only at h ⊢; cases h; rfl
        | ready x =>
          cases x with
          | error e => simp only at h ⊢; cases h; rfl
          | ok k =>
            cases k with
            | zero => simp only at h ⊢; cases h; rfl
            | succ k =>
              simp only at h ⊢
              split at h
              · rename_i hc
                rw [if_pos hc]
                cases h; rfl
              · rename_i hc
                rw [if_neg hc]
                exact ih _ _ _ _ h hne

theorem pollWrite_swR (kq : Nat) (hk1 : 1 ≤ kq) (s : List RdAns) {w : Writer} {me : Nat} {buf : Bytes} {m : MutexSt} {t : Transport}
    {w' : Writer} {m' : MutexSt} {t' : Transport} {res : WRes}
    (h : w.pollWrite me buf m t = (w', m', t', res)) (hne : kq ≤ t'.rd.length) :
    w.pollWrite me buf m (swpR kq s t) = (w', m', swpR kq s t', res) := by
  simp only [Writer.pollWrite] at h ⊢
  by_cases h0 : buf.isEmpty = true
  · simp only [h0, if_true] at h ⊢; cases h; rfl
  · simp only [h0, Bool.false_eq_true, if_false] at h ⊢
    generalize hsu : (if w.lock == .none then
        if w.isWriting then (Except.error "async_io:71 lock was dropped mid-write" : Except String Writer)
        else .ok { w with contentLen := min buf.length 65535, padLen := RecordHeader.autoPadding (min buf.length 65535),
                          headIdx := 0, origLen := min buf.length 65535, lock := .polling }
      else .ok w) = su at h ⊢
    cases su with
    | error x => simp only at h ⊢; cases h; rfl
    | ok w1 =>
      simp only at h ⊢
      by_cases h1 : (!w1.isWriting) = true
      · simp only [h1, if_true] at h ⊢; cases h; rfl
      · simp only [h1, Bool.false_eq_true, if_false] at h ⊢
        by_cases h2 : buf.length < w1.origLen
        · simp only [h2, if_true] at h ⊢; cases h; rfl
        · simp only [h2, if_false] at h ⊢
          rcases hlp : lockPoll w1.lock m (me + 1) with ⟨l, m1, got⟩
          simp only [hlp] at h ⊢
          cases got with
          | false => simp only [Bool.not_false, if_true] at h ⊢; cases h; rfl
          | true =>
            simp only [Bool.not_true, Bool.false_eq_true, if_false] at h ⊢
            rcases hwl : writeLoop (8 + w1.contentLen + w1.padLen + 1) { w1 with lock := l } ({ w1 with lock := l } : Writer).headBytes
              (buf.take w1.origLen) t with ⟨w2, t2, r2⟩
            have hwl' : writeLoop (8 + ({ w1 with lock := l } : Writer).contentLen + ({ w1 with lock := l } : Writer).padLen + 1)
              { w1 with lock := l } ({ w1 with lock := l } : Writer).headBytes (buf.take ({ w1 with lock := l } : Writer).origLen) t =
              (w2, t2, r2) := hwl
            rw [hwl'] at h
            have hne2 : kq ≤ t2.rd.length := by cases r2 <;> (simp only at h; cases h; exact hne)
            rw [writeLoop_swR kq hk1 s _ _ _ _ _ hwl' hne2]
            cases r2 <;> (simp only at h ⊢; cases h; rfl)

theorem pollFlush_swR (kq : Nat) (hk1 : 1 ≤ kq) (s : List RdAns) {w : Writer} {me : Nat} {m : MutexSt} {t : Transport}
    {w' : Writer} {m' : MutexSt} {t' : Transport} {res : WRes}
    (h : w.pollFlush me m t = (w', m', t', res)) :
    w.pollFlush me m (swpR kq s t) = (w', m', swpR kq s t', res) := by
  simp only [Writer.pollFlush] at h ⊢
  by_cases h0 : w.isWriting = true
  · simp only [h0, if_true] at h ⊢; cases h; rfl
  · simp only [h0, Bool.false_eq_true, if_false] at h ⊢
    rcases hlp : lockPoll (if w.lock == .none then LockSt.polling else w.lock) m (me + 1) with ⟨l, m1, got⟩
    simp only [hlp] at h ⊢
    cases got with
    | false => simp only [Bool.not_false, if_true] at h ⊢; cases h; rfl
    | true =>
      simp only [Bool.not_true, Bool.false_eq_true, if_false] at h ⊢
      rw [flush_swR]
      rcases hf : t.flush with ⟨t1, x⟩
      rw [hf] at h
      simp only
      cases x with
      | pending => simp only at h ⊢; cases h; rfl
      | ready y => cases y <;> (simp only at h ⊢; cases h; rfl)

theorem boundaryLoop_swR (kq : Nat) (hk1 : 1 ≤ kq) (s : List RdAns) : ∀ (fuel : Nat) (sp : Str.Parser) (new : Bytes) (t : Transport)
    {sp' : Str.Parser} {t' : Transport} {res : ORes}, boundaryLoop fuel sp new t = (sp', t', res) → kq ≤ t'.rd.length →
    boundaryLoop fuel sp new (swpR kq s t) = (sp', swpR kq s t', res) := by
  intro fuel
  induction fuel with
  | zero => intro sp new t sp' t' res h _; simp only [boundaryLoop] at h ⊢; cases h; rfl
  | succ n ih =>
    intro sp new t sp' t' res h hne
    have hrd : kq ≤ t.rd.length := le_upR hne (boundaryLoop_rl _ _ _ _ h).rd
    have cont : ∀ (sp0 : Str.Parser), boundaryLoop.cont sp0 t n = (sp', t', res) →
        boundaryLoop.cont sp0 (swpR kq s t) n = (sp', swpR kq s t', res) := by
      intro sp0 h
      simp only [boundaryLoop.cont] at h ⊢
      by_cases h1 : sp0.isRecordBoundary = true
      · simp only [h1, if_true] at h ⊢; cases h; rfl
      · simp only [h1, Bool.false_eq_true, if_false] at h ⊢
        by_cases h2 : (!sp0.parsed.isEmpty) = true
        · simp only [h2, if_true] at h ⊢; cases h; rfl
        · simp only [h2, Bool.false_eq_true, if_false] at h ⊢
          rcases hr : t.read sp0.compress.free with ⟨t1, x⟩
          rw [hr] at h
          have hk2 : kq ≤ t1.rd.length := by
            cases x with
            | pending => simp only at h; cases h; exact hne
            | ready y =>
              cases y with
              | error e => simp only at h; cases h; exact hne
              | ok bs =>
                cases bs with
                | nil => simp only at h; cases h; exact hne
                | cons b bs => simp only at h; exact le_upR hne (boundaryLoop_rl _ _ _ _ h).rd
          rw [read_swR kq hk1 s t _ (by rw [hr]; exact hk2), hr]
          simp only
          cases x with
          | pending => simp only at h ⊢; cases h; rfl
          | ready y =>
            cases y with
            | error e => simp only at h ⊢; cases h; rfl
            | ok bs =>
              cases bs with
              | nil => simp only at h ⊢; cases h; rfl
              | cons b bs => simp only at h ⊢; exact ih _ _ _ h hne
    simp only [boundaryLoop] at h ⊢
    rcases hp : sp.parse new none with ⟨sp1, pr⟩
    rw [hp] at h
    cases pr with
    | panic x => simp only at h ⊢; cases h; rfl
    | err e =>
      simp only at h ⊢
      by_cases he : (e == PErr.abortRequest) = true
      · simp only [he, if_true] at h ⊢; exact cont _ h
      · simp only [he, Bool.false_eq_true, if_false] at h ⊢; cases h; rfl
    | ok st => simp only at h ⊢; exact cont _ h

theorem closeBoundary_swR (kq : Nat) (hk1 : 1 ≤ kq) (s : List RdAns) {sp : Str.Parser} {resume : Bool} {t : Transport}
    {sp' : Str.Parser} {t' : Transport} {res : ORes} (h : closeBoundary sp resume t = (sp', t', res))
    (hne : kq ≤ t'.rd.length) :
    closeBoundary sp resume (swpR kq s t) = (sp', swpR kq s t', res) := by
  have hrd : kq ≤ t.rd.length := le_upR hne (closeBoundary_rl h).rd
  simp only [closeBoundary] at h ⊢
  cases resume with
  | true =>
    simp only [if_true] at h ⊢
    rcases hr : t.read sp.free with ⟨t1, x⟩
    rw [hr] at h
    have hk2 : kq ≤ t1.rd.length := by
      cases x with
      | pending => simp only at h; cases h; exact hne
      | ready y =>
        cases y with
        | error e => simp only at h; cases h; exact hne
        | ok bs =>
          cases bs with
          | nil => simp only at h; cases h; exact hne
          | cons b bs => simp only at h; exact le_upR hne (boundaryLoop_rl _ _ _ _ h).rd
    rw [read_swR kq hk1 s t _ (by rw [hr]; exact hk2), hr]
    simp only
    cases x with
    | pending => simp only at h ⊢; cases h; rfl
    | ready y =>
      cases y with
      | error e => simp only at h ⊢; cases h; rfl
      | ok bs =>
        cases bs with
        | nil => simp only at h ⊢; cases h; rfl
        | cons b bs => simp only at h ⊢; exact boundaryLoop_swR kq hk1 s _ _ _ _ h hne
  | false =>
    simp only [Bool.false_eq_true, if_false] at h ⊢
    by_cases h1 : sp.isRecordBoundary = true
    · simp only [h1, if_true] at h ⊢; cases h; rfl
    · simp only [h1, Bool.false_eq_true, if_false] at h ⊢; exact boundaryLoop_swR kq hk1 s _ _ _ _ h hne

theorem closeP1_swR (kq : Nat) (hk1 : 1 ≤ kq) (s : List RdAns) (r : AReq) (st : CloseSt) (m : MutexSt) (t : Transport)
    (hne : kq ≤ (xTr (closeP1 r st m t)).rd.length) :
    closeP1 r st m (swpR kq s t) = mapXSR kq s (closeP1 r st m t) := by
  have main : ∀ b : Bool,
      kq ≤ (xTr (match r.writeablePoll b m t with
        | (r, _, m, t, .ready) => (Except.ok (r, m, t, CloseSt.start) : Except CloseOut CloseMid)
        | (r, _, m, t, .pending) => .error (r, .inWriteable, m, t, .pending)
        | (r, _, m, t, .err e) => if e == .abortRequest then .ok (r, m, t, .start) else .error (r, .inWriteable, m, t, .err e)
        | (r, _, m, t, .panic s) => .error (r, .inWriteable, m, t, .panic s))).rd.length →
      (match r.writeablePoll b m (swpR kq s t) with
        | (r, _, m, t, .ready) => (Except.ok (r, m, t, CloseSt.start) : Except CloseOut CloseMid)
        | (r, _, m, t, .pending) => .error (r, .inWriteable, m, t, .pending)
        | (r, _, m, t, .err e) => if e == .abortRequest then .ok (r, m, t, .start) else .error (r, .inWriteable, m, t, .err e)
        | (r, _, m, t, .panic s) => .error (r, .inWriteable, m, t, .panic s)) =
      mapXSR kq s (match r.writeablePoll b m t with
        | (r, _, m, t, .ready) => (Except.ok (r, m, t, CloseSt.start) : Except CloseOut CloseMid)
        | (r, _, m, t, .pending) => .error (r, .inWriteable, m, t, .pending)
        | (r, _, m, t, .err e) => if e == .abortRequest then .ok (r, m, t, .start) else .error (r, .inWriteable, m, t, .err e)
        | (r, _, m, t, .panic s) => .error (r, .inWriteable, m, t, .panic s)) := by
    intro b hne
    rcases hw : r.writeablePoll b m t with ⟨r1, b1, m1, t1, x⟩
    rw [hw] at hne
    have hne1 : kq ≤ t1.rd.length := by
      cases x with
      | err e => simp only at hne; split at hne <;> exact hne
      | _ => exact hne
    rw [writeablePoll_swR kq hk1 s hw hne1]
    cases x with
    | err e => simp only; split <;> rfl
    | _ => rfl
  cases st with
  | start => exact main _ hne
  | inWriteable => exact main _ hne
  | inBoundary => rfl
  | writeOut a b => rfl
  | writeEnd a => rfl

theorem closeP2_swR (kq : Nat) (hk1 : 1 ≤ kq) (s : List RdAns) (r : AReq) (m : MutexSt) (t : Transport) (st : CloseSt)
    (hne : kq ≤ (xTr (closeP2 r m t st)).rd.length) :
    closeP2 r m (swpR kq s t) st = mapXSR kq s (closeP2 r m t st) := by
  have main : ∀ (cs : CloseSt) (sp : Str.Parser) (resume : Bool),
      kq ≤ (xTr (match closeBoundary sp resume t with
        | (sp, t, .ready) => (Except.ok ({ r with sp := sp }, m, t, CloseSt.start) : Except CloseOut CloseMid)
        | (sp, t, .pending) => .error ({ r with sp := sp }, .inBoundary, m, t, .pending)
        | (sp, t, .err e) => .error ({ r with sp := sp }, .inBoundary, m, t, .err e)
        | (sp, t, .panic s) => .error ({ r with sp := sp }, .inBoundary, m, t, .panic s))).rd.length →
      (match closeBoundary sp resume (swpR kq s t) with
        | (sp, t, .ready) => (Except.ok ({ r with sp := sp }, m, t, CloseSt.start) : Except CloseOut CloseMid)
        | (sp, t, .pending) => .error ({ r with sp := sp }, .inBoundary, m, t, .pending)
        | (sp, t, .err e) => .error ({ r with sp := sp }, .inBoundary, m, t, .err e)
        | (sp, t, .panic s) => .error ({ r with sp := sp }, .inBoundary, m, t, .panic s)) =
      mapXSR kq s (match closeBoundary sp resume t with
        | (sp, t, .ready) => (Except.ok ({ r with sp := sp }, m, t, CloseSt.start) : Except CloseOut CloseMid)
        | (sp, t, .pending) => .error ({ r with sp := sp }, .inBoundary, m, t, .pending)
        | (sp, t, .err e) => .error ({ r with sp := sp }, .inBoundary, m, t, .err e)
        | (sp, t, .panic s) => .error ({ r with sp := sp }, .inBoundary, m, t, .panic s)) := by
    intro cs sp resume hne
    rcases hb : closeBoundary sp resume t with ⟨sp1, t1, x⟩
    rw [hb] at hne
    have hne1 : kq ≤ t1.rd.length := by cases x <;> exact hne
    rw [closeBoundary_swR kq hk1 s hb hne1]
    cases x <;> rfl
  cases st with
  | start =>
    simp only [closeP2] at hne ⊢
    cases hss : r.sp.setStream none with
    | ok sp => rw [hss] at hne; exact main .start sp false hne
    | rejected => rfl
    | panic x => rfl
  | inBoundary => exact main .inBoundary r.sp true hne
  | inWriteable => rfl
  | writeOut a b => rfl
  | writeEnd a => rfl

theorem finishEnd_swR (kq : Nat) (hk1 : 1 ≤ kq) (s : List RdAns) {r : AReq} {rest : Bytes} {m : MutexSt} {t : Transport}
    {r' : AReq} {cs' : CloseSt} {m' : MutexSt} {t' : Transport} {res : CRes}
    (h : closePoll.finishEnd r rest m t = (r', cs', m', t', res)) (hne : kq ≤ t'.rd.length) :
    closePoll.finishEnd r rest m (swpR kq s t) = (r', cs', m', swpR kq s t', res) := by
  simp only [closePoll.finishEnd] at h ⊢
  rcases hw : writeAllLoop (rest.length + 1) rest t with ⟨rest1, t1, x⟩
  rw [hw] at h
  have hne1 : kq ≤ t1.rd.length := by
    cases x with
    | ready => simp only at h; repeat' (split at h)
               all_goals (cases h; exact hne)
    | _ => simp only at h; cases h; exact hne
  rw [writeAllLoop_swR kq hk1 s _ _ _ hw hne1]
  cases x with
  | ready =>
    simp only at h ⊢
    repeat' (split at h)
    all_goals (cases h; simp_all)
  | _ => simp only at h ⊢; cases h; rfl

theorem closeP4_swR (kq : Nat) (hk1 : 1 ≤ kq) (s : List RdAns) {r : AReq} {st : CloseSt} {m : MutexSt} {t : Transport}
    {r' : AReq} {cs' : CloseSt} {m' : MutexSt} {t' : Transport} {res : CRes}
    (h : closeP4 r m t st = (r', cs', m', t', res)) (hne : kq ≤ t'.rd.length) :
    closeP4 r m (swpR kq s t) st = (r', cs', m', swpR kq s t', res) := by
  cases st with
  | writeOut rest endreq =>
    simp only [closeP4] at h ⊢
    rcases hw : writeAllLoop (rest.length + 1) rest t with ⟨rest1, t1, x⟩
    rw [hw] at h
    have hne1 : kq ≤ t1.rd.length := by
      cases x with
      | ready => simp only at h; exact le_upR hne (finishEnd_rl h).rd
      | _ => simp only at h; cases h; exact hne
    rw [writeAllLoop_swR kq hk1 s _ _ _ hw hne1]
    cases x with
    | ready => simp only at h ⊢; exact finishEnd_swR kq hk1 s h hne
    | _ => simp only at h ⊢; cases h; rfl
  | writeEnd rest => simp only [closeP4] at h ⊢; exact finishEnd_swR kq hk1 s h hne
  | start => simp only [closeP4] at h ⊢; cases h; rfl
  | inWriteable => simp only [closeP4] at h ⊢; cases h; rfl
  | inBoundary => simp only [closeP4] at h ⊢; cases h; rfl

theorem closePoll_swR (kq : Nat) (hk1 : 1 ≤ kq) (s : List RdAns) {r : AReq} {st : CloseSt} {status : ExitStatus} {alive : Nat} {m : MutexSt}
    {t : Transport} {r' : AReq} {cs' : CloseSt} {m' : MutexSt} {t' : Transport} {res : CRes}
    (h : closePoll r st status alive m t = (r', cs', m', t', res)) (hne : kq ≤ t'.rd.length) :
    closePoll r st status alive m (swpR kq s t) = (r', cs', m', swpR kq s t', res) := by
  rw [closePoll_eq] at h ⊢
  rcases h1 : closeP1 r st m t with x1 | ⟨r1, m1, t1, st1⟩
  · rw [h1] at h
    simp only at h
    subst h
    rw [closeP1_swR kq hk1 s r st m t (by rw [h1]; exact hne), h1]
    rfl
  · rw [h1] at h
    simp only at h
    rcases h2 : closeP2 r1 m1 t1 st1 with x2 | ⟨r2, m2, t2, st2⟩
    · rw [h2] at h
      simp only at h
      subst h
      have hne1 : kq ≤ t1.rd.length := le_upR hne (closeP2_rl.2 h2).rd
      rw [closeP1_swR kq hk1 s r st m t (by rw [h1]; exact hne1), h1]
      simp only [mapXSR, mapMidSR]
      rw [closeP2_swR kq hk1 s _ _ _ _ (by rw [h2]; exact hne), h2]
      rfl
    · rw [h2] at h
      simp only at h
      have hs12 : RS t2 t1 := (closeP2_rl.1 h2).rd
      rcases h3 : closeP3 r2 m2 t2 st2 status alive with x3 | ⟨r3, m3, t3, st3⟩
      · rw [h3] at h
        simp only at h
        subst h
        have e3 := closeP3_le.2 h3
        have hne2 : kq ≤ t2.rd.length := by rw [← e3]; exact hne
        have hne1 : kq ≤ t1.rd.length := le_upR hne2 hs12
        rw [closeP1_swR kq hk1 s r st m t (by rw [h1]; exact hne1), h1]
        simp only [mapXSR, mapMidSR]
        rw [closeP2_swR kq hk1 s _ _ _ _ (by rw [h2]; exact hne2), h2]
        simp only [mapXSR, mapMidSR]
        rw [closeP3_swR kq s, h3]
        rfl
      · rw [h3] at h
        simp only at h
        have e3 : t3 = t2 := closeP3_le.1 h3
        have hne3 : kq ≤ t3.rd.length := le_upR hne (closeP4_rl h).rd
        have hne2 : kq ≤ t2.rd.length := by rw [← e3]; exact hne3
        have hne1 : kq ≤ t1.rd.length := le_upR hne2 hs12
        rw [closeP1_swR kq hk1 s r st m t (by rw [h1]; exact hne1), h1]
        simp only [mapXSR, mapMidSR]
        rw [closeP2_swR kq hk1 s _ _ _ _ (by rw [h2]; exact hne2), h2]
        simp only [mapXSR, mapMidSR]
        rw [closeP3_swR kq s, h3]
        simp only [mapXSR, mapMidSR]
        exact closeP4_swR kq hk1 s h hne


theorem handlerPoll_swR (kq : Nat) (hk1 : 1 ≤ kq) (s : List RdAns) : ∀ (fuel : Nat) (r : AReq) (h : HState) (e : Run.Env)
    {r' : AReq} {h' : HState} {e' : Run.Env} {res : HRes},
    handlerPoll fuel r h e = (r', h', e', res) → kq ≤ e'.tr.rd.length →
    handlerPoll fuel r h (swpER kq s e) = (r', h', swpER kq s e', res) := by
  intro fuel
  induction fuel with
  | zero => intro r h e r' h' e' res hh _; simp only [handlerPoll] at hh ⊢; cases hh; rfl
  | succ n ih =>
    intro r h e r' h' e' res hh hne
    obtain ⟨ops, sub, ws, pr⟩ := h
    cases ops with
    | nil => simp only [handlerPoll] at hh ⊢; cases hh; rfl
    | cons op rest =>
      -- `fail`
      have hfail : ∀ (r1 : AReq) (ws1 : List (Option Writer)) (e1 : Run.Env) (err : IoErr),
          (if pr = true then (r1, (⟨rest, .fresh, ws1, pr⟩ : HState), e1, HRes.done (.error err))
            else handlerPoll n r1 ⟨rest, .fresh, ws1, pr⟩ e1) = (r', h', e', res) →
          (if pr = true then (r1, (⟨rest, .fresh, ws1, pr⟩ : HState), swpER kq s e1, HRes.done (.error err))
            else handlerPoll n r1 ⟨rest, .fresh, ws1, pr⟩ (swpER kq s e1)) = (r', h', swpER kq s e', res) := by
        intro r1 ws1 e1 err hx
        by_cases hp : pr = true
        · simp only [hp, if_true] at hx ⊢; cases hx; rfl
        · simp only [hp, Bool.false_eq_true, if_false] at hx ⊢; exact ih _ _ _ hx hne
      cases op with
      | ret st => simp only [handlerPoll] at hh ⊢; cases hh; rfl
      | retErr err => simp only [handlerPoll] at hh ⊢; cases hh; rfl
      | consume k => simp only [handlerPoll] at hh ⊢; exact ih _ _ _ hh hne
      | setStream t =>
        simp only [handlerPoll] at hh ⊢
        cases hs : r.setStream t with
        | none => rw [hs] at hh; simp only at hh ⊢; cases hh; rfl
        | some r1 => rw [hs] at hh; simp only at hh ⊢; exact ih _ _ _ hh hne
      | open_ t =>
        simp only [handlerPoll] at hh ⊢
        split at hh
        · rename_i hc; rw [if_pos hc]; cases hh; rfl
        · rename_i hc; rw [if_neg hc]; exact ih _ _ _ hh hne
      | dropW i =>
        simp only [handlerPoll] at hh ⊢
        cases hg : ws.getD i none with
        | none => rw [hg] at hh; simp only at hh ⊢; exact ih _ _ _ hh hne
        | some w => rw [hg] at hh; simp only at hh ⊢; exact ih _ _ _ hh hne
      | read k =>
        simp only [handlerPoll] at hh ⊢
        rcases hpi : r.pollInput (some k) e.mutex e.tr with ⟨r1, m1, t1, x⟩
        rw [hpi] at hh
        have hne1 : kq ≤ t1.rd.length := by
          cases x with
          | pending => simp only at hh; cases hh; exact hne
          | panic z => simp only at hh; cases hh; exact hne
          | ready a b => simp only at hh; exact le_upR hne (handlerPoll_rl _ _ _ _ hh).rd
          | err z => simp only at hh; exact le_upR hne (fail_rs hh)
        have hpa := pollInput_swR kq hk1 s hpi hne1
        rw [show (swpER kq s e).mutex = e.mutex from rfl, show (swpER kq s e).tr = swpR kq s e.tr from rfl, hpa]
        cases x with
        | pending => simp only at hh ⊢; cases hh; rfl
        | panic z => simp only at hh ⊢; cases hh; rfl
        | ready a b => simp only at hh ⊢; exact ih _ _ _ hh hne
        | err z => simp only at hh ⊢; exact hfail _ _ _ _ hh
      | fill =>
        simp only [handlerPoll] at hh ⊢
        rcases hpi : r.pollInput none e.mutex e.tr with ⟨r1, m1, t1, x⟩
        rw [hpi] at hh
        have hne1 : kq ≤ t1.rd.length := by
          cases x with
          | pending => simp only at hh; cases hh; exact hne
          | panic z => simp only at hh; cases hh; exact hne
          | ready a b => simp only at hh; exact le_upR hne (handlerPoll_rl _ _ _ _ hh).rd
          | err z => simp only at hh; exact le_upR hne (fail_rs hh)
        have hpa := pollInput_swR kq hk1 s hpi hne1
        rw [show (swpER kq s e).mutex = e.mutex from rfl, show (swpER kq s e).tr = swpR kq s e.tr from rfl, hpa]
        cases x with
        | pending => simp only at hh ⊢; cases hh; rfl
        | panic z => simp only at hh ⊢; cases hh; rfl
        | ready a b => simp only at hh ⊢; exact ih _ _ _ hh hne
        | err z => simp only at hh ⊢; exact hfail _ _ _ _ hh
      | readAll =>
        simp only [handlerPoll] at hh ⊢
        rcases hpi : r.pollInput (some 64) e.mutex e.tr with ⟨r1, m1, t1, x⟩
        rw [hpi] at hh
        have hne1 : kq ≤ t1.rd.length := by
          cases x with
          | pending => simp only at hh; cases hh; exact hne
          | panic z => simp only at hh; cases hh; exact hne
          | ready a b =>
            cases a with
            | zero => simp only at hh; exact le_upR hne (handlerPoll_rl _ _ _ _ hh).rd
            | succ a => simp only at hh; exact le_upR hne (handlerPoll_rl _ _ _ _ hh).rd
          | err z => simp only at hh; exact le_upR hne (fail_rs hh)
        have hpa := pollInput_swR kq hk1 s hpi hne1
        rw [show (swpER kq s e).mutex = e.mutex from rfl, show (swpER kq s e).tr = swpR kq s e.tr from rfl, hpa]
        cases x with
        | pending => simp only at hh ⊢; cases hh; rfl
        | panic z => simp only at hh ⊢; cases hh; rfl
        | ready a b =>
          cases a with
          | zero => simp only at hh ⊢; exact ih _ _ _ hh hne
          | succ a => simp only at hh ⊢; exact ih _ _ _ hh hne
        | err z => simp only at hh ⊢; exact hfail _ _ _ _ hh
      | writeable =>
        simp only [handlerPoll] at hh ⊢
        rcases hpi : r.writeablePoll (sub == .writeableStarted) e.mutex e.tr with ⟨r1, b1, m1, t1, x⟩
        rw [hpi] at hh
        have hne1 : kq ≤ t1.rd.length := by
          cases x with
          | pending => simp only at hh; cases hh; exact hne
          | panic z => simp only at hh; cases hh; exact hne
          | ready => simp only at hh; exact le_upR hne (handlerPoll_rl _ _ _ _ hh).rd
          | err z => simp only at hh; exact le_upR hne (fail_rs hh)
        have hpa := writeablePoll_swR kq hk1 s hpi hne1
        rw [show (swpER kq s e).mutex = e.mutex from rfl, show (swpER kq s e).tr = swpR kq s e.tr from rfl, hpa]
        cases x with
        | pending => simp only at hh ⊢; cases hh; rfl
        | panic z => simp only at hh ⊢; cases hh; rfl
        | ready => simp only at hh ⊢; exact ih _ _ _ hh hne
        | err z => simp only at hh ⊢; exact hfail _ _ _ _ hh
      | flush i =>
        simp only [handlerPoll] at hh ⊢
        cases hg : ws.getD i none with
        | none => rw [hg] at hh; simp only at hh ⊢; exact ih _ _ _ hh hne
        | some w =>
          rw [hg] at hh
          simp only at hh ⊢
          rcases hpf : w.pollFlush i e.mutex e.tr with ⟨w1, m1, t1, x⟩
          rw [hpf] at hh
          have hpa := pollFlush_swR kq hk1 s hpf
          rw [show (swpER kq s e).mutex = e.mutex from rfl, show (swpER kq s e).tr = swpR kq s e.tr from rfl, hpa]
          cases x with
          | pending => simp only at hh ⊢; cases hh; rfl
          | panic z => simp only at hh ⊢; cases hh; rfl
          | ready k => simp only at hh ⊢; exact ih _ _ _ hh hne
          | err z => simp only at hh ⊢; exact hfail _ _ _ _ hh
      | writeAll i data =>
        simp only [handlerPoll] at hh ⊢
        cases hg : ws.getD i none with
        | none => rw [hg] at hh; simp only at hh ⊢; exact ih _ _ _ hh hne
        | some w =>
          rw [hg] at hh
          simp only at hh ⊢
          cases sub with
          | writeRest rd =>
            simp only at hh ⊢
            by_cases hc : (rd : Bytes).isEmpty = true
            · simp only [hc, if_true] at hh ⊢; exact ih _ _ _ hh hne
            · simp only [hc, Bool.false_eq_true, if_false] at hh ⊢
              rcases hpw : w.pollWrite i rd e.mutex e.tr with ⟨w1, m1, t1, x⟩
              rw [hpw] at hh
              have hne1 : kq ≤ t1.rd.length := by
                cases x with
                | pending => simp only at hh; cases hh; exact hne
                | panic z => simp only at hh; cases hh; exact hne
                | ready k =>
                  cases k with
                  | zero => simp only at hh; exact le_upR hne (fail_rs hh)
                  | succ k => simp only at hh; exact le_upR hne (handlerPoll_rl _ _ _ _ hh).rd
                | err z => simp only at hh; exact le_upR hne (fail_rs hh)
              have hpa := pollWrite_swR kq hk1 s hpw hne1
              rw [show (swpER kq s e).mutex = e.mutex from rfl, show (swpER kq s e).tr = swpR kq s e.tr from rfl, hpa]
              cases x with
              | pending => simp only at hh ⊢; cases hh; rfl
              | panic z => simp only at hh ⊢; cases hh; rfl
              | ready k =>
                cases k with
                | zero => simp only at hh ⊢; exact hfail _ _ _ _ hh
                | succ k => simp only at hh ⊢; exact ih _ _ _ hh hne
              | err z => simp only at hh ⊢; exact hfail _ _ _ _ hh
          | _ =>
            simp only at hh ⊢
            by_cases hc : (data : Bytes).isEmpty = true
            · simp only [hc, if_true] at hh ⊢; exact ih _ _ _ hh hne
            · simp only [hc, Bool.false_eq_true, if_false] at hh ⊢
              rcases hpw : w.pollWrite i data e.mutex e.tr with ⟨w1, m1, t1, x⟩
              rw [hpw] at hh
              have hne1 : kq ≤ t1.rd.length := by
                cases x with
                | pending => simp only at hh; cases hh; exact hne
                | panic z => simp only at hh; cases hh; exact hne
                | ready k =>
                  cases k with
                  | zero => simp only at hh; exact le_upR hne (fail_rs hh)
                  | succ k => simp only at hh; exact le_upR hne (handlerPoll_rl _ _ _ _ hh).rd
                | err z => simp only at hh; exact le_upR hne (fail_rs hh)
              have hpa := pollWrite_swR kq hk1 s hpw hne1
              rw [show (swpER kq s e).mutex = e.mutex from rfl, show (swpER kq s e).tr = swpR kq s e.tr from rfl, hpa]
              cases x with
              | pending => simp only at hh ⊢; cases hh; rfl
              | panic z => simp only at hh ⊢; cases hh; rfl
              | ready k =>
                cases k with
                | zero => simp only at hh ⊢; exact hfail _ _ _ _ hh
                | succ k => simp only at hh ⊢; exact ih _ _ _ hh hne
              | err z => simp only at hh ⊢; exact hfail _ _ _ _ hh


/-- **one phase transition** -/
theorem stepConn_swR (kq : Nat) (hk1 : 1 ≤ kq) (s : List RdAns) (c : Conn) (hne : kq ≤ (stepConn c).conn.env.tr.rd.length) :
    stepConn (swpCR kq s c) = mapStepSR kq s (stepConn c) := by
  have hrd0 : kq ≤ c.env.tr.rd.length := le_upR hne (stepConn_rl c).rd
  obtain ⟨phase, env, scripts, stop⟩ := c
  cases phase with
  | finished => rfl
  | handler r h =>
    simp only [stepConn, swpCR, swpER] at hne ⊢
    rcases hhp : handlerPoll (1000 + env.tr.input.length * 4 + (env.segs.map (·.2.length)).sum * 4 + r.sp.cap * 4 + scriptCost h)
      r h env with ⟨r1, h1, e1, x⟩
    rw [hhp] at hne
    have hne1 : kq ≤ e1.tr.rd.length := by
      cases x with
      | pending => exact hne
      | panic z => exact hne
      | done res =>
        cases res with
        | ok st => exact hne
        | error y => simp only at hne; split at hne <;> exact hne
    have hpa := handlerPoll_swR kq hk1 s _ _ _ _ hhp hne1
    have e0 : (swpR kq s env.tr).input = env.tr.input := rfl
    rw [e0]
    rw [show ({ tr := swpR kq s env.tr, mutex := env.mutex, segs := env.segs } : Run.Env) = swpER kq s env from rfl, hpa]
    cases x with
    | pending => rfl
    | panic z => rfl
    | done res =>
      cases res with
      | ok st => rfl
      | error y => simp only [mapStepSR]; split <;> rfl
  | closing r cs status alive =>
    simp only [stepConn, swpCR, swpER] at hne ⊢
    rcases hcp : closePoll r cs status alive env.mutex env.tr with ⟨r1, cs1, m1, t1, x⟩
    rw [hcp] at hne
    have hne1 : kq ≤ t1.rd.length := by cases x <;> exact hne
    rw [closePoll_swR kq hk1 s hcp hne1]
    cases x <;> rfl
  | parseReq rp sub =>
    cases stop with
    | true => rfl
    | false =>
      cases sub with
      | start =>
        simp only [stepConn, swpCR, swpER, Bool.false_eq_true, if_false] at hne ⊢
        rcases rp.parse [] with ⟨rp1, oy⟩
        cases oy <;> rfl
      | reading =>
        simp only [stepConn, swpCR, swpER, Bool.false_eq_true, if_false] at hne ⊢
        rcases hr : env.tr.read rp.free with ⟨t1, x⟩
        rw [hr] at hne
        have hk2 : kq ≤ t1.rd.length := by
          cases x with
          | pending => exact hne
          | ready y =>
            cases y with
            | error e => exact hne
            | ok bs =>
              cases bs with
              | nil => exact hne
              | cons b bs =>
                simp only at hne
                rcases hp : rp.parse (b :: bs) with ⟨rp1, oy⟩
                rw [hp] at hne
                cases oy <;> exact hne
        rw [read_swR kq hk1 s env.tr _ (by rw [hr]; exact hk2), hr]
        cases x with
        | pending => rfl
        | ready y =>
          cases y with
          | error e => rfl
          | ok bs =>
            cases bs with
            | nil => rfl
            | cons b bs =>
              simp only
              rcases rp.parse (b :: bs) with ⟨rp1, oy⟩
              cases oy <;> rfl
      | writing rest done =>
        simp only [stepConn, swpCR, swpER, Bool.false_eq_true, if_false] at hne ⊢
        rcases hw : writeAllLoop (rest.length + 1) rest env.tr with ⟨rest1, t1, x⟩
        rw [hw] at hne
        have hne1 : kq ≤ t1.rd.length := by
          cases x with
          | ready =>
            simp only at hne
            cases done with
            | false => exact hne
            | true =>
              simp only [Bool.not_true, Bool.false_eq_true, if_false] at hne
              cases hsp : rp.intoStreamParser with
              | error e => rw [hsp] at hne; exact hne
              | ok sp => rw [hsp] at hne; cases scripts with
                | nil => exact hne
                | cons sc ss => exact hne
          | _ => exact hne
        rw [writeAllLoop_swR kq hk1 s _ _ _ hw hne1]
        cases x with
        | ready =>
          simp only
          cases done with
          | false => rfl
          | true =>
            simp only [Bool.not_true, Bool.false_eq_true, if_false]
            cases rp.intoStreamParser with
            | error e => rfl
            | ok sp =>
              cases scripts with
              | nil => rfl
              | cons sc ss => rfl
        | _ => rfl

/-- **one poll** -/
theorem pollConn_swR (kq : Nat) (hk1 : 1 ≤ kq) (s : List RdAns) : ∀ (fuel : Nat) (c : Conn), kq ≤ (pollConn fuel c).1.env.tr.rd.length →
    pollConn fuel (swpCR kq s c) = (swpCR kq s (pollConn fuel c).1, (pollConn fuel c).2)
  | 0, c, _ => rfl
  | fuel + 1, c, hne => by
    rw [pollConn_succ] at hne
    rw [pollConn_succ, pollConn_succ]
    cases hst : stepConn c with
    | halt c1 r =>
      rw [hst] at hne
      rw [stepConn_swR kq hk1 s c (by rw [hst]; exact hne), hst]
      rfl
    | next c1 =>
      rw [hst] at hne
      have hne' : kq ≤ (pollConn fuel c1).1.env.tr.rd.length := hne
      have hne1 : kq ≤ c1.env.tr.rd.length := le_upR hne' (pollConn_rl fuel c1).rd
      rw [stepConn_swR kq hk1 s c (by rw [hst]; exact hne1), hst]
      simp only [mapStepSR, Step.run]
      exact pollConn_swR kq hk1 s fuel c1 hne'

/-- **a run of the task** that ends with write answers left does not depend on what is appended to the script -/
theorem runTask_swR (kq : Nat) (hk1 : 1 ≤ kq) (s : List RdAns) : ∀ (fuel : Nat) (c : Conn) (n : Nat) (sa : Option Nat),
    kq ≤ (runTask fuel c n sa).1.env.tr.rd.length →
    runTask fuel (swpCR kq s c) n sa = (swpCR kq s (runTask fuel c n sa).1, (runTask fuel c n sa).2)
  | 0, c, n, sa, _ => rfl
  | fuel + 1, c, n, sa, hne => by
    rw [runTask_succ'] at hne
    rw [runTask_succ', runTask_succ', prePoll_swR,
      show connFuel (swpCR kq s (prePoll c n sa)) = connFuel (prePoll c n sa) from rfl]
    rcases hpc : pollConn (connFuel (prePoll c n sa)) (prePoll c n sa) with ⟨c1, r⟩
    rw [hpc] at hne
    have hsuf : RS (afterPoll fuel n sa (c1, r)).1.env.tr c1.env.tr := by
      cases r with
      | finished => exact RS.refl _
      | panic z => exact RS.refl _
      | pending =>
        simp only [afterPoll]
        split
        · exact (runTask_rl _ _ _ _).rd
        · have hrel := release_rd c1.env
          generalize c1.env.release = y at hrel
          obtain ⟨env, any⟩ := y
          simp only at hrel ⊢
          have h2 : RS env.tr c1.env.tr := RS.of_eq hrel
          split
          · exact RS.trans (runTask_rl _ _ _ _).rd h2
          · cases sa with
            | none => exact h2
            | some k =>
              simp only
              split
              · exact RS.trans (runTask_rl _ _ _ _).rd h2
              · exact h2
    have hne1 : kq ≤ c1.env.tr.rd.length := le_upR hne hsuf
    have hpa := pollConn_swR kq hk1 s (connFuel (prePoll c n sa)) (prePoll c n sa) (by rw [hpc]; exact hne1)
    rw [hpa, hpc]
    simp only
    cases r with
    | finished => rfl
    | panic z => rfl
    | pending =>
      simp only [afterPoll] at hne ⊢
      have hwk : (swpCR kq s c1).env.tr.woken = c1.env.tr.woken := rfl
      rw [hwk]
      split
      · rename_i hc
        rw [if_pos hc] at hne
        exact runTask_swR kq hk1 s fuel c1 (n + 1) sa hne
      · rename_i hc
        rw [if_neg hc] at hne
        have hrel : (swpCR kq s c1).env.release = (swpER kq s c1.env.release.1, c1.env.release.2) :=
          release_swR kq s c1.env
        rw [hrel]
        generalize c1.env.release = y at hne ⊢
        obtain ⟨env, any⟩ := y
        simp only at hne ⊢
        have hwk2 : (swpER kq s env).tr.woken = env.tr.woken := rfl
        rw [hwk2]
        split
        · rename_i hc2
          rw [if_pos hc2] at hne
          exact runTask_swR kq hk1 s fuel { c1 with env := env } (n + 1) sa hne
        · rename_i hc2
          rw [if_neg hc2] at hne
          cases sa with
          | none => rfl
          | some k =>
            simp only at hne ⊢
            split
            · rename_i hc3
              have hc' : (decide (k > n) && !c1.stop) = true := hc3
              rw [if_pos hc'] at hne ⊢
              exact runTask_swR kq hk1 s fuel { c1 with env := env } k (some k) hne
            · rename_i hc3
              have hc' : ¬ (decide (k > n) && !c1.stop) = true := hc3
              rw [if_neg hc']
              rfl

theorem feed_swR (kq : Nat) (hk1 : 1 ≤ kq) (s : List RdAns) (c : Conn) (w : Bytes) : feed (swpCR kq s c) w = swpCR kq s (feed c w) := rfl

/-- **a closed-loop run** that ends `STALL` with write answers left does not depend on what is appended to the script -/
theorem closedLoop_swR (kq : Nat) (hk1 : 1 ≤ kq) (s : List RdAns) (fuel : Nat) : ∀ (ws : List Bytes) (c : Conn) (n : Nat),
    kq ≤ (closedLoop fuel ws c n).1.env.tr.rd.length →
    closedLoop fuel ws (swpCR kq s c) n = (swpCR kq s (closedLoop fuel ws c n).1, (closedLoop fuel ws c n).2)
  | [], c, n, hne => runTask_swR kq hk1 s fuel c n none hne
  | w :: ws, c, n, hne => by
    simp only [closedLoop] at hne ⊢
    rcases hr : runTask fuel c n none with ⟨c1, fin⟩
    rw [hr] at hne
    simp only at hne
    by_cases hf : fin = "STALL"
    · rw [if_pos hf] at hne
      have hne1 : kq ≤ c1.env.tr.rd.length :=
        le_upR hne (RS.trans (closedLoop_rl fuel ws (feed c1 w) (n + 1000)).rd (RS.of_eq rfl))
      have h1 := runTask_swR kq hk1 s fuel c n none (by rw [hr]; exact hne1)
      rw [h1, hr]
      simp only [if_pos hf]
      rw [feed_swR kq hk1 s]
      exact closedLoop_swR kq hk1 s fuel ws (feed c1 w) (n + 1000) hne
    · rw [if_neg hf] at hne
      have h1 := runTask_swR kq hk1 s fuel c n none (by rw [hr]; exact hne)
      rw [h1, hr]
      simp only [if_neg hf]

end Fcgi.E2E
