import Fcgi.Proofs.E2EBufRead2NF
import Fcgi.Proofs.E2EUnb
/-!
# The Authorizer with tail traffic (`Proofs/E2EAuthConn`) without the model-fuel bound (`…NF`)

`AOK.hfu : wcost |data| + 8 ≤ 1000` is gone (`AOKN`); `write_phaseGN` and the cost of the handler script replace it.
Copies by text transformation (suffix `NF`) of the lemmas that take an `AOK`.
-/
namespace Fcgi.E2E
open Fcgi Fcgi.Req Fcgi.Str Fcgi.Async Fcgi.Run Fcgi.Spec Fcgi.C09E

/-- `AOK` without the model-fuel bound -/
structure AOKN (g : Cfg) (rd : ARead) (wr : Bool) : Prop where
  wf : WellFormedPreamble g.p g.recs
  role : g.p.role = 2
  pairs : ∀ q ∈ g.p.pairs, (NV.enc q).length ≤ alignedBufsize g.b
  noise : NoiseFits (alignedBufsize g.b) g.recs
  str : ∀ r ∈ g.body, StdinRec g.p.id r
  hf : NoiseFits (alignedBufsize g.b) g.body
  hX : g.X = serAll g.body
  hs : g.hscript = rd.ops ++ atail wr g.data g.st
  hd : wr = false → g.data = []
  hrv : g.revs = rd.evs

theorem AOKN.fok {g : Cfg} {rd : ARead} {wr : Bool} (ok : AOKN g rd wr) : FOK g := ⟨ok.wf, ok.pairs, ok.noise⟩

theorem AOKN.hid {g : Cfg} {rd : ARead} {wr : Bool} (ok : AOKN g rd wr) : g.p.id < 65536 := (pid_of_wf ok.wf).2

theorem AOKN.ctx {g : Cfg} {rd : ARead} {wr : Bool} (ok : AOKN g rd wr) : R2Ctx g.p.id g.mc g.cap g.body :=
  ⟨ok.str, ok.hid, ok.hf, by have := cap24 g; omega⟩

theorem AOKN.front {g : Cfg} {rd : ARead} {wr : Bool} (ok : AOKN g rd wr) {us : List Rec}
    (hu : LeftOK (alignedBufsize g.b) us) : AOKN (g.front us) rd wr :=
  ⟨wf_idle ok.wf us hu.1, ok.role, ok.pairs, noiseFits_app hu.2 ok.noise, ok.str, ok.hf, ok.hX, ok.hs, ok.hd,
    ok.hrv⟩

theorem aboundary_outNF {g : Cfg} {rd : ARead} {wr : Bool} (ok : AOKN g rd wr) {c : Conn} {r : AReq}
    {cs : CloseSt} {sp0 sp' : Str.Parser} {t' : Transport} {res : ORes} {dO : Bytes}
    (hph : c.phase = .closing r cs g.st 0)
    (heq : closePoll r cs g.st 0 c.env.mutex c.env.tr = closeTail r c.env.mutex g.st (sp', t', res))
    (hts : TStep c.env.tr t') (hwl : t'.wlog = c.env.tr.wlog)
    (hend : BEnd g.p.id g.mc g.cap g.body sp0 sp' dO t')
    (hreq : sp0.request = g.p.request) (hmc : sp0.maxConns = g.mc)
    (hres : (res = .ready ∧ sp'.isRecordBoundary = true) ∨
       (res = .pending ∧ t'.woken = true ∧ ans t' < ans c.env.tr ∧ sp'.isRecordBoundary = false ∧
          sp'.raw.length < g.cap ∧ sp'.g0 = 0 ∧ sp'.g1 = 0 ∧ t'.input ≠ []))
    (hlk : r.lock = .none) (hwr : r.writeable = true) (hm : c.env.mutex = none)
    (hlog : ∃ O1, c.env.tr.wlog = (g.L1 ++ O1) ++ g.D ∧ O1 ++ sp0.output = dO) (hrd : REvs g c.env.tr)
    (hb : Ben c.env.tr) (hstop : c.stop = false) (hev : Ev1 g c.env.tr) (hsc : c.scripts = g.more) :
    GRes3 (SA g) (AA g) (FA g) 2 c := by
  obtain ⟨⟨o, G', ho, hr2⟩, hreq', hmc'⟩ := hend
  obtain ⟨O1, hl1, hl2⟩ := hlog
  have hl1' : t'.wlog = (g.L1 ++ O1) ++ g.D := hwl.trans hl1
  have hl2' : O1 ++ sp'.output = dO ++ o := by rw [ho, ← List.append_assoc, hl2]
  rcases hres with ⟨rfl, hbd⟩ | ⟨rfl, hwk, hans, hnb, hraw, hg0, hg1, hin⟩
  · have hpay : sp'.pay = 0 ∧ sp'.pad = 0 := by
      simpa [Str.Parser.isRecordBoundary] using hbd
    obtain ⟨cc, pd, s2, hcc, hpd, hw, ⟨s1, hsuf⟩⟩ := hr2.ign.pos
    rw [hpay.1] at hcc
    rw [hpay.2] at hpd
    have hcc' : cc = [] := List.length_eq_zero_iff.1 hcc
    have hpd' : pd = [] := List.length_eq_zero_iff.1 hpd
    rw [hcc', hpd', List.nil_append, List.nil_append] at hw
    have hsp : g.body = s1 ++ s2 := hsuf.symm
    have hctx := ok.ctx
    obtain ⟨_, hout, _⟩ := hr2.now hctx
    have hrem : Rem (Ev g.p.id g.mc) (view sp') t'.input = refWire (Ev g.p.id g.mc) (serAll s2) := by
      show ref (Ev g.p.id g.mc) (view sp').state (view sp').pay (view sp').pad ((view sp').raw ++ t'.input) = _
      have e1 : (view sp').pay = 0 := hpay.1
      have e2 : (view sp').pad = 0 := hpay.2
      have e3 : (view sp').raw = sp'.raw := rfl
      rw [e1, e2, e3, hw]
      exact ref_eq_refWire (Ev g.p.id g.mc) _ _
    have hs2 : ∀ r ∈ s2, StdinRec g.p.id r := fun r hr => ok.str r (by rw [hsp]; exact List.mem_append_right _ hr)
    rw [hrem, refWire_view g.p.id g.mc hs2] at hout
    have hdO : dO ++ o = owedI g.p.id g.mc s1 := by
      have : owedI g.p.id g.mc g.body = owedI g.p.id g.mc s1 ++ owedI g.p.id g.mc s2 := by
        rw [hsp]; simp [owedI, List.flatMap_append]
      rw [this] at hout
      exact List.append_cancel_right hout
    have hepi : epilogueOf { r with sp := sp' } g.st = (gD g s2 ((g.L1 ++ O1) ++ g.D ++ sp'.output)).epi := by
      simp only [epilogueOf, hwr, if_true, Cfg.epi, outputStreams]
      show makeRequestEpilogue sp'.request.id g.st _ = _
      rw [hreq', hreq]; rfl
    have heq' : closePoll r cs (gD g s2 ((g.L1 ++ O1) ++ g.D ++ sp'.output)).st 0 c.env.mutex c.env.tr =
        closeP4 { sp := sp', lock := .none, writeable := r.writeable } c.env.mutex t'
          (.writeOut sp'.output (gD g s2 ((g.L1 ++ O1) ++ g.D ++ sp'.output)).epi) := by
      show closePoll r cs g.st 0 c.env.mutex c.env.tr = _
      rw [heq, ← hepi]
      simp only [closeTail, closeP2Tail, closeP3_start, Nat.lt_irrefl, gt_iff_lt, if_false, hlk, lockDrop]
    have hrawlen : sp'.raw.length ≤ g.cap := by
      have := hr2.sinv.1
      have e : (view sp').freeStart = sp'.freeStart := rfl
      have e2 : (view sp').cap = sp'.cap := rfl
      rw [e, e2, hr2.capK] at this
      simp only [Str.Parser.freeStart] at this
      omega
    have hce : CEndW (gD g s2 ((g.L1 ++ O1) ++ g.D ++ sp'.output))
        { sp := sp', lock := .none, writeable := r.writeable } t'.input :=
      ⟨hpay.1, hpay.2, hw, hreq'.trans hreq, hr2.capK, hmc'.trans hmc, hrawlen⟩
    have hU := uclose_out' (g := gD g s2 ((g.L1 ++ O1) ++ g.D ++ sp'.output)) hph heq' hts hce hm
      (by rw [gD_LU, hl1']; rfl) hb hstop hev hsc
    have hO : O1 ++ sp'.output = owedI g.p.id g.mc s1 := hl2'.trans hdO
    exact hU.toG3.imp
      (fun _ hl h => Or.inr (Or.inr (Or.inr ⟨s1, s2, O1, sp'.output, hsp, hO, hrd.wstep hl.ts, h⟩)))
      (fun _ hl h => ⟨s1, s2, O1, sp'.output, hsp, hO, hrd.wstep hl.ts, h⟩)
      (fun _ hl h => ⟨s1, s2, O1, sp'.output, hsp, hO, hrd.wstep hl.ts, h⟩)
  · have hstep := C07.closing_step c r cs g.st 0 hph
    rw [heq] at hstep
    have hstep' : stepConn c = .halt (mkC c (.closing { r with sp := sp' } .inBoundary g.st 0) t') .pending := hstep
    refine Or.inl (Or.inl ⟨_, (Halts.now hstep').mono (by omega), mkC_link c _ hts, ?_, hwk, hans⟩)
    exact Or.inr (Or.inr (Or.inl ⟨{ r with sp := sp' }, dO ++ o, O1, rfl, ⟨G', hr2⟩, hreq'.trans hreq,
      hmc'.trans hmc, hlk, hwr, hm, hl1', hl2', hnb, hraw, hg0, hg1, hin, hrd.step hts, hb.step hts, hstop,
      hev.step hts, hsc⟩))

theorem abound_pollNF {g : Cfg} {rd : ARead} {wr : Bool} (ok : AOKN g rd wr) {c : Conn} {r : AReq} {dO : Bytes}
    (hph : c.phase = .closing r .inBoundary g.st 0)
    (hr2 : ∃ G, R2 g.p.id g.mc g.cap g.body r.sp G c.env.tr.input dO)
    (hreq : r.sp.request = g.p.request) (hmc : r.sp.maxConns = g.mc)
    (hlk : r.lock = .none) (hwr : r.writeable = true) (hm : c.env.mutex = none)
    (hlog : ∃ O1, c.env.tr.wlog = (g.L1 ++ O1) ++ g.D ∧ O1 ++ r.sp.output = dO)
    (hnb : r.sp.isRecordBoundary = false) (hraw : r.sp.raw.length < g.cap) (hg0 : r.sp.g0 = 0)
    (hg1 : r.sp.g1 = 0) (hin : c.env.tr.input ≠ []) (hre : REvs g c.env.tr)
    (hb : Ben c.env.tr) (hstop : c.stop = false) (hev : Ev1 g c.env.tr) (hsc : c.scripts = g.more) :
    GRes3 (SA g) (AA g) (FA g) 2 c := by
  have hctx := ok.ctx
  obtain ⟨G, hr2⟩ := hr2
  have heq0 := closePoll_bound_tail r c.env.mutex c.env.tr g.st
  have hfree : r.sp.free = g.cap - r.sp.raw.length := by
    simp [Str.Parser.free, Str.Parser.freeStart, hr2.par, hr2.capK, hg0, hg1]
  have hfp : 0 < r.sp.free := by rw [hfree]; omega
  have hend0 : BEnd g.p.id g.mc g.cap g.body r.sp r.sp dO c.env.tr :=
    ⟨⟨[], G, (List.append_nil _).symm, by rw [List.append_nil]; exact hr2⟩, rfl, rfl⟩
  rcases hrd : c.env.tr.read r.sp.free with ⟨t1, x⟩
  cases x with
  | pending =>
    have hwl : t1.wlog = c.env.tr.wlog := by have := read_wlog c.env.tr r.sp.free; rwa [hrd] at this
    obtain ⟨hinp, hw | hw⟩ := read_pending hb hrd
    · have hcb : closeBoundary r.sp true c.env.tr = (r.sp, t1, .pending) := by simp [closeBoundary, hrd]
      rw [hcb] at heq0
      exact aboundary_outNF ok (sp0 := r.sp) (dO := dO) hph heq0 (read_tstep hrd) hwl
        ⟨⟨[], G, (List.append_nil _).symm, by rw [List.append_nil]; exact hr2.input hinp⟩, rfl, rfl⟩ hreq hmc
        (Or.inr ⟨rfl, hw.1, hw.2, hnb, hraw, hg0, hg1, by rw [hinp]; exact hin⟩) hlk hwr hm hlog hre hb hstop hev hsc
    · exact absurd hw.1 hin
  | ready y =>
    cases y with
    | error e => exact (read_error hb hrd).elim
    | ok bs =>
      obtain ⟨hinp, hwl, hlen, hz⟩ := read_ok_ben hb hrd
      by_cases hbs : bs = []
      · rcases hz hbs with hz | hz
        · omega
        · exact absurd hz.1 hin
      · have hs1 := read_tstep hrd
        rcases hbl : boundaryLoop (t1.input.length + 2) r.sp bs t1 with ⟨sp', t', res⟩
        have hcb : closeBoundary r.sp true c.env.tr = (sp', t', res) := by
          cases bs with
          | nil => exact absurd rfl hbs
          | cons b0 bs' => simp [closeBoundary, hrd, hbl]
        rw [hcb] at heq0
        obtain ⟨q1, q2, q3, q4⟩ := bloop_sim hctx _ _ bs t1 (hb.step hs1) (hr2.input (by rw [← hinp]))
          hlen (Nat.le_refl _) hbl
        refine aboundary_outNF ok (sp0 := r.sp) (dO := dO) hph heq0 (hs1.trans q1) (q2.trans hwl) q3 hreq hmc ?_
          hlk hwr hm hlog hre hb hstop hev hsc
        rcases q4 with q4 | ⟨a, b, c1, d⟩
        · exact Or.inl q4
        · exact Or.inr ⟨a, b, by have := hs1.ans_le; omega, d⟩

/-- **`close` called** by the connection task: `writeable()` is ready (an Authorizer is writeable from
the start), `set_stream(None)` changes nothing, `record_boundary()`. -/
theorem aclose_startNF {g : Cfg} {rd : ARead} {wr : Bool} (ok : AOKN g rd wr) {c : Conn} {r : AReq} {G dO : Bytes}
    (hph : c.phase = .closing r .start g.st 0)
    (hr2 : R2 g.p.id g.mc g.cap g.body r.sp G c.env.tr.input dO)
    (hreq : r.sp.request = g.p.request) (hmc : r.sp.maxConns = g.mc)
    (hlk : r.lock = .none) (hwr : r.writeable = true) (hm : c.env.mutex = none)
    (hlog : ∃ O1, c.env.tr.wlog = (g.L1 ++ O1) ++ g.D ∧ O1 ++ r.sp.output = dO) (hrd : REvs g c.env.tr)
    (hb : Ben c.env.tr) (hstop : c.stop = false) (hev : Ev1 g c.env.tr) (hsc : c.scripts = g.more) :
    GRes3 (SA g) (AA g) (FA g) 2 c := by
  have hctx := ok.ctx
  have hign : spIgnore r.sp = r.sp := by simp [spIgnore, hr2.ign.strm]
  have heq0 := closePoll_start_tail r c.env.mutex c.env.tr g.st hwr
  rw [hign] at heq0
  by_cases hbd : r.sp.isRecordBoundary = true
  · have hcb : closeBoundary r.sp false c.env.tr = (r.sp, c.env.tr, .ready) := by
      simp [closeBoundary, hbd]
    rw [hcb] at heq0
    exact aboundary_outNF ok (sp0 := r.sp) (dO := dO) hph heq0 (.refl _) rfl
      ⟨⟨[], G, (List.append_nil _).symm, by rw [List.append_nil]; exact hr2⟩, rfl, rfl⟩ hreq hmc (Or.inl ⟨rfl, hbd⟩)
      hlk hwr hm hlog hrd hb hstop hev hsc
  · have hbd' : r.sp.isRecordBoundary = false := by simpa using hbd
    rcases hbl : boundaryLoop (c.env.tr.input.length + 2) r.sp [] c.env.tr with ⟨sp', t', res⟩
    have hcb : closeBoundary r.sp false c.env.tr = (sp', t', res) := by
      simp [closeBoundary, hbd', hbl]
    rw [hcb] at heq0
    obtain ⟨q1, q2, q3, q4⟩ := bloop_sim hctx _ _ [] c.env.tr hb (by rw [List.nil_append]; exact hr2)
      (Nat.zero_le _) (Nat.le_refl _) hbl
    exact aboundary_outNF ok (sp0 := r.sp) (dO := dO) hph heq0 q1 q2 q3 hreq hmc q4
      hlk hwr hm hlog hrd hb hstop hev hsc

/-- the rest of a poll whose handler part ended in the write phase -/
theorem aout_finishNF {g : Cfg} {rd : ARead} {wr : Bool} (ok : AOKN g rd wr) {c : Conn} {r0 r' : AReq}
    {h0 : HState} {e2 : Run.Env} {O1 G dO : Bytes} (hph : c.phase = .handler r0 h0)
    (hw : WOutG g.p.id g.data g.st (g.L1 ++ O1) r' e2 (handlerPoll ((handlerFuel c.env r0 + scriptOf c)) r0 h0 c.env))
    (hts0 : TStep c.env.tr e2.tr) (hsg : e2.segs = c.env.segs)
    (hr2 : R2 g.p.id g.mc g.cap g.body r'.sp G e2.tr.input dO)
    (hreq : r'.sp.request = g.p.request) (hmc : r'.sp.maxConns = g.mc)
    (hlk : r'.lock = .none) (hwr : r'.writeable = true) (hout : O1 ++ r'.sp.output = dO) (hrd : REvs g e2.tr)
    (hb : Ben c.env.tr) (hstop : c.stop = false) (hev : Ev1 g c.env.tr) (hsc : c.scripts = g.more) :
    GRes3 (SA g) (AA g) (FA g) 3 c := by
  have hstep := C07.handler_step c r0 h0 hph
  rcases hhp : handlerPoll ((handlerFuel c.env r0 + scriptOf c)) r0 h0 c.env with ⟨r2, h2, e3, res⟩
  rw [hhp] at hstep hw
  obtain ⟨hr2', q1, q2, q3, q4⟩ := hw
  simp only at hr2' q1 q2 q3 q4
  subst hr2'
  have hts := hts0.trans q1
  rcases q4 with ⟨rfl, hwk, hans, hwg⟩ | ⟨rfl, hws, hmx, hlg⟩
  · have hstep' : stepConn c = .halt ⟨.handler r2 h2, e3, c.scripts, c.stop⟩ .pending := hstep
    refine Or.inl (Or.inl ⟨_, (Halts.now hstep').mono (by omega), ⟨hts.w, q3.trans hsg, rfl⟩, ?_, hwk,
      by show ans e3.tr < ans c.env.tr; have := hts0.ans_le; omega⟩)
    exact Or.inr (Or.inl ⟨r2, h2, O1, dO, rfl, hwg, ⟨G, by rw [q2]; exact hr2⟩, hreq, hmc,
      hlk, hwr, hout, hrd.step q1, hb.step hts, hstop, hev.step hts, hsc⟩)
  · have halive : (h2.writers.filter Option.isSome).length = 0 := by rw [hws]; rfl
    simp only [halive] at hstep
    have hstep' : stepConn c =
        .next ⟨.closing r2 .start g.st 0, e3.ev s!"HE(ok:{showStatus g.st})", c.scripts, c.stop⟩ := hstep
    have hts2 : TStep c.env.tr (e3.tr.ev s!"HE(ok:{showStatus g.st})") :=
      hts.trans (TStep.ev _ (by simp [isHS, toString_str]))
    have hcore := aclose_startNF ok
      (c := ⟨.closing r2 .start g.st 0, e3.ev s!"HE(ok:{showStatus g.st})", c.scripts, c.stop⟩) (G := G)
      (dO := dO) rfl (by show R2 _ _ _ _ r2.sp G e3.tr.input dO; rw [q2]; exact hr2) hreq hmc hlk hwr hmx
      ⟨O1, by show (e3.tr.ev _).wlog = _; rw [Transport.ev_wlog, hlg]; rfl, hout⟩
      ((hrd.step q1).step (TStep.ev _ (by simp [isHS, toString_str]))) (hb.step hts2) hstop (hev.step hts2) hsc
    exact (GRes3.of_steps (Steps.one hstep') ⟨hts2.w, q3.trans hsg, rfl⟩ hcore).mono (by omega)

/-- One poll that starts inside the handler's `write_all`. -/
theorem hwa_pollNF {g : Cfg} {rd : ARead} {wr : Bool} (ok : AOKN g rd wr) {c : Conn} {r : AReq} {h : HState}
    {O1 G dO : Bytes} (hph : c.phase = .handler r h)
    (hwg : HWriteG g.p.id g.data g.st (g.L1 ++ O1) h c.env)
    (hr2 : R2 g.p.id g.mc g.cap g.body r.sp G c.env.tr.input dO)
    (hreq : r.sp.request = g.p.request) (hmc : r.sp.maxConns = g.mc)
    (hlk : r.lock = .none) (hwr : r.writeable = true) (hout : O1 ++ r.sp.output = dO) (hrd : REvs g c.env.tr)
    (hb : Ben c.env.tr) (hstop : c.stop = false) (hev : Ev1 g c.env.tr) (hsc : c.scripts = g.more) :
    GRes3 (SA g) (AA g) (FA g) 3 c := by
  refine aout_finishNF ok hph (write_phaseGN hwg hb ?_) (.refl _) rfl hr2 hreq hmc hlk hwr hout hrd hb hstop hev hsc
  have h1 := handlerFuel_ge c.env r
  have h2 := wcost_le (restOf h.sub g.data).length
  have h3 : scriptOf c = (restOf h.sub g.data).length + 1 + 2 := by
    rw [scriptOf_handler hph]
    obtain ⟨ops, sub, ws, pr⟩ := h
    have := hwg.ops
    simp only at this
    subst this
    simp [scriptCost, wscript, curCost_writeAll, opCost]
  omega

/-- the `Request` of an Authorizer as the handler gets it: ignoring, framed on the tail records -/
theorem r2_auth_startNF {g : Cfg} {rd : ARead} {wr : Bool} (ok : AOKN g rd wr) {e1 input : Bytes} (hlen : e1.length ≤ g.cap)
    (hwire : e1 ++ input = g.X) :
    R2 g.p.id g.mc g.cap g.body (Str.Parser.fromParser g.cap g.p.request e1 g.mc) e1 input [] := by
  have hrole : g.p.request.role = 2 := ok.role
  have hstrm : (Str.Parser.fromParser g.cap g.p.request e1 g.mc).stream = none := by
    simp [Str.Parser.fromParser, hrole, nextInputStream]
  have hw : e1 ++ input = serAll g.body := by rw [hwire, ok.hX]
  obtain ⟨h1, h2, h3, h4, _, h6⟩ := Str.SInv_fromParser g.cap g.p.request e1 g.mc hlen ok.hid
  refine ⟨⟨hstrm, rfl, ⟨[], [], g.body, rfl, rfl, by show e1 ++ input = _; rw [hw]; rfl, List.suffix_refl _⟩⟩,
    ⟨rfl, rfl, rfl, rfl, by show 8 ∈ inputStreams 3; decide⟩,
    ⟨h1, h2, h3, h4, Or.inr ⟨8, rfl, by show 8 ∈ inputStreams 3; decide⟩, h6⟩, rfl, rfl, hw, fun x _ => ?_⟩
  rw [RefOut.pre_nil]
  exact (ref_eq_refWire _ _ _).symm

/-- the reads of the handler: they return `Ok(0)`, the replies for what was buffered are queued -/
theorem areadsNF {g : Cfg} {rd : ARead} {wr : Bool} (ok : AOKN g rd wr) {r0 : AReq} {e : Run.Env} {G : Bytes}
    (tl : List HOp) (f : Nat)
    (hr2 : R2 g.p.id g.mc g.cap g.body r0.sp G e.tr.input []) (hout : r0.sp.output = [])
    (hlk : r0.lock = .none) (hwr : r0.writeable = true) (hm : e.mutex = none) :
    ∃ r' e2 o, handlerPoll (f + 1) r0 { ops := rd.ops ++ tl, propagate := true } e =
        handlerPoll (rd.fuel f) r' { ops := tl, propagate := true } e2 ∧
      TStep e.tr e2.tr ∧ e2.tr.input = e.tr.input ∧ e2.tr.wlog = e.tr.wlog ∧ e2.segs = e.segs ∧ e2.mutex = none ∧
      (∀ s ∈ rd.evs, s ∈ e2.tr.events) ∧
      R2 g.p.id g.mc g.cap g.body r'.sp G e.tr.input o ∧ r'.sp.output = o ∧ r'.lock = .none ∧ r'.writeable = true ∧
      r'.sp.request = r0.sp.request ∧ r'.sp.maxConns = r0.sp.maxConns := by
  cases rd with
  | none =>
    exact ⟨r0, e, [], rfl, .refl _, rfl, rfl, rfl, hm, (fun _ h => nomatch h), hr2, hout, hlk, hwr, rfl, rfl⟩
  | read n =>
    cases n with
    | zero =>
      refine ⟨r0, ({ e with mutex := e.mutex, tr := e.tr } : Run.Env).ev s!"r={0}:{hexOrDash []}", [], ?_,
        TStep.ev _ (by simp [isHS, toString_str]), rfl, rfl, rfl, hm, ?_, hr2, hout, hlk, hwr, rfl, rfl⟩
      · show handlerPoll (f + 1) r0 { ops := .read 0 :: tl, sub := .fresh, writers := [], propagate := true } e = _
        rw [hp_read, C09E.read_zero]
        rfl
      · intro s hs
        rw [List.mem_singleton.1 hs]
        show rdEvent [] ∈ e.tr.events ++ [_]
        simp [rdEvent]
    | succ n =>
      obtain ⟨r', o, hpi, a1, a2, a3, a4, a5, a6⟩ := apoll_read ok.ctx n hr2 hout hlk hwr
      refine ⟨r', ({ e with mutex := none, tr := e.tr } : Run.Env).ev s!"r={0}:{hexOrDash []}", o, ?_,
        TStep.ev _ (by simp [isHS, toString_str]), rfl, rfl, rfl, rfl, ?_, by simpa using a6, a3, a1, a2, a4, a5⟩
      · show handlerPoll (f + 1) r0 { ops := .read (n + 1) :: tl, sub := .fresh, writers := [], propagate := true } e = _
        rw [hp_read, hm, hpi]
        rfl
      · intro s hs
        rw [List.mem_singleton.1 hs]
        show rdEvent [] ∈ e.tr.events ++ [_]
        simp [rdEvent]
  | all =>
    obtain ⟨r', o, hpi, a1, a2, a3, a4, a5, a6⟩ := apoll_read ok.ctx 63 hr2 hout hlk hwr
    refine ⟨r', ({ e with mutex := none, tr := e.tr } : Run.Env).ev (rEvent []), o, ?_,
      TStep.ev _ (isHS_rEvent _), rfl, rfl, rfl, rfl, ?_, by simpa using a6, a3, a1, a2, a4, a5⟩
    · show handlerPoll (f + 1) r0 { ops := .readAll :: tl, sub := .fresh, writers := [], propagate := true } e = _
      rw [hp_readAll, hm, hpi]
      rfl
    · intro s hs
      rw [List.mem_singleton.1 hs]
      show rEvent [] ∈ e.tr.events ++ [_]
      simp

/-- **The first poll of the handler**, and what follows it in the same poll of the task. -/
theorem afirstNF {g : Cfg} {rd : ARead} {wr : Bool} (ok : AOKN g rd wr) (c : Conn) (hc : FirstCfg g c) :
    GRes3 (SA g) (AA g) (FA g) 6 c := by
  obtain ⟨e1, hph, hlen, hwire, hlog, hm, hb, hstop, hev, hsc⟩ := hc
  have hrole : g.p.request.role = 2 := ok.role
  have hwr0 : (AReq.new (Str.Parser.fromParser g.cap g.p.request e1 g.mc)).writeable = true := by
    simp [AReq.new, Str.Parser.fromParser, hrole, inputStreams]
  have hr20 := r2_auth_startNF ok hlen hwire
  obtain ⟨f, hf⟩ : ∃ f, (handlerFuel c.env (AReq.new (Str.Parser.fromParser g.cap g.p.request e1 g.mc)) + scriptOf c) = f + 1 :=
    ⟨(handlerFuel c.env (AReq.new (Str.Parser.fromParser g.cap g.p.request e1 g.mc)) + scriptOf c) - 1, by
      have := handlerFuel_ge c.env (AReq.new (Str.Parser.fromParser g.cap g.p.request e1 g.mc)); omega⟩
  have hfge := handlerFuel_ge c.env (AReq.new (Str.Parser.fromParser g.cap g.p.request e1 g.mc))
  obtain ⟨r', e2, o, heqX, hts0, hin2, hwl2, hsg2, hm2, hevs, hr2, hout, hlk, hwr, hrq, hmc⟩ :=
    areadsNF ok (r0 := AReq.new (Str.Parser.fromParser g.cap g.p.request e1 g.mc)) (e := c.env) (G := e1)
      (atail wr g.data g.st) f hr20 rfl rfl hwr0 hm
  rw [ok.hs] at hph
  have hcost : wr = true → wcost g.data.length ≤ scriptOf c := by
    intro hw
    subst hw
    have hwl := wcost_le g.data.length
    rw [scriptOf_handler hph, scriptCost_fresh]
    simp only [List.map_append, List.sum_append, atail, if_true, oscript, List.map_cons, List.sum_cons, opCost,
      List.map_nil, List.sum_nil]
    omega
  have hreq' : r'.sp.request = g.p.request := hrq
  have hmc' : r'.sp.maxConns = g.mc := hmc
  have hrd : REvs g e2.tr := by intro s hs; rw [ok.hrv] at hs; exact hevs s hs
  cases wr with
  | true =>
    have hw := open_phaseA (data := g.data) (st := g.st) (Lb := g.L1 ++ []) (r := r') (e := e2) hwr hm2
      (by rw [hwl2, hlog, List.append_nil]) (hb.step hts0) (fuel := rd.fuel f)
      (by have := rd.fuel_ge f; have := hcost rfl; omega)
    have hid' : r'.sp.request.id = g.p.id := by rw [hreq']; rfl
    rw [hid', show ({ ops := oscript g.data g.st, propagate := true } : HState) =
      { ops := atail true g.data g.st, propagate := true } from rfl, ← heqX, ← hf] at hw
    exact (aout_finishNF ok hph hw hts0 hsg2 (G := e1) (dO := o) (by rw [hin2]; exact hr2) hreq' hmc' hlk hwr
      (by rw [hout]; rfl) hrd hb hstop hev hsc).mono (by omega)
  | false =>
    have hdata := ok.hd rfl
    have hstep := C07.handler_step c _ _ hph
    rw [hf, heqX] at hstep
    obtain ⟨f', hf'⟩ : ∃ f', rd.fuel f = f' + 1 := ⟨rd.fuel f - 1, by have := rd.fuel_ge f; omega⟩
    rw [hf'] at hstep
    have hret : handlerPoll (f' + 1) r' { ops := atail false g.data g.st, propagate := true } e2 =
        (r', { ops := [.ret g.st], sub := .fresh, writers := [], propagate := true }, e2, .done (.ok g.st)) :=
      hp_ret f' r' g.st [] .fresh [] true e2
    rw [hret] at hstep
    simp only [List.filter_nil, List.length_nil] at hstep
    have hstep1 : stepConn c = .next ⟨.closing r' .start g.st 0, e2.ev s!"HE(ok:{showStatus g.st})", c.scripts, c.stop⟩ :=
      hstep
    have hts2 : TStep c.env.tr (e2.tr.ev s!"HE(ok:{showStatus g.st})") :=
      hts0.trans (TStep.ev _ (by simp [isHS, toString_str]))
    have hD : g.D = [] := by unfold Cfg.D; rw [hdata]; rfl
    have hcore := aclose_startNF ok
      (c := ⟨.closing r' .start g.st 0, e2.ev s!"HE(ok:{showStatus g.st})", c.scripts, c.stop⟩) (G := e1) (dO := o)
      rfl (by show R2 _ _ _ _ r'.sp e1 e2.tr.input o; rw [hin2]; exact hr2) hreq' hmc' hlk hwr hm2
      ⟨[], by show (e2.tr.ev _).wlog = _; rw [Transport.ev_wlog, hwl2, hlog, hD]; simp, by rw [hout]; rfl⟩
      (hrd.step (TStep.ev _ (by simp [isHS, toString_str]))) (hb.step hts2) hstop (hev.step hts2) hsc
    exact (GRes3.of_steps (Steps.one hstep1) ⟨hts2.w, hsg2, rfl⟩ hcore).mono (by omega)

theorem sa_pollNF {g : Cfg} {rd : ARead} {wr : Bool} (ok : AOKN g rd wr) {c : Conn} (h : SA g c) :
    GRes3 (SA g) (AA g) (FA g) (2 * c.env.tr.input.length + 15) c := by
  rcases h with h |
    ⟨r, h, O1, dO, h1, h2, ⟨G, h3⟩, h4, h5, h6, h7, h8, h9, h10, h11, h12, h13⟩ |
    ⟨r, dO, O1, h1, h2, h3, h4, h5, h6, h7, h8, h9, h10, h11, h12, h13, h14, h15, h16, h17, h18, h19⟩ |
    ⟨s1, s2, O1, O2, h1, h2, h3, h4⟩
  · exact fstage_poll3 ok.fok (fun _ h => Or.inl h) (afirstNF ok) h
  · exact (hwa_pollNF ok h1 h2 h3 h4 h5 h6 h7 h8 h9 h10 h11 h12 h13).mono (by omega)
  · exact (abound_pollNF ok h1 h2 h3 h4 h5 h6 h7 ⟨O1, h8, h9⟩ h10 h11 h12 h13 h14 h15 h16 h17 h18 h19).mono (by omega)
  · exact ((lstage_poll3 (g := gD g s2 ((g.L1 ++ O1) ++ g.D ++ O2)) h4).imp
      (fun _ hl h => Or.inr (Or.inr (Or.inr ⟨s1, s2, O1, O2, h1, h2, h3.wstep hl.ts, h⟩)))
      (fun _ hl h => ⟨s1, s2, O1, O2, h1, h2, h3.wstep hl.ts, h⟩)
      (fun _ hl h => ⟨s1, s2, O1, O2, h1, h2, h3.wstep hl.ts, h⟩)).mono (by omega)

/-- `run_auth` without the size hypothesis. -/
theorem run_authNF' {g : Cfg} {rd : ARead} {wr : Bool} (ok : AOKN g rd wr) {Z : Bytes}
    (hns : ∀ t1 t2, g.body = t1 ++ t2 → NoStuckW g.cap g.mc (serAll t2 ++ Z))
    (hNF : ∀ t1 t2, g.body = t1 ++ t2 → ∀ F x, F ++ x ++ Z = serAll t2 ++ Z → (run .header F g.mc).st.isFinal = false)
    (em : EndMode) (evs0 : List String) (c : Conn) (n0 fuel : Nat) (hst : FStage g c)
    (hem : c.env.tr.endMode = em) (hev0 : ∀ s ∈ evs0, s ∈ c.env.tr.events)
    (hsegs : c.env.segs = []) (hf : ans c.env.tr + 1 ≤ fuel) :
    ∃ c'' fin, runTask fuel c n0 none = (c'', fin) ∧
      (GEnd g.cap g.mc Z g.more (g.hs0 + 1) (AIdx.OKk g) (fun i => serAll i.t2 ++ Z) (AIdx.L g)
          (fun _ => hsEvent g.p.request :: g.revs) em evs0 (ans c.env.tr) c'' fin ∨
       (fin = "RET" ∧ FA g c'' ∧ c''.env.tr.endMode = em ∧ (∀ s ∈ evs0, s ∈ c''.env.tr.events))) :=
  run_stages3' (cap24 g) (fun i hi => hns i.t1 i.t2 hi.1.1) (fun i hi => hNF i.t1 i.t2 hi.1.1) (fun _ _ h => h.cong)
    (fun _ h => (sa_pollNF ok h).imp (fun _ _ h => h) (fun c1 _ h => by
      obtain ⟨s1, s2, O1, O2, hsp, hO, hrd, haf⟩ := h
      obtain ⟨raw, hph, hw, hraw⟩ := haf.ph
      refine ⟨⟨s1, s2, O1, O2⟩, ⟨⟨hsp, hO⟩, haf.keep⟩, Or.inr ⟨raw, hph, by rw [hw]; rfl, hraw, ?_, haf.ben, haf.stop⟩,
        ⟨haf.sc, haf.mtx, haf.ev.1, fun s hs => ?_⟩⟩
      · rw [haf.log, gD_LU]; rfl
      · rcases List.mem_cons.1 hs with rfl | hs
        · exact haf.ev.2
        · exact hrd s hs) (fun _ _ h => h))
    em evs0 c n0 fuel (Or.inl hst) hem hev0 hsegs hf

/-- `serve_auth_core` without the size hypothesis. -/
theorem serve_auth_coreNF' {g : Cfg} {rd : ARead} {wr : Bool} (ok : AOKN g rd wr) (hk : g.p.flags.toNat % 2 = 1)
    {left : List Rec} (hleft : LeftOK (alignedBufsize g.b) left) {Z : Bytes} (hR : ∀ e ∈ g.body, IdleNoise e)
    (hZ : ∀ t1 t2, g.body = t1 ++ t2 → GoodNext g.cap g.mc t2 Z)
    {Lw : Bytes} {evs : List String} {A0 : Nat} {c : Conn} (n0 fuel : Nat)
    (hLw : Lw = g.L0 ++ idleOwed g.mc left)
    (hstart : StartAt g.cap g.mc left Lw ((g.hscript, true) :: g.more) g.hs0 evs A0 g.W c)
    (hf : A0 + 1 ≤ fuel) :
    ∃ c' i, runTask fuel c n0 none = (c', "STALL") ∧ AIdx.OK g i ∧ (∀ s ∈ g.revs, s ∈ c'.env.tr.events) ∧
      Waiting g.cap g.mc i.t2 (AIdx.L (g.front left) i ++ idleOwed g.mc i.t2) g.more
        (g.hs0 + 1) (hsEvent g.p.request :: evs) A0 c' := by
  have okf := ok.front hleft
  obtain ⟨hst, hsg, hem, hans, hev, hin⟩ := fstage_of_startAt hleft hLw hstart
  obtain ⟨c', fin, hrun, hres⟩ :=
    run_authNF' okf (Z := Z) (fun t1 t2 h => (hZ t1 t2 h).1) (fun t1 t2 h => (hZ t1 t2 h).2) .pend evs c n0 fuel hst hem hev hsg
      (by omega)
  rcases hres with ⟨i, hi, hkp, hem', hev', hans', hsg', hend⟩ | ⟨_, ⟨s1, s2, O1, O2, _, _, _, hfu⟩, _, _⟩
  · have hi' : AIdx.OK g i := hi.1
    have hs2 : ∀ e ∈ i.t2, IdleNoise e := fun e he => hR e (by rw [hi'.1]; exact List.mem_append_right _ he)
    rcases hend with ⟨rfl, hp⟩ | ⟨_, hfn⟩
    · obtain ⟨F, hF, hps, hph, hlg⟩ := hp.pst
      have hFe : F = serAll i.t2 := List.append_cancel_right hF
      subst hFe
      have hnf : (run .header (serAll i.t2) g.mc).st.isFinal = false := (run_idle_out g.mc i.t2 hs2).2.2
      have hob : (run .header (serAll i.t2) (g.front left).mc).out = idleOwed g.mc i.t2 :=
        (run_idle_out g.mc i.t2 hs2).1
      refine ⟨c', i, hrun, hi', fun s hs => hkp.ev _ (List.mem_cons_of_mem _ hs), ⟨hph, hnf, hps.rem, hp.inp,
        by rw [hlg, hob], ⟨AIdx.L (g.front left) i, by
          show _ = _ ++ (run .header (serAll i.t2) (g.front left).mc).out
          rw [hob]⟩, hps.stop, hps.ben, hkp.sc, hkp.mx,
        hkp.hs, ?_, hsg', hem', by omega⟩⟩
      intro s hs
      rcases List.mem_cons.1 hs with rfl | hs
      · exact hkp.ev _ List.mem_cons_self
      · exact hev' s hs
    · rw [hfn.em] at hem'; cases hem'
  · have := hfu.nokeep
    have e : (gD (g.front left) s2 (((g.front left).L1 ++ O1) ++ (g.front left).D ++ O2)).p = g.p := rfl
    rw [e] at this
    omega

end Fcgi.E2E
