import Fcgi.Proofs.E2EParse
import Fcgi.Proofs.E2EFits
/-!
# End-to-end composition (C07) — part 5: one poll of the connection task, stage by stage

`Cfg`: everything fixed during one request.  `Stage g c`: where the connection task stands in the
life of that request at a poll boundary (inside `parse_request`, inside the handler's `readAll` or
`writeAll`, inside `close`'s last `write_all`, or — after a KEEP_CONN request — inside the next
`parse_request`, which finds only the previous request's terminating record).  `stage_poll`: one
poll from a stage ends finished, or parked at the end of the input, or on a transient `Pending` in a
later-or-equal stage with fewer scripted answers left.
-/
namespace Fcgi.E2E
open Fcgi Fcgi.Req Fcgi.Str Fcgi.Async Fcgi.Run Fcgi.Spec

/-- Everything fixed during one request. -/
structure Cfg where
  p : Preamble
  /-- the preamble's records (idle noise first) -/
  recs : List Rec
  /-- the Stdin content and the stream's records without the terminator (Responder, Filter) -/
  content : Bytes
  body : List Rec
  /-- padding and reserved byte of the terminating empty Stdin record -/
  pad : Bytes
  res : UInt8
  /-- the same for the Data stream (Filter) -/
  content2 : Bytes
  body2 : List Rec
  pad2 : Bytes
  res2 : UInt8
  /-- `Config::buffer_size`, `max_conns` -/
  b : Nat
  mc : Nat
  /-- what the handler writes to Stdout, and the status it returns -/
  data : Bytes
  st : ExitStatus
  /-- the write log when this request's `parse_request` started -/
  L0 : Bytes
  /-- handler starts before this request, and the handler scripts of the requests after it -/
  hs0 : Nat
  more : List (List HOp × Bool)
  /-- role-dependent (pinned down by `Cfg.Shape`): the wire after the preamble, its part after the
  Stdin terminator, what is unread when the handler is done with its input, the replies owed for the
  noise inside the input streams, the `R=` events of the handler's reads, the handler script -/
  X : Bytes
  X2 : Bytes
  U : Bytes
  Ot : Bytes
  revs : List String
  hscript : List HOp

namespace Cfg
def cap (g : Cfg) : Nat := alignedBufsize g.b
/-- the terminating record of the Stdin stream -/
def term (g : Cfg) : Rec := { rtype := 5, id := g.p.id, content := [], pad := g.pad, reserved := g.res }
/-- … of the Data stream -/
def term2 (g : Cfg) : Rec := { rtype := 8, id := g.p.id, content := [], pad := g.pad2, reserved := g.res2 }
def W (g : Cfg) : Bytes := serAll g.recs ++ g.X
/-- the Stdin stream as the stream parser sees it -/
def K (g : Cfg) : RCtx :=
  ⟨⟨g.p.id, g.p.role, 5, g.mc⟩, g.p.request, g.cap, g.X, g.content, owedStream g.p.id 5 g.mc g.body,
    g.term.ser ++ g.X2⟩
/-- the Data stream of a Filter -/
def K2 (g : Cfg) : RCtx :=
  ⟨⟨g.p.id, 3, 8, g.mc⟩, g.p.request, g.cap, g.term.ser ++ g.X2, g.content2,
    owedStream g.p.id 8 g.mc g.body2, g.term2.ser⟩
def N (g : Cfg) : ECtx := ⟨g.p.request, g.cap, g.mc, g.U⟩
/-- the write log when the handler starts -/
def L1 (g : Cfg) : Bytes := g.L0 ++ owedPreamble g.p g.mc g.recs
def Wc (g : Cfg) : WCtx := ⟨g.N, g.data, g.st, g.L1, g.Ot, g.revs⟩
/-- … when the handler has returned; `O1` = the stream-noise replies written before its output -/
def L2 (g : Cfg) (O1 : Bytes) : Bytes := (g.L1 ++ O1) ++ streamRecords 6 g.p.id g.data
/-- the epilogue `[Stdout∅][Stderr∅][EndRequest(id, st)]` -/
def epi (g : Cfg) : Bytes := makeRequestEpilogue g.p.id g.st [RT.stdout, RT.stderr]
/-- … when `close` is done; `O2` = the stream-noise replies `close` still had to write -/
def L3 (g : Cfg) (O1 O2 : Bytes) : Bytes := g.L2 O1 ++ O2 ++ g.epi
/-- what the next `parse_request` would see: what this request left unread (the terminating record
of its last input stream) in front of a preamble (any; we reuse this request's) -/
def W' (g : Cfg) : Bytes := g.U ++ serAll g.recs

/-- the handler suspended in one of its `readAll`s -/
def Rd (g : Cfg) (r : AReq) (h : HState) (e : Run.Env) : Prop :=
  (g.p.role = 1 ∧ HRead g.K (oscript g.data g.st) g.L1 [] r h e) ∨
  (g.p.role = 3 ∧ FRd g.K g.K2 g.Wc r h e)

/-- The role of the request and what it means for the role-dependent fields. -/
inductive Shape (g : Cfg) : Prop
  | responderU (hr : g.p.role = 1) (hb : Body g.p.id 5 g.content g.body)
      (hf : NoiseFits (alignedBufsize g.b) g.body) (hp : g.pad.length < 256) (hX2 : g.X2 = [])
      (hX : g.X = serAll g.body ++ g.term.ser) (hU : g.U = g.term.ser)
      (hOt : g.Ot = owedStream g.p.id 5 g.mc g.body) (hrv : g.revs = [rEvent g.content])
      (hs : g.hscript = script g.data g.st)
      (hfu : wcost g.data.length + 12 ≤ 1000)
  | authorizer (hr : g.p.role = 2) (hX : g.X = []) (hU : g.U = []) (hOt : g.Ot = []) (hrv : g.revs = [])
      (hs : g.hscript = oscript g.data g.st) (hfu : wcost g.data.length + 4 ≤ 1000)
  | filterU (hr : g.p.role = 3) (hb : Body g.p.id 5 g.content g.body) (hb2 : Body g.p.id 8 g.content2 g.body2)
      (hf : NoiseFits (alignedBufsize g.b) g.body) (hf2 : NoiseFits (alignedBufsize g.b) g.body2)
      (hp : g.pad.length < 256) (hp2 : g.pad2.length < 256)
      (hX2 : g.X2 = serAll g.body2 ++ g.term2.ser) (hX : g.X = serAll g.body ++ (g.term.ser ++ g.X2))
      (hU : g.U = g.term2.ser)
      (hOt : g.Ot = owedStream g.p.id 5 g.mc g.body ++ owedStream g.p.id 8 g.mc g.body2)
      (hrv : g.revs = [rEvent g.content, rEvent g.content2]) (hs : g.hscript = fscript g.data g.st)
      (hfu : wcost g.data.length + 24 ≤ 1000)

/-- `Shape.responderU` with the (stronger) fuel bound that older statements carry: the buffer size
`alignedBufsize b` plays no role any more (`handlerFuel` has `4·cap`). -/
theorem Shape.responder {g : Cfg} (hr : g.p.role = 1) (hb : Body g.p.id 5 g.content g.body)
    (hf : NoiseFits (alignedBufsize g.b) g.body) (hp : g.pad.length < 256) (hX2 : g.X2 = [])
    (hX : g.X = serAll g.body ++ g.term.ser) (hU : g.U = g.term.ser)
    (hOt : g.Ot = owedStream g.p.id 5 g.mc g.body) (hrv : g.revs = [rEvent g.content])
    (hs : g.hscript = script g.data g.st)
    (hfu : alignedBufsize g.b / 32 + wcost g.data.length + 12 ≤ 1000) : g.Shape :=
  .responderU hr hb hf hp hX2 hX hU hOt hrv hs (by omega)

theorem Shape.filter {g : Cfg} (hr : g.p.role = 3) (hb : Body g.p.id 5 g.content g.body)
    (hb2 : Body g.p.id 8 g.content2 g.body2)
    (hf : NoiseFits (alignedBufsize g.b) g.body) (hf2 : NoiseFits (alignedBufsize g.b) g.body2)
    (hp : g.pad.length < 256) (hp2 : g.pad2.length < 256)
    (hX2 : g.X2 = serAll g.body2 ++ g.term2.ser) (hX : g.X = serAll g.body ++ (g.term.ser ++ g.X2))
    (hU : g.U = g.term2.ser)
    (hOt : g.Ot = owedStream g.p.id 5 g.mc g.body ++ owedStream g.p.id 8 g.mc g.body2)
    (hrv : g.revs = [rEvent g.content, rEvent g.content2]) (hs : g.hscript = fscript g.data g.st)
    (hfu : alignedBufsize g.b / 16 + wcost g.data.length + 24 ≤ 1000) : g.Shape :=
  .filterU hr hb hb2 hf hf2 hp hp2 hX2 hX hU hOt hrv hs (by omega)

/-- The hypotheses on a request. -/
structure OK (g : Cfg) : Prop where
  wf : WellFormedPreamble g.p g.recs
  pairs : ∀ q ∈ g.p.pairs, (NV.enc q).length ≤ alignedBufsize g.b
  noise : NoiseFits (alignedBufsize g.b) g.recs
  /-- the role; includes a bound for the model fuel: `handlerPoll` gets `1000 + 4·|input| + 4·cap` units per poll (`Cfg.Rd.fuel`); the `4·cap` pays for the `readAll` loop over the
  buffer, so the bound is on the handler's own output only -/
  shape : g.Shape
end Cfg

theorem Cfg.OK.wfuel {g : Cfg} (ok : g.OK) : wcost g.data.length + 4 ≤ 1000 := by
  cases ok.shape with
  | responderU hr hb hf hp hX2 hX hU hOt hrv hs hfu => omega
  | authorizer hr hX hU hOt hrv hs hfu => exact hfu
  | filterU hr hb hb2 hf hf2 hp hp2 hX2 hX hU hOt hrv hs hfu => omega

theorem cap24 (g : Cfg) : 24 ≤ g.cap := alignedBufsize_ge g.b

theorem pid_lt {g : Cfg} (ok : g.OK) : 0 < g.p.id ∧ g.p.id < 65536 := by
  have h := ok.wf
  generalize g.recs = rs at h
  induction h with
  | noise r hn t ih => exact ih
  | «begin» pad res body5 hb hp hid hrole hl t => exact hid

theorem term_wf {g : Cfg} (ok : g.OK) (hp : g.pad.length < 256) : g.term.WF :=
  ⟨(pid_lt ok).2, by simp [Cfg.term], hp⟩
theorem term2_wf {g : Cfg} (ok : g.OK) (hp : g.pad2.length < 256) : g.term2.WF :=
  ⟨(pid_lt ok).2, by simp [Cfg.term2], hp⟩

/-- the reference on the Stdin stream's wire, and the buffer condition; `rest` = the records after
the Stdin terminator (none for a Responder, the Data stream for a Filter) -/
theorem kok {g : Cfg} (ok : g.OK) (hb : Body g.p.id 5 g.content g.body)
    (hf : NoiseFits (alignedBufsize g.b) g.body) (hp : g.pad.length < 256) (rest : List Rec)
    (hrw : ∀ r ∈ rest, r.WF) (hrf : NoiseFits (alignedBufsize g.b) rest) (hX2 : g.X2 = serAll rest)
    (hX : g.X = serAll g.body ++ (g.term.ser ++ g.X2)) : g.K.OK := by
  have hid := (pid_lt ok).2
  have hXs : g.X = serAll (g.body ++ g.term :: rest) := by
    rw [hX, hX2, C02.serAll_append, serAll_cons]
  have hcls : rclass ⟨g.p.id, g.p.role, 5, g.mc⟩ g.term = .endStream := by simp [rclass, Cfg.term, RT.isInputStream]
  have href := refWire_stream ⟨g.p.id, g.p.role, 5, g.mc⟩ (Or.inl rfl) hid hb g.term (term_wf ok hp) hcls rest hrw
  have hwf : ∀ r ∈ g.body ++ g.term :: rest, r.WF := by
    intro r hr
    rcases List.mem_append.1 hr with hr | hr
    · exact body_wf hid hb r hr
    · rcases List.mem_cons.1 hr with rfl | hr
      · exact term_wf ok hp
      · exact hrw r hr
  refine ⟨?_, ?_, by have := cap24 g; show 8 ≤ g.cap; omega⟩
  · show refWire ⟨g.p.id, g.p.role, 5, g.mc⟩ g.X = _
    rw [hXs, href]
    simp only [Cfg.K, hX2, serAll_cons]
  · intro G hG hv
    have hG' : G <+: g.X := hG
    rw [hXs] at hG'
    refine stream_fits ⟨g.p.id, g.p.role, 5, g.mc⟩ _ hwf (by rw [href]; intro h; cases h)
      (by have := cap24 g; show 8 ≤ alignedBufsize g.b; exact Nat.le_trans (by omega) this) ?_ G hG' hv
    intro r hr hg
    rcases List.mem_append.1 hr with hr | hr
    · exact hf r hr hg
    · rcases List.mem_cons.1 hr with rfl | hr
      · exact absurd hg.1 (by simp [Cfg.term, RT.getValues])
      · exact hrf r hr hg

/-- the same for the Data stream of a Filter, whose wire starts with the Stdin terminator -/
theorem kok2 {g : Cfg} (ok : g.OK) (hb2 : Body g.p.id 8 g.content2 g.body2)
    (hf2 : NoiseFits (alignedBufsize g.b) g.body2) (hp : g.pad.length < 256) (hp2 : g.pad2.length < 256)
    (hX2 : g.X2 = serAll g.body2 ++ g.term2.ser) : g.K2.OK := by
  have hid := (pid_lt ok).2
  have hXs : g.term.ser ++ g.X2 = serAll (g.term :: (g.body2 ++ g.term2 :: [])) := by
    rw [hX2, serAll_cons, C02.serAll_append, C02.serAll_single]
  have hcls : rclass ⟨g.p.id, 3, 8, g.mc⟩ g.term2 = .endStream := by simp [rclass, Cfg.term2, RT.isInputStream]
  have hpc : rclass ⟨g.p.id, 3, 8, g.mc⟩ g.term = .noise := by
    have hl : ¬ Later 3 (some 8) 5 := by decide
    simp [rclass, Cfg.term, RT.isInputStream, hl]
  have hpo : owed (some g.p.id) g.mc g.term = [] := by
    simp [owed, Cfg.term, RT.valid, RT.getValues, RT.beginRequest]
  have href := refWire_stream' ⟨g.p.id, 3, 8, g.mc⟩ (Or.inr rfl) hid g.term (term_wf ok hp) hpc hpo hb2 g.term2
    (term2_wf ok hp2) hcls [] (fun r hr => by cases hr)
  have hwf : ∀ r ∈ g.term :: (g.body2 ++ g.term2 :: []), r.WF := by
    intro r hr
    rcases List.mem_cons.1 hr with rfl | hr
    · exact term_wf ok hp
    rcases List.mem_append.1 hr with hr | hr
    · exact body_wf hid hb2 r hr
    · rw [List.mem_singleton.1 hr]; exact term2_wf ok hp2
  refine ⟨?_, ?_, by have := cap24 g; show 8 ≤ g.cap; omega⟩
  · show refWire ⟨g.p.id, 3, 8, g.mc⟩ (g.term.ser ++ g.X2) = _
    rw [hXs, href]
    simp only [Cfg.K2, C02.serAll_single]
  · intro G hG hv
    have hG' : G <+: g.term.ser ++ g.X2 := hG
    rw [hXs] at hG'
    refine stream_fits ⟨g.p.id, 3, 8, g.mc⟩ _ hwf (by rw [href]; intro h; cases h)
      (by have := cap24 g; show 8 ≤ alignedBufsize g.b; exact Nat.le_trans (by omega) this) ?_ G hG' hv
    intro r hr hg
    rcases List.mem_cons.1 hr with rfl | hr
    · exact absurd hg.1 (by simp [Cfg.term, RT.getValues])
    rcases List.mem_append.1 hr with hr | hr
    · exact hf2 r hr hg
    · rw [List.mem_singleton.1 hr] at hg
      exact absurd hg.1 (by simp [Cfg.term2, RT.getValues])

/-- the facts about the two streams of a Filter request -/
theorem kokF {g : Cfg} (ok : g.OK) (hr : g.p.role = 3) (hb : Body g.p.id 5 g.content g.body)
    (hb2 : Body g.p.id 8 g.content2 g.body2)
    (hf : NoiseFits (alignedBufsize g.b) g.body) (hf2 : NoiseFits (alignedBufsize g.b) g.body2)
    (hp : g.pad.length < 256) (hp2 : g.pad2.length < 256)
    (hX2 : g.X2 = serAll g.body2 ++ g.term2.ser) (hX : g.X = serAll g.body ++ (g.term.ser ++ g.X2)) :
    g.K.OK ∧ g.K2.OK ∧ Follows g.K g.K2 := by
  have hid := (pid_lt ok).2
  refine ⟨kok ok hb hf hp (g.body2 ++ [g.term2]) ?_ ?_ (by rw [hX2, C02.serAll_append, C02.serAll_single]) hX,
    kok2 ok hb2 hf2 hp hp2 hX2, ?_⟩
  · intro r hr
    rcases List.mem_append.1 hr with hr | hr
    · exact body_wf hid hb2 r hr
    · rw [List.mem_singleton.1 hr]; exact term2_wf ok hp2
  · intro r hr hg
    rcases List.mem_append.1 hr with hr | hr
    · exact hf2 r hr hg
    · rw [List.mem_singleton.1 hr] at hg
      exact absurd hg.1 (by simp [Cfg.term2, RT.getValues])
  · exact ⟨by simp [Cfg.K, hr], by simp [Cfg.K, Cfg.K2], rfl, rfl, rfl⟩

theorem term_idle {g : Cfg} (ok : g.OK) (hp : g.pad.length < 256) : IdleNoise g.term :=
  ⟨term_wf ok hp, fun h => by simp [Cfg.term, RT.beginRequest] at h⟩
theorem term2_idle {g : Cfg} (ok : g.OK) (hp : g.pad2.length < 256) : IdleNoise g.term2 :=
  ⟨term2_wf ok hp, fun h => by simp [Cfg.term2, RT.beginRequest] at h⟩

/-- what the request leaves unread: nothing, or one empty stream record -/
def URec (e : Rec) : Prop := IdleNoise e ∧ e.content = [] ∧ (e.rtype = 5 ∨ e.rtype = 8)

theorem U_shape {g : Cfg} (ok : g.OK) : ∃ us : List Rec, g.U = serAll us ∧ ∀ e ∈ us, URec e := by
  cases ok.shape with
  | responderU hr hb hf hp hX2 hX hU hOt hrv hs hfu =>
    exact ⟨[g.term], by rw [hU, C02.serAll_single], fun e he => by
      rw [List.mem_singleton.1 he]; exact ⟨term_idle ok hp, rfl, Or.inl rfl⟩⟩
  | authorizer hr hX hU hOt hrv hs hfu => exact ⟨[], by rw [hU]; rfl, fun e he => by cases he⟩
  | filterU hr hb hb2 hf hf2 hp hp2 hX2 hX hU hOt hrv hs hfu =>
    exact ⟨[g.term2], by rw [hU, C02.serAll_single], fun e he => by
      rw [List.mem_singleton.1 he]; exact ⟨term2_idle ok hp2, rfl, Or.inr rfl⟩⟩

theorem wf_us {p : Preamble} {recs : List Rec} (h : WellFormedPreamble p recs) :
    ∀ us : List Rec, (∀ e ∈ us, URec e) → WellFormedPreamble p (us ++ recs)
  | [], _ => h
  | e :: us, hu => .noise e (hu e List.mem_cons_self).1 (wf_us h us (fun x hx => hu x (List.mem_cons_of_mem _ hx)))

theorem noise_us {M : Nat} {recs : List Rec} (h : NoiseFits M recs) (us : List Rec) (hu : ∀ e ∈ us, URec e) :
    NoiseFits M (us ++ recs) := by
  intro r hr hg d hd hl
  rcases List.mem_append.1 hr with hr | hr
  · obtain ⟨h1, _⟩ := hg
    rcases (hu r hr).2.2 with h5 | h8
    · rw [h5] at h1; simp [RT.getValues] at h1
    · rw [h8] at h1; simp [RT.getValues] at h1
  · exact h r hr hg d hd hl

theorem noStuck_of {p : Preamble} {recs : List Rec} (h : WellFormedPreamble p recs) (extra : Bytes) (b mc : Nat)
    (hpairs : ∀ q ∈ p.pairs, (NV.enc q).length ≤ alignedBufsize b)
    (hnoise : NoiseFits (alignedBufsize b) recs) :
    NoStuckW (alignedBufsize b) mc (serAll recs ++ extra) := by
  intro F hF
  by_cases hne : F = []
  · subst hne
    right
    rw [resting_header mc]
    have := alignedBufsize_ge b
    simp only [List.length_nil]; omega
  · have := C06.noStuck_new h extra b mc hpairs hnoise (List.prefix_refl _) F hF hne
    simpa [Req.Parser.new] using this

theorem ns {g : Cfg} (ok : g.OK) : NoStuckW g.cap g.mc g.W := noStuck_of ok.wf g.X g.b g.mc ok.pairs ok.noise

theorem ns' {g : Cfg} (ok : g.OK) : NoStuckW g.cap g.mc g.W' := by
  obtain ⟨us, hU, hu⟩ := U_shape ok
  have := noStuck_of (wf_us ok.wf us hu) [] g.b g.mc ok.pairs (noise_us ok.noise us hu)
  simpa [Cfg.W', Cfg.cap, hU, C02.serAll_append] using this

/-- the request parser's run over what the request left unread -/
theorem run_U {g : Cfg} (ok : g.OK) : run .header g.U g.mc = ⟨[], .header, [], none⟩ := by
  obtain ⟨us, hU, hu⟩ := U_shape ok
  rw [hU]
  clear hU
  induction us with
  | nil => exact resting_header g.mc
  | cons e us ih =>
    have hE := hu e List.mem_cons_self
    have h := header_noise e hE.1 (serAll us) g.mc
      (Or.inr (fun h => by
        rcases hE.2.2 with h5 | h8
        · simp [EmptyGetValues, h5, RT.getValues] at h
        · simp [EmptyGetValues, h8, RT.getValues] at h))
    rw [serAll_cons, h, ih (fun x hx => hu x (List.mem_cons_of_mem _ hx))]
    have : owed none g.mc e = [] := by
      rcases hE.2.2 with h5 | h8
      · simp [owed, h5, RT.valid, RT.getValues, RT.beginRequest]
      · simp [owed, h8, RT.valid, RT.getValues, RT.beginRequest]
    rw [this]; rfl

/-- … and over a prefix of it: never final, no output -/
theorem run_U_prefix {g : Cfg} (ok : g.OK) {F : Bytes} (hF : F <+: g.U) :
    (run .header F g.mc).st.isFinal = false ∧ (run .header F g.mc).out = [] := by
  obtain ⟨t, ht⟩ := hF
  by_cases hne : t = []
  · subst hne
    rw [List.append_nil] at ht
    rw [ht, run_U ok]; exact ⟨rfl, rfl⟩
  · have hs := Req.run_split (st := .header) trivial F t g.mc hne
    rw [ht, run_U ok] at hs
    have hout := congrArg Out.out hs
    simp only at hout
    refine ⟨?_, (List.append_eq_nil_iff.1 hout.symm).1⟩
    cases hf : (run .header F g.mc).st.isFinal with
    | false => rfl
    | true =>
      rw [run_final _ _ hf] at hs
      have := congrArg Out.st hs
      simp only at this
      rw [← this] at hf
      cases hf

/-! ## Stages, and what a poll can end in -/

theorem TStep.hs {t t' : Transport} (h : TStep t t') : hsCount t'.events = hsCount t.events := by
  obtain ⟨n, hn, hq⟩ := h.tle.ev
  rw [hn, hsCount_append, hsCount_eq_zero hq, Nat.add_zero]

/-- exactly one handler start so far, and it was for this request -/
def Ev1 (g : Cfg) (t : Transport) : Prop := hsCount t.events = g.hs0 + 1 ∧ hsEvent g.p.request ∈ t.events

theorem Ev1.step {g : Cfg} {t t' : Transport} (h : Ev1 g t) (s : TStep t t') : Ev1 g t' :=
  ⟨s.hs.trans h.1, s.mem_events h.2⟩

/-- the request as `close` sees it after the handler returned -/
structure CEnd (g : Cfg) (r : AReq) (input : Bytes) : Prop where
  pay : r.sp.pay = 0
  pad : r.sp.pad = 0
  out : r.sp.output = []
  wire : r.sp.raw ++ input = g.U
  req : r.sp.request = g.p.request
  cap : r.sp.cap = g.cap
  mc : r.sp.maxConns = g.mc
  rawlen : r.sp.raw.length ≤ g.cap

/-- … before `close` has written the replies still queued in the parser (`sp.output` arbitrary) -/
structure CEndW (g : Cfg) (r : AReq) (input : Bytes) : Prop where
  pay : r.sp.pay = 0
  pad : r.sp.pad = 0
  wire : r.sp.raw ++ input = g.U
  req : r.sp.request = g.p.request
  cap : r.sp.cap = g.cap
  mc : r.sp.maxConns = g.mc
  rawlen : r.sp.raw.length ≤ g.cap

inductive Stage (g : Cfg) : Conn → Prop
  | start {c : Conn} {raw : Bytes} (hph : c.phase = .parseReq ⟨g.cap, raw, .header, g.mc⟩ .start)
      (hwire : raw ++ c.env.tr.input = g.W) (hraw : raw.length ≤ g.cap) (hlog : c.env.tr.wlog = g.L0)
      (hb : Ben c.env.tr) (hstop : c.stop = false)
      (hsc : c.scripts = (g.hscript, true) :: g.more) (hm : c.env.mutex = none)
      (hev : hsCount c.env.tr.events = g.hs0) : Stage g c
  | parse {c : Conn} {F : Bytes} (hst : PSt g.cap g.mc g.W g.L0 [] c F)
      (hsc : c.scripts = (g.hscript, true) :: g.more) (hm : c.env.mutex = none)
      (hev : hsCount c.env.tr.events = g.hs0) : Stage g c
  | hread {c : Conn} {r : AReq} {h : HState} (hph : c.phase = .handler r h)
      (hr : g.Rd r h c.env) (hb : Ben c.env.tr) (hstop : c.stop = false)
      (hev : Ev1 g c.env.tr) (hsc : c.scripts = g.more) : Stage g c
  | hwrite {c : Conn} {r : AReq} {h : HState} {O1 : Bytes} (hph : c.phase = .handler r h)
      (hw : HWrite g.Wc O1 r h c.env) (hb : Ben c.env.tr) (hstop : c.stop = false)
      (hev : Ev1 g c.env.tr) (hsc : c.scripts = g.more) : Stage g c
  | closeW {c : Conn} {r : AReq} {rest O1 O2 : Bytes}
      (hph : c.phase = .closing r (.writeOut rest g.epi) g.st 0) (hO : O1 ++ O2 = g.Ot)
      (hce : CEndW g r c.env.tr.input) (hm : c.env.mutex = none)
      (hlog : c.env.tr.wlog ++ rest ++ g.epi = g.L3 O1 O2)
      (hb : Ben c.env.tr) (hstop : c.stop = false) (hev : Ev1 g c.env.tr)
      (hre : ∀ s ∈ g.revs, s ∈ c.env.tr.events) (hsc : c.scripts = g.more) : Stage g c
  | close {c : Conn} {r : AReq} {rest O1 O2 : Bytes} (hph : c.phase = .closing r (.writeEnd rest) g.st 0)
      (hO : O1 ++ O2 = g.Ot)
      (hce : CEnd g r c.env.tr.input) (hm : c.env.mutex = none) (hlog : c.env.tr.wlog ++ rest = g.L3 O1 O2)
      (hb : Ben c.env.tr) (hstop : c.stop = false) (hev : Ev1 g c.env.tr)
      (hre : ∀ s ∈ g.revs, s ∈ c.env.tr.events) (hsc : c.scripts = g.more) : Stage g c
  | idle {c : Conn} {F O1 O2 : Bytes} (hO : O1 ++ O2 = g.Ot)
      (hst : PSt g.cap g.mc g.W' (g.L3 O1 O2) (serAll g.recs) c F)
      (hfin : F ++ c.env.tr.input = g.U) (hkeep : g.p.flags.toNat % 2 = 1)
      (hev : Ev1 g c.env.tr) (hre : ∀ s ∈ g.revs, s ∈ c.env.tr.events) (hsc : c.scripts = g.more)
      (hmx : c.env.mutex = none) : Stage g c

/-- the connection finished after answering the request completely -/
structure Fin (g : Cfg) (O1 O2 : Bytes) (c' : Conn) : Prop where
  ph : c'.phase = .finished
  log : c'.env.tr.wlog = g.L3 O1 O2
  ev : Ev1 g c'.env.tr
  re : ∀ s ∈ g.revs, s ∈ c'.env.tr.events
  sc : c'.scripts = g.more
  why : g.p.flags.toNat % 2 = 0 ∨ (g.p.flags.toNat % 2 = 1 ∧ c'.env.tr.endMode = .eof)

/-- the connection waits for the next request on an empty buffer, at the end of the input -/
structure Parked (g : Cfg) (O1 O2 : Bytes) (c' : Conn) : Prop where
  ph : c'.phase = .parseReq ⟨g.cap, [], .header, g.mc⟩ .reading
  inp : c'.env.tr.input = []
  log : c'.env.tr.wlog = g.L3 O1 O2
  ev : Ev1 g c'.env.tr
  re : ∀ s ∈ g.revs, s ∈ c'.env.tr.events
  sc : c'.scripts = g.more
  stop : c'.stop = false
  mtx : c'.env.mutex = none
  ben : Ben c'.env.tr
  keep : g.p.flags.toNat % 2 = 1
  em : c'.env.tr.endMode = .pend

/-- How a poll started in a stage ends.  `O1 ++ O2` = the replies owed for the stream's noise, `O1`
written before the handler's output, `O2` after it (by `close`). -/
inductive Out (g : Cfg) (c c' : Conn) : PRes → Prop
  | pend : Stage g c' → c'.env.tr.woken = true → ans c'.env.tr < ans c.env.tr → Out g c c' .pending
  | park {O1 O2 : Bytes} : Stage g c' → O1 ++ O2 = g.Ot → Parked g O1 O2 c' → Out g c c' .pending
  | fin {O1 O2 : Bytes} : O1 ++ O2 = g.Ot → Fin g O1 O2 c' → Out g c c' .finished

/-- `TStep` without the trace part (the `HS(` event of a handler start is not a quiet event) -/
structure WStep (t t' : Transport) : Prop where
  rd : t'.rd <:+ t.rd
  wr : t'.wr <:+ t.wr
  hold : t'.hold = t.hold
  em : t'.endMode = t.endMode
  wk : t'.woken = t.woken ∨ (t'.woken = true ∧ ans t' < ans t)
  inp : t'.input.length ≤ t.input.length
  evm : ∀ s, s ∈ t.events → s ∈ t'.events

theorem TStep.w {t t' : Transport} (h : TStep t t') : WStep t t' :=
  ⟨h.rd, h.wr, h.hold, h.em, h.wk, h.tle.input_len, fun _ hs => h.mem_events hs⟩

theorem WStep.refl (t : Transport) : WStep t t :=
  ⟨List.suffix_refl _, List.suffix_refl _, rfl, rfl, Or.inl rfl, Nat.le_refl _, fun _ h => h⟩

theorem WStep.ans_le {t t' : Transport} (s : WStep t t') : ans t' ≤ ans t := by
  have h1 := s.rd.length_le
  have h2 := s.wr.length_le
  unfold ans; omega

theorem WStep.trans {a b c : Transport} (h1 : WStep a b) (h2 : WStep b c) : WStep a c := by
  refine ⟨h2.rd.trans h1.rd, h2.wr.trans h1.wr, h2.hold.trans h1.hold, h2.em.trans h1.em, ?_,
    Nat.le_trans h2.inp h1.inp, fun s hs => h2.evm s (h1.evm s hs)⟩
  have l1 := h1.ans_le
  have l2 := h2.ans_le
  rcases h1.wk with a | ⟨a, a'⟩ <;> rcases h2.wk with b | ⟨b, b'⟩
  · exact Or.inl (b.trans a)
  · exact Or.inr ⟨b, by omega⟩
  · exact Or.inr ⟨b.trans a, by omega⟩
  · exact Or.inr ⟨b, by omega⟩

theorem Ben.wstep {t t' : Transport} (h : Ben t) (s : WStep t t') : Ben t' :=
  ⟨fun a ha => h.rd a (s.rd.subset ha), fun a ha => h.wr a (s.wr.subset ha),
   s.hold.trans h.hold, by rw [s.em]; exact h.em⟩

structure Link (c c' : Conn) : Prop where
  ts : WStep c.env.tr c'.env.tr
  segs : c'.env.segs = c.env.segs
  stop : c'.stop = c.stop

theorem Link.refl (c : Conn) : Link c c := ⟨.refl _, rfl, rfl⟩
theorem Link.trans {a b c : Conn} (h1 : Link a b) (h2 : Link b c) : Link a c :=
  ⟨h1.ts.trans h2.ts, h2.segs.trans h1.segs, h2.stop.trans h1.stop⟩
theorem Frame.link {c c' : Conn} (h : Frame c c') : Link c c' := ⟨h.ts.w, h.segs, h.stop⟩

/-- the poll started at `c` ends within `N` phase transitions in one of the ways of `Out` -/
def Res (g : Cfg) (N : Nat) (c : Conn) : Prop :=
  ∃ c' r, Halts N c c' r ∧ Link c c' ∧ Out g c c' r

theorem Out.mono {g : Cfg} {c c1 c' : Conn} {r : PRes} (hl : Link c c1) (h : Out g c1 c' r) : Out g c c' r := by
  cases h with
  | pend a b d => exact .pend a b (by have := hl.ts.ans_le; omega)
  | park a b d => exact .park a b d
  | fin a b => exact .fin a b

theorem Res.of_steps {g : Cfg} {k N : Nat} {c c1 : Conn} (hs : Steps k c c1) (hl : Link c c1)
    (h : Res g N c1) : Res g (k + N) c := by
  obtain ⟨c', r, hh, hl2, ho⟩ := h
  exact ⟨c', r, hh.of_steps hs, hl.trans hl2, ho.mono hl⟩

theorem Res.mono {g : Cfg} {N M : Nat} {c : Conn} (h : Res g N c) (hm : N ≤ M) : Res g M c := by
  obtain ⟨c', r, hh, hl2, ho⟩ := h
  exact ⟨c', r, hh.mono hm, hl2, ho⟩

theorem wbit_le (c : Conn) : wbit c ≤ 1 := by
  unfold wbit; split <;> omega

/-! ## The tail of a KEEP_CONN connection: the next `parse_request` finds only the terminator -/

theorem idle_poll {g : Cfg} (ok : g.OK) {c : Conn} {F O1 O2 : Bytes} (hO : O1 ++ O2 = g.Ot)
    (hst : PSt g.cap g.mc g.W' (g.L3 O1 O2) (serAll g.recs) c F)
    (hkeep : g.p.flags.toNat % 2 = 1) (hev : Ev1 g c.env.tr) (hre : ∀ s ∈ g.revs, s ∈ c.env.tr.events)
    (hsc : c.scripts = g.more) (hmx : c.env.mutex = none) :
    Res g (2 * c.env.tr.input.length + 4) c := by
  have hfin_of : ∀ (c2 : Conn) (F2 : Bytes), PSt g.cap g.mc g.W' (g.L3 O1 O2) (serAll g.recs) c2 F2 →
      F2 ++ c2.env.tr.input = g.U := by
    intro c2 F2 h2
    have := h2.wire
    rw [Cfg.W'] at this
    exact List.append_cancel_right this
  obtain ⟨n, c1, F1, hn, hs, hfr, hout⟩ := parse_loop (cap24 g) (ns' ok) _ c F hst (Nat.le_refl _)
  have hnb : n ≤ 2 * c.env.tr.input.length + 2 := by have := wbit_le c; omega
  rcases hout with ⟨c2, h1, h2, h3, h4, h5⟩ | ⟨rest, t', _, hf, hw, _⟩ | ⟨hin, hnf, hph, hst1⟩
  · refine ⟨c2, .pending, ⟨n, c1, by omega, hs, h1⟩, hfr.link.trans h3.link, ?_⟩
    have hts := hfr.ts.trans h3.ts
    exact .pend (.idle hO h2 (hfin_of _ _ h2) hkeep (hev.step hts) ((fun s hs => hts.mem_events (hre s hs)))
      (h3.scripts.trans (hfr.scripts.trans hsc)) (h3.mutex.trans (hfr.mutex.trans hmx))) h4
      (by have := hfr.ts.ans_le; omega)
  · exfalso
    rw [Cfg.W'] at hw
    have hpre : F1 <+: g.U := ⟨c1.env.tr.input, List.append_cancel_right hw⟩
    rw [(run_U_prefix ok hpre).1] at hf
    cases hf
  · have hF1 : F1 = g.U := by
      have := hfin_of _ _ hst1
      rwa [hin, List.append_nil] at this
    subst hF1
    have htrack : track g.cap g.mc g.U = ⟨g.cap, [], .header, g.mc⟩ := by
      simp only [track, run_U ok]
    rw [htrack] at hph
    have hstep := step_reading c1 _ hph hst1.stop
    have hfree : (⟨g.cap, [], .header, g.mc⟩ : Req.Parser).free = g.cap := by simp [Req.Parser.free]
    rw [hfree] at hstep
    have hlog1 : c1.env.tr.wlog = g.L3 O1 O2 := by
      rcases hst1.ph with ⟨_, _, h⟩ | ⟨rest, hp', _⟩
      · rw [h, run_U ok]; simp
      · rw [hph, htrack] at hp'; cases hp'
    have hts1 := hfr.ts
    rcases hrd : c1.env.tr.read g.cap with ⟨t, res⟩
    rw [hrd] at hstep
    have hts := read_tstep hrd
    have hwl : t.wlog = c1.env.tr.wlog := by have := read_wlog c1.env.tr g.cap; rwa [hrd] at this
    have hlink : Link c { c1 with env := { c1.env with tr := t } } :=
      hfr.link.trans ⟨hts.w, rfl, rfl⟩
    cases res with
    | pending =>
      obtain ⟨hi, hw⟩ := read_pending hst1.ben hrd
      have hst2 : PSt g.cap g.mc g.W' (g.L3 O1 O2) (serAll g.recs) { c1 with env := { c1.env with tr := t } } g.U :=
        ⟨by simpa [hi] using hst1.wire, hst1.stop, hst1.ben.step hts, hst1.rem,
          Or.inl ⟨by rw [htrack]; exact hph, hnf, by show t.wlog = _; rw [hwl, hlog1, run_U ok]; simp⟩⟩
      have hstage : Stage g { c1 with env := { c1.env with tr := t } } :=
        .idle hO hst2 (hfin_of _ _ hst2) hkeep (hev.step (hts1.trans hts)) ((fun s hs => (hts1.trans hts).mem_events (hre s hs)))
          (hfr.scripts.trans hsc) (hfr.mutex.trans hmx)
      refine ⟨_, .pending, ⟨n, c1, by omega, hs, hstep⟩, hlink, ?_⟩
      rcases hw with hw | hw
      · exact .pend hstage hw.1 (by show ans t < ans c.env.tr; have := hts1.ans_le; omega)
      · refine .park hstage hO ⟨hph, by show t.input = []; rw [hi, hin], by show t.wlog = _; rw [hwl, hlog1],
          hev.step (hts1.trans hts), (fun s hs => (hts1.trans hts).mem_events (hre s hs)), hfr.scripts.trans hsc, hst1.stop,
          hfr.mutex.trans hmx, hst1.ben.step hts, hkeep, ?_⟩
        show t.endMode = .pend
        rw [hts.em]; exact hw.2.1
    | ready x =>
      cases x with
      | error e => exact (read_error hst1.ben hrd).elim
      | ok bs =>
        obtain ⟨hinp, _, _, hz⟩ := read_ok_ben hst1.ben hrd
        have hbs : bs = [] := by
          rw [hin] at hinp
          exact (List.append_eq_nil_iff.1 hinp.symm).1
        subst hbs
        have heof : c1.env.tr.endMode = .eof := by
          rcases hz rfl with hz | hz
          · have := cap24 g; omega
          · exact hz.2
        refine ⟨{ c1 with phase := .finished, env := { c1.env with tr := t } }, .finished,
          ⟨n, c1, by omega, hs, hstep⟩, hfr.link.trans ⟨hts.w, rfl, rfl⟩, .fin hO ⟨rfl, ?_, hev.step (hts1.trans hts),
            (fun s hs => (hts1.trans hts).mem_events (hre s hs)), hfr.scripts.trans hsc, Or.inr ⟨hkeep, ?_⟩⟩⟩
        · show t.wlog = _; rw [hwl, hlog1]
        · show t.endMode = .eof; rw [hts.em]; exact heof

/-! ## `close`: the last `write_all`, then reuse or `ConnectionReset` -/

theorem finishEnd_cases (r : AReq) (rest : Bytes) (m : MutexSt) {t : Transport} (hb : Ben t) :
    (∃ rest' t', closePoll.finishEnd r rest m t = (r, .writeEnd rest', m, t', .pending) ∧
        TStep t t' ∧ t'.input = t.input ∧ t'.wlog ++ rest' = t.wlog ++ rest ∧ t'.woken = true ∧
        ans t' < ans t) ∨
    (∃ t', TStep t t' ∧ t'.input = t.input ∧ t'.wlog = t.wlog ++ rest ∧
        closePoll.finishEnd r rest m t =
          if r.sp.request.flags.toNat % 2 == 1 then
            match r.sp.intoRequestParser with
            | some (.ok rp) => (r, .writeEnd [], m, t', .reuse rp)
            | some (.error e) => (r, .writeEnd [], m, t', .err (ioOfPErr e))
            | none => (r, .writeEnd [], m, t', .panic "stream.rs:552 output_buffer must be fully consumed")
          else (r, .writeEnd [], m, t', .err .connectionReset)) := by
  rcases hw : writeAllLoop (rest.length + 1) rest t with ⟨rest', t', res⟩
  obtain ⟨hts, hinp, ⟨dn, hd, hl⟩, hres⟩ := writeAllLoop_ben _ _ _ hb (Nat.lt_succ_self _) hw
  rcases hres with ⟨rfl, rfl⟩ | ⟨rfl, _, hwk, hans⟩
  · right
    simp only [List.append_nil] at hd
    subst hd
    refine ⟨t', hts, hinp, hl, ?_⟩
    simp only [closePoll.finishEnd, hw]
    rfl
  · left
    refine ⟨rest', t', ?_, hts, hinp, by rw [hl, List.append_assoc, ← hd], hwk, hans⟩
    simp only [closePoll.finishEnd, hw]

theorem CEnd.into {g : Cfg} {r : AReq} {input : Bytes} (h : CEnd g r input) :
    r.sp.intoRequestParser = some (.ok ⟨g.cap, r.sp.raw, .header, g.mc⟩) := by
  simp [Str.Parser.intoRequestParser, Str.Parser.isRecordBoundary, h.pay, h.pad, h.out,
    Req.Parser.fromParser, h.cap, h.mc]

/-- `c` with a new phase and transport -/
def mkC (c : Conn) (ph : Phase) (t : Transport) : Conn := ⟨ph, ⟨t, c.env.mutex, c.env.segs⟩, c.scripts, c.stop⟩

theorem mkC_link (c : Conn) (ph : Phase) {t : Transport} (h : TStep c.env.tr t) : Link c (mkC c ph t) :=
  ⟨h.w, rfl, rfl⟩

/-- A poll of `close` that is (back) in its last `write_all` (`t1` = the transport when that
`write_all` is reached in this poll). -/
theorem close_core {g : Cfg} (ok : g.OK) {c : Conn} {r r2 : AReq} {cs : CloseSt} {rest O1 O2 : Bytes}
    {t1 : Transport} (hO : O1 ++ O2 = g.Ot)
    (hph : c.phase = .closing r cs g.st 0)
    (heq : closePoll r cs g.st 0 c.env.mutex c.env.tr = closePoll.finishEnd r2 rest c.env.mutex t1)
    (hts1 : TStep c.env.tr t1) (hin1 : t1.input = c.env.tr.input)
    (hce : CEnd g r2 c.env.tr.input) (hm : c.env.mutex = none) (hlog : t1.wlog ++ rest = g.L3 O1 O2)
    (hb : Ben c.env.tr) (hstop : c.stop = false) (hev : Ev1 g c.env.tr)
    (hre : ∀ s ∈ g.revs, s ∈ c.env.tr.events) (hsc : c.scripts = g.more) :
    Res g (2 * c.env.tr.input.length + 8) c := by
  have hstep := C07.closing_step c r cs g.st 0 hph
  rw [heq] at hstep
  have hb1 := hb.step hts1
  rcases finishEnd_cases r2 rest c.env.mutex hb1 with
    ⟨rest', t', hfe, hts0, hinp0, hwl, hwk, hans⟩ | ⟨t', hts0, hinp0, hwl, hfe⟩
  · have hts := hts1.trans hts0
    have hinp := hinp0.trans hin1
    rw [hfe] at hstep
    have hstep' : stepConn c = .halt (mkC c (.closing r2 (.writeEnd rest') g.st 0) t') .pending := hstep
    refine ⟨mkC c (.closing r2 (.writeEnd rest') g.st 0) t', .pending, (Halts.now hstep').mono (by omega),
      mkC_link c _ hts, .pend ?_ hwk (by show ans t' < ans c.env.tr; have := hts1.ans_le; omega)⟩
    exact .close (r := r2) (rest := rest') rfl hO (by show CEnd g r2 t'.input; rw [hinp]; exact hce) hm
      (by show t'.wlog ++ rest' = _; rw [hwl, hlog]) (hb.step hts) hstop (hev.step hts) ((fun s hs => hts.mem_events (hre s hs))) hsc
  · have hts := hts1.trans hts0
    have hinp := hinp0.trans hin1
    rw [hfe, hce.req, hce.into] at hstep
    have hlog' : t'.wlog = g.L3 O1 O2 := by rw [hwl, hlog]
    by_cases hk : g.p.flags.toNat % 2 = 1
    · have hreq : (g.p.request.flags.toNat % 2 == 1) = true := by simpa [Preamble.request] using hk
      simp only [hreq, if_true] at hstep
      have hstep' : stepConn c = .next (mkC c (.parseReq ⟨g.cap, r2.sp.raw, .header, g.mc⟩ .start) t') := hstep
      -- the connection is reused: `parse_request` starts on what is left in the buffer
      have hrawin : r2.sp.raw ++ t'.input = g.U := by rw [hinp]; exact hce.wire
      have hpre : r2.sp.raw <+: g.W' := by
        rw [Cfg.W', ← hrawin, List.append_assoc]
        exact List.prefix_append _ _
      have hstart := start_track (cap24 g) hce.rawlen (ns' ok _ hpre)
      have hstep2 := step_start (mkC c (.parseReq ⟨g.cap, r2.sp.raw, .header, g.mc⟩ .start) t') _ rfl hstop
      rw [hstart] at hstep2
      have hstep2' : stepConn (mkC c (.parseReq ⟨g.cap, r2.sp.raw, .header, g.mc⟩ .start) t') =
          .next (mkC c (.parseReq (track g.cap g.mc r2.sp.raw)
            (.writing (run .header r2.sp.raw g.mc).out (run .header r2.sp.raw g.mc).st.isFinal)) t') := hstep2
      have hremle : (run .header r2.sp.raw g.mc).rem.length ≤ g.cap := by
        have := (run_ok r2.sp.raw g.mc (st := .header) trivial).2.2.length_le
        have := hce.rawlen
        omega
      have hst : PSt g.cap g.mc g.W' (g.L3 O1 O2) (serAll g.recs)
          (mkC c (.parseReq (track g.cap g.mc r2.sp.raw)
            (.writing (run .header r2.sp.raw g.mc).out (run .header r2.sp.raw g.mc).st.isFinal)) t') r2.sp.raw :=
        ⟨by show r2.sp.raw ++ t'.input ++ serAll g.recs = g.W'
            rw [hrawin, Cfg.W'],
          hstop, hb.step hts, hremle, Or.inr ⟨_, rfl, by show t'.wlog ++ _ = _; rw [hlog'], [], rfl⟩⟩
      have hidle := idle_poll ok hO hst hk (hev.step hts) ((fun s hs => hts.mem_events (hre s hs))) hsc hm
      have := Res.of_steps (Steps.step hstep' (Steps.one hstep2')) (mkC_link c _ hts) hidle
      refine this.mono ?_
      have := congrArg List.length hinp
      show 1 + 1 + (2 * t'.input.length + 4) ≤ _
      omega
    · have hreq : (g.p.request.flags.toNat % 2 == 1) = false := by simpa [Preamble.request] using hk
      simp only [hreq, Bool.false_eq_true, if_false] at hstep
      have hstep' : stepConn c = .halt (mkC c .finished t') .finished := hstep
      exact ⟨mkC c .finished t', .finished, (Halts.now hstep').mono (by omega), mkC_link c _ hts,
        .fin hO ⟨rfl, hlog', hev.step hts, (fun s hs => hts.mem_events (hre s hs)), hsc, Or.inl (by omega)⟩⟩

/-- A poll of `close` that is (back) in the `write_all` of the replies still queued in the parser. -/
theorem close_out {g : Cfg} (ok : g.OK) {c : Conn} {r r2 : AReq} {cs : CloseSt} {rest O1 O2 : Bytes}
    (hO : O1 ++ O2 = g.Ot) (hph : c.phase = .closing r cs g.st 0)
    (heq : closePoll r cs g.st 0 c.env.mutex c.env.tr =
      closeP4 r2 c.env.mutex c.env.tr (.writeOut rest g.epi))
    (hce : CEndW g r2 c.env.tr.input) (hm : c.env.mutex = none)
    (hlog : c.env.tr.wlog ++ rest ++ g.epi = g.L3 O1 O2)
    (hb : Ben c.env.tr) (hstop : c.stop = false) (hev : Ev1 g c.env.tr)
    (hre : ∀ s ∈ g.revs, s ∈ c.env.tr.events) (hsc : c.scripts = g.more) :
    Res g (2 * c.env.tr.input.length + 8) c := by
  rcases hw : writeAllLoop (rest.length + 1) rest c.env.tr with ⟨rest', t', res⟩
  obtain ⟨hts, hinp, ⟨dn, hd, hl⟩, hres⟩ := writeAllLoop_ben _ _ _ hb (Nat.lt_succ_self _) hw
  rcases hres with ⟨rfl, rfl⟩ | ⟨rfl, _, hwk, hans⟩
  · -- the queued replies are out: on to the epilogue
    simp only [List.append_nil] at hd
    subst hd
    have heq' : closePoll r cs g.st 0 c.env.mutex c.env.tr =
        closePoll.finishEnd { r2 with sp := r2.sp.consumeOutput r2.sp.output.length } g.epi c.env.mutex t' := by
      rw [heq]; simp only [closeP4, hw]
    refine close_core ok hO hph heq' hts hinp ?_ hm (by rw [hl, ← hlog]) hb hstop hev hre hsc
    exact ⟨hce.pay, hce.pad, by simp [Str.Parser.consumeOutput], hce.wire, hce.req, hce.cap, hce.mc, hce.rawlen⟩
  · have hstep := C07.closing_step c r cs g.st 0 hph
    rw [heq] at hstep
    simp only [closeP4, hw] at hstep
    have hstep' : stepConn c = .halt (mkC c (.closing r2 (.writeOut rest' g.epi) g.st 0) t') .pending := hstep
    refine ⟨_, .pending, (Halts.now hstep').mono (by omega), mkC_link c _ hts, .pend ?_ hwk hans⟩
    exact .closeW (r := r2) (rest := rest') rfl hO (by show CEndW g r2 t'.input; rw [hinp]; exact hce) hm
      (by show t'.wlog ++ rest' ++ g.epi = _; rw [hl, ← hlog, hd]; simp only [List.append_assoc])
      (hb.step hts) hstop (hev.step hts) ((fun s hs => hts.mem_events (hre s hs))) hsc

/-- the request `close` works on once it stands at the record boundary -/
def closeReq (r : AReq) : AReq :=
  { sp := spIgnore r.sp, lock := .none, writeable := r.writeable }

theorem spIgnore_pay (sp : Str.Parser) : (spIgnore sp).pay = sp.pay := by unfold spIgnore; split <;> rfl
theorem spIgnore_pad (sp : Str.Parser) : (spIgnore sp).pad = sp.pad := by unfold spIgnore; split <;> rfl
theorem spIgnore_raw (sp : Str.Parser) : (spIgnore sp).raw = sp.raw := by unfold spIgnore; split <;> rfl
theorem spIgnore_cap (sp : Str.Parser) : (spIgnore sp).cap = sp.cap := by unfold spIgnore; split <;> rfl
theorem spIgnore_mc (sp : Str.Parser) : (spIgnore sp).maxConns = sp.maxConns := by unfold spIgnore; split <;> rfl
theorem spIgnore_output (sp : Str.Parser) : (spIgnore sp).output = sp.output := by unfold spIgnore; split <;> rfl

/-- `close(st)` started right after the handler returned at the end of its input: `writeable()` is
ready at once, the parser already stands at a record boundary — what remains is the `write_all` of
the replies still queued and then of the epilogue. -/
theorem close_start_eq {g : Cfg} {r : AReq} {t : Transport} (he : REnd g.N r t.input) :
    closePoll r .start g.st 0 none t = closeP4 (closeReq r) none t (.writeOut r.sp.output g.epi) ∧
    CEndW g (closeReq r) t.input := by
  have hwr := he.wr
  have hlock := he.lock
  have hreq : r.sp.request = g.p.request := he.req
  have hrb : (spIgnore r.sp).isRecordBoundary = true := by
    simp [Str.Parser.isRecordBoundary, spIgnore_pay, spIgnore_pad, he.pay, he.pad]
  have h1 : closeP1 r .start none t = .ok (r, none, t, .start) := by
    simp [closeP1, AReq.writeablePoll, hwr]
  have h2 : closeP2 r none t .start = .ok ({ r with sp := spIgnore r.sp }, none, t, .start) := by
    rw [closeP2_start]
    simp [closeBoundary, hrb, closeP2Tail]
  have hepi : ∀ l, epilogueOf { sp := spIgnore r.sp, lock := l, writeable := r.writeable } g.st = g.epi := by
    intro l
    simp only [epilogueOf, hwr, if_true, Cfg.epi, outputStreams]
    show makeRequestEpilogue (spIgnore r.sp).request.id g.st _ = _
    rw [spIgnore_request, hreq]; rfl
  constructor
  · rw [closePoll_eq, h1]
    simp only
    rw [h2]
    simp only
    rw [closeP3_start]
    simp only [Nat.lt_irrefl, if_false, gt_iff_lt, hlock, lockDrop, hepi, spIgnore_output]
    rfl
  · exact ⟨by show (spIgnore r.sp).pay = 0; rw [spIgnore_pay]; exact he.pay,
      by show (spIgnore r.sp).pad = 0; rw [spIgnore_pad]; exact he.pad,
      by show (spIgnore r.sp).raw ++ t.input = g.U; rw [spIgnore_raw]; exact he.wire,
      by show (spIgnore r.sp).request = _; rw [spIgnore_request]; exact hreq,
      by show (spIgnore r.sp).cap = _; rw [spIgnore_cap]; exact he.capK,
      by show (spIgnore r.sp).maxConns = _; rw [spIgnore_mc]; exact he.mcK,
      by show (spIgnore r.sp).raw.length ≤ _; rw [spIgnore_raw]; exact he.rawlen⟩

/-! ## The handler phase -/

theorem handlerFuel_ge (e : Run.Env) (r : AReq) : 1000 + 4 * e.tr.input.length ≤ handlerFuel e r := by
  unfold handlerFuel; omega

theorem handlerFuel_ge' (e : Run.Env) (r : AReq) :
    1000 + 4 * e.tr.input.length + 4 * r.sp.cap ≤ handlerFuel e r := by
  unfold handlerFuel; omega

theorem HRead.cap {K : RCtx} {rest : List HOp} {L P : Bytes} {r : AReq} {h : HState} {e : Run.Env}
    (hr : HRead K rest L P r h e) : r.sp.cap = K.cap := by
  obtain ⟨_, hs⟩ := hr.rem
  obtain ⟨_, hi⟩ := hs.inv
  exact hi.capK

/-- a handler suspended in a `readAll` of the request works on a parser with the request's buffer -/
theorem Cfg.Rd.cap {g : Cfg} {r : AReq} {h : HState} {e : Run.Env} (hr : g.Rd r h e) : r.sp.cap = g.cap := by
  rcases hr with ⟨_, hr⟩ | ⟨_, hr | ⟨hr, _⟩⟩
  · exact hr.cap
  · exact hr.cap
  · exact hr.cap

theorem Cfg.Rd.fuel {g : Cfg} {r : AReq} {h : HState} {e : Run.Env} (hr : g.Rd r h e) :
    1000 + 4 * e.tr.input.length + 4 * g.cap ≤ handlerFuel e r := by
  rw [← hr.cap]; exact handlerFuel_ge' e r

theorem HOut.mono {W : WCtx} {Rd Rd' : AReq → HState → Run.Env → Prop} {e : Run.Env}
    {out : AReq × HState × Run.Env × HRes} (h : HOut W Rd e out) (hm : ∀ r h e, Rd r h e → Rd' r h e) :
    HOut W Rd' e out := by
  obtain ⟨a, b, c⟩ := h
  refine ⟨a, b, ?_⟩
  rcases c with ⟨c1, c2, c3, c4⟩ | c
  · exact Or.inl ⟨c1, c2, c3, c4.imp (hm _ _ _) id⟩
  · exact Or.inr c

/-- One poll of the handler suspended in (or starting) one of its reads, for both roles that read. -/
theorem rd_poll {g : Cfg} (ok : g.OK) {r : AReq} {h : HState} {e : Run.Env} (hr : g.Rd r h e) (hb : Ben e.tr)
    {fuel : Nat} (hfu : 1000 + 4 * e.tr.input.length + 4 * g.cap ≤ fuel) :
    HOut g.Wc g.Rd e (handlerPoll fuel r h e) := by
  have hcap : g.cap = alignedBufsize g.b := rfl
  cases ok.shape with
  | responderU hr1 hb1 hf hp hX2 hX hU hOt hrv hs hfu0 =>
    rcases hr with ⟨_, hr⟩ | ⟨h3, _⟩
    · have hK := kok ok hb1 hf hp [] (fun r hr => by cases hr) (fun r hr => by cases hr) (by rw [hX2]; rfl) (by rw [hX, hX2, List.append_nil])
      have hfinal : g.K.final = true := by simp [RCtx.final, Cfg.K, hr1, nextInputStream, RT.stdin]
      have hN : g.Wc.N = g.K.ectx := by simp [Cfg.Wc, Cfg.N, RCtx.ectx, Cfg.K, hU, hX2]
      refine (read_phase (W := g.Wc) hK hfinal hN hOt hrv hr hb ?_).mono (fun r h e hh => Or.inl ⟨hr1, hh⟩)
      show alignedBufsize g.b / 32 + 3 * e.tr.input.length + wcost g.data.length + 12 ≤ fuel
      omega
    · omega
  | authorizer hr2 hX hU hOt hrv hs hfu0 => rcases hr with ⟨h1, _⟩ | ⟨h3, _⟩ <;> omega
  | filterU hr3 hb1 hb2 hf hf2 hp hp2 hX2 hX hU hOt hrv hs hfu0 =>
    rcases hr with ⟨h1, _⟩ | ⟨_, hr⟩
    · omega
    · obtain ⟨hK1, hK2, hfo⟩ := kokF ok hr3 hb1 hb2 hf hf2 hp hp2 hX2 hX
      have hN : g.Wc.N = g.K2.ectx := by simp [Cfg.Wc, Cfg.N, RCtx.ectx, Cfg.K2, hU]
      refine (read_phaseF (W := g.Wc) hK1 hK2 hfo hN hOt hrv hr hb ?_).mono (fun r h e hh => Or.inr ⟨hr3, hh⟩)
      show alignedBufsize g.b / 16 + 3 * e.tr.input.length + wcost g.data.length + 24 ≤ fuel
      omega

/-- One poll that starts inside the handler (given what this poll of the handler returns). -/
theorem handler_core {g : Cfg} (ok : g.OK) {c : Conn} {r : AReq} {h : HState} (hph : c.phase = .handler r h)
    (hout : HOut g.Wc g.Rd c.env (handlerPoll ((handlerFuel c.env r + scriptOf c)) r h c.env))
    (hb : Ben c.env.tr) (hstop : c.stop = false) (hev : Ev1 g c.env.tr) (hsc : c.scripts = g.more) :
    Res g (2 * c.env.tr.input.length + 10) c := by
  have hstep := C07.handler_step c r h hph
  rcases hhp : handlerPoll ((handlerFuel c.env r + scriptOf c)) r h c.env with ⟨r', h', e', res⟩
  rw [hhp] at hstep hout
  obtain ⟨hts, hsegs, hres⟩ := hout
  simp only at hts hsegs hres
  rcases hres with ⟨rfl, hwk, hans, hst⟩ | ⟨hres, O1, hd⟩
  · have hstep' : stepConn c = .halt ⟨.handler r' h', e', c.scripts, c.stop⟩ .pending := hstep
    refine ⟨⟨.handler r' h', e', c.scripts, c.stop⟩, .pending, (Halts.now hstep').mono (by omega),
      ⟨hts.w, hsegs, rfl⟩, .pend ?_ hwk hans⟩
    rcases hst with hst | ⟨O1, hst⟩
    · exact .hread rfl hst (hb.step hts) hstop (hev.step hts) hsc
    · exact .hwrite rfl hst (hb.step hts) hstop (hev.step hts) hsc
  · have hres' : res = .done (.ok g.st) := hres
    subst hres'
    have halive : (h'.writers.filter Option.isSome).length = 0 := by rw [hd.ws]; rfl
    simp only [halive] at hstep
    have hstep' : stepConn c =
        .next ⟨.closing r' .start g.st 0, e'.ev s!"HE(ok:{showStatus g.st})", c.scripts, c.stop⟩ := hstep
    have hts2 : TStep c.env.tr (e'.tr.ev s!"HE(ok:{showStatus g.st})") :=
      hts.trans (TStep.ev _ (by simp [isHS, toString_str]))
    obtain ⟨heq, hce⟩ := close_start_eq (g := g) (r := r') (t := e'.tr.ev s!"HE(ok:{showStatus g.st})") hd.fin
    have hO : O1 ++ r'.sp.output = g.Ot := hd.out
    have hcore := close_out ok
      (c := ⟨.closing r' .start g.st 0, e'.ev s!"HE(ok:{showStatus g.st})", c.scripts, c.stop⟩)
      (r := r') (r2 := closeReq r') (cs := .start) (rest := r'.sp.output) hO rfl
      (by show closePoll r' .start g.st 0 e'.mutex _ = closeP4 _ e'.mutex _ _
          rw [hd.mtx]; exact heq)
      hce hd.mtx
      (by show (e'.tr.ev _).wlog ++ r'.sp.output ++ g.epi = g.L3 O1 r'.sp.output
          rw [Transport.ev_wlog, hd.log]; rfl)
      (hb.step hts2) hstop (hev.step hts2)
      (by intro s hs
          show s ∈ e'.tr.events ++ [_]
          exact List.mem_append_left _ (hd.ev s hs)) hsc
    have := Res.of_steps (Steps.one hstep') ⟨hts2.w, hsegs, rfl⟩ hcore
    refine this.mono ?_
    have hl := hts.tle.input_len
    show 1 + (2 * e'.tr.input.length + 8) ≤ _
    omega

/-! ## `parse_request` of the request itself -/

/-- **The handler start** (end of stage 1).  `parse_request` has consumed `F1`, its request parser is
`done`, and the final `write_all` of its replies completes: then `F1` is the whole preamble plus the
read-ahead `e1`, the write log is exactly the owed preamble replies, and the next phase transition
starts the handler on `Request::new(stream parser for exactly the request sent, holding e1)`. -/
theorem handler_start {g : Cfg} (ok : g.OK) {c1 : Conn} {F1 rest : Bytes} {t' : Transport}
    (hph : c1.phase = .parseReq (track g.cap g.mc F1) (.writing rest true))
    (hw : F1 ++ c1.env.tr.input = g.W) (hstop1 : c1.stop = false)
    (hrem1 : (run .header F1 g.mc).rem.length ≤ g.cap)
    (hf : (run .header F1 g.mc).st.isFinal = true)
    (hwa : writeAllLoop (rest.length + 1) rest c1.env.tr = ([], t', .ready))
    (hlog : t'.wlog = g.L0 ++ (run .header F1 g.mc).out)
    (hsc1 : c1.scripts = (g.hscript, true) :: g.more) :
    ∃ e1, F1 = serAll g.recs ++ e1 ∧ e1 ++ c1.env.tr.input = g.X ∧ t'.wlog = g.L1 ∧ e1.length ≤ g.cap ∧
      stepConn c1 = .next
        ⟨.handler (AReq.new (Str.Parser.fromParser g.cap g.p.request e1 g.mc))
            { ops := g.hscript, propagate := true },
          (⟨t', c1.env.mutex, c1.env.segs⟩ : Run.Env).ev (hsEvent g.p.request), g.more, false⟩ := by
  have hF1 : F1 <+: serAll g.recs ++ g.X := ⟨c1.env.tr.input, by simpa [Cfg.W] using hw⟩
  rcases C06.run_wire_state ok.wf g.X hF1 g.mc with ⟨e1, hFe, he1, hrun⟩ | ⟨t, _, _, hnf⟩
  · have hd : (track g.cap g.mc F1).state = .done g.p.request := by simp only [track, hrun]
    obtain ⟨r, hrq, hr, hstep⟩ := C07.done_starts_handler c1 (track g.cap g.mc F1) rest [] t' g.p.request
      hph hstop1 hwa hd
    rw [hsc1] at hstep
    have hcap : (track g.cap g.mc F1).cap = g.cap := rfl
    have hinput : (track g.cap g.mc F1).input = e1 := by simp only [track, hrun]
    have hmc : (track g.cap g.mc F1).maxConns = g.mc := rfl
    rw [hcap, hinput, hmc] at hr
    subst hr
    have hwire : e1 ++ c1.env.tr.input = g.X := by
      have : F1 ++ c1.env.tr.input = serAll g.recs ++ g.X := by simpa [Cfg.W] using hw
      rw [hFe, List.append_assoc] at this
      exact List.append_cancel_left this
    have he1len : e1.length ≤ g.cap := by
      have := hrem1; rw [hrun] at this; exact this
    exact ⟨e1, hFe, hwire, by rw [hlog, hrun]; rfl, he1len, hstep⟩
  · rw [hf] at hnf; cases hnf

/-- the request at the handler start, for the roles with input streams: nothing delivered, nothing
generated, buffer ++ transport = the wire after the preamble -/
theorem rinv_start {g : Cfg} (ok : g.OK) (hrole : g.p.role = 1 ∨ g.p.role = 3) {e1 input : Bytes}
    (hlen : e1.length ≤ g.cap) (hwire : e1 ++ input = g.X) :
    RInv g.K (AReq.new (Str.Parser.fromParser g.cap g.p.request e1 g.mc)) e1 input [] [] := by
  have hstart : C03SI.Start g.K.E (Str.Parser.fromParser g.cap g.p.request e1 g.mc) :=
    C03SI.start_fresh g.cap g.p.request e1 g.mc hlen (pid_lt ok).2 hrole
  refine ⟨hstart.mtch, hstart.inv, rfl, rfl, rfl, hwire, fun x => ?_⟩
  have := C03SI.rem_start hstart x
  show refWire g.K.E (e1 ++ x) = (Rem g.K.E (Str.Parser.fromParser g.cap g.p.request e1 g.mc) x).pre [] []
  rw [this]; rfl

/-- the first poll of the handler, by role -/
theorem first_poll {g : Cfg} (ok : g.OK) {e1 : Bytes} {e : Run.Env} (hlen : e1.length ≤ g.cap)
    (hwire : e1 ++ e.tr.input = g.X) (hlog : e.tr.wlog = g.L1) (hm : e.mutex = none) (hb : Ben e.tr)
    {fuel : Nat} (hfu : 1000 + 4 * e.tr.input.length + 4 * g.cap ≤ fuel) :
    HOut g.Wc g.Rd e (handlerPoll fuel (AReq.new (Str.Parser.fromParser g.cap g.p.request e1 g.mc))
      { ops := g.hscript, propagate := true } e) := by
  have hrst : g.p.role = 1 ∨ g.p.role = 3 →
      RSt g.K g.L1 [] (AReq.new (Str.Parser.fromParser g.cap g.p.request e1 g.mc)) e.mutex e.tr [] [] := by
    intro hrole
    refine ⟨⟨e1, rinv_start ok hrole hlen hwire⟩, ?_, Or.inl hm, ⟨[], by rw [hlog, List.append_nil], rfl⟩⟩
    rw [hm]; exact lockInv_free rfl
  cases ok.shape with
  | responderU hr1 hb1 hf hp hX2 hX hU hOt hrv hs hfu0 =>
    rw [hs]
    exact rd_poll ok (Or.inl ⟨hr1, rfl, rfl, rfl, [], hrst (Or.inl hr1)⟩) hb hfu
  | authorizer hr2 hX hU hOt hrv hs hfu0 =>
    rw [hs]
    have he1 : e1 = [] ∧ e.tr.input = [] := by
      rw [hX] at hwire; exact List.append_eq_nil_iff.1 hwire
    refine open_phase (W := g.Wc) (O1 := []) ?_ hm (by rw [hlog]; exact (List.append_nil _).symm)
      (by show [] ++ [] = g.Ot; rw [hOt]; rfl) (by intro s hs; rw [show g.Wc.revs = g.revs from rfl, hrv] at hs; cases hs) hb
      (by show wcost g.data.length + 4 ≤ fuel; omega)
    refine ⟨by simp [AReq.new, Str.Parser.fromParser, Preamble.request, hr2, inputStreams], rfl, rfl, rfl, ?_,
      rfl, rfl, rfl, hlen, Str.SInv_fromParser g.cap g.p.request e1 g.mc hlen (pid_lt ok).2⟩
    show e1 ++ e.tr.input = g.U
    rw [hU, he1.1, he1.2]; rfl
  | filterU hr3 hb1 hb2 hf hf2 hp hp2 hX2 hX hU hOt hrv hs hfu0 =>
    rw [hs]
    have hrd : HRead g.K (.setStream 8 :: .readAll :: oscript g.data g.st) g.L1 []
        (AReq.new (Str.Parser.fromParser g.cap g.p.request e1 g.mc))
        { ops := fscript g.data g.st, propagate := true } e := ⟨rfl, rfl, rfl, [], hrst (Or.inr hr3)⟩
    exact rd_poll ok (Or.inr ⟨hr3, Or.inl hrd⟩) hb hfu

/-- **The poll in which the preamble's last `write_all` completes**: the handler starts and is polled. -/
theorem final_poll {g : Cfg} (ok : g.OK) {c1 : Conn} {F1 rest : Bytes} {t' : Transport}
    (hph : c1.phase = .parseReq (track g.cap g.mc F1) (.writing rest true))
    (hf : (run .header F1 g.mc).st.isFinal = true)
    (hw : F1 ++ c1.env.tr.input ++ [] = g.W) (hstop1 : c1.stop = false) (hben1 : Ben c1.env.tr)
    (hrem1 : (run .header F1 g.mc).rem.length ≤ g.cap)
    (hwa : writeAllLoop (rest.length + 1) rest c1.env.tr = ([], t', .ready))
    (hlog : t'.wlog = g.L0 ++ (run .header F1 g.mc).out) (hts' : TStep c1.env.tr t')
    (hinp' : t'.input = c1.env.tr.input)
    (hsc1 : c1.scripts = (g.hscript, true) :: g.more) (hmx1 : c1.env.mutex = none)
    (hev0 : hsCount c1.env.tr.events = g.hs0) :
    Res g (2 * c1.env.tr.input.length + 11) c1 := by
  obtain ⟨e1, _, hwire, hL1, he1len, hstep'⟩ :=
    handler_start ok hph (by simpa using hw) hstop1 hrem1 hf hwa hlog hsc1
  have hwsE : WStep c1.env.tr (t'.ev (hsEvent g.p.request)) :=
    hts'.w.trans ⟨List.suffix_refl _, List.suffix_refl _, rfl, rfl, Or.inl rfl, Nat.le_refl _,
      fun s hs => List.mem_append_left _ hs⟩
  have hev1 : Ev1 g (t'.ev (hsEvent g.p.request)) := by
    have h0 : hsCount t'.events = g.hs0 := hts'.hs.trans hev0
    constructor
    · show hsCount (t'.events ++ [hsEvent g.p.request]) = g.hs0 + 1
      rw [hsCount_append, h0, hsCount_single_true (isHS_hsEvent _)]
    · show hsEvent g.p.request ∈ t'.events ++ [hsEvent g.p.request]
      simp
  have hben2 : Ben (t'.ev (hsEvent g.p.request)) := hben1.wstep hwsE
  have hfuelH : 1000 + 4 * t'.input.length + 4 * g.cap ≤
      handlerFuel ((⟨t', c1.env.mutex, c1.env.segs⟩ : Run.Env).ev (hsEvent g.p.request))
        (AReq.new (Str.Parser.fromParser g.cap g.p.request e1 g.mc)) :=
    handlerFuel_ge' ((⟨t', c1.env.mutex, c1.env.segs⟩ : Run.Env).ev (hsEvent g.p.request))
      (AReq.new (Str.Parser.fromParser g.cap g.p.request e1 g.mc))
  have hcore := handler_core ok
    (c := ⟨.handler (AReq.new (Str.Parser.fromParser g.cap g.p.request e1 g.mc))
            { ops := g.hscript, propagate := true },
        (⟨t', c1.env.mutex, c1.env.segs⟩ : Run.Env).ev (hsEvent g.p.request), g.more, false⟩) rfl
    (first_poll ok (e := (⟨t', c1.env.mutex, c1.env.segs⟩ : Run.Env).ev (hsEvent g.p.request)) he1len
      (by show e1 ++ t'.input = g.X; rw [hinp']; exact hwire) hL1 hmx1 hben2 (Nat.le_trans hfuelH (Nat.le_add_right _ _))) hben2 rfl hev1 rfl
  have hres := Res.of_steps (Steps.one hstep') ⟨hwsE, rfl, hstop1.symm ▸ rfl⟩ hcore
  refine hres.mono ?_
  have h2 := congrArg List.length hinp'
  show 1 + (2 * t'.input.length + 10) ≤ _
  omega

theorem parse_poll {g : Cfg} (ok : g.OK) {c : Conn} {F : Bytes}
    (hst : PSt g.cap g.mc g.W g.L0 [] c F) (hsc : c.scripts = (g.hscript, true) :: g.more)
    (hm : c.env.mutex = none) (hev : hsCount c.env.tr.events = g.hs0) :
    Res g (4 * c.env.tr.input.length + 16) c := by
  obtain ⟨n, c1, F1, hn, hs, hfr, hout⟩ := parse_loop (cap24 g) (ns ok) _ c F hst (Nat.le_refl _)
  have hnb : n ≤ 2 * c.env.tr.input.length + 2 := by have := wbit_le c; omega
  rcases hout with ⟨c2, h1, h2, h3, h4, h5⟩ | ⟨rest, t', hph, hf, hw, hstop1, hben1, hrem1, hwa, hlog, hts', hinp'⟩ |
      ⟨hin, hnf, hph, hst1⟩
  · refine ⟨c2, .pending, ⟨n, c1, by omega, hs, h1⟩, hfr.link.trans h3.link, ?_⟩
    have hts := hfr.ts.trans h3.ts
    exact .pend (.parse h2 (h3.scripts.trans (hfr.scripts.trans hsc)) (h3.mutex.trans (hfr.mutex.trans hm))
      (hts.hs.trans hev)) h4 (by have := hfr.ts.ans_le; omega)
  · -- the preamble is complete and its replies are written: the handler starts
    have hfp := final_poll ok hph hf hw hstop1 hben1 hrem1 hwa hlog hts' hinp' (hfr.scripts.trans hsc)
      (hfr.mutex.trans hm) (hfr.ts.hs.trans hev)
    refine (Res.of_steps hs hfr.link hfp).mono ?_
    have h1 := hfr.ts.tle.input_len
    omega
  · exfalso
    have hF1 : F1 = g.W := by
      have := hst1.wire
      rwa [hin, List.append_nil, List.append_nil] at this
    rcases C06.run_wire_state ok.wf g.X (F := F1) (by rw [hF1]; exact List.prefix_refl _) g.mc with
      ⟨e1, _, _, hrun⟩ | ⟨t, ht, hFt, _⟩
    · rw [hrun] at hnf; cases hnf
    · rw [hF1, Cfg.W] at hFt
      have := congrArg List.length hFt
      have : 0 < t.length := List.length_pos_iff.mpr ht
      simp only [List.length_append] at *
      omega

/-- the poll that starts `parse_request` (with `raw` left in the buffer by the previous request) -/
theorem start_poll {g : Cfg} (ok : g.OK) {c : Conn} {raw : Bytes}
    (hph : c.phase = .parseReq ⟨g.cap, raw, .header, g.mc⟩ .start)
    (hwire : raw ++ c.env.tr.input = g.W) (hraw : raw.length ≤ g.cap) (hlog : c.env.tr.wlog = g.L0)
    (hb : Ben c.env.tr) (hstop : c.stop = false)
    (hsc : c.scripts = (g.hscript, true) :: g.more) (hm : c.env.mutex = none)
    (hev : hsCount c.env.tr.events = g.hs0) : Res g (4 * c.env.tr.input.length + 17) c := by
  have hpre : raw <+: g.W := ⟨c.env.tr.input, hwire⟩
  have hstart := start_track (cap24 g) hraw (ns ok _ hpre)
  have hstep := step_start c _ hph hstop
  rw [hstart] at hstep
  have hstep' : stepConn c = .next (mkC c (.parseReq (track g.cap g.mc raw)
      (.writing (run .header raw g.mc).out (run .header raw g.mc).st.isFinal)) c.env.tr) := hstep
  have hremle : (run .header raw g.mc).rem.length ≤ g.cap := by
    have := (run_ok raw g.mc (st := .header) trivial).2.2.length_le
    omega
  have hst : PSt g.cap g.mc g.W g.L0 [] (mkC c (.parseReq (track g.cap g.mc raw)
      (.writing (run .header raw g.mc).out (run .header raw g.mc).st.isFinal)) c.env.tr) raw :=
    ⟨by show raw ++ c.env.tr.input ++ [] = g.W
        rw [List.append_nil]; exact hwire,
      hstop, hb, hremle, Or.inr ⟨_, rfl, by show c.env.tr.wlog ++ _ = _; rw [hlog], [], rfl⟩⟩
  have hres := parse_poll ok hst hsc hm hev
  have := Res.of_steps (Steps.one hstep') (mkC_link c _ (.refl _)) hres
  exact this.mono (by show 1 + (4 * c.env.tr.input.length + 16) ≤ _; omega)

end Fcgi.E2E
