import Fcgi.Proofs.E2ERun

/-!
# C12 end to end, part 1: the input ends inside the preamble

The wire `W0 = Wk ++ Z` is cut after `Wk`: the transport delivers `Wk` (in any read splitting, with
transient `Pending`s) and then end-of-file.  No prefix of `Wk` completes a request.  Then
`parse_request` answers what it has parsed, reads `Ok(0)` and the task ends quietly: no handler,
`RET`, connection finished, write log = the replies the request parser owes for `Wk`.

Everything is composed from the `parse_request` simulation of `E2EParse` (`parse_loop`), which was
written for a wire whose tail `Z` "has not reached the transport (yet)"; here it never does.
-/
namespace Fcgi.C12E
open Fcgi Fcgi.Req Fcgi.Str Fcgi.Async Fcgi.Run Fcgi.Spec Fcgi.E2E

/-! ## The read at the end of a truncated input -/

/-- At the end of the input a benign transport in `eof` mode answers a read with a transient
`Pending` (one scripted answer consumed, waker invoked) or with `Ok(0)`. -/
theorem read_at_eof {t t' : Transport} {cap : Nat} {res : Poll (Except IoErr Bytes)} (hb : Ben t)
    (hin : t.input = []) (hem : t.endMode = .eof) (h : t.read cap = (t', res)) :
    t'.input = [] ∧ t'.wlog = t.wlog ∧
    ((res = .pending ∧ t'.woken = true ∧ ans t' < ans t) ∨ res = .ready (.ok [])) := by
  have hwl : t'.wlog = t.wlog := by have := read_wlog t cap; rwa [h] at this
  cases res with
  | pending =>
    obtain ⟨hi, hw | hw⟩ := read_pending hb h
    · exact ⟨hi.trans hin, hwl, Or.inl ⟨rfl, hw.1, hw.2⟩⟩
    · rw [hem] at hw; exact absurd hw.2.1 (by decide)
  | ready x =>
    cases x with
    | error e => exact (read_error hb h).elim
    | ok bs =>
      obtain ⟨hinp, _, _, _⟩ := read_ok_ben hb h
      rw [hin] at hinp
      have h1 : bs = [] := (List.append_eq_nil_iff.mp hinp.symm).1
      have h2 : t'.input = [] := (List.append_eq_nil_iff.mp hinp.symm).2
      subst h1
      exact ⟨h2, hwl, Or.inr rfl⟩

/-! ## One poll of `parse_request` on a wire that is cut inside the preamble -/

/-- The wire `W0` is cut after `Wk`; no prefix of `Wk` completes a request. -/
structure TCtx (cap mc : Nat) (Wk Z W0 : Bytes) : Prop where
  cap24 : 24 ≤ cap
  cut : Wk ++ Z = W0
  ns : NoStuckW cap mc W0
  nf : ∀ F, F <+: Wk → (run .header F mc).st.isFinal = false

/-- How a poll on a cut preamble ends. -/
def TOut (cap mc : Nat) (W0 L0 Z Wk : Bytes) (c c' : Conn) (r : PRes) : Prop :=
  (r = .pending ∧ (∃ F', PSt cap mc W0 L0 Z c' F') ∧ c'.env.tr.woken = true ∧
      ans c'.env.tr < ans c.env.tr) ∨
  (r = .finished ∧ c'.phase = .finished ∧ c'.env.tr.wlog = L0 ++ (run .header Wk mc).out ∧
      c'.env.tr.input = [])

theorem trunc_poll {cap mc : Nat} {Wk Z W0 L0 : Bytes} (K : TCtx cap mc Wk Z W0) {c : Conn} {F : Bytes}
    (hst : PSt cap mc W0 L0 Z c F) (hem : c.env.tr.endMode = .eof) :
    ∃ c' r, Halts (2 * c.env.tr.input.length + 4) c c' r ∧ Frame c c' ∧ TOut cap mc W0 L0 Z Wk c c' r := by
  obtain ⟨n, c1, F1, hn, hs, hfr, hout⟩ := parse_loop K.cap24 K.ns _ c F hst (Nat.le_refl _)
  have hnb : n ≤ 2 * c.env.tr.input.length + 2 := by have := wbit_le c; omega
  have hpre : ∀ {F2 : Bytes} {inp : Bytes}, F2 ++ inp ++ Z = W0 → F2 ++ inp = Wk := by
    intro F2 inp h
    rw [← K.cut] at h
    exact List.append_cancel_right h
  rcases hout with ⟨c2, h1, h2, h3, h4, h5⟩ | ⟨rest, t', hph, hf, hw, _⟩ | ⟨hin, hnf, hph, hst1⟩
  · refine ⟨c2, .pending, ⟨n, c1, by omega, hs, h1⟩, hfr.trans h3, Or.inl ⟨rfl, ⟨F1, h2⟩, h4, ?_⟩⟩
    have := hfr.ts.ans_le; omega
  · exfalso
    have := K.nf F1 ⟨c1.env.tr.input, hpre hw⟩
    rw [hf] at this; cases this
  · have hF1 : F1 = Wk := by
      have := hpre hst1.wire
      rwa [hin, List.append_nil] at this
    subst hF1
    have hem1 : c1.env.tr.endMode = .eof := hfr.ts.em.trans hem
    have hstep := step_reading c1 _ hph hst1.stop
    rcases hrd : c1.env.tr.read (track cap mc F1).free with ⟨t, res⟩
    rw [hrd] at hstep
    have hts := read_tstep hrd
    obtain ⟨hi, hwl, hres⟩ := read_at_eof hst1.ben hin hem1 hrd
    have hlog1 : c1.env.tr.wlog = L0 ++ (run .header F1 mc).out := by
      rcases hst1.ph with ⟨_, _, h⟩ | ⟨rest, hp, _⟩
      · exact h
      · rw [hph] at hp; cases hp
    rcases hres with ⟨rfl, hw, ha⟩ | rfl
    · refine ⟨{ c1 with env := { c1.env with tr := t } }, .pending, ⟨n, c1, by omega, hs, hstep⟩,
        hfr.trans ⟨rfl, rfl, rfl, rfl, hts⟩, Or.inl ⟨rfl, ⟨F1, ?_⟩, hw, ?_⟩⟩
      · exact ⟨by show F1 ++ t.input ++ Z = W0
                  rw [hi, List.append_nil]; exact K.cut, hst1.stop, hst1.ben.step hts, hst1.rem,
          Or.inl ⟨hph, hnf, by show t.wlog = _; rw [hwl]; exact hlog1⟩⟩
      · show ans t < ans c.env.tr
        have := hfr.ts.ans_le; omega
    · refine ⟨{ c1 with phase := .finished, env := { c1.env with tr := t } }, .finished,
        ⟨n, c1, by omega, hs, hstep⟩, hfr.trans (Frame.mk' c1 .finished t hts),
        Or.inr ⟨rfl, rfl, ?_, hi⟩⟩
      show t.wlog = _
      rw [hwl]; exact hlog1

/-! ## The executor on a cut preamble -/

/-- How the task ends on a cut preamble: quietly. -/
structure TFin (L0 out : Bytes) (hs0 : Nat) (c' : Conn) : Prop where
  phase : c'.phase = .finished
  wlog : c'.env.tr.wlog = L0 ++ out
  input : c'.env.tr.input = []
  hs : hsCount c'.env.tr.events = hs0
  stop : c'.stop = false

theorem trunc_run {cap mc : Nat} {Wk Z W0 L0 : Bytes} (K : TCtx cap mc Wk Z W0) :
    ∀ (A : Nat) (c : Conn) (F : Bytes) (n fuel : Nat),
      PSt cap mc W0 L0 Z c F → c.env.tr.endMode = .eof → c.env.segs = [] → ans c.env.tr ≤ A → A + 1 ≤ fuel →
      2 * c.env.tr.input.length + 4 ≤ 100000 →
      ∃ c', runTask fuel c n none = (c', "RET") ∧
        TFin L0 (run .header Wk mc).out (hsCount c.env.tr.events) c' ∧ c'.scripts = c.scripts := by
  intro A
  induction A with
  | zero =>
    intro c F n fuel hst hem hsegs hA hf hlen
    obtain ⟨f, rfl⟩ : ∃ f, fuel = f + 1 := ⟨fuel - 1, by omega⟩
    obtain ⟨hsame, hph, hsc, hstop, hmx, hsg, hwk⟩ := prePoll_same c n hsegs
    have hst0 := hst.cong hph hstop hsame
    obtain ⟨c', r, hh, hfr, ho⟩ := trunc_poll K hst0 (hsame.em.trans hem)
    have hpoll := hh.pollT (by rw [hsame.input]; exact hlen)
    have hans0 : ans (prePoll c n none).env.tr = ans c.env.tr := by unfold ans; rw [hsame.rd, hsame.wr]
    rw [runTask_succ, hpoll]
    rcases ho with ⟨rfl, _, _, ha⟩ | ⟨rfl, h1, h2, h3⟩
    · omega
    · exact ⟨c', rfl, ⟨h1, h2, h3, hfr.ts.hs.trans hsame.hs, hfr.stop.trans (hstop.trans hst.stop)⟩,
        hfr.scripts.trans hsc⟩
  | succ A ih =>
    intro c F n fuel hst hem hsegs hA hf hlen
    obtain ⟨f, rfl⟩ : ∃ f, fuel = f + 1 := ⟨fuel - 1, by omega⟩
    obtain ⟨hsame, hph, hsc, hstop, hmx, hsg, hwk⟩ := prePoll_same c n hsegs
    have hst0 := hst.cong hph hstop hsame
    obtain ⟨c', r, hh, hfr, ho⟩ := trunc_poll K hst0 (hsame.em.trans hem)
    have hpoll := hh.pollT (by rw [hsame.input]; exact hlen)
    have hans0 : ans (prePoll c n none).env.tr = ans c.env.tr := by unfold ans; rw [hsame.rd, hsame.wr]
    rw [runTask_succ, hpoll]
    rcases ho with ⟨rfl, ⟨F', hst'⟩, hw, ha⟩ | ⟨rfl, h1, h2, h3⟩
    · simp only [hw, if_true]
      have hlen' : 2 * c'.env.tr.input.length + 4 ≤ 100000 := by
        have := hfr.ts.tle.input_len
        rw [hsame.input] at this
        omega
      obtain ⟨c2, h1, h2, h3⟩ := ih c' F' (n + 1) f hst' (hfr.ts.em.trans (hsame.em.trans hem))
        (hfr.segs.trans hsg) (by omega) (by omega) hlen'
      refine ⟨c2, h1, ?_, h3.trans (hfr.scripts.trans hsc)⟩
      have he : hsCount c'.env.tr.events = hsCount c.env.tr.events := hfr.ts.hs.trans hsame.hs
      rw [← he]; exact h2
    · exact ⟨c', rfl, ⟨h1, h2, h3, hfr.ts.hs.trans hsame.hs, hfr.stop.trans (hstop.trans hst.stop)⟩,
        hfr.scripts.trans hsc⟩

/-- The executor started in front of `parse_request` (`Connection::run` enters its loop). -/
theorem trunc_run_start {cap mc : Nat} {Wk Z W0 : Bytes} (K : TCtx cap mc Wk Z W0) {c : Conn} {n fuel : Nat}
    (hph : c.phase = .parseReq ⟨cap, [], .header, mc⟩ .start) (hstop : c.stop = false)
    (hinp : c.env.tr.input = Wk) (hb : Ben c.env.tr) (hem : c.env.tr.endMode = .eof)
    (hsegs : c.env.segs = []) (hf : ans c.env.tr + 1 ≤ fuel) (hlen : 2 * c.env.tr.input.length + 5 ≤ 100000) :
    ∃ c', runTask fuel c n none = (c', "RET") ∧
      TFin c.env.tr.wlog (run .header Wk mc).out (hsCount c.env.tr.events) c' ∧ c'.scripts = c.scripts := by
  obtain ⟨f, rfl⟩ : ∃ f, fuel = f + 1 := ⟨fuel - 1, by omega⟩
  obtain ⟨hsame, hph0, hsc, hstop0, hmx, hsg, hwk⟩ := prePoll_same c n hsegs
  rw [runTask_succ]
  generalize prePoll c n none = c0 at *
  have hstop1 : c0.stop = false := hstop0.trans hstop
  have hns0 := K.ns [] (List.nil_prefix)
  have hstart := start_track K.cap24 (raw := []) (Nat.zero_le _) hns0
  have hstep := step_start c0 _ (hph0.trans hph) hstop1
  rw [hstart] at hstep
  have hstep' : stepConn c0 = .next (mkC c0 (.parseReq (track cap mc [])
      (.writing (run .header [] mc).out (run .header [] mc).st.isFinal)) c0.env.tr) := hstep
  have hremle : (run .header [] mc).rem.length ≤ cap := by
    rcases hns0 with h | h
    · have := K.nf [] List.nil_prefix; rw [h] at this; cases this
    · omega
  have hst : PSt cap mc W0 c.env.tr.wlog Z (mkC c0 (.parseReq (track cap mc [])
      (.writing (run .header [] mc).out (run .header [] mc).st.isFinal)) c0.env.tr) [] :=
    ⟨by show [] ++ c0.env.tr.input ++ Z = W0
        rw [hsame.input, hinp, List.nil_append]; exact K.cut,
      hstop1, hsame.ben hb, hremle, Or.inr ⟨_, rfl, by show c0.env.tr.wlog ++ _ = _; rw [hsame.wlog], [], rfl⟩⟩
  obtain ⟨c', r, hh, hfr, ho⟩ := trunc_poll K hst (hsame.em.trans hem)
  have hh' := Halts.of_steps (Steps.one hstep') hh
  have hpoll := hh'.pollT (by
    show 1 + (2 * c0.env.tr.input.length + 4) ≤ 100000
    rw [hsame.input]; omega)
  have hans0 : ans c0.env.tr = ans c.env.tr := by unfold ans; rw [hsame.rd, hsame.wr]
  have hts : TStep c0.env.tr c'.env.tr := hfr.ts
  have hhs : hsCount c'.env.tr.events = hsCount c.env.tr.events := hts.hs.trans hsame.hs
  have hsc' : c'.scripts = c.scripts := hfr.scripts.trans hsc
  rw [hpoll]
  rcases ho with ⟨rfl, ⟨F', hst'⟩, hw, ha⟩ | ⟨rfl, h1, h2, h3⟩
  · simp only [hw, if_true]
    have hlen' : 2 * c'.env.tr.input.length + 4 ≤ 100000 := by
      have := hts.tle.input_len
      rw [hsame.input] at this
      omega
    have ha' : ans c'.env.tr < ans c0.env.tr := ha
    obtain ⟨c2, h1, h2, h3⟩ := trunc_run K (ans c'.env.tr) c' F' (n + 1) f hst'
      (hts.em.trans (hsame.em.trans hem)) (hfr.segs.trans hsg) (Nat.le_refl _) (by omega) hlen'
    refine ⟨c2, h1, ?_, h3.trans hsc'⟩
    rw [← hhs]; exact h2
  · exact ⟨c', rfl, ⟨h1, h2, h3, hhs, hfr.stop.trans hstop1⟩, hsc'⟩

end Fcgi.C12E
