import Fcgi.Proofs.E2E
/-!
# End-to-end composition (C07) — part 2: where the stream parser's loop can stop

`Shape`: a `parse` call returns `Ok` only with fewer than 8 unparsed bytes, or inside a `GetValues`
body whose next pair is incomplete, or at the end mark (`stream_end`), or with `dest` full.  Hence a
call into a non-empty `dest` that delivers nothing and does not report `stream_end` leaves room in
the input buffer for the next read (`parse_stall`).
-/
namespace Fcgi.E2E
open Fcgi Fcgi.Req Fcgi.Str Fcgi.Async Fcgi.Run

/-- Nothing more can be parsed without new input: the unparsed bytes are used up, or what is left is
an incomplete record header. -/
def Drained (p : Str.Parser) : Prop := p.raw = [] ∨ (p.pay = 0 ∧ p.pad = 0 ∧ p.raw.length < 8)

theorem Drained.short {p : Str.Parser} (h : Drained p) : p.raw.length < 8 := by
  rcases h with h | ⟨_, _, h⟩
  · rw [h]; simp
  · exact h

/-- Where the loop may stop. -/
def Shape (dest : Option Nat) (res : Status) (p' : Str.Parser) (r' : Status) : Prop :=
  Drained p' ∨ (∃ v, p'.state = .values v ∧ p'.raw.length < p'.pay) ∨ r'.streamEnd = true ∨
  (dest.isSome = true ∧ r'.delivered.length = res.delivered.length + dest.getD 0)

def ShapeI (dest : Option Nat) (res : Status) : Iter → Prop
  | .stop p' r' => Shape dest res p' r'
  | _ => True

theorem Shape.trans {p q p' : Str.Parser} {dest d : Option Nat} {res r r' : Status}
    (hrel : Rel p dest res q d r) (h : Shape d r p' r') : Shape dest res p' r' := by
  rcases h with h | h | h | ⟨h1, h2⟩
  · exact Or.inl h
  · exact Or.inr (Or.inl h)
  · exact Or.inr (Or.inr (Or.inl h))
  · refine Or.inr (Or.inr (Or.inr ⟨by rw [← hrel.dsome]; exact h1, ?_⟩))
    have := hrel.dcap
    omega

theorem ShapeI.trans {p q : Str.Parser} {dest d : Option Nat} {res r : Status} {it : Iter}
    (hrel : Rel p dest res q d r) (h : ShapeI d r it) : ShapeI dest res it := by
  cases it with
  | stop p' r' => exact Shape.trans hrel h
  | _ => trivial

theorem raw_short {raw : Bytes}
    (h : ∀ b0 b1 b2 b3 b4 b5 b6 b7 rest, raw = b0 :: b1 :: b2 :: b3 :: b4 :: b5 :: b6 :: b7 :: rest → False) :
    raw.length < 8 := by
  match raw with
  | [] | [_] | [_, _] | [_, _, _] | [_, _, _, _] | [_, _, _, _, _] | [_, _, _, _, _, _]
  | [_, _, _, _, _, _, _] => simp
  | b0 :: b1 :: b2 :: b3 :: b4 :: b5 :: b6 :: b7 :: rest => exact (h _ _ _ _ _ _ _ _ _ rfl).elim

theorem parseHead_shape (p : Str.Parser) (dest : Option Nat) (res : Status) (hpay : p.pay = 0)
    (hpad : p.pad = 0) : ShapeI dest res (parseHead p dest res) := by
  cases hh : parseHead p dest res with
  | stop p' r' =>
    simp only [ShapeI]
    unfold parseHead at hh
    split at hh
    · repeat' (split at hh)
      all_goals (try simp only [] at hh)
      all_goals (repeat' (split at hh))
      all_goals first
        | (cases hh; done)
        | (cases hh; exact Or.inr (Or.inr (Or.inl rfl)))
    · rename_i hne
      cases hh
      exact Or.inl (Or.inr ⟨hpay, hpad,
        raw_short (fun b0 b1 b2 b3 b4 b5 b6 b7 rest hr => hne _ _ _ _ _ _ _ _ _ hr)⟩)
  | _ => trivial

theorem parsePayload_shape (p : Str.Parser) (dest : Option Nat) (res : Status) :
    ShapeI dest res (parsePayload p dest res) := by
  cases hh : parsePayload p dest res with
  | stop p' r' =>
    simp only [ShapeI]
    unfold parsePayload at hh
    cases hst : p.state with
    | stream =>
      cases dest with
      | some c =>
        simp only [hst] at hh
        split at hh
        · cases hh
        · split at hh
          · cases hh
          · rename_i hc
            cases hh
            simp only [Bool.and_eq_true, beq_iff_eq, decide_eq_true_eq, not_and, Nat.not_lt] at hc
            by_cases hrc : min (min p.pay p.raw.length) c = c
            · refine Or.inr (Or.inr (Or.inr ⟨rfl, ?_⟩))
              simp only [List.length_append, List.length_take, Option.getD_some]
              omega
            · refine Or.inl (Or.inl ?_)
              show List.drop _ p.raw = []
              exact List.drop_eq_nil_of_le (by omega)
      | none =>
        simp only [hst] at hh
        split at hh
        · cases hh
        · split at hh
          · cases hh
          · rename_i hc
            cases hh
            simp only [Bool.and_eq_true, beq_iff_eq, decide_eq_true_eq, not_and, Nat.not_lt] at hc
            refine Or.inl (Or.inl ?_)
            show List.drop _ p.raw = []
            exact List.drop_eq_nil_of_le (by omega)
    | skip =>
      simp only [hst] at hh
      split at hh
      · cases hh
      · split at hh
        · cases hh
        · rename_i hc
          cases hh
          simp only [Bool.and_eq_true, beq_iff_eq, decide_eq_true_eq, not_and, Nat.not_lt] at hc
          refine Or.inl (Or.inl ?_)
          show List.drop _ p.raw = []
          exact List.drop_eq_nil_of_le (by omega)
    | values v =>
      have hrest := nvall_rest_le (List.take (min p.pay p.raw.length) p.raw)
      simp only [List.length_take] at hrest
      simp only [hst] at hh
      by_cases hlt : p.raw.length < p.pay
      · simp only [hlt, if_true] at hh
        split at hh
        · cases hh
        · split at hh
          · cases hh
          · cases hh
            refine Or.inr (Or.inl ⟨_, rfl, ?_⟩)
            simp only [List.length_drop]
            omega
      · simp only [hlt, if_false] at hh
        split at hh
        · cases hh
        · split at hh
          · cases hh
          · rename_i hc
            cases hh
            simp only [Bool.and_eq_true, beq_iff_eq, decide_eq_true_eq, not_and, Nat.not_lt] at hc
            refine Or.inl (Or.inl ?_)
            show List.drop _ p.raw = []
            exact List.drop_eq_nil_of_le (by omega)
  | _ => trivial

theorem padHead_shape (q : Str.Parser) (d : Option Nat) (r : Status) (hpay : q.pay = 0) :
    ShapeI d r
      (if q.pad > 0 then
        if q.raw.length ≤ q.pad then
          .stop { q with raw := [], g1 := q.g1 + q.raw.length, pad := q.pad - q.raw.length } r
        else parseHead { q with raw := q.raw.drop q.pad, g1 := q.g1 + q.pad, pad := 0 } d r
      else parseHead q d r) := by
  split
  · split
    · exact Or.inl (Or.inl rfl)
    · exact parseHead_shape _ _ _ hpay rfl
  · rename_i hpad
    exact parseHead_shape _ _ _ hpay (by omega)

theorem iter_shape (p : Str.Parser) (dest : Option Nat) (res : Status) :
    ShapeI dest res (iter p dest res) := by
  unfold iter
  by_cases hpay : p.pay > 0
  · simp only [hpay, if_true]
    have hp := parsePayload_good p dest res
    have hs := parsePayload_shape p dest res
    cases hpp : parsePayload p dest res with
    | cont q d r =>
      rw [hpp] at hp
      exact ShapeI.trans hp.1 (padHead_shape q d r hp.2.2.1)
    | stop q r => rw [hpp] at hs; exact hs
    | err q e => trivial
    | panic s => trivial
  · simp only [hpay, if_false]
    exact padHead_shape p dest res (by omega)

theorem loop_shape (p : Str.Parser) (dest : Option Nat) (res : Status) {p' : Str.Parser} {st : Status}
    (h : loop p dest res = (p', .ok st)) : Shape dest res p' st := by
  generalize hn : p.raw.length = n
  induction n using Nat.strongRecOn generalizing p dest res with
  | _ n ih =>
    rw [loop] at h
    split at h
    · rename_i he
      have hr : p.raw = [] := by simpa using he
      cases h
      exact Or.inl (Or.inl hr)
    · have hi := iter_good p dest res
      have hs := iter_shape p dest res
      cases hit : iter p dest res with
      | cont q d r =>
        rw [hit] at hi h
        obtain ⟨h1, h2, -⟩ := hi
        simp only [if_pos h2] at h
        exact Shape.trans h1 (ih _ (by omega) q d r h rfl)
      | stop q r =>
        rw [hit] at hs h
        cases h
        exact hs
      | err q e => rw [hit] at h; cases h
      | panic s => rw [hit] at h; cases h

/-- A legal call into a non-empty `dest` that delivers nothing and does not report `stream_end`
stops with fewer than 8 unparsed bytes or on an incomplete `GetValues` pair. -/
theorem parse_stall {p p' : Str.Parser} {new : Bytes} {n : Nat} {st : Status} (hcap : p.freeStart ≤ p.cap)
    (hpar : p.parsed = []) (hfree : new.length ≤ p.free) (hn : 0 < n)
    (h : p.parse new (some n) = (p', .ok st)) (hse : st.streamEnd = false) (hz : st.stream < n) :
    Drained p' ∨ ∃ v, p'.state = .values v ∧ p'.raw.length < p'.pay := by
  have hc := (C03S.counts_exact hcap (Or.inr hpar) hfree h).2.2.1 n rfl
  rw [parse_eq_loop p new (some n) hcap (Or.inr hpar) hfree] at h
  rcases loop_shape _ _ _ h with h1 | h1 | h1 | ⟨_, h2⟩
  · exact Or.inl h1
  · exact Or.inr h1
  · rw [hse] at h1; cases h1
  · simp only [initStatus, List.length_nil, Option.getD_some] at h2
    omega

/-! ## `poll_input` on a quiet stream (no reply is owed for its noise) -/

theorem responseRecord_ne (set mc : Nat) : Vars.responseRecord set mc ≠ [] := by
  simp [Vars.responseRecord, RecordHeader.toBytes]

/-- With no reply owed for the rest of the stream, the parser cannot be waiting inside a
`GetValues` body. -/
theorem Sim.no_values {E : Str.Env} {p : Str.Parser} {fut remC : Bytes} (h : Sim E p fut remC [])
    {v : Nat} (hst : p.state = .values v) (hlt : p.raw.length < p.pay) : False := by
  obtain ⟨c, pd, rs, ct, _, hc, _, _, _, hro⟩ := h.core
  rw [hst] at hro
  have h1 := (List.append_eq_nil_iff.1 hro.symm).1
  simp only [stateO] at h1
  split at h1
  · rename_i hce
    have : c = [] := by simpa using hce
    rw [this] at hc
    simp at hc
    omega
  · exact responseRecord_ne _ _ h1

/-- What is fixed while a request's input is read: the simulation data, the request, the buffer size. -/
structure RCtx where
  E : Str.Env
  rq : Request
  cap : Nat

/-- Read-side state of the `Request` while the handler reads a quiet stream: the simulation
invariant with nothing owed, nothing queued, nothing buffered, no lock held. -/
structure RInv (K : RCtx) (r : AReq) (fut remC : Bytes) : Prop where
  sim : Sim K.E r.sp fut remC []
  sinv : SInv r.sp
  req : r.sp.request = K.rq
  capK : r.sp.cap = K.cap
  cap8 : 8 ≤ r.sp.cap
  out : r.sp.output = []
  par : r.sp.parsed = []
  lock : r.lock = .none
  wr : r.writeable = true

theorem Body.len {id s : Nat} {ct : Bytes} {rs : List Spec.Rec} (h : Body id s ct rs) :
    ct.length ≤ (Spec.serAll rs).length := by
  induction h with
  | nil => simp
  | noise r _ _ ih => rw [serAll_cons]; simp only [List.length_append]; omega
  | chunk c pad res _ _ _ ih =>
    rw [serAll_cons]
    simp only [List.length_append, ser_length]
    omega

/-- the content still to be delivered sits in the unparsed buffer and the bytes still to be read -/
theorem RInv.remC_le {K : RCtx} {r : AReq} {fut remC : Bytes} (h : RInv K r fut remC) :
    remC.length ≤ K.cap + fut.length := by
  obtain ⟨c, pd, rs, ct, hb, _, _, hw, hrc, _⟩ := h.sim.core
  have h1 := congrArg List.length hw
  have h2 := Body.len hb
  have h3 : (stateC r.sp.state c).length ≤ c.length := by
    unfold stateC; split <;> simp
  have h4 := h.sinv.1
  have h5 := h.capK
  rw [hrc]
  simp only [List.length_append, Str.Parser.freeStart] at *
  omega

theorem pollOutput_quiet {r : AReq} (ho : r.sp.output = []) (hl : r.lock = .none) (m : MutexSt)
    (t : Transport) : r.pollOutput m t = (r, m, t, .ready) := by
  simp [AReq.pollOutput, ho, hl]

theorem EndMark.len {id role s : Nat} {tail : Bytes} (h : EndMark id role s tail) : 8 ≤ tail.length := by
  obtain ⟨e, rest, rfl, _⟩ := h
  simp only [List.length_append, ser_length]
  omega

/-- One `parse` call of the read loop. -/
theorem parse_rinv {K : RCtx} {r : AReq} {new fut remC : Bytes} {n : Nat} (hn : 0 < n)
    (hi : RInv K r (new ++ fut) remC) (hfree : new.length ≤ r.sp.free) :
    ∃ p' st remC', r.sp.parse new (some n) = (p', .ok st) ∧ st.delivered ++ remC' = remC ∧
      st.stream = st.delivered.length ∧
      RInv K { r with sp := p' } fut remC' ∧
      (st.streamEnd = true → remC' = [] ∧ p'.pay = 0 ∧ p'.pad = 0 ∧ p'.raw ++ fut = K.E.tail) ∧
      (st.streamEnd = false → st.stream = 0 → p'.raw.length < 8 ∧ fut ≠ []) ∧
      (st.streamEnd = false → st.stream < n → Drained p') := by
  obtain ⟨p', st, remC', remO', hp, hs', hdel, hgr, hse, hlive⟩ :=
    parse_sim (dest := some n) hi.sim hi.sinv.1 (Or.inr hi.par) hfree
  have hro : remO' = [] := (List.append_eq_nil_iff.1 hgr).2
  subst hro
  have hout : p'.output = [] := by
    have := (List.append_eq_nil_iff.1 hgr).1
    simpa [C03S.outGrowth, hp, hi.out] using this
  have hc := (C03S.counts_exact hi.sinv.1 (Or.inr hi.par) hfree hp).2.2.1 n rfl
  have ht := C03S.parse_total r.sp new (some n) hi.sinv (Or.inr hi.par) hfree
  rw [hp] at ht
  have hd : deliveredOp r.sp (.parse new (some n)) = st.delivered := by simp [deliveredOp, hp]
  rw [hd] at hdel
  refine ⟨p', st, remC', hp, hdel, hc.2.2.1.symm,
    ⟨hs', ht.1, ht.2.2.2.1.trans hi.req, ht.2.2.1.trans hi.capK, ?_, hout, hc.1, hi.lock, hi.wr⟩, ?_, ?_, ?_⟩
  · show 8 ≤ p'.cap
    rw [ht.2.2.1]; exact hi.cap8
  · intro h
    obtain ⟨a, _, b, c, d⟩ := hse h
    exact ⟨a, b, c, d⟩
  · intro h1 h2
    constructor
    · rcases parse_stall hi.sinv.1 hi.par hfree hn hp h1 (by omega) with h | ⟨v, hv, hlt⟩
      · exact h.short
      · exact (Sim.no_values hs' hv hlt).elim
    · intro hf
      have hfull : Full K.E fut := by
        unfold Full
        rw [hf]
        simpa using EndMark.len hs'.endm
      rcases hlive hfull with h | ⟨n', hn', hl⟩
      · rw [h1] at h; cases h
      · cases hn'
        omega
  · intro h1 h2
    rcases parse_stall hi.sinv.1 hi.par hfree hn hp h1 h2 with h | ⟨v, hv, hlt⟩
    · exact h
    · exact (Sim.no_values hs' hv hlt).elim

/-- A drained parser does nothing on a call without new input. -/
theorem drained_parse {p : Str.Parser} (hd : Drained p) (hcap : p.freeStart ≤ p.cap) (hpar : p.parsed = [])
    (n : Nat) : p.parse [] (some n) = (p, .ok (initStatus p)) := by
  rw [parse_eq_loop p [] (some n) hcap (Or.inr hpar) (by simp), Str.Parser.feed_nil, loop]
  split
  · rfl
  · rename_i hne
    rcases hd with hd | ⟨hpay, hpad, hlen⟩
    · rw [hd] at hne; simp at hne
    · have hit : iter p (some n) (initStatus p) = .stop p (initStatus p) := by
        unfold iter
        simp only [hpay, Nat.lt_irrefl, if_false, hpad, gt_iff_lt]
        exact parseHead_short hlen _ _
      rw [hit]

/-- What `poll_input` returns to a `read` of a quiet stream. -/
def ReadPost (K : RCtx) (n : Nat) (remC : Bytes) (t : Transport) (r' : AReq) (t' : Transport) : IRes → Prop
  | .pending => RInv K r' t'.input remC ∧ t'.woken = true ∧ ans t' < ans t
  | .ready k d => k = d.length ∧ ∃ remC', d ++ remC' = remC ∧ RInv K r' t'.input remC' ∧
      (0 < k ∨ (remC' = [] ∧ r'.sp.pay = 0 ∧ r'.sp.pad = 0 ∧ r'.sp.raw ++ t'.input = K.E.tail)) ∧
      (k = n ∨ Drained r'.sp ∨ (remC' = [] ∧ r'.sp.pay = 0 ∧ r'.sp.pad = 0 ∧ r'.sp.raw ++ t'.input = K.E.tail))
  | .err _ => False
  | .panic _ => False

/-- **The read loop of `poll_input`** on a benign transport and a quiet stream: it returns the next
piece of the stream content (or `0` exactly at the end mark), or a transient `Pending`; it never
fails, writes nothing, and leaves the mutex alone. -/
theorem inLoop_sim {K : RCtx} {n : Nat} (hn : 0 < n) : ∀ (fuel : Nat) (r : AReq) (new : Bytes)
    (m : MutexSt) (t : Transport) {remC : Bytes} {r' : AReq} {m' : MutexSt} {t' : Transport} {res : IRes},
    Ben t → RInv K r (new ++ t.input) remC → new.length ≤ r.sp.free → t.input.length + 2 ≤ fuel →
    inLoop fuel r new (some n) m t = (r', m', t', res) →
    TStep t t' ∧ t'.wlog = t.wlog ∧ m' = m ∧ ReadPost K n remC t r' t' res ∧
    (Drained r.sp → new = [] → ∀ k d, res = .ready k d → t'.input.length < t.input.length) := by
  intro fuel
  induction fuel with
  | zero => intro r new m t remC r' m' t' res _ _ _ hf; omega
  | succ k ih =>
    intro r new m t remC r' m' t' res hb hi hfree hf h
    obtain ⟨p', st, remC', hp, hdel, hcnt, hi', hend, hstall, hdrain⟩ := parse_rinv hn hi hfree
    simp only [inLoop, hp] at h
    split at h
    · -- the call delivered something or reached the end mark
      rename_i hc
      have hwr : ({ r with sp := p' } : AReq).writeable = true := hi.wr
      have hwr' := hi.wr
      simp only [hwr', Bool.not_true, Bool.false_and, Bool.false_eq_true, if_false] at h
      cases h
      refine ⟨.refl _, rfl, rfl, ⟨hcnt, remC', hdel,
        ⟨hi'.sim, hi'.sinv, hi'.req, hi'.capK, hi'.cap8, hi'.out, hi'.par, hi'.lock, rfl⟩, ?_, ?_⟩, ?_⟩
      · by_cases hk : 0 < st.stream
        · exact Or.inl hk
        · right
          have hse : st.streamEnd = true := by
            simp only [Bool.or_eq_true, decide_eq_true_eq] at hc
            rcases hc with hc | hc
            · exact hc
            · exact absurd hc hk
          exact hend hse
      · cases hse : st.streamEnd with
        | true => exact Or.inr (Or.inr (hend hse))
        | false =>
          have hle : st.stream ≤ n :=
            ((C03S.counts_exact hi.sinv.1 (Or.inr hi.par) hfree hp).2.2.1 n rfl).2.2.2
          by_cases hlt : st.stream < n
          · exact Or.inr (Or.inl (hdrain hse hlt))
          · exact Or.inl (by omega)
      · intro hd hnew kk dd _
        exfalso
        subst hnew
        rw [drained_parse hd hi.sinv.1 hi.par n] at hp
        cases hp
        simp [initStatus, hi.sim.strm] at hc
    · -- nothing delivered: compress, (nothing to flush), read more
      rename_i hc
      simp only [Bool.or_eq_true, decide_eq_true_eq, not_or, Bool.not_eq_true, Nat.not_lt,
        Nat.le_zero_eq] at hc
      obtain ⟨hraw, hne⟩ := hstall hc.1 hc.2
      have hd0 : st.delivered = [] := List.length_eq_zero_iff.1 (by omega)
      rw [hd0, List.nil_append] at hdel
      subst hdel
      have hi2 : RInv K { r with sp := p'.compress } t.input remC' :=
        ⟨hi'.sim.of_core rfl rfl rfl hi'.sim.core, SInv_compress hi'.sinv, hi'.req, hi'.capK, hi'.cap8,
          hi'.out, hi'.par, hi'.lock, hi'.wr⟩
      have hfreepos : 0 < p'.compress.free := by
        have h8 := hi'.cap8
        have hpar := hi'.par
        simp only at h8 hpar
        simp [Str.Parser.free, Str.Parser.freeStart, Str.Parser.compress, hpar]
        omega
      rw [pollOutput_quiet (r := { r with sp := p'.compress }) hi'.out hi'.lock] at h
      simp only at h
      split at h
      · rename_i t1 hr
        cases h
        obtain ⟨hinp, hw | hw⟩ := read_pending hb hr
        · refine ⟨read_tstep hr, by have := read_wlog t p'.compress.free; rwa [hr] at this, rfl, ⟨?_, hw.1, hw.2⟩,
            fun _ _ kk dd hx => by cases hx⟩
          rw [hinp]; exact hi2
        · exact absurd hw.1 hne
      · rename_i t1 e hr
        exact (read_error hb hr).elim
      · rename_i t1 hr
        obtain ⟨_, _, _, hz⟩ := read_ok_ben hb hr
        rcases hz rfl with hz | hz
        · omega
        · exact absurd hz.1 hne
      · rename_i t1 bs hbs hr
        obtain ⟨hin, hwl, hlen, _⟩ := read_ok_ben hb hr
        have hbne : bs ≠ [] := fun hx => hbs (by rw [hx])
        have hbpos : 0 < bs.length := List.length_pos_iff.mpr hbne
        have hs1 := read_tstep hr
        have hlen1 : t1.input.length + 2 ≤ k := by
          have := congrArg List.length hin
          simp only [List.length_append] at this
          omega
        obtain ⟨q1, q2, q3, q4, _⟩ := ih { r with sp := p'.compress } bs m t1 (hb.step hs1)
          (by rw [← hin]; exact hi2) hlen hlen1 h
        refine ⟨hs1.trans q1, q2.trans hwl, q3, ?_, fun _ _ kk dd _ => ?_⟩
        · cases res with
          | pending => exact ⟨q4.1, q4.2.1, by have := hs1.ans_le; have := q4.2.2; omega⟩
          | ready k d => exact q4
          | err e => exact q4
          | panic s => exact q4
        · have := q1.tle.input_len
          have := congrArg List.length hin
          simp only [List.length_append] at this
          omega

/-- **`poll_input(Some(n))`** for the `read` of `readAll`. -/
theorem pollInput_sim {K : RCtx} {n : Nat} (hn : 0 < n) {r : AReq} {m : MutexSt} {t : Transport}
    {remC : Bytes} {r' : AReq} {m' : MutexSt} {t' : Transport} {res : IRes}
    (hb : Ben t) (hi : RInv K r t.input remC)
    (h : r.pollInput (some n) m t = (r', m', t', res)) :
    TStep t t' ∧ t'.wlog = t.wlog ∧ m' = m ∧ ReadPost K n remC t r' t' res ∧
    (Drained r.sp → ∀ k d, res = .ready k d → t'.input.length < t.input.length) := by
  obtain ⟨n', rfl⟩ : ∃ n', n = n' + 1 := ⟨n - 1, by omega⟩
  have hpar := hi.par
  simp only [AReq.pollInput, hpar] at h
  rw [pollOutput_quiet hi.out hi.lock] at h
  simp only at h
  obtain ⟨a1, a2, a3, a4, a5⟩ := inLoop_sim hn _ r [] m t hb (by simpa using hi) (by simp) (Nat.le_refl _) h
  exact ⟨a1, a2, a3, a4, fun hd => a5 hd rfl⟩

end Fcgi.E2E
