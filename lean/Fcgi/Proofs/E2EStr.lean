import Fcgi.Proofs.E2E
import Fcgi.Proofs.StrHostileOps
import Fcgi.Proofs.StrDecomp
import Fcgi.Proofs.AsyncRead
/-!
# End-to-end composition (C07) — part 2: where the stream parser's loop can stop

`Shape`: a `parse` call returns `Ok` only with fewer than 8 unparsed bytes, or inside a `GetValues`
body whose next pair is incomplete, or at the end mark (`stream_end`), or with `dest` full.  Hence a
call into a non-empty `dest` that delivers nothing and does not report `stream_end` leaves room in
the input buffer for the next read (`parse_stall`).
-/
namespace Fcgi.E2E
open Fcgi Fcgi.Req Fcgi.Str Fcgi.Async Fcgi.Run

/-- Nothing more can be parsed without new input: the unparsed bytes are used up, or what is left is
an incomplete record header. -/
def Dry (p : Str.Parser) : Prop := p.raw = [] ∨ (p.pay = 0 ∧ p.pad = 0 ∧ p.raw.length < 8)

theorem Dry.short {p : Str.Parser} (h : Dry p) : p.raw.length < 8 := by
  rcases h with h | ⟨_, _, h⟩
  · rw [h]; simp
  · exact h

/-- … or the parser is inside a `GetValues` body whose next pair is incomplete. -/
def VStall (p : Str.Parser) : Prop :=
  ∃ v, p.state = .values v ∧ p.raw.length < p.pay ∧ NV.next p.raw = none

/-- Where the loop may stop. -/
def Shape (dest : Option Nat) (res : Status) (p' : Str.Parser) (r' : Status) : Prop :=
  Dry p' ∨ VStall p' ∨ r'.streamEnd = true ∨
  (dest.isSome = true ∧ r'.delivered.length = res.delivered.length + dest.getD 0)

def ShapeI (dest : Option Nat) (res : Status) : Iter → Prop
  | .stop p' r' => Shape dest res p' r'
  | _ => True

theorem Shape.trans {p q p' : Str.Parser} {dest d : Option Nat} {res r r' : Status}
    (hrel : Rel p dest res q d r) (h : Shape d r p' r') : Shape dest res p' r' := by
  rcases h with h | h | h | ⟨h1, h2⟩
  · exact Or.inl h
  · exact Or.inr (Or.inl h)
  · exact Or.inr (Or.inr (Or.inl h))
  · refine Or.inr (Or.inr (Or.inr ⟨by rw [← hrel.dsome]; exact h1, ?_⟩))
    have := hrel.dcap
    omega

theorem ShapeI.trans {p q : Str.Parser} {dest d : Option Nat} {res r : Status} {it : Iter}
    (hrel : Rel p dest res q d r) (h : ShapeI d r it) : ShapeI dest res it := by
  cases it with
  | stop p' r' => exact Shape.trans hrel h
  | _ => trivial

theorem raw_short {raw : Bytes}
    (h : ∀ b0 b1 b2 b3 b4 b5 b6 b7 rest, raw = b0 :: b1 :: b2 :: b3 :: b4 :: b5 :: b6 :: b7 :: rest → False) :
    raw.length < 8 := by
  match raw with
  | [] | [_] | [_, _] | [_, _, _] | [_, _, _, _] | [_, _, _, _, _] | [_, _, _, _, _, _]
  | [_, _, _, _, _, _, _] => simp
  | b0 :: b1 :: b2 :: b3 :: b4 :: b5 :: b6 :: b7 :: rest => exact (h _ _ _ _ _ _ _ _ _ rfl).elim

theorem parseHead_shape (p : Str.Parser) (dest : Option Nat) (res : Status) (hpay : p.pay = 0)
    (hpad : p.pad = 0) : ShapeI dest res (parseHead p dest res) := by
  cases hh : parseHead p dest res with
  | stop p' r' =>
    simp only [ShapeI]
    unfold parseHead at hh
    split at hh
    · repeat' (split at hh)
      all_goals (try simp only [] at hh)
      all_goals (repeat' (split at hh))
      all_goals first
        | (cases hh; done)
        | (cases hh; exact Or.inr (Or.inr (Or.inl rfl)))
    · rename_i hne
      cases hh
      exact Or.inl (Or.inr ⟨hpay, hpad,
        raw_short (fun b0 b1 b2 b3 b4 b5 b6 b7 rest hr => hne _ _ _ _ _ _ _ _ _ hr)⟩)
  | _ => trivial

theorem parsePayload_shape (p : Str.Parser) (dest : Option Nat) (res : Status) :
    ShapeI dest res (parsePayload p dest res) := by
  cases hh : parsePayload p dest res with
  | stop p' r' =>
    simp only [ShapeI]
    unfold parsePayload at hh
    cases hst : p.state with
    | stream =>
      cases dest with
      | some c =>
        simp only [hst] at hh
        split at hh
        · cases hh
        · split at hh
          · cases hh
          · rename_i hc
            cases hh
            simp only [Bool.and_eq_true, beq_iff_eq, decide_eq_true_eq, not_and, Nat.not_lt] at hc
            by_cases hrc : min (min p.pay p.raw.length) c = c
            · refine Or.inr (Or.inr (Or.inr ⟨rfl, ?_⟩))
              simp only [List.length_append, List.length_take, Option.getD_some]
              omega
            · refine Or.inl (Or.inl ?_)
              show List.drop _ p.raw = []
              exact List.drop_eq_nil_of_le (by omega)
      | none =>
        simp only [hst] at hh
        split at hh
        · cases hh
        · split at hh
          · cases hh
          · rename_i hc
            cases hh
            simp only [Bool.and_eq_true, beq_iff_eq, decide_eq_true_eq, not_and, Nat.not_lt] at hc
            refine Or.inl (Or.inl ?_)
            show List.drop _ p.raw = []
            exact List.drop_eq_nil_of_le (by omega)
    | skip =>
      simp only [hst] at hh
      split at hh
      · cases hh
      · split at hh
        · cases hh
        · rename_i hc
          cases hh
          simp only [Bool.and_eq_true, beq_iff_eq, decide_eq_true_eq, not_and, Nat.not_lt] at hc
          refine Or.inl (Or.inl ?_)
          show List.drop _ p.raw = []
          exact List.drop_eq_nil_of_le (by omega)
    | values v =>
      have hrest := nvall_rest_le (List.take (min p.pay p.raw.length) p.raw)
      simp only [List.length_take] at hrest
      simp only [hst] at hh
      by_cases hlt : p.raw.length < p.pay
      · simp only [hlt, if_true] at hh
        split at hh
        · cases hh
        · split at hh
          · cases hh
          · cases hh
            have hmin : min p.pay p.raw.length = p.raw.length := by omega
            have htake : List.take (min p.pay p.raw.length) p.raw = p.raw := by
              rw [hmin, List.take_length]
            obtain ⟨c, hc⟩ := C16.rest_suffix p.raw
            have hlenc : p.raw.length = c.length + (NV.all p.raw).2.length := by
              have := congrArg List.length hc
              simpa only [List.length_append] using this
            have hdrop : List.drop (min p.pay p.raw.length -
                (NV.all (List.take (min p.pay p.raw.length) p.raw)).2.length) p.raw = (NV.all p.raw).2 := by
              rw [htake, hmin]
              have : p.raw.length - (NV.all p.raw).2.length = c.length := by omega
              rw [this]
              conv => lhs; rw [hc]
              exact List.drop_left
            refine Or.inr (Or.inl ⟨_, rfl, ?_, ?_⟩)
            · simp only [List.length_drop]
              omega
            · show NV.next (List.drop _ p.raw) = none
              rw [hdrop]
              exact C16.stops_for_good _
      · simp only [hlt, if_false] at hh
        split at hh
        · cases hh
        · split at hh
          · cases hh
          · rename_i hc
            cases hh
            simp only [Bool.and_eq_true, beq_iff_eq, decide_eq_true_eq, not_and, Nat.not_lt] at hc
            refine Or.inl (Or.inl ?_)
            show List.drop _ p.raw = []
            exact List.drop_eq_nil_of_le (by omega)
  | _ => trivial

theorem padHead_shape (q : Str.Parser) (d : Option Nat) (r : Status) (hpay : q.pay = 0) :
    ShapeI d r
      (if q.pad > 0 then
        if q.raw.length ≤ q.pad then
          .stop { q with raw := [], g1 := q.g1 + q.raw.length, pad := q.pad - q.raw.length } r
        else parseHead { q with raw := q.raw.drop q.pad, g1 := q.g1 + q.pad, pad := 0 } d r
      else parseHead q d r) := by
  split
  · split
    · exact Or.inl (Or.inl rfl)
    · exact parseHead_shape _ _ _ hpay rfl
  · rename_i hpad
    exact parseHead_shape _ _ _ hpay (by omega)

theorem iter_shape (p : Str.Parser) (dest : Option Nat) (res : Status) :
    ShapeI dest res (iter p dest res) := by
  unfold iter
  by_cases hpay : p.pay > 0
  · simp only [hpay, if_true]
    have hp := parsePayload_good p dest res
    have hs := parsePayload_shape p dest res
    cases hpp : parsePayload p dest res with
    | cont q d r =>
      rw [hpp] at hp
      exact ShapeI.trans hp.1 (padHead_shape q d r hp.2.2.1)
    | stop q r => rw [hpp] at hs; exact hs
    | err q e => trivial
    | panic s => trivial
  · simp only [hpay, if_false]
    exact padHead_shape p dest res (by omega)

theorem loop_shape (p : Str.Parser) (dest : Option Nat) (res : Status) {p' : Str.Parser} {st : Status}
    (h : loop p dest res = (p', .ok st)) : Shape dest res p' st := by
  generalize hn : p.raw.length = n
  induction n using Nat.strongRecOn generalizing p dest res with
  | _ n ih =>
    rw [loop] at h
    split at h
    · rename_i he
      have hr : p.raw = [] := by simpa using he
      cases h
      exact Or.inl (Or.inl hr)
    · have hi := iter_good p dest res
      have hs := iter_shape p dest res
      cases hit : iter p dest res with
      | cont q d r =>
        rw [hit] at hi h
        obtain ⟨h1, h2, -⟩ := hi
        simp only [if_pos h2] at h
        exact Shape.trans h1 (ih _ (by omega) q d r h rfl)
      | stop q r =>
        rw [hit] at hs h
        cases h
        exact hs
      | err q e => rw [hit] at h; cases h
      | panic s => rw [hit] at h; cases h

/-- A legal call into a `dest` it does not fill and that does not report `stream_end` stops with
nothing left to parse, or on an incomplete `GetValues` pair. -/
theorem parse_stall {p p' : Str.Parser} {new : Bytes} {n : Nat} {st : Status} (hcap : p.freeStart ≤ p.cap)
    (hpar : p.parsed = []) (hfree : new.length ≤ p.free)
    (h : p.parse new (some n) = (p', .ok st)) (hse : st.streamEnd = false) (hz : st.stream < n) :
    Dry p' ∨ VStall p' := by
  have hc := (C03S.counts_exact hcap (Or.inr hpar) hfree h).2.2.1 n rfl
  rw [parse_eq_loop p new (some n) hcap (Or.inr hpar) hfree] at h
  rcases loop_shape _ _ _ h with h1 | h1 | h1 | ⟨_, h2⟩
  · exact Or.inl h1
  · exact Or.inr h1
  · rw [hse] at h1; cases h1
  · simp only [initStatus, List.length_nil, Option.getD_some] at h2
    omega

/-! ## Parsers that cannot go on without new input -/

def Idle (p : Str.Parser) : Prop := Dry p ∨ VStall p

/-- the reference on an idle parser with nothing more to come: nothing, "more input needed", and
all of the unparsed bytes stay unread -/
theorem idle_ref (E : Str.Cfg) {p : Str.Parser} (h : Idle p) :
    Rem E p [] = ⟨[], [], .more, p.raw⟩ := by
  unfold Rem
  rw [List.append_nil]
  rcases h with (h | ⟨h1, h2, h3⟩) | ⟨v, h1, h2, h3⟩
  · rw [h]; exact ref_nil E _ _ _
  · rw [h1, h2]; exact ref_short E _ h3
  · rw [h1, ref_pay_short E _ _ (by omega) h2]
    simp only [stateC, partialRest]
    rw [nvall_stuck h3]

/-- An idle parser does nothing on a call without new input. -/
theorem idle_parse {p : Str.Parser} (hd : Idle p) (hcap : p.freeStart ≤ p.cap) (hpar : p.parsed = [])
    (n : Nat) : p.parse [] (some n) = (p, .ok (initStatus p)) := by
  rw [parse_eq_loop p [] (some n) hcap (Or.inr hpar) (by simp), Str.Parser.feed_nil, loop]
  split
  · rfl
  · rename_i hne
    rcases hd with (hd | ⟨hpay, hpad, hlen⟩) | ⟨v, h1, h2, h3⟩
    · rw [hd] at hne; simp at hne
    · have hit : iter p (some n) (initStatus p) = .stop p (initStatus p) := by
        unfold iter
        simp only [hpay, Nat.lt_irrefl, if_false, hpad, gt_iff_lt]
        exact parseHead_short hlen _ _
      rw [hit]
    · have hpay : p.pay > 0 := by omega
      have hmin : min p.pay p.raw.length = p.raw.length := by omega
      have hit : iter p (some n) (initStatus p) = .stop p (initStatus p) := by
        unfold iter
        simp only [if_pos hpay]
        have hpp : parsePayload p (some n) (initStatus p) = .stop p (initStatus p) := by
          unfold parsePayload
          simp only [h1, hmin, List.take_length, nvall_stuck h3, extend_nil, if_pos h2, Nat.sub_self]
          have a1 : ¬ (0 > p.raw.length ∨ 0 > p.pay) := by omega
          simp only [if_neg a1, Nat.sub_zero, List.drop_zero, Nat.add_zero]
          have a2 : (p.pay == 0 && decide (0 < p.raw.length)) = false := by
            have : (p.pay == 0) = false := by rw [beq_eq_false_iff_ne]; omega
            rw [this]; rfl
          simp only [a2, Bool.false_eq_true, if_false]
          congr 1
          cases p
          simp only at h1
          subst h1
          rfl
        rw [hpp]
      rw [hit]

theorem ref_content_le (E : Str.Cfg) : ∀ (n : Nat) (st : SState) (pay pad : Nat) (w : Bytes), w.length ≤ n →
    (ref E st pay pad w).content.length ≤ w.length := by
  intro n
  induction n with
  | zero =>
    intro st pay pad w hw
    have : w = [] := List.length_eq_zero_iff.1 (by omega)
    subst this
    rw [ref_nil]; simp
  | succ n ih =>
    intro st pay pad w hw
    have hC : ∀ c : Bytes, (stateC st c).length ≤ c.length := by
      intro c; unfold stateC; split <;> simp
    by_cases hp : 0 < pay
    · by_cases hs : w.length < pay
      · rw [ref_pay_short E st pad hp hs]; exact hC w
      · rw [ref_pay_full E st pad hp (by omega)]
        have h1 := ih st 0 pad (w.drop pay) (by simp only [List.length_drop]; omega)
        have h2 := hC (w.take pay)
        simp only [RefOut.pre_content, List.length_append, List.length_drop, List.length_take] at *
        omega
    · have hp0 : pay = 0 := by omega
      subst hp0
      by_cases hpd : 0 < pad
      · by_cases hs : w.length < pad
        · rw [ref_pad_short E st hpd hs]; simp
        · rw [ref_pad_full E st hpd (by omega)]
          have h1 := ih st 0 0 (w.drop pad) (by simp only [List.length_drop]; omega)
          simp only [List.length_drop] at h1
          omega
      · have hpd0 : pad = 0 := by omega
        subst hpd0
        by_cases h8 : w.length < 8
        · rw [ref_short E st h8]; simp
        · obtain ⟨b0, b1, b2, b3, b4, b5, b6, b7, rest, rfl⟩ := cons8_of_len h8
          rw [ref_hdr]
          cases hclass E b0 b1 b2 b3 b4 b5 with
          | stop v => simp
          | pass st' o =>
            have h1 := ih st' (be16 b4 b5) b6.toNat rest (by simp only [List.length_cons] at hw; omega)
            simp only [RefOut.pre_content, List.nil_append, List.length_cons]
            omega

/-! ## `poll_input` against the reference -/

/-- What is fixed while a request's input stream is read: the reference configuration, the request,
the buffer size, the whole wire of the stream `X` (what the stream parser is created with ++ what the
transport still holds), and what the reference makes of it: content `C`, replies `O`, the unread
rest `U` in front of which the stream ends. -/
structure RCtx where
  E : Str.Cfg
  rq : Request
  cap : Nat
  X : Bytes
  C : Bytes
  O : Bytes
  U : Bytes

structure RCtx.OK (K : RCtx) : Prop where
  ref : refWire K.E K.X = ⟨K.C, K.O, .eos, K.U⟩
  /-- no prefix of the wire leaves an incomplete `GetValues` pair that fills the buffer -/
  fits : ∀ G, G <+: K.X → (refWire K.E G).verdict = .more → (refWire K.E G).unread.length < K.cap
  cap8 : 8 ≤ K.cap

/-- Read-side state of the `Request`: `G` = the bytes of the wire handed to the stream parser so
far, `fut` = the rest; `dC` = stream bytes delivered so far, `dO` = replies generated so far.  The
reference on what is still to come is the reference on the whole wire minus `dC` / `dO`, whatever
comes (`x`). -/
structure RInv (K : RCtx) (r : AReq) (G fut dC dO : Bytes) : Prop where
  mt : Match K.E r.sp
  sinv : SInv r.sp
  req : r.sp.request = K.rq
  capK : r.sp.cap = K.cap
  par : r.sp.parsed = []
  wire : G ++ fut = K.X
  hist : ∀ x, refWire K.E (G ++ x) = (Rem K.E r.sp x).pre dC dO

theorem RInv.now {K : RCtx} (hK : K.OK) {r : AReq} {G fut dC dO : Bytes} (h : RInv K r G fut dC dO) :
    K.C = dC ++ (Rem K.E r.sp fut).content ∧ K.O = dO ++ (Rem K.E r.sp fut).out ∧
    (Rem K.E r.sp fut).verdict = .eos ∧ (Rem K.E r.sp fut).unread = K.U := by
  have := h.hist fut
  rw [h.wire, hK.ref] at this
  have h1 := congrArg RefOut.content this
  have h2 := congrArg RefOut.out this
  have h3 := congrArg RefOut.verdict this
  have h4 := congrArg RefOut.unread this
  simp only [RefOut.pre_content, RefOut.pre_out, RefOut.pre_verdict, RefOut.pre_unread] at h1 h2 h3 h4
  exact ⟨h1, h2, h3.symm, h4.symm⟩

/-- the content still to be delivered sits in the unparsed buffer and the bytes still to be read -/
theorem RInv.rem_le {K : RCtx} (hK : K.OK) {r : AReq} {G fut dC dO : Bytes} (h : RInv K r G fut dC dO) :
    K.C.length ≤ dC.length + K.cap + fut.length := by
  have h1 := (h.now hK).1
  have h2 := ref_content_le K.E _ r.sp.state r.sp.pay r.sp.pad (r.sp.raw ++ fut) (Nat.le_refl _)
  have h3 := h.sinv.1
  have h4 := h.capK
  rw [h1]
  unfold Rem
  simp only [List.length_append, Str.Parser.freeStart] at *
  omega

theorem RefOut.ext' {A B : RefOut} (h1 : A.content = B.content) (h2 : A.out = B.out)
    (h3 : A.verdict = B.verdict) (h4 : A.unread = B.unread) : A = B := by
  cases A; cases B; simp_all

/-- One `parse` call of the read loop. -/
theorem parse_rinv {K : RCtx} (hK : K.OK) {r : AReq} {G new fut dC dO : Bytes} {n : Nat} (hn : 0 < n)
    (hi : RInv K r G (new ++ fut) dC dO) (hfree : new.length ≤ r.sp.free) :
    ∃ p' st o, r.sp.parse new (some n) = (p', .ok st) ∧ st.stream = st.delivered.length ∧ st.stream ≤ n ∧
      p'.output = r.sp.output ++ o ∧
      RInv K { r with sp := p' } (G ++ new) fut (dC ++ st.delivered) (dO ++ o) ∧
      (st.streamEnd = true → dC ++ st.delivered = K.C ∧ dO ++ o = K.O ∧ p'.pay = 0 ∧ p'.pad = 0 ∧
        p'.raw ++ fut = K.U) ∧
      (st.streamEnd = false → st.stream < n → Idle p') ∧
      (st.streamEnd = false → st.stream = 0 → p'.raw.length < K.cap ∧ fut ≠ []) := by
  have hpt := C03S.parse_total r.sp new (some n) hi.sinv (Or.inr hi.par) hfree
  have hri : ∀ x, ∃ lost, _ := fun x =>
    parse_ri (E := K.E) (fut := x) (p := r.sp) (new := new) (dest := some n) hi.mt hi.sinv (Or.inr hi.par) hfree
  cases hp : r.sp.parse new (some n) with
  | mk p' pr =>
    rw [hp] at hpt
    cases pr with
    | panic s => exact hpt.elim
    | err e =>
      exfalso
      obtain ⟨lost, _, _, _, hv, _, _, hm⟩ := hri fut
      rw [hp] at hv hm
      simp only at hv hm
      obtain ⟨a, b, c⟩ := hm
      rw [a, b, ref_atStop c] at hv
      have := (hi.now hK).2.2.1
      unfold Rem at this
      rw [← hv] at this
      cases this
    | ok st =>
      obtain ⟨hs', _, hcap', hreq', _, _, _⟩ := hpt
      have hc := (C03S.counts_exact hi.sinv.1 (Or.inr hi.par) hfree hp).2.2.1 n rfl
      obtain ⟨⟨o, ho, _⟩, _⟩ := C03S.counts_exact hi.sinv.1 (Or.inr hi.par) hfree hp
      have hog : C03S.outGrowth r.sp (.parse new (some n)) = o := by
        simp only [C03S.outGrowth, hp, ho, List.drop_left]
      have hav : availOp r.sp (.parse new (some n)) = st.delivered := by simp [availOp, hp]
      have hist' : ∀ x, refWire K.E ((G ++ new) ++ x) = (Rem K.E p' x).pre (dC ++ st.delivered) (dO ++ o) := by
        intro x
        obtain ⟨lost, _, h1, h2, h3, h4, _, hm⟩ := hri x
        rw [hp] at h1 h2 h3 h4 hm
        simp only at h1 h2 h3 h4 hm
        rw [hm.1, List.append_nil, hav] at h1
        rw [hog] at h2
        rw [List.append_assoc, hi.hist (new ++ x)]
        apply RefOut.ext'
        · simp only [RefOut.pre_content, Rem, List.append_assoc]; rw [← h1]
        · simp only [RefOut.pre_out, Rem, List.append_assoc]; rw [← h2]
        · simp only [RefOut.pre_verdict, Rem]; rw [h3]
        · simp only [RefOut.pre_unread, Rem]; rw [h4]
      have hmt' : Match K.E p' := by
        obtain ⟨_, hm', _⟩ := hri fut
        rw [hp] at hm'; exact hm'
      have hi' : RInv K { r with sp := p' } (G ++ new) fut (dC ++ st.delivered) (dO ++ o) :=
        ⟨hmt', hs', hreq'.trans hi.req, hcap'.trans hi.capK, hc.1,
          by rw [List.append_assoc]; exact hi.wire, hist'⟩
      refine ⟨p', st, o, rfl, hc.2.2.1.symm, hc.2.2.2, ho, hi', ?_, ?_, ?_⟩
      · intro hse
        obtain ⟨lost, _, _, _, _, _, _, hm⟩ := hri fut
        rw [hp] at hm
        obtain ⟨a, b, c⟩ := hm.2 hse
        have hnow := hi'.now hK
        simp only [Rem] at hnow
        rw [a, b, ref_atStop c] at hnow
        simp only [List.append_nil] at hnow
        exact ⟨hnow.1.symm, hnow.2.1.symm, a, b, hnow.2.2.2⟩
      · intro h1 h2
        exact parse_stall hi.sinv.1 hi.par hfree hp h1 h2
      · intro h1 h2
        have hidle : Idle p' := parse_stall hi.sinv.1 hi.par hfree hp h1 (by omega)
        have h0 := hist' []
        rw [idle_ref K.E hidle, List.append_nil] at h0
        have hv : (refWire K.E (G ++ new)).verdict = .more := by rw [h0]; rfl
        have hu : (refWire K.E (G ++ new)).unread = p'.raw := by rw [h0]; rfl
        constructor
        · rw [← hu]
          exact hK.fits _ ⟨fut, by rw [List.append_assoc]; exact hi.wire⟩ hv
        · intro hf
          subst hf
          have hw := hi.wire
          rw [List.append_nil] at hw
          rw [hw, hK.ref] at hv
          cases hv

/-! ## `poll_output` -/

theorem outLoop_ben : ∀ (fuel : Nat) (sp : Str.Parser) (t : Transport) {sp' : Str.Parser} {t' : Transport}
    {res : ORes}, Ben t → sp.output.length < fuel → outLoop fuel sp t = (sp', t', res) →
    TStep t t' ∧ (res = .ready ∨ (res = .pending ∧ t'.woken = true ∧ ans t' < ans t)) := by
  intro fuel
  induction fuel with
  | zero => intro sp t sp' t' res _ hf; omega
  | succ k ih =>
    intro sp t sp' t' res hb hf h
    simp only [outLoop] at h
    split at h
    · cases h; exact ⟨.refl _, Or.inl rfl⟩
    · rename_i hne
      have hne' : sp.output ≠ [] := by simpa using hne
      split at h
      · rename_i tw hw
        cases h
        obtain ⟨s1, _, _, s4, s5⟩ := write_tstep hb hw
        exact ⟨s1, Or.inr ⟨rfl, s4, s5⟩⟩
      · rename_i tw e hw
        exact (write_tstep hb hw).2.2.elim
      · rename_i tw hw
        have := (write_tstep hb hw).2.2.2.2 hne'
        omega
      · rename_i tw n hn0 hw
        obtain ⟨s1, _, _, _, s5⟩ := write_tstep hb hw
        have hlen : (sp.consumeOutput n).output.length < k := by
          have := s5 hne'
          simp only [Str.Parser.consumeOutput, List.length_drop]
          have : 0 < sp.output.length := List.length_pos_iff.mpr hne'
          omega
        obtain ⟨q1, q2⟩ := ih _ _ (hb.step s1) hlen h
        refine ⟨s1.trans q1, ?_⟩
        rcases q2 with q2 | ⟨a, b, c⟩
        · exact Or.inl q2
        · exact Or.inr ⟨a, b, by have := s1.ans_le; omega⟩

/-- `poll_output` when no `StreamWriter` holds the mutex: never an error; `Pending` only as a
transient `Pending` of the transport. -/
theorem pollOutput_ben {r : AReq} {m : MutexSt} {t : Transport} {r' : AReq} {m' : MutexSt}
    {t' : Transport} {res : ORes} (hl : LockInv r m) (hm : m = none ∨ m = some 0) (hb : Ben t)
    (h : r.pollOutput m t = (r', m', t', res)) :
    TStep t t' ∧ (res = .ready ∨ (res = .pending ∧ t'.woken = true ∧ ans t' < ans t)) := by
  unfold AReq.pollOutput at h
  split at h
  · split at h
    · cases h; exact ⟨.refl _, Or.inr ⟨by
        -- the debug assertion cannot fire under `LockInv`
        rename_i he hlk
        have he' : r.sp.output = [] := by simpa using he
        have := hl.2 he'
        simp [this] at hlk, by
        rename_i he hlk
        have he' : r.sp.output = [] := by simpa using he
        have := hl.2 he'
        simp [this] at hlk, by
        rename_i he hlk
        have he' : r.sp.output = [] := by simpa using he
        have := hl.2 he'
        simp [this] at hlk⟩⟩
    · cases h; exact ⟨.refl _, Or.inl rfl⟩
  · rcases lockPoll_req hl with hq | ⟨_, i, hi⟩
    · simp only [hq, Bool.not_true, Bool.false_eq_true, if_false] at h
      rcases ho : outLoop (r.sp.output.length + 1) r.sp t with ⟨sp1, t1, o⟩
      rw [ho] at h
      obtain ⟨q1, q2⟩ := outLoop_ben _ _ _ hb (Nat.lt_succ_self _) ho
      cases o with
      | ready => cases h; exact ⟨q1, Or.inl rfl⟩
      | pending =>
        cases h
        rcases q2 with q2 | q2
        · cases q2
        · exact ⟨q1, Or.inr q2⟩
      | err e => rcases q2 with q2 | ⟨q2, _⟩ <;> cases q2
      | panic s => rcases q2 with q2 | ⟨q2, _⟩ <;> cases q2
    · rcases hm with hm | hm <;> rw [hm] at hi <;> cases hi

/-! ## The read loop of `poll_input` -/

/-- `RInv` only looks at the control state and the unparsed bytes of the stream parser. -/
theorem RInv.congr {K : RCtx} {r r' : AReq} {G fut dC dO : Bytes} (h : RInv K r G fut dC dO)
    (e1 : r'.sp.request = r.sp.request) (e2 : r'.sp.stream = r.sp.stream)
    (e3 : r'.sp.maxConns = r.sp.maxConns) (e4 : r'.sp.state = r.sp.state) (e5 : r'.sp.pay = r.sp.pay)
    (e6 : r'.sp.pad = r.sp.pad) (e7 : r'.sp.raw = r.sp.raw) (e8 : r'.sp.cap = r.sp.cap)
    (e9 : r'.sp.parsed = r.sp.parsed) (hs : SInv r'.sp) :
    RInv K r' G fut dC dO :=
  ⟨h.mt.of_eq e1 e2 e3, hs, e1.trans h.req, e8.trans h.capK, e9.trans h.par, h.wire,
    fun x => by rw [h.hist x]; simp only [Rem, e4, e5, e6, e7]⟩

/-- The `Request` between two `poll_input` calls of a `readAll`: `dC` delivered so far, `dO` replies
generated so far, of which `O1` are on the wire (the log was `L` when the handler started) and the
rest is queued; the lock is held only while queued replies are being written. -/
structure RSt (K : RCtx) (L P : Bytes) (r : AReq) (m : MutexSt) (t : Transport) (dC dO : Bytes) : Prop where
  inv : ∃ G, RInv K r G t.input dC dO
  lk : LockInv r m
  mx : m = none ∨ m = some 0
  /-- `P`: replies generated before this stream was started (an earlier stream of the request) -/
  log : ∃ O1, t.wlog = L ++ O1 ∧ O1 ++ r.sp.output = P ++ dO

/-- is this the last input stream of the role (`Request::poll_input` then sets `writeable`) -/
def RCtx.final (K : RCtx) : Bool := (nextInputStream K.E.role (some K.E.s)).isNone

theorem isFinal_of_match {K : RCtx} {r : AReq} (h : Match K.E r.sp) : r.isFinalStream = K.final := by
  simp only [AReq.isFinalStream, RCtx.final, h.role, h.strm]

/-- the stream parser stands at the end mark: everything delivered, every reply generated -/
def AtEnd (K : RCtx) (r : AReq) (t : Transport) (dC dO : Bytes) : Prop :=
  dC = K.C ∧ dO = K.O ∧ r.sp.pay = 0 ∧ r.sp.pad = 0 ∧ r.sp.raw ++ t.input = K.U

/-- What `poll_input` returns to a `read`. -/
def ReadPost (K : RCtx) (n : Nat) (L P dC : Bytes) (t : Transport) (r' : AReq) (m' : MutexSt)
    (t' : Transport) : IRes → Prop
  | .pending => (∃ dO', RSt K L P r' m' t' dC dO') ∧ t'.woken = true ∧ ans t' < ans t
  | .ready k d => k = d.length ∧ ∃ dO', RSt K L P r' m' t' (dC ++ d) dO' ∧ r'.lock = .none ∧ m' = none ∧
      (0 < k ∨ AtEnd K r' t' (dC ++ d) dO') ∧ (k = n ∨ Idle r'.sp ∨ AtEnd K r' t' (dC ++ d) dO') ∧
      (K.final = true → r'.writeable = true)
  | .err _ => False
  | .panic _ => False

theorem lockInv_free {r : AReq} (h : r.lock = .none) : LockInv r none := by
  refine ⟨?_, fun _ => h⟩
  rw [h]
  constructor <;> intro x <;> cases x

theorem RInv.consumed {K : RCtx} {r r' : AReq} {G fut dC dO : Bytes} (h : RInv K r G fut dC dO) {k : Nat}
    (e1 : r'.sp = r.sp.consumeOutput k) : RInv K r' G fut dC dO := by
  refine h.congr ?_ ?_ ?_ ?_ ?_ ?_ ?_ ?_ ?_ ?_ <;> rw [e1]
  all_goals first | rfl | exact h.sinv

/-- **The read loop of `poll_input`** on a benign transport: it returns the next piece of the stream
content (or `0` exactly at the end mark), or a transient `Pending`; it never fails; the replies the
`parse` calls generate are written (in order) before each transport read. -/
theorem inLoop_sim {K : RCtx} (hK : K.OK) {n : Nat} (hn : 0 < n) {L P : Bytes} : ∀ (fuel : Nat) (r : AReq)
    (new : Bytes) (t : Transport) {dC dO : Bytes} {r' : AReq} {m' : MutexSt} {t' : Transport} {res : IRes},
    Ben t → (∃ G, RInv K r G (new ++ t.input) dC dO) → r.lock = .none → r.sp.output = [] →
    t.wlog = L ++ (P ++ dO) → new.length ≤ r.sp.free → t.input.length + 2 ≤ fuel →
    inLoop fuel r new (some n) none t = (r', m', t', res) →
    TStep t t' ∧ ReadPost K n L P dC t r' m' t' res ∧
    (Idle r.sp → new = [] → ∀ k d, res = .ready k d → t'.input.length < t.input.length) := by
  intro fuel
  induction fuel with
  | zero => intro r new t dC dO r' m' t' res _ _ _ _ _ _ hf; omega
  | succ k ih =>
    intro r new t dC dO r' m' t' res hb ⟨G, hi⟩ hlk hout hlog hfree hf h
    obtain ⟨p', st, o, hp, hcnt, hle, ho, hi', hend, hidle, hstall⟩ := parse_rinv hK hn hi hfree
    rw [hout, List.nil_append] at ho
    simp only [inLoop, hp] at h
    split at h
    · -- the call delivered something or reached the end mark
      rename_i hc
      have hfin : ({ r with sp := p' } : AReq).isFinalStream = K.final := isFinal_of_match hi'.mt
      -- the request after the `writeable` update
      have key : ∀ w : Bool, (K.final = true → w = true) →
          (({ sp := p', lock := r.lock, writeable := w } : AReq), (none : MutexSt), t,
            IRes.ready st.stream st.delivered) = (r', m', t', res) →
          TStep t t' ∧ ReadPost K n L P dC t r' m' t' res ∧
          (Idle r.sp → new = [] → ∀ k d, res = .ready k d → t'.input.length < t.input.length) := by
        intro w hw h
        cases h
        have hst : RSt K L P { sp := p', lock := r.lock, writeable := w } none t (dC ++ st.delivered) (dO ++ o) :=
          ⟨⟨G ++ new, hi'.congr rfl rfl rfl rfl rfl rfl rfl rfl rfl hi'.sinv⟩,
            lockInv_free hlk, Or.inl rfl, ⟨P ++ dO, hlog, by rw [ho, List.append_assoc]⟩⟩
        have hat : st.streamEnd = true →
            AtEnd K { sp := p', lock := r.lock, writeable := w } t (dC ++ st.delivered) (dO ++ o) := hend
        refine ⟨.refl _, ⟨hcnt, dO ++ o, hst, hlk, rfl, ?_, ?_, hw⟩, ?_⟩
        · by_cases hk : 0 < st.stream
          · exact Or.inl hk
          · right
            have hse : st.streamEnd = true := by
              simp only [Bool.or_eq_true, decide_eq_true_eq] at hc
              rcases hc with hc | hc
              · exact hc
              · exact absurd hc hk
            exact hat hse
        · cases hse : st.streamEnd with
          | true => exact Or.inr (Or.inr (hat hse))
          | false =>
            by_cases hlt : st.stream < n
            · exact Or.inr (Or.inl (hidle hse hlt))
            · exact Or.inl (by omega)
        · intro hd hnew kk dd _
          exfalso
          subst hnew
          rw [idle_parse hd hi.sinv.1 hi.par n] at hp
          cases hp
          simp [initStatus, hi.mt.strm] at hc
      split at h
      · exact key true (fun _ => rfl) h
      · rename_i hcond
        refine key r.writeable (fun hf => ?_) h
        rw [hfin, hf] at hcond
        simpa using hcond
    · -- nothing delivered: compress, flush the replies, read more
      rename_i hc
      simp only [Bool.or_eq_true, decide_eq_true_eq, not_or, Bool.not_eq_true, Nat.not_lt,
        Nat.le_zero_eq] at hc
      obtain ⟨hraw, hne⟩ := hstall hc.1 hc.2
      have hd0 : st.delivered = [] := List.length_eq_zero_iff.1 (by omega)
      rw [hd0, List.append_nil] at hi'
      have hi2 : RInv K { r with sp := p'.compress } (G ++ new) t.input dC (dO ++ o) :=
        hi'.congr rfl rfl rfl rfl rfl rfl rfl rfl rfl (SInv_compress hi'.sinv)
      have hl2 : LockInv { r with sp := p'.compress } none := lockInv_free hlk
      rcases hpo : AReq.pollOutput { r with sp := p'.compress } none t with ⟨r3, m3, t3, ores⟩
      rw [hpo] at h
      obtain ⟨kk, e1, e2, e3, e4, e5, _, e7, e8⟩ := Async.pollOutput_spec hl2 hpo
      obtain ⟨b1, b2⟩ := pollOutput_ben hl2 (Or.inl rfl) hb hpo
      have hout2 : ({ r with sp := p'.compress } : AReq).sp.output = o := ho
      have hi3 : RInv K r3 (G ++ new) t3.input dC (dO ++ o) := by
        rw [e4.1]
        exact hi2.consumed e1
      have hlog3 : ∃ O1, t3.wlog = L ++ O1 ∧ O1 ++ r3.sp.output = P ++ (dO ++ o) :=
        ⟨P ++ dO ++ o.take kk, by rw [e3, hlog, hout2]; simp only [List.append_assoc], by
          rw [e1]
          show (P ++ dO ++ o.take kk) ++ (p'.compress.output.drop kk) = _
          rw [show p'.compress.output = o from ho]
          simp only [List.append_assoc, List.take_append_drop]⟩
      rcases b2 with rfl | ⟨rfl, bw, ba⟩
      · -- flushed
        obtain ⟨f1, f2, f3, f4⟩ := e7 rfl
        have hm3 : m3 = none := by
          by_cases ho0 : o = []
          · exact (f3 (by rw [hout2]; exact ho0)).2.1
          · exact f4 (by rw [hout2]; exact ho0)
        subst hm3
        have hlog3' : t3.wlog = L ++ (P ++ (dO ++ o)) := by
          obtain ⟨O1, g1, g2⟩ := hlog3
          rw [f1, List.append_nil] at g2
          rw [g1, g2]
        have hfreepos : 0 < r3.sp.free := by
          have hpar := hi3.par
          have hcap := hi3.capK
          rw [e1] at hpar hcap ⊢
          simp only [Str.Parser.consumeOutput, Str.Parser.compress] at hpar hcap
          simp [Str.Parser.free, Str.Parser.freeStart, Str.Parser.compress, Str.Parser.consumeOutput, hpar, hcap]
          omega
        have hb3 := hb.step b1
        have hne3 : t3.input ≠ [] := by rw [e4.1]; exact hne
        simp only at h
        split at h
        · rename_i t1 hr
          have hwl : t1.wlog = t3.wlog := by have := read_wlog t3 r3.sp.free; rwa [hr] at this
          cases h
          obtain ⟨hinp, hw | hw⟩ := read_pending hb3 hr
          · refine ⟨b1.trans (read_tstep hr), ⟨⟨dO ++ o, ⟨⟨G ++ new, by rw [hinp]; exact hi3⟩, e5, Or.inl rfl,
              ⟨P ++ (dO ++ o), by rw [hwl, hlog3'], by rw [f1, List.append_nil]⟩⟩⟩, hw.1,
              by have := b1.ans_le; omega⟩, fun _ _ kk dd hx => by cases hx⟩
          · exact absurd hw.1 hne3
        · rename_i t1 e hr
          exact (read_error hb3 hr).elim
        · rename_i t1 hr
          obtain ⟨_, _, _, hz⟩ := read_ok_ben hb3 hr
          rcases hz rfl with hz | hz
          · omega
          · exact absurd hz.1 hne3
        · rename_i t1 bs hbs hr
          obtain ⟨hin, hwl, hlen, _⟩ := read_ok_ben hb3 hr
          have hbne : bs ≠ [] := fun hx => hbs (by rw [hx])
          have hbpos : 0 < bs.length := List.length_pos_iff.mpr hbne
          have hs1 := read_tstep hr
          have hlen1 : t1.input.length + 2 ≤ k := by
            have := congrArg List.length hin
            rw [e4.1] at this
            simp only [List.length_append] at this
            omega
          obtain ⟨q1, q4, _⟩ := ih r3 bs t1 (hb3.step hs1)
            ⟨G ++ new, by rw [← hin]; exact hi3⟩ f2 f1 (by rw [hwl, hlog3']) hlen hlen1 h
          refine ⟨(b1.trans hs1).trans q1, ?_, fun _ _ kk dd _ => ?_⟩
          · cases res with
            | pending =>
              exact ⟨q4.1, q4.2.1, by have := (b1.trans hs1).ans_le; have := q4.2.2; omega⟩
            | ready k d => exact q4
            | err e => exact q4
            | panic s => exact q4
          · have := q1.tle.input_len
            have := congrArg List.length hin
            rw [e4.1] at this
            simp only [List.length_append] at this
            omega
      · -- the transport is busy: `Pending` with the lock held
        obtain ⟨g1, g2⟩ := e8 (by intro hx; cases hx)
        have hm3 : m3 = some 0 := by
          rcases g2 with ⟨g2, _⟩ | ⟨_, _, _, _, i, hi⟩
          · exact g2
          · cases hi
        cases h
        exact ⟨b1, ⟨⟨dO ++ o, ⟨⟨G ++ new, hi3⟩, e5, Or.inr hm3, hlog3⟩⟩, bw, ba⟩,
          fun _ _ kk dd hx => by cases hx⟩

/-- **`poll_input(Some(n))`** for the `read` of `readAll`. -/
theorem pollInput_sim {K : RCtx} (hK : K.OK) {n : Nat} (hn : 0 < n) {L P : Bytes} {r : AReq} {m : MutexSt}
    {t : Transport} {dC dO : Bytes} {r' : AReq} {m' : MutexSt} {t' : Transport} {res : IRes}
    (hb : Ben t) (hs : RSt K L P r m t dC dO)
    (h : r.pollInput (some n) m t = (r', m', t', res)) :
    TStep t t' ∧ ReadPost K n L P dC t r' m' t' res ∧
    (Idle r.sp → ∀ k d, res = .ready k d → t'.input.length < t.input.length) := by
  obtain ⟨n', rfl⟩ : ∃ n', n = n' + 1 := ⟨n - 1, by omega⟩
  obtain ⟨⟨G, hi⟩, hl, hm, ⟨O1, hlog1, hlog2⟩⟩ := hs
  have hpar := hi.par
  simp only [AReq.pollInput, hpar] at h
  rcases hpo : r.pollOutput m t with ⟨r3, m3, t3, ores⟩
  rw [hpo] at h
  obtain ⟨kk, e1, e2, e3, e4, e5, _, e7, e8⟩ := Async.pollOutput_spec hl hpo
  obtain ⟨b1, b2⟩ := pollOutput_ben hl hm hb hpo
  have hi3 : RInv K r3 G t3.input dC dO := by
    rw [e4.1]
    exact hi.consumed e1
  have hlog3 : ∃ O1', t3.wlog = L ++ O1' ∧ O1' ++ r3.sp.output = P ++ dO :=
    ⟨O1 ++ r.sp.output.take kk, by rw [e3, hlog1, List.append_assoc], by
      rw [e1]; simp only [Str.Parser.consumeOutput, List.append_assoc, List.take_append_drop]; exact hlog2⟩
  rcases b2 with rfl | ⟨rfl, bw, ba⟩
  · obtain ⟨f1, f2, f3, f4⟩ := e7 rfl
    have hm3 : m3 = none := by
      by_cases ho0 : r.sp.output = []
      · have hm0 : m = none := by
          rcases hm with hm | hm
          · exact hm
          · have := hl.1.2 hm
            rw [hl.2 ho0] at this; cases this
        rw [(f3 ho0).2.1, hm0]
      · exact f4 ho0
    subst hm3
    have hlog3' : t3.wlog = L ++ (P ++ dO) := by
      obtain ⟨O1', g1, g2⟩ := hlog3
      rw [f1, List.append_nil] at g2
      rw [g1, g2]
    simp only at h
    obtain ⟨q1, q2, q3⟩ := inLoop_sim hK hn (L := L) (P := P) _ r3 [] t3 (hb.step b1) ⟨G, by simpa using hi3⟩ f2 f1 hlog3'
      (by simp) (Nat.le_refl _) h
    refine ⟨b1.trans q1, ?_, fun hd kk dd hx => ?_⟩
    · cases res with
      | pending => exact ⟨q2.1, q2.2.1, by have := b1.ans_le; have := q2.2.2; omega⟩
      | ready k d => exact q2
      | err e => exact q2
      | panic s => exact q2
    · have hd3 : Idle r3.sp := by
        rw [e1]
        simpa [Idle, Dry, VStall, Str.Parser.consumeOutput] using hd
      have := q3 hd3 rfl kk dd hx
      rw [e4.1] at this
      exact this
  · obtain ⟨g1, g2⟩ := e8 (by intro hx; cases hx)
    have hm3 : m3 = some 0 := by
      rcases g2 with ⟨g2, _⟩ | ⟨_, _, hmm, _, i, hi⟩
      · exact g2
      · rcases hm with hm | hm <;> rw [hm] at hi <;> cases hi
    cases h
    exact ⟨b1, ⟨⟨dO, ⟨⟨G, hi3⟩, e5, Or.inr hm3, hlog3⟩⟩, bw, ba⟩, fun _ kk dd hx => by cases hx⟩

end Fcgi.E2E
