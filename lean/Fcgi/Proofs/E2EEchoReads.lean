import Fcgi.Proofs.E2ELedger
/-!
# The echo Responder: the read events, in order

`run_stages3E`: the executor `run_stages3'` carrying a list `Sub` of events that, once the request is done, is a
SUBLIST (in order) of the trace — the trace only grows (`pollConn_cle`), so it still is at the end of the run.
Then the echo loop of `Proofs/E2ELedger` with the invariant "the `r=1:b` events of the content bytes delivered so far
are, in order, in the trace".
-/
namespace Fcgi.E2E
open Fcgi Fcgi.Req Fcgi.Str Fcgi.Async Fcgi.Run Fcgi.Spec Fcgi.C09E

theorem sub_app {S evs : List String} (new : List String) (h : S.Sublist evs) : S.Sublist (evs ++ new) :=
  h.trans (List.sublist_append_left _ _)

theorem sub_of_eq {S : List String} {t t' : Transport} {new : List String} (h : S.Sublist t.events)
    (e : t'.events = t.events ++ new) : S.Sublist t'.events := by rw [e]; exact sub_app new h

theorem Halts.evp {N : Nat} {c c' : Conn} {r : Run.PRes} (h : Halts N c c' r) :
    ∃ new, c'.env.tr.events = c.env.tr.events ++ new := by
  have h1 := h.poll (Nat.le_refl N)
  have h2 := (pollConn_cle N c).ev
  rw [h1] at h2
  obtain ⟨new, e, _⟩ := h2
  exact ⟨new, e⟩

theorem Steps.evp {k : Nat} {c c1 : Conn} (h : Steps k c c1) : ∃ new, c1.env.tr.events = c.env.tr.events ++ new := by
  induction h with
  | refl c => exact ⟨[], by simp⟩
  | @step n c0 c1 c2 hs _ ih =>
    obtain ⟨n2, e2⟩ := ih
    have h1 := (stepConn_cle c0).ev
    rw [hs] at h1
    obtain ⟨n1, e1, _⟩ := h1
    exact ⟨n1 ++ n2, by rw [e2]; show c1.env.tr.events ++ n2 = _; rw [show c1.env.tr.events = _ from e1, List.append_assoc]⟩

theorem TStep.evp {t t' : Transport} (h : TStep t t') : ∃ new, t'.events = t.events ++ new := by
  obtain ⟨new, e, _⟩ := h.tle.ev
  exact ⟨new, e⟩

/-- `run_stages3'` with an event list `Sub` that the after-stage guarantees to be a sublist of the trace -/
theorem run_stages3E {cap mc : Nat} (h24 : 24 ≤ cap) {Z : Bytes} {sc : List (List HOp × Bool)} {h0 : Nat} {ι : Type}
    {P : ι → Prop} {W0 L : ι → Bytes} {evs : ι → List String} (Sub : List String)
    (hns : ∀ i, P i → NoStuckW cap mc (W0 i))
    (hNF : ∀ i, P i → ∀ F x, F ++ x ++ Z = W0 i → (run .header F mc).st.isFinal = false)
    {S Fn : Conn → Prop}
    (hcong : ∀ c c', S c → c'.phase = c.phase → c'.scripts = c.scripts → c'.stop = c.stop →
      c'.env.mutex = c.env.mutex → TrSame c.env.tr c'.env.tr → S c')
    (hpoll : ∀ c, S c → GRes3 S (fun c1 => ZTailAt cap mc Z sc h0 P W0 L evs c1 ∧ Sub.Sublist c1.env.tr.events) Fn
      (2 * c.env.tr.input.length + 15) c)
    (em : EndMode) (evs0 : List String) (c : Conn) (n0 fuel : Nat) (hst : S c)
    (hem : c.env.tr.endMode = em) (hev0 : ∀ s ∈ evs0, s ∈ c.env.tr.events)
    (hsegs : c.env.segs = []) (hf : ans c.env.tr + 1 ≤ fuel) :
    ∃ c'' fin, runTask fuel c n0 none = (c'', fin) ∧
      ((GEnd cap mc Z sc h0 P W0 L evs em evs0 (ans c.env.tr) c'' fin ∧ Sub.Sublist c''.env.tr.events) ∨
       (fin = "RET" ∧ Fn c'' ∧ c''.env.tr.endMode = em ∧ (∀ s ∈ evs0, s ∈ c''.env.tr.events))) := by
  refine run_gen'
    (fun c0 => (S c0 ∨ (ZTailAt cap mc Z sc h0 P W0 L evs c0 ∧ Sub.Sublist c0.env.tr.events)) ∧
      c0.env.tr.endMode = em ∧ (∀ s ∈ evs0, s ∈ c0.env.tr.events) ∧ ans c0.env.tr ≤ ans c.env.tr)
    (fun c0 => (∃ c', Halts (4 * c0.env.tr.input.length + 22) c0 c' .finished ∧ Link c0 c' ∧ Fn c') ∨ ∃ i, P i ∧
      ((∃ c', Halts (4 * c0.env.tr.input.length + 22) c0 c' .pending ∧ Link c0 c' ∧ c'.env.tr.woken = c0.env.tr.woken ∧
        ZT cap mc (W0 i) (L i) Z c' ∧ PKeep sc h0 (evs i) c' ∧ ZParked cap mc (W0 i) (L i) Z c' ∧
        Sub.Sublist c'.env.tr.events) ∨
      (∃ c', Halts (4 * c0.env.tr.input.length + 22) c0 c' .finished ∧ Link c0 c' ∧
        PKeep sc h0 (evs i) c' ∧ ZFin mc (W0 i) (L i) Z c' ∧ Sub.Sublist c'.env.tr.events)))
    (fun c'' fin => (GEnd cap mc Z sc h0 P W0 L evs em evs0 (ans c.env.tr) c'' fin ∧ Sub.Sublist c''.env.tr.events) ∨
       (fin = "RET" ∧ Fn c'' ∧ c''.env.tr.endMode = em ∧ (∀ s ∈ evs0, s ∈ c''.env.tr.events)))
    (fun c0 c1 h a b c d e => by
      refine ⟨?_, e.em.trans h.2.1, fun s hs => e.mem (h.2.2.1 s hs), by
        have := h.2.2.2; unfold ans at this ⊢; rw [e.rd, e.wr]; exact this⟩
      rcases h.1 with h1 | ⟨⟨i, hi, h1, h2⟩, hsub⟩
      · exact Or.inl (hcong _ _ h1 a b c d e)
      · obtain ⟨new, en, _⟩ := e.ev
        exact Or.inr ⟨⟨i, hi, h1.cong a c e, h2.same b d e⟩, sub_of_eq hsub en⟩)
    (fun c0 h => ?_)
    (fun c0 n1 f0 hS0 hsg hq _ => ?_)
    (ans c.env.tr) c n0 fuel ⟨Or.inl hst, hem, hev0, Nat.le_refl _⟩ hsegs (Nat.le_refl _) hf
  · -- one poll
    have keep : ∀ {c' : Conn}, Link c0 c' → c'.env.tr.endMode = em ∧ (∀ s ∈ evs0, s ∈ c'.env.tr.events) ∧
        ans c'.env.tr ≤ ans c.env.tr :=
      fun hl => ⟨hl.ts.em.trans h.2.1, fun s hs => hl.ts.evm s (h.2.2.1 s hs),
        Nat.le_trans hl.ts.ans_le h.2.2.2⟩
    have tail : ∀ {k : Nat} {c1 : Conn} {i : ι}, P i → Steps k c0 c1 → Link c0 c1 → k ≤ 2 * c0.env.tr.input.length + 15 →
        ZT cap mc (W0 i) (L i) Z c1 → PKeep sc h0 (evs i) c1 → Sub.Sublist c1.env.tr.events →
          ((∃ c', Halts (6 * c0.env.tr.input.length + 26) c0 c' .pending ∧ Link c0 c' ∧
            ((S c' ∨ (ZTailAt cap mc Z sc h0 P W0 L evs c' ∧ Sub.Sublist c'.env.tr.events)) ∧
              c'.env.tr.endMode = em ∧ (∀ s ∈ evs0, s ∈ c'.env.tr.events) ∧ ans c'.env.tr ≤ ans c.env.tr) ∧
            c'.env.tr.woken = true ∧ ans c'.env.tr < ans c0.env.tr) ∨
          ((∃ c', Halts (4 * c0.env.tr.input.length + 22) c0 c' .finished ∧ Link c0 c' ∧ Fn c') ∨ ∃ i, P i ∧
            ((∃ c', Halts (4 * c0.env.tr.input.length + 22) c0 c' .pending ∧ Link c0 c' ∧ c'.env.tr.woken = c0.env.tr.woken ∧
              ZT cap mc (W0 i) (L i) Z c' ∧ PKeep sc h0 (evs i) c' ∧ ZParked cap mc (W0 i) (L i) Z c' ∧
              Sub.Sublist c'.env.tr.events) ∨
            (∃ c', Halts (4 * c0.env.tr.input.length + 22) c0 c' .finished ∧ Link c0 c' ∧
              PKeep sc h0 (evs i) c' ∧ ZFin mc (W0 i) (L i) Z c' ∧ Sub.Sublist c'.env.tr.events)))) := by
      intro k c1 i hi hs hl hk1 hzt hkp hsub
      have hin1 := hl.ts.inp
      rcases ztail_poll h24 (hns i hi) (hNF i hi) hzt hkp with
        ⟨c', hh, hl2, hS, hw, ha⟩ | ⟨c', hh, hl2, hw, hz, hk, hp⟩ | ⟨c', hh, hl2, hk, hfz⟩
      · obtain ⟨new, en⟩ := hh.evp
        exact Or.inl ⟨c', (hh.of_steps hs).mono (by omega), hl.trans hl2,
          ⟨Or.inr ⟨⟨i, hi, hS⟩, sub_of_eq hsub en⟩, keep (hl.trans hl2)⟩, hw, by have := hl.ts.ans_le; omega⟩
      · obtain ⟨new, en⟩ := hh.evp
        rcases hl.ts.wk with hwk | ⟨hwk, hans⟩
        · exact Or.inr (Or.inr ⟨i, hi, Or.inl ⟨c', (hh.of_steps hs).mono (by omega), hl.trans hl2, hw.trans hwk, hz, hk, hp,
            sub_of_eq hsub en⟩⟩)
        · exact Or.inl ⟨c', (hh.of_steps hs).mono (by omega), hl.trans hl2,
            ⟨Or.inr ⟨⟨i, hi, hz, hk⟩, sub_of_eq hsub en⟩, keep (hl.trans hl2)⟩, hw.trans hwk,
            by have := hl2.ts.ans_le; omega⟩
      · obtain ⟨new, en⟩ := hh.evp
        exact Or.inr (Or.inr ⟨i, hi, Or.inr ⟨c', (hh.of_steps hs).mono (by omega), hl.trans hl2, hk, hfz,
          sub_of_eq hsub en⟩⟩)
    rcases h.1 with h1 | ⟨⟨i, hi, h1, h2⟩, hsub⟩
    · rcases hpoll c0 h1 with (⟨c', hh, hl, hS, hw, ha⟩ | ⟨k, c1, hk1, hs, hl, ⟨i, hi, hzt, hkp⟩, hsub⟩) | ⟨c', hh, hl, hfn⟩
      · exact Or.inl ⟨c', hh.mono (by omega), hl, ⟨Or.inl hS, keep hl⟩, hw, ha⟩
      · exact tail hi hs hl hk1 hzt hkp hsub
      · exact Or.inr (Or.inl ⟨c', hh.mono (by omega), hl, hfn⟩)
    · exact tail hi (.refl _) (.refl _) (Nat.zero_le _) h1 h2 hsub
  · -- from the last poll to the end of `runTask`
    obtain ⟨hsame, hph, hsc, hstop, hmx, hsg', hwk⟩ := prePoll_same c0 n1 hsg
    have hN : 4 * (prePoll c0 n1 none).env.tr.input.length + 22 ≤ 6 * (prePoll c0 n1 none).env.tr.input.length + 26 := by omega
    have keep : ∀ {c' : Conn}, Link (prePoll c0 n1 none) c' → c'.env.tr.endMode = em ∧
        (∀ s ∈ evs0, s ∈ c'.env.tr.events) ∧ ans c'.env.tr ≤ ans c.env.tr ∧ c'.env.segs = [] :=
      fun hl => ⟨(hl.ts.em.trans hsame.em).trans hS0.2.1, fun s hs => hl.ts.evm s (hsame.mem (hS0.2.2.1 s hs)),
        by
          have hans0 : ans (prePoll c0 n1 none).env.tr = ans c0.env.tr := by unfold ans; rw [hsame.rd, hsame.wr]
          have := hl.ts.ans_le; have := hS0.2.2.2; omega, hl.segs.trans hsg'⟩
    rcases hq with ⟨c', hh, hl, hfn⟩ | ⟨i, hi, hq⟩
    · have hpoll' := hh.pollB hN
      obtain ⟨k1, k2, k3, k4⟩ := keep hl
      exact ⟨c', "RET", by rw [runTask_succ, hpoll'], Or.inr ⟨rfl, hfn, k1, k2⟩⟩
    rcases hq with ⟨c', hh, hl, hw, hzt, hkp, hpk, hsub⟩ | ⟨c', hh, hl, hkp, hfin, hsub⟩
    · have hpoll' := hh.pollB hN
      have hw' : c'.env.tr.woken = false := hw.trans hwk
      obtain ⟨k1, k2, k3, k4⟩ := keep hl
      rw [runTask_succ, hpoll']
      simp only [hw', Bool.false_eq_true, if_false]
      rw [release_nil _ k4]
      simp only [hw', Bool.false_eq_true, if_false]
      refine ⟨_, "STALL", rfl, Or.inl ⟨⟨i, hi, ?_⟩, hsub⟩⟩
      obtain ⟨F, hF, hps, hph', hlg⟩ := hpk.pst
      exact ⟨hkp.same rfl rfl ⟨rfl, rfl, rfl, rfl, rfl, rfl, [], by simp, Quiet.nil⟩, k1, k2, k3, k4,
        Or.inl ⟨rfl, ⟨F, hF, hps.cong rfl rfl ⟨rfl, rfl, rfl, rfl, rfl, rfl, [], by simp, Quiet.nil⟩, hph', hlg⟩,
          hpk.inp, hpk.em⟩⟩
    · have hpoll' := hh.pollB hN
      obtain ⟨k1, k2, k3, k4⟩ := keep hl
      exact ⟨c', "RET", by rw [runTask_succ, hpoll'],
        Or.inl ⟨⟨i, hi, hkp, k1, k2, k3, k4, Or.inr ⟨rfl, hfin⟩⟩, hsub⟩⟩


/-! ## The echo loop with the read events (copies of `Proofs/E2ELedger`, generated: `/verif/.run/gen/echoreads.py`) -/

/-- the trace event of a `read(1)` that returned the byte `b` -/
def rd1 (b : UInt8) : String := s!"r={1}:{hexOrDash [b]}"
/-- the trace event of a `read(1)` that returned nothing (end of stream) -/
def rd0 : String := s!"r={0}:{hexOrDash ([] : Bytes)}"
/-- the read events of the content bytes `C`, in order -/
def rdEvs (C : Bytes) : List String := C.map rd1

theorem rdEvs_snoc (C : Bytes) (b : UInt8) : rdEvs (C ++ [b]) = rdEvs C ++ [rd1 b] := by simp [rdEvs]

theorem GRes.impE {S S' A A' : Conn → Prop} {N : Nat} {c : Conn} (h : GRes S A N c)
    (hS : ∀ c', Link c c' → (∃ new, c'.env.tr.events = c.env.tr.events ++ new) → S c' → S' c')
    (hA : ∀ c', Link c c' → (∃ new, c'.env.tr.events = c.env.tr.events ++ new) → A c' → A' c') : GRes S' A' N c := by
  rcases h with ⟨c', hh, hl, hs, r⟩ | ⟨k2, c2, hk, hst, hl, ha⟩
  · exact Or.inl ⟨c', hh, hl, hS c' hl hh.evp hs, r⟩
  · exact Or.inr ⟨k2, c2, hk, hst, hl, hA c2 hl hst.evp ha⟩

theorem GRes3.impE {S S' A A' Fn Fn' : Conn → Prop} {N : Nat} {c : Conn} (h : GRes3 S A Fn N c)
    (hS : ∀ c', Link c c' → (∃ new, c'.env.tr.events = c.env.tr.events ++ new) → S c' → S' c')
    (hA : ∀ c', Link c c' → (∃ new, c'.env.tr.events = c.env.tr.events ++ new) → A c' → A' c')
    (hF : ∀ c', Link c c' → (∃ new, c'.env.tr.events = c.env.tr.events ++ new) → Fn c' → Fn' c') : GRes3 S' A' Fn' N c := by
  rcases h with h | ⟨c', hh, hl, hf⟩
  · exact Or.inl (h.impE hS hA)
  · exact Or.inr ⟨c', hh, hl, hF c' hl hh.evp hf⟩

/-- how one poll of the echo loop ends -/
def EOutR (K : RCtx) (id : Nat) (st : ExitStatus) (Lb : Bytes) (e : Run.Env)
    (out : AReq × HState × Run.Env × HRes) : Prop :=
  out.2.2.1.segs = e.segs ∧ TStep e.tr out.2.2.1.tr ∧
  ((out.2.2.2 = .pending ∧ out.2.2.1.tr.woken = true ∧ ans out.2.2.1.tr < ans e.tr ∧
      ∃ (dC rem : Bytes) (ws : _root_.Fin 2 → Writer) (dO : Bytes), K.C = dC ++ rem ∧
        out.2.1 = { ops := echoOps rem st, sub := .fresh, writers := wtab ws, propagate := true } ∧
        RStL K Lb [] (outOf id (echoW dC)) out.1 out.2.2.1.mutex out.2.2.1.tr dC dO ∧
        (∀ j : _root_.Fin 2, WIdle (6 + j.val) id (ws j)) ∧ (rdEvs dC).Sublist out.2.2.1.tr.events) ∨
   (out.2.2.2 = .pending ∧ out.2.2.1.tr.woken = true ∧ ans out.2.2.1.tr < ans e.tr ∧
      ∃ (dC : Bytes) (b : UInt8) (rem : Bytes) (ws : _root_.Fin 2 → Writer) (L sent dO w : Bytes), K.C = dC ++ b :: rem ∧
        out.2.1.ops = .writeAll 0 [b] :: echoOps rem st ∧ out.2.1.propagate = true ∧ out.2.1.writers = wtab ws ∧
        WIdle 7 id (ws 1) ∧ WSt2 6 0 id (ws 0) out.2.2.1.mutex (restOf out.2.1.sub [b]) sent ∧
        out.2.2.1.tr.wlog = L ++ sent ∧
        L ++ streamRecords 6 id (restOf out.2.1.sub [b]) = Lb ++ w ++ streamRecords 6 id [b] ∧
        RQL K (outOf id (echoW dC)) out.1 out.2.2.1.tr (dC ++ [b]) dO w ∧
        (rdEvs (dC ++ [b])).Sublist out.2.2.1.tr.events) ∨
   (out.2.2.2 = .done (.ok st) ∧ out.2.1.writers = [none, none] ∧ out.2.2.1.mutex = none ∧
      (∃ w, out.2.2.1.tr.wlog = Lb ++ w ∧ RQL K (outOf id (echoW K.C)) out.1 out.2.2.1.tr K.C K.O w) ∧
      out.1.sp.pay = 0 ∧ out.1.sp.pad = 0 ∧ out.1.sp.raw ++ out.2.2.1.tr.input = K.U ∧
      (K.final = true → out.1.writeable = true) ∧ (rdEvs K.C ++ [rd0]).Sublist out.2.2.1.tr.events))

theorem EOutR.after {K : RCtx} {id : Nat} {st : ExitStatus} {Lb : Bytes} {e e0 : Run.Env}
    {out : AReq × HState × Run.Env × HRes} (h : EOutR K id st Lb e out)
    (hts : TStep e0.tr e.tr) (hsg : e.segs = e0.segs) : EOutR K id st Lb e0 out := by
  obtain ⟨q0, q1, q2⟩ := h
  have := hts.ans_le
  refine ⟨q0.trans hsg, hts.trans q1, ?_⟩
  rcases q2 with ⟨a1, a2, a3, a4⟩ | ⟨a1, a2, a3, a4⟩ | a
  · exact Or.inl ⟨a1, a2, by omega, a4⟩
  · exact Or.inr (Or.inl ⟨a1, a2, by omega, a4⟩)
  · exact Or.inr (Or.inr a)

/-- the loop from a `read`, `rem` still to come -/
def PReadR (K : RCtx) (id : Nat) (st : ExitStatus) (Lb : Bytes) (rem : Bytes) : Prop :=
  ∀ (fuel : Nat) (r : AReq) (e : Run.Env) (ws : _root_.Fin 2 → Writer) (dC dO : Bytes),
    K.C = dC ++ rem → 3 * rem.length + 8 ≤ fuel → Ben e.tr →
    RStL K Lb [] (outOf id (echoW dC)) r e.mutex e.tr dC dO →
    (∀ j : _root_.Fin 2, WIdle (6 + j.val) id (ws j)) → (rdEvs dC).Sublist e.tr.events →
    EOutR K id st Lb e (handlerPoll fuel r
      { ops := echoOps rem st, sub := .fresh, writers := wtab ws, propagate := true } e)

/-- the loop from inside the `write_all` of `b`, `rem` still to come -/
def PWriteR (K : RCtx) (id : Nat) (st : ExitStatus) (Lb : Bytes) (b : UInt8) (rem : Bytes) : Prop :=
  ∀ (fuel : Nat) (r : AReq) (e : Run.Env) (ws : _root_.Fin 2 → Writer) (dC dO : Bytes) (sub : HSub) (L sent w : Bytes),
    K.C = dC ++ b :: rem → wcost (restOf sub [b]).length + 3 * rem.length + 8 ≤ fuel → Ben e.tr →
    RQL K (outOf id (echoW dC)) r e.tr (dC ++ [b]) dO w →
    WIdle 7 id (ws 1) → WSt2 6 0 id (ws 0) e.mutex (restOf sub [b]) sent → e.tr.wlog = L ++ sent →
    L ++ streamRecords 6 id (restOf sub [b]) = Lb ++ w ++ streamRecords 6 id [b] →
    (rdEvs (dC ++ [b])).Sublist e.tr.events →
    EOutR K id st Lb e (handlerPoll fuel r
      { ops := .writeAll 0 [b] :: echoOps rem st, sub := sub, writers := wtab ws, propagate := true } e)

theorem pwrite_of_preadR {K : RCtx} {id : Nat} {st : ExitStatus} {Lb : Bytes} {rem : Bytes}
    (hn : PReadR K id st Lb rem) (b : UInt8) : PWriteR K id st Lb b rem := by
  intro fuel r e ws dC dO sub L sent w hC hf hb hrq hid1 hst hlog hL hsub
  rcases writeAll_run2 (ty := 6) (me := 0) (id := id) r [b] (echoOps rem st) true (restOf sub [b]).length fuel sub
      (wtab ws) (ws 0) e L sent (by show 0 < 2; omega) (wtab_get ws 0) (Nat.le_refl _) (by omega) hb hst hlog with
    ⟨w', e', rd', L', sent', d1, d2, d3, d4, d5, d6, d7, d8, d9, d10, d11⟩ |
    ⟨w', e', f', d1, d2, d3, d4, d5, d6, d7, d8⟩
  · rw [d1]
    refine ⟨d9, d7, Or.inr (Or.inl ⟨rfl, d10, d11, dC, b, rem, (fun j => if j = 0 then w' else ws j), L', sent', dO, w, hC,
      rfl, rfl, wtab_set ws 0 w', ?_, ?_, d3, ?_, hrq.tr d8, by obtain ⟨nw, en⟩ := d7.evp; exact sub_of_eq hsub en⟩)⟩
    · simp only [show ((1 : _root_.Fin 2) = 0) = False from by decide, if_false]; exact hid1
    · simp only [if_true]; exact d5
    · show L' ++ streamRecords 6 id rd' = _
      rw [d4]; exact hL
  · rw [d1, show (wtab ws).set 0 (some w') = _ from wtab_set ws 0 w']
    have hs1 : TStep e.tr (e'.ev "W=ok").tr := d6.trans (TStep.ev _ (by decide))
    have hrq' : RQL K (outOf id (echoW (dC ++ [b]))) r (e'.ev "W=ok").tr (dC ++ [b]) dO (w ++ streamRecords 6 id [b]) := by
      rw [outOf_echo_snoc]
      exact hrq.hnd (by show e'.tr.input = _; exact d7) _
    have hlog' : (e'.ev "W=ok").tr.wlog = Lb ++ (w ++ streamRecords 6 id [b]) := by
      show (e'.tr.ev _).wlog = _
      rw [Transport.ev_wlog, d3, hL, List.append_assoc]
    have hrst := hrq'.rstl hlog'
    have hm' : (e'.ev "W=ok").mutex = none := d5
    refine (hn f' r (e'.ev "W=ok") (fun j => if j = 0 then w' else ws j) (dC ++ [b]) dO
      (by rw [hC]; simp) (by omega) (hb.step hs1) (by rw [hm']; exact hrst) ?_
      (by obtain ⟨nw, en⟩ := hs1.evp; exact sub_of_eq hsub en)).after hs1 d8
    intro j
    by_cases hj : j = 0
    · subst hj; simp only [if_true]; exact d4
    · simp only [if_neg hj]
      match j, hj with
      | ⟨0, _⟩, h => exact absurd rfl h
      | ⟨1, _⟩, _ => exact hid1

theorem pread_allR {K : RCtx} (hK : K.OK) (h24 : 24 ≤ K.cap) (id : Nat) (st : ExitStatus) (Lb : Bytes) :
    ∀ rem : Bytes, PReadR K id st Lb rem := by
  intro rem
  induction rem with
  | nil =>
    intro fuel r e ws dC dO hC hf hb hs hid hsub
    obtain ⟨f, rfl⟩ : ∃ f, fuel = f + 4 := ⟨fuel - 4, by omega⟩
    show EOutR K id st Lb e (handlerPoll (f + 3 + 1) r
      { ops := .read 1 :: [.dropW 0, .dropW 1, .ret st], sub := .fresh, writers := wtab ws, propagate := true } e)
    rw [hp_read]
    rcases hpi : r.pollInput (some 1) e.mutex e.tr with ⟨r1, m1, t1, res⟩
    obtain ⟨s1, s2⟩ := read1_stepL hK h24 hb hs hpi
    cases res with
    | pending =>
      obtain ⟨⟨dO', hs'⟩, hw, ha⟩ := s2
      exact ⟨rfl, s1, Or.inl ⟨rfl, hw, ha, dC, [], ws, dO', hC, rfl, hs', hid, by obtain ⟨nw, en⟩ := s1.evp; exact sub_of_eq hsub en⟩⟩
    | err x => exact s2.elim
    | panic x => exact s2.elim
    | ready k d =>
      obtain ⟨hm1, hk, hwr, w, dO', hwl, hrq, hcase⟩ := s2
      subst hm1
      rcases hcase with ⟨x, rfl, rest, hrest⟩ | ⟨rfl, hdc, hdo, hpay, hpad, hwire⟩
      · exfalso
        rw [hC, List.append_nil] at hrest
        have := congrArg List.length hrest
        simp at this
      · simp only
        rw [hp_dropW]
        simp only [wtab, List.getD_cons_zero, List.set_cons_zero]
        rw [hp_dropW]
        simp only [List.getD_cons_succ, List.getD_cons_zero, List.set_cons_succ, List.set_cons_zero]
        rw [hp_ret]
        have hs1 : TStep e.tr (t1.ev s!"r={k}:{hexOrDash ([] : Bytes)}") :=
          s1.trans (TStep.ev _ (by simp [isHS, toString_str]))
        rw [List.append_nil] at hrq
        refine ⟨rfl, hs1, Or.inr (Or.inr ⟨rfl, rfl, ?_, ⟨w, ?_, ?_⟩, hpay, hpad, hwire, hwr, ?_⟩)⟩
        · show lockDrop (ws 1).lock (lockDrop (ws 0).lock none) = none
          rw [(hid 0).lock, (hid 1).lock]; rfl
        · show (t1.ev _).wlog = _
          rw [Transport.ev_wlog, hwl]
        · rw [← hdc, ← hdo]
          exact hrq.tr rfl
        · obtain ⟨nw, en⟩ := s1.evp
          subst hk
          show (rdEvs K.C ++ [rd0]).Sublist (t1.events ++ [rd0])
          rw [← hdc, en]
          exact (sub_app nw hsub).append (List.Sublist.refl _)
  | cons b bs ih =>
    intro fuel r e ws dC dO hC hf hb hs hid hsub
    obtain ⟨f, rfl⟩ : ∃ f, fuel = f + 1 := ⟨fuel - 1, by omega⟩
    show EOutR K id st Lb e (handlerPoll (f + 1) r
      { ops := .read 1 :: .writeAll 0 [b] :: echoOps bs st, sub := .fresh, writers := wtab ws, propagate := true } e)
    rw [hp_read]
    rcases hpi : r.pollInput (some 1) e.mutex e.tr with ⟨r1, m1, t1, res⟩
    obtain ⟨s1, s2⟩ := read1_stepL hK h24 hb hs hpi
    cases res with
    | pending =>
      obtain ⟨⟨dO', hs'⟩, hw, ha⟩ := s2
      exact ⟨rfl, s1, Or.inl ⟨rfl, hw, ha, dC, b :: bs, ws, dO', hC, rfl, hs', hid, by obtain ⟨nw, en⟩ := s1.evp; exact sub_of_eq hsub en⟩⟩
    | err x => exact s2.elim
    | panic x => exact s2.elim
    | ready k d =>
      obtain ⟨hm1, hk, hwr, w, dO', hwl, hrq, hcase⟩ := s2
      subst hm1
      rcases hcase with ⟨x, rfl, rest, hrest⟩ | ⟨rfl, hdc, _⟩
      · have hx : x = b := by
          rw [hC] at hrest
          have := List.append_cancel_left hrest
          exact (List.cons.inj this).1.symm
        subst hx
        simp only
        have hs1 : TStep e.tr (t1.ev s!"r={k}:{hexOrDash [x]}") :=
          s1.trans (TStep.ev _ (by simp [isHS, toString_str]))
        have hrq' : RQL K (outOf id (echoW dC)) r1 (t1.ev s!"r={k}:{hexOrDash [x]}") (dC ++ [x]) dO' w := hrq.tr rfl
        refine ((pwrite_of_preadR ih x) f r1 _ ws dC dO' .fresh (Lb ++ w) [] w hC (by
            show wcost ([x] : Bytes).length + 3 * bs.length + 8 ≤ f
            simp only [List.length_cons] at hf
            have : wcost ([x] : Bytes).length = 2 := by show wcost 1 = 2; decide
            omega) (hb.step hs1) hrq'
          (hid 1) ((hid 0).wst 0 [x]) (by
            show (t1.ev _).wlog = _
            rw [Transport.ev_wlog, hwl, List.append_nil]) rfl (by
            obtain ⟨nw, en⟩ := s1.evp
            subst hk
            show (rdEvs (dC ++ [x])).Sublist (t1.events ++ [rd1 x])
            rw [rdEvs_snoc, en]
            exact (sub_app nw hsub).append (List.Sublist.refl _))).after hs1 rfl
      · exfalso
        rw [hdc] at hC
        have := congrArg List.length hC
        simp at this

/-! ## The connection level -/

def TQR (g : Cfg) (c : Conn) : Prop := ∃ Lf, Led g Lf ∧ (rdEvs g.content ++ [rd0]).Sublist c.env.tr.events ∧ LE g Lf g.epi c
def AQR (g : Cfg) (c : Conn) : Prop := ∃ Lf, Led g Lf ∧ (rdEvs g.content ++ [rd0]).Sublist c.env.tr.events ∧ AfterE g Lf c
def FQR (g : Cfg) (c : Conn) : Prop := ∃ Lf, Led g Lf ∧ (rdEvs g.content ++ [rd0]).Sublist c.env.tr.events ∧ FinE g Lf c

/-- the handler at a `read` of the loop -/
def HERR (g : Cfg) (c : Conn) : Prop :=
  ∃ (r : AReq) (dC rem : Bytes) (ws : _root_.Fin 2 → Writer) (dO : Bytes), g.content = dC ++ rem ∧
    c.phase = .handler r { ops := echoOps rem g.st, sub := .fresh, writers := wtab ws, propagate := true } ∧
    RStL g.K g.L1 [] (outOf g.p.id (echoW dC)) r c.env.mutex c.env.tr dC dO ∧
    (∀ j : _root_.Fin 2, WIdle (6 + j.val) g.p.id (ws j)) ∧ (rdEvs dC).Sublist c.env.tr.events ∧
    Ben c.env.tr ∧ c.stop = false ∧ Ev1 g c.env.tr ∧ c.scripts = g.more

/-- the handler inside a `write_all` of the loop -/
def HEWR (g : Cfg) (c : Conn) : Prop :=
  ∃ (r : AReq) (h : HState) (dC : Bytes) (b : UInt8) (rem : Bytes) (ws : _root_.Fin 2 → Writer) (L sent dO w : Bytes),
    g.content = dC ++ b :: rem ∧ c.phase = .handler r h ∧
    h.ops = .writeAll 0 [b] :: echoOps rem g.st ∧ h.propagate = true ∧ h.writers = wtab ws ∧
    WIdle 7 g.p.id (ws 1) ∧ WSt2 6 0 g.p.id (ws 0) c.env.mutex (restOf h.sub [b]) sent ∧
    c.env.tr.wlog = L ++ sent ∧
    L ++ streamRecords 6 g.p.id (restOf h.sub [b]) = g.L1 ++ w ++ streamRecords 6 g.p.id [b] ∧
    RQL g.K (outOf g.p.id (echoW dC)) r c.env.tr (dC ++ [b]) dO w ∧ (rdEvs (dC ++ [b])).Sublist c.env.tr.events ∧
    Ben c.env.tr ∧ c.stop = false ∧ Ev1 g c.env.tr ∧ c.scripts = g.more

def S0R (g : Cfg) (c : Conn) : Prop := FStage g c ∨ HERR g c ∨ HEWR g c
def SR (g : Cfg) (c : Conn) : Prop := S0R g c ∨ TQR g c
abbrev RR (g : Cfg) (N : Nat) (c : Conn) : Prop := GRes3 (SR g) (AQR g) (FQR g) N c

theorem SR.cong {g : Cfg} (c c' : Conn) (h : SR g c)
    (hph : c'.phase = c.phase) (hsc : c'.scripts = c.scripts) (hstop : c'.stop = c.stop)
    (hm : c'.env.mutex = c.env.mutex) (hs : TrSame c.env.tr c'.env.tr) : SR g c' := by
  obtain ⟨nw, en, _⟩ := hs.ev
  rcases h with (h | ⟨r, dC, rem, ws, dO, h0, h1, h2, h3, hsub, h4, h5, h6, h7⟩ |
    ⟨r, h, dC, b, rem, ws, L, sent, dO, w, h0, h1, a1, a2, a3, a4, a5, a6, a7, a8, hsub, h4, h5, h6, h7⟩) | ⟨Lf, hl, hsub, h⟩
  · exact Or.inl (Or.inl (h.cong hph hsc hstop hm hs))
  · exact Or.inl (Or.inr (Or.inl ⟨r, dC, rem, ws, dO, h0, hph.trans h1, h2.cong hm hs.input hs.wlog, h3, sub_of_eq hsub en, hs.ben h4,
      hstop.trans h5, hs.ev1 h6, hsc.trans h7⟩))
  · exact Or.inl (Or.inr (Or.inr ⟨r, h, dC, b, rem, ws, L, sent, dO, w, h0, hph.trans h1, a1, a2, a3, a4, by rw [hm]; exact a5,
      by rw [hs.wlog]; exact a6, a7, a8.tr hs.input, sub_of_eq hsub en, hs.ben h4, hstop.trans h5, hs.ev1 h6, hsc.trans h7⟩))
  · exact Or.inr ⟨Lf, hl, sub_of_eq hsub en, h.cong hph hsc hstop hm hs⟩

theorem bdoneR {g : Cfg} {c : Conn} {r0 r : AReq} {h h' : HState} {e' : Run.Env}
    {w O1 : Bytes} (hph : c.phase = .handler r0 h)
    (heq : handlerPoll ((handlerFuel c.env r0 + scriptOf c)) r0 h c.env = (r, h', e', .done (.ok g.st)))
    (hws : h'.writers = [none, none]) (hm : e'.mutex = none)
    (hlog : e'.tr.wlog = g.L1 ++ w) (hil : Ilv w O1 (outOf g.p.id (echoW g.content)))
    (hfin : REnd g.N r e'.tr.input) (hO : O1 ++ r.sp.output = g.Ob)
    (hsub : (rdEvs g.content ++ [rd0]).Sublist e'.tr.events)
    (hts : TStep c.env.tr e'.tr) (hsg : e'.segs = c.env.segs)
    (hb : Ben c.env.tr) (hstop : c.stop = false) (hev : Ev1 g c.env.tr) (hsc : c.scripts = g.more) :
    RR g 3 c := by
  have hstep := C07.handler_step c r0 h hph
  rw [heq] at hstep
  have halive : (h'.writers.filter Option.isSome).length = 0 := by rw [hws]; rfl
  simp only [halive] at hstep
  have hstep' : stepConn c =
      .next ⟨.closing r .start g.st 0, e'.ev s!"HE(ok:{showStatus g.st})", c.scripts, c.stop⟩ := hstep
  have hts2 : TStep c.env.tr (e'.tr.ev s!"HE(ok:{showStatus g.st})") :=
    hts.trans (TStep.ev _ (by simp [isHS, toString_str]))
  obtain ⟨heq2, hce⟩ := close_start_eq (g := g) (r := r) (t := e'.tr.ev s!"HE(ok:{showStatus g.st})") hfin
  have hled : Led g (g.L1 ++ w ++ r.sp.output ++ g.epi) :=
    ⟨w ++ r.sp.output ++ g.epi, by simp only [List.append_assoc], by
      have := ((hil.rep r.sp.output).hnd g.epi)
      rw [hO] at this; exact this⟩
  have hcore := eclose_out (g := g) (Lf := g.L1 ++ w ++ r.sp.output ++ g.epi) (ep := g.epi)
    (c := ⟨.closing r .start g.st 0, e'.ev s!"HE(ok:{showStatus g.st})", c.scripts, c.stop⟩)
    (r := r) (r2 := closeReq r) (cs := .start) (rest := r.sp.output) rfl
    (by show closePoll r .start g.st 0 e'.mutex _ = closeP4 _ none _ _
        rw [hm]; exact heq2)
    (.refl _) hce
    (by show (e'.tr.ev _).wlog ++ r.sp.output ++ g.epi = _
        rw [Transport.ev_wlog, hlog])
    (hb.step hts2) hstop (hev.step hts2) hsc
  have hsub2 : (rdEvs g.content ++ [rd0]).Sublist (e'.tr.ev s!"HE(ok:{showStatus g.st})").events := sub_app _ hsub
  have hres : RR g 2 ⟨.closing r .start g.st 0, e'.ev s!"HE(ok:{showStatus g.st})", c.scripts, c.stop⟩ := hcore.impE
    (fun c' _ ⟨nw, en⟩ x => Or.inr ⟨_, hled, sub_of_eq hsub2 en, x⟩)
    (fun c' _ ⟨nw, en⟩ x => (⟨_, hled, sub_of_eq hsub2 en, x⟩ : AQR g c'))
    (fun c' _ ⟨nw, en⟩ x => (⟨_, hled, sub_of_eq hsub2 en, x⟩ : FQR g c'))
  exact (GRes3.of_steps (Steps.one hstep') ⟨hts2.w, hsg, rfl⟩ hres).mono (by omega)

theorem tq_pollR {g : Cfg} {c : Conn} (h : TQR g c) : RR g 2 c := by
  obtain ⟨Lf, hl, hsub, h⟩ := h
  exact (le_poll h).impE
    (fun c' _ ⟨nw, en⟩ x => Or.inr ⟨Lf, hl, sub_of_eq hsub en, x⟩)
    (fun c' _ ⟨nw, en⟩ x => ⟨Lf, hl, sub_of_eq hsub en, x⟩)
    (fun c' _ ⟨nw, en⟩ x => ⟨Lf, hl, sub_of_eq hsub en, x⟩)

/-- what a poll of the echo loop comes to -/
theorem eout_resR {g : Cfg} (ok : EOKL g) {c : Conn} {r0 : AReq} {h : HState}
    (hph : c.phase = .handler r0 h) {out : AReq × HState × Run.Env × HRes}
    (heq : handlerPoll ((handlerFuel c.env r0 + scriptOf c)) r0 h c.env = out)
    (ho : EOutR g.K g.p.id g.st g.L1 c.env out)
    (hb : Ben c.env.tr) (hstop : c.stop = false) (hev : Ev1 g c.env.tr) (hsc : c.scripts = g.more) :
    RR g 3 c := by
  obtain ⟨r', h', e', res⟩ := out
  obtain ⟨q0, q1, q2⟩ := ho
  simp only at q0 q1 q2
  rcases q2 with ⟨rfl, hwk, hans, dC, rem, ws, dO, hC, rfl, hrst, hid, hsub⟩ |
      ⟨rfl, hwk, hans, dC, b, rem, ws, L, sent, dO, w, hC, a1, a2, a3, a4, a5, a6, a7, a8, hsub⟩ |
      ⟨rfl, hws, hm, ⟨w, hlog, hrq⟩, hpay, hpad, hwire, hwr, hsub⟩
  · have hstep := C07.handler_step c r0 h hph
    rw [heq] at hstep
    have hstep' : stepConn c = .halt ⟨.handler r' _, e', c.scripts, c.stop⟩ .pending := hstep
    exact Or.inl (Or.inl ⟨_, (Halts.now hstep').mono (by omega), ⟨q1.w, q0, rfl⟩,
      Or.inl (Or.inr (Or.inl ⟨r', dC, rem, ws, dO, hC, rfl, hrst, hid, hsub, hb.step q1, hstop, hev.step q1, hsc⟩)), hwk, hans⟩)
  · have hstep := C07.handler_step c r0 h hph
    rw [heq] at hstep
    have hstep' : stepConn c = .halt ⟨.handler r' h', e', c.scripts, c.stop⟩ .pending := hstep
    exact Or.inl (Or.inl ⟨_, (Halts.now hstep').mono (by omega), ⟨q1.w, q0, rfl⟩,
      Or.inl (Or.inr (Or.inr ⟨r', h', dC, b, rem, ws, L, sent, dO, w, hC, rfl, a1, a2, a3, a4, a5, a6, a7, a8, hsub, hb.step q1, hstop,
        hev.step q1, hsc⟩)), hwk, hans⟩)
  · obtain ⟨G, hi⟩ := hrq.inv
    obtain ⟨O1, hO, hil⟩ := hrq.led
    have hfin : REnd g.N r' e'.tr.input := by
      have := REnd.of_read hi (hwr ok.kfin) hrq.lock hpay hpad hwire
      have hN : g.K.ectx = g.N := by simp [RCtx.ectx, Cfg.N, Cfg.K, ok.hX2, ok.hU]
      rw [hN] at this; exact this
    exact bdoneR hph heq hws hm hlog hil hfin hO hsub q1 q0 hb hstop hev hsc

theorem her_pollR {g : Cfg} (ok : EOKL g) {c : Conn} (h : HERR g c) : RR g 3 c := by
  obtain ⟨r, dC, rem, ws, dO, hC, hph, hrst, hid, hsub, hb, hstop, hev, hsc⟩ := h
  have hfuel := handlerFuel_ge c.env r
  have hsc0 : scriptOf c = 3 * rem.length + 4 := by rw [scriptOf_handler hph, scriptCost_echo]
  have h24 : 24 ≤ g.K.cap := cap24 g
  exact eout_resR ok hph rfl (pread_allR ok.kok h24 g.p.id g.st g.L1 rem _ r c.env ws dC dO hC (by omega) hb hrst hid hsub)
    hb hstop hev hsc

theorem hew_pollR {g : Cfg} (ok : EOKL g) {c : Conn} (h : HEWR g c) : RR g 3 c := by
  obtain ⟨r, ⟨ops, sub, wsl, pr⟩, dC, b, rem, ws, L, sent, dO, w, hC, hph, a1, a2, a3, a4, a5, a6, a7, a8, hsub, hb, hstop, hev, hsc⟩ := h
  simp only at a1 a2 a3 a5 a7
  subst a1 a2 a3
  have hfuel := handlerFuel_ge c.env r
  have h24 : 24 ≤ g.K.cap := cap24 g
  have hsc0 : scriptOf c = curCost sub (.writeAll 0 [b]) + (3 * rem.length + 4) := by
    rw [scriptOf_handler hph]
    have := scriptCost_echo rem g.st (wtab ws) true
    rw [scriptCost_fresh] at this
    simp only [scriptCost, this]
  have hwc := wcost_le_cur sub b
  exact eout_resR ok hph rfl (pwrite_of_preadR (pread_allR ok.kok h24 g.p.id g.st g.L1 rem) b _ r c.env ws dC dO sub L sent w
    hC (by omega) hb a8 a4 a5 a6 a7 hsub) hb hstop hev hsc

/-- the first poll of the handler: both writers are opened, then the loop -/
theorem echo_firstR {g : Cfg} (ok : EOKL g) (c : Conn) (hc : FirstCfg g c) : RR g 6 c := by
  obtain ⟨e1, hph, hlen, hwire, hlog, hm, hb, hstop, hev, hsc⟩ := hc
  have hrole : g.p.request.role = 1 := ok.role
  have hstart : C03SI.Start g.K.E (Str.Parser.fromParser g.cap g.p.request e1 g.mc) :=
    C03SI.start_fresh g.cap g.p.request e1 g.mc hlen ok.hid (Or.inl hrole)
  have hrinv : RInv g.K (AReq.new (Str.Parser.fromParser g.cap g.p.request e1 g.mc)) e1 c.env.tr.input [] [] := by
    refine ⟨hstart.mtch, hstart.inv, rfl, rfl, rfl, hwire, fun x => ?_⟩
    have := C03SI.rem_start hstart x
    show refWire g.K.E (e1 ++ x) = (Rem g.K.E (Str.Parser.fromParser g.cap g.p.request e1 g.mc) x).pre [] []
    rw [this]; rfl
  rw [ok.hs] at hph
  have hwr : (AReq.new (Str.Parser.fromParser g.cap g.p.request e1 g.mc)).writeable = true := by
    simp [AReq.new, Str.Parser.fromParser, hrole, inputStreams]
  have hfuel := handlerFuel_ge c.env (AReq.new (Str.Parser.fromParser g.cap g.p.request e1 g.mc))
  have hsc0 : scriptOf c = 2 + (3 * g.content.length + 4) := by
    rw [scriptOf_handler hph]
    have := scriptCost_echo g.content g.st [] true
    rw [scriptCost_fresh] at this
    rw [scriptCost_fresh]
    simp only [echoScript, List.map_cons, List.sum_cons, opCost, this]
    omega
  have h24 : 24 ≤ g.K.cap := cap24 g
  refine (eout_resR ok hph rfl ?_ hb hstop hev hsc).mono (by omega)
  obtain ⟨f2, hf2⟩ : ∃ f2, (handlerFuel c.env (AReq.new (Str.Parser.fromParser g.cap g.p.request e1 g.mc)) + scriptOf c) = f2 + 2 :=
    ⟨(handlerFuel c.env (AReq.new (Str.Parser.fromParser g.cap g.p.request e1 g.mc)) + scriptOf c) - 2, by omega⟩
  rw [hf2]
  show EOutR g.K g.p.id g.st g.L1 c.env (handlerPoll (f2 + 1 + 1) _
    { ops := .open_ 6 :: .open_ 7 :: echoOps g.content g.st, sub := .fresh, writers := [], propagate := true } c.env)
  rw [hp_open]
  rw [if_neg (by simp [hwr, outputStreams, RT.stdout, RT.stderr])]
  rw [hp_open]
  rw [if_neg (by simp [hwr, outputStreams, RT.stdout, RT.stderr])]
  have hs1 : TStep c.env.tr ((c.env.ev s!"o=w{([] : List (Option Writer)).length}").ev
      s!"o=w{(([] : List (Option Writer)) ++ [some ({ rtype := 6, id := (AReq.new (Str.Parser.fromParser g.cap g.p.request e1 g.mc)).sp.request.id } : Writer)]).length}").tr :=
    (TStep.ev _ (by decide)).trans (TStep.ev _ (by simp [isHS, toString_str]))
  refine (pread_allR ok.kok h24 g.p.id g.st g.L1 g.content f2 _ _
    (fun j => if j = 0 then { rtype := 6, id := g.p.id } else { rtype := 7, id := g.p.id }) [] [] rfl (by omega)
    (hb.step hs1) ?_ (fun j => by
      match j with
      | ⟨0, _⟩ => exact ⟨rfl, rfl, rfl, rfl⟩
      | ⟨1, _⟩ => exact ⟨rfl, rfl, rfl, rfl⟩) (List.nil_sublist _)).after hs1 rfl
  refine ⟨[], [], ?_, .nil, ⟨e1, hrinv⟩, by rw [show ((c.env.ev _).ev _).mutex = c.env.mutex from rfl, hm]; exact lockInv_free rfl,
    Or.inl hm, ⟨[], rfl, rfl⟩⟩
  show ((c.env.tr.ev _).ev _).wlog = _
  rw [Transport.ev_wlog, Transport.ev_wlog, hlog, List.append_nil]

theorem sr_poll {g : Cfg} (ok : EOKL g) {c : Conn} (h : SR g c) : RR g (2 * c.env.tr.input.length + 15) c := by
  rcases h with (h | h | h) | h
  · exact fstage_poll3 ok.fok (fun _ h => Or.inl (Or.inl h)) (echo_firstR ok) h
  · exact (her_pollR ok h).mono (by omega)
  · exact (hew_pollR ok h).mono (by omega)
  · exact (tq_pollR h).mono (by omega)

/-- **The executor** for the echo Responder with any noise, with the read events. -/
theorem run_echoR {g : Cfg} (ok : EOKL g) {Z : Bytes}
    (hns : NoStuckW g.cap g.mc (g.U ++ Z))
    (hNF : ∀ F x, F ++ x ++ Z = g.U ++ Z → (run .header F g.mc).st.isFinal = false)
    (em : EndMode) (evs0 : List String) (c : Conn) (n0 fuel : Nat) (hst : FStage g c)
    (hem : c.env.tr.endMode = em) (hev0 : ∀ s ∈ evs0, s ∈ c.env.tr.events)
    (hsegs : c.env.segs = []) (hf : ans c.env.tr + 1 ≤ fuel) :
    ∃ c'' fin, runTask fuel c n0 none = (c'', fin) ∧
      ((GEnd g.cap g.mc Z g.more (g.hs0 + 1)
          (fun Lf : Bytes => g.p.flags.toNat % 2 = 1 ∧ Led g Lf)
          (fun _ => g.U ++ Z) (fun Lf => Lf)
          (fun _ => [hsEvent g.p.request]) em evs0 (ans c.env.tr) c'' fin ∧
          (rdEvs g.content ++ [rd0]).Sublist c''.env.tr.events) ∨
       (fin = "RET" ∧ FQR g c'' ∧ c''.env.tr.endMode = em ∧ (∀ s ∈ evs0, s ∈ c''.env.tr.events))) :=
  run_stages3E (cap24 g) (rdEvs g.content ++ [rd0]) (fun _ _ => hns) (fun _ _ => hNF)
    (fun c c' h => SR.cong c c' h)
    (fun _ h => (sr_poll ok h).imp (fun _ _ h => h) (fun c1 _ h => by
      obtain ⟨Lf, hl, hsub, haf⟩ := h
      obtain ⟨raw, hph, hw, hraw⟩ := haf.ph
      exact ⟨⟨Lf, ⟨haf.keep, hl⟩,
        Or.inr ⟨raw, hph, by rw [hw], hraw, haf.log, haf.ben, haf.stop⟩,
        ⟨haf.sc, haf.mtx, haf.ev.1, fun s hs => by rw [List.mem_singleton.1 hs]; exact haf.ev.2⟩⟩, hsub⟩) (fun _ _ h => h))
    em evs0 c n0 fuel (Or.inl (Or.inl hst)) hem hev0 hsegs hf

end Fcgi.E2E
