import Fcgi.Proofs.ReqRef
import Fcgi.Proofs.ReqRemainder
/-!
# The request parser on an unfinished tail (no complete version-1 record in front)

`reqTail mc ph tail` — replies, phase and (for a final phase) unconsumed input of the loop resting
in phase `ph` on a byte string that does not start with a complete version-1 record: fewer than 8
bytes; a version byte ≠ 1; or a version-1 header whose payload + padding is incomplete.
`run_tail` — the loop does exactly that.
-/
namespace Fcgi.Req
open Fcgi Fcgi.Spec

/-! ## Bodies cut short -/

theorem run_skip_short (c : Ctx) {pay pad : Nat} {X : Bytes} (mc : Nat) (hl : X.length < pay + pad) :
    (run (c.intoSkip pay pad) X mc).out = [] ∧
      phaseOf (run (c.intoSkip pay pad) X mc).st = ctxPhase c := by
  have hne : ¬ ((pay == 0 && pad == 0) = true) := by
    simp only [Bool.and_eq_true, beq_iff_eq]; omega
  unfold Ctx.intoSkip
  rw [if_neg hne]
  by_cases h1 : X.length < pay
  · have hs : step (.skip c pay pad) X mc = (.brk [] (.skip c (pay - X.length) pad), []) := by
      simp only [step, skipDrive, if_pos h1]
    rw [run_brk (st := .skip c pay pad) rfl hs]; exact ⟨rfl, rfl⟩
  · have hs : step (.skip c pay pad) X mc = (.brk [] (.skip c 0 (pad - (X.length - pay))), []) := by
      simp only [step, skipDrive, if_neg h1, if_pos hl]
      rw [if_pos (by omega)]
    rw [run_brk (st := .skip c pay pad) rfl hs]; exact ⟨rfl, rfl⟩

theorem skip_phase (c : Ctx) (pay pad : Nat) : phaseOf (c.intoSkip pay pad) =
    if (pay == 0 && pad == 0) = true then phaseOf c.intoState else ctxPhase c := by
  unfold Ctx.intoSkip; split <;> rfl

/-- A fresh `GetValuesState` on an incomplete body + padding: the reply exactly when the body is
complete (and non-empty). -/
theorem run_values_short (c : Ctx) (hd : ∀ r, c ≠ .dn r) {pay pad : Nat} {X : Bytes} (mc : Nat)
    (hl : X.length < pay + pad) :
    (run (.values c 0 pay pad) X mc).out =
        (if 0 < pay ∧ pay ≤ X.length then valuesReply (X.take pay) mc else []) ∧
      phaseOf (run (.values c 0 pay pad) X mc).st = ctxPhase c := by
  by_cases hp : 0 < pay
  · by_cases h1 : X.length < pay
    · have hs := valuesDrive_lt (c := c) (vars := 0) (pad := pad) (mc := mc) hp h1
      rw [← step_values hd] at hs
      rw [run_brk (st := .values c 0 pay pad) rfl hs, if_neg (by omega)]
      exact ⟨rfl, rfl⟩
    · have hs := valuesDrive_ge (c := c) (vars := 0) (pad := pad) (mc := mc) (d := X) hp (by omega)
      rw [if_pos (by simp only [List.length_drop]; omega), ← step_values hd] at hs
      rw [run_brk (st := .values c 0 pay pad) rfl hs, if_pos ⟨hp, by omega⟩]
      refine ⟨?_, rfl⟩
      have hne : (X.take pay).isEmpty = false := by
        cases X with
        | nil => simp at h1; omega
        | cons a t => cases pay with
          | zero => omega
          | succ n => rfl
      simp [valuesReply, hne]
  · have h0 : pay = 0 := by omega
    subst h0
    have hs := valuesDrive_zero (c := c) (vars := 0) (pad := pad) (mc := mc) (d := X)
    rw [if_pos (by omega), ← step_values hd] at hs
    rw [run_brk (st := .values c 0 0 pad) rfl hs, if_neg (by omega)]
    exact ⟨rfl, rfl⟩

/-- A `ParamsState` inside a record on fewer bytes than payload + padding: no output, same
request. -/
theorem run_params_short {i : Inner} {pay pad : Nat} {X : Bytes} (mc : Nat)
    (hl : X.length < pay + pad) :
    (run (.params i pay pad) X mc).out = [] ∧
      phaseOf (run (.params i pay pad) X mc).st = .params i.req.id := by
  by_cases hp : 0 < pay
  · by_cases h1 : X.length < pay
    · obtain ⟨i', n, hps, _, _, _⟩ := parseStream_ok i X false
      have hs : step (.params i pay pad) X mc =
          (.brk (X.drop n) (.params i' (pay - n) pad), []) := by
        rw [step_params, paramsDrive_eq, payloadPhase_lt hp h1 hps]
      rw [run_brk (st := .params i pay pad) rfl hs]
      exact ⟨rfl, by simp only [phaseOf]; rw [parseStream_id hps]⟩
    · obtain ⟨i', n, hps, _, _, _⟩ := parseStream_ok i (X.take pay) true
      have hpad : 0 < pad := by omega
      have hle : (X.drop pay).length ≤ pad := by simp only [List.length_drop]; omega
      have hs : step (.params i pay pad) X mc =
          (.brk [] (.params i' 0 (pad - (X.drop pay).length)), []) := by
        rw [step_params, paramsDrive_eq, payloadPhase_ge hp (by omega) hps]
        simp only [padPhase, gt_iff_lt, hpad, if_true, hle]
      rw [run_brk (st := .params i pay pad) rfl hs]
      exact ⟨rfl, by simp only [phaseOf]; rw [parseStream_id hps]⟩
  · have h0 : pay = 0 := by omega
    subst h0
    have hpad : 0 < pad := by omega
    have hle : X.length ≤ pad := by omega
    have hs : step (.params i 0 pad) X mc = (.brk [] (.params i 0 (pad - X.length)), []) := by
      rw [step_params, paramsDrive_eq, payloadPhase_zero]
      simp only [padPhase, gt_iff_lt, hpad, if_true, hle]
    rw [run_brk (st := .params i 0 pad) rfl hs]
    exact ⟨rfl, rfl⟩

/-- One `Continue`, then a run whose output and phase are known. -/
theorem run_cont_op {st s : State} {d r o o' : Bytes} {mc : Nat} {ph : Phase} (hw : WFState st)
    (h : step st d mc = (.cont r s, o))
    (hP : (run s r mc).out = o' ∧ phaseOf (run s r mc).st = ph)
    (h0 : r = [] → o' = [] ∧ phaseOf s = ph) :
    (run st d mc).out = o ++ o' ∧ phaseOf (run st d mc).st = ph := by
  by_cases hr : r = []
  · subst hr
    rw [run_cont_empty h]
    obtain ⟨a, b⟩ := h0 rfl
    subst a
    exact ⟨by simp, b⟩
  · rw [run_cont hw h hr]
    exact ⟨by simp [hP.1], hP.2⟩

/-! ## The header of a record, on raw bytes -/

theorem tryHead_cons8 (c : Ctx) (b0 b1 b2 b3 b4 b5 b6 b7 : UInt8) (rest : Bytes) :
    tryHead c (b0 :: b1 :: b2 :: b3 :: b4 :: b5 :: b6 :: b7 :: rest) =
      if b0.toNat ≠ 1 then .fatal (.unknownVersion b0)
      else if RT.valid b1.toNat = false then
        .unknownType (UnknownType.toRecord b1 (be16 b2 b3)) (c.intoSkip (be16 b4 b5) b6.toNat)
      else .ok { rtype := b1.toNat, requestId := be16 b2 b3, contentLength := be16 b4 b5,
                 paddingLength := b6.toNat } := by
  simp only [tryHead, Str.fromBytes8]
  by_cases hv : b0.toNat ≠ 1
  · simp only [if_pos hv]
  · simp only [if_neg hv]
    by_cases hval : RT.valid b1.toNat = false
    · simp [hval]
    · have : RT.valid b1.toNat = true := by simpa using hval
      simp [this]

/-- The replies, the phase and (for a final phase) the unconsumed input on an unfinished tail. -/
structure QTail where
  out : Bytes
  phase : Phase
  unread : Bytes
deriving DecidableEq, Repr

/-- **The unfinished tail**, in the order of the checks of `HeaderState::drive` /
`ParamsState::drive`: fewer than 8 bytes → wait; version ≠ 1 → fatal `UnknownVersion`, nothing
consumed; unknown type → `UnknownType` at once; then, idle: BeginRequest with length ≠ 8 → fatal
`InvalidRequestLen` (from the header alone), fewer than 8 body bytes → wait (nothing consumed),
unknown role → `EndRequest(UnknownRole)`, id 0 → fatal `NullRequest`, else the request starts;
management GetValues → `GetValuesResult` once the body is complete; Params stream: own Params /
AbortRequest (`EndRequest` at once) / foreign BeginRequest (`EndRequest(CantMpxConn)` at once) /
management GetValues / anything else. -/
def reqTail (mc : Nat) (ph : Phase) (tail : Bytes) : QTail :=
  match tail with
  | b0 :: b1 :: b2 :: b3 :: b4 :: b5 :: _ :: _ :: rest =>
    if b0.toNat ≠ 1 then ⟨[], .fatal (.unknownVersion b0), tail⟩
    else if RT.valid b1.toNat = false then ⟨UnknownType.toRecord b1 (be16 b2 b3), ph, []⟩
    else
      match ph with
      | .idle =>
        if b1.toNat = RT.beginRequest then
          if be16 b4 b5 ≠ 8 then ⟨[], .fatal (.invalidRequestLen (be16 b4 b5)), tail⟩
          else
            match rest with
            | c0 :: c1 :: _ :: _ :: _ :: _ :: _ :: _ :: rest' =>
              if roleValid (be16 c0 c1) = false then
                ⟨EndRequest.toRecord { appStatus := 0, protocolStatus := 3 } (be16 b2 b3), .idle, []⟩
              else if be16 b2 b3 = 0 then ⟨[], .fatal .nullRequest, rest'⟩
              else ⟨[], .params (be16 b2 b3), []⟩
            | _ => ⟨[], .idle, tail⟩
        else if b1.toNat = RT.getValues ∧ be16 b2 b3 = 0 then
          ⟨if 0 < be16 b4 b5 ∧ be16 b4 b5 ≤ rest.length then valuesReply (rest.take (be16 b4 b5)) mc
            else [], .idle, []⟩
        else ⟨[], .idle, []⟩
      | .params id =>
        if b1.toNat = RT.params ∧ be16 b2 b3 = id then
          (if be16 b4 b5 = 0 then ⟨[], .finishing id, []⟩ else ⟨[], .params id, []⟩)
        else if b1.toNat = RT.abortRequest ∧ be16 b2 b3 = id then
          ⟨EndRequest.toRecord { appStatus := 0, protocolStatus := 0 } id, .idle, []⟩
        else if b1.toNat = RT.beginRequest ∧ be16 b2 b3 ≠ id then
          ⟨EndRequest.toRecord { appStatus := 0, protocolStatus := 1 } (be16 b2 b3), .params id, []⟩
        else if b1.toNat = RT.getValues ∧ be16 b2 b3 = 0 then
          ⟨if 0 < be16 b4 b5 ∧ be16 b4 b5 ≤ rest.length then valuesReply (rest.take (be16 b4 b5)) mc
            else [], .params id, []⟩
        else ⟨[], .params id, []⟩
      | ph => ⟨[], ph, tail⟩
  | _ => ⟨[], ph, tail⟩


/-! ## The loop on an unfinished tail -/

theorem cons8' {w : Bytes} (h : ¬ w.length < 8) :
    ∃ b0 b1 b2 b3 b4 b5 b6 b7 rest, w = b0 :: b1 :: b2 :: b3 :: b4 :: b5 :: b6 :: b7 :: rest := by
  match w, h with
  | b0 :: b1 :: b2 :: b3 :: b4 :: b5 :: b6 :: b7 :: rest, _ => exact ⟨_, _, _, _, _, _, _, _, _, rfl⟩
  | [], h | [_], h | [_, _], h | [_, _, _], h | [_, _, _, _], h | [_, _, _, _, _], h
  | [_, _, _, _, _, _], h | [_, _, _, _, _, _, _], h => simp at h

theorem reqTail_short (mc : Nat) (ph : Phase) {tail : Bytes} (h : tail.length < 8) :
    reqTail mc ph tail = ⟨[], ph, tail⟩ := by
  unfold reqTail
  split
  · simp only [List.length_cons] at h; omega
  · rfl

theorem phase_hdr_skip (pay pad : Nat) : phaseOf (Ctx.hdr.intoSkip pay pad) = .idle := by
  rw [skip_phase]; split <;> rfl

theorem phase_par_skip (i : Inner) (pay pad : Nat) :
    phaseOf ((Ctx.par i).intoSkip pay pad) = .params i.req.id := by
  rw [skip_phase]; split <;> rfl

/-- Idle. -/
theorem run_tail_idle (mc : Nat) {tail : Bytes} (ht : Str.nextRec tail = none) :
    (run .header tail mc).out = (reqTail mc .idle tail).out ∧
    phaseOf (run .header tail mc).st = (reqTail mc .idle tail).phase ∧
    ((reqTail mc .idle tail).phase.isFinal = true →
      (run .header tail mc).rem = (reqTail mc .idle tail).unread) := by
  have hw : WFState .header := trivial
  rcases (Str.nextRec_none_iff tail).1 ht with hl | ⟨b0, b1, b2, b3, b4, b5, b6, b7, rest, rfl, hc⟩
  · rw [reqTail_short mc .idle hl]
    have hs : step .header tail mc = (.brk tail .header, []) := by
      simp only [step_header, headerDrive]
      have : tryHead .hdr tail = .short := by
        unfold tryHead
        split
        · simp only [List.length_cons] at hl; omega
        · rfl
      rw [this]
    rw [run_brk (st := .header) rfl hs]
    exact ⟨rfl, rfl, fun h => by cases h⟩
  · by_cases hv : b0.toNat ≠ 1
    · have hs : step .header (b0 :: b1 :: b2 :: b3 :: b4 :: b5 :: b6 :: b7 :: rest) mc =
          (.brk (b0 :: b1 :: b2 :: b3 :: b4 :: b5 :: b6 :: b7 :: rest)
            (.fatal (.unknownVersion b0)), []) := by
        simp only [step_header, headerDrive, tryHead_cons8, if_pos hv]
      rw [run_brk (st := .header) rfl hs]
      have hm : reqTail mc .idle (b0 :: b1 :: b2 :: b3 :: b4 :: b5 :: b6 :: b7 :: rest) = ⟨[], .fatal (.unknownVersion b0), b0 :: b1 :: b2 :: b3 :: b4 :: b5 :: b6 :: b7 :: rest⟩ := by
        simp only [reqTail, if_pos hv]
      rw [hm]
      exact ⟨rfl, rfl, fun _ => rfl⟩
    · have htr : rest.length < be16 b4 b5 + b6.toNat := by
        rcases hc with hc | hc
        · exact absurd hc hv
        · exact hc
      by_cases hval : RT.valid b1.toNat = false
      · have hs : step .header (b0 :: b1 :: b2 :: b3 :: b4 :: b5 :: b6 :: b7 :: rest) mc =
            (.cont rest (Ctx.hdr.intoSkip (be16 b4 b5) b6.toNat),
              UnknownType.toRecord b1 (be16 b2 b3)) := by
          simp only [step_header, headerDrive, tryHead_cons8, if_neg hv, if_pos hval]
          rfl
        obtain ⟨a1, a2⟩ := run_cont_op hw hs (run_skip_short Ctx.hdr mc htr)
          (fun _ => ⟨rfl, phase_hdr_skip _ _⟩)
        have hm : reqTail mc .idle (b0 :: b1 :: b2 :: b3 :: b4 :: b5 :: b6 :: b7 :: rest) = ⟨UnknownType.toRecord b1 (be16 b2 b3), .idle, []⟩ := by
          simp only [reqTail, if_neg hv, if_pos hval]
        rw [hm]
        exact ⟨by simpa using a1, a2, fun h => by cases h⟩
      · have hval' : RT.valid b1.toNat = true := by simpa using hval
        by_cases hb : b1.toNat = RT.beginRequest
        · by_cases hlen : be16 b4 b5 ≠ 8
          · have hs : step .header (b0 :: b1 :: b2 :: b3 :: b4 :: b5 :: b6 :: b7 :: rest) mc =
                (.brk (b0 :: b1 :: b2 :: b3 :: b4 :: b5 :: b6 :: b7 :: rest)
                  (.fatal (.invalidRequestLen (be16 b4 b5))), []) := by
              simp only [step_header, headerDrive, tryHead_cons8, if_neg hv, if_neg hval]
              simp [hb, hlen]
            rw [run_brk (st := .header) rfl hs]
            have hm : reqTail mc .idle (b0 :: b1 :: b2 :: b3 :: b4 :: b5 :: b6 :: b7 :: rest) = ⟨[], .fatal (.invalidRequestLen (be16 b4 b5)), b0 :: b1 :: b2 :: b3 :: b4 :: b5 :: b6 :: b7 :: rest⟩ := by
              simp only [reqTail, if_neg hv, if_neg hval, if_pos hb, if_pos hlen]
            rw [hm]
            exact ⟨rfl, rfl, fun _ => rfl⟩
          · have hlen' : be16 b4 b5 = 8 := by simpa using hlen
            by_cases hr8 : rest.length < 8
            · have hs : step .header (b0 :: b1 :: b2 :: b3 :: b4 :: b5 :: b6 :: b7 :: rest) mc =
                  (.brk (b0 :: b1 :: b2 :: b3 :: b4 :: b5 :: b6 :: b7 :: rest) .header, []) := by
                simp only [step_header, headerDrive, tryHead_cons8, if_neg hv, if_neg hval]
                simp [hb, hlen']
                omega
              rw [run_brk (st := .header) rfl hs]
              have hm : reqTail mc .idle (b0 :: b1 :: b2 :: b3 :: b4 :: b5 :: b6 :: b7 :: rest) =
                  ⟨[], .idle, b0 :: b1 :: b2 :: b3 :: b4 :: b5 :: b6 :: b7 :: rest⟩ := by
                simp only [reqTail, if_neg hv, if_neg hval, if_pos hb, if_neg hlen]
                split
                · simp only [List.length_cons] at hr8; omega
                · rfl
              rw [hm]
              exact ⟨rfl, rfl, fun h => by cases h⟩
            · obtain ⟨c0, c1, c2, c3, c4, c5, c6, c7, rest', rfl⟩ := cons8' hr8
              have htr' : rest'.length < b6.toNat := by
                simp only [List.length_cons] at htr; omega
              by_cases hrole : roleValid (be16 c0 c1) = false
              · have hs : step .header (b0 :: b1 :: b2 :: b3 :: b4 :: b5 :: b6 :: b7 ::
                    c0 :: c1 :: c2 :: c3 :: c4 :: c5 :: c6 :: c7 :: rest') mc =
                    (.cont rest' (Ctx.hdr.intoSkip 0 b6.toNat),
                      EndRequest.toRecord { appStatus := 0, protocolStatus := 3 } (be16 b2 b3)) := by
                  simp only [step_header, headerDrive, tryHead_cons8, if_neg hv, if_neg hval]
                  simp [hb, hlen', BeginRequest.fromBytes, hrole]
                obtain ⟨a1, a2⟩ := run_cont_op hw hs
                  (run_skip_short Ctx.hdr (pay := 0) mc (by omega))
                  (fun _ => ⟨rfl, phase_hdr_skip _ _⟩)
                have hm : reqTail mc .idle (b0 :: b1 :: b2 :: b3 :: b4 :: b5 :: b6 :: b7 :: c0 :: c1 :: c2 :: c3 :: c4 :: c5 :: c6 :: c7 :: rest') = ⟨EndRequest.toRecord { appStatus := 0, protocolStatus := 3 } (be16 b2 b3), .idle, []⟩ := by
                  simp only [reqTail, if_neg hv, if_neg hval, if_pos hb, if_neg hlen, if_pos hrole]
                rw [hm]
                exact ⟨by simpa using a1, a2, fun h => by cases h⟩
              · have hrole' : roleValid (be16 c0 c1) = true := by simpa using hrole
                by_cases hid : be16 b2 b3 = 0
                · have hs : step .header (b0 :: b1 :: b2 :: b3 :: b4 :: b5 :: b6 :: b7 ::
                      c0 :: c1 :: c2 :: c3 :: c4 :: c5 :: c6 :: c7 :: rest') mc =
                      (.brk rest' (.fatal .nullRequest), []) := by
                    simp only [step_header, headerDrive, tryHead_cons8, if_neg hv, if_neg hval]
                    simp [hb, hlen', BeginRequest.fromBytes, hrole', hid]
                  rw [run_brk (st := .header) rfl hs]
                  have hm : reqTail mc .idle (b0 :: b1 :: b2 :: b3 :: b4 :: b5 :: b6 :: b7 :: c0 :: c1 :: c2 :: c3 :: c4 :: c5 :: c6 :: c7 :: rest') = ⟨[], .fatal .nullRequest, rest'⟩ := by
                    simp only [reqTail, if_neg hv, if_neg hval, if_pos hb, if_neg hlen, if_neg hrole,
                    if_pos hid]
                  rw [hm]
                  exact ⟨rfl, rfl, fun _ => rfl⟩
                · have hs : step .header (b0 :: b1 :: b2 :: b3 :: b4 :: b5 :: b6 :: b7 ::
                      c0 :: c1 :: c2 :: c3 :: c4 :: c5 :: c6 :: c7 :: rest') mc =
                      (.cont rest' (.params ⟨Request.new (be16 b2 b3) ⟨be16 c0 c1, c2⟩, []⟩ 0 b6.toNat), []) := by
                    simp only [step_header, headerDrive, tryHead_cons8, if_neg hv, if_neg hval]
                    simp [hb, hlen', BeginRequest.fromBytes, hrole', hid]
                  obtain ⟨a1, a2⟩ := run_cont_op hw hs
                    (run_params_short (pay := 0) mc (by omega)) (fun _ => ⟨rfl, rfl⟩)
                  have hm : reqTail mc .idle (b0 :: b1 :: b2 :: b3 :: b4 :: b5 :: b6 :: b7 :: c0 :: c1 :: c2 :: c3 :: c4 :: c5 :: c6 :: c7 :: rest') = ⟨[], .params (be16 b2 b3), []⟩ := by
                    simp only [reqTail, if_neg hv, if_neg hval, if_pos hb, if_neg hlen, if_neg hrole,
                    if_neg hid]
                  rw [hm]
                  exact ⟨by simpa using a1, a2, fun h => by cases h⟩
        · by_cases hg : b1.toNat = RT.getValues ∧ be16 b2 b3 = 0
          · have hs : step .header (b0 :: b1 :: b2 :: b3 :: b4 :: b5 :: b6 :: b7 :: rest) mc =
                (.cont rest (.values .hdr 0 (be16 b4 b5) b6.toNat), []) := by
              simp only [step_header, headerDrive, tryHead_cons8, if_neg hv, if_neg hval]
              simp [hg.1, hg.2, RT.getValues, RT.beginRequest, RecordHeader.isManagement,
                RT.isManagement]
            obtain ⟨a1, a2⟩ := run_cont_op hw hs
              (run_values_short .hdr (by intro r; simp) mc htr)
              (fun h0 => ⟨by subst h0; rw [if_neg]; simp; omega, rfl⟩)
            have hm : reqTail mc .idle (b0 :: b1 :: b2 :: b3 :: b4 :: b5 :: b6 :: b7 :: rest) = ⟨if 0 < be16 b4 b5 ∧ be16 b4 b5 ≤ rest.length then valuesReply (rest.take (be16 b4 b5)) mc else [], .idle, []⟩ := by
              simp only [reqTail, if_neg hv, if_neg hval, if_neg hb, if_pos hg]
            rw [hm]
            exact ⟨by simpa using a1, a2, fun h => by cases h⟩
          · have hs : step .header (b0 :: b1 :: b2 :: b3 :: b4 :: b5 :: b6 :: b7 :: rest) mc =
                (.cont rest (Ctx.hdr.intoSkip (be16 b4 b5) b6.toNat), []) := by
              simp only [step_header, headerDrive, tryHead_cons8, if_neg hv, if_neg hval]
              have h1 : (b1.toNat == RT.beginRequest) = false := by simpa using hb
              have h2 : (b1.toNat == RT.getValues && RecordHeader.isManagement { rtype := b1.toNat, requestId := be16 b2 b3, contentLength := be16 b4 b5, paddingLength := b6.toNat }) = false := by
                cases hx : b1.toNat == RT.getValues with
                | false => rfl
                | true =>
                  simp only [beq_iff_eq] at hx
                  simp only [Bool.true_and, RecordHeader.isManagement, Bool.and_eq_false_iff,
                    beq_eq_false_iff_ne, ne_eq]
                  exact Or.inr fun he => hg ⟨hx, he⟩
              simp only [h1, h2, Bool.false_eq_true, if_false]
              rfl
            obtain ⟨a1, a2⟩ := run_cont_op hw hs (run_skip_short Ctx.hdr mc htr)
              (fun _ => ⟨rfl, phase_hdr_skip _ _⟩)
            have hm : reqTail mc .idle (b0 :: b1 :: b2 :: b3 :: b4 :: b5 :: b6 :: b7 :: rest) = ⟨[], .idle, []⟩ := by
              simp only [reqTail, if_neg hv, if_neg hval, if_neg hb, if_neg hg]
            rw [hm]
            exact ⟨by simpa using a1, a2, fun h => by cases h⟩


theorem band_false_of_not {a b : Nat} {c d : Nat} (h : ¬ (a = b ∧ c = d)) : (a == b && c == d) = false := by
  cases hx : a == b with
  | false => rfl
  | true =>
    simp only [beq_iff_eq] at hx
    simp only [Bool.true_and, beq_eq_false_iff_ne, ne_eq]
    exact fun he => h ⟨hx, he⟩

/-- During the Params stream of request `i.req.id`. -/
theorem run_tail_params (mc : Nat) (i : Inner) (hi : InnerOK i) {tail : Bytes}
    (ht : Str.nextRec tail = none) :
    (run (.params i 0 0) tail mc).out = (reqTail mc (.params i.req.id) tail).out ∧
    phaseOf (run (.params i 0 0) tail mc).st = (reqTail mc (.params i.req.id) tail).phase ∧
    ((reqTail mc (.params i.req.id) tail).phase.isFinal = true →
      (run (.params i 0 0) tail mc).rem = (reqTail mc (.params i.req.id) tail).unread) := by
  have hw : WFState (.params i 0 0) := wf_params_zero hi
  rcases (Str.nextRec_none_iff tail).1 ht with hl | ⟨b0, b1, b2, b3, b4, b5, b6, b7, rest, rfl, hc⟩
  · rw [reqTail_short mc _ hl]
    have hs : step (.params i 0 0) tail mc = (.brk tail (.params i 0 0), []) := by
      simp only [step_params_zero, recPhase]
      have : tryHead (.par i) tail = .short := by
        unfold tryHead
        split
        · simp only [List.length_cons] at hl; omega
        · rfl
      rw [this]
    rw [run_brk (st := .params i 0 0) rfl hs]
    exact ⟨rfl, rfl, fun h => by cases h⟩
  · by_cases hv : b0.toNat ≠ 1
    · have hs : step (.params i 0 0) (b0 :: b1 :: b2 :: b3 :: b4 :: b5 :: b6 :: b7 :: rest) mc =
          (.brk (b0 :: b1 :: b2 :: b3 :: b4 :: b5 :: b6 :: b7 :: rest)
            (.fatal (.unknownVersion b0)), []) := by
        simp only [step_params_zero, recPhase, tryHead_cons8, if_pos hv]
      rw [run_brk (st := .params i 0 0) rfl hs]
      have hm : reqTail mc (.params i.req.id) (b0 :: b1 :: b2 :: b3 :: b4 :: b5 :: b6 :: b7 :: rest) =
          ⟨[], .fatal (.unknownVersion b0), b0 :: b1 :: b2 :: b3 :: b4 :: b5 :: b6 :: b7 :: rest⟩ := by
        simp only [reqTail, if_pos hv]
      rw [hm]
      exact ⟨rfl, rfl, fun _ => rfl⟩
    · have htr : rest.length < be16 b4 b5 + b6.toNat := by
        rcases hc with hc | hc
        · exact absurd hc hv
        · exact hc
      by_cases hval : RT.valid b1.toNat = false
      · have hs : step (.params i 0 0) (b0 :: b1 :: b2 :: b3 :: b4 :: b5 :: b6 :: b7 :: rest) mc =
            (.cont rest ((Ctx.par i).intoSkip (be16 b4 b5) b6.toNat),
              UnknownType.toRecord b1 (be16 b2 b3)) := by
          simp only [step_params_zero, recPhase, tryHead_cons8, if_neg hv, if_pos hval]
          rfl
        obtain ⟨a1, a2⟩ := run_cont_op hw hs (run_skip_short (Ctx.par i) mc htr)
          (fun _ => ⟨rfl, phase_par_skip _ _ _⟩)
        have hm : reqTail mc (.params i.req.id) (b0 :: b1 :: b2 :: b3 :: b4 :: b5 :: b6 :: b7 :: rest) =
            ⟨UnknownType.toRecord b1 (be16 b2 b3), .params i.req.id, []⟩ := by
          simp only [reqTail, if_neg hv, if_pos hval]
        rw [hm]
        exact ⟨by simpa using a1, a2, fun h => by cases h⟩
      · by_cases hp : b1.toNat = RT.params ∧ be16 b2 b3 = i.req.id
        · have hpb : (b1.toNat == RT.params && be16 b2 b3 == i.req.id) = true := by
            simp [hp.1, hp.2]
          by_cases hz : be16 b4 b5 = 0
          · have hpad : 0 < b6.toNat := by omega
            have hs : step (.params i 0 0) (b0 :: b1 :: b2 :: b3 :: b4 :: b5 :: b6 :: b7 :: rest) mc =
                (.cont rest ((Ctx.dn i.req).intoSkip 0 b6.toNat), []) := by
              simp only [step_params_zero, recPhase, tryHead_cons8, if_neg hv, if_neg hval]
              simp only [hpb, if_true, hz, BEq.rfl]
              rfl
            have hph : phaseOf ((Ctx.dn i.req).intoSkip 0 b6.toNat) = .finishing i.req.id := by
              rw [skip_phase, if_neg]
              · rfl
              · simp only [Bool.and_eq_true, beq_iff_eq]; omega
            obtain ⟨a1, a2⟩ := run_cont_op hw hs
              (run_skip_short (Ctx.dn i.req) (pay := 0) mc (by omega)) (fun _ => ⟨rfl, hph⟩)
            have hm : reqTail mc (.params i.req.id) (b0 :: b1 :: b2 :: b3 :: b4 :: b5 :: b6 :: b7 :: rest) =
                ⟨[], .finishing i.req.id, []⟩ := by
              simp only [reqTail, if_neg hv, if_neg hval, if_pos hp, if_pos hz]
            rw [hm]
            exact ⟨by simpa using a1, a2, fun h => by cases h⟩
          · have hzb : (be16 b4 b5 == 0) = false := by simpa using hz
            have hs : step (.params i 0 0) (b0 :: b1 :: b2 :: b3 :: b4 :: b5 :: b6 :: b7 :: rest) mc =
                (.cont rest (.params i (be16 b4 b5) b6.toNat), []) := by
              simp only [step_params_zero, recPhase, tryHead_cons8, if_neg hv, if_neg hval]
              simp only [hpb, if_true, hzb, Bool.false_eq_true, if_false]
              rfl
            obtain ⟨a1, a2⟩ := run_cont_op hw hs (run_params_short mc htr) (fun _ => ⟨rfl, rfl⟩)
            have hm : reqTail mc (.params i.req.id) (b0 :: b1 :: b2 :: b3 :: b4 :: b5 :: b6 :: b7 :: rest) =
                ⟨[], .params i.req.id, []⟩ := by
              simp only [reqTail, if_neg hv, if_neg hval, if_pos hp, if_neg hz]
            rw [hm]
            exact ⟨by simpa using a1, a2, fun h => by cases h⟩
        · have hpb := band_false_of_not hp
          by_cases ha : b1.toNat = RT.abortRequest ∧ be16 b2 b3 = i.req.id
          · have hab : (b1.toNat == RT.abortRequest && be16 b2 b3 == i.req.id) = true := by
              simp [ha.1, ha.2]
            have hs : step (.params i 0 0) (b0 :: b1 :: b2 :: b3 :: b4 :: b5 :: b6 :: b7 :: rest) mc =
                (.cont rest (Ctx.hdr.intoSkip (be16 b4 b5) b6.toNat),
                  EndRequest.toRecord { appStatus := 0, protocolStatus := 0 } i.req.id) := by
              simp only [step_params_zero, recPhase, tryHead_cons8, if_neg hv, if_neg hval]
              simp only [hpb, Bool.false_eq_true, if_false, hab, if_true]
              rfl
            obtain ⟨a1, a2⟩ := run_cont_op hw hs (run_skip_short Ctx.hdr mc htr)
              (fun _ => ⟨rfl, phase_hdr_skip _ _⟩)
            have hm : reqTail mc (.params i.req.id) (b0 :: b1 :: b2 :: b3 :: b4 :: b5 :: b6 :: b7 :: rest) =
                ⟨EndRequest.toRecord { appStatus := 0, protocolStatus := 0 } i.req.id, .idle, []⟩ := by
              simp only [reqTail, if_neg hv, if_neg hval, if_neg hp, if_pos ha]
            rw [hm]
            exact ⟨by simpa using a1, a2, fun h => by cases h⟩
          · have hab := band_false_of_not ha
            by_cases hbg : b1.toNat = RT.beginRequest ∧ be16 b2 b3 ≠ i.req.id
            · have hbb : (b1.toNat == RT.beginRequest && be16 b2 b3 != i.req.id) = true := by
                simp [hbg.1, hbg.2]
              have hs : step (.params i 0 0) (b0 :: b1 :: b2 :: b3 :: b4 :: b5 :: b6 :: b7 :: rest) mc =
                  (.cont rest ((Ctx.par i).intoSkip (be16 b4 b5) b6.toNat),
                    EndRequest.toRecord { appStatus := 0, protocolStatus := 1 } (be16 b2 b3)) := by
                simp only [step_params_zero, recPhase, tryHead_cons8, if_neg hv, if_neg hval]
                simp only [hpb, Bool.false_eq_true, if_false, hab, hbb, if_true]
                rfl
              obtain ⟨a1, a2⟩ := run_cont_op hw hs (run_skip_short (Ctx.par i) mc htr)
                (fun _ => ⟨rfl, phase_par_skip _ _ _⟩)
              have hm : reqTail mc (.params i.req.id) (b0 :: b1 :: b2 :: b3 :: b4 :: b5 :: b6 :: b7 :: rest) =
                  ⟨EndRequest.toRecord { appStatus := 0, protocolStatus := 1 } (be16 b2 b3),
                    .params i.req.id, []⟩ := by
                simp only [reqTail, if_neg hv, if_neg hval, if_neg hp, if_neg ha, if_pos hbg]
              rw [hm]
              exact ⟨by simpa using a1, a2, fun h => by cases h⟩
            · have hbb : (b1.toNat == RT.beginRequest && be16 b2 b3 != i.req.id) = false := by
                cases hx : b1.toNat == RT.beginRequest with
                | false => rfl
                | true =>
                  simp only [beq_iff_eq] at hx
                  simp only [Bool.true_and, bne_eq_false_iff_eq]
                  exact Classical.byContradiction fun he => hbg ⟨hx, he⟩
              by_cases hg : b1.toNat = RT.getValues ∧ be16 b2 b3 = 0
              · have hs : step (.params i 0 0) (b0 :: b1 :: b2 :: b3 :: b4 :: b5 :: b6 :: b7 :: rest) mc =
                    (.cont rest (.values (.par i) 0 (be16 b4 b5) b6.toNat), []) := by
                  simp only [step_params_zero, recPhase, tryHead_cons8, if_neg hv, if_neg hval]
                  simp only [hpb, Bool.false_eq_true, if_false, hab, hbb]
                  simp [hg.1, hg.2, RT.getValues, RecordHeader.isManagement, RT.isManagement]
                obtain ⟨a1, a2⟩ := run_cont_op hw hs
                  (run_values_short (.par i) (by intro r; simp) mc htr)
                  (fun h0 => ⟨by subst h0; rw [if_neg]; simp; omega, rfl⟩)
                have hm : reqTail mc (.params i.req.id) (b0 :: b1 :: b2 :: b3 :: b4 :: b5 :: b6 :: b7 :: rest) =
                    ⟨if 0 < be16 b4 b5 ∧ be16 b4 b5 ≤ rest.length then
                        valuesReply (rest.take (be16 b4 b5)) mc else [], .params i.req.id, []⟩ := by
                  simp only [reqTail, if_neg hv, if_neg hval, if_neg hp, if_neg ha, if_neg hbg, if_pos hg]
                rw [hm]
                exact ⟨by simpa using a1, a2, fun h => by cases h⟩
              · have hs : step (.params i 0 0) (b0 :: b1 :: b2 :: b3 :: b4 :: b5 :: b6 :: b7 :: rest) mc =
                    (.cont rest ((Ctx.par i).intoSkip (be16 b4 b5) b6.toNat), []) := by
                  simp only [step_params_zero, recPhase, tryHead_cons8, if_neg hv, if_neg hval]
                  have h2 : (b1.toNat == RT.getValues && RecordHeader.isManagement { rtype := b1.toNat, requestId := be16 b2 b3, contentLength := be16 b4 b5, paddingLength := b6.toNat }) = false := by
                    cases hx : b1.toNat == RT.getValues with
                    | false => rfl
                    | true =>
                      simp only [beq_iff_eq] at hx
                      simp only [Bool.true_and, RecordHeader.isManagement, Bool.and_eq_false_iff,
                        beq_eq_false_iff_ne, ne_eq]
                      exact Or.inr fun he => hg ⟨hx, he⟩
                  simp only [hpb, Bool.false_eq_true, if_false, hab, hbb, h2]
                  rfl
                obtain ⟨a1, a2⟩ := run_cont_op hw hs (run_skip_short (Ctx.par i) mc htr)
                  (fun _ => ⟨rfl, phase_par_skip _ _ _⟩)
                have hm : reqTail mc (.params i.req.id) (b0 :: b1 :: b2 :: b3 :: b4 :: b5 :: b6 :: b7 :: rest) =
                    ⟨[], .params i.req.id, []⟩ := by
                  simp only [reqTail, if_neg hv, if_neg hval, if_neg hp, if_neg ha, if_neg hbg, if_neg hg]
                rw [hm]
                exact ⟨by simpa using a1, a2, fun h => by cases h⟩

/-- **The loop on an unfinished tail**, from either resting state. -/
theorem run_tail (mc : Nat) {st : State} {ph : Phase} (hr : Rests st ph) {tail : Bytes}
    (ht : Str.nextRec tail = none) :
    (run st tail mc).out = (reqTail mc ph tail).out ∧
    phaseOf (run st tail mc).st = (reqTail mc ph tail).phase ∧
    ((reqTail mc ph tail).phase.isFinal = true → (run st tail mc).rem = (reqTail mc ph tail).unread) := by
  rcases hr with ⟨rfl, rfl⟩ | ⟨i, rfl, hi, rfl⟩
  · exact run_tail_idle mc ht
  · exact run_tail_params mc i hi ht

end Fcgi.Req
