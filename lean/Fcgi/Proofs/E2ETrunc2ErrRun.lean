import Fcgi.Proofs.E2ETrunc2Err

/-!
# C12 end to end, part 8: the transport answers the read at the end of the input with an ERROR

The analogue of `E2ETrunc` / `E2ETruncStr` / `E2ETruncConn` for a transport in `err` mode: it
delivers the (cut) wire — any read splitting, transient `Pending`s — and then, instead of `Ok(0)`,
the read fails with the transport's read error `rdErr`.

* inside `parse_request` the error is SWALLOWED like an end-of-file: the task ends quietly
  (`RET`, phase `finished`), nothing reports the error (`Connection::run` → `parse_request` maps a
  read error to "connection done");
* inside the handler's `readAll` the read returns exactly that error (event `R!<kind>:…`), the
  propagating handler returns it (`HE(err:<kind>)`), the task finishes without `close`.
-/
namespace Fcgi.C12E
open Fcgi Fcgi.Req Fcgi.Str Fcgi.Async Fcgi.Run Fcgi.Spec Fcgi.E2E

theorem rdErr_ne (t : Transport) : t.rdErr ≠ .abortRequest := by
  unfold Transport.rdErr; split <;> simp

/-- At the end of the input a transport in `err` mode answers a read (into a non-empty buffer) with
a transient `Pending` or with its read error. -/
theorem read_at_err {t t' : Transport} {cap : Nat} {res : Poll (Except IoErr Bytes)} (hb : BenE t)
    (hin : t.input = []) (hem : t.endMode = .err) (hcap : 0 < cap) (h : t.read cap = (t', res)) :
    t'.input = [] ∧ t'.wlog = t.wlog ∧
    ((res = .pending ∧ t'.woken = true ∧ ans t' < ans t) ∨ res = .ready (.error t'.rdErr)) := by
  have hwl : t'.wlog = t.wlog := by have := read_wlog t cap; rwa [h] at this
  cases res with
  | pending =>
    obtain ⟨hi, hw | hw⟩ := read_pendingE hb h
    · exact ⟨hi.trans hin, hwl, Or.inl ⟨rfl, hw.1, hw.2⟩⟩
    · rw [hem] at hw; exact absurd hw.2.1 (by decide)
  | ready x =>
    cases x with
    | error e =>
      obtain ⟨_, _, he, hi⟩ := read_errorE hb h
      subst he
      exact ⟨hi, hwl, Or.inr rfl⟩
    | ok bs =>
      exfalso
      obtain ⟨hinp, _, _, hz⟩ := read_ok_benE hb h
      rw [hin] at hinp
      have h1 : bs = [] := (List.append_eq_nil_iff.mp hinp.symm).1
      rcases hz h1 with hz | hz
      · omega
      · rw [hem] at hz; exact absurd hz.2 (by decide)

/-! ## `parse_request` -/

/-- How a poll on a cut preamble ends. -/
def TOutE (cap mc : Nat) (W0 L0 Z Wk : Bytes) (c c' : Conn) (r : PRes) : Prop :=
  (r = .pending ∧ (∃ F', PStE cap mc W0 L0 Z c' F') ∧ c'.env.tr.woken = true ∧
      ans c'.env.tr < ans c.env.tr) ∨
  (r = .finished ∧ c'.phase = .finished ∧ c'.env.tr.wlog = L0 ++ (run .header Wk mc).out ∧
      c'.env.tr.input = [])

theorem trunc_pollE {cap mc : Nat} {Wk Z W0 L0 : Bytes} (K : TCtx cap mc Wk Z W0) {c : Conn} {F : Bytes}
    (hst : PStE cap mc W0 L0 Z c F) (hem : c.env.tr.endMode = .err) :
    ∃ c' r, Halts (2 * c.env.tr.input.length + 4) c c' r ∧ Frame c c' ∧ TOutE cap mc W0 L0 Z Wk c c' r := by
  obtain ⟨n, c1, F1, hn, hs, hfr, hout⟩ := parse_loopE K.cap24 K.ns _ c F hst (Nat.le_refl _)
  have hnb : n ≤ 2 * c.env.tr.input.length + 2 := by have := wbit_le c; omega
  have hpre : ∀ {F2 : Bytes} {inp : Bytes}, F2 ++ inp ++ Z = W0 → F2 ++ inp = Wk := by
    intro F2 inp h
    rw [← K.cut] at h
    exact List.append_cancel_right h
  rcases hout with ⟨c2, h1, h2, h3, h4, h5⟩ | ⟨rest, t', hph, hf, hw, _⟩ | ⟨hin, hnf, hph, hst1⟩
  · refine ⟨c2, .pending, ⟨n, c1, by omega, hs, h1⟩, hfr.trans h3, Or.inl ⟨rfl, ⟨F1, h2⟩, h4, ?_⟩⟩
    have := hfr.ts.ans_le; omega
  · exfalso
    have := K.nf F1 ⟨c1.env.tr.input, hpre hw⟩
    rw [hf] at this; cases this
  · have hF1 : F1 = Wk := by
      have := hpre hst1.wire
      rwa [hin, List.append_nil] at this
    subst hF1
    have hem1 : c1.env.tr.endMode = .err := hfr.ts.em.trans hem
    have hstep := step_reading c1 _ hph hst1.stop
    rcases hrd : c1.env.tr.read (track cap mc F1).free with ⟨t, res⟩
    rw [hrd] at hstep
    have hts := read_tstep hrd
    have hfree : 0 < (track cap mc F1).free := by
      rcases K.ns F1 ⟨Z, K.cut⟩ with h | h
      · rw [hnf] at h; cases h
      · simp only [track, Req.Parser.free]; omega
    obtain ⟨hi, hwl, hres⟩ := read_at_err hst1.ben hin hem1 hfree hrd
    have hlog1 : c1.env.tr.wlog = L0 ++ (run .header F1 mc).out := by
      rcases hst1.ph with ⟨_, _, h⟩ | ⟨rest, hp, _⟩
      · exact h
      · rw [hph] at hp; cases hp
    rcases hres with ⟨rfl, hw, ha⟩ | rfl
    · refine ⟨{ c1 with env := { c1.env with tr := t } }, .pending, ⟨n, c1, by omega, hs, hstep⟩,
        hfr.trans ⟨rfl, rfl, rfl, rfl, hts⟩, Or.inl ⟨rfl, ⟨F1, ?_⟩, hw, ?_⟩⟩
      · exact ⟨by show F1 ++ t.input ++ Z = W0
                  rw [hi, List.append_nil]; exact K.cut, hst1.stop, hst1.ben.step hts, hst1.rem,
          Or.inl ⟨hph, hnf, by show t.wlog = _; rw [hwl]; exact hlog1⟩⟩
      · show ans t < ans c.env.tr
        have := hfr.ts.ans_le; omega
    · refine ⟨{ c1 with phase := .finished, env := { c1.env with tr := t } }, .finished,
        ⟨n, c1, by omega, hs, hstep⟩, hfr.trans (Frame.mk' c1 .finished t hts),
        Or.inr ⟨rfl, rfl, ?_, hi⟩⟩
      show t.wlog = _
      rw [hwl]; exact hlog1


theorem trunc_runE {cap mc : Nat} {Wk Z W0 L0 : Bytes} (K : TCtx cap mc Wk Z W0) :
    ∀ (A : Nat) (c : Conn) (F : Bytes) (n fuel : Nat),
      PStE cap mc W0 L0 Z c F → c.env.tr.endMode = .err → c.env.segs = [] → ans c.env.tr ≤ A → A + 1 ≤ fuel →
      2 * c.env.tr.input.length + 4 ≤ 100000 →
      ∃ c', runTask fuel c n none = (c', "RET") ∧
        TFin L0 (run .header Wk mc).out (hsCount c.env.tr.events) c' ∧ c'.scripts = c.scripts := by
  intro A
  induction A with
  | zero =>
    intro c F n fuel hst hem hsegs hA hf hlen
    obtain ⟨f, rfl⟩ : ∃ f, fuel = f + 1 := ⟨fuel - 1, by omega⟩
    obtain ⟨hsame, hph, hsc, hstop, hmx, hsg, hwk⟩ := prePoll_same c n hsegs
    have hst0 := hst.cong hph hstop hsame
    obtain ⟨c', r, hh, hfr, ho⟩ := trunc_pollE K hst0 (hsame.em.trans hem)
    have hpoll := hh.pollT (by rw [hsame.input]; exact hlen)
    have hans0 : ans (prePoll c n none).env.tr = ans c.env.tr := by unfold ans; rw [hsame.rd, hsame.wr]
    rw [runTask_succ, hpoll]
    rcases ho with ⟨rfl, _, _, ha⟩ | ⟨rfl, h1, h2, h3⟩
    · omega
    · exact ⟨c', rfl, ⟨h1, h2, h3, hfr.ts.hs.trans hsame.hs, hfr.stop.trans (hstop.trans hst.stop)⟩,
        hfr.scripts.trans hsc⟩
  | succ A ih =>
    intro c F n fuel hst hem hsegs hA hf hlen
    obtain ⟨f, rfl⟩ : ∃ f, fuel = f + 1 := ⟨fuel - 1, by omega⟩
    obtain ⟨hsame, hph, hsc, hstop, hmx, hsg, hwk⟩ := prePoll_same c n hsegs
    have hst0 := hst.cong hph hstop hsame
    obtain ⟨c', r, hh, hfr, ho⟩ := trunc_pollE K hst0 (hsame.em.trans hem)
    have hpoll := hh.pollT (by rw [hsame.input]; exact hlen)
    have hans0 : ans (prePoll c n none).env.tr = ans c.env.tr := by unfold ans; rw [hsame.rd, hsame.wr]
    rw [runTask_succ, hpoll]
    rcases ho with ⟨rfl, ⟨F', hst'⟩, hw, ha⟩ | ⟨rfl, h1, h2, h3⟩
    · simp only [hw, if_true]
      have hlen' : 2 * c'.env.tr.input.length + 4 ≤ 100000 := by
        have := hfr.ts.tle.input_len
        rw [hsame.input] at this
        omega
      obtain ⟨c2, h1, h2, h3⟩ := ih c' F' (n + 1) f hst' (hfr.ts.em.trans (hsame.em.trans hem))
        (hfr.segs.trans hsg) (by omega) (by omega) hlen'
      refine ⟨c2, h1, ?_, h3.trans (hfr.scripts.trans hsc)⟩
      have he : hsCount c'.env.tr.events = hsCount c.env.tr.events := hfr.ts.hs.trans hsame.hs
      rw [← he]; exact h2
    · exact ⟨c', rfl, ⟨h1, h2, h3, hfr.ts.hs.trans hsame.hs, hfr.stop.trans (hstop.trans hst.stop)⟩,
        hfr.scripts.trans hsc⟩

/-- The executor started in front of `parse_request` (`Connection::run` enters its loop). -/
theorem trunc_run_startE {cap mc : Nat} {Wk Z W0 : Bytes} (K : TCtx cap mc Wk Z W0) {c : Conn} {n fuel : Nat}
    (hph : c.phase = .parseReq ⟨cap, [], .header, mc⟩ .start) (hstop : c.stop = false)
    (hinp : c.env.tr.input = Wk) (hb : BenE c.env.tr) (hem : c.env.tr.endMode = .err)
    (hsegs : c.env.segs = []) (hf : ans c.env.tr + 1 ≤ fuel) (hlen : 2 * c.env.tr.input.length + 5 ≤ 100000) :
    ∃ c', runTask fuel c n none = (c', "RET") ∧
      TFin c.env.tr.wlog (run .header Wk mc).out (hsCount c.env.tr.events) c' ∧ c'.scripts = c.scripts := by
  obtain ⟨f, rfl⟩ : ∃ f, fuel = f + 1 := ⟨fuel - 1, by omega⟩
  obtain ⟨hsame, hph0, hsc, hstop0, hmx, hsg, hwk⟩ := prePoll_same c n hsegs
  rw [runTask_succ]
  generalize prePoll c n none = c0 at *
  have hstop1 : c0.stop = false := hstop0.trans hstop
  have hns0 := K.ns [] (List.nil_prefix)
  have hstart := start_track K.cap24 (raw := []) (Nat.zero_le _) hns0
  have hstep := step_start c0 _ (hph0.trans hph) hstop1
  rw [hstart] at hstep
  have hstep' : stepConn c0 = .next (mkC c0 (.parseReq (track cap mc [])
      (.writing (run .header [] mc).out (run .header [] mc).st.isFinal)) c0.env.tr) := hstep
  have hremle : (run .header [] mc).rem.length ≤ cap := by
    rcases hns0 with h | h
    · have := K.nf [] List.nil_prefix; rw [h] at this; cases this
    · omega
  have hst : PStE cap mc W0 c.env.tr.wlog Z (mkC c0 (.parseReq (track cap mc [])
      (.writing (run .header [] mc).out (run .header [] mc).st.isFinal)) c0.env.tr) [] :=
    ⟨by show [] ++ c0.env.tr.input ++ Z = W0
        rw [hsame.input, hinp, List.nil_append]; exact K.cut,
      hstop1, BenE.same hsame hb, hremle, Or.inr ⟨_, rfl, by show c0.env.tr.wlog ++ _ = _; rw [hsame.wlog]⟩⟩
  obtain ⟨c', r, hh, hfr, ho⟩ := trunc_pollE K hst (hsame.em.trans hem)
  have hh' := Halts.of_steps (Steps.one hstep') hh
  have hpoll := hh'.pollT (by
    show 1 + (2 * c0.env.tr.input.length + 4) ≤ 100000
    rw [hsame.input]; omega)
  have hans0 : ans c0.env.tr = ans c.env.tr := by unfold ans; rw [hsame.rd, hsame.wr]
  have hts : TStep c0.env.tr c'.env.tr := hfr.ts
  have hhs : hsCount c'.env.tr.events = hsCount c.env.tr.events := hts.hs.trans hsame.hs
  have hsc' : c'.scripts = c.scripts := hfr.scripts.trans hsc
  rw [hpoll]
  rcases ho with ⟨rfl, ⟨F', hst'⟩, hw, ha⟩ | ⟨rfl, h1, h2, h3⟩
  · simp only [hw, if_true]
    have hlen' : 2 * c'.env.tr.input.length + 4 ≤ 100000 := by
      have := hts.tle.input_len
      rw [hsame.input] at this
      omega
    have ha' : ans c'.env.tr < ans c0.env.tr := ha
    obtain ⟨c2, h1, h2, h3⟩ := trunc_runE K (ans c'.env.tr) c' F' (n + 1) f hst'
      (hts.em.trans (hsame.em.trans hem)) (hfr.segs.trans hsg) (Nat.le_refl _) (by omega) hlen'
    refine ⟨c2, h1, ?_, h3.trans hsc'⟩
    rw [← hhs]; exact h2
  · exact ⟨c', rfl, ⟨h1, h2, h3, hhs, hfr.stop.trans hstop1⟩, hsc'⟩

/-! ## The read loop -/

/-- What `poll_input` returns to a `read` on a cut stream. -/
def ReadPostE (K : RCtx) (n : Nat) (L P dC : Bytes) (t : Transport) (r' : AReq) (m' : MutexSt)
    (t' : Transport) : IRes → Prop
  | .pending => (∃ dO', RSt K L P r' m' t' dC dO') ∧ t'.woken = true ∧ ans t' < ans t
  | .ready k d => k = d.length ∧ 0 < k ∧ ∃ dO', RSt K L P r' m' t' (dC ++ d) dO' ∧ r'.lock = .none ∧
      m' = none ∧ (k = n ∨ Idle r'.sp)
  | .err e => e = t'.rdErr ∧ m' = none ∧ dC = K.C ∧ t'.input = [] ∧ t'.wlog = L ++ (P ++ K.O) ∧
      r'.lock = .none ∧ r'.sp.output = []
  | .panic _ => False

/-- **The read loop of `poll_input`** on a benign transport that ends with end-of-file, for a stream
whose wire is cut. -/
theorem inLoop_simE {K : RCtx} (hK : K.Cut) {n : Nat} (hn : 0 < n) {L P : Bytes} : ∀ (fuel : Nat) (r : AReq)
    (new : Bytes) (t : Transport) {dC dO : Bytes} {r' : AReq} {m' : MutexSt} {t' : Transport} {res : IRes},
    BenE t → t.endMode = .err → (∃ G, RInv K r G (new ++ t.input) dC dO) → r.lock = .none → r.sp.output = [] →
    t.wlog = L ++ (P ++ dO) → new.length ≤ r.sp.free → t.input.length + 2 ≤ fuel →
    inLoop fuel r new (some n) none t = (r', m', t', res) →
    TStep t t' ∧ ReadPostE K n L P dC t r' m' t' res ∧
    (Idle r.sp → new = [] → ∀ k d, res = .ready k d → t'.input.length < t.input.length) := by
  intro fuel
  induction fuel with
  | zero => intro r new t dC dO r' m' t' res _ _ _ _ _ _ _ hf; omega
  | succ k ih =>
    intro r new t dC dO r' m' t' res hb hem ⟨G, hi⟩ hlk hout hlog hfree hf h
    obtain ⟨p', st, o, hp, hcnt, hle, hse, ho, hi', hidle, hstall⟩ := parse_rinvT hK hn hi hfree
    rw [hout, List.nil_append] at ho
    simp only [inLoop, hp] at h
    split at h
    · -- the call delivered something
      rename_i hc
      have hpos : 0 < st.stream := by
        simp only [hse, Bool.false_or, decide_eq_true_eq] at hc
        exact hc
      have key : ∀ w : Bool,
          (({ sp := p', lock := r.lock, writeable := w } : AReq), (none : MutexSt), t,
            IRes.ready st.stream st.delivered) = (r', m', t', res) →
          TStep t t' ∧ ReadPostE K n L P dC t r' m' t' res ∧
          (Idle r.sp → new = [] → ∀ k d, res = .ready k d → t'.input.length < t.input.length) := by
        intro w h
        cases h
        have hst : RSt K L P { sp := p', lock := r.lock, writeable := w } none t (dC ++ st.delivered) (dO ++ o) :=
          ⟨⟨G ++ new, hi'.congr rfl rfl rfl rfl rfl rfl rfl rfl rfl hi'.sinv⟩,
            lockInv_free hlk, Or.inl rfl, ⟨P ++ dO, hlog, by rw [ho, List.append_assoc]⟩⟩
        refine ⟨.refl _, ⟨hcnt, hpos, dO ++ o, hst, hlk, rfl, ?_⟩, ?_⟩
        · by_cases hlt : st.stream < n
          · exact Or.inr (hidle hlt)
          · exact Or.inl (by omega)
        · intro hd hnew kk dd _
          exfalso
          subst hnew
          rw [idle_parse hd hi.sinv.1 hi.par n] at hp
          cases hp
          simp [initStatus, hi.mt.strm] at hc
      split at h
      · exact key true h
      · exact key r.writeable h
    · -- nothing delivered: compress, flush the replies, read more
      rename_i hc
      simp only [Bool.or_eq_true, decide_eq_true_eq, not_or, Bool.not_eq_true, Nat.not_lt,
        Nat.le_zero_eq] at hc
      obtain ⟨hraw, hlast⟩ := hstall hc.2
      have hd0 : st.delivered = [] := List.length_eq_zero_iff.1 (by omega)
      rw [hd0, List.append_nil] at hi' hlast
      have hi2 : RInv K { r with sp := p'.compress } (G ++ new) t.input dC (dO ++ o) :=
        hi'.congr rfl rfl rfl rfl rfl rfl rfl rfl rfl (SInv_compress hi'.sinv)
      have hl2 : LockInv { r with sp := p'.compress } none := lockInv_free hlk
      rcases hpo : AReq.pollOutput { r with sp := p'.compress } none t with ⟨r3, m3, t3, ores⟩
      rw [hpo] at h
      obtain ⟨kk, e1, e2, e3, e4, e5, _, e7, e8⟩ := Async.pollOutput_spec hl2 hpo
      obtain ⟨b1, b2⟩ := pollOutput_benE hl2 (Or.inl rfl) hb hpo
      have hout2 : ({ r with sp := p'.compress } : AReq).sp.output = o := ho
      have hi3 : RInv K r3 (G ++ new) t3.input dC (dO ++ o) := by
        rw [e4.1]
        exact hi2.consumed e1
      have hlog3 : ∃ O1, t3.wlog = L ++ O1 ∧ O1 ++ r3.sp.output = P ++ (dO ++ o) :=
        ⟨P ++ dO ++ o.take kk, by rw [e3, hlog, hout2]; simp only [List.append_assoc], by
          rw [e1]
          show (P ++ dO ++ o.take kk) ++ (p'.compress.output.drop kk) = _
          rw [show p'.compress.output = o from ho]
          simp only [List.append_assoc, List.take_append_drop]⟩
      rcases b2 with rfl | ⟨rfl, bw, ba⟩
      · -- flushed
        obtain ⟨f1, f2, f3, f4⟩ := e7 rfl
        have hm3 : m3 = none := by
          by_cases ho0 : o = []
          · exact (f3 (by rw [hout2]; exact ho0)).2.1
          · exact f4 (by rw [hout2]; exact ho0)
        subst hm3
        have hlog3' : t3.wlog = L ++ (P ++ (dO ++ o)) := by
          obtain ⟨O1, g1, g2⟩ := hlog3
          rw [f1, List.append_nil] at g2
          rw [g1, g2]
        have hfreepos : 0 < r3.sp.free := by
          have hpar := hi3.par
          have hcap := hi3.capK
          rw [e1] at hpar hcap ⊢
          simp only [Str.Parser.consumeOutput, Str.Parser.compress] at hpar hcap
          simp [Str.Parser.free, Str.Parser.freeStart, Str.Parser.compress, Str.Parser.consumeOutput, hpar, hcap]
          omega
        have hb3 := hb.step b1
        have hem3 : t3.endMode = .err := b1.em.trans hem
        simp only at h
        split at h
        · rename_i t1 hr
          have hwl : t1.wlog = t3.wlog := by have := read_wlog t3 r3.sp.free; rwa [hr] at this
          cases h
          obtain ⟨hinp, hw | hw⟩ := read_pendingE hb3 hr
          · refine ⟨b1.trans (read_tstep hr), ⟨⟨dO ++ o, ⟨⟨G ++ new, by rw [hinp]; exact hi3⟩, e5, Or.inl rfl,
              ⟨P ++ (dO ++ o), by rw [hwl, hlog3'], by rw [f1, List.append_nil]⟩⟩⟩, hw.1,
              by have := b1.ans_le; omega⟩, fun _ _ kk dd hx => (by cases hx)⟩
          · rw [hem3] at hw; exact absurd hw.2.1 (by decide)
        · -- the read fails: the input ended inside the stream
          rename_i t1 e hr
          obtain ⟨hin3, _, he, hin1⟩ := read_errorE hb3 hr
          have hwl : t1.wlog = t3.wlog := by have := read_wlog t3 r3.sp.free; rwa [hr] at this
          have hin0 : t.input = [] := by rw [← e4.1]; exact hin3
          obtain ⟨hC, hO⟩ := hlast hin0
          cases h
          refine ⟨b1.trans (read_tstep hr), ⟨he, rfl, hC, hin1, ?_, f2, f1⟩, fun _ _ kk dd hx => (by cases hx)⟩
          rw [hwl, hlog3', hO]
        · -- `Ok(0)` is impossible in `err` mode
          rename_i t1 hr
          exfalso
          obtain ⟨_, _, _, hz⟩ := read_ok_benE hb3 hr
          rcases hz rfl with hz | hz
          · omega
          · rw [hem3] at hz; exact absurd hz.2 (by decide)
        · rename_i t1 bs hbs hr
          obtain ⟨hin, hwl, hlen, _⟩ := read_ok_benE hb3 hr
          have hbne : bs ≠ [] := fun hx => hbs (by rw [hx])
          have hbpos : 0 < bs.length := List.length_pos_iff.mpr hbne
          have hs1 := read_tstep hr
          have hlen1 : t1.input.length + 2 ≤ k := by
            have := congrArg List.length hin
            rw [e4.1] at this
            simp only [List.length_append] at this
            omega
          obtain ⟨q1, q4, _⟩ := ih r3 bs t1 (hb3.step hs1) (hs1.em.trans hem3)
            ⟨G ++ new, by rw [← hin]; exact hi3⟩ f2 f1 (by rw [hwl, hlog3']) hlen hlen1 h
          refine ⟨(b1.trans hs1).trans q1, ?_, fun _ _ kk dd _ => ?_⟩
          · cases res with
            | pending =>
              exact ⟨q4.1, q4.2.1, by have := (b1.trans hs1).ans_le; have := q4.2.2; omega⟩
            | ready k d => exact q4
            | err e => exact q4
            | panic s => exact q4
          · have := q1.tle.input_len
            have := congrArg List.length hin
            rw [e4.1] at this
            simp only [List.length_append] at this
            omega
      · -- the transport is busy: `Pending` with the lock held
        obtain ⟨g1, g2⟩ := e8 (by intro hx; cases hx)
        have hm3 : m3 = some 0 := by
          rcases g2 with ⟨g2, _⟩ | ⟨_, _, _, _, i, hi⟩
          · exact g2
          · cases hi
        cases h
        exact ⟨b1, ⟨⟨dO ++ o, ⟨⟨G ++ new, hi3⟩, e5, Or.inr hm3, hlog3⟩⟩, bw, ba⟩,
          fun _ _ kk dd hx => (by cases hx)⟩

/-- **`poll_input(Some(n))`** for the `read` of `readAll`, on a cut stream. -/
theorem pollInput_simE {K : RCtx} (hK : K.Cut) {n : Nat} (hn : 0 < n) {L P : Bytes} {r : AReq} {m : MutexSt}
    {t : Transport} {dC dO : Bytes} {r' : AReq} {m' : MutexSt} {t' : Transport} {res : IRes}
    (hb : BenE t) (hem : t.endMode = .err) (hs : RSt K L P r m t dC dO)
    (h : r.pollInput (some n) m t = (r', m', t', res)) :
    TStep t t' ∧ ReadPostE K n L P dC t r' m' t' res ∧
    (Idle r.sp → ∀ k d, res = .ready k d → t'.input.length < t.input.length) := by
  obtain ⟨n', rfl⟩ : ∃ n', n = n' + 1 := ⟨n - 1, by omega⟩
  obtain ⟨⟨G, hi⟩, hl, hm, ⟨O1, hlog1, hlog2⟩⟩ := hs
  have hpar := hi.par
  simp only [AReq.pollInput, hpar] at h
  rcases hpo : r.pollOutput m t with ⟨r3, m3, t3, ores⟩
  rw [hpo] at h
  obtain ⟨kk, e1, e2, e3, e4, e5, _, e7, e8⟩ := Async.pollOutput_spec hl hpo
  obtain ⟨b1, b2⟩ := pollOutput_benE hl hm hb hpo
  have hi3 : RInv K r3 G t3.input dC dO := by
    rw [e4.1]
    exact hi.consumed e1
  have hlog3 : ∃ O1', t3.wlog = L ++ O1' ∧ O1' ++ r3.sp.output = P ++ dO :=
    ⟨O1 ++ r.sp.output.take kk, by rw [e3, hlog1, List.append_assoc], by
      rw [e1]; simp only [Str.Parser.consumeOutput, List.append_assoc, List.take_append_drop]; exact hlog2⟩
  rcases b2 with rfl | ⟨rfl, bw, ba⟩
  · obtain ⟨f1, f2, f3, f4⟩ := e7 rfl
    have hm3 : m3 = none := by
      by_cases ho0 : r.sp.output = []
      · have hm0 : m = none := by
          rcases hm with hm | hm
          · exact hm
          · have := hl.1.2 hm
            rw [hl.2 ho0] at this; cases this
        rw [(f3 ho0).2.1, hm0]
      · exact f4 ho0
    subst hm3
    have hlog3' : t3.wlog = L ++ (P ++ dO) := by
      obtain ⟨O1', g1, g2⟩ := hlog3
      rw [f1, List.append_nil] at g2
      rw [g1, g2]
    simp only at h
    obtain ⟨q1, q2, q3⟩ := inLoop_simE hK hn (L := L) (P := P) _ r3 [] t3 (hb.step b1) (b1.em.trans hem)
      ⟨G, by simpa using hi3⟩ f2 f1 hlog3' (by simp) (Nat.le_refl _) h
    refine ⟨b1.trans q1, ?_, fun hd kk dd hx => ?_⟩
    · cases res with
      | pending => exact ⟨q2.1, q2.2.1, by have := b1.ans_le; have := q2.2.2; omega⟩
      | ready k d => exact q2
      | err e => exact q2
      | panic s => exact q2
    · have hd3 : Idle r3.sp := by
        rw [e1]
        simpa [Idle, Dry, VStall, Str.Parser.consumeOutput] using hd
      have := q3 hd3 rfl kk dd hx
      rw [e4.1] at this
      exact this
  · obtain ⟨g1, g2⟩ := e8 (by intro hx; cases hx)
    have hm3 : m3 = some 0 := by
      rcases g2 with ⟨g2, _⟩ | ⟨_, _, hmm, _, i, hi⟩
      · exact g2
      · rcases hm with hm | hm <;> rw [hm] at hi <;> cases hi
    cases h
    exact ⟨b1, ⟨⟨dO, ⟨⟨G, hi3⟩, e5, Or.inr hm3, hlog3⟩⟩, bw, ba⟩, fun _ kk dd hx => (by cases hx)⟩

/-! ## `readAll` -/

/-- the trace event of a `readAll` that failed with `x` after collecting `acc` -/
def rrEvent (x : IoErr) (acc : Bytes) : String := s!"R!{showIo x}:{acc.length}:{hexOrDash acc}"

theorem isHS_rrEvent (x : IoErr) (acc : Bytes) : isHS (rrEvent x acc) = false := by
  simp [isHS, rrEvent, toString_str]

/-- the event of the handler future ending with the propagated error `x` -/
def heEventX (x : IoErr) : String := s!"HE(err:{showIo x})"

theorem isHS_heEventX (x : IoErr) : isHS (heEventX x) = false := by
  simp [isHS, heEventX, toString_str]


/-- What `handlerPoll` does for `readAll` on a cut stream: it suspends on a transient `Pending` with
the bytes read so far in its accumulator, or the read fails with `UnexpectedEof` after exactly the
content `K.C` of the cut wire was collected and all replies `K.O` were written; with `propagate`
the handler returns that error, otherwise it goes on with its next operation. -/
theorem readAll_runE {K : RCtx} (hK : K.Cut) {L P : Bytes} (rest : List HOp) (ws : List (Option Writer))
    (pr : Bool) :
    ∀ (N fuel : Nat) (r : AReq) (sub : HSub) (e : Run.Env) (dO : Bytes) (d : Nat),
      2 * ((K.C.length - (accOf sub).length) / 64) + 2 * e.tr.input.length + d < N → N + 1 ≤ fuel →
      (d = 0 → Idle r.sp) → BenE e.tr → e.tr.endMode = .err → RSt K L P r e.mutex e.tr (accOf sub) dO →
      (∃ (r' : AReq) (acc' : Bytes) (e' : Run.Env) (dO' : Bytes),
          handlerPoll fuel r { ops := .readAll :: rest, sub := sub, writers := ws, propagate := pr } e =
            (r', { ops := .readAll :: rest, sub := .readAllAcc acc', writers := ws, propagate := pr }, e', .pending) ∧
          RSt K L P r' e'.mutex e'.tr acc' dO' ∧ e'.segs = e.segs ∧ TStep e.tr e'.tr ∧
          e'.tr.woken = true ∧ ans e'.tr < ans e.tr) ∨
      (∃ (r' : AReq) (e' : Run.Env) (fuel' : Nat),
          handlerPoll fuel r { ops := .readAll :: rest, sub := sub, writers := ws, propagate := pr } e =
            (if pr then (r', { ops := rest, sub := .fresh, writers := ws, propagate := pr },
                e'.ev (rrEvent e'.tr.rdErr K.C), .done (.error e'.tr.rdErr))
             else handlerPoll fuel' r' { ops := rest, sub := .fresh, writers := ws, propagate := pr }
                (e'.ev (rrEvent e'.tr.rdErr K.C))) ∧
          fuel ≤ fuel' + N ∧ e'.tr.input = [] ∧ e'.tr.wlog = L ++ (P ++ K.O) ∧ r'.lock = .none ∧
          r'.sp.output = [] ∧ e'.mutex = none ∧ e'.segs = e.segs ∧ TStep e.tr e'.tr) := by
  intro N
  induction N with
  | zero => intro fuel r sub e dO d hN; omega
  | succ N ih =>
    intro fuel r sub e dO d hN hf hd hb hem hs
    obtain ⟨f, rfl⟩ : ∃ f, fuel = f + 1 := ⟨fuel - 1, by omega⟩
    rw [hp_readAll]
    rcases hpi : r.pollInput (some 64) e.mutex e.tr with ⟨r1, m1, t1, res⟩
    obtain ⟨s1, s4, s5⟩ := pollInput_simE hK (by omega : 0 < 64) hb hem hs hpi
    cases res with
    | pending =>
      left
      obtain ⟨⟨dO', hs'⟩, hw, ha⟩ := s4
      exact ⟨r1, accOf sub, { e with mutex := m1, tr := t1 }, dO', rfl, hs', rfl, s1, hw, ha⟩
    | panic x => exact s4.elim
    | err x =>
      right
      obtain ⟨hx, hm1, hC, hin, hwl, hlk, hout⟩ := s4
      subst hx hm1
      rw [hC]
      exact ⟨r1, { e with mutex := none, tr := t1 }, f, rfl, by omega, hin, hwl, hlk, hout, rfl, rfl, s1⟩
    | ready k dd =>
      obtain ⟨hk, hkpos, dO', hs', hlk, hm1, hfull⟩ := s4
      subst hm1
      cases k with
      | zero => omega
      | succ k' =>
        simp only
        obtain ⟨G1, hi1⟩ := hs'.inv
        have hnow := (nowT hK hi1).1
        have hlenC : (accOf sub).length + (k' + 1) ≤ K.C.length := by
          have := congrArg List.length hnow
          simp only [List.length_append] at this
          omega
        have hinle := s1.tle.input_len
        have hdec : ∃ d1, (d1 = 0 → Idle r1.sp) ∧
            2 * ((K.C.length - (accOf sub ++ dd).length) / 64) + 2 * t1.input.length + d1 < N := by
          have hin' : d = 0 → t1.input.length < e.tr.input.length := by
            intro h0
            exact s5 (hd h0) _ _ rfl
          simp only [List.length_append]
          rcases hfull with h64 | hdr
          · refine ⟨1, fun h => by omega, ?_⟩
            by_cases h0 : d = 0
            · have := hin' h0; omega
            · omega
          · refine ⟨0, fun _ => hdr, ?_⟩
            by_cases h0 : d = 0
            · have := hin' h0; omega
            · omega
        obtain ⟨d1, hd1, hm1⟩ := hdec
        rcases ih f r1 (.readAllAcc (accOf sub ++ dd)) { e with mutex := none, tr := t1 } dO' d1 hm1
            (by omega) hd1 (hb.step s1) (s1.em.trans hem) hs' with
          ⟨r2, acc2, e2, dO2, d1', d3, d5, d6, d8, d9⟩ |
          ⟨r2, e2, f2, d1', d2, d3, d4, d5, d6, d7, d8, d9⟩
        · left
          refine ⟨r2, acc2, e2, dO2, d1', d3, d5, s1.trans d6, d8, ?_⟩
          have := s1.ans_le
          have d9' : ans e2.tr < ans t1 := d9
          omega
        · right
          exact ⟨r2, e2, f2, d1', by omega, d3, d4, d5, d6, d7, d8, s1.trans d9⟩

/-! ## The connection task -/

/-- Where the connection task is between two polls. -/
inductive MStageE (g : MCfg) (c : Conn) : Prop
  /-- inside `parse_request` -/
  | parse {F : Bytes} : PStE g.cap g.mc g.W g.L0 [] c F → c.scripts = (.readAll :: g.rest, true) :: g.more →
      c.env.mutex = none → hsCount c.env.tr.events = g.hs0 → MStageE g c
  /-- the handler is suspended in its `readAll` -/
  | hread {r : AReq} {sub : HSub} {dO : Bytes} :
      c.phase = .handler r { ops := .readAll :: g.rest, sub := sub, writers := [], propagate := true } →
      RSt g.K g.L1 [] r c.env.mutex c.env.tr (accOf sub) dO → BenE c.env.tr → MEv1 g c.env.tr →
      c.scripts = g.more → MStageE g c

/-- How the task ends: the handler was started once, read exactly the content `C` of the cut wire,
got `UnexpectedEof`, returned it; the connection is finished without `close`; the write log holds
the preamble replies and the stream-noise replies and nothing else. -/
structure MFinE (g : MCfg) (c' : Conn) : Prop where
  phase : c'.phase = .finished
  wlog : c'.env.tr.wlog = g.L1 ++ g.O
  input : c'.env.tr.input = []
  hs : hsCount c'.env.tr.events = g.hs0 + 1
  start : hsEvent g.p.request ∈ c'.env.tr.events
  rerr : rrEvent c'.env.tr.rdErr g.C ∈ c'.env.tr.events
  herr : heEventX c'.env.tr.rdErr ∈ c'.env.tr.events
  scripts : c'.scripts = g.more

def MOutE (g : MCfg) (c c' : Conn) (r : PRes) : Prop :=
  (r = .pending ∧ MStageE g c' ∧ c'.env.tr.woken = true ∧ ans c'.env.tr < ans c.env.tr) ∨
  (r = .finished ∧ MFinE g c')

theorem MOutE.mono {g : MCfg} {c c1 c' : Conn} {r : PRes} (hl : Link c c1) (h : MOutE g c1 c' r) : MOutE g c c' r := by
  rcases h with ⟨a, b, d, e⟩ | h
  · exact Or.inl ⟨a, b, d, by have := hl.ts.ans_le; omega⟩
  · exact Or.inr h

def MResE (g : MCfg) (N : Nat) (c : Conn) : Prop := ∃ c' r, Halts N c c' r ∧ Link c c' ∧ MOutE g c c' r

theorem MResE.of_steps {g : MCfg} {k N : Nat} {c c1 : Conn} (hs : Steps k c c1) (hl : Link c c1)
    (h : MResE g N c1) : MResE g (k + N) c := by
  obtain ⟨c', r, hh, hl2, ho⟩ := h
  exact ⟨c', r, hh.of_steps hs, hl.trans hl2, ho.mono hl⟩

theorem MResE.mono {g : MCfg} {N M : Nat} {c : Conn} (h : MResE g N c) (hm : N ≤ M) : MResE g M c := by
  obtain ⟨c', r, hh, hl2, ho⟩ := h
  exact ⟨c', r, hh.mono hm, hl2, ho⟩

/-- One poll that starts inside the handler's `readAll`. -/
theorem hread_pollE {g : MCfg} (ok : g.OKu) {c : Conn} {r : AReq} {sub : HSub} {dO : Bytes}
    (hph : c.phase = .handler r { ops := .readAll :: g.rest, sub := sub, writers := [], propagate := true })
    (hs : RSt g.K g.L1 [] r c.env.mutex c.env.tr (accOf sub) dO) (hb : BenE c.env.tr)
    (hem : c.env.tr.endMode = .err) (hev : MEv1 g c.env.tr) (hsc : c.scripts = g.more) :
    MResE g 1 c := by
  have hstep := C07.handler_step c r _ hph
  obtain ⟨G0, hi0⟩ := hs.inv
  have hrl := rem_leT ok.cut hi0
  have hfu := handlerFuel_ge' c.env r
  have hcapr := hi0.capK
  have hcapK : g.K.cap = g.cap := rfl
  rcases readAll_runE ok.cut (L := g.L1) (P := []) g.rest [] true
      (2 * ((g.K.C.length - (accOf sub).length) / 64) + 2 * c.env.tr.input.length + 2) ((handlerFuel c.env r + scriptOf c))
      r sub c.env dO 1 (by omega) (by omega) (fun h => by omega) hb hem hs with
    ⟨r', acc', e', dO', d1, d3, d5, d6, d8, d9⟩ |
    ⟨r', e', f', d1, _, d3, d4, _, _, _, d8, d9⟩
  · rw [d1] at hstep
    have hstep' : stepConn c = .halt ⟨.handler r' (rdH g (.readAllAcc acc')), e', c.scripts, c.stop⟩ .pending := hstep
    exact ⟨_, .pending, Halts.now hstep', ⟨d6.w, d5, rfl⟩,
      Or.inl ⟨rfl, .hread rfl d3 (hb.step d6) (hev.step d6) hsc, d8, d9⟩⟩
  · rw [d1] at hstep
    simp only [if_true] at hstep
    have hstep' : stepConn c = .halt ⟨.finished, (e'.ev (rrEvent e'.tr.rdErr g.K.C)).ev (heEventX e'.tr.rdErr),
        c.scripts, c.stop⟩ .finished := by
      rw [hstep, if_neg (rdErr_ne _)]; rfl
    have hts : TStep c.env.tr ((e'.tr.ev (rrEvent e'.tr.rdErr g.K.C)).ev (heEventX e'.tr.rdErr)) :=
      (d9.trans (TStep.ev _ (isHS_rrEvent _ _))).trans (TStep.ev _ (isHS_heEventX _))
    refine ⟨_, .finished, Halts.now hstep', ⟨hts.w, d8, rfl⟩, Or.inr ⟨rfl, rfl, ?_, d3, ?_, ?_, ?_, ?_, hsc⟩⟩
    · show e'.tr.wlog = _
      rw [d4]; rfl
    · exact (hev.step hts).1
    · exact (hev.step hts).2
    · show rrEvent e'.tr.rdErr g.C ∈ (e'.tr.events ++ [rrEvent e'.tr.rdErr g.K.C]) ++ [heEventX e'.tr.rdErr]
      simp [MCfg.K]
    · show heEventX e'.tr.rdErr ∈ (e'.tr.events ++ [rrEvent e'.tr.rdErr g.K.C]) ++ [heEventX e'.tr.rdErr]
      simp

theorem mparse_pollE {g : MCfg} (ok : g.OKu) {c : Conn} {F : Bytes} (hst : PStE g.cap g.mc g.W g.L0 [] c F)
    (hem : c.env.tr.endMode = .err)
    (hsc : c.scripts = (.readAll :: g.rest, true) :: g.more) (hm : c.env.mutex = none)
    (hev : hsCount c.env.tr.events = g.hs0) : MResE g (2 * c.env.tr.input.length + 6) c := by
  obtain ⟨n, c1, F1, hn, hs, hfr, hout⟩ := parse_loopE (alignedBufsize_ge g.b) (mns ok) _ c F hst (Nat.le_refl _)
  have hnb : n ≤ 2 * c.env.tr.input.length + 2 := by have := wbit_le c; omega
  rcases hout with ⟨c2, h1, h2, h3, h4, h5⟩ | ⟨rest, t', hph, hf, hw, hstop1, hben1, hrem1, hwa, hlog, hts', hinp'⟩ |
      ⟨hin, hnf, hph, hst1⟩
  · refine ⟨c2, .pending, ⟨n, c1, by omega, hs, h1⟩, hfr.link.trans h3.link, Or.inl ⟨rfl, ?_, h4, ?_⟩⟩
    · have hts := hfr.ts.trans h3.ts
      exact .parse h2 (h3.scripts.trans (hfr.scripts.trans hsc)) (h3.mutex.trans (hfr.mutex.trans hm))
        (hts.hs.trans hev)
    · have := hfr.ts.ans_le; omega
  · -- the preamble is complete and its replies are written: the handler starts
    have hsc1 : c1.scripts = (.readAll :: g.rest, true) :: g.more := hfr.scripts.trans hsc
    obtain ⟨e1, _, hwire, hL1, he1len, hstep'⟩ :=
      mhandler_start ok hph (by simpa using hw) hstop1 hrem1 hf hwa hlog hsc1
    have hmx1 : c1.env.mutex = none := hfr.mutex.trans hm
    have hwsE : WStep c1.env.tr (t'.ev (hsEvent g.p.request)) :=
      hts'.w.trans ⟨List.suffix_refl _, List.suffix_refl _, rfl, rfl, Or.inl rfl, Nat.le_refl _,
        fun s hs => List.mem_append_left _ hs⟩
    have hev1 : MEv1 g (t'.ev (hsEvent g.p.request)) := by
      have h0 : hsCount t'.events = g.hs0 := (hfr.ts.trans hts').hs.trans hev
      constructor
      · show hsCount (t'.events ++ [hsEvent g.p.request]) = g.hs0 + 1
        rw [hsCount_append, h0, hsCount_single_true (isHS_hsEvent _)]
      · show hsEvent g.p.request ∈ t'.events ++ [hsEvent g.p.request]
        simp
    have hben2 : BenE (t'.ev (hsEvent g.p.request)) := hben1.wstep hwsE
    have hem2 : (t'.ev (hsEvent g.p.request)).endMode = .err := hwsE.em.trans (hfr.ts.em.trans hem)
    have hrst : RSt g.K g.L1 [] (AReq.new (Str.Parser.fromParser g.cap g.p.request e1 g.mc)) c1.env.mutex
        (t'.ev (hsEvent g.p.request)) [] [] := by
      refine ⟨⟨e1, mrinv_start ok he1len (by show e1 ++ t'.input = g.Y; rw [hinp']; exact hwire)⟩, ?_,
        Or.inl hmx1, ⟨[], by show t'.wlog = _; rw [hL1, List.append_nil], rfl⟩⟩
      rw [hmx1]; exact lockInv_free rfl
    have hcore := hread_pollE ok
      (c := ⟨.handler (AReq.new (Str.Parser.fromParser g.cap g.p.request e1 g.mc))
              { ops := .readAll :: g.rest, propagate := true },
          (⟨t', c1.env.mutex, c1.env.segs⟩ : Run.Env).ev (hsEvent g.p.request), g.more, false⟩)
      (sub := .fresh) rfl hrst hben2 hem2 hev1 rfl
    have hres := MResE.of_steps (hs.trans (Steps.one hstep')) (hfr.link.trans ⟨hwsE, rfl, hstop1.symm ▸ rfl⟩) hcore
    exact hres.mono (by omega)
  · exfalso
    have hF1 : F1 = g.W := by
      have := hst1.wire
      rwa [hin, List.append_nil, List.append_nil] at this
    rcases C06.run_wire_state ok.wf g.Y (F := F1) (by rw [hF1]; exact List.prefix_refl _) g.mc with
      ⟨e1, _, _, hrun⟩ | ⟨t, ht, hFt, _⟩
    · rw [hrun] at hnf; cases hnf
    · rw [hF1, MCfg.W] at hFt
      have := congrArg List.length hFt
      have : 0 < t.length := List.length_pos_iff.mpr ht
      simp only [List.length_append] at *
      omega

theorem mstage_pollE {g : MCfg} (ok : g.OKu) {c : Conn} (hst : MStageE g c) (hem : c.env.tr.endMode = .err) :
    MResE g (2 * c.env.tr.input.length + 6) c := by
  cases hst with
  | parse h1 h2 h3 h4 => exact mparse_pollE ok h1 hem h2 h3 h4
  | hread h1 h2 h3 h4 h5 => exact (hread_pollE ok h1 h2 h3 hem h4 h5).mono (by omega)

theorem MStageE.cong {g : MCfg} {c c' : Conn} (h : MStageE g c) (hph : c'.phase = c.phase)
    (hsc : c'.scripts = c.scripts) (hstop : c'.stop = c.stop) (hmx : c'.env.mutex = c.env.mutex)
    (hs : TrSame c.env.tr c'.env.tr) : MStageE g c' := by
  cases h with
  | parse h1 h2 h3 h4 => exact .parse (h1.cong hph hstop hs) (hsc.trans h2) (hmx.trans h3) (hs.hs.trans h4)
  | hread h1 h2 h3 h4 h5 =>
    exact .hread (hph.trans h1) (h2.cong hmx hs) (BenE.same hs h3) ⟨hs.hs.trans h4.1, hs.mem h4.2⟩ (hsc.trans h5)

/-- **The executor** on a wire cut inside the stream. -/
theorem mid_runE {g : MCfg} (ok : g.OKu) : ∀ (A : Nat) (c : Conn) (n fuel : Nat),
    MStageE g c → c.env.tr.endMode = .err → c.env.segs = [] → ans c.env.tr ≤ A → A + 1 ≤ fuel →
    2 * c.env.tr.input.length + 6 ≤ 100000 →
    ∃ c', runTask fuel c n none = (c', "RET") ∧ MFinE g c' := by
  intro A
  induction A with
  | zero =>
    intro c n fuel hst hem hsegs hA hf hlen
    obtain ⟨f, rfl⟩ : ∃ f, fuel = f + 1 := ⟨fuel - 1, by omega⟩
    obtain ⟨hsame, hph, hsc, hstop, hmx, hsg, hwk⟩ := prePoll_same c n hsegs
    have hst0 := hst.cong hph hsc hstop hmx hsame
    obtain ⟨c', r, hh, hl, ho⟩ := mstage_pollE ok hst0 (hsame.em.trans hem)
    have hpoll := hh.pollT (by rw [hsame.input]; exact hlen)
    have hans0 : ans (prePoll c n none).env.tr = ans c.env.tr := by unfold ans; rw [hsame.rd, hsame.wr]
    rw [runTask_succ, hpoll]
    rcases ho with ⟨rfl, _, _, ha⟩ | ⟨rfl, hfin⟩
    · omega
    · exact ⟨c', rfl, hfin⟩
  | succ A ih =>
    intro c n fuel hst hem hsegs hA hf hlen
    obtain ⟨f, rfl⟩ : ∃ f, fuel = f + 1 := ⟨fuel - 1, by omega⟩
    obtain ⟨hsame, hph, hsc, hstop, hmx, hsg, hwk⟩ := prePoll_same c n hsegs
    have hst0 := hst.cong hph hsc hstop hmx hsame
    obtain ⟨c', r, hh, hl, ho⟩ := mstage_pollE ok hst0 (hsame.em.trans hem)
    have hpoll := hh.pollT (by rw [hsame.input]; exact hlen)
    have hans0 : ans (prePoll c n none).env.tr = ans c.env.tr := by unfold ans; rw [hsame.rd, hsame.wr]
    rw [runTask_succ, hpoll]
    rcases ho with ⟨rfl, hst', hw, ha⟩ | ⟨rfl, hfin⟩
    · simp only [hw, if_true]
      have hlen' : 2 * c'.env.tr.input.length + 6 ≤ 100000 := by
        have := hl.ts.inp
        rw [hsame.input] at this
        omega
      exact ih c' (n + 1) f hst' (hl.ts.em.trans (hsame.em.trans hem)) (hl.segs.trans hsg) (by omega)
        (by omega) hlen'
    · exact ⟨c', rfl, hfin⟩

/-- … started in front of `parse_request`. -/
theorem mid_run_startE {g : MCfg} (ok : g.OK) {c : Conn} {n fuel : Nat}
    (hph : c.phase = .parseReq ⟨g.cap, [], .header, g.mc⟩ .start) (hstop : c.stop = false)
    (hinp : c.env.tr.input = g.W) (hlog : c.env.tr.wlog = g.L0) (hb : BenE c.env.tr)
    (hem : c.env.tr.endMode = .err) (hsegs : c.env.segs = []) (hm : c.env.mutex = none)
    (hsc : c.scripts = (.readAll :: g.rest, true) :: g.more) (hev : hsCount c.env.tr.events = g.hs0)
    (hf : ans c.env.tr + 1 ≤ fuel) (hlen : 2 * c.env.tr.input.length + 7 ≤ 100000) :
    ∃ c', runTask fuel c n none = (c', "RET") ∧ MFinE g c' := by
  have ok := ok.toU
  obtain ⟨f, rfl⟩ : ∃ f, fuel = f + 1 := ⟨fuel - 1, by omega⟩
  obtain ⟨hsame, hph0, hsc0, hstop0, hmx, hsg, hwk⟩ := prePoll_same c n hsegs
  rw [runTask_succ]
  generalize prePoll c n none = c0 at *
  have hstop1 : c0.stop = false := hstop0.trans hstop
  have hns0 := mns ok [] (List.nil_prefix)
  have h24 := alignedBufsize_ge g.b
  have hstart := start_track (cap := g.cap) (mc := g.mc) h24 (raw := []) (Nat.zero_le _) hns0
  have hstep := step_start c0 _ (hph0.trans hph) hstop1
  rw [hstart] at hstep
  have hstep' : stepConn c0 = .next (mkC c0 (.parseReq (track g.cap g.mc [])
      (.writing (run .header [] g.mc).out (run .header [] g.mc).st.isFinal)) c0.env.tr) := hstep
  have hremle : (run .header [] g.mc).rem.length ≤ g.cap := by
    have := (run_ok [] g.mc (st := .header) trivial).2.2.length_le
    simp only [List.length_nil] at this
    omega
  have hst : PStE g.cap g.mc g.W g.L0 [] (mkC c0 (.parseReq (track g.cap g.mc [])
      (.writing (run .header [] g.mc).out (run .header [] g.mc).st.isFinal)) c0.env.tr) [] :=
    ⟨by show [] ++ c0.env.tr.input ++ [] = g.W
        rw [hsame.input, hinp, List.nil_append, List.append_nil],
      hstop1, BenE.same hsame hb, hremle, Or.inr ⟨_, rfl, by show c0.env.tr.wlog ++ _ = _; rw [hsame.wlog, hlog]⟩⟩
  have hres := mparse_pollE ok hst (hsame.em.trans hem) (hsc0.trans hsc) (hmx.trans hm) (hsame.hs.trans hev)
  obtain ⟨c', r, hh, hl, ho⟩ := MResE.of_steps (Steps.one hstep') (mkC_link c0 _ (.refl _)) hres
  have hpoll := hh.pollT (by
    show 1 + (2 * c0.env.tr.input.length + 6) ≤ 100000
    rw [hsame.input]; omega)
  have hans0 : ans c0.env.tr = ans c.env.tr := by unfold ans; rw [hsame.rd, hsame.wr]
  rw [hpoll]
  rcases ho with ⟨rfl, hst', hw, ha⟩ | ⟨rfl, hfin⟩
  · simp only [hw, if_true]
    have hlen' : 2 * c'.env.tr.input.length + 6 ≤ 100000 := by
      have := hl.ts.inp
      rw [hsame.input] at this
      omega
    exact mid_runE ok (ans c'.env.tr) c' (n + 1) f hst' (hl.ts.em.trans (hsame.em.trans hem))
      (hl.segs.trans hsg) (Nat.le_refl _) (by omega) hlen'
  · exact ⟨c', rfl, hfin⟩

end Fcgi.C12E
