import Fcgi.Model.Header
import Fcgi.Model.Vars
import Fcgi.Props.C15
/-!
# Helper lemmas for C17 (record headers, fixed bodies, generated replies)

Byte/`Nat` conversions, the decimal renderer, and the facts about `NV.all` on encoder output that
`writeResponse_spec` needs (proved here locally, independent of `Props/C16`).
-/
namespace Fcgi.Proofs.Header
open Fcgi

/-! ## Bytes and big-endian fields -/

theorem ofNat_eq_of_toNat (n : Nat) (b : UInt8) (h : n % 256 = b.toNat) : UInt8.ofNat n = b := by
  apply UInt8.toNat_inj.mp
  simp [UInt8.toNat_ofNat', h]

theorem toBe16_be16 (a b : UInt8) : toBe16 (be16 a b) = [a, b] := by
  have ha := a.toNat_lt; have hb := b.toNat_lt
  simp only [toBe16, be16]
  rw [ofNat_eq_of_toNat _ a (by omega), ofNat_eq_of_toNat _ b (by omega)]

theorem toBe32_be32 (a b c d : UInt8) : toBe32 (be32 a b c d) = [a, b, c, d] := by
  have ha := a.toNat_lt; have hb := b.toNat_lt; have hc := c.toNat_lt; have hd := d.toNat_lt
  simp only [toBe32, be32]
  rw [ofNat_eq_of_toNat _ a (by omega), ofNat_eq_of_toNat _ b (by omega),
    ofNat_eq_of_toNat _ c (by omega), ofNat_eq_of_toNat _ d (by omega)]

theorem be16_lt (a b : UInt8) : be16 a b < 65536 := by
  have ha := a.toNat_lt; have hb := b.toNat_lt
  simp only [be16]; omega

theorem be32_lt (a b c d : UInt8) : be32 a b c d < 4294967296 := by
  have ha := a.toNat_lt; have hb := b.toNat_lt; have hc := c.toNat_lt; have hd := d.toNat_lt
  simp only [be32]; omega

/-! ## `decimal` -/

theorem decimal_small (n : Nat) (h : n < 10) : decimal n = [UInt8.ofNat (48 + n)] := by
  rw [decimal]; simp [h]

theorem decimal_big (n : Nat) (h : 10 ≤ n) :
    decimal n = decimal (n / 10) ++ [UInt8.ofNat (48 + n % 10)] := by
  rw [decimal]; simp [Nat.not_lt.mpr h]

theorem decimal_length_pos (n : Nat) : 1 ≤ (decimal n).length := by
  by_cases h : n < 10
  · simp [decimal_small n h]
  · rw [decimal_big n (by omega)]; simp

theorem decimal_length_le (k : Nat) : ∀ n, n < 10 ^ (k + 1) → (decimal n).length ≤ k + 1 := by
  induction k with
  | zero => intro n h; simp at h; simp [decimal_small n h]
  | succ k ih =>
    intro n h
    by_cases h10 : n < 10
    · simp [decimal_small n h10]
    · rw [decimal_big n (by omega)]
      have : n / 10 < 10 ^ (k + 1) := by
        rw [Nat.pow_succ] at h
        exact Nat.div_lt_of_lt_mul (by rw [Nat.mul_comm]; exact h)
      have := ih _ this
      simp; omega

/-! ## `NV.all` on encoder output -/

theorem next_enc (p : Bytes × Bytes) (h1 : p.1.length ≤ VarInt.maxVal)
    (h2 : p.2.length ≤ VarInt.maxVal) (r : Bytes) : NV.next (NV.enc p ++ r) = some (p, r) := by
  obtain ⟨n, v⟩ := p
  simp only [NV.enc, NV.next, List.append_assoc]
  rw [C15.roundtrip _ h1]
  simp only
  rw [C15.roundtrip _ h2]
  simp

theorem enc_length_pos (p : Bytes × Bytes) : 2 ≤ (NV.enc p).length := by
  simp [NV.enc, C15.encode_length]
  split <;> split <;> omega

theorem all_nil : NV.all [] = ([], []) := by
  rw [NV.all]; simp [NV.next, VarInt.decode]

theorem all_enc (p : Bytes × Bytes) (h1 : p.1.length ≤ VarInt.maxVal)
    (h2 : p.2.length ≤ VarInt.maxVal) (r : Bytes) :
    NV.all (NV.enc p ++ r) = (p :: (NV.all r).1, (NV.all r).2) := by
  rw [NV.all]
  have := enc_length_pos p
  simp [next_enc p h1 h2 r]
  intro h0
  rw [h0] at this
  simp at this

theorem all_flatMap_enc (ps : List (Bytes × Bytes))
    (h : ∀ p ∈ ps, p.1.length ≤ VarInt.maxVal ∧ p.2.length ≤ VarInt.maxVal) :
    NV.all (ps.flatMap NV.enc) = (ps, []) := by
  induction ps with
  | nil => simpa using all_nil
  | cons p ps ih =>
    have hp := h p (by simp)
    rw [List.flatMap_cons, all_enc p hp.1 hp.2, ih (fun q hq => h q (by simp [hq]))]

end Fcgi.Proofs.Header
