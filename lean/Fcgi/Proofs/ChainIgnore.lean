import Fcgi.Proofs.ChainAny
import Fcgi.Proofs.E2EPrefixStr
/-!
# C05 (4) at the sync level — the replies of a stream parser that skips to the record boundary

A Responder's stream parser under a history `H ++ set_stream(None) :: N`: `H` any legal history
whose `set_stream` calls name streams (for a Responder none of them switches), `N` the calls of the
skip to the record boundary — `parse(new, None)`, `compress`, `consume_output`.  `E2E.R2`
(`Proofs/E2EPrefixStr`, async level) is built from the sync-level ledger `Str.ops_refS` (`r2_start`),
kept by `N` (`r2_ops`), and read off at the record boundary (`ignore_replies`): the replies
generated over the whole history are exactly those owed for the records consumed.
-/
namespace Fcgi.C05C
open Fcgi Fcgi.Req Fcgi.Str Fcgi.Spec Fcgi.C03SI
open Fcgi.E2E (Pos R2 R2Ctx Ev view StdinRec owedI serAll_app)

/-- the calls of a skip to the record boundary -/
def SkipOps (N : List Op) : Prop :=
  ∀ op ∈ N, (∃ new, op = .parse new none) ∨ op = .compress ∨ ∃ k, op = .consumeOutput k

theorem refOut_ext {A B : RefOut} (h1 : A.content = B.content) (h2 : A.out = B.out)
    (h3 : A.verdict = B.verdict) (h4 : A.unread = B.unread) : A = B := by
  cases A; cases B; simp_all

/-- **From the reading phase to the view.**  The Responder's stream parser after a history `H`
without effective switch, then `set_stream(None)`: `R2` holds with `G` = all bytes given so far and
`dO` = all replies generated so far. -/
theorem r2_start {id mc cap : Nat} {R : List Rec} (hc : R2Ctx id mc cap R) {p0 : Str.Parser}
    (h0 : Start ⟨id, 1, 5, mc⟩ p0) (hcap : p0.cap = cap) {H : List Op} (hl : LegalAll p0 H)
    (hns : NoSwitch ⟨id, 1, 5, mc⟩ H) {fut : Bytes} (hw : p0.raw ++ fedBytes H ++ fut = serAll R) :
    R2 id mc cap R ((applyOps p0 H).switchTo none) (p0.raw ++ fedBytes H) fut (C03S.grownAll p0 H) := by
  have hRwf : ∀ r ∈ R, r.WF := fun r hr => (hc.recs r hr).1
  have hR := E2E.stdin_recsOK hc.recs
  -- framing
  have hpos : Pos R (applyOps p0 H).raw (applyOps p0 H).pay (applyOps p0 H).pad fut := by
    refine ops_pos hRwf H p0 fut h0.inv (by exact hl) ?_
    rw [h0.pay, h0.pad, fedBytes_eq]
    exact pos_start R (by rw [← List.append_assoc]; exact hw)
  obtain ⟨-, hmt, hsinv, -⟩ := ops_refS (E := ⟨id, 1, 5, mc⟩) (x := []) H p0 h0.mtch h0.inv hl hns
  have hcapH : (applyOps p0 H).cap = cap := by rw [(C05.applyOps_frame H p0).1, hcap]
  refine ⟨⟨rfl, hmt.id, hpos⟩, ⟨hmt.id, rfl, rfl, hmt.mc, (by show 8 ∈ inputStreams 3; decide)⟩, ?_, hcapH, rfl,
    hw, ?_⟩
  · obtain ⟨h1, h2, h3, h4, _, h6⟩ := hsinv
    refine ⟨?_, h2, h3, ?_, Or.inr ⟨8, rfl, (by show 8 ∈ inputStreams 3; decide)⟩, h6⟩
    · simp only [Str.Parser.freeStart, view, Str.Parser.switchTo, Str.Parser.discardStream, List.length_nil] at h1 ⊢
      omega
    · show match (if (applyOps p0 H).state == .stream then SState.skip else (applyOps p0 H).state) with
        | .values v => v < 8 | _ => True
      rw [demote_eq]
      cases hst : (applyOps p0 H).state with
      | values v => rw [hst] at h4; exact h4
      | stream => trivial
      | skip => trivial
  · intro x hx
    have hxf : x <+: fut := by
      rw [← hw] at hx
      exact (List.prefix_append_right_inj _).1 hx
    have hclean0 : E2E.CleanW id 0 0 (p0.raw ++ fedBytes H ++ x) := E2E.clean_recs id R hR _ hx
    have hclean1 : E2E.CleanW id (applyOps p0 H).pay (applyOps p0 H).pad ((applyOps p0 H).raw ++ x) :=
      E2E.clean_pos hR hpos ((List.prefix_append_right_inj _).2 hxf)
    have hwv : refWire (Ev id mc) (p0.raw ++ fedBytes H ++ x) =
        switchRef (Ev id mc) (refWire ⟨id, 1, 5, mc⟩ (p0.raw ++ fedBytes H ++ x)) := by
      rw [← ref_eq_refWire (Ev id mc) .skip, ← ref_eq_refWire ⟨id, 1, 5, mc⟩ .skip, E2E.ref_role id mc hclean0]
      exact ref_switch (E := ⟨id, 3, 5, mc⟩) E2E.later358 _ .skip 0 0
    have hrem : Rem (Ev id mc) (view ((applyOps p0 H).switchTo none)) x =
        switchRef (Ev id mc) (Rem ⟨id, 1, 5, mc⟩ (applyOps p0 H) x) := by
      unfold Rem
      show ref (Ev id mc) (if (applyOps p0 H).state == .stream then SState.skip else (applyOps p0 H).state)
        (applyOps p0 H).pay (applyOps p0 H).pad ((applyOps p0 H).raw ++ x) = _
      rw [demote_eq, E2E.ref_role id mc hclean1]
      exact ref_switch (E := ⟨id, 3, 5, mc⟩) E2E.later358 _ (applyOps p0 H).state (applyOps p0 H).pay (applyOps p0 H).pad
    -- the ledger of the reading phase, for this `x`
    obtain ⟨lost, -, -, c1, c2, c3, c4, -⟩ := ops_refS (E := ⟨id, 1, 5, mc⟩) (x := x) H p0 h0.mtch h0.inv hl hns
    rw [rem_start h0, ← List.append_assoc] at c1 c2 c3 c4
    have h1 : refWire ⟨id, 1, 5, mc⟩ (p0.raw ++ fedBytes H ++ x) =
        (Rem ⟨id, 1, 5, mc⟩ (applyOps p0 H) x).pre (availOps p0 H ++ lost) (C03S.grownAll p0 H) :=
      refOut_ext (by rw [RefOut.pre_content]; exact c1.symm) (by rw [RefOut.pre_out]; exact c2.symm)
        c3.symm c4.symm
    rw [hwv, h1, switchRef_pre, hrem]

/-- **The skip keeps `R2`**, and its replies are appended to the ledger. -/
theorem r2_ops {id mc cap : Nat} {R : List Rec} (hc : R2Ctx id mc cap R) : ∀ (N : List Op) (p : Str.Parser)
    (G fut dO : Bytes), R2 id mc cap R p G (fedBytes N ++ fut) dO → LegalAll p N → SkipOps N →
    ∃ G', R2 id mc cap R (applyOps p N) G' fut (dO ++ C03S.grownAll p N) := by
  intro N
  induction N with
  | nil => intro p G fut dO h _ _; exact ⟨G, by simpa [fedBytes, C03S.grownAll] using h⟩
  | cons op t ih =>
    intro p G fut dO h hl hs
    have hs' : SkipOps t := fun x hx => hs x (List.mem_cons_of_mem _ hx)
    rcases hs op List.mem_cons_self with ⟨new, rfl⟩ | rfl | ⟨k, rfl⟩
    · have h' : R2 id mc cap R p G (new ++ (fedBytes t ++ fut)) dO := by
        simpa [fedBytes, List.append_assoc] using h
      obtain ⟨p', st, o, hp, ho, -, -, hr2, -⟩ := E2E.parse_r2 hc h' hl.1.2
      have hap : applyOp p (.parse new none) = p' := by simp [applyOp, hp]
      have hgr : C03S.outGrowth p (.parse new none) = o := by
        simp [C03S.outGrowth, hp, ho]
      obtain ⟨G', hG⟩ := ih p' (G ++ new) fut (dO ++ o) hr2 (by rw [← hap]; exact hl.2) hs'
      refine ⟨G', ?_⟩
      rw [Str.applyOps_cons]
      simp only [C03S.grownAll]
      rw [hap, hgr, ← List.append_assoc]
      exact hG
    · have h' : R2 id mc cap R p.compress G (fedBytes t ++ fut) dO := by
        have := E2E.R2.compress h
        simpa [fedBytes] using this
      obtain ⟨G', hG⟩ := ih p.compress G fut dO h' hl.2 hs'
      refine ⟨G', ?_⟩
      show R2 id mc cap R (applyOps p.compress t) G' fut (dO ++ ([] ++ C03S.grownAll p.compress t))
      rw [List.nil_append]; exact hG
    · have h0 : R2 id mc cap R p G (fedBytes t ++ fut) dO := by simpa [fedBytes] using h
      have h' : R2 id mc cap R (p.consumeOutput k) G (fedBytes t ++ fut) dO :=
        ⟨⟨h0.ign.strm, h0.ign.rid, h0.ign.pos⟩, h0.mt.of_eq rfl rfl rfl, h0.sinv, h0.capK, h0.par, h0.wire, h0.hist⟩
      obtain ⟨G', hG⟩ := ih (p.consumeOutput k) G fut dO h' hl.2 hs'
      refine ⟨G', ?_⟩
      show R2 id mc cap R (applyOps (p.consumeOutput k) t) G' fut (dO ++ ([] ++ C03S.grownAll (p.consumeOutput k) t))
      rw [List.nil_append]; exact hG

theorem owedI_append (id mc : Nat) (a b : List Rec) : owedI id mc (a ++ b) = owedI id mc a ++ owedI id mc b := by
  simp [owedI]

/-- **The replies of a turn that skips to the record boundary.** -/
theorem ignore_replies {id mc cap : Nat} {R : List Rec} (hc : R2Ctx id mc cap R) {p0 : Str.Parser}
    (h0 : Start ⟨id, 1, 5, mc⟩ p0) (hcap : p0.cap = cap) {H N : List Op}
    (hl : LegalAll p0 (H ++ Op.setStream none :: N)) (hns : NoSwitch ⟨id, 1, 5, mc⟩ H) (hsk : SkipOps N)
    {fut : Bytes} (hw : p0.raw ++ fedBytes (H ++ Op.setStream none :: N) ++ fut = serAll R)
    (hb : (applyOps p0 (H ++ Op.setStream none :: N)).isRecordBoundary = true) :
    ∃ d rs, R = d ++ rs ∧
      C03S.grownAll p0 (H ++ Op.setStream none :: N) = owedI id mc d ∧
      p0.raw ++ fedBytes (H ++ Op.setStream none :: N) =
        serAll d ++ (applyOps p0 (H ++ Op.setStream none :: N)).raw ∧
      (applyOps p0 (H ++ Op.setStream none :: N)).raw ++ fut = serAll rs := by
  have hRwf : ∀ r ∈ R, r.WF := fun r hr => (hc.recs r hr).1
  obtain ⟨hlH, hlN⟩ := C02.LegalAll_append.1 hl
  have hfed : fedBytes (H ++ Op.setStream none :: N) = fedBytes H ++ fedBytes N := by
    rw [C02.fedBytes_append]; simp [fedBytes]
  obtain ⟨-, hmt, -, -⟩ := ops_refS (E := ⟨id, 1, 5, mc⟩) (x := []) H p0 h0.mtch h0.inv hlH hns
  have hsw : applyOp (applyOps p0 H) (.setStream none) = (applyOps p0 H).switchTo none := by
    simp only [applyOp, Str.setStream_none]
    rw [if_neg (by rw [hmt.strm]; simp)]
  have hst := r2_start hc h0 hcap hlH hns (fut := fedBytes N ++ fut)
    (by rw [← hw, hfed]; simp [List.append_assoc])
  have hlN' : LegalAll ((applyOps p0 H).switchTo none) N := by rw [← hsw]; exact hlN.2
  obtain ⟨G', hr2⟩ := r2_ops hc N _ _ fut _ hst hlN' hsk
  have happ : applyOps p0 (H ++ Op.setStream none :: N) = applyOps ((applyOps p0 H).switchTo none) N := by
    rw [applyOps_append, Str.applyOps_cons, hsw]
  have hgr : C03S.grownAll p0 (H ++ Op.setStream none :: N) =
      C03S.grownAll p0 H ++ C03S.grownAll ((applyOps p0 H).switchTo none) N := by
    rw [grownAll_append]
    simp [C03S.grownAll, C03S.outGrowth, hsw]
  rw [happ] at hb ⊢
  rw [hgr]
  -- the framing at the boundary
  obtain ⟨d, rs, hsplit, hrs, hcons⟩ := handover_records hRwf h0.inv h0.pay h0.pad
    (by exact hl) (by rw [fedBytes_eq]; exact hw) (by rw [happ]; exact hb)
  rw [fedBytes_eq] at hcons
  rw [happ] at hcons hrs
  refine ⟨d, rs, hsplit, ?_, hcons, hrs⟩
  -- the ledger at the boundary
  have hnow := (hr2.now hc).2.1
  have hb' : (applyOps ((applyOps p0 H).switchTo none) N).pay = 0 ∧
      (applyOps ((applyOps p0 H).switchTo none) N).pad = 0 := by
    simpa [Str.Parser.isRecordBoundary] using hb
  have hrsR : ∀ r ∈ rs, StdinRec id r := fun r hr => hc.recs r (by rw [hsplit]; exact List.mem_append_right _ hr)
  have hrem : (Rem (Ev id mc) (view (applyOps ((applyOps p0 H).switchTo none) N)) fut).out = owedI id mc rs := by
    unfold Rem
    show (ref (Ev id mc) (applyOps ((applyOps p0 H).switchTo none) N).state
      (applyOps ((applyOps p0 H).switchTo none) N).pay (applyOps ((applyOps p0 H).switchTo none) N).pad
      ((applyOps ((applyOps p0 H).switchTo none) N).raw ++ fut)).out = _
    rw [hb'.1, hb'.2, ref_eq_refWire, hrs, E2E.refWire_view id mc hrsR]
  rw [hrem, hsplit, owedI_append] at hnow
  exact List.append_cancel_right hnow

end Fcgi.C05C
