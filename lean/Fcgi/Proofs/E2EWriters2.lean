import Fcgi.Proofs.E2EWritersChain
import Fcgi.Props.C12Inv
/-!
# End-to-end composition (C07/C10) — two writers, any sequence of `write_all` AND `flush` calls

`Proofs/E2EWriters` with `flush` ops anywhere in the script, over a transport with an arbitrary script of flush
answers (`Pending` / `Ok`; `FlOk`: no error answer).  A `Pending` flush wakes the task without consuming a read or
write answer, so the measure of the executors is `mu = |rd| + |wr| + |fl|` here, and the relation between successive
polls is `LinkF` (`Link` without the clause that ties wake-ups to read/write answers).  That the flush script only
shrinks (needed for `FlOk` and for the measure) comes from the whole-model invariant of `Proofs/C12Inv`
(`Clean` ⇒ the consumed flush answers are a prefix of the script).
-/
namespace Fcgi.E2E
open Fcgi Fcgi.Req Fcgi.Str Fcgi.Async Fcgi.Run Fcgi.Spec Fcgi.C09E

/-! ## The flush script -/

/-- no error among the scripted flush answers -/
def FlOk (t : Transport) : Prop := ∀ a ∈ t.fl, a ≠ FlAns.err

/-- scripted answers still to come, flush answers included -/
def mu (t : Transport) : Nat := ans t + t.fl.length

theorem FlOk.suffix {t t' : Transport} (h : FlOk t) (hs : t'.fl <:+ t.fl) : FlOk t' :=
  fun a ha => h a (hs.subset ha)

theorem fl_of_clean {t t' : Transport} (h : C12Inv.Clean t t') : t'.fl <:+ t.fl := by
  obtain ⟨cw, cf, d, _, hf, _⟩ := h.answers
  exact ⟨cf, hf.symm⟩

theorem fl_of_wout {t t' : Transport} (h : C12Inv.WOut t t' false) : t'.fl <:+ t.fl := fl_of_clean h.toClean

/-- `TStep` without the clause on wake-ups -/
structure TF (t t' : Transport) : Prop where
  tle : TLe t t'
  rd : t'.rd <:+ t.rd
  wr : t'.wr <:+ t.wr
  hold : t'.hold = t.hold
  em : t'.endMode = t.endMode

theorem TStep.tf {t t' : Transport} (h : TStep t t') : TF t t' := ⟨h.tle, h.rd, h.wr, h.hold, h.em⟩
theorem TF.refl (t : Transport) : TF t t := (TStep.refl t).tf
theorem TF.trans {a b c : Transport} (h1 : TF a b) (h2 : TF b c) : TF a c :=
  ⟨h1.tle.trans h2.tle, h2.rd.trans h1.rd, h2.wr.trans h1.wr, h2.hold.trans h1.hold, h2.em.trans h1.em⟩
theorem TF.ans_le {t t' : Transport} (s : TF t t') : ans t' ≤ ans t := by
  have h1 := s.rd.length_le
  have h2 := s.wr.length_le
  unfold ans; omega
theorem TF.ben {t t' : Transport} (s : TF t t') (h : Ben t) : Ben t' :=
  ⟨fun a ha => h.rd a (s.rd.subset ha), fun a ha => h.wr a (s.wr.subset ha),
   s.hold.trans h.hold, by rw [s.em]; exact h.em⟩
theorem mu_le {t t' : Transport} (s : TF t t') (hf : t'.fl <:+ t.fl) : mu t' ≤ mu t := by
  have := s.ans_le; have := hf.length_le; unfold mu; omega

/-! ## `write_all`, with the flush script tracked -/

/-- What `handlerPoll` does for a `writeAll me data` on writer `me` of the table `ws`. -/
theorem writeAll_run2F {ty me id : Nat} (r : AReq) (data : Bytes) (rest : List HOp) (pr : Bool) :
    ∀ (N fuel : Nat) (sub : HSub) (ws : List (Option Writer)) (w : Writer) (e : Run.Env) (L sent : Bytes),
      me < ws.length → ws.getD me none = some w →
      (restOf sub data).length ≤ N → wcost (restOf sub data).length ≤ fuel → Ben e.tr →
      WSt2 ty me id w e.mutex (restOf sub data) sent → e.tr.wlog = L ++ sent →
      (∃ (w' : Writer) (e' : Run.Env) (rd' L' sent' : Bytes),
          handlerPoll fuel r { ops := .writeAll me data :: rest, sub := sub, writers := ws, propagate := pr } e =
            (r, { ops := .writeAll me data :: rest, sub := .writeRest rd', writers := ws.set me (some w'), propagate := pr },
              e', .pending) ∧
          rd' ≠ [] ∧ e'.tr.wlog = L' ++ sent' ∧
          L' ++ streamRecords ty id rd' = L ++ streamRecords ty id (restOf sub data) ∧
          WSt2 ty me id w' e'.mutex rd' sent' ∧ rd'.length ≤ (restOf sub data).length ∧
          TStep e.tr e'.tr ∧ e'.tr.input = e.tr.input ∧ e'.segs = e.segs ∧
          e'.tr.woken = true ∧ ans e'.tr < ans e.tr ∧ e'.tr.fl <:+ e.tr.fl) ∨
      (∃ (w' : Writer) (e' : Run.Env) (fuel' : Nat),
          handlerPoll fuel r { ops := .writeAll me data :: rest, sub := sub, writers := ws, propagate := pr } e =
            handlerPoll fuel' r { ops := rest, sub := .fresh, writers := ws.set me (some w'), propagate := pr } (e'.ev "W=ok") ∧
          fuel ≤ fuel' + wcost (restOf sub data).length ∧
          e'.tr.wlog = L ++ streamRecords ty id (restOf sub data) ∧
          WIdle ty id w' ∧ e'.mutex = none ∧
          TStep e.tr e'.tr ∧ e'.tr.input = e.tr.input ∧ e'.segs = e.segs ∧ e'.tr.fl <:+ e.tr.fl) := by
  intro N
  induction N with
  | zero =>
    intro fuel sub ws w e L sent hi hw hN hf hb hs hl
    have hrd : restOf sub data = [] := List.length_eq_zero_iff.1 (by omega)
    obtain ⟨f, rfl⟩ : ∃ f, fuel = f + 1 := ⟨fuel - 1, by unfold wcost at hf; omega⟩
    right
    rw [hp_writeAll f r me data rest sub ws w hw pr e]
    simp only [hrd, List.isEmpty_nil, if_true]
    obtain ⟨hty, hid, hst | ⟨hinv, _, _⟩⟩ := hs
    · obtain ⟨a1, a2, a3, a4⟩ := hst
      subst a4
      have hset : ws.set me (some w) = ws := by
        apply List.ext_getElem?
        intro j
        by_cases hj : j = me
        · subst hj
          rw [List.getElem?_set_self hi]
          have := hw
          simp only [List.getD] at this
          cases hg : ws[j]? with
          | none => simp [hg] at this
          | some x => simp [hg] at this; rw [this]
        · rw [List.getElem?_set_ne (fun h => hj h.symm)]
      refine ⟨w, e, f, by rw [hset], by unfold wcost; simp, by simpa [streamRecords_nil] using hl, ⟨hty, hid, a1, a2⟩, a3,
        .refl _, rfl, rfl, List.suffix_refl _⟩
    · have := hinv.loop.pos
      rw [hrd] at this
      simp at this
  | succ N ih =>
    intro fuel sub ws w e L sent hi hw hN hf hb hs hl
    by_cases hrd : restOf sub data = []
    · exact ih fuel sub ws w e L sent hi hw (by rw [hrd]; simp) hf hb hs hl
    · obtain ⟨f, rfl⟩ : ∃ f, fuel = f + 1 := ⟨fuel - 1, by unfold wcost at hf; omega⟩
      have hpos : 0 < (restOf sub data).length := List.length_pos_iff.mpr hrd
      rw [hp_writeAll f r me data rest sub ws w hw pr e]
      have hemp : (restOf sub data).isEmpty = false := by simpa using hrd
      simp only [hemp, Bool.false_eq_true, if_false]
      rcases hpw : w.pollWrite me (restOf sub data) e.mutex e.tr with ⟨w1, m1, t1, res⟩
      obtain ⟨s1, s2, s3⟩ := pw_step2 hs hrd hb hl hpw
      have hwo := C12Inv.pollWrite_wout hpw
      cases res with
      | pending =>
        left
        obtain ⟨sent', b1, b2, b3, b4⟩ := s3
        exact ⟨w1, { e with mutex := m1, tr := t1 }, restOf sub data, L, sent', rfl, hrd, b1, rfl, b2,
          Nat.le_refl _, s1, s2, rfl, b3, b4, fl_of_wout hwo⟩
      | err x => exact s3.elim
      | panic s => exact s3.elim
      | ready n =>
        obtain ⟨c1, c2, c3, _, _⟩ := s3
        have hfl1 : t1.fl <:+ e.tr.fl := fl_of_wout hwo
        have hn : n ≠ 0 := by omega
        obtain ⟨n', rfl⟩ : ∃ n', n = n' + 1 := ⟨n - 1, by omega⟩
        simp only
        have hdrop : (restOf sub data).drop (n' + 1) = (restOf sub data).drop 65535 := by
          rw [c1, drop_min_len]
        rw [hdrop]
        have hlen' : ((restOf sub data).drop 65535).length ≤ N := by
          simp only [List.length_drop]; omega
        have hcost : wcost ((restOf sub data).drop 65535).length ≤ f := by
          unfold wcost at hf ⊢
          simp only [List.length_drop]
          omega
        have hrec := streamRecords_cons ty id hrd
        have hi' : me < (ws.set me (some w1)).length := by rw [List.length_set]; exact hi
        have hss : ∀ x : Writer, (ws.set me (some w1)).set me (some x) = ws.set me (some x) := fun x => by simp
        rcases ih f (.writeRest ((restOf sub data).drop 65535)) (ws.set me (some w1)) w1 { e with mutex := m1, tr := t1 }
            (L ++ recordOf ty id ((restOf sub data).take 65535)) [] hi' (getD_set_self ws me hi w1) hlen' hcost (hb.step s1) c3
            (by simpa using c2) with
          ⟨w2, e2, rd2, L2, sent2, d1, d2, d3, d4, d5, d6, d7, d8, d9, d10, d11, d12⟩ |
          ⟨w2, e2, f2, d1, d2, d3, d4, d5, d6, d7, d8, d9⟩
        · left
          rw [hss] at d1
          refine ⟨w2, e2, rd2, L2, sent2, d1, d2, d3, ?_, d5, ?_, s1.trans d7, d8.trans s2, d9, d10, ?_, d12.trans hfl1⟩
          · rw [d4, hrec, List.append_assoc]; rfl
          · have d6' : rd2.length ≤ ((restOf sub data).drop 65535).length := d6
            simp only [List.length_drop] at d6'; omega
          · have := s1.ans_le
            have d11' : ans e2.tr < ans t1 := d11
            omega
        · right
          rw [hss] at d1
          refine ⟨w2, e2, f2, d1, ?_, ?_, d4, d5, s1.trans d6, d7.trans s2, d8, d9.trans hfl1⟩
          · have d2' : f ≤ f2 + wcost ((restOf sub data).drop 65535).length := d2
            unfold wcost at d2' ⊢
            simp only [List.length_drop] at d2'
            omega
          · rw [d3, hrec, List.append_assoc]; rfl


/-! ## `flush` -/

theorem flush_cases (t : Transport) (hok : FlOk t) :
    t.flush.1.wlog = t.wlog ∧ t.flush.1.input = t.input ∧ t.flush.1.fl <:+ t.fl ∧ ans t.flush.1 = ans t ∧
    TF t t.flush.1 ∧
    ((t.flush.2 = .ready (.ok ()) ∧ TStep t t.flush.1) ∨
     (t.flush.2 = .pending ∧ t.flush.1.woken = true ∧ t.flush.1.fl.length < t.fl.length)) := by
  have hle := flush_le' t
  obtain ⟨input, endMode, rd, wr, fl, wlog, events, hold, woken, readWaker, abortKind⟩ := t
  rcases fl with _ | ⟨a, rest⟩
  · refine ⟨rfl, rfl, List.suffix_refl _, rfl, ⟨hle, List.suffix_refl _, List.suffix_refl _, rfl, rfl⟩,
      Or.inl ⟨rfl, ⟨hle, List.suffix_refl _, List.suffix_refl _, rfl, rfl, Or.inl rfl⟩⟩⟩
  · cases a with
    | ok =>
      refine ⟨rfl, rfl, List.suffix_cons _ _, rfl, ⟨hle, List.suffix_refl _, List.suffix_refl _, rfl, rfl⟩,
        Or.inl ⟨rfl, ⟨hle, List.suffix_refl _, List.suffix_refl _, rfl, rfl, Or.inl rfl⟩⟩⟩
    | pending =>
      refine ⟨rfl, rfl, List.suffix_cons _ _, rfl, ⟨hle, List.suffix_refl _, List.suffix_refl _, rfl, rfl⟩,
        Or.inr ⟨rfl, rfl, by simp [Transport.flush, Transport.ev]⟩⟩
    | err => exact absurd rfl (hok .err (by simp))

theorem hp_flush (fuel : Nat) (r : AReq) (i : Nat) (rest : List HOp) (sub : HSub)
    (ws : List (Option Writer)) (w : Writer) (hw : ws.getD i none = some w) (pr : Bool) (e : Run.Env) :
    handlerPoll (fuel + 1) r { ops := .flush i :: rest, sub := sub, writers := ws, propagate := pr } e =
      match w.pollFlush i e.mutex e.tr with
      | (w, m, t, .pending) =>
        (r, { ops := .flush i :: rest, sub := sub, writers := ws.set i (some w), propagate := pr },
          { e with mutex := m, tr := t }, .pending)
      | (w, m, t, .ready _) =>
        handlerPoll fuel r { ops := rest, sub := .fresh, writers := ws.set i (some w), propagate := pr }
          ({ e with mutex := m, tr := t }.ev "F=ok")
      | (w, m, t, .err x) =>
        if pr then (r, { ops := rest, sub := .fresh, writers := ws.set i (some w), propagate := pr },
            ({ e with mutex := m, tr := t }.ev s!"F!{showIo x}"), .done (.error x))
        else handlerPoll fuel r { ops := rest, sub := .fresh, writers := ws.set i (some w), propagate := pr }
            ({ e with mutex := m, tr := t }.ev s!"F!{showIo x}")
      | (w, m, t, .panic s) =>
        (r, { ops := .flush i :: rest, sub := sub, writers := ws.set i (some w), propagate := pr },
          { e with mutex := m, tr := t }, .panic s) := by
  simp only [handlerPoll, hw]
  rfl

theorem pollFlush_eq (w : Writer) (i : Nat) (m : MutexSt) (t : Transport) (hwr : w.isWriting = false)
    (hst : (w.lock = .none ∧ m = none) ∨ (w.lock = .held ∧ m = some (i + 1))) :
    w.pollFlush i m t =
      match t.flush with
      | (t', .pending) => ({ w with lock := .held }, some (i + 1), t', .pending)
      | (t', .ready (.ok ())) => ({ w with lock := .none }, none, t', .ready 0)
      | (t', .ready (.error e)) => ({ w with lock := .none }, none, t', .err e) := by
  rcases hst with ⟨hl, hm⟩ | ⟨hl, hm⟩
  · simp only [Writer.pollFlush, hwr, hl, hm, lockPoll]
    rcases t.flush with ⟨t', (_ | _) | _⟩ <;> rfl
  · simp only [Writer.pollFlush, hwr, hl, hm, lockPoll]
    rcases t.flush with ⟨t', (_ | _) | _⟩ <;> rfl

/-! ## The tail: any sequence of `write_all` and `flush` calls -/

/-- an output op of the script: `write_all(data)` or `flush()` on writer `i` (0 = Stdout, 1 = Stderr) -/
inductive WOp
  | w (i : _root_.Fin 2) (data : Bytes)
  | f (i : _root_.Fin 2)

abbrev FList := List WOp

def WOp.hop : WOp → HOp
  | .w i d => .writeAll i.val d
  | .f i => .flush i.val

def ftail (W : FList) (st : ExitStatus) : List HOp := W.map WOp.hop ++ [.dropW 0, .dropW 1, .ret st]
def otailF (W : FList) (st : ExitStatus) : List HOp := .open_ 6 :: .open_ 7 :: ftail W st

/-- the writes of the script, flushes erased -/
def writesOf : FList → WList
  | [] => []
  | .w i d :: W => (i, d) :: writesOf W
  | .f _ :: W => writesOf W

/-- fuel the ops need in `handlerPoll`: one unit per flush (per poll) -/
def fcost : FList → Nat
  | [] => 0
  | .w _ d :: W => wcost d.length + fcost W
  | .f _ :: W => 1 + fcost W

/-- writer `i` holds the lock for its flush -/
structure FHeld (ty id me : Nat) (w : Writer) (m : MutexSt) : Prop where
  ty : w.rtype = ty
  id : w.id = id
  lock : w.lock = .held
  wr : w.isWriting = false
  mx : m = some (me + 1)

/-- handler suspended in ONE `write_all` (as `HW2`) or in ONE `flush` (writer `i` holds the lock, nothing of it on
the wire); every other writer is idle; the ops after it are `W'` -/
structure HW3 (id : Nat) (W : FList) (st : ExitStatus) (Lb : Bytes) (h : HState) (e : Run.Env) : Prop where
  pr : h.propagate = true
  ex : ∃ (i : _root_.Fin 2) (W' : FList) (ws : _root_.Fin 2 → Writer),
    h.writers = wtab ws ∧ (∀ j : _root_.Fin 2, j ≠ i → WIdle (6 + j.val) id (ws j)) ∧
    ((∃ (data L sent : Bytes), h.ops = .writeAll i.val data :: ftail W' st ∧
        WSt2 (6 + i.val) i.val id (ws i) e.mutex (restOf h.sub data) sent ∧
        e.tr.wlog = L ++ sent ∧
        L ++ (streamRecords (6 + i.val) id (restOf h.sub data) ++ outOf id (writesOf W')) = Lb ++ outOf id (writesOf W) ∧
        wcost (restOf h.sub data).length + fcost W' ≤ fcost W) ∨
     (h.ops = .flush i.val :: ftail W' st ∧ FHeld (6 + i.val) id i.val (ws i) e.mutex ∧
        e.tr.wlog ++ outOf id (writesOf W') = Lb ++ outOf id (writesOf W) ∧ 1 + fcost W' ≤ fcost W))

/-- result of one poll of the tail -/
def WOut3 (id : Nat) (W : FList) (st : ExitStatus) (Lb : Bytes) (r : AReq) (e : Run.Env)
    (out : AReq × HState × Run.Env × HRes) : Prop :=
  out.1 = r ∧ out.2.2.1.tr.input = e.tr.input ∧ out.2.2.1.segs = e.segs ∧ out.2.2.1.tr.fl <:+ e.tr.fl ∧
  TF e.tr out.2.2.1.tr ∧
  ((out.2.2.2 = .pending ∧ out.2.2.1.tr.woken = true ∧ mu out.2.2.1.tr < mu e.tr ∧
      HW3 id W st Lb out.2.1 out.2.2.1) ∨
   (out.2.2.2 = .done (.ok st) ∧ TStep e.tr out.2.2.1.tr ∧ out.2.1.writers = [none, none] ∧ out.2.2.1.mutex = none ∧
      out.2.2.1.tr.wlog = Lb ++ outOf id (writesOf W)))

theorem WOut3.after {id : Nat} {W : FList} {st : ExitStatus} {Lb : Bytes} {r : AReq} {e e0 : Run.Env}
    {out : AReq × HState × Run.Env × HRes} (h : WOut3 id W st Lb r e out)
    (hts : TStep e0.tr e.tr) (hfl : e.tr.fl <:+ e0.tr.fl) (hin : e.tr.input = e0.tr.input) (hsg : e.segs = e0.segs) :
    WOut3 id W st Lb r e0 out := by
  obtain ⟨q0, q2, q3, qf, q1, q4⟩ := h
  refine ⟨q0, q2.trans hin, q3.trans hsg, qf.trans hfl, hts.tf.trans q1, ?_⟩
  rcases q4 with ⟨a1, a2, a3, a4⟩ | ⟨a1, a2, a3⟩
  · exact Or.inl ⟨a1, a2, by have := mu_le hts.tf hfl; omega, a4⟩
  · exact Or.inr ⟨a1, hts.trans a2, a3⟩

theorem ftail_w (i : _root_.Fin 2) (d : Bytes) (W : FList) (st : ExitStatus) :
    ftail (.w i d :: W) st = .writeAll i.val d :: ftail W st := rfl
theorem ftail_f (i : _root_.Fin 2) (W : FList) (st : ExitStatus) :
    ftail (.f i :: W) st = .flush i.val :: ftail W st := rfl

/-- **The tail from between two ops** (all writers idle, the mutex free). -/
theorem tail_run3 (id : Nat) (r : AReq) (st : ExitStatus) (Wall : FList) (Lb : Bytes) :
    ∀ (W : FList) (fuel : Nat) (ws : _root_.Fin 2 → Writer) (e : Run.Env),
      fcost W + 4 ≤ fuel → Ben e.tr → FlOk e.tr → (∀ j : _root_.Fin 2, WIdle (6 + j.val) id (ws j)) → e.mutex = none →
      e.tr.wlog ++ outOf id (writesOf W) = Lb ++ outOf id (writesOf Wall) → fcost W ≤ fcost Wall →
      WOut3 id Wall st Lb r e (handlerPoll fuel r
        { ops := ftail W st, sub := .fresh, writers := wtab ws, propagate := true } e) := by
  intro W
  induction W with
  | nil =>
    intro fuel ws e hf hb hok hid hm hL _
    obtain ⟨f, rfl⟩ : ∃ f, fuel = f + 3 := ⟨fuel - 3, by omega⟩
    show WOut3 id Wall st Lb r e (handlerPoll (f + 2 + 1) r
      { ops := .dropW 0 :: [.dropW 1, .ret st], sub := .fresh, writers := wtab ws, propagate := true } e)
    rw [hp_dropW]
    simp only [wtab, List.getD_cons_zero, List.set_cons_zero]
    rw [hp_dropW]
    simp only [List.getD_cons_succ, List.getD_cons_zero, List.set_cons_succ, List.set_cons_zero]
    rw [hp_ret]
    refine ⟨rfl, rfl, rfl, List.suffix_refl _, .refl _, Or.inr ⟨rfl, .refl _, rfl, ?_, ?_⟩⟩
    · show lockDrop (ws 1).lock (lockDrop (ws 0).lock e.mutex) = none
      rw [(hid 0).lock, (hid 1).lock, hm]; rfl
    · show e.tr.wlog = _
      simpa [outOf, writesOf] using hL
  | cons x W ih =>
    intro fuel ws e hf hb hok hid hm hL hc
    cases x with
    | w i data =>
      rw [ftail_w]
      have hcost : fcost (.w i data :: W) = wcost data.length + fcost W := rfl
      rw [hcost] at hf hc
      have hout : outOf id (writesOf (.w i data :: W)) = streamRecords (6 + i.val) id data ++ outOf id (writesOf W) := rfl
      rw [hout] at hL
      rcases writeAll_run2F (ty := 6 + i.val) (me := i.val) (id := id) r data (ftail W st) true data.length fuel .fresh
          (wtab ws) (ws i) e e.tr.wlog [] (by show i.val < 2; exact i.isLt) (wtab_get ws i) (Nat.le_refl _) (by
            show wcost data.length ≤ fuel; omega) hb (by rw [hm]; exact (hid i).wst i.val data) (by simp) with
        ⟨w', e', rd', L', sent', d1, d2, d3, d4, d5, d6, d7, d8, d9, d10, d11, d12⟩ |
        ⟨w', e', f', d1, d2, d3, d4, d5, d6, d7, d8, d9⟩
      · rw [d1]
        refine ⟨rfl, d8, d9, d12, d7.tf, Or.inl ⟨rfl, d10, ?_, rfl, i, W, (fun j => if j = i then w' else ws j),
          wtab_set ws i w', ?_, Or.inl ⟨data, L', sent', rfl, ?_, d3, ?_, ?_⟩⟩⟩
        · show mu e'.tr < mu e.tr
          have := d12.length_le; unfold mu; omega
        · intro j hj; simp only [if_neg hj]; exact hid j
        · simp only [if_true]; exact d5
        · show L' ++ (streamRecords (6 + i.val) id rd' ++ outOf id (writesOf W)) = _
          rw [← List.append_assoc, d4, ← hL]
          simp [restOf]
        · show wcost rd'.length + fcost W ≤ fcost Wall
          have d6' : rd'.length ≤ data.length := d6
          have : wcost rd'.length ≤ wcost data.length := by unfold wcost; omega
          omega
      · rw [d1, wtab_set]
        have d2' : fuel ≤ f' + wcost data.length := d2
        have d3' : e'.tr.wlog = e.tr.wlog ++ streamRecords (6 + i.val) id data := d3
        have hs1 : TStep e.tr (e'.ev "W=ok").tr := d6.trans (TStep.ev _ (by decide))
        refine (ih f' (fun j => if j = i then w' else ws j) (e'.ev "W=ok") (by omega) (hb.step hs1) (hok.suffix d9) ?_ d5 ?_
          (by omega)).after hs1 d9 d7 d8
        · intro j
          by_cases hj : j = i
          · subst hj; simp only [if_true]; exact d4
          · simp only [if_neg hj]; exact hid j
        · show (e'.tr.ev "W=ok").wlog ++ outOf id (writesOf W) = _
          rw [Transport.ev_wlog, d3', List.append_assoc]; exact hL
    | f i =>
      rw [ftail_f]
      have hcost : fcost (.f i :: W) = 1 + fcost W := rfl
      rw [hcost] at hf hc
      have hout : outOf id (writesOf (.f i :: W)) = outOf id (writesOf W) := rfl
      rw [hout] at hL
      obtain ⟨f, rfl⟩ : ∃ f, fuel = f + 1 := ⟨fuel - 1, by omega⟩
      rw [hp_flush f r i.val (ftail W st) .fresh (wtab ws) (ws i) (wtab_get ws i) true e,
        pollFlush_eq (ws i) i.val e.mutex e.tr (hid i).wr (Or.inl ⟨(hid i).lock, hm⟩)]
      obtain ⟨c1, c2, c3, c4, c5, c6⟩ := flush_cases e.tr hok
      rcases hfl : e.tr.flush with ⟨t', res⟩
      rw [hfl] at c1 c2 c3 c4 c5 c6
      simp only at c1 c2 c3 c4 c5 c6
      rcases c6 with ⟨rfl, c7⟩ | ⟨rfl, c7, c8⟩
      · simp only
        rw [wtab_set]
        have hs1 : TStep e.tr (({ e with mutex := none, tr := t' } : Run.Env).ev "F=ok").tr :=
          c7.trans (TStep.ev _ (by decide))
        refine (ih f (fun j => if j = i then { ws i with lock := .none } else ws j)
          (({ e with mutex := none, tr := t' } : Run.Env).ev "F=ok") (by omega) (hb.step hs1) (hok.suffix c3) ?_ rfl ?_
          (by omega)).after hs1 c3 c2 rfl
        · intro j
          by_cases hj : j = i
          · subst hj; simp only [if_true]; exact ⟨(hid j).ty, (hid j).id, rfl, (hid j).wr⟩
          · simp only [if_neg hj]; exact hid j
        · show (t'.ev "F=ok").wlog ++ outOf id (writesOf W) = _
          rw [Transport.ev_wlog, c1]; exact hL
      · simp only
        rw [wtab_set]
        refine ⟨rfl, c2, rfl, c3, c5, Or.inl ⟨rfl, c7, by show mu t' < mu e.tr; unfold mu; omega, rfl, i, W,
          (fun j => if j = i then { ws i with lock := .held } else ws j), rfl, ?_, Or.inr ⟨rfl, ?_, ?_, by omega⟩⟩⟩
        · intro j hj; simp only [if_neg hj]; exact hid j
        · simp only [if_true]; exact ⟨(hid i).ty, (hid i).id, rfl, (hid i).wr, rfl⟩
        · show t'.wlog ++ _ = _
          rw [c1]; exact hL

/-- **One poll of the tail**, the handler suspended in a `write_all` or in a `flush`. -/
theorem write_phase3 {id : Nat} {W : FList} {st : ExitStatus} {Lb : Bytes}
    {r : AReq} {h : HState} {e : Run.Env} (hw : HW3 id W st Lb h e) (hb : Ben e.tr) (hok : FlOk e.tr)
    {fuel : Nat} (hf : fcost W + 4 ≤ fuel) :
    WOut3 id W st Lb r e (handlerPoll fuel r h e) := by
  obtain ⟨ops, sub, wsl, pr⟩ := h
  obtain ⟨hpr, i, W', ws, hws, hidle, hcase⟩ := hw
  simp only at hpr hws hcase
  subst hpr hws
  rcases hcase with ⟨data, L, sent, hops, hst, hlog, hL, hc⟩ | ⟨hops, hheld, hL, hc⟩
  · subst hops
    rcases writeAll_run2F (ty := 6 + i.val) (me := i.val) (id := id) r data (ftail W' st) true (restOf sub data).length fuel sub
        (wtab ws) (ws i) e L sent (by show i.val < 2; exact i.isLt) (wtab_get ws i) (Nat.le_refl _) (by omega) hb hst hlog with
      ⟨w', e', rd', L', sent', d1, d2, d3, d4, d5, d6, d7, d8, d9, d10, d11, d12⟩ |
      ⟨w', e', f', d1, d2, d3, d4, d5, d6, d7, d8, d9⟩
    · rw [d1]
      refine ⟨rfl, d8, d9, d12, d7.tf, Or.inl ⟨rfl, d10, ?_, rfl, i, W', (fun j => if j = i then w' else ws j),
        wtab_set ws i w', ?_, Or.inl ⟨data, L', sent', rfl, ?_, d3, ?_, ?_⟩⟩⟩
      · show mu e'.tr < mu e.tr
        have := d12.length_le; unfold mu; omega
      · intro j hj; simp only [if_neg hj]; exact hidle j hj
      · simp only [if_true]; exact d5
      · show L' ++ (streamRecords (6 + i.val) id rd' ++ outOf id (writesOf W')) = _
        rw [← List.append_assoc, d4, List.append_assoc]; exact hL
      · show wcost rd'.length + fcost W' ≤ fcost W
        have : wcost rd'.length ≤ wcost (restOf sub data).length := by unfold wcost; omega
        omega
    · rw [d1, wtab_set]
      have hs1 : TStep e.tr (e'.ev "W=ok").tr := d6.trans (TStep.ev _ (by decide))
      refine (tail_run3 id r st W Lb W' f' (fun j => if j = i then w' else ws j) (e'.ev "W=ok") (by omega) (hb.step hs1)
        (hok.suffix d9) ?_ d5 ?_ (by omega)).after hs1 d9 d7 d8
      · intro j
        by_cases hj : j = i
        · subst hj; simp only [if_true]; exact d4
        · simp only [if_neg hj]; exact hidle j hj
      · show (e'.tr.ev "W=ok").wlog ++ outOf id (writesOf W') = _
        rw [Transport.ev_wlog, d3, List.append_assoc]; exact hL
  · subst hops
    obtain ⟨f, rfl⟩ : ∃ f, fuel = f + 1 := ⟨fuel - 1, by omega⟩
    rw [hp_flush f r i.val (ftail W' st) sub (wtab ws) (ws i) (wtab_get ws i) true e,
      pollFlush_eq (ws i) i.val e.mutex e.tr hheld.wr (Or.inr ⟨hheld.lock, hheld.mx⟩)]
    obtain ⟨c1, c2, c3, c4, c5, c6⟩ := flush_cases e.tr hok
    rcases hfl : e.tr.flush with ⟨t', res⟩
    rw [hfl] at c1 c2 c3 c4 c5 c6
    simp only at c1 c2 c3 c4 c5 c6
    rcases c6 with ⟨rfl, c7⟩ | ⟨rfl, c7, c8⟩
    · simp only
      rw [wtab_set]
      have hs1 : TStep e.tr (({ e with mutex := none, tr := t' } : Run.Env).ev "F=ok").tr :=
        c7.trans (TStep.ev _ (by decide))
      refine (tail_run3 id r st W Lb W' f (fun j => if j = i then { ws i with lock := .none } else ws j)
        (({ e with mutex := none, tr := t' } : Run.Env).ev "F=ok") (by omega) (hb.step hs1) (hok.suffix c3) ?_ rfl ?_
        (by omega)).after hs1 c3 c2 rfl
      · intro j
        by_cases hj : j = i
        · subst hj; simp only [if_true]; exact ⟨hheld.ty, hheld.id, rfl, hheld.wr⟩
        · simp only [if_neg hj]; exact hidle j hj
      · show (t'.ev "F=ok").wlog ++ outOf id (writesOf W') = _
        rw [Transport.ev_wlog, c1]; exact hL
    · simp only
      rw [wtab_set]
      refine ⟨rfl, c2, rfl, c3, c5, Or.inl ⟨rfl, c7, by show mu t' < mu e.tr; unfold mu; omega, rfl, i, W',
        (fun j => if j = i then { ws i with lock := .held } else ws j), rfl, ?_, Or.inr ⟨rfl, ?_, ?_, hc⟩⟩⟩
      · intro j hj; simp only [if_neg hj]; exact hidle j hj
      · simp only [if_true]; exact ⟨hheld.ty, hheld.id, rfl, hheld.wr, rfl⟩
      · show t'.wlog ++ _ = _
        rw [c1]; exact hL

/-- **The tail from its start**: both writers are opened, then the ops. -/
theorem open_phase3 {W : FList} {st : ExitStatus} {Lb : Bytes} {r : AReq} {e : Run.Env}
    (hwr : r.writeable = true) (hm : e.mutex = none) (hlog : e.tr.wlog = Lb)
    (hb : Ben e.tr) (hok : FlOk e.tr) {fuel : Nat} (hf : fcost W + 6 ≤ fuel) :
    WOut3 r.sp.request.id W st Lb r e (handlerPoll fuel r { ops := otailF W st, propagate := true } e) := by
  obtain ⟨f2, rfl⟩ : ∃ f2, fuel = f2 + 2 := ⟨fuel - 2, by omega⟩
  show WOut3 _ W st Lb r e (handlerPoll (f2 + 1 + 1) r
    { ops := .open_ 6 :: .open_ 7 :: ftail W st, sub := .fresh, writers := [], propagate := true } e)
  rw [hp_open]
  rw [if_neg (by simp [hwr, outputStreams, RT.stdout, RT.stderr])]
  rw [hp_open]
  rw [if_neg (by simp [hwr, outputStreams, RT.stdout, RT.stderr])]
  have hs1 : TStep e.tr ((e.ev s!"o=w{([] : List (Option Writer)).length}").ev
      s!"o=w{(([] : List (Option Writer)) ++ [some ({ rtype := 6, id := r.sp.request.id } : Writer)]).length}").tr :=
    (TStep.ev _ (by decide)).trans (TStep.ev _ (by simp [isHS, toString_str]))
  exact (tail_run3 r.sp.request.id r st W Lb W f2
    (fun j => if j = 0 then { rtype := 6, id := r.sp.request.id } else { rtype := 7, id := r.sp.request.id })
    _ (by omega) (hb.step hs1) hok (fun j => by
      match j with
      | ⟨0, _⟩ => exact ⟨rfl, rfl, rfl, rfl⟩
      | ⟨1, _⟩ => exact ⟨rfl, rfl, rfl, rfl⟩) hm (by
      show ((e.tr.ev _).ev _).wlog ++ _ = _
      rw [Transport.ev_wlog, Transport.ev_wlog, hlog]) (Nat.le_refl _)).after hs1 (List.suffix_refl _) rfl rfl

/-! ## The executor with flush answers in the measure -/

open C12Inv in
theorem steps_fl {k : Nat} {c c1 : Conn} (hs : Steps k c c1) (hp : AllProp c) :
    c1.env.tr.fl <:+ c.env.tr.fl ∧ AllProp c1 := by
  induction hs with
  | refl c => exact ⟨List.suffix_refl _, hp⟩
  | step h _ ih =>
    have hw := stepConn_w _ hp
    rw [h] at hw
    obtain ⟨q1, q2⟩ := ih hw.2
    exact ⟨q1.trans (fl_of_clean hw.1), q2⟩

open C12Inv in
/-- a poll that ends `Pending` consumed a prefix of the flush script (whole-model invariant of `Props/C12Inv`) -/
theorem halts_pending_fl {N : Nat} {c c' : Conn} (h : Halts N c c' .pending) (hp : AllProp c) :
    c'.env.tr.fl <:+ c.env.tr.fl ∧ AllProp c' := by
  obtain ⟨n, c1, _, hs, hh⟩ := h
  obtain ⟨q1, q2⟩ := steps_fl hs hp
  have hw := stepConn_w _ q2
  rw [hh] at hw
  rcases hw with ⟨hc, hp'⟩ | ⟨_, hfin, _⟩
  · exact ⟨(fl_of_clean hc).trans q1, hp'⟩
  · cases hfin

/-- `Link` without the clause that ties wake-ups to read/write answers -/
structure LinkF (c c' : Conn) : Prop where
  rd : c'.env.tr.rd <:+ c.env.tr.rd
  wr : c'.env.tr.wr <:+ c.env.tr.wr
  hold : c'.env.tr.hold = c.env.tr.hold
  em : c'.env.tr.endMode = c.env.tr.endMode
  inp : c'.env.tr.input.length ≤ c.env.tr.input.length
  evm : ∀ s, s ∈ c.env.tr.events → s ∈ c'.env.tr.events
  segs : c'.env.segs = c.env.segs
  stop : c'.stop = c.stop

theorem Link.f {c c' : Conn} (h : Link c c') : LinkF c c' :=
  ⟨h.ts.rd, h.ts.wr, h.ts.hold, h.ts.em, h.ts.inp, h.ts.evm, h.segs, h.stop⟩

theorem LinkF.ans_le {c c' : Conn} (h : LinkF c c') : ans c'.env.tr ≤ ans c.env.tr := by
  have h1 := h.rd.length_le
  have h2 := h.wr.length_le
  unfold ans; omega

theorem LinkF.trans {a b c : Conn} (h1 : LinkF a b) (h2 : LinkF b c) : LinkF a c :=
  ⟨h2.rd.trans h1.rd, h2.wr.trans h1.wr, h2.hold.trans h1.hold, h2.em.trans h1.em, Nat.le_trans h2.inp h1.inp,
    fun s hs => h2.evm s (h1.evm s hs), h2.segs.trans h1.segs, h2.stop.trans h1.stop⟩

theorem LinkF.of_tf {c c' : Conn} (h : TF c.env.tr c'.env.tr) (hsg : c'.env.segs = c.env.segs) (hst : c'.stop = c.stop) :
    LinkF c c' :=
  ⟨h.rd, h.wr, h.hold, h.em, h.tle.input_len, fun s hs => by
    obtain ⟨n, hn, _⟩ := h.tle.ev
    rw [hn]; exact List.mem_append_left _ hs, hsg, hst⟩

/-- `GRes3`, or the poll ends `Pending` inside a flush: the task is woken, a flush answer is consumed -/
def GResF (S A Fn : Conn → Prop) (N : Nat) (c : Conn) : Prop :=
  GRes3 S A Fn N c ∨
  ∃ c', Halts N c c' .pending ∧ LinkF c c' ∧ S c' ∧ c'.env.tr.woken = true ∧ mu c'.env.tr < mu c.env.tr

theorem GResF.mono {S A Fn : Conn → Prop} {N M : Nat} {c : Conn} (h : GResF S A Fn N c) (hm : N ≤ M) :
    GResF S A Fn M c := by
  rcases h with h | ⟨c', hh, r⟩
  · exact Or.inl (h.mono hm)
  · exact Or.inr ⟨c', hh.mono hm, r⟩

theorem GResF.of_steps {S A Fn : Conn → Prop} {k N : Nat} {c c1 : Conn} (hs : Steps k c c1)
    (hl : Link c c1) (hp : C12Inv.AllProp c) (h : GResF S A Fn N c1) : GResF S A Fn (k + N) c := by
  rcases h with h | ⟨c', hh, hl2, hS, hw, ha⟩
  · exact Or.inl (GRes3.of_steps hs hl h)
  · refine Or.inr ⟨c', hh.of_steps hs, hl.f.trans hl2, hS, hw, ?_⟩
    have := (steps_fl hs hp).1.length_le
    have := hl.ts.ans_le
    unfold mu at ha ⊢; omega

theorem run_genF (S : Conn → Prop) (Q : Conn → Prop) (T : Conn → String → Prop)
    (hcong : ∀ c c', S c → c'.phase = c.phase → c'.scripts = c.scripts → c'.stop = c.stop →
      c'.env.mutex = c.env.mutex → TrSame c.env.tr c'.env.tr → S c')
    (hpoll : ∀ c, S c → C12Inv.AllProp c → FlOk c.env.tr →
      (∃ c', Halts (6 * c.env.tr.input.length + 26) c c' .pending ∧ LinkF c c' ∧ S c' ∧
      c'.env.tr.woken = true ∧ mu c'.env.tr < mu c.env.tr) ∨ Q c)
    (hQ : ∀ (c : Conn) (n f : Nat), S c → c.env.segs = [] → Q (prePoll c n none) → mu c.env.tr ≤ f →
      ∃ c'' fin, runTask (f + 1) c n none = (c'', fin) ∧ T c'' fin) :
    ∀ (A : Nat) (c : Conn) (n fuel : Nat), S c → C12Inv.AllProp c → FlOk c.env.tr → c.env.segs = [] →
      mu c.env.tr ≤ A → A + 1 ≤ fuel →
      ∃ c'' fin, runTask fuel c n none = (c'', fin) ∧ T c'' fin := by
  intro A
  induction A with
  | zero =>
    intro c n fuel hS hap hok hsegs hA hf
    obtain ⟨f, rfl⟩ : ∃ f, fuel = f + 1 := ⟨fuel - 1, by omega⟩
    obtain ⟨hsame, hph, hsc, hstop, hmx, hsg, hwk⟩ := prePoll_same c n hsegs
    have hfl0 : (prePoll c n none).env.tr.fl = c.env.tr.fl := by rw [prePoll_nil c n hsegs]; rfl
    have hans0 : mu (prePoll c n none).env.tr = mu c.env.tr := by unfold mu ans; rw [hsame.rd, hsame.wr, hfl0]
    have hap0 : C12Inv.AllProp (prePoll c n none) := C12Inv.allProp_of_frame hph hsc hap
    have hok0 : FlOk (prePoll c n none).env.tr := fun a ha => hok a (by rw [← hfl0]; exact ha)
    rcases hpoll _ (hcong _ _ hS hph hsc hstop hmx hsame) hap0 hok0 with ⟨c', hh, hl, hS', hw, ha⟩ | hq
    · omega
    · exact hQ c n f hS hsegs hq (by omega)
  | succ A ih =>
    intro c n fuel hS hap hok hsegs hA hf
    obtain ⟨f, rfl⟩ : ∃ f, fuel = f + 1 := ⟨fuel - 1, by omega⟩
    obtain ⟨hsame, hph, hsc, hstop, hmx, hsg, hwk⟩ := prePoll_same c n hsegs
    have hfl0 : (prePoll c n none).env.tr.fl = c.env.tr.fl := by rw [prePoll_nil c n hsegs]; rfl
    have hans0 : mu (prePoll c n none).env.tr = mu c.env.tr := by unfold mu ans; rw [hsame.rd, hsame.wr, hfl0]
    have hap0 : C12Inv.AllProp (prePoll c n none) := C12Inv.allProp_of_frame hph hsc hap
    have hok0 : FlOk (prePoll c n none).env.tr := fun a ha => hok a (by rw [← hfl0]; exact ha)
    rcases hpoll _ (hcong _ _ hS hph hsc hstop hmx hsame) hap0 hok0 with ⟨c', hh, hl, hS', hw, ha⟩ | hq
    · have hpoll' := hh.pollB (Nat.le_refl _)
      have hsg' : c'.env.segs = [] := hl.segs.trans hsg
      obtain ⟨hfl', hap'⟩ := halts_pending_fl hh hap0
      obtain ⟨c2, fin, h1, h2⟩ := ih c' (n + 1) f hS' hap' (hok0.suffix hfl') hsg' (by omega) (by omega)
      refine ⟨c2, fin, ?_, h2⟩
      rw [runTask_succ, hpoll']
      simp only [hw, if_true]
      exact h1
    · exact hQ c n f hS hsegs hq (by omega)

theorem run_stagesF {cap mc : Nat} (h24 : 24 ≤ cap) {Z : Bytes} {sc : List (List HOp × Bool)} {h0 : Nat} {ι : Type}
    {P : ι → Prop} {W0 L : ι → Bytes} {evs : ι → List String}
    (hns : ∀ i, P i → NoStuckW cap mc (W0 i))
    (hNF : ∀ i, P i → ∀ F x, F ++ x ++ Z = W0 i → (run .header F mc).st.isFinal = false)
    {S Fn : Conn → Prop}
    (hcong : ∀ c c', S c → c'.phase = c.phase → c'.scripts = c.scripts → c'.stop = c.stop →
      c'.env.mutex = c.env.mutex → TrSame c.env.tr c'.env.tr → S c')
    (hpoll : ∀ c, S c → C12Inv.AllProp c → FlOk c.env.tr →
      GResF S (ZTailAt cap mc Z sc h0 P W0 L evs) Fn (2 * c.env.tr.input.length + 15) c)
    (em : EndMode) (evs0 : List String) (c : Conn) (n0 fuel : Nat) (hst : S c)
    (hem : c.env.tr.endMode = em) (hev0 : ∀ s ∈ evs0, s ∈ c.env.tr.events)
    (hap : C12Inv.AllProp c) (hok : FlOk c.env.tr)
    (hsegs : c.env.segs = []) (hf : mu c.env.tr + 1 ≤ fuel) :
    ∃ c'' fin, runTask fuel c n0 none = (c'', fin) ∧
      (GEnd cap mc Z sc h0 P W0 L evs em evs0 (ans c.env.tr) c'' fin ∨
       (fin = "RET" ∧ Fn c'' ∧ c''.env.tr.endMode = em ∧ (∀ s ∈ evs0, s ∈ c''.env.tr.events))) := by
  refine run_genF
    (fun c0 => (S c0 ∨ ZTailAt cap mc Z sc h0 P W0 L evs c0) ∧
      c0.env.tr.endMode = em ∧ (∀ s ∈ evs0, s ∈ c0.env.tr.events) ∧ ans c0.env.tr ≤ ans c.env.tr)
    (fun c0 => (∃ c', Halts (4 * c0.env.tr.input.length + 22) c0 c' .finished ∧ Link c0 c' ∧ Fn c') ∨ ∃ i, P i ∧
      ((∃ c', Halts (4 * c0.env.tr.input.length + 22) c0 c' .pending ∧ Link c0 c' ∧ c'.env.tr.woken = c0.env.tr.woken ∧
        ZT cap mc (W0 i) (L i) Z c' ∧ PKeep sc h0 (evs i) c' ∧ ZParked cap mc (W0 i) (L i) Z c') ∨
      (∃ c', Halts (4 * c0.env.tr.input.length + 22) c0 c' .finished ∧ Link c0 c' ∧
        PKeep sc h0 (evs i) c' ∧ ZFin mc (W0 i) (L i) Z c')))
    (fun c'' fin => GEnd cap mc Z sc h0 P W0 L evs em evs0 (ans c.env.tr) c'' fin ∨
       (fin = "RET" ∧ Fn c'' ∧ c''.env.tr.endMode = em ∧ (∀ s ∈ evs0, s ∈ c''.env.tr.events)))
    (fun c0 c1 h a b c d e => by
      refine ⟨?_, e.em.trans h.2.1, fun s hs => e.mem (h.2.2.1 s hs), by
        have := h.2.2.2; unfold ans at this ⊢; rw [e.rd, e.wr]; exact this⟩
      rcases h.1 with h1 | ⟨i, hi, h1, h2⟩
      · exact Or.inl (hcong _ _ h1 a b c d e)
      · exact Or.inr ⟨i, hi, h1.cong a c e, h2.same b d e⟩)
    (fun c0 h hap0 hok0 => ?_)
    (fun c0 n1 f0 hS0 hsg hq _ => ?_)
    (mu c.env.tr) c n0 fuel ⟨Or.inl hst, hem, hev0, Nat.le_refl _⟩ hap hok hsegs (Nat.le_refl _) hf
  · -- one poll
    have keep : ∀ {c' : Conn}, LinkF c0 c' → c'.env.tr.endMode = em ∧ (∀ s ∈ evs0, s ∈ c'.env.tr.events) ∧
        ans c'.env.tr ≤ ans c.env.tr :=
      fun hl => ⟨hl.em.trans h.2.1, fun s hs => hl.evm s (h.2.2.1 s hs),
        Nat.le_trans hl.ans_le h.2.2.2⟩
    have up : ∀ {c' : Conn} {N : Nat}, Halts N c0 c' .pending → ans c'.env.tr < ans c0.env.tr → mu c'.env.tr < mu c0.env.tr :=
      fun hh ha => by have := (halts_pending_fl hh hap0).1.length_le; unfold mu; omega
    rcases h.1 with h1 | ⟨i, hi, h1, h2⟩
    · rcases hpoll c0 h1 hap0 hok0 with ((⟨c', hh, hl, hS, hw, ha⟩ | ⟨k, c1, hk1, hs, hl, i, hi, hzt, hkp⟩) | ⟨c', hh, hl, hfn⟩) |
          ⟨c', hh, hl, hS, hw, ha⟩
      rotate_left 3
      · exact Or.inl ⟨c', hh.mono (by omega), hl, ⟨Or.inl hS, keep hl⟩, hw, ha⟩
      · exact Or.inl ⟨c', hh.mono (by omega), hl.f, ⟨Or.inl hS, keep hl.f⟩, hw, up hh ha⟩
      · have hin1 := hl.ts.inp
        rcases ZRes.of_steps hs hl (ztail_poll h24 (hns i hi) (hNF i hi) hzt hkp) with
          ⟨c', hh, hl', hS, hw, ha⟩ | ⟨c', hh, r⟩ | ⟨c', hh, r⟩
        · exact Or.inl ⟨c', hh.mono (by omega), hl'.f, ⟨Or.inr ⟨i, hi, hS⟩, keep hl'.f⟩, hw, up hh ha⟩
        · exact Or.inr (Or.inr ⟨i, hi, Or.inl ⟨c', hh.mono (by omega), r⟩⟩)
        · exact Or.inr (Or.inr ⟨i, hi, Or.inr ⟨c', hh.mono (by omega), r⟩⟩)
      · exact Or.inr (Or.inl ⟨c', hh.mono (by omega), hl, hfn⟩)
    · rcases ztail_poll h24 (hns i hi) (hNF i hi) h1 h2 with ⟨c', hh, hl', hS, hw, ha⟩ | ⟨c', hh, r⟩ | ⟨c', hh, r⟩
      · exact Or.inl ⟨c', hh.mono (by omega), hl'.f, ⟨Or.inr ⟨i, hi, hS⟩, keep hl'.f⟩, hw, up hh ha⟩
      · exact Or.inr (Or.inr ⟨i, hi, Or.inl ⟨c', hh.mono (by omega), r⟩⟩)
      · exact Or.inr (Or.inr ⟨i, hi, Or.inr ⟨c', hh.mono (by omega), r⟩⟩)
  · -- from the last poll to the end of `runTask`
    obtain ⟨hsame, hph, hsc, hstop, hmx, hsg', hwk⟩ := prePoll_same c0 n1 hsg
    have hN : 4 * (prePoll c0 n1 none).env.tr.input.length + 22 ≤ 6 * (prePoll c0 n1 none).env.tr.input.length + 26 := by omega
    have keep : ∀ {c' : Conn}, Link (prePoll c0 n1 none) c' → c'.env.tr.endMode = em ∧
        (∀ s ∈ evs0, s ∈ c'.env.tr.events) ∧ ans c'.env.tr ≤ ans c.env.tr ∧ c'.env.segs = [] :=
      fun hl => ⟨(hl.ts.em.trans hsame.em).trans hS0.2.1, fun s hs => hl.ts.evm s (hsame.mem (hS0.2.2.1 s hs)),
        by
          have hans0 : ans (prePoll c0 n1 none).env.tr = ans c0.env.tr := by unfold ans; rw [hsame.rd, hsame.wr]
          have := hl.ts.ans_le; have := hS0.2.2.2; omega, hl.segs.trans hsg'⟩
    rcases hq with ⟨c', hh, hl, hfn⟩ | ⟨i, hi, hq⟩
    · have hpoll' := hh.pollB hN
      obtain ⟨k1, k2, k3, k4⟩ := keep hl
      exact ⟨c', "RET", by rw [runTask_succ, hpoll'], Or.inr ⟨rfl, hfn, k1, k2⟩⟩
    rcases hq with ⟨c', hh, hl, hw, hzt, hkp, hpk⟩ | ⟨c', hh, hl, hkp, hfin⟩
    · have hpoll' := hh.pollB hN
      have hw' : c'.env.tr.woken = false := hw.trans hwk
      obtain ⟨k1, k2, k3, k4⟩ := keep hl
      rw [runTask_succ, hpoll']
      simp only [hw', Bool.false_eq_true, if_false]
      rw [release_nil _ k4]
      simp only [hw', Bool.false_eq_true, if_false]
      refine ⟨_, "STALL", rfl, Or.inl ⟨i, hi, ?_⟩⟩
      obtain ⟨F, hF, hps, hph', hlg⟩ := hpk.pst
      exact ⟨hkp.same rfl rfl ⟨rfl, rfl, rfl, rfl, rfl, rfl, [], by simp, Quiet.nil⟩, k1, k2, k3, k4,
        Or.inl ⟨rfl, ⟨F, hF, hps.cong rfl rfl ⟨rfl, rfl, rfl, rfl, rfl, rfl, [], by simp, Quiet.nil⟩, hph', hlg⟩,
          hpk.inp, hpk.em⟩⟩
    · have hpoll' := hh.pollB hN
      obtain ⟨k1, k2, k3, k4⟩ := keep hl
      exact ⟨c', "RET", by rw [runTask_succ, hpoll'], Or.inl ⟨i, hi, hkp, k1, k2, k3, k4, Or.inr ⟨rfl, hfin⟩⟩⟩

/-! ## `readAll`, with the flush script tracked -/

theorem readAll_runF {K : RCtx} (hK : K.OK) {L P : Bytes} (rest : List HOp) (ws : List (Option Writer))
    (pr : Bool) :
    ∀ (N fuel : Nat) (r : AReq) (sub : HSub) (e : Run.Env) (dO : Bytes) (d : Nat),
      2 * ((K.C.length - (accOf sub).length) / 64) + 2 * e.tr.input.length + d < N → N + 1 ≤ fuel →
      (d = 0 → Idle r.sp ∨ accOf sub = K.C) → Ben e.tr → RSt K L P r e.mutex e.tr (accOf sub) dO →
      (∃ (r' : AReq) (acc' : Bytes) (e' : Run.Env) (dO' : Bytes),
          handlerPoll fuel r { ops := .readAll :: rest, sub := sub, writers := ws, propagate := pr } e =
            (r', { ops := .readAll :: rest, sub := .readAllAcc acc', writers := ws, propagate := pr }, e', .pending) ∧
          RSt K L P r' e'.mutex e'.tr acc' dO' ∧ e'.segs = e.segs ∧ TStep e.tr e'.tr ∧
          e'.tr.woken = true ∧ ans e'.tr < ans e.tr ∧ e'.tr.fl <:+ e.tr.fl) ∨
      (∃ (r' : AReq) (e' : Run.Env) (fuel' : Nat),
          handlerPoll fuel r { ops := .readAll :: rest, sub := sub, writers := ws, propagate := pr } e =
            handlerPoll fuel' r' { ops := rest, sub := .fresh, writers := ws, propagate := pr }
              (e'.ev (rEvent K.C)) ∧
          fuel + 2 * e'.tr.input.length ≤ fuel' + N ∧ RSt K L P r' e'.mutex e'.tr K.C K.O ∧ r'.lock = .none ∧ e'.mutex = none ∧
          r'.sp.pay = 0 ∧ r'.sp.pad = 0 ∧ r'.sp.raw ++ e'.tr.input = K.U ∧
          (K.final = true → r'.writeable = true) ∧
          e'.segs = e.segs ∧ TStep e.tr e'.tr ∧ e'.tr.fl <:+ e.tr.fl) := by
  intro N
  induction N with
  | zero => intro fuel r sub e dO d hN; omega
  | succ N ih =>
    intro fuel r sub e dO d hN hf hd hb hs
    obtain ⟨f, rfl⟩ : ∃ f, fuel = f + 1 := ⟨fuel - 1, by omega⟩
    rw [hp_readAll]
    rcases hpi : r.pollInput (some 64) e.mutex e.tr with ⟨r1, m1, t1, res⟩
    obtain ⟨s1, s4, s5⟩ := pollInput_sim hK (by omega : 0 < 64) hb hs hpi
    have hwo := C12Inv.pollInput_wout hpi
    cases res with
    | pending =>
      left
      obtain ⟨⟨dO', hs'⟩, hw, ha⟩ := s4
      exact ⟨r1, accOf sub, { e with mutex := m1, tr := t1 }, dO', rfl, hs', rfl, s1, hw, ha, fl_of_wout hwo⟩
    | err x => exact s4.elim
    | panic x => exact s4.elim
    | ready k dd =>
      obtain ⟨hk, dO', hs', hlk, hm1, hor, hfull, hwr⟩ := s4
      have hfl1 : t1.fl <:+ e.tr.fl := fl_of_wout hwo
      subst hm1
      cases k with
      | zero =>
        right
        have hd0 : dd = [] := List.length_eq_zero_iff.1 hk.symm
        subst hd0
        rcases hor with hor | ⟨a1, a2, a3, a4, a5⟩
        · omega
        · simp only [List.append_nil] at a1 hs'
          refine ⟨r1, { e with mutex := none, tr := t1 }, f, ?_,
            by have := s1.tle.input_len; show f + 1 + 2 * t1.input.length ≤ f + (N + 1); omega,
            ?_, hlk, rfl, a3, a4, a5, hwr, rfl, s1, hfl1⟩
          · simp only [a1]
          · rw [← a1, ← a2]; exact hs'
      | succ k' =>
        simp only
        obtain ⟨G1, hi1⟩ := hs'.inv
        have hnow := (hi1.now hK).1
        have hlenC : (accOf sub).length + (k' + 1) ≤ K.C.length := by
          have := congrArg List.length hnow
          simp only [List.length_append] at this
          omega
        have hinle := s1.tle.input_len
        have hdec : ∃ d1, (d1 = 0 → Idle r1.sp ∨ accOf sub ++ dd = K.C) ∧
            2 * ((K.C.length - (accOf sub ++ dd).length) / 64) + 2 * t1.input.length + d1 < N := by
          have hin' : d = 0 → t1.input.length < e.tr.input.length := by
            intro h0
            rcases hd h0 with hdr | hfin
            · exact s5 hdr _ _ rfl
            · rw [hfin] at hlenC; omega
          simp only [List.length_append]
          rcases hfull with h64 | hdr | ⟨hfin, _⟩
          · refine ⟨1, fun h => by omega, ?_⟩
            by_cases h0 : d = 0
            · have := hin' h0; omega
            · omega
          · refine ⟨0, fun _ => Or.inl hdr, ?_⟩
            by_cases h0 : d = 0
            · have := hin' h0; omega
            · omega
          · refine ⟨0, fun _ => Or.inr hfin, ?_⟩
            by_cases h0 : d = 0
            · have := hin' h0; omega
            · omega
        obtain ⟨d1, hd1, hm1⟩ := hdec
        rcases ih f r1 (.readAllAcc (accOf sub ++ dd)) { e with mutex := none, tr := t1 } dO' d1 hm1
            (by omega) hd1 (hb.step s1) hs' with
          ⟨r2, acc2, e2, dO2, d1', d3, d5, d6, d8, d9, dfl⟩ |
          ⟨r2, e2, f2, d1', d2, d3, d4, d5, d6, d7, d8, dw, d9, d10, dfl⟩
        · left
          refine ⟨r2, acc2, e2, dO2, d1', d3, d5, s1.trans d6, d8, ?_, dfl.trans hfl1⟩
          have := s1.ans_le
          have d9' : ans e2.tr < ans t1 := d9
          omega
        · right
          exact ⟨r2, e2, f2, d1', by omega, d3, d4, d5, d6, d7, d8, dw, d9, s1.trans d10, dfl.trans hfl1⟩

theorem GResF.imp3 {S A A' Fn : Conn → Prop} {N : Nat} {c : Conn} (h : GResF S A Fn N c)
    (hA : ∀ c', Link c c' → A c' → A' c') : GResF S A' Fn N c := by
  rcases h with h | h
  · exact Or.inl (h.imp (fun _ _ x => x) hA (fun _ _ x => x))
  · exact Or.inr h

/-! ## The connection level -/

theorem wcostAll_le : ∀ W : FList, wcostAll (writesOf W) ≤ fcost W
  | [] => Nat.le_refl _
  | .w _ d :: W => by have := wcostAll_le W; simp only [writesOf, wcostAll, fcost]; omega
  | .f _ :: W => by have := wcostAll_le W; simp only [writesOf, fcost]; omega

/-- the handler: `readAll`, open both writers, the ops `W`, drop both, return `st` -/
def fscriptW (W : FList) (st : ExitStatus) : List HOp := .readAll :: otailF W st

/-- The hypotheses on the request. -/
structure WFOK (g : Cfg) (W : FList) : Prop where
  wf : WellFormedPreamble g.p g.recs
  role : g.p.role = 1
  pairs : ∀ q ∈ g.p.pairs, (NV.enc q).length ≤ alignedBufsize g.b
  noise : NoiseFits (alignedBufsize g.b) g.recs
  hb : Body g.p.id 5 g.content g.body
  hf : NoiseFits (alignedBufsize g.b) g.body
  hp : g.pad.length < 256
  hX2 : g.X2 = []
  hX : g.X = serAll g.body ++ g.term.ser
  hU : g.U = g.term.ser
  hs : g.hscript = fscriptW W g.st
  /-- model fuel: a bound on the cost of the output ops only -/
  hfu : fcost W + 20 ≤ 1000

theorem WFOK.fok {g : Cfg} {W : FList} (ok : WFOK g W) : FOK g := ⟨ok.wf, ok.pairs, ok.noise⟩
theorem WFOK.hid {g : Cfg} {W : FList} (ok : WFOK g W) : g.p.id < 65536 := (pid_of_wf ok.wf).2
theorem WFOK.kok {g : Cfg} {W : FList} (ok : WFOK g W) : g.K.OK := resp_kok ok.hid ok.hb ok.hf ok.hp ok.hX2 ok.hX
theorem WFOK.kfin {g : Cfg} {W : FList} (ok : WFOK g W) : g.K.final = true := by
  simp [RCtx.final, Cfg.K, ok.role, nextInputStream, RT.stdin]
theorem WFOK.ku {g : Cfg} {W : FList} (ok : WFOK g W) : g.K.U = g.U := by simp [Cfg.K, ok.hX2, ok.hU]
theorem WFOK.front {g : Cfg} {W : FList} (ok : WFOK g W) {us : List Rec} (hu : LeftOK (alignedBufsize g.b) us) :
    WFOK (g.front us) W :=
  ⟨wf_idle ok.wf us hu.1, ok.role, ok.pairs, noiseFits_app hu.2 ok.noise, ok.hb, ok.hf, ok.hp, ok.hX2, ok.hX, ok.hU,
    ok.hs, ok.hfu⟩

/-- the `readAll` returned the content -/
def QR (g : Cfg) (t : Transport) : Prop := rEvent g.content ∈ t.events
theorem qr_mono (g : Cfg) : MonoQ (QR g) := ⟨fun _ _ hm h => hm _ h⟩

/-- the handler in (or about to start) its `readAll` -/
def HA3 (g : Cfg) (W : FList) (c : Conn) : Prop :=
  ∃ r h, c.phase = .handler r h ∧ HRead g.K (otailF W g.st) g.L1 [] r h c.env ∧
    Ben c.env.tr ∧ c.stop = false ∧ Ev1 g c.env.tr ∧ c.scripts = g.more

/-- the handler in one of its output ops, its input read to the end -/
def HWf (g : Cfg) (W : FList) (c : Conn) : Prop :=
  ∃ r h O1, c.phase = .handler r h ∧ HW3 g.p.id W g.st (g.L1 ++ O1) h c.env ∧
    REnd g.N r c.env.tr.input ∧ O1 ++ r.sp.output = g.Ob ∧ QR g c.env.tr ∧
    Ben c.env.tr ∧ c.stop = false ∧ Ev1 g c.env.tr ∧ c.scripts = g.more

def S0F (g : Cfg) (W : FList) (c : Conn) : Prop := FStage g c ∨ HA3 g W c ∨ HWf g W c

/-- all stages: parse, read, output ops, `close` (the write stage `HWqW` of `Proofs/E2EWriters` is not reached) -/
abbrev SFw (g : Cfg) (W : FList) : Conn → Prop := SQW g (writesOf W) (QR g) (S0F g W)

abbrev RF (g : Cfg) (W : FList) (N : Nat) (c : Conn) : Prop :=
  GResF (SFw g W) (AQW g (writesOf W) (QR g)) (FQW g (writesOf W) (QR g)) N c

theorem HW3.cong {id : Nat} {W : FList} {st : ExitStatus} {Lb : Bytes} {h : HState} {e e' : Run.Env}
    (hw : HW3 id W st Lb h e) (hm : e'.mutex = e.mutex) (hl : e'.tr.wlog = e.tr.wlog) :
    HW3 id W st Lb h e' := by
  obtain ⟨a, i, W', ws, c1, c2, c3⟩ := hw
  refine ⟨a, i, W', ws, c1, c2, ?_⟩
  rcases c3 with ⟨data, L, sent, d1, d2, d3, d4, d5⟩ | ⟨d1, d2, d3, d4⟩
  · exact Or.inl ⟨data, L, sent, d1, by rw [hm]; exact d2, by rw [hl]; exact d3, d4, d5⟩
  · exact Or.inr ⟨d1, ⟨d2.ty, d2.id, d2.lock, d2.wr, by rw [hm]; exact d2.mx⟩, by rw [hl]; exact d3, d4⟩

theorem S0F.cong {g : Cfg} {W : FList} (c c' : Conn) (h : S0F g W c)
    (hph : c'.phase = c.phase) (hsc : c'.scripts = c.scripts) (hstop : c'.stop = c.stop)
    (hm : c'.env.mutex = c.env.mutex) (hs : TrSame c.env.tr c'.env.tr) : S0F g W c' := by
  rcases h with h | ⟨r, h, h1, ⟨a1, a2, a3, dO, a4⟩, h3, h4, h5, h6⟩ | ⟨r, h, O1, h1, h2, h3, h4, h5, h6, h7, h8, h9⟩
  · exact Or.inl (h.cong hph hsc hstop hm hs)
  · exact Or.inr (Or.inl ⟨r, h, hph.trans h1, ⟨a1, a2, a3, dO, a4.cong hm hs⟩, hs.ben h3, hstop.trans h4, hs.ev1 h5,
      hsc.trans h6⟩)
  · exact Or.inr (Or.inr ⟨r, h, O1, hph.trans h1, h2.cong hm hs.wlog, by rw [hs.input]; exact h3, h4,
      hs.mem h5, hs.ben h6, hstop.trans h7, hs.ev1 h8, hsc.trans h9⟩)

/-- what a poll of the output ops comes to -/
theorem bwrite_outF {g : Cfg} {W : FList} {c : Conn} {r0 r : AReq} {h : HState} {e0 : Run.Env}
    {O1 : Bytes} (hph : c.phase = .handler r0 h)
    {out : AReq × HState × Run.Env × HRes}
    (heq : handlerPoll ((handlerFuel c.env r0 + scriptOf c)) r0 h c.env = out)
    (hw : WOut3 g.p.id W g.st (g.L1 ++ O1) r e0 out)
    (hts0 : TStep c.env.tr e0.tr) (hfl0 : e0.tr.fl <:+ c.env.tr.fl) (hsg0 : e0.segs = c.env.segs)
    (hfin : REnd g.N r e0.tr.input) (hO : O1 ++ r.sp.output = g.Ob) (hseen : QR g e0.tr)
    (hb : Ben c.env.tr) (hstop : c.stop = false) (hev : Ev1 g c.env.tr) (hsc : c.scripts = g.more) :
    RF g W 3 c := by
  obtain ⟨r', h', e', res⟩ := out
  obtain ⟨q0, q2, q3, qf, q1, q4⟩ := hw
  simp only at q0 q1 q2 q3 qf q4
  subst q0
  have htf : TF c.env.tr e'.tr := hts0.tf.trans q1
  have hmem : ∀ s, s ∈ e0.tr.events → s ∈ e'.tr.events := fun s hs => by
    obtain ⟨n, hn, _⟩ := q1.tle.ev
    rw [hn]; exact List.mem_append_left _ hs
  have hseen' : QR g e'.tr := hmem _ hseen
  rcases q4 with ⟨rfl, hwk, hmu, hwg⟩ | ⟨rfl, hts1, hws, hm, hlog⟩
  · have hstep := C07.handler_step c r0 h hph
    rw [heq] at hstep
    have hstep' : stepConn c = .halt ⟨.handler r' h', e', c.scripts, c.stop⟩ .pending := hstep
    have hev' : Ev1 g e'.tr := by
      obtain ⟨n, hn, hq⟩ := htf.tle.ev
      constructor
      · rw [hn, hsCount_append, hsCount_eq_zero hq, Nat.add_zero]; exact hev.1
      · rw [hn]; exact List.mem_append_left _ hev.2
    refine Or.inr ⟨_, (Halts.now hstep').mono (by omega), LinkF.of_tf htf (q3.trans hsg0) rfl,
      Or.inl (Or.inr (Or.inr ⟨r', h', O1, rfl, hwg, by rw [q2]; exact hfin, hO, hseen', htf.ben hb, hstop,
        hev', hsc⟩)), hwk, ?_⟩
    show mu e'.tr < mu c.env.tr
    have := mu_le hts0.tf hfl0
    omega
  · exact Or.inl (bdoneQW (qr_mono g) hph heq hws hm hlog (by rw [q2]; exact hfin) hO hseen' (hts0.trans hts1)
      (q3.trans hsg0) hb hstop hev hsc)

/-- **One poll** with the handler in one of its output ops. -/
theorem hwf_poll {g : Cfg} {W : FList} (ok : WFOK g W) {c : Conn} (h : HWf g W c) (hok : FlOk c.env.tr) :
    RF g W 3 c := by
  obtain ⟨r, h, O1, hph, hw, hfin, hO, hseen, hb, hstop, hev, hsc⟩ := h
  have hfuel := handlerFuel_ge c.env r
  have hfu := ok.hfu
  have hout := write_phase3 (r := r) hw hb hok (fuel := (handlerFuel c.env r + scriptOf c)) (by omega)
  exact bwrite_outF (r := r) (e0 := c.env) hph rfl hout (.refl _) (List.suffix_refl _) rfl hfin hO hseen hb hstop hev hsc

/-- the rest of a poll from the handler's `readAll` on -/
theorem ra_pollF {g : Cfg} {W : FList} (ok : WFOK g W) {c : Conn} {r : AReq} {sub : HSub} {dO : Bytes}
    (hph : c.phase = .handler r { ops := .readAll :: otailF W g.st, sub := sub, propagate := true })
    (hs : RSt g.K g.L1 [] r c.env.mutex c.env.tr (accOf sub) dO)
    (hb : Ben c.env.tr) (hok : FlOk c.env.tr) (hstop : c.stop = false) (hev : Ev1 g c.env.tr) (hsc : c.scripts = g.more) :
    RF g W 3 c := by
  have hK := ok.kok
  obtain ⟨G0, hi0⟩ := hs.inv
  have hrl := hi0.rem_le hK
  have hcapr : r.sp.cap = g.cap := hi0.capK
  have hcapK : g.K.cap = g.cap := rfl
  have hfu := ok.hfu
  have hfuel : g.K.cap / 32 + 3 * c.env.tr.input.length + fcost W + 14 ≤ (handlerFuel c.env r + scriptOf c) := by
    unfold handlerFuel; rw [hcapr, hcapK]; omega
  rcases readAll_runF hK (L := g.L1) (P := []) (otailF W g.st) [] true
      (2 * ((g.K.C.length - (accOf sub).length) / 64) + 2 * c.env.tr.input.length + 2) ((handlerFuel c.env r + scriptOf c)) r sub c.env dO 1
      (by omega) (by omega) (fun h => by omega) hb hs with
    ⟨r', acc', e', dO', d1, d3, d5, d6, d8, d9, dfl⟩ |
    ⟨r', e', f', d1, d2, d3, dl, dm, d4, d5, d6, dw, d8, d9, dfl⟩
  · have hstep := C07.handler_step c r _ hph
    rw [d1] at hstep
    have hstep' : stepConn c = .halt ⟨.handler r' { ops := .readAll :: otailF W g.st, sub := .readAllAcc acc', propagate := true },
        e', c.scripts, c.stop⟩ .pending := hstep
    exact Or.inl (Or.inl (Or.inl ⟨_, (Halts.now hstep').mono (by omega), ⟨d6.w, d5, rfl⟩,
      Or.inl (Or.inr (Or.inl ⟨r', _, rfl, ⟨rfl, rfl, rfl, dO', d3⟩, hb.step d6, hstop, hev.step d6, hsc⟩)), d8, d9⟩))
  · obtain ⟨G1, hi1⟩ := d3.inv
    obtain ⟨O1, hlog1, hlog2⟩ := d3.log
    have hs1 : TStep c.env.tr (e'.ev (rEvent g.K.C)).tr := d9.trans (TStep.ev _ (isHS_rEvent _))
    have hfin : REnd g.N r' (e'.ev (rEvent g.K.C)).tr.input := by
      have := REnd.of_read hi1 (dw ok.kfin) dl d4 d5 d6
      have hN : g.K.ectx = g.N := by simp [RCtx.ectx, Cfg.N, Cfg.K, ok.hX2, ok.hU]
      rw [hN] at this; exact this
    have hreq : r'.sp.request = g.p.request := hi1.req
    have hid2 : r'.sp.request.id = g.p.id := by rw [hreq]; rfl
    have hw := open_phase3 (W := W) (st := g.st) (Lb := g.L1 ++ O1) (r := r') (e := e'.ev (rEvent g.K.C))
      (dw ok.kfin) dm (by show (e'.tr.ev _).wlog = _; rw [Transport.ev_wlog, hlog1])
      (hb.step hs1) (hok.suffix dfl) (fuel := f') (by have := d9.tle.input_len; omega)
    rw [hid2] at hw
    have hseen : QR g (e'.ev (rEvent g.K.C)).tr := by
      show rEvent g.content ∈ e'.tr.events ++ [rEvent g.K.C]
      simp [Cfg.K]
    have hO : O1 ++ r'.sp.output = g.Ob := by
      have : O1 ++ r'.sp.output = [] ++ g.K.O := hlog2
      simpa [Cfg.K, Cfg.Ob] using this
    exact bwrite_outF (r := r') (e0 := e'.ev (rEvent g.K.C)) (O1 := O1) hph d1 hw hs1 dfl d8 hfin hO hseen hb hstop hev hsc

theorem ha_poll {g : Cfg} {W : FList} (ok : WFOK g W) {c : Conn} (h : HA3 g W c) (hok : FlOk c.env.tr) : RF g W 3 c := by
  obtain ⟨r, ⟨ops, sub, ws, pr⟩, hph, ⟨hops, hws, hpr, dO, hs⟩, hb, hstop, hev, hsc⟩ := h
  simp only at hops hws hpr hs
  subst hops hws hpr
  exact ra_pollF ok hph hs hb hok hstop hev hsc

/-- the first poll of the handler -/
theorem writersF_first {g : Cfg} {W : FList} (ok : WFOK g W) (c : Conn) (hc : FirstCfg g c) (hok : FlOk c.env.tr) :
    RF g W 6 c := by
  obtain ⟨e1, hph, hlen, hwire, hlog, hm, hb, hstop, hev, hsc⟩ := hc
  have hrole : g.p.request.role = 1 := ok.role
  have hstart : C03SI.Start g.K.E (Str.Parser.fromParser g.cap g.p.request e1 g.mc) :=
    C03SI.start_fresh g.cap g.p.request e1 g.mc hlen ok.hid (Or.inl hrole)
  have hrinv : RInv g.K (AReq.new (Str.Parser.fromParser g.cap g.p.request e1 g.mc)) e1 c.env.tr.input [] [] := by
    refine ⟨hstart.mtch, hstart.inv, rfl, rfl, rfl, hwire, fun x => ?_⟩
    have := C03SI.rem_start hstart x
    show refWire g.K.E (e1 ++ x) = (Rem g.K.E (Str.Parser.fromParser g.cap g.p.request e1 g.mc) x).pre [] []
    rw [this]; rfl
  have hrst : RSt g.K g.L1 [] (AReq.new (Str.Parser.fromParser g.cap g.p.request e1 g.mc)) c.env.mutex c.env.tr [] [] :=
    ⟨⟨e1, hrinv⟩, by rw [hm]; exact lockInv_free rfl, Or.inl hm, ⟨[], by rw [hlog, List.append_nil], rfl⟩⟩
  rw [ok.hs] at hph
  exact (ra_pollF ok (sub := .fresh) hph hrst hb hok hstop hev hsc).mono (by omega)

theorem sfw_poll {g : Cfg} {W : FList} (ok : WFOK g W) {c : Conn} (h : SFw g W c) (hap : C12Inv.AllProp c)
    (hok : FlOk c.env.tr) : RF g W (2 * c.env.tr.input.length + 15) c := by
  have hfu := ok.hfu
  have hwc := wcostAll_le W
  rcases h with (h | h | h) | h | h
  · rcases fstage_first ok.fok h with ⟨c', hh, hl, hS', hw, ha⟩ | ⟨k, c1, hk, hs, hl, hf⟩
    · exact Or.inl (Or.inl (Or.inl ⟨c', hh.mono (by omega), hl, Or.inl (Or.inl hS'), hw, ha⟩))
    · obtain ⟨hfl1, _⟩ := steps_fl hs hap
      exact (GResF.of_steps hs hl hap (writersF_first ok c1 hf (hok.suffix hfl1))).mono (by omega)
  · exact (ha_poll ok h hok).mono (by omega)
  · exact (hwf_poll ok h hok).mono (by omega)
  · exact Or.inl ((hwq_pollW (qr_mono g) (by omega) h).mono (by omega))
  · exact Or.inl ((tq_pollW (qr_mono g) h).mono (by omega))

/-- **The executor**: a Responder whose handler reads all of Stdin and then runs any sequence of `write_all` and
`flush` calls on its two writers, over a transport with any script of `Pending`/`Ok` flush answers. -/
theorem run_writersF {g : Cfg} {W : FList} (ok : WFOK g W) {Z : Bytes}
    (hns : NoStuckW g.cap g.mc (g.U ++ Z))
    (hNF : ∀ F x, F ++ x ++ Z = g.U ++ Z → (run .header F g.mc).st.isFinal = false)
    (em : EndMode) (evs0 : List String) (c : Conn) (n0 fuel : Nat) (hst : FStage g c)
    (hem : c.env.tr.endMode = em) (hev0 : ∀ s ∈ evs0, s ∈ c.env.tr.events)
    (hap : C12Inv.AllProp c) (hok : FlOk c.env.tr)
    (hsegs : c.env.segs = []) (hf : mu c.env.tr + 1 ≤ fuel) :
    ∃ c'' fin, runTask fuel c n0 none = (c'', fin) ∧
      (GEnd g.cap g.mc Z g.more (g.hs0 + 1)
          (fun i : Bytes × Bytes => g.p.flags.toNat % 2 = 1 ∧ i.1 ++ i.2 = g.Ob)
          (fun _ => g.U ++ Z) (fun i => g.Lw (writesOf W) i.1 i.2)
          (fun _ => [hsEvent g.p.request, rEvent g.content]) em evs0 (ans c.env.tr) c'' fin ∨
       (fin = "RET" ∧ FQW g (writesOf W) (QR g) c'' ∧ c''.env.tr.endMode = em ∧ (∀ s ∈ evs0, s ∈ c''.env.tr.events))) :=
  run_stagesF (cap24 g) (fun _ _ => hns) (fun _ _ => hNF)
    (fun _ _ h => SQW.cong (qr_mono g) (fun c c' h a b d e f => S0F.cong c c' h a b d e f) h)
    (fun _ h hap hok => (sfw_poll ok h hap hok).imp3 (fun c1 _ h => by
      obtain ⟨O1, O2, hO, q3, haf⟩ := h
      obtain ⟨raw, hph, hw, hraw⟩ := haf.ph
      exact ⟨(O1, O2), ⟨haf.keep, hO⟩,
        Or.inr ⟨raw, hph, by rw [hw], hraw, haf.log, haf.ben, haf.stop⟩,
        ⟨haf.sc, haf.mtx, haf.ev.1, fun s hs => by
          rcases List.mem_cons.1 hs with rfl | hs
          · exact haf.ev.2
          · rw [List.mem_singleton.1 hs]; exact q3⟩⟩))
    em evs0 c n0 fuel (Or.inl (Or.inl hst)) hem hev0 hap hok hsegs hf

/-! ## The chain step -/

/-- the request (KEEP_CONN) started from any `StartAt` of a chain: it ends parked behind its Stdin terminator, which
the stream parser never consumed -/
theorem serve_writersF_core {g : Cfg} {W : FList} (ok : WFOK g W) (hk : g.p.flags.toNat % 2 = 1) {left : List Rec}
    (hleft : LeftOK (alignedBufsize g.b) left) {Z : Bytes} (hT : IdleNoise g.term)
    (hZ : GoodNext g.cap g.mc [g.term] Z)
    {Lw : Bytes} {evs : List String} {A0 : Nat} {c : Conn} (n0 fuel : Nat)
    (hLw : Lw = g.L0 ++ idleOwed g.mc left)
    (hstart : StartAt g.cap g.mc left Lw ((g.hscript, true) :: g.more) g.hs0 evs A0 g.W c)
    (hap : C12Inv.AllProp c) (hok : FlOk c.env.tr) (hf : A0 + c.env.tr.fl.length + 1 ≤ fuel) :
    ∃ c' O1 O2, runTask fuel c n0 none = (c', "STALL") ∧ O1 ++ O2 = g.Ob ∧ rEvent g.content ∈ c'.env.tr.events ∧
      Waiting g.cap g.mc [g.term] ((g.front left).Lw (writesOf W) O1 O2 ++ idleOwed g.mc [g.term]) g.more (g.hs0 + 1)
        (hsEvent g.p.request :: evs) A0 c' := by
  have okf := ok.front hleft
  obtain ⟨hst, hsg, hem, hans, hev, hin⟩ := fstage_of_startAt hleft hLw hstart
  have hser : serAll [g.term] = g.term.ser := C02.serAll_single _
  have hidle : ∀ e ∈ [g.term], IdleNoise e := fun e he => by rw [List.mem_singleton.1 he]; exact hT
  have hU : (g.front left).U = g.term.ser := ok.hU
  obtain ⟨c', fin, hrun, hres⟩ :=
    run_writersF okf (Z := Z) (by rw [hU, ← hser]; exact hZ.1) (by rw [hU, ← hser]; exact hZ.2)
      .pend evs c n0 fuel hst hem hev hap hok hsg (by unfold mu; omega)
  rcases hres with ⟨⟨O1, O2⟩, ⟨hkp0, hO⟩, hkp, hem', hev', hans', hsg', hend⟩ |
      ⟨_, ⟨O1, O2, _, _, hfu⟩, _, _⟩
  · rcases hend with ⟨rfl, hp⟩ | ⟨_, hfn⟩
    · obtain ⟨F, hF, hps, hph, hlg⟩ := hp.pst
      have hFe : F = serAll [g.term] := by
        rw [hser, ← hU]; exact List.append_cancel_right hF
      subst hFe
      have hnf : (run .header (serAll [g.term]) g.mc).st.isFinal = false := (run_idle_out g.mc _ hidle).2.2
      have hob : (run .header (serAll [g.term]) (g.front left).mc).out = idleOwed g.mc [g.term] :=
        (run_idle_out g.mc _ hidle).1
      refine ⟨c', O1, O2, hrun, hO, hkp.ev _ (List.mem_cons_of_mem _ List.mem_cons_self), ⟨hph, hnf, hps.rem, hp.inp, by rw [hlg, hob],
        ⟨(g.front left).Lw (writesOf W) O1 O2, by
          show _ = _ ++ (run .header (serAll [g.term]) (g.front left).mc).out
          rw [hob]⟩, hps.stop, hps.ben, hkp.sc, hkp.mx,
        hkp.hs, ?_, hsg', hem', by omega⟩⟩
      intro s hs
      rcases List.mem_cons.1 hs with rfl | hs
      · exact hkp.ev _ List.mem_cons_self
      · exact hev' s hs
    · rw [hfn.em] at hem'; cases hem'
  · have := hfu.nokeep
    have e : (g.front left).p = g.p := rfl
    rw [e] at this
    omega

end Fcgi.E2E
