import Fcgi.Proofs.E2EWritersChain
import Fcgi.Props.C12Inv
/-!
# End-to-end composition (C07/C10) — two writers, any sequence of `write_all` AND `flush` calls

`Proofs/E2EWriters` with `flush` ops anywhere in the script, over a transport with an arbitrary script of flush
answers (`Pending` / `Ok`; `FlOk`: no error answer).  A `Pending` flush wakes the task without consuming a read or
write answer, so the measure of the executors is `mu = |rd| + |wr| + |fl|` here, and the relation between successive
polls is `LinkF` (`Link` without the clause that ties wake-ups to read/write answers).  That the flush script only
shrinks (needed for `FlOk` and for the measure) comes from the whole-model invariant of `Proofs/C12Inv`
(`Clean` ⇒ the consumed flush answers are a prefix of the script).
-/
namespace Fcgi.E2E
open Fcgi Fcgi.Req Fcgi.Str Fcgi.Async Fcgi.Run Fcgi.Spec Fcgi.C09E

/-! ## The flush script -/

/-- no error among the scripted flush answers -/
def FlOk (t : Transport) : Prop := ∀ a ∈ t.fl, a ≠ FlAns.err

/-- scripted answers still to come, flush answers included -/
def mu (t : Transport) : Nat := ans t + t.fl.length

theorem FlOk.suffix {t t' : Transport} (h : FlOk t) (hs : t'.fl <:+ t.fl) : FlOk t' :=
  fun a ha => h a (hs.subset ha)

theorem fl_of_clean {t t' : Transport} (h : C12Inv.Clean t t') : t'.fl <:+ t.fl := by
  obtain ⟨cw, cf, d, _, hf, _⟩ := h.answers
  exact ⟨cf, hf.symm⟩

theorem fl_of_wout {t t' : Transport} (h : C12Inv.WOut t t' false) : t'.fl <:+ t.fl := fl_of_clean h.toClean

/-- `TStep` without the clause on wake-ups -/
structure TF (t t' : Transport) : Prop where
  tle : TLe t t'
  rd : t'.rd <:+ t.rd
  wr : t'.wr <:+ t.wr
  hold : t'.hold = t.hold
  em : t'.endMode = t.endMode

theorem TStep.tf {t t' : Transport} (h : TStep t t') : TF t t' := ⟨h.tle, h.rd, h.wr, h.hold, h.em⟩
theorem TF.refl (t : Transport) : TF t t := (TStep.refl t).tf
theorem TF.trans {a b c : Transport} (h1 : TF a b) (h2 : TF b c) : TF a c :=
  ⟨h1.tle.trans h2.tle, h2.rd.trans h1.rd, h2.wr.trans h1.wr, h2.hold.trans h1.hold, h2.em.trans h1.em⟩
theorem TF.ans_le {t t' : Transport} (s : TF t t') : ans t' ≤ ans t := by
  have h1 := s.rd.length_le
  have h2 := s.wr.length_le
  unfold ans; omega
theorem TF.ben {t t' : Transport} (s : TF t t') (h : Ben t) : Ben t' :=
  ⟨fun a ha => h.rd a (s.rd.subset ha), fun a ha => h.wr a (s.wr.subset ha),
   s.hold.trans h.hold, by rw [s.em]; exact h.em⟩
theorem mu_le {t t' : Transport} (s : TF t t') (hf : t'.fl <:+ t.fl) : mu t' ≤ mu t := by
  have := s.ans_le; have := hf.length_le; unfold mu; omega

/-! ## `write_all`, with the flush script tracked -/

/-- What `handlerPoll` does for a `writeAll me data` on writer `me` of the table `ws`. -/
theorem writeAll_run2F {ty me id : Nat} (r : AReq) (data : Bytes) (rest : List HOp) (pr : Bool) :
    ∀ (N fuel : Nat) (sub : HSub) (ws : List (Option Writer)) (w : Writer) (e : Run.Env) (L sent : Bytes),
      me < ws.length → ws.getD me none = some w →
      (restOf sub data).length ≤ N → wcost (restOf sub data).length ≤ fuel → Ben e.tr →
      WSt2 ty me id w e.mutex (restOf sub data) sent → e.tr.wlog = L ++ sent →
      (∃ (w' : Writer) (e' : Run.Env) (rd' L' sent' : Bytes),
          handlerPoll fuel r { ops := .writeAll me data :: rest, sub := sub, writers := ws, propagate := pr } e =
            (r, { ops := .writeAll me data :: rest, sub := .writeRest rd', writers := ws.set me (some w'), propagate := pr },
              e', .pending) ∧
          rd' ≠ [] ∧ e'.tr.wlog = L' ++ sent' ∧
          L' ++ streamRecords ty id rd' = L ++ streamRecords ty id (restOf sub data) ∧
          WSt2 ty me id w' e'.mutex rd' sent' ∧ rd'.length ≤ (restOf sub data).length ∧
          TStep e.tr e'.tr ∧ e'.tr.input = e.tr.input ∧ e'.segs = e.segs ∧
          e'.tr.woken = true ∧ ans e'.tr < ans e.tr ∧ e'.tr.fl <:+ e.tr.fl) ∨
      (∃ (w' : Writer) (e' : Run.Env) (fuel' : Nat),
          handlerPoll fuel r { ops := .writeAll me data :: rest, sub := sub, writers := ws, propagate := pr } e =
            handlerPoll fuel' r { ops := rest, sub := .fresh, writers := ws.set me (some w'), propagate := pr } (e'.ev "W=ok") ∧
          fuel ≤ fuel' + wcost (restOf sub data).length ∧
          e'.tr.wlog = L ++ streamRecords ty id (restOf sub data) ∧
          WIdle ty id w' ∧ e'.mutex = none ∧
          TStep e.tr e'.tr ∧ e'.tr.input = e.tr.input ∧ e'.segs = e.segs ∧ e'.tr.fl <:+ e.tr.fl) := by
  intro N
  induction N with
  | zero =>
    intro fuel sub ws w e L sent hi hw hN hf hb hs hl
    have hrd : restOf sub data = [] := List.length_eq_zero_iff.1 (by omega)
    obtain ⟨f, rfl⟩ : ∃ f, fuel = f + 1 := ⟨fuel - 1, by unfold wcost at hf; omega⟩
    right
    rw [hp_writeAll f r me data rest sub ws w hw pr e]
    simp only [hrd, List.isEmpty_nil, if_true]
    obtain ⟨hty, hid, hst | ⟨hinv, _, _⟩⟩ := hs
    · obtain ⟨a1, a2, a3, a4⟩ := hst
      subst a4
      have hset : ws.set me (some w) = ws := by
        apply List.ext_getElem?
        intro j
        by_cases hj : j = me
        · subst hj
          rw [List.getElem?_set_self hi]
          have := hw
          simp only [List.getD] at this
          cases hg : ws[j]? with
          | none => simp [hg] at this
          | some x => simp [hg] at this; rw [this]
        · rw [List.getElem?_set_ne (fun h => hj h.symm)]
      refine ⟨w, e, f, by rw [hset], by unfold wcost; simp, by simpa [streamRecords_nil] using hl, ⟨hty, hid, a1, a2⟩, a3,
        .refl _, rfl, rfl, List.suffix_refl _⟩
    · have := hinv.loop.pos
      rw [hrd] at this
      simp at this
  | succ N ih =>
    intro fuel sub ws w e L sent hi hw hN hf hb hs hl
    by_cases hrd : restOf sub data = []
    · exact ih fuel sub ws w e L sent hi hw (by rw [hrd]; simp) hf hb hs hl
    · obtain ⟨f, rfl⟩ : ∃ f, fuel = f + 1 := ⟨fuel - 1, by unfold wcost at hf; omega⟩
      have hpos : 0 < (restOf sub data).length := List.length_pos_iff.mpr hrd
      rw [hp_writeAll f r me data rest sub ws w hw pr e]
      have hemp : (restOf sub data).isEmpty = false := by simpa using hrd
      simp only [hemp, Bool.false_eq_true, if_false]
      rcases hpw : w.pollWrite me (restOf sub data) e.mutex e.tr with ⟨w1, m1, t1, res⟩
      obtain ⟨s1, s2, s3⟩ := pw_step2 hs hrd hb hl hpw
      have hwo := C12Inv.pollWrite_wout hpw
      cases res with
      | pending =>
        left
        obtain ⟨sent', b1, b2, b3, b4⟩ := s3
        exact ⟨w1, { e with mutex := m1, tr := t1 }, restOf sub data, L, sent', rfl, hrd, b1, rfl, b2,
          Nat.le_refl _, s1, s2, rfl, b3, b4, fl_of_wout hwo⟩
      | err x => exact s3.elim
      | panic s => exact s3.elim
      | ready n =>
        obtain ⟨c1, c2, c3, _, _⟩ := s3
        have hfl1 : t1.fl <:+ e.tr.fl := fl_of_wout hwo
        have hn : n ≠ 0 := by omega
        obtain ⟨n', rfl⟩ : ∃ n', n = n' + 1 := ⟨n - 1, by omega⟩
        simp only
        have hdrop : (restOf sub data).drop (n' + 1) = (restOf sub data).drop 65535 := by
          rw [c1, drop_min_len]
        rw [hdrop]
        have hlen' : ((restOf sub data).drop 65535).length ≤ N := by
          simp only [List.length_drop]; omega
        have hcost : wcost ((restOf sub data).drop 65535).length ≤ f := by
          unfold wcost at hf ⊢
          simp only [List.length_drop]
          omega
        have hrec := streamRecords_cons ty id hrd
        have hi' : me < (ws.set me (some w1)).length := by rw [List.length_set]; exact hi
        have hss : ∀ x : Writer, (ws.set me (some w1)).set me (some x) = ws.set me (some x) := fun x => by simp
        rcases ih f (.writeRest ((restOf sub data).drop 65535)) (ws.set me (some w1)) w1 { e with mutex := m1, tr := t1 }
            (L ++ recordOf ty id ((restOf sub data).take 65535)) [] hi' (getD_set_self ws me hi w1) hlen' hcost (hb.step s1) c3
            (by simpa using c2) with
          ⟨w2, e2, rd2, L2, sent2, d1, d2, d3, d4, d5, d6, d7, d8, d9, d10, d11, d12⟩ |
          ⟨w2, e2, f2, d1, d2, d3, d4, d5, d6, d7, d8, d9⟩
        · left
          rw [hss] at d1
          refine ⟨w2, e2, rd2, L2, sent2, d1, d2, d3, ?_, d5, ?_, s1.trans d7, d8.trans s2, d9, d10, ?_, d12.trans hfl1⟩
          · rw [d4, hrec, List.append_assoc]; rfl
          · have d6' : rd2.length ≤ ((restOf sub data).drop 65535).length := d6
            simp only [List.length_drop] at d6'; omega
          · have := s1.ans_le
            have d11' : ans e2.tr < ans t1 := d11
            omega
        · right
          rw [hss] at d1
          refine ⟨w2, e2, f2, d1, ?_, ?_, d4, d5, s1.trans d6, d7.trans s2, d8, d9.trans hfl1⟩
          · have d2' : f ≤ f2 + wcost ((restOf sub data).drop 65535).length := d2
            unfold wcost at d2' ⊢
            simp only [List.length_drop] at d2'
            omega
          · rw [d3, hrec, List.append_assoc]; rfl


/-! ## `flush` -/

theorem flush_cases (t : Transport) (hok : FlOk t) :
    t.flush.1.wlog = t.wlog ∧ t.flush.1.input = t.input ∧ t.flush.1.fl <:+ t.fl ∧ ans t.flush.1 = ans t ∧
    TF t t.flush.1 ∧
    ((t.flush.2 = .ready (.ok ()) ∧ TStep t t.flush.1) ∨
     (t.flush.2 = .pending ∧ t.flush.1.woken = true ∧ t.flush.1.fl.length < t.fl.length)) := by
  have hle := flush_le' t
  obtain ⟨input, endMode, rd, wr, fl, wlog, events, hold, woken, readWaker, abortKind⟩ := t
  rcases fl with _ | ⟨a, rest⟩
  · refine ⟨rfl, rfl, List.suffix_refl _, rfl, ⟨hle, List.suffix_refl _, List.suffix_refl _, rfl, rfl⟩,
      Or.inl ⟨rfl, ⟨hle, List.suffix_refl _, List.suffix_refl _, rfl, rfl, Or.inl rfl⟩⟩⟩
  · cases a with
    | ok =>
      refine ⟨rfl, rfl, List.suffix_cons _ _, rfl, ⟨hle, List.suffix_refl _, List.suffix_refl _, rfl, rfl⟩,
        Or.inl ⟨rfl, ⟨hle, List.suffix_refl _, List.suffix_refl _, rfl, rfl, Or.inl rfl⟩⟩⟩
    | pending =>
      refine ⟨rfl, rfl, List.suffix_cons _ _, rfl, ⟨hle, List.suffix_refl _, List.suffix_refl _, rfl, rfl⟩,
        Or.inr ⟨rfl, rfl, by simp [Transport.flush, Transport.ev]⟩⟩
    | err => exact absurd rfl (hok .err (by simp))

theorem hp_flush (fuel : Nat) (r : AReq) (i : Nat) (rest : List HOp) (sub : HSub)
    (ws : List (Option Writer)) (w : Writer) (hw : ws.getD i none = some w) (pr : Bool) (e : Run.Env) :
    handlerPoll (fuel + 1) r { ops := .flush i :: rest, sub := sub, writers := ws, propagate := pr } e =
      match w.pollFlush i e.mutex e.tr with
      | (w, m, t, .pending) =>
        (r, { ops := .flush i :: rest, sub := sub, writers := ws.set i (some w), propagate := pr },
          { e with mutex := m, tr := t }, .pending)
      | (w, m, t, .ready _) =>
        handlerPoll fuel r { ops := rest, sub := .fresh, writers := ws.set i (some w), propagate := pr }
          ({ e with mutex := m, tr := t }.ev "F=ok")
      | (w, m, t, .err x) =>
        if pr then (r, { ops := rest, sub := .fresh, writers := ws.set i (some w), propagate := pr },
            ({ e with mutex := m, tr := t }.ev s!"F!{showIo x}"), .done (.error x))
        else handlerPoll fuel r { ops := rest, sub := .fresh, writers := ws.set i (some w), propagate := pr }
            ({ e with mutex := m, tr := t }.ev s!"F!{showIo x}")
      | (w, m, t, .panic s) =>
        (r, { ops := .flush i :: rest, sub := sub, writers := ws.set i (some w), propagate := pr },
          { e with mutex := m, tr := t }, .panic s) := by
  simp only [handlerPoll, hw]
  rfl

theorem pollFlush_eq (w : Writer) (i : Nat) (m : MutexSt) (t : Transport) (hwr : w.isWriting = false)
    (hst : (w.lock = .none ∧ m = none) ∨ (w.lock = .held ∧ m = some (i + 1))) :
    w.pollFlush i m t =
      match t.flush with
      | (t', .pending) => ({ w with lock := .held }, some (i + 1), t', .pending)
      | (t', .ready (.ok ())) => ({ w with lock := .none }, none, t', .ready 0)
      | (t', .ready (.error e)) => ({ w with lock := .none }, none, t', .err e) := by
  rcases hst with ⟨hl, hm⟩ | ⟨hl, hm⟩
  · simp only [Writer.pollFlush, hwr, hl, hm, lockPoll]
    rcases t.flush with ⟨t', (_ | _) | _⟩ <;> rfl
  · simp only [Writer.pollFlush, hwr, hl, hm, lockPoll]
    rcases t.flush with ⟨t', (_ | _) | _⟩ <;> rfl

/-! ## The tail: any sequence of `write_all` and `flush` calls -/

/-- an output op of the script: `write_all(data)` or `flush()` on writer `i` (0 = Stdout, 1 = Stderr) -/
inductive WOp
  | w (i : _root_.Fin 2) (data : Bytes)
  | f (i : _root_.Fin 2)

abbrev FList := List WOp

def WOp.hop : WOp → HOp
  | .w i d => .writeAll i.val d
  | .f i => .flush i.val

def ftail (W : FList) (st : ExitStatus) : List HOp := W.map WOp.hop ++ [.dropW 0, .dropW 1, .ret st]
def otailF (W : FList) (st : ExitStatus) : List HOp := .open_ 6 :: .open_ 7 :: ftail W st

/-- the writes of the script, flushes erased -/
def writesOf : FList → WList
  | [] => []
  | .w i d :: W => (i, d) :: writesOf W
  | .f _ :: W => writesOf W

/-- fuel the ops need in `handlerPoll`: one unit per flush (per poll) -/
def fcost : FList → Nat
  | [] => 0
  | .w _ d :: W => wcost d.length + fcost W
  | .f _ :: W => 1 + fcost W

/-- writer `i` holds the lock for its flush -/
structure FHeld (ty id me : Nat) (w : Writer) (m : MutexSt) : Prop where
  ty : w.rtype = ty
  id : w.id = id
  lock : w.lock = .held
  wr : w.isWriting = false
  mx : m = some (me + 1)

/-- handler suspended in ONE `write_all` (as `HW2`) or in ONE `flush` (writer `i` holds the lock, nothing of it on
the wire); every other writer is idle; the ops after it are `W'` -/
structure HW3 (id : Nat) (W : FList) (st : ExitStatus) (Lb : Bytes) (h : HState) (e : Run.Env) : Prop where
  pr : h.propagate = true
  ex : ∃ (i : _root_.Fin 2) (W' : FList) (ws : _root_.Fin 2 → Writer),
    h.writers = wtab ws ∧ (∀ j : _root_.Fin 2, j ≠ i → WIdle (6 + j.val) id (ws j)) ∧
    ((∃ (data L sent : Bytes), h.ops = .writeAll i.val data :: ftail W' st ∧
        WSt2 (6 + i.val) i.val id (ws i) e.mutex (restOf h.sub data) sent ∧
        e.tr.wlog = L ++ sent ∧
        L ++ (streamRecords (6 + i.val) id (restOf h.sub data) ++ outOf id (writesOf W')) = Lb ++ outOf id (writesOf W) ∧
        wcost (restOf h.sub data).length + fcost W' ≤ fcost W) ∨
     (h.ops = .flush i.val :: ftail W' st ∧ FHeld (6 + i.val) id i.val (ws i) e.mutex ∧
        e.tr.wlog ++ outOf id (writesOf W') = Lb ++ outOf id (writesOf W) ∧ 1 + fcost W' ≤ fcost W))

/-- result of one poll of the tail -/
def WOut3 (id : Nat) (W : FList) (st : ExitStatus) (Lb : Bytes) (r : AReq) (e : Run.Env)
    (out : AReq × HState × Run.Env × HRes) : Prop :=
  out.1 = r ∧ out.2.2.1.tr.input = e.tr.input ∧ out.2.2.1.segs = e.segs ∧ out.2.2.1.tr.fl <:+ e.tr.fl ∧
  TF e.tr out.2.2.1.tr ∧
  ((out.2.2.2 = .pending ∧ out.2.2.1.tr.woken = true ∧ mu out.2.2.1.tr < mu e.tr ∧
      HW3 id W st Lb out.2.1 out.2.2.1) ∨
   (out.2.2.2 = .done (.ok st) ∧ TStep e.tr out.2.2.1.tr ∧ out.2.1.writers = [none, none] ∧ out.2.2.1.mutex = none ∧
      out.2.2.1.tr.wlog = Lb ++ outOf id (writesOf W)))

theorem WOut3.after {id : Nat} {W : FList} {st : ExitStatus} {Lb : Bytes} {r : AReq} {e e0 : Run.Env}
    {out : AReq × HState × Run.Env × HRes} (h : WOut3 id W st Lb r e out)
    (hts : TStep e0.tr e.tr) (hfl : e.tr.fl <:+ e0.tr.fl) (hin : e.tr.input = e0.tr.input) (hsg : e.segs = e0.segs) :
    WOut3 id W st Lb r e0 out := by
  obtain ⟨q0, q2, q3, qf, q1, q4⟩ := h
  refine ⟨q0, q2.trans hin, q3.trans hsg, qf.trans hfl, hts.tf.trans q1, ?_⟩
  rcases q4 with ⟨a1, a2, a3, a4⟩ | ⟨a1, a2, a3⟩
  · exact Or.inl ⟨a1, a2, by have := mu_le hts.tf hfl; omega, a4⟩
  · exact Or.inr ⟨a1, hts.trans a2, a3⟩

theorem ftail_w (i : _root_.Fin 2) (d : Bytes) (W : FList) (st : ExitStatus) :
    ftail (.w i d :: W) st = .writeAll i.val d :: ftail W st := rfl
theorem ftail_f (i : _root_.Fin 2) (W : FList) (st : ExitStatus) :
    ftail (.f i :: W) st = .flush i.val :: ftail W st := rfl

/-- **The tail from between two ops** (all writers idle, the mutex free). -/
theorem tail_run3 (id : Nat) (r : AReq) (st : ExitStatus) (Wall : FList) (Lb : Bytes) :
    ∀ (W : FList) (fuel : Nat) (ws : _root_.Fin 2 → Writer) (e : Run.Env),
      fcost W + 4 ≤ fuel → Ben e.tr → FlOk e.tr → (∀ j : _root_.Fin 2, WIdle (6 + j.val) id (ws j)) → e.mutex = none →
      e.tr.wlog ++ outOf id (writesOf W) = Lb ++ outOf id (writesOf Wall) → fcost W ≤ fcost Wall →
      WOut3 id Wall st Lb r e (handlerPoll fuel r
        { ops := ftail W st, sub := .fresh, writers := wtab ws, propagate := true } e) := by
  intro W
  induction W with
  | nil =>
    intro fuel ws e hf hb hok hid hm hL _
    obtain ⟨f, rfl⟩ : ∃ f, fuel = f + 3 := ⟨fuel - 3, by omega⟩
    show WOut3 id Wall st Lb r e (handlerPoll (f + 2 + 1) r
      { ops := .dropW 0 :: [.dropW 1, .ret st], sub := .fresh, writers := wtab ws, propagate := true } e)
    rw [hp_dropW]
    simp only [wtab, List.getD_cons_zero, List.set_cons_zero]
    rw [hp_dropW]
    simp only [List.getD_cons_succ, List.getD_cons_zero, List.set_cons_succ, List.set_cons_zero]
    rw [hp_ret]
    refine ⟨rfl, rfl, rfl, List.suffix_refl _, .refl _, Or.inr ⟨rfl, .refl _, rfl, ?_, ?_⟩⟩
    · show lockDrop (ws 1).lock (lockDrop (ws 0).lock e.mutex) = none
      rw [(hid 0).lock, (hid 1).lock, hm]; rfl
    · show e.tr.wlog = _
      simpa [outOf, writesOf] using hL
  | cons x W ih =>
    intro fuel ws e hf hb hok hid hm hL hc
    cases x with
    | w i data =>
      rw [ftail_w]
      have hcost : fcost (.w i data :: W) = wcost data.length + fcost W := rfl
      rw [hcost] at hf hc
      have hout : outOf id (writesOf (.w i data :: W)) = streamRecords (6 + i.val) id data ++ outOf id (writesOf W) := rfl
      rw [hout] at hL
      rcases writeAll_run2F (ty := 6 + i.val) (me := i.val) (id := id) r data (ftail W st) true data.length fuel .fresh
          (wtab ws) (ws i) e e.tr.wlog [] (by show i.val < 2; exact i.isLt) (wtab_get ws i) (Nat.le_refl _) (by
            show wcost data.length ≤ fuel; omega) hb (by rw [hm]; exact (hid i).wst i.val data) (by simp) with
        ⟨w', e', rd', L', sent', d1, d2, d3, d4, d5, d6, d7, d8, d9, d10, d11, d12⟩ |
        ⟨w', e', f', d1, d2, d3, d4, d5, d6, d7, d8, d9⟩
      · rw [d1]
        refine ⟨rfl, d8, d9, d12, d7.tf, Or.inl ⟨rfl, d10, ?_, rfl, i, W, (fun j => if j = i then w' else ws j),
          wtab_set ws i w', ?_, Or.inl ⟨data, L', sent', rfl, ?_, d3, ?_, ?_⟩⟩⟩
        · show mu e'.tr < mu e.tr
          have := d12.length_le; unfold mu; omega
        · intro j hj; simp only [if_neg hj]; exact hid j
        · simp only [if_true]; exact d5
        · show L' ++ (streamRecords (6 + i.val) id rd' ++ outOf id (writesOf W)) = _
          rw [← List.append_assoc, d4, ← hL]
          simp [restOf]
        · show wcost rd'.length + fcost W ≤ fcost Wall
          have d6' : rd'.length ≤ data.length := d6
          have : wcost rd'.length ≤ wcost data.length := by unfold wcost; omega
          omega
      · rw [d1, wtab_set]
        have d2' : fuel ≤ f' + wcost data.length := d2
        have d3' : e'.tr.wlog = e.tr.wlog ++ streamRecords (6 + i.val) id data := d3
        have hs1 : TStep e.tr (e'.ev "W=ok").tr := d6.trans (TStep.ev _ (by decide))
        refine (ih f' (fun j => if j = i then w' else ws j) (e'.ev "W=ok") (by omega) (hb.step hs1) (hok.suffix d9) ?_ d5 ?_
          (by omega)).after hs1 d9 d7 d8
        · intro j
          by_cases hj : j = i
          · subst hj; simp only [if_true]; exact d4
          · simp only [if_neg hj]; exact hid j
        · show (e'.tr.ev "W=ok").wlog ++ outOf id (writesOf W) = _
          rw [Transport.ev_wlog, d3', List.append_assoc]; exact hL
    | f i =>
      rw [ftail_f]
      have hcost : fcost (.f i :: W) = 1 + fcost W := rfl
      rw [hcost] at hf hc
      have hout : outOf id (writesOf (.f i :: W)) = outOf id (writesOf W) := rfl
      rw [hout] at hL
      obtain ⟨f, rfl⟩ : ∃ f, fuel = f + 1 := ⟨fuel - 1, by omega⟩
      rw [hp_flush f r i.val (ftail W st) .fresh (wtab ws) (ws i) (wtab_get ws i) true e,
        pollFlush_eq (ws i) i.val e.mutex e.tr (hid i).wr (Or.inl ⟨(hid i).lock, hm⟩)]
      obtain ⟨c1, c2, c3, c4, c5, c6⟩ := flush_cases e.tr hok
      rcases hfl : e.tr.flush with ⟨t', res⟩
      rw [hfl] at c1 c2 c3 c4 c5 c6
      simp only at c1 c2 c3 c4 c5 c6
      rcases c6 with ⟨rfl, c7⟩ | ⟨rfl, c7, c8⟩
      · simp only
        rw [wtab_set]
        have hs1 : TStep e.tr (({ e with mutex := none, tr := t' } : Run.Env).ev "F=ok").tr :=
          c7.trans (TStep.ev _ (by decide))
        refine (ih f (fun j => if j = i then { ws i with lock := .none } else ws j)
          (({ e with mutex := none, tr := t' } : Run.Env).ev "F=ok") (by omega) (hb.step hs1) (hok.suffix c3) ?_ rfl ?_
          (by omega)).after hs1 c3 c2 rfl
        · intro j
          by_cases hj : j = i
          · subst hj; simp only [if_true]; exact ⟨(hid j).ty, (hid j).id, rfl, (hid j).wr⟩
          · simp only [if_neg hj]; exact hid j
        · show (t'.ev "F=ok").wlog ++ outOf id (writesOf W) = _
          rw [Transport.ev_wlog, c1]; exact hL
      · simp only
        rw [wtab_set]
        refine ⟨rfl, c2, rfl, c3, c5, Or.inl ⟨rfl, c7, by show mu t' < mu e.tr; unfold mu; omega, rfl, i, W,
          (fun j => if j = i then { ws i with lock := .held } else ws j), rfl, ?_, Or.inr ⟨rfl, ?_, ?_, by omega⟩⟩⟩
        · intro j hj; simp only [if_neg hj]; exact hid j
        · simp only [if_true]; exact ⟨(hid i).ty, (hid i).id, rfl, (hid i).wr, rfl⟩
        · show t'.wlog ++ _ = _
          rw [c1]; exact hL

/-- **One poll of the tail**, the handler suspended in a `write_all` or in a `flush`. -/
theorem write_phase3 {id : Nat} {W : FList} {st : ExitStatus} {Lb : Bytes}
    {r : AReq} {h : HState} {e : Run.Env} (hw : HW3 id W st Lb h e) (hb : Ben e.tr) (hok : FlOk e.tr)
    {fuel : Nat} (hf : fcost W + 4 ≤ fuel) :
    WOut3 id W st Lb r e (handlerPoll fuel r h e) := by
  obtain ⟨ops, sub, wsl, pr⟩ := h
  obtain ⟨hpr, i, W', ws, hws, hidle, hcase⟩ := hw
  simp only at hpr hws hcase
  subst hpr hws
  rcases hcase with ⟨data, L, sent, hops, hst, hlog, hL, hc⟩ | ⟨hops, hheld, hL, hc⟩
  · subst hops
    rcases writeAll_run2F (ty := 6 + i.val) (me := i.val) (id := id) r data (ftail W' st) true (restOf sub data).length fuel sub
        (wtab ws) (ws i) e L sent (by show i.val < 2; exact i.isLt) (wtab_get ws i) (Nat.le_refl _) (by omega) hb hst hlog with
      ⟨w', e', rd', L', sent', d1, d2, d3, d4, d5, d6, d7, d8, d9, d10, d11, d12⟩ |
      ⟨w', e', f', d1, d2, d3, d4, d5, d6, d7, d8, d9⟩
    · rw [d1]
      refine ⟨rfl, d8, d9, d12, d7.tf, Or.inl ⟨rfl, d10, ?_, rfl, i, W', (fun j => if j = i then w' else ws j),
        wtab_set ws i w', ?_, Or.inl ⟨data, L', sent', rfl, ?_, d3, ?_, ?_⟩⟩⟩
      · show mu e'.tr < mu e.tr
        have := d12.length_le; unfold mu; omega
      · intro j hj; simp only [if_neg hj]; exact hidle j hj
      · simp only [if_true]; exact d5
      · show L' ++ (streamRecords (6 + i.val) id rd' ++ outOf id (writesOf W')) = _
        rw [← List.append_assoc, d4, List.append_assoc]; exact hL
      · show wcost rd'.length + fcost W' ≤ fcost W
        have : wcost rd'.length ≤ wcost (restOf sub data).length := by unfold wcost; omega
        omega
    · rw [d1, wtab_set]
      have hs1 : TStep e.tr (e'.ev "W=ok").tr := d6.trans (TStep.ev _ (by decide))
      refine (tail_run3 id r st W Lb W' f' (fun j => if j = i then w' else ws j) (e'.ev "W=ok") (by omega) (hb.step hs1)
        (hok.suffix d9) ?_ d5 ?_ (by omega)).after hs1 d9 d7 d8
      · intro j
        by_cases hj : j = i
        · subst hj; simp only [if_true]; exact d4
        · simp only [if_neg hj]; exact hidle j hj
      · show (e'.tr.ev "W=ok").wlog ++ outOf id (writesOf W') = _
        rw [Transport.ev_wlog, d3, List.append_assoc]; exact hL
  · subst hops
    obtain ⟨f, rfl⟩ : ∃ f, fuel = f + 1 := ⟨fuel - 1, by omega⟩
    rw [hp_flush f r i.val (ftail W' st) sub (wtab ws) (ws i) (wtab_get ws i) true e,
      pollFlush_eq (ws i) i.val e.mutex e.tr hheld.wr (Or.inr ⟨hheld.lock, hheld.mx⟩)]
    obtain ⟨c1, c2, c3, c4, c5, c6⟩ := flush_cases e.tr hok
    rcases hfl : e.tr.flush with ⟨t', res⟩
    rw [hfl] at c1 c2 c3 c4 c5 c6
    simp only at c1 c2 c3 c4 c5 c6
    rcases c6 with ⟨rfl, c7⟩ | ⟨rfl, c7, c8⟩
    · simp only
      rw [wtab_set]
      have hs1 : TStep e.tr (({ e with mutex := none, tr := t' } : Run.Env).ev "F=ok").tr :=
        c7.trans (TStep.ev _ (by decide))
      refine (tail_run3 id r st W Lb W' f (fun j => if j = i then { ws i with lock := .none } else ws j)
        (({ e with mutex := none, tr := t' } : Run.Env).ev "F=ok") (by omega) (hb.step hs1) (hok.suffix c3) ?_ rfl ?_
        (by omega)).after hs1 c3 c2 rfl
      · intro j
        by_cases hj : j = i
        · subst hj; simp only [if_true]; exact ⟨hheld.ty, hheld.id, rfl, hheld.wr⟩
        · simp only [if_neg hj]; exact hidle j hj
      · show (t'.ev "F=ok").wlog ++ outOf id (writesOf W') = _
        rw [Transport.ev_wlog, c1]; exact hL
    · simp only
      rw [wtab_set]
      refine ⟨rfl, c2, rfl, c3, c5, Or.inl ⟨rfl, c7, by show mu t' < mu e.tr; unfold mu; omega, rfl, i, W',
        (fun j => if j = i then { ws i with lock := .held } else ws j), rfl, ?_, Or.inr ⟨rfl, ?_, ?_, hc⟩⟩⟩
      · intro j hj; simp only [if_neg hj]; exact hidle j hj
      · simp only [if_true]; exact ⟨hheld.ty, hheld.id, rfl, hheld.wr, rfl⟩
      · show t'.wlog ++ _ = _
        rw [c1]; exact hL

/-- **The tail from its start**: both writers are opened, then the ops. -/
theorem open_phase3 {W : FList} {st : ExitStatus} {Lb : Bytes} {r : AReq} {e : Run.Env}
    (hwr : r.writeable = true) (hm : e.mutex = none) (hlog : e.tr.wlog = Lb)
    (hb : Ben e.tr) (hok : FlOk e.tr) {fuel : Nat} (hf : fcost W + 6 ≤ fuel) :
    WOut3 r.sp.request.id W st Lb r e (handlerPoll fuel r { ops := otailF W st, propagate := true } e) := by
  obtain ⟨f2, rfl⟩ : ∃ f2, fuel = f2 + 2 := ⟨fuel - 2, by omega⟩
  show WOut3 _ W st Lb r e (handlerPoll (f2 + 1 + 1) r
    { ops := .open_ 6 :: .open_ 7 :: ftail W st, sub := .fresh, writers := [], propagate := true } e)
  rw [hp_open]
  rw [if_neg (by simp [hwr, outputStreams, RT.stdout, RT.stderr])]
  rw [hp_open]
  rw [if_neg (by simp [hwr, outputStreams, RT.stdout, RT.stderr])]
  have hs1 : TStep e.tr ((e.ev s!"o=w{([] : List (Option Writer)).length}").ev
      s!"o=w{(([] : List (Option Writer)) ++ [some ({ rtype := 6, id := r.sp.request.id } : Writer)]).length}").tr :=
    (TStep.ev _ (by decide)).trans (TStep.ev _ (by simp [isHS, toString_str]))
  exact (tail_run3 r.sp.request.id r st W Lb W f2
    (fun j => if j = 0 then { rtype := 6, id := r.sp.request.id } else { rtype := 7, id := r.sp.request.id })
    _ (by omega) (hb.step hs1) hok (fun j => by
      match j with
      | ⟨0, _⟩ => exact ⟨rfl, rfl, rfl, rfl⟩
      | ⟨1, _⟩ => exact ⟨rfl, rfl, rfl, rfl⟩) hm (by
      show ((e.tr.ev _).ev _).wlog ++ _ = _
      rw [Transport.ev_wlog, Transport.ev_wlog, hlog]) (Nat.le_refl _)).after hs1 (List.suffix_refl _) rfl rfl

end Fcgi.E2E
