import Fcgi.Proofs.E2ENoFuel
import Fcgi.Proofs.E2ETruncUnb
import Fcgi.Proofs.E2ETrunc3Cfg
import Fcgi.Proofs.E2ETrunc2NF
/-!
# The truncation engine for a cut terminating record, without the model-fuel bound (`…N`)

`Proofs/E2ETrunc3` (`Cfg3`, `run_from_stage3'`) with `Cfg3.hfu` removed: copies (text transformation, suffix `N`) of every
lemma that takes a `Cfg3`, over the cost lemmas of `Proofs/E2ENoFuel.lean` (`Cfg.Rd.cost`, `write_phaseN`).
-/
namespace Fcgi.C12E
open Fcgi Fcgi.Req Fcgi.Str Fcgi.Async Fcgi.Run Fcgi.Spec Fcgi.E2E

/-- `Cfg3` without the model-fuel bound -/
structure Cfg3N (g : E2E.Cfg) : Prop where
  wf : WellFormedPreamble g.p g.recs
  pairs : ∀ q ∈ g.p.pairs, (NV.enc q).length ≤ alignedBufsize g.b
  noise : NoiseFits (alignedBufsize g.b) g.recs
  role : g.p.role = 3
  k1 : g.K.OK
  k2 : (K2t g).OK
  fol : Follows g.K (K2t g)
  hOt : g.Wc.Otot = g.K.O ++ (K2t g).O
  hrv : g.Wc.revs = [rEvent g.K.C, rEvent (K2t g).C]
  hs : g.hscript = fscript g.data g.st
  /-- the request parser on (prefixes of) what the request leaves unread -/
  nsU : NoStuckW g.cap g.mc g.U
  nfU : ∀ F, F <+: g.U → (run .header F g.mc).st.isFinal = false ∧ (run .header F g.mc).out = []

theorem hscript_cost3N {g : E2E.Cfg} (ok : Cfg3N g) :
    wcost g.data.length ≤ scriptCost { ops := g.hscript, propagate := true } := by
  have hw := wcost_le g.data.length
  rw [ok.hs]; simp [scriptCost, fscript, curCost, opCost]; omega

theorem pid_lt3N {g : E2E.Cfg} (ok : Cfg3N g) : 0 < g.p.id ∧ g.p.id < 65536 := by
  have h := ok.wf
  generalize g.recs = rs at h
  induction h with
  | noise r hn t ih => exact ih
  | «begin» pad res body5 hb hp hid hrole hl t => exact hid

theorem ns3N {g : E2E.Cfg} (ok : Cfg3N g) : NoStuckW g.cap g.mc g.W := noStuck_of ok.wf g.X g.b g.mc ok.pairs ok.noise

theorem idle_poll3N {g : E2E.Cfg} (ok : Cfg3N g) {c : Conn} {F O1 O2 : Bytes} (hO : O1 ++ O2 = g.Ot)
    (hst : PSt g.cap g.mc g.W' (g.L3 O1 O2) (serAll g.recs) c F) (hfin : F ++ c.env.tr.input = g.U)
    (hem : c.env.tr.endMode = .eof)
    (hkeep : g.p.flags.toNat % 2 = 1) (hev : Ev1 g c.env.tr) (hre : ∀ s ∈ g.revs, s ∈ c.env.tr.events)
    (hsc : c.scripts = g.more) (hmx : c.env.mutex = none) :
    Res g (2 * c.env.tr.input.length + 4) c := by
  have hK : TCtx g.cap g.mc g.U [] g.U :=
    ⟨cap24 g, List.append_nil _, ok.nsU, fun F hF => (ok.nfU F hF).1⟩
  have hst' : PSt g.cap g.mc g.U (g.L3 O1 O2) [] c F :=
    ⟨by rw [List.append_nil]; exact hfin, hst.stop, hst.ben, hst.rem, hst.ph⟩
  obtain ⟨c', r, hh, hfr, ho⟩ := trunc_poll hK hst' hem
  have hts := hfr.ts
  refine ⟨c', r, hh, hfr.link, ?_⟩
  rcases ho with ⟨rfl, ⟨F', h2⟩, hw, ha⟩ | ⟨rfl, hph, hlog, hin⟩
  · have hfin' : F' ++ c'.env.tr.input = g.U := by
      have := h2.wire; rwa [List.append_nil] at this
    exact .pend (.idle hO ⟨by rw [hfin', E2E.Cfg.W'], h2.stop, h2.ben, h2.rem, h2.ph⟩ hfin' hkeep (hev.step hts)
      (fun s hs => hts.mem_events (hre s hs)) (hfr.scripts.trans hsc) (hfr.mutex.trans hmx)) hw ha
  · refine .fin hO ⟨hph, ?_, hev.step hts, fun s hs => hts.mem_events (hre s hs), hfr.scripts.trans hsc,
      Or.inr ⟨hkeep, hts.em.trans hem⟩⟩
    rw [hlog, (ok.nfU g.U (List.prefix_refl _)).2, List.append_nil]

theorem close_core3N {g : E2E.Cfg} (ok : Cfg3N g) {c : Conn} {r r2 : AReq} {cs : CloseSt} {rest O1 O2 : Bytes}
    {t1 : Transport} (hO : O1 ++ O2 = g.Ot)
    (hph : c.phase = .closing r cs g.st 0)
    (heq : closePoll r cs g.st 0 c.env.mutex c.env.tr = closePoll.finishEnd r2 rest c.env.mutex t1)
    (hts1 : TStep c.env.tr t1) (hin1 : t1.input = c.env.tr.input)
    (hce : CEnd g r2 c.env.tr.input) (hm : c.env.mutex = none) (hlog : t1.wlog ++ rest = g.L3 O1 O2)
    (hb : Ben c.env.tr) (hem : c.env.tr.endMode = .eof) (hstop : c.stop = false) (hev : Ev1 g c.env.tr)
    (hre : ∀ s ∈ g.revs, s ∈ c.env.tr.events) (hsc : c.scripts = g.more) :
    Res g (2 * c.env.tr.input.length + 8) c := by
  have hstep := C07.closing_step c r cs g.st 0 hph
  rw [heq] at hstep
  have hb1 := hb.step hts1
  rcases finishEnd_cases r2 rest c.env.mutex hb1 with
    ⟨rest', t', hfe, hts0, hinp0, hwl, hwk, hans⟩ | ⟨t', hts0, hinp0, hwl, hfe⟩
  · have hts := hts1.trans hts0
    have hinp := hinp0.trans hin1
    rw [hfe] at hstep
    have hstep' : stepConn c = .halt (mkC c (.closing r2 (.writeEnd rest') g.st 0) t') .pending := hstep
    refine ⟨mkC c (.closing r2 (.writeEnd rest') g.st 0) t', .pending, (Halts.now hstep').mono (by omega),
      mkC_link c _ hts, .pend ?_ hwk (by show ans t' < ans c.env.tr; have := hts1.ans_le; omega)⟩
    exact .close (r := r2) (rest := rest') rfl hO (by show CEnd g r2 t'.input; rw [hinp]; exact hce) hm
      (by show t'.wlog ++ rest' = _; rw [hwl, hlog]) (hb.step hts) hstop (hev.step hts) ((fun s hs => hts.mem_events (hre s hs))) hsc
  · have hts := hts1.trans hts0
    have hinp := hinp0.trans hin1
    rw [hfe, hce.req, hce.into] at hstep
    have hlog' : t'.wlog = g.L3 O1 O2 := by rw [hwl, hlog]
    by_cases hk : g.p.flags.toNat % 2 = 1
    · have hreq : (g.p.request.flags.toNat % 2 == 1) = true := by simpa [Preamble.request] using hk
      simp only [hreq, if_true] at hstep
      have hstep' : stepConn c = .next (mkC c (.parseReq ⟨g.cap, r2.sp.raw, .header, g.mc⟩ .start) t') := hstep
      have hrawin : r2.sp.raw ++ t'.input = g.U := by rw [hinp]; exact hce.wire
      have hpre : r2.sp.raw <+: g.U := ⟨t'.input, hrawin⟩
      have hstart := start_track (cap24 g) hce.rawlen (ok.nsU _ hpre)
      have hstep2 := step_start (mkC c (.parseReq ⟨g.cap, r2.sp.raw, .header, g.mc⟩ .start) t') _ rfl hstop
      rw [hstart] at hstep2
      have hstep2' : stepConn (mkC c (.parseReq ⟨g.cap, r2.sp.raw, .header, g.mc⟩ .start) t') =
          .next (mkC c (.parseReq (track g.cap g.mc r2.sp.raw)
            (.writing (run .header r2.sp.raw g.mc).out (run .header r2.sp.raw g.mc).st.isFinal)) t') := hstep2
      have hremle : (run .header r2.sp.raw g.mc).rem.length ≤ g.cap := by
        have := (run_ok r2.sp.raw g.mc (st := .header) trivial).2.2.length_le
        have := hce.rawlen
        omega
      have hst : PSt g.cap g.mc g.W' (g.L3 O1 O2) (serAll g.recs)
          (mkC c (.parseReq (track g.cap g.mc r2.sp.raw)
            (.writing (run .header r2.sp.raw g.mc).out (run .header r2.sp.raw g.mc).st.isFinal)) t') r2.sp.raw :=
        ⟨by show r2.sp.raw ++ t'.input ++ serAll g.recs = g.W'
            rw [hrawin, E2E.Cfg.W'],
          hstop, hb.step hts, hremle, Or.inr ⟨_, rfl, by show t'.wlog ++ _ = _; rw [hlog'], [], rfl⟩⟩
      have hidle := idle_poll3N ok hO hst hrawin (hts.em.trans hem) hk (hev.step hts)
        ((fun s hs => hts.mem_events (hre s hs))) hsc hm
      have := Res.of_steps (Steps.step hstep' (Steps.one hstep2')) (mkC_link c _ hts) hidle
      refine this.mono ?_
      have := congrArg List.length hinp
      show 1 + 1 + (2 * t'.input.length + 4) ≤ _
      omega
    · have hreq : (g.p.request.flags.toNat % 2 == 1) = false := by simpa [Preamble.request] using hk
      simp only [hreq, Bool.false_eq_true, if_false] at hstep
      have hstep' : stepConn c = .halt (mkC c .finished t') .finished := hstep
      exact ⟨mkC c .finished t', .finished, (Halts.now hstep').mono (by omega), mkC_link c _ hts,
        .fin hO ⟨rfl, hlog', hev.step hts, (fun s hs => hts.mem_events (hre s hs)), hsc, Or.inl (by omega)⟩⟩

theorem close_out3N {g : E2E.Cfg} (ok : Cfg3N g) {c : Conn} {r r2 : AReq} {cs : CloseSt} {rest O1 O2 : Bytes}
    (hO : O1 ++ O2 = g.Ot) (hph : c.phase = .closing r cs g.st 0)
    (heq : closePoll r cs g.st 0 c.env.mutex c.env.tr =
      closeP4 r2 c.env.mutex c.env.tr (.writeOut rest g.epi))
    (hce : CEndW g r2 c.env.tr.input) (hm : c.env.mutex = none)
    (hlog : c.env.tr.wlog ++ rest ++ g.epi = g.L3 O1 O2)
    (hb : Ben c.env.tr) (hem : c.env.tr.endMode = .eof) (hstop : c.stop = false) (hev : Ev1 g c.env.tr)
    (hre : ∀ s ∈ g.revs, s ∈ c.env.tr.events) (hsc : c.scripts = g.more) :
    Res g (2 * c.env.tr.input.length + 8) c := by
  rcases hw : writeAllLoop (rest.length + 1) rest c.env.tr with ⟨rest', t', res⟩
  obtain ⟨hts, hinp, ⟨dn, hd, hl⟩, hres⟩ := writeAllLoop_ben _ _ _ hb (Nat.lt_succ_self _) hw
  rcases hres with ⟨rfl, rfl⟩ | ⟨rfl, _, hwk, hans⟩
  · simp only [List.append_nil] at hd
    subst hd
    have heq' : closePoll r cs g.st 0 c.env.mutex c.env.tr =
        closePoll.finishEnd { r2 with sp := r2.sp.consumeOutput r2.sp.output.length } g.epi c.env.mutex t' := by
      rw [heq]; simp only [closeP4, hw]
    refine close_core3N ok hO hph heq' hts hinp ?_ hm (by rw [hl, ← hlog]) hb hem hstop hev hre hsc
    exact ⟨hce.pay, hce.pad, by simp [Str.Parser.consumeOutput], hce.wire, hce.req, hce.cap, hce.mc, hce.rawlen⟩
  · have hstep := C07.closing_step c r cs g.st 0 hph
    rw [heq] at hstep
    simp only [closeP4, hw] at hstep
    have hstep' : stepConn c = .halt (mkC c (.closing r2 (.writeOut rest' g.epi) g.st 0) t') .pending := hstep
    refine ⟨_, .pending, (Halts.now hstep').mono (by omega), mkC_link c _ hts, .pend ?_ hwk hans⟩
    exact .closeW (r := r2) (rest := rest') rfl hO (by show CEndW g r2 t'.input; rw [hinp]; exact hce) hm
      (by show t'.wlog ++ rest' ++ g.epi = _; rw [hl, ← hlog, hd]; simp only [List.append_assoc])
      (hb.step hts) hstop (hev.step hts) ((fun s hs => hts.mem_events (hre s hs))) hsc

theorem rd_poll3N {g : E2E.Cfg} (ok : Cfg3N g) {r : AReq} {h : HState} {e : Run.Env} (hr : g.Rd r h e) (hb : Ben e.tr)
    {fuel : Nat} (hfu : 1000 + 4 * e.tr.input.length + 4 * g.cap + wcost g.data.length ≤ fuel) :
    HOut g.Wc g.Rd e (handlerPoll fuel r h e) := by
  have hcap : g.cap = alignedBufsize g.b := rfl
  have hr3 := ok.role
  rcases hr with ⟨h1, _⟩ | ⟨_, hr⟩
  · omega
  · refine (read_phaseF (W := g.Wc) ok.k1 ok.k2 ok.fol rfl ok.hOt ok.hrv (FRd.toK2t hr) hb ?_).mono
      (fun r h e hh => Or.inr ⟨hr3, FRd.ofK2t hh⟩)
    show alignedBufsize g.b / 16 + 3 * e.tr.input.length + wcost g.data.length + 24 ≤ fuel
    omega

theorem handler_core3N {g : E2E.Cfg} (ok : Cfg3N g) {c : Conn} {r : AReq} {h : HState} (hph : c.phase = .handler r h)
    (hout : HOut g.Wc g.Rd c.env (handlerPoll ((handlerFuel c.env r + scriptOf c)) r h c.env))
    (hb : Ben c.env.tr) (hem : c.env.tr.endMode = .eof) (hstop : c.stop = false) (hev : Ev1 g c.env.tr)
    (hsc : c.scripts = g.more) :
    Res g (2 * c.env.tr.input.length + 10) c := by
  have hstep := C07.handler_step c r h hph
  rcases hhp : handlerPoll ((handlerFuel c.env r + scriptOf c)) r h c.env with ⟨r', h', e', res⟩
  rw [hhp] at hstep hout
  obtain ⟨hts, hsegs, hres⟩ := hout
  simp only at hts hsegs hres
  rcases hres with ⟨rfl, hwk, hans, hst⟩ | ⟨hres, O1, hd⟩
  · have hstep' : stepConn c = .halt ⟨.handler r' h', e', c.scripts, c.stop⟩ .pending := hstep
    refine ⟨⟨.handler r' h', e', c.scripts, c.stop⟩, .pending, (Halts.now hstep').mono (by omega),
      ⟨hts.w, hsegs, rfl⟩, .pend ?_ hwk hans⟩
    rcases hst with hst | ⟨O1, hst⟩
    · exact .hread rfl hst (hb.step hts) hstop (hev.step hts) hsc
    · exact .hwrite rfl hst (hb.step hts) hstop (hev.step hts) hsc
  · have hres' : res = .done (.ok g.st) := hres
    subst hres'
    have halive : (h'.writers.filter Option.isSome).length = 0 := by rw [hd.ws]; rfl
    simp only [halive] at hstep
    have hstep' : stepConn c =
        .next ⟨.closing r' .start g.st 0, e'.ev s!"HE(ok:{showStatus g.st})", c.scripts, c.stop⟩ := hstep
    have hts2 : TStep c.env.tr (e'.tr.ev s!"HE(ok:{showStatus g.st})") :=
      hts.trans (TStep.ev _ (by simp [isHS, toString_str]))
    obtain ⟨heq, hce⟩ := close_start_eq (g := g) (r := r') (t := e'.tr.ev s!"HE(ok:{showStatus g.st})") hd.fin
    have hO : O1 ++ r'.sp.output = g.Ot := hd.out
    have hcore := close_out3N ok
      (c := ⟨.closing r' .start g.st 0, e'.ev s!"HE(ok:{showStatus g.st})", c.scripts, c.stop⟩)
      (r := r') (r2 := closeReq r') (cs := .start) (rest := r'.sp.output) hO rfl
      (by show closePoll r' .start g.st 0 e'.mutex _ = closeP4 _ e'.mutex _ _
          rw [hd.mtx]; exact heq)
      hce hd.mtx
      (by show (e'.tr.ev _).wlog ++ r'.sp.output ++ g.epi = g.L3 O1 r'.sp.output
          rw [Transport.ev_wlog, hd.log]; rfl)
      (hb.step hts2) (hts2.em.trans hem) hstop (hev.step hts2)
      (by intro s hs
          show s ∈ e'.tr.events ++ [_]
          exact List.mem_append_left _ (hd.ev s hs)) hsc
    have := Res.of_steps (Steps.one hstep') ⟨hts2.w, hsegs, rfl⟩ hcore
    refine this.mono ?_
    have hl := hts.tle.input_len
    show 1 + (2 * e'.tr.input.length + 8) ≤ _
    omega

theorem handler_start3N {g : E2E.Cfg} (ok : Cfg3N g) {c1 : Conn} {F1 rest : Bytes} {t' : Transport}
    (hph : c1.phase = .parseReq (track g.cap g.mc F1) (.writing rest true))
    (hw : F1 ++ c1.env.tr.input = g.W) (hstop1 : c1.stop = false)
    (hrem1 : (run .header F1 g.mc).rem.length ≤ g.cap)
    (hf : (run .header F1 g.mc).st.isFinal = true)
    (hwa : writeAllLoop (rest.length + 1) rest c1.env.tr = ([], t', .ready))
    (hlog : t'.wlog = g.L0 ++ (run .header F1 g.mc).out)
    (hsc1 : c1.scripts = (g.hscript, true) :: g.more) :
    ∃ e1, F1 = serAll g.recs ++ e1 ∧ e1 ++ c1.env.tr.input = g.X ∧ t'.wlog = g.L1 ∧ e1.length ≤ g.cap ∧
      stepConn c1 = .next
        ⟨.handler (AReq.new (Str.Parser.fromParser g.cap g.p.request e1 g.mc))
            { ops := g.hscript, propagate := true },
          (⟨t', c1.env.mutex, c1.env.segs⟩ : Run.Env).ev (hsEvent g.p.request), g.more, false⟩ := by
  have hF1 : F1 <+: serAll g.recs ++ g.X := ⟨c1.env.tr.input, by simpa [E2E.Cfg.W] using hw⟩
  rcases C06.run_wire_state ok.wf g.X hF1 g.mc with ⟨e1, hFe, he1, hrun⟩ | ⟨t, _, _, hnf⟩
  · have hd : (track g.cap g.mc F1).state = .done g.p.request := by simp only [track, hrun]
    obtain ⟨r, hrq, hr, hstep⟩ := C07.done_starts_handler c1 (track g.cap g.mc F1) rest [] t' g.p.request
      hph hstop1 hwa hd
    rw [hsc1] at hstep
    have hcap : (track g.cap g.mc F1).cap = g.cap := rfl
    have hinput : (track g.cap g.mc F1).input = e1 := by simp only [track, hrun]
    have hmc : (track g.cap g.mc F1).maxConns = g.mc := rfl
    rw [hcap, hinput, hmc] at hr
    subst hr
    have hwire : e1 ++ c1.env.tr.input = g.X := by
      have : F1 ++ c1.env.tr.input = serAll g.recs ++ g.X := by simpa [E2E.Cfg.W] using hw
      rw [hFe, List.append_assoc] at this
      exact List.append_cancel_left this
    have he1len : e1.length ≤ g.cap := by
      have := hrem1; rw [hrun] at this; exact this
    exact ⟨e1, hFe, hwire, by rw [hlog, hrun]; rfl, he1len, hstep⟩
  · rw [hf] at hnf; cases hnf

theorem rinv_start3N {g : E2E.Cfg} (ok : Cfg3N g) {e1 input : Bytes}
    (hlen : e1.length ≤ g.cap) (hwire : e1 ++ input = g.X) :
    RInv g.K (AReq.new (Str.Parser.fromParser g.cap g.p.request e1 g.mc)) e1 input [] [] := by
  have hstart : C03SI.Start g.K.E (Str.Parser.fromParser g.cap g.p.request e1 g.mc) :=
    C03SI.start_fresh g.cap g.p.request e1 g.mc hlen (pid_lt3N ok).2 (Or.inr ok.role)
  refine ⟨hstart.mtch, hstart.inv, rfl, rfl, rfl, hwire, fun x => ?_⟩
  have := C03SI.rem_start hstart x
  show refWire g.K.E (e1 ++ x) = (Rem g.K.E (Str.Parser.fromParser g.cap g.p.request e1 g.mc) x).pre [] []
  rw [this]; rfl

theorem first_poll3N {g : E2E.Cfg} (ok : Cfg3N g) {e1 : Bytes} {e : Run.Env} (hlen : e1.length ≤ g.cap)
    (hwire : e1 ++ e.tr.input = g.X) (hlog : e.tr.wlog = g.L1) (hm : e.mutex = none) (hb : Ben e.tr)
    {fuel : Nat} (hfu : 1000 + 4 * e.tr.input.length + 4 * g.cap + wcost g.data.length ≤ fuel) :
    HOut g.Wc g.Rd e (handlerPoll fuel (AReq.new (Str.Parser.fromParser g.cap g.p.request e1 g.mc))
      { ops := g.hscript, propagate := true } e) := by
  have hrst : RSt g.K g.L1 [] (AReq.new (Str.Parser.fromParser g.cap g.p.request e1 g.mc)) e.mutex e.tr [] [] := by
    refine ⟨⟨e1, rinv_start3N ok hlen hwire⟩, ?_, Or.inl hm, ⟨[], by rw [hlog, List.append_nil], rfl⟩⟩
    rw [hm]; exact lockInv_free rfl
  rw [ok.hs]
  have hrd : HRead g.K (.setStream 8 :: .readAll :: oscript g.data g.st) g.L1 []
      (AReq.new (Str.Parser.fromParser g.cap g.p.request e1 g.mc))
      { ops := fscript g.data g.st, propagate := true } e := ⟨rfl, rfl, rfl, [], hrst⟩
  exact rd_poll3N ok (Or.inr ⟨ok.role, Or.inl hrd⟩) hb hfu

theorem parse_poll3N {g : E2E.Cfg} (ok : Cfg3N g) {c : Conn} {F : Bytes}
    (hst : PSt g.cap g.mc g.W g.L0 [] c F) (hem : c.env.tr.endMode = .eof)
    (hsc : c.scripts = (g.hscript, true) :: g.more)
    (hm : c.env.mutex = none) (hev : hsCount c.env.tr.events = g.hs0) :
    Res g (4 * c.env.tr.input.length + 16) c := by
  obtain ⟨n, c1, F1, hn, hs, hfr, hout⟩ := parse_loop (cap24 g) (ns3N ok) _ c F hst (Nat.le_refl _)
  have hnb : n ≤ 2 * c.env.tr.input.length + 2 := by have := wbit_le c; omega
  rcases hout with ⟨c2, h1, h2, h3, h4, h5⟩ | ⟨rest, t', hph, hf, hw, hstop1, hben1, hrem1, hwa, hlog, hts', hinp'⟩ |
      ⟨hin, hnf, hph, hst1⟩
  · refine ⟨c2, .pending, ⟨n, c1, by omega, hs, h1⟩, hfr.link.trans h3.link, ?_⟩
    have hts := hfr.ts.trans h3.ts
    exact .pend (.parse h2 (h3.scripts.trans (hfr.scripts.trans hsc)) (h3.mutex.trans (hfr.mutex.trans hm))
      (hts.hs.trans hev)) h4 (by have := hfr.ts.ans_le; omega)
  · have hsc1 : c1.scripts = (g.hscript, true) :: g.more := hfr.scripts.trans hsc
    obtain ⟨e1, _, hwire, hL1, he1len, hstep'⟩ :=
      handler_start3N ok hph (by simpa using hw) hstop1 hrem1 hf hwa hlog hsc1
    have hmx1 : c1.env.mutex = none := hfr.mutex.trans hm
    have hwsE : WStep c1.env.tr (t'.ev (hsEvent g.p.request)) :=
      hts'.w.trans ⟨List.suffix_refl _, List.suffix_refl _, rfl, rfl, Or.inl rfl, Nat.le_refl _,
        fun s hs => List.mem_append_left _ hs⟩
    have hev1 : Ev1 g (t'.ev (hsEvent g.p.request)) := by
      have h0 : hsCount t'.events = g.hs0 := (hfr.ts.trans hts').hs.trans hev
      constructor
      · show hsCount (t'.events ++ [hsEvent g.p.request]) = g.hs0 + 1
        rw [hsCount_append, h0, hsCount_single_true (isHS_hsEvent _)]
      · show hsEvent g.p.request ∈ t'.events ++ [hsEvent g.p.request]
        simp
    have hben2 : Ben (t'.ev (hsEvent g.p.request)) := hben1.wstep hwsE
    have hem2 : (t'.ev (hsEvent g.p.request)).endMode = .eof := hwsE.em.trans (hfr.ts.em.trans hem)
    have hfuelH : 1000 + 4 * t'.input.length + 4 * g.cap ≤
        handlerFuel ((⟨t', c1.env.mutex, c1.env.segs⟩ : Run.Env).ev (hsEvent g.p.request))
          (AReq.new (Str.Parser.fromParser g.cap g.p.request e1 g.mc)) :=
      handlerFuel_ge' ((⟨t', c1.env.mutex, c1.env.segs⟩ : Run.Env).ev (hsEvent g.p.request))
        (AReq.new (Str.Parser.fromParser g.cap g.p.request e1 g.mc))
    have hcore := handler_core3N ok
      (c := ⟨.handler (AReq.new (Str.Parser.fromParser g.cap g.p.request e1 g.mc))
              { ops := g.hscript, propagate := true },
          (⟨t', c1.env.mutex, c1.env.segs⟩ : Run.Env).ev (hsEvent g.p.request), g.more, false⟩) rfl
      (first_poll3N ok (e := (⟨t', c1.env.mutex, c1.env.segs⟩ : Run.Env).ev (hsEvent g.p.request)) he1len
        (by show e1 ++ t'.input = g.X; rw [hinp']; exact hwire) hL1 hmx1 hben2 (Nat.add_le_add hfuelH (hscript_cost3N ok))) hben2 hem2 rfl hev1 rfl
    have hres := Res.of_steps (hs.trans (Steps.one hstep')) (hfr.link.trans ⟨hwsE, rfl, hstop1.symm ▸ rfl⟩) hcore
    refine hres.mono ?_
    have h1 := hfr.ts.tle.input_len
    have h2 := congrArg List.length hinp'
    show n + 1 + (2 * t'.input.length + 10) ≤ _
    omega
  · exfalso
    have hF1 : F1 = g.W := by
      have := hst1.wire
      rwa [hin, List.append_nil, List.append_nil] at this
    rcases C06.run_wire_state ok.wf g.X (F := F1) (by rw [hF1]; exact List.prefix_refl _) g.mc with
      ⟨e1, _, _, hrun⟩ | ⟨t, ht, hFt, _⟩
    · rw [hrun] at hnf; cases hnf
    · rw [hF1, E2E.Cfg.W] at hFt
      have := congrArg List.length hFt
      have : 0 < t.length := List.length_pos_iff.mpr ht
      simp only [List.length_append] at *
      omega

theorem start_poll3N {g : E2E.Cfg} (ok : Cfg3N g) {c : Conn} {raw : Bytes}
    (hph : c.phase = .parseReq ⟨g.cap, raw, .header, g.mc⟩ .start)
    (hwire : raw ++ c.env.tr.input = g.W) (hraw : raw.length ≤ g.cap) (hlog : c.env.tr.wlog = g.L0)
    (hb : Ben c.env.tr) (hem : c.env.tr.endMode = .eof) (hstop : c.stop = false)
    (hsc : c.scripts = (g.hscript, true) :: g.more) (hm : c.env.mutex = none)
    (hev : hsCount c.env.tr.events = g.hs0) : Res g (4 * c.env.tr.input.length + 17) c := by
  have hpre : raw <+: g.W := ⟨c.env.tr.input, hwire⟩
  have hstart := start_track (cap24 g) hraw (ns3N ok _ hpre)
  have hstep := step_start c _ hph hstop
  rw [hstart] at hstep
  have hstep' : stepConn c = .next (mkC c (.parseReq (track g.cap g.mc raw)
      (.writing (run .header raw g.mc).out (run .header raw g.mc).st.isFinal)) c.env.tr) := hstep
  have hremle : (run .header raw g.mc).rem.length ≤ g.cap := by
    have := (run_ok raw g.mc (st := .header) trivial).2.2.length_le
    omega
  have hst : PSt g.cap g.mc g.W g.L0 [] (mkC c (.parseReq (track g.cap g.mc raw)
      (.writing (run .header raw g.mc).out (run .header raw g.mc).st.isFinal)) c.env.tr) raw :=
    ⟨by show raw ++ c.env.tr.input ++ [] = g.W
        rw [List.append_nil]; exact hwire,
      hstop, hb, hremle, Or.inr ⟨_, rfl, by show c.env.tr.wlog ++ _ = _; rw [hlog], [], rfl⟩⟩
  have hres := parse_poll3N ok hst hem hsc hm hev
  have := Res.of_steps (Steps.one hstep') (mkC_link c _ (.refl _)) hres
  exact this.mono (by show 1 + (4 * c.env.tr.input.length + 16) ≤ _; omega)

theorem stage_poll3N {g : E2E.Cfg} (ok : Cfg3N g) {c : Conn} (hst : Stage g c) (hem : c.env.tr.endMode = .eof) :
    Res g (4 * c.env.tr.input.length + 17) c := by
  cases hst with
  | start hph hwire hraw hlog hb hstop hsc hm hev => exact start_poll3N ok hph hwire hraw hlog hb hem hstop hsc hm hev
  | parse hst hsc hm hev => exact (parse_poll3N ok hst hem hsc hm hev).mono (by omega)
  | @hread r h hph hr hb hstop hev hsc =>
    exact (handler_core3N ok hph (rd_poll3N ok hr hb (by rw [scriptOf_handler hph]; exact Nat.add_le_add hr.fuel hr.cost)) hb hem hstop hev hsc).mono (by omega)
  | @hwrite r h O1 hph hw hb hstop hev hsc =>
    refine (handler_core3N ok hph (write_phaseN hw hb ?_) hb hem hstop hev hsc).mono (by omega)
    have h1 := handlerFuel_ge c.env r
    have h2 := wcost_le (restOf h.sub g.Wc.data).length
    have h3 : scriptOf c = (restOf h.sub g.Wc.data).length + 1 + 2 := by
      rw [scriptOf_handler hph]
      obtain ⟨ops, sub, ws, pr⟩ := h
      have := hw.ops
      simp only at this
      subst this
      simp [scriptCost, wscript, curCost_writeAll, opCost]
    omega
  | @closeW r rest O1 O2 hph hO hce hm hlog hb hstop hev hre hsc =>
    refine (close_out3N ok (r2 := r) (rest := rest) hO hph ?_ hce hm hlog hb hem hstop hev hre hsc).mono (by omega)
    rw [closePoll_late _ _ _ _ _ _ rfl]
  | @close r rest O1 O2 hph hO hce hm hlog hb hstop hev hre hsc =>
    refine (close_core3N ok (r2 := r) (rest := rest) hO hph ?_ (.refl _) rfl hce hm hlog hb hem hstop hev hre hsc).mono
      (by omega)
    rw [closePoll_late _ _ _ _ _ _ rfl]
    rfl
  | idle hO hst hfin hkeep hev hre hsc hmx =>
    exact (idle_poll3N ok hO hst hfin hem hkeep hev hre hsc hmx).mono (by omega)

/-- `run_from_stage3` without the size hypothesis. -/
theorem run_from_stage3N' {g : E2E.Cfg} (ok : Cfg3N g) : ∀ (A : Nat) (c : Conn) (n fuel : Nat),
    Stage g c → c.env.tr.endMode = .eof → c.env.segs = [] → ans c.env.tr ≤ A → A + 1 ≤ fuel →
    ∃ c' O1 O2, O1 ++ O2 = g.Ot ∧ runTask fuel c n none = (c', "RET") ∧ Fin g O1 O2 c' := by
  intro A
  induction A with
  | zero =>
    intro c n fuel hst hem hsegs hA hf
    obtain ⟨f, rfl⟩ : ∃ f, fuel = f + 1 := ⟨fuel - 1, by omega⟩
    obtain ⟨hsame, hph, hsc, hstop, hmx, hsg, hwk⟩ := prePoll_same c n hsegs
    have hst0 := hst.cong hph hsc hstop hmx hsame
    obtain ⟨c', r, hh, hl, ho⟩ := stage_poll3N ok hst0 (hsame.em.trans hem)
    have hpoll := hh.pollB (by omega)
    have hans0 : ans (prePoll c n none).env.tr = ans c.env.tr := by unfold ans; rw [hsame.rd, hsame.wr]
    rw [runTask_succ, hpoll]
    cases ho with
    | @fin O1 O2 hO hfin => exact ⟨c', O1, O2, hO, rfl, hfin⟩
    | pend hs' hw ha => omega
    | @park O1 O2 hs' hO hp =>
      exfalso
      have h1 := hp.em
      rw [hl.ts.em, hsame.em, hem] at h1
      cases h1
  | succ A ih =>
    intro c n fuel hst hem hsegs hA hf
    obtain ⟨f, rfl⟩ : ∃ f, fuel = f + 1 := ⟨fuel - 1, by omega⟩
    obtain ⟨hsame, hph, hsc, hstop, hmx, hsg, hwk⟩ := prePoll_same c n hsegs
    have hst0 := hst.cong hph hsc hstop hmx hsame
    obtain ⟨c', r, hh, hl, ho⟩ := stage_poll3N ok hst0 (hsame.em.trans hem)
    have hpoll := hh.pollB (by omega)
    have hans0 : ans (prePoll c n none).env.tr = ans c.env.tr := by unfold ans; rw [hsame.rd, hsame.wr]
    rw [runTask_succ, hpoll]
    cases ho with
    | @fin O1 O2 hO hfin => exact ⟨c', O1, O2, hO, rfl, hfin⟩
    | pend hs' hw ha =>
      simp only [hw, if_true]
      exact ih c' (n + 1) f hs' (hl.ts.em.trans (hsame.em.trans hem)) (hl.segs.trans hsg) (by omega) (by omega)
    | @park O1 O2 hs' hO hp =>
      exfalso
      have h1 := hp.em
      rw [hl.ts.em, hsame.em, hem] at h1
      cases h1

theorem cfg3_cutN {g : E2E.Cfg} (ok : g.OKn) (hr : g.p.role = 3) {n : Nat} (h8 : 8 ≤ n)
    (hn : n < g.term2.ser.length) : Cfg3N (cutCfgF g n) := by
  cases ok.shape with
  | authorizer hr2 hX hU hOt hrv hs => omega
  | responderU hr1 hb hf hp hX2 hX hU hOt hrv hs => omega
  | filterU hr3 hb1 hb2 hf hf2 hp hp2 hX2 hX hU hOt hrv hs =>
    have hid := (pid_ltN ok).2
    obtain ⟨hK1, hK2, hfo⟩ := kokFN ok hr3 hb1 hb2 hf hf2 hp hp2 hX2 hX
    have htw := term_wfN ok hp
    have htw2 := term2_wfN ok hp2
    have htp : g.term2.ser.take n <+: g.term2.ser := List.take_prefix _ _
    have htl : (g.term2.ser.take n).length = n := by rw [List.length_take]; omega
    have hcls1 : rclass ⟨g.p.id, 3, 5, g.mc⟩ g.term = .endStream := by
      simp [rclass, E2E.Cfg.term, RT.isInputStream]
    have hcls2 : rclass ⟨g.p.id, 3, 8, g.mc⟩ g.term2 = .endStream := by
      simp [rclass, E2E.Cfg.term2, RT.isInputStream]
    have hpc : rclass ⟨g.p.id, 3, 8, g.mc⟩ g.term = .noise := by
      have hl : ¬ Later 3 (some 8) 5 := by decide
      simp [rclass, E2E.Cfg.term, RT.isInputStream, hl]
    have hpo : owed (some g.p.id) g.mc g.term = [] := by
      simp [owed, E2E.Cfg.term, RT.valid, RT.getValues, RT.beginRequest]
    have hUpre : ∀ F, F <+: g.term2.ser.take n → F <+: g.U := fun F hF => by rw [hU]; exact hF.trans htp
    have hXpre : serAll g.body ++ (g.term.ser ++ (serAll g.body2 ++ g.term2.ser.take n)) <+: g.X := by
      rw [hX, hX2]
      exact (List.prefix_append_right_inj _).2 ((List.prefix_append_right_inj _).2
        ((List.prefix_append_right_inj _).2 htp))
    have hX2pre : g.term.ser ++ (serAll g.body2 ++ g.term2.ser.take n) <+: g.term.ser ++ g.X2 := by
      rw [hX2]
      exact (List.prefix_append_right_inj _).2 ((List.prefix_append_right_inj _).2 htp)
    have hterm8 : 8 ≤ g.term.ser.length := by rw [ser_length]; omega
    refine ⟨ok.wf, ok.pairs, ok.noise, hr, ⟨?_, ?_, hK1.cap8⟩, ⟨?_, ?_, hK2.cap8⟩, ⟨?_, rfl, rfl, rfl, rfl⟩, ?_, ?_, hs,
      ?_, ?_⟩
    · show refWire ⟨g.p.id, g.p.role, 5, g.mc⟩ (serAll g.body ++ (g.term.ser ++ (serAll g.body2 ++ g.term2.ser.take n))) =
        ⟨g.content, owedStream g.p.id 5 g.mc g.body, .eos, g.term.ser ++ (serAll g.body2 ++ g.term2.ser.take n)⟩
      rw [hr]
      exact k1_ref g.p.id g.mc hid hb1 g.term htw hcls1 (List.prefix_refl _)
        (by rw [List.length_append]; omega)
    · intro G hG hv
      exact hK1.fits G (hG.trans hXpre) hv
    · show refWire ⟨g.p.id, 3, 8, g.mc⟩ (g.term.ser ++ (serAll g.body2 ++ g.term2.ser.take n)) =
        ⟨g.content2, owedStream g.p.id 8 g.mc g.body2, .eos, g.term2.ser.take n⟩
      rw [refWire_skip ⟨g.p.id, 3, 8, g.mc⟩ g.term htw hpc hpo,
        refWire_of_presentation _ (body_wf hid hb2) (tail_nextRec htw2 htp (by omega)),
        refRun_body (E := ⟨g.p.id, 3, 8, g.mc⟩) (Or.inr rfl) hb2,
        refTail_end _ htw2 hcls2 htp (by omega) (by omega)]
      simp [glue, RefOut.pre]
    · intro G hG hv
      exact hK2.fits G (hG.trans hX2pre) hv
    · show (⟨g.p.id, g.p.role, 5, g.mc⟩ : Str.Cfg) = ⟨g.p.id, 3, 5, g.mc⟩
      rw [hr]
    · exact hOt
    · exact hrv
    · intro F hF
      refine nsN' ok F ((hUpre F hF).trans ?_)
      exact List.prefix_append _ _
    · intro F hF
      exact run_U_prefixN ok (hUpre F hF)

end Fcgi.C12E
