import Fcgi.Model.ReqParser
import Fcgi.Props.C15
import Fcgi.Props.C16
import Fcgi.Proofs.NV
/-!
# Foundation layer for the request parser (`Model/ReqParser.lean`)

Invariants (`InnerOK`, `WFState`, `PInv`), absence of panics in every sub-state `drive`,
preservation of the invariants, the progress guarantee that makes the guard in `run` always true,
and unfolding lemmas for `run`.
-/
namespace Fcgi.Req
open Fcgi Fcgi.VarInt

/-! ## Invariants -/

/-- The side buffer never holds a complete pair: it is empty or a strict prefix of one pair's
encoding. -/
def InnerOK (i : Inner) : Prop := NV.next i.buffer = none

/-- The part of `WFState` that concerns the wrapped context. -/
def CtxOK : Ctx → Prop
  | .par i => InnerOK i
  | _ => True

def WFState : State → Prop
  | .header => True
  | .params i pay pad => pay < 65536 ∧ pad < 256 ∧ InnerOK i
  | .skip c pay pad => 0 < pay + pad ∧ pay < 65536 ∧ pad < 256 ∧ CtxOK c
  | .values c vars pay pad => pay < 65536 ∧ pad < 256 ∧ vars < 8 ∧ (∀ r, c ≠ .dn r) ∧ CtxOK c
  | .done _ => True
  | .fatal _ => True

/-- `data = c ++ r` for some `c`: `r` is what is left of `data`. -/
def IsSuffix (r data : Bytes) : Prop := ∃ c, data = c ++ r

theorem IsSuffix.refl (d : Bytes) : IsSuffix d d := ⟨[], rfl⟩
theorem IsSuffix.nil (d : Bytes) : IsSuffix [] d := ⟨d, by simp⟩
theorem IsSuffix.drop (n : Nat) (d : Bytes) : IsSuffix (d.drop n) d :=
  ⟨d.take n, (List.take_append_drop n d).symm⟩
theorem IsSuffix.trans {a b c : Bytes} (h1 : IsSuffix a b) (h2 : IsSuffix b c) : IsSuffix a c := by
  obtain ⟨x, rfl⟩ := h1; obtain ⟨y, rfl⟩ := h2; exact ⟨y ++ x, by simp⟩
theorem IsSuffix.length_le {r d : Bytes} (h : IsSuffix r d) : r.length ≤ d.length := by
  obtain ⟨c, rfl⟩ := h; simp
theorem IsSuffix.drop_of {r d : Bytes} (n : Nat) (h : IsSuffix r d) : IsSuffix (r.drop n) d :=
  (IsSuffix.drop n r).trans h

theorem innerOK_nil (r : Request) : InnerOK { req := r, buffer := [] } := by
  simp [InnerOK, NV.next, decode]

theorem wf_intoState {c : Ctx} (h : CtxOK c) : WFState c.intoState := by
  cases c <;> simp_all [Ctx.intoState, WFState, CtxOK]

theorem wf_intoSkip {c : Ctx} {pay pad : Nat} (h : CtxOK c) (h1 : pay < 65536) (h2 : pad < 256) :
    WFState (c.intoSkip pay pad) := by
  unfold Ctx.intoSkip
  split
  · exact wf_intoState h
  · rename_i hne
    simp at hne
    exact ⟨by omega, h1, h2, h⟩

theorem rank_intoState {c : Ctx} : rank c.intoState = 0 := by
  cases c <;> rfl

theorem rank_intoSkip {c : Ctx} {pay pad : Nat} : rank (c.intoSkip pay pad) = 0 := by
  unfold Ctx.intoSkip; split
  · exact rank_intoState
  · rfl

theorem rank_le_one (s : State) : rank s ≤ 1 := by
  cases s <;> simp [rank]

theorem be16_lt (a b : UInt8) : be16 a b < 65536 := by
  have := a.toNat_lt; have := b.toNat_lt; simp [be16]; omega

/-! ## `try_head!` -/

theorem tryHead_short {c : Ctx} {d : Bytes} (h : tryHead c d = .short) : d.length < 8 := by
  unfold tryHead at h
  split at h
  · split at h <;> cases h
  · rename_i hne
    match d, hne with
    | [], _ | [_], _ | [_, _], _ | [_, _, _], _ | [_, _, _, _], _ | [_, _, _, _, _], _
    | [_, _, _, _, _, _], _ | [_, _, _, _, _, _, _], _ => simp
    | b0 :: b1 :: b2 :: b3 :: b4 :: b5 :: b6 :: b7 :: t, hne => exact absurd rfl (hne _ _ _ _ _ _ _ _ _)

theorem tryHead_ok {c : Ctx} {d : Bytes} {hd : RecordHeader} (h : tryHead c d = .ok hd) :
    8 ≤ d.length ∧ hd.contentLength < 65536 ∧ hd.paddingLength < 256 := by
  unfold tryHead at h
  split at h
  · rename_i b0 b1 b2 b3 b4 b5 b6 b7 t
    split at h
    · rename_i h' hfb
      cases h
      simp only [RecordHeader.fromBytes] at hfb
      split at hfb
      · cases hfb
      · split at hfb
        · cases hfb
        · cases hfb
          exact ⟨by simp, be16_lt _ _, b6.toNat_lt⟩
    all_goals cases h
  · cases h

theorem tryHead_unknown {c : Ctx} {d o : Bytes} {st : State} (hc : CtxOK c)
    (h : tryHead c d = .unknownType o st) : 8 ≤ d.length ∧ WFState st ∧ rank st = 0 := by
  unfold tryHead at h
  split at h
  · rename_i b0 b1 b2 b3 b4 b5 b6 b7 t
    split at h
    · cases h
    · cases h
      exact ⟨by simp, wf_intoSkip hc (be16_lt _ _) b6.toNat_lt, rank_intoSkip⟩
    all_goals cases h
  · cases h

/-! ## `SkipState::drive` -/

theorem skipDrive_no_panic {c : Ctx} {pay pad : Nat} {d : Bytes} {s : String} :
    skipDrive c pay pad d ≠ .panic s := by
  unfold skipDrive
  split
  · simp
  · split
    · split
      · simp
      · omega
    · simp

theorem skipDrive_brk {c : Ctx} {pay pad : Nat} {d r : Bytes} {s : State}
    (hw : WFState (.skip c pay pad)) (h : skipDrive c pay pad d = .brk r s) :
    WFState s ∧ r = [] := by
  obtain ⟨h0, h1, h2, hc⟩ := hw
  unfold skipDrive at h
  split at h
  · cases h; exact ⟨⟨by omega, by omega, h2, hc⟩, rfl⟩
  · split at h
    · split at h
      · cases h; exact ⟨⟨by omega, by omega, by omega, hc⟩, rfl⟩
      · cases h
    · cases h

theorem skipDrive_cont {c : Ctx} {pay pad : Nat} {d r : Bytes} {s : State}
    (hw : WFState (.skip c pay pad)) (h : skipDrive c pay pad d = .cont r s) :
    WFState s ∧ IsSuffix r d ∧ r.length < d.length ∧ s = c.intoState ∧ r = d.drop (pay + pad) := by
  obtain ⟨h0, h1, h2, hc⟩ := hw
  unfold skipDrive at h
  split at h
  · cases h
  · split at h
    · split at h <;> cases h
    · cases h
      refine ⟨wf_intoState hc, IsSuffix.drop _ _, ?_, rfl, rfl⟩
      simp only [List.length_drop]; omega

/-! ## `GetValuesState::drive` -/

theorem parseName_mem {n : Bytes} {b : Nat} (h : Vars.parseName n = some b) : b = 1 ∨ b = 2 ∨ b = 4 := by
  simp only [Vars.parseName, Vars.table, List.find?] at h
  split at h
  · simp at h; omega
  · split at h
    · simp at h; omega
    · split at h
      · simp at h; omega
      · simp at h

theorem insert_lt {s b : Nat} (hs : s < 8) (hb : b = 1 ∨ b = 2 ∨ b = 4) : Vars.insert s b < 8 := by
  unfold Vars.insert Vars.has
  split
  · exact hs
  · rename_i hn
    rcases hb with rfl | rfl | rfl <;> simp at hn <;> omega

theorem extend_lt {s : Nat} (ps : List (Bytes × Bytes)) (hs : s < 8) : Vars.extend s ps < 8 := by
  unfold Vars.extend
  induction ps generalizing s with
  | nil => simpa
  | cons p ps ih =>
    simp only [List.foldl_cons]
    apply ih
    split
    · rename_i b hb; exact insert_lt hs (parseName_mem hb)
    · exact hs

theorem all_rest_le (bs : Bytes) : (NV.all bs).2.length ≤ bs.length := by
  obtain ⟨c, hc⟩ := C16.rest_suffix bs
  have := congrArg List.length hc
  simp only [List.length_append] at this; omega

theorem valuesDrive_no_panic {c : Ctx} {vars pay pad mc : Nat} {d o : Bytes} {s : String} :
    valuesDrive c vars pay pad d mc ≠ (.panic s, o) := by
  unfold valuesDrive
  intro h
  split at h
  · simp only at h
    split at h
    · split at h
      · cases h
      · rename_i hlt hn
        omega
    · split at h <;> cases h
  · split at h <;> cases h

theorem valuesDrive_brk {c : Ctx} {vars pay pad mc : Nat} {d r o : Bytes} {s : State}
    (hw : WFState (.values c vars pay pad)) (h : valuesDrive c vars pay pad d mc = (.brk r s, o)) :
    WFState s ∧ IsSuffix r d := by
  obtain ⟨h1, h2, h3, hd, hc⟩ := hw
  unfold valuesDrive at h
  split at h
  · simp only at h
    split at h
    · split at h
      · cases h
        exact ⟨⟨by omega, h2, extend_lt _ h3, hd, hc⟩, IsSuffix.drop _ _⟩
      · cases h
    · split at h
      · cases h
        exact ⟨⟨by omega, by omega, extend_lt _ h3, hd, hc⟩, IsSuffix.nil _⟩
      · cases h
  · split at h
    · cases h
      exact ⟨⟨by omega, by omega, h3, hd, hc⟩, IsSuffix.nil _⟩
    · cases h

theorem valuesDrive_cont {c : Ctx} {vars pay pad mc : Nat} {d r o : Bytes} {s : State}
    (hw : WFState (.values c vars pay pad)) (h : valuesDrive c vars pay pad d mc = (.cont r s, o)) :
    WFState s ∧ IsSuffix r d ∧ rank s = 0 ∧ s = c.intoState ∧ r = d.drop (pay + pad) := by
  obtain ⟨h1, h2, h3, hd, hc⟩ := hw
  unfold valuesDrive at h
  split at h
  · simp only at h
    split at h
    · split at h <;> cases h
    · split at h
      · cases h
      · cases h
        exact ⟨wf_intoState hc, (IsSuffix.drop _ _).drop_of _, rank_intoState, rfl,
          by rw [List.drop_drop]⟩
  · split at h
    · cases h
    · cases h
      rename_i hp _
      have : pay = 0 := by omega
      subst this
      exact ⟨wf_intoState hc, IsSuffix.drop _ _, rank_intoState, rfl, by simp⟩

/-! ## `HeaderState::drive` -/

theorem headerDrive_no_panic {d o : Bytes} {s : String} : headerDrive d ≠ (.panic s, o) := by
  unfold headerDrive
  intro h
  split at h
  · cases h
  · cases h
  · cases h
  · split at h
    · split at h
      · cases h
      · split at h
        · cases h
        · simp only at h
          split at h
          · cases h
          · split at h <;> cases h
          · cases h
    · split at h <;> cases h

theorem headerDrive_brk {d r o : Bytes} {s : State} (h : headerDrive d = (.brk r s, o)) :
    WFState s ∧ IsSuffix r d ∧ o = [] ∧ (s = .header ∨ ∃ e, s = .fatal e) := by
  unfold headerDrive at h
  split at h
  · cases h; exact ⟨trivial, IsSuffix.refl _, rfl, Or.inl rfl⟩
  · cases h; exact ⟨trivial, IsSuffix.refl _, rfl, Or.inr ⟨_, rfl⟩⟩
  · cases h
  · split at h
    · split at h
      · cases h; exact ⟨trivial, IsSuffix.refl _, rfl, Or.inr ⟨_, rfl⟩⟩
      · split at h
        · cases h; exact ⟨trivial, IsSuffix.refl _, rfl, Or.inl rfl⟩
        · simp only at h
          split at h
          · cases h
          · split at h
            · cases h; exact ⟨trivial, IsSuffix.drop _ _, rfl, Or.inr ⟨_, rfl⟩⟩
            · cases h
          · cases h; exact ⟨trivial, IsSuffix.drop _ _, rfl, Or.inr ⟨_, rfl⟩⟩
    · split at h <;> cases h

theorem headerDrive_cont {d r o : Bytes} {s : State} (h : headerDrive d = (.cont r s, o)) :
    WFState s ∧ IsSuffix r d ∧ r.length < d.length := by
  unfold headerDrive at h
  split at h
  · cases h
  · cases h
  · rename_i o' st hh
    cases h
    obtain ⟨h8, hw, _⟩ := tryHead_unknown (c := .hdr) trivial hh
    exact ⟨hw, IsSuffix.drop _ _, by simp only [List.length_drop]; omega⟩
  · rename_i hd hh
    obtain ⟨h8, hcl, hpl⟩ := tryHead_ok hh
    split at h
    · split at h
      · cases h
      · split at h
        · cases h
        · rename_i h16
          simp only at h
          split at h
          · cases h
            exact ⟨wf_intoSkip (c := .hdr) trivial (by omega) hpl, IsSuffix.drop _ _,
              by simp only [List.length_drop]; omega⟩
          · split at h
            · cases h
            · cases h
              exact ⟨⟨by omega, hpl, innerOK_nil _⟩, IsSuffix.drop _ _,
                by simp only [List.length_drop]; omega⟩
          · cases h
    · split at h
      · cases h
        exact ⟨⟨hcl, hpl, by omega, by intro r; simp, trivial⟩, IsSuffix.drop _ _,
          by simp only [List.length_drop]; omega⟩
      · cases h
        exact ⟨wf_intoSkip (c := .hdr) trivial hcl hpl, IsSuffix.drop _ _,
          by simp only [List.length_drop]; omega⟩

/-! ## `try_fill!` -/

theorem tryFill_filled {b d b' d' : Bytes} {len : Nat} {mm : Bool}
    (h : tryFill b d len mm = .filled b' d') :
    b' = b ++ d.take (len - b.length) ∧ d' = d.drop (len - b.length) ∧
      len - b.length ≤ d.length ∧ len ≤ b'.length ∧ (b.length ≤ len → b'.length = len) := by
  unfold tryFill at h
  split at h
  · simp only at h
    split at h
    · cases h
      rename_i h1 h2
      refine ⟨rfl, rfl, h2, ?_, ?_⟩ <;> simp [List.length_take] <;> omega
    · split at h <;> cases h
  · cases h
    rename_i h1
    have : len - b.length = 0 := by omega
    simp [this]; omega

theorem tryFill_ret {b d b' d' : Bytes} {len : Nat} {mm : Bool}
    (h : tryFill b d len mm = .ret b' d') :
    b.length + d.length < len ∧
      ((mm = true ∧ b' = b ++ d ∧ d' = []) ∨ (mm = false ∧ b' = b ∧ d' = d)) := by
  unfold tryFill at h
  split at h
  · simp only at h
    split at h
    · cases h
    · split at h
      · cases h; rename_i hm; exact ⟨by omega, Or.inl ⟨hm, rfl, rfl⟩⟩
      · cases h; rename_i hm; exact ⟨by omega, Or.inr ⟨by simpa using hm, rfl, rfl⟩⟩
  · cases h

/-! ## The two length prefixes at the front of the side buffer -/

theorem div128 (b : UInt8) : b.toNat / 128 = if b.toNat < 128 then 0 else 1 := by
  have := b.toNat_lt; split <;> omega

theorem decode_short {b : UInt8} (t : Bytes) (h : b.toNat < 128) :
    decode (b :: t) = some (b.toNat, t) := by simp [decode, h]

theorem decode_long {b : UInt8} (b1 b2 b3 : UInt8) (t : Bytes) (h : ¬ b.toNat < 128) :
    decode (b :: b1 :: b2 :: b3 :: t) =
      some ((b.toNat - 128) * 16777216 + b1.toNat * 65536 + b2.toNat * 256 + b3.toNat, t) := by
  simp [decode, h]

theorem decode_long_none {b : UInt8} {t : Bytes} (h : ¬ b.toNat < 128) (ht : t.length < 3) :
    decode (b :: t) = none :=
  (C15.decode_none_iff _).mpr (Or.inr ⟨b, t, rfl, by omega, ht⟩)

theorem next_none_of_first {bs : Bytes} (h : decode bs = none) : NV.next bs = none := by
  simp [NV.next, h]

theorem next_none_of_second {bs r1 : Bytes} {nl : Nat} (h1 : decode bs = some (nl, r1))
    (h2 : decode r1 = none) : NV.next bs = none := by
  simp [NV.next, h1, h2]

theorem next_none_of_body {bs r1 r2 : Bytes} {nl vl : Nat} (h1 : decode bs = some (nl, r1))
    (h2 : decode r1 = some (vl, r2)) (h3 : r2.length < nl + vl) : NV.next bs = none := by
  simp [NV.next, h1, h2]; omega

/-- A byte string shorter than the prefix its first byte announces does not decode. -/
theorem decode_none_of_short {b : UInt8} {t : Bytes} (h : (b :: t).length < 1 + b.toNat / 128 * 3) :
    decode (b :: t) = none := by
  rw [div128] at h
  by_cases hb : b.toNat < 128
  · simp [hb] at h
  · simp [hb] at h
    exact decode_long_none hb (by omega)

/-- A byte string at least as long as the prefix its first byte announces decodes and consumes
exactly that prefix. -/
theorem decode_of_long {b : UInt8} {t : Bytes} (h : 1 + b.toNat / 128 * 3 ≤ (b :: t).length) :
    ∃ v, decode (b :: t) = some (v, (b :: t).drop (1 + b.toNat / 128 * 3)) := by
  rw [div128] at h ⊢
  by_cases hb : b.toNat < 128
  · exact ⟨_, by simpa [hb] using decode_short t hb⟩
  · simp only [hb, if_false] at h ⊢
    match t, h with
    | [], h | [_], h | [_, _], h => simp at h
    | b1 :: b2 :: b3 :: t', _ => exact ⟨_, by simpa using decode_long b1 b2 b3 t' hb⟩

/-- Fewer bytes than the first length prefix plus one announce: no pair. -/
theorem hdr_short1 {b0 : UInt8} {t : Bytes} (h : (b0 :: t).length < 2 + b0.toNat / 128 * 3) :
    NV.next (b0 :: t) = none := by
  by_cases h1 : (b0 :: t).length < 1 + b0.toNat / 128 * 3
  · exact next_none_of_first (decode_none_of_short h1)
  · obtain ⟨v, hv⟩ := decode_of_long (Nat.le_of_not_lt h1)
    refine next_none_of_second hv ?_
    have : ((b0 :: t).drop (1 + b0.toNat / 128 * 3)).length = 0 := by
      rw [List.length_drop]; omega
    rw [List.length_eq_zero_iff.mp this]; rfl

/-- With the first prefix and one more byte present, the byte at `headLen - 1` exists; it is the
first byte of the second prefix.  If the second prefix is incomplete there is no pair, otherwise
both prefixes decode and what follows them is the buffer minus `headLen2` bytes. -/
theorem hdr_long {b0 : UInt8} {t : Bytes} (h : 2 + b0.toNat / 128 * 3 ≤ (b0 :: t).length) :
    ∃ bx, (b0 :: t)[2 + b0.toNat / 128 * 3 - 1]? = some bx ∧
      ((b0 :: t).length < 2 + b0.toNat / 128 * 3 + bx.toNat / 128 * 3 → NV.next (b0 :: t) = none) ∧
      (2 + b0.toNat / 128 * 3 + bx.toNat / 128 * 3 ≤ (b0 :: t).length →
        ∃ nl vl c1, decode (b0 :: t) = some (nl, c1) ∧
          decode c1 = some (vl, (b0 :: t).drop (2 + b0.toNat / 128 * 3 + bx.toNat / 128 * 3))) := by
  obtain ⟨nl, hnl⟩ := decode_of_long (b := b0) (t := t) (by omega)
  generalize hk : b0.toNat / 128 * 3 = k at *
  have hlen : ((b0 :: t).drop (1 + k)).length = (b0 :: t).length - (1 + k) := List.length_drop
  match hc : (b0 :: t).drop (1 + k) with
  | [] => rw [hc] at hlen; simp at hlen; simp at h; omega
  | bx :: t' =>
    rw [hc] at hnl hlen
    have hidx : (b0 :: t)[2 + k - 1]? = some bx := by
      have : ((b0 :: t).drop (1 + k))[0]? = some bx := by rw [hc]; rfl
      rw [List.getElem?_drop] at this
      rw [← this]; congr 1; omega
    refine ⟨bx, hidx, ?_, ?_⟩
    · intro hs
      refine next_none_of_second hnl (decode_none_of_short ?_)
      rw [hlen]; omega
    · intro hl
      obtain ⟨vl, hvl⟩ := decode_of_long (b := bx) (t := t') (by rw [hlen]; omega)
      refine ⟨nl, vl, _, hnl, ?_⟩
      rw [hvl, ← hc, List.drop_drop]
      rw [show 1 + k + (1 + bx.toNat / 128 * 3) = 2 + k + bx.toNat / 128 * 3 by omega]

/-! ## `parse_buffered` -/

theorem idx_append {l e : Bytes} {n : Nat} {x : UInt8} (h : l[n]? = some x) :
    (l ++ e)[n]? = some x := by
  obtain ⟨hn, _⟩ := List.getElem?_eq_some_iff.mp h
  rw [List.getElem?_append_left hn]; exact h

/-- The fill that completes the name inside the buffer succeeds once the whole pair is
available, and leaves enough data for the value. -/
theorem fill_name {bf2 d2 cur : Bytes} {hl2 nl vl : Nat} (recEnd : Bool)
    (hcl : bf2.length = hl2 + cur.length) (hsuf : nl + vl ≤ cur.length + d2.length) :
    ∃ bf3 d3, tryFill bf2 d2 (hl2 + nl) recEnd = .filled bf3 d3 ∧ hl2 + nl ≤ bf3.length ∧
      vl - (bf3.length - (hl2 + nl)) ≤ d3.length ∧ IsSuffix d3 d2 := by
  cases hf : tryFill bf2 d2 (hl2 + nl) recEnd with
  | ret b d =>
    obtain ⟨hlt, _⟩ := tryFill_ret hf
    omega
  | filled bf3 d3 =>
    obtain ⟨hbf3, hd3, hk, hlen3, hlen3'⟩ := tryFill_filled hf
    refine ⟨bf3, d3, rfl, hlen3, ?_, hd3 ▸ IsSuffix.drop _ _⟩
    have : bf3.length = bf2.length + (hl2 + nl - bf2.length) := by
      rw [hbf3, List.length_append, List.length_take]; omega
    rw [hd3, List.length_drop]; omega

theorem val0_len (bf : Bytes) (n : Nat) :
    (if n < bf.length then bf.drop n else []).length = bf.length - n := by
  split
  · exact List.length_drop
  · simp; omega

/-- What `parseBuffered` guarantees about its result. -/
def PBGood (data : Bytes) (recEnd : Bool) : PB → Prop
  | .ok i' d' => InnerOK i' ∧ IsSuffix d' data ∧ (recEnd = true → i'.buffer ≠ [] → d' = [])
  | .panic _ => False

theorem parseBuffered_good (i : Inner) (data : Bytes) (recEnd : Bool) (hne : i.buffer ≠ []) :
    PBGood data recEnd (parseBuffered i data recEnd) := by
  unfold parseBuffered
  split
  · rename_i hb; exact hne hb
  · rename_i b0 t hb
    simp only []
    split
    · -- the first fill returns early
      rename_i bf d hf
      obtain ⟨hlt, hc⟩ := tryFill_ret hf
      rw [hb] at hlt hc
      rcases hc with ⟨hm, rfl, rfl⟩ | ⟨hm, rfl, rfl⟩
      · exact ⟨hdr_short1 (t := t ++ data) (by simp at hlt ⊢; omega), IsSuffix.nil _, fun _ _ => rfl⟩
      · exact ⟨hdr_short1 (by simp at hlt ⊢; omega), IsSuffix.refl _, fun h => by simp [hm] at h⟩
    · rename_i bf1 d1 hf1
      obtain ⟨hbf1, hd1, hk1, hlen1, _⟩ := tryFill_filled hf1
      rw [hb] at hbf1
      have hs1 : IsSuffix d1 data := hd1 ▸ IsSuffix.drop _ _
      obtain ⟨t1, rfl⟩ : ∃ t1, bf1 = b0 :: t1 := ⟨_, hbf1⟩
      clear hbf1 hd1 hk1 hf1
      split
      · rename_i hnone
        obtain ⟨bx', hidx, _, _⟩ := hdr_long hlen1
        rw [hidx] at hnone; cases hnone
      · rename_i bx hidx
        split
        · -- the second fill returns early
          rename_i bf d hf
          obtain ⟨hlt, hc⟩ := tryFill_ret hf
          rcases hc with ⟨hm, rfl, rfl⟩ | ⟨hm, rfl, rfl⟩
          · have hidx' := idx_append (e := d1) hidx
            obtain ⟨bx', hidx2, hshort, _⟩ :=
              hdr_long (b0 := b0) (t := t1 ++ d1) (by simp at hlen1 ⊢; omega)
            rw [show b0 :: (t1 ++ d1) = b0 :: t1 ++ d1 from rfl, hidx'] at hidx2
            cases hidx2
            exact ⟨hshort (by simp at hlt ⊢; omega), IsSuffix.nil _, fun _ _ => rfl⟩
          · obtain ⟨bx', hidx2, hshort, _⟩ := hdr_long hlen1
            rw [hidx] at hidx2; cases hidx2
            exact ⟨hshort (by omega), hs1, fun h => by simp [hm] at h⟩
        · rename_i bf2 d2 hf2
          obtain ⟨hbf2, hd2, hk2, hlen2, _⟩ := tryFill_filled hf2
          have hs2 : IsSuffix d2 data := (hd2 ▸ IsSuffix.drop _ _ : IsSuffix d2 d1).trans hs1
          have hidx' : (b0 :: (t1 ++ List.take (2 + b0.toNat / 128 * 3 + bx.toNat / 128 * 3 - (b0 :: t1).length) d1))[2 + b0.toNat / 128 * 3 - 1]? = some bx :=
            idx_append hidx
          obtain ⟨t2, rfl⟩ : ∃ t2, bf2 = b0 :: t2 := ⟨_, hbf2⟩
          simp only [List.cons_append, List.cons.injEq, true_and] at hbf2
          rw [← hbf2] at hidx'
          clear hbf2 hd2 hk2 hf2
          obtain ⟨bx', hidx2, _, hlong⟩ := hdr_long (b0 := b0) (t := t2) (by omega)
          rw [hidx'] at hidx2; cases hidx2
          obtain ⟨nl, vl, c1, hd1, hd2⟩ := hlong hlen2
          rw [hd1]; simp only []
          rw [hd2]; simp only []
          clear hlong hidx hidx' hlen1 hb
          generalize b0 :: t2 = bf2 at *
          generalize 2 + b0.toNat / 128 * 3 + bx.toNat / 128 * 3 = hl2 at *
          have hcl : (bf2.drop hl2).length = bf2.length - hl2 := List.length_drop
          generalize bf2.drop hl2 = cur at *
          have e1 : bf2.length - cur.length = hl2 := by omega
          rw [e1]
          simp only [ne_eq, not_true_eq_false, if_false]
          split
          · rename_i hins
            have hnone : NV.next (bf2 ++ d2) = none :=
              next_none_of_body (NV.decode_append d2 hd1) (NV.decode_append d2 hd2)
                (by simp only [List.length_append]; omega)
            split
            · exact ⟨hnone, IsSuffix.nil _, fun _ _ => rfl⟩
            · rename_i hm
              exact ⟨next_none_of_body hd1 hd2 (by omega), hs2, fun h => absurd h hm⟩
          · rename_i hsuf
            by_cases hc : cur.length = 0
            · have hn : nl ≤ d2.length := by omega
              simp only [hc, beq_self_eq_true, if_true, hn]
              have hv : vl - (bf2.length - (hl2 + nl)) ≤ (d2.drop nl).length := by
                simp only [List.length_drop]; omega
              have hv0 := val0_len bf2 (hl2 + nl)
              generalize (if hl2 + nl < bf2.length then bf2.drop (hl2 + nl) else []) = val0 at hv0 ⊢
              rw [← hv0] at hv
              split
              · exact ⟨rfl, ((IsSuffix.drop _ _).drop_of _).trans hs2, fun _ h => absurd rfl h⟩
              · exact ⟨rfl, (IsSuffix.drop _ _).trans hs2, fun _ h => absurd rfl h⟩
            · obtain ⟨bf3, d3, hf3, hl3, hv, hs3⟩ :=
                fill_name (bf2 := bf2) (d2 := d2) (cur := cur) (hl2 := hl2) (nl := nl) (vl := vl)
                  recEnd (by omega) (by omega)
              simp only [beq_iff_eq, hc, if_false, hf3, hl3, if_true]
              have hv0 := val0_len bf3 (hl2 + nl)
              generalize (if hl2 + nl < bf3.length then bf3.drop (hl2 + nl) else []) = val0 at hv0 ⊢
              rw [← hv0] at hv
              split
              · exact ⟨rfl, (IsSuffix.drop _ _).trans (hs3.trans hs2), fun _ h => absurd rfl h⟩
              · exact ⟨rfl, hs3.trans hs2, fun _ h => absurd rfl h⟩

/-- `parse_buffered` on a non-empty side buffer: never panics, re-establishes `InnerOK`, hands back
a suffix of its input, and with `rec_end` leaves no data unless the pair was completed. -/
theorem parseBuffered_ok (i : Inner) (data : Bytes) (recEnd : Bool) (hne : i.buffer ≠ []) :
    ∃ i' d', parseBuffered i data recEnd = .ok i' d' ∧ InnerOK i' ∧ IsSuffix d' data ∧
      (recEnd = true → i'.buffer ≠ [] → d' = []) := by
  have := parseBuffered_good i data recEnd hne
  cases h : parseBuffered i data recEnd with
  | ok i' d' => rw [h] at this; exact ⟨i', d', rfl, this⟩
  | panic s => rw [h] at this; exact this.elim

/-! ## `parse_stream` -/

/-- What `parseStream` guarantees about its result. -/
def PSGood (data : Bytes) (recEnd : Bool) : PS → Prop
  | .ok i' n => InnerOK i' ∧ n ≤ data.length ∧ (recEnd = true → n = data.length)
  | .panic _ => False

/-- The tail of `parse_stream` (`NVIter` over the data, remainder into the side buffer). -/
theorem parseStream_cont_good (i : Inner) (d data : Bytes) (recEnd : Bool) (hb : i.buffer = []) :
    PSGood data recEnd
      (if (recEnd && !(NV.all d).2.isEmpty) = true then
        PS.ok { req := { i.req with env := envExtend i.req.env (NV.all d).1 },
                buffer := i.buffer ++ (NV.all d).2 } data.length
      else PS.ok { req := { i.req with env := envExtend i.req.env (NV.all d).1 },
                   buffer := i.buffer } (data.length - (NV.all d).2.length)) := by
  split
  · refine ⟨?_, Nat.le_refl _, fun _ => rfl⟩
    simp only [InnerOK, hb, List.nil_append]
    exact C16.stops_for_good d
  · rename_i hc
    refine ⟨by simp [InnerOK, hb, NV.next, decode], Nat.sub_le _ _, fun hr => ?_⟩
    simp [hr] at hc
    simp [hc]

theorem parseStream_good (i : Inner) (data : Bytes) (recEnd : Bool) :
    PSGood data recEnd (parseStream i data recEnd) := by
  unfold parseStream
  simp only []
  split
  · rename_i hne
    have hne' : i.buffer ≠ [] := by intro h; simp [h] at hne
    obtain ⟨i1, d1, hpb, hok, hsuf, hend⟩ := parseBuffered_ok i data recEnd hne'
    rw [hpb]
    simp only []
    split
    · rename_i hne1
      have hne1' : i1.buffer ≠ [] := by intro h; simp [h] at hne1
      refine ⟨hok, Nat.sub_le _ _, fun hr => ?_⟩
      rw [hend hr hne1']; rfl
    · rename_i he1
      have he1' : i1.buffer = [] := by simpa using he1
      exact parseStream_cont_good i1 d1 data recEnd he1'
  · rename_i he
    have he' : i.buffer = [] := by simpa using he
    exact parseStream_cont_good i data data recEnd he'

/-- `parse_stream`: never panics (whatever the side buffer holds), establishes `InnerOK`, consumes
at most the data, and exactly all of it at a record end. -/
theorem parseStream_ok (i : Inner) (data : Bytes) (recEnd : Bool) :
    ∃ i' n, parseStream i data recEnd = .ok i' n ∧ InnerOK i' ∧ n ≤ data.length ∧
      (recEnd = true → n = data.length) := by
  have := parseStream_good i data recEnd
  cases h : parseStream i data recEnd with
  | ok i' n => rw [h] at this; exact ⟨i', n, rfl, this⟩
  | panic s => rw [h] at this; exact this.elim

/-! ## `ParamsState::drive`, in three phases -/

/-- Payload phase of `ParamsState::drive`: `.error` = early return. -/
def payloadPhase (i : Inner) (pay pad : Nat) (data : Bytes) : Except (Flow × Bytes) (Inner × Bytes) :=
  if pay > 0 then
    if data.length < pay then
      match parseStream i data false with
      | .panic s => .error (.panic s, [])
      | .ok i' consumed =>
        if consumed ≤ pay ∧ consumed ≤ data.length then
          .error (.brk (data.drop consumed) (.params i' (pay - consumed) pad), [])
        else .error (.panic "request.rs:391 consumed exceeds payload", [])
    else
      match parseStream i (data.take pay) true with
      | .panic s => .error (.panic s, [])
      | .ok i' consumed =>
        if consumed ≠ pay then .error (.panic "request.rs:398 consumed != payload_rem", [])
        else .ok (i', data.drop pay)
  else .ok (i, data)

/-- Padding phase of `ParamsState::drive` (note `≤`). -/
def padPhase (i : Inner) (pad : Nat) (data : Bytes) : Except (Flow × Bytes) Bytes :=
  if pad > 0 then
    if data.length ≤ pad then .error (.brk [] (.params i 0 (pad - data.length)), [])
    else .ok (data.drop pad)
  else .ok data

/-- Record-header phase of `ParamsState::drive`. -/
def recPhase (i : Inner) (data : Bytes) : Flow × Bytes :=
  match tryHead (.par i) data with
  | .short => (.brk data (.params i 0 0), [])
  | .fatal e => (.brk data (.fatal e), [])
  | .unknownType o st => (.cont (data.drop 8) st, o)
  | .ok head =>
    let data := data.drop 8
    let reqId := i.req.id
    if head.rtype == RT.params && head.requestId == reqId then
      if head.contentLength == 0 then (.cont data ((Ctx.dn i.req).intoSkip 0 head.paddingLength), [])
      else (.cont data (.params i head.contentLength head.paddingLength), [])
    else if head.rtype == RT.abortRequest && head.requestId == reqId then
      (.cont data (Ctx.hdr.intoSkip head.contentLength head.paddingLength),
        EndRequest.toRecord { appStatus := 0, protocolStatus := 0 } reqId)
    else if head.rtype == RT.beginRequest && head.requestId != reqId then
      (.cont data ((Ctx.par i).intoSkip head.contentLength head.paddingLength),
        EndRequest.toRecord { appStatus := 0, protocolStatus := 1 } head.requestId)
    else if head.rtype == RT.getValues && head.isManagement then
      (.cont data (.values (.par i) 0 head.contentLength head.paddingLength), [])
    else (.cont data ((Ctx.par i).intoSkip head.contentLength head.paddingLength), [])

theorem paramsDrive_eq (i : Inner) (pay pad : Nat) (data : Bytes) :
    paramsDrive i pay pad data =
      match payloadPhase i pay pad data with
      | .error r => r
      | .ok (i', d) =>
        match padPhase i' pad d with
        | .error r => r
        | .ok d' => recPhase i' d' := rfl

/-- Early return of the payload phase: the record's payload is not complete yet. -/
theorem payloadPhase_error {i : Inner} {pay pad : Nat} {data : Bytes} {r : Flow × Bytes}
    (h : payloadPhase i pay pad data = .error r) :
    ∃ i' n, parseStream i data false = .ok i' n ∧ InnerOK i' ∧ 0 < pay ∧ data.length < pay ∧
      n ≤ data.length ∧ r = (.brk (data.drop n) (.params i' (pay - n) pad), []) := by
  unfold payloadPhase at h
  split at h
  · rename_i hp
    split at h
    · rename_i hlt
      obtain ⟨i', n, hps, hok, hn, _⟩ := parseStream_ok i data false
      rw [hps] at h
      simp only [] at h
      rw [if_pos ⟨by omega, hn⟩] at h
      cases h
      exact ⟨i', n, hps, hok, hp, hlt, hn, rfl⟩
    · rename_i hge
      obtain ⟨i', n, hps, hok, hn, he⟩ := parseStream_ok i (data.take pay) true
      rw [hps] at h
      simp only [] at h
      have : n = pay := by rw [he rfl, List.length_take]; omega
      simp [this] at h
  · cases h

/-- The payload phase falls through: no payload left, or the payload is complete. -/
theorem payloadPhase_ok {i i' : Inner} {pay pad : Nat} {data d : Bytes}
    (h : payloadPhase i pay pad data = .ok (i', d)) :
    (pay = 0 ∧ i' = i ∧ d = data) ∨
      (0 < pay ∧ pay ≤ data.length ∧ d = data.drop pay ∧
        parseStream i (data.take pay) true = .ok i' pay ∧ InnerOK i') := by
  unfold payloadPhase at h
  split at h
  · rename_i hp
    split at h
    · rename_i hlt
      obtain ⟨i1, n, hps, hok, hn, _⟩ := parseStream_ok i data false
      rw [hps] at h
      simp only [] at h
      split at h <;> cases h
    · rename_i hge
      obtain ⟨i1, n, hps, hok, hn, he⟩ := parseStream_ok i (data.take pay) true
      have : n = pay := by rw [he rfl, List.length_take]; omega
      subst this
      rw [hps] at h
      simp at h
      obtain ⟨rfl, rfl⟩ := h
      exact Or.inr ⟨hp, by omega, rfl, hps, hok⟩
  · cases h
    exact Or.inl ⟨by omega, rfl, rfl⟩

theorem padPhase_error {i : Inner} {pad : Nat} {data : Bytes} {r : Flow × Bytes}
    (h : padPhase i pad data = .error r) :
    0 < pad ∧ data.length ≤ pad ∧ r = (.brk [] (.params i 0 (pad - data.length)), []) := by
  unfold padPhase at h
  split at h
  · split at h
    · cases h; exact ⟨‹_›, ‹_›, rfl⟩
    · cases h
  · cases h

theorem padPhase_ok {i : Inner} {pad : Nat} {data d : Bytes} (h : padPhase i pad data = .ok d) :
    d = data.drop pad ∧ (pad = 0 ∨ pad < data.length) := by
  unfold padPhase at h
  split at h
  · split at h
    · cases h
    · cases h; exact ⟨rfl, Or.inr (by omega)⟩
  · cases h
    have : pad = 0 := by omega
    subst this; exact ⟨rfl, Or.inl rfl⟩

theorem recPhase_no_panic {i : Inner} {d o : Bytes} {s : String} : recPhase i d ≠ (.panic s, o) := by
  unfold recPhase
  intro h
  split at h
  · cases h
  · cases h
  · cases h
  · simp only [] at h
    repeat' split at h
    all_goals cases h

theorem recPhase_brk {i : Inner} {d r o : Bytes} {s : State} (hi : InnerOK i)
    (h : recPhase i d = (.brk r s, o)) :
    r = d ∧ o = [] ∧ WFState s ∧ (s = .params i 0 0 ∧ d.length < 8 ∨ ∃ e, s = .fatal e) := by
  unfold recPhase at h
  split at h
  · rename_i hs
    cases h; exact ⟨rfl, rfl, ⟨by omega, by omega, hi⟩, Or.inl ⟨rfl, tryHead_short hs⟩⟩
  · cases h; exact ⟨rfl, rfl, trivial, Or.inr ⟨_, rfl⟩⟩
  · cases h
  · simp only [] at h
    repeat' split at h
    all_goals cases h

theorem recPhase_cont {i : Inner} {d r o : Bytes} {s : State} (hi : InnerOK i)
    (h : recPhase i d = (.cont r s, o)) :
    r = d.drop 8 ∧ 8 ≤ d.length ∧ WFState s := by
  unfold recPhase at h
  split at h
  · cases h
  · cases h
  · rename_i o' st hh
    cases h
    obtain ⟨h8, hw, _⟩ := tryHead_unknown (c := .par i) hi hh
    exact ⟨rfl, h8, hw⟩
  · rename_i hd hh
    obtain ⟨h8, hcl, hpl⟩ := tryHead_ok hh
    simp only [] at h
    repeat' split at h
    all_goals cases h
    · exact ⟨rfl, h8, wf_intoSkip (c := .dn _) trivial (by omega) hpl⟩
    · exact ⟨rfl, h8, hcl, hpl, hi⟩
    · exact ⟨rfl, h8, wf_intoSkip (c := .hdr) trivial hcl hpl⟩
    · exact ⟨rfl, h8, wf_intoSkip (c := .par i) hi hcl hpl⟩
    · exact ⟨rfl, h8, hcl, hpl, by omega, by intro r; simp, hi⟩
    · exact ⟨rfl, h8, wf_intoSkip (c := .par i) hi hcl hpl⟩

/-- Case analysis of `paramsDrive` along its three phases. -/
theorem paramsDrive_cases (i : Inner) (pay pad : Nat) (data : Bytes) :
    (∃ r, payloadPhase i pay pad data = .error r ∧ paramsDrive i pay pad data = r) ∨
    (∃ i' d, payloadPhase i pay pad data = .ok (i', d) ∧
      ((∃ r, padPhase i' pad d = .error r ∧ paramsDrive i pay pad data = r) ∨
       (∃ d', padPhase i' pad d = .ok d' ∧ paramsDrive i pay pad data = recPhase i' d'))) := by
  rw [paramsDrive_eq]
  cases hp : payloadPhase i pay pad data with
  | error r => exact Or.inl ⟨r, rfl, rfl⟩
  | ok x =>
    obtain ⟨i', d⟩ := x
    refine Or.inr ⟨i', d, rfl, ?_⟩
    cases hq : padPhase i' pad d with
    | error r => exact Or.inl ⟨r, rfl, by simp only [hq]⟩
    | ok d' => exact Or.inr ⟨d', rfl, by simp only [hq]⟩

theorem paramsDrive_no_panic {i : Inner} {pay pad : Nat} {d o : Bytes} {s : String} :
    paramsDrive i pay pad d ≠ (.panic s, o) := by
  intro h
  rcases paramsDrive_cases i pay pad d with ⟨r, hp, he⟩ | ⟨i', d1, hp, ⟨r, hq, he⟩ | ⟨d', hq, he⟩⟩
  · obtain ⟨_, _, _, _, _, _, _, hr⟩ := payloadPhase_error hp
    rw [he, hr] at h; cases h
  · obtain ⟨_, _, hr⟩ := padPhase_error hq
    rw [he, hr] at h; cases h
  · rw [he] at h; exact recPhase_no_panic h

theorem payloadPhase_ok_inner {i i' : Inner} {pay pad : Nat} {data d : Bytes} (hi : InnerOK i)
    (h : payloadPhase i pay pad data = .ok (i', d)) : InnerOK i' ∧ d = data.drop pay := by
  rcases payloadPhase_ok h with ⟨rfl, rfl, rfl⟩ | ⟨_, _, rfl, _, hok⟩
  · exact ⟨hi, rfl⟩
  · exact ⟨hok, rfl⟩

theorem paramsDrive_brk {i : Inner} {pay pad : Nat} {d r o : Bytes} {s : State}
    (hw : WFState (.params i pay pad)) (h : paramsDrive i pay pad d = (.brk r s, o)) :
    WFState s ∧ IsSuffix r d ∧ o = [] := by
  obtain ⟨h1, h2, hi⟩ := hw
  rcases paramsDrive_cases i pay pad d with ⟨x, hp, he⟩ | ⟨i', d1, hp, ⟨x, hq, he⟩ | ⟨d', hq, he⟩⟩
  · obtain ⟨i', n, _, hok, _, _, _, hr⟩ := payloadPhase_error hp
    rw [he, hr] at h; cases h
    exact ⟨⟨by omega, h2, hok⟩, IsSuffix.drop _ _, rfl⟩
  · obtain ⟨hok, _⟩ := payloadPhase_ok_inner hi hp
    obtain ⟨_, _, hr⟩ := padPhase_error hq
    rw [he, hr] at h; cases h
    exact ⟨⟨by omega, by omega, hok⟩, IsSuffix.nil _, rfl⟩
  · obtain ⟨hok, rfl⟩ := payloadPhase_ok_inner hi hp
    obtain ⟨rfl, _⟩ := padPhase_ok hq
    rw [he] at h
    obtain ⟨rfl, rfl, hws, _⟩ := recPhase_brk hok h
    exact ⟨hws, (IsSuffix.drop _ _).drop_of _, rfl⟩

theorem paramsDrive_cont {i : Inner} {pay pad : Nat} {d r o : Bytes} {s : State}
    (hw : WFState (.params i pay pad)) (h : paramsDrive i pay pad d = (.cont r s, o)) :
    WFState s ∧ IsSuffix r d ∧ r.length + 8 ≤ d.length := by
  obtain ⟨h1, h2, hi⟩ := hw
  rcases paramsDrive_cases i pay pad d with ⟨x, hp, he⟩ | ⟨i', d1, hp, ⟨x, hq, he⟩ | ⟨d', hq, he⟩⟩
  · obtain ⟨i', n, _, hok, _, _, _, hr⟩ := payloadPhase_error hp
    rw [he, hr] at h; cases h
  · obtain ⟨_, _, hr⟩ := padPhase_error hq
    rw [he, hr] at h; cases h
  · obtain ⟨hok, rfl⟩ := payloadPhase_ok_inner hi hp
    obtain ⟨rfl, _⟩ := padPhase_ok hq
    rw [he] at h
    obtain ⟨rfl, h8, hws⟩ := recPhase_cont hok h
    refine ⟨hws, ((IsSuffix.drop _ _).drop_of _).drop_of _, ?_⟩
    simp only [List.length_drop] at h8 ⊢; omega

/-! ## One iteration of the loop -/

/-- The three-way statement about one `step`, as a predicate on its result. -/
def StepGood (st : State) (data : Bytes) : Flow × Bytes → Prop
  | (.panic _, _) => False
  | (.brk r s, _) => WFState s ∧ IsSuffix r data
  | (.cont r s, _) => WFState s ∧ IsSuffix r data ∧
      (r.length < data.length ∨ (r.length = data.length ∧ rank s < rank st))

theorem step_no_panic {st : State} {d o : Bytes} {mc : Nat} {s : String} (hw : WFState st) :
    step st d mc ≠ (.panic s, o) := by
  intro h
  unfold step at h
  split at h
  · cases h
  · cases h
  · exact headerDrive_no_panic h
  · simp only [Prod.mk.injEq] at h; exact skipDrive_no_panic h.1
  · exact hw.2.2.2.1 _ rfl
  · exact valuesDrive_no_panic h
  · exact paramsDrive_no_panic h

theorem step_brk {st s : State} {d r o : Bytes} {mc : Nat} (hw : WFState st)
    (h : step st d mc = (.brk r s, o)) : WFState s ∧ IsSuffix r d := by
  unfold step at h
  split at h
  · cases h; exact ⟨hw, IsSuffix.refl _⟩
  · cases h; exact ⟨hw, IsSuffix.refl _⟩
  · obtain ⟨a, b, _⟩ := headerDrive_brk h; exact ⟨a, b⟩
  · simp only [Prod.mk.injEq] at h
    obtain ⟨a, rfl⟩ := skipDrive_brk hw h.1; exact ⟨a, IsSuffix.nil _⟩
  · cases h
  · exact valuesDrive_brk hw h
  · obtain ⟨a, b, _⟩ := paramsDrive_brk hw h; exact ⟨a, b⟩

theorem step_cont {st s : State} {d r o : Bytes} {mc : Nat} (hw : WFState st)
    (h : step st d mc = (.cont r s, o)) :
    WFState s ∧ IsSuffix r d ∧
      (r.length < d.length ∨ (r.length = d.length ∧ rank s < rank st)) := by
  unfold step at h
  split at h
  · cases h
  · cases h
  · obtain ⟨a, b, c⟩ := headerDrive_cont h; exact ⟨a, b, Or.inl c⟩
  · simp only [Prod.mk.injEq] at h
    obtain ⟨a, b, c, _⟩ := skipDrive_cont hw h.1; exact ⟨a, b, Or.inl c⟩
  · cases h
  · obtain ⟨a, b, c, _⟩ := valuesDrive_cont hw h
    refine ⟨a, b, ?_⟩
    have := b.length_le
    by_cases hl : r.length < d.length
    · exact Or.inl hl
    · exact Or.inr ⟨by omega, by rw [c]; simp [rank]⟩
  · obtain ⟨a, b, c⟩ := paramsDrive_cont hw h; exact ⟨a, b, Or.inl (by omega)⟩

/-- `step_ok` in match form. -/
theorem step_ok {st : State} (d : Bytes) (mc : Nat) (hw : WFState st) :
    StepGood st d (step st d mc) := by
  cases h : step st d mc with
  | mk f o =>
    cases f with
    | panic s => exact step_no_panic hw h
    | brk r s => exact step_brk hw h
    | cont r s => exact step_cont hw h

theorem step_final {st : State} (d : Bytes) (mc : Nat) (hf : st.isFinal = true) :
    step st d mc = (.brk d st, []) := by
  cases st <;> simp [State.isFinal] at hf <;> rfl

theorem not_final_of_step_cont {st s : State} {d r o : Bytes} {mc : Nat}
    (h : step st d mc = (.cont r s, o)) : st.isFinal = false := by
  cases hf : st.isFinal with
  | false => rfl
  | true => rw [step_final d mc hf] at h; cases h

theorem not_final_of_step_panic {st : State} {d o : Bytes} {mc : Nat} {x : String}
    (h : step st d mc = (.panic x, o)) : st.isFinal = false := by
  cases hf : st.isFinal with
  | false => rfl
  | true => rw [step_final d mc hf] at h; cases h

/-! ## Unfolding `run` (the `State::drive` loop) -/

theorem run_final {st : State} (d : Bytes) (mc : Nat) (hf : st.isFinal = true) :
    run st d mc = { rem := d, st := st, out := [], panic := none } := by
  rw [run]; simp [hf]

theorem run_brk {st s : State} {d r o : Bytes} {mc : Nat} (hf : st.isFinal = false)
    (h : step st d mc = (.brk r s, o)) :
    run st d mc = { rem := r, st := s, out := o, panic := none } := by
  rw [run]; simp [hf, h]

theorem run_panic {st : State} {d o : Bytes} {mc : Nat} {x : String}
    (h : step st d mc = (.panic x, o)) :
    run st d mc = { rem := d, st := .fatal .paniced, out := o, panic := some x } := by
  rw [run]; simp [not_final_of_step_panic h, h]

theorem run_cont_empty {st s : State} {d o : Bytes} {mc : Nat}
    (h : step st d mc = (.cont [] s, o)) :
    run st d mc = { rem := [], st := s, out := o, panic := none } := by
  rw [run]; simp [not_final_of_step_cont h, h]

/-- One more iteration, given the progress guard explicitly. -/
theorem run_cont_of_guard {st s : State} {d r o : Bytes} {mc : Nat}
    (h : step st d mc = (.cont r s, o)) (hr : r ≠ [])
    (hg : r.length < d.length ∨ (r.length = d.length ∧ rank s < rank st)) :
    run st d mc = { run s r mc with out := o ++ (run s r mc).out } := by
  rw [run]; simp [not_final_of_step_cont h, h, hr, hg]

/-- One more iteration from a well-formed state: the progress guard holds. -/
theorem run_cont {st s : State} {d r o : Bytes} {mc : Nat} (hw : WFState st)
    (h : step st d mc = (.cont r s, o)) (hr : r ≠ []) :
    run st d mc = { run s r mc with out := o ++ (run s r mc).out } :=
  run_cont_of_guard h hr (step_cont hw h).2.2

/-- From a well-formed state the loop never hits a panic site, the progress guard never fails,
it ends in a well-formed state, and what is left is a suffix of the data. -/
theorem run_ok {st : State} (d : Bytes) (mc : Nat) (hw : WFState st) :
    (run st d mc).panic = none ∧ WFState (run st d mc).st ∧ IsSuffix (run st d mc).rem d := by
  induction hm : 2 * d.length + rank st using Nat.strongRecOn generalizing st d with
  | _ m ih =>
    subst hm
    cases hf : st.isFinal with
    | true => rw [run_final d mc hf]; exact ⟨rfl, hw, IsSuffix.refl _⟩
    | false =>
      cases h : step st d mc with
      | mk f o =>
        cases f with
        | panic s => exact (step_no_panic hw h).elim
        | brk r s =>
          obtain ⟨hws, hsuf⟩ := step_brk hw h
          rw [run_brk hf h]; exact ⟨rfl, hws, hsuf⟩
        | cont r s =>
          obtain ⟨hws, hsuf, hg⟩ := step_cont hw h
          by_cases hr : r = []
          · subst hr; rw [run_cont_empty h]; exact ⟨rfl, hws, hsuf⟩
          · rw [run_cont hw h hr]
            have hrank := rank_le_one s
            have hrank' := rank_le_one st
            obtain ⟨a, b, c⟩ := ih (2 * r.length + rank s) (by omega) r hws rfl
            exact ⟨a, b, c.trans hsuf⟩

/-! ## `request::Parser` -/

/-- Bookkeeping invariant of the parser object: `input_len ≤ input.len()`, a well-formed state,
and the minimum buffer size. -/
def PInv (p : Parser) : Prop := p.input.length ≤ p.cap ∧ WFState p.state ∧ 24 ≤ p.cap

theorem alignedBufsize_ge (b : Nat) : 24 ≤ alignedBufsize b := by
  unfold alignedBufsize; split
  · exact Nat.le_refl _
  · split <;> omega

theorem new_inv (b mc : Nat) : PInv (Parser.new b mc) :=
  ⟨Nat.zero_le _, trivial, alignedBufsize_ge b⟩

theorem fromParser_inv {cap : Nat} {input : Bytes} (mc : Nat) (h1 : input.length ≤ cap)
    (h2 : 24 ≤ cap) : PInv (Parser.fromParser cap input mc) := ⟨h1, trivial, h2⟩

/-- Under the invariant, every call within the offered buffer space takes the normal path:
`parse` is `run` on the concatenated input followed by the stuck-on-input check. -/
theorem parse_eq {p : Parser} {new : Bytes} (hp : PInv p) (hn : new.length ≤ p.free) :
    p.parse new =
      (if (!(run p.state (p.input ++ new) p.maxConns).st.isFinal &&
            (run p.state (p.input ++ new) p.maxConns).rem.length == p.cap) = true then
        ({ p with input := (run p.state (p.input ++ new) p.maxConns).rem,
                  state := .fatal .stuckOnInput },
          some { done := true, output := (run p.state (p.input ++ new) p.maxConns).out })
      else
        ({ p with input := (run p.state (p.input ++ new) p.maxConns).rem,
                  state := (run p.state (p.input ++ new) p.maxConns).st },
          some { done := (run p.state (p.input ++ new) p.maxConns).st.isFinal,
                 output := (run p.state (p.input ++ new) p.maxConns).out })) := by
  obtain ⟨h1, hw, h24⟩ := hp
  obtain ⟨hpanic, _, hsuf⟩ := run_ok (p.input ++ new) p.maxConns hw
  have hle := hsuf.length_le
  unfold Parser.free at hn
  unfold Parser.parse
  rw [if_neg (by omega)]
  simp only [hpanic]
  rw [if_neg (by omega)]

end Fcgi.Req
