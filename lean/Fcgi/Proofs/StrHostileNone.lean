import Fcgi.Proofs.StrHostileOps
import Fcgi.Proofs.LoopAppend
/-!
# The hostile-input simulation of `Proofs/StrHostile.lean` for a parser with NO active stream

`StrHostile` needs `Match E p` (`p.stream = some E.s`, `E.s` an input stream of the role).  Here `MatchN E p`:
`p.stream = none` and `E.s = 0` — a stream type that is no input stream, so that `hclass E` / `rclass E` classify
every own-id input-stream record as noise (`pass skip []`), which is what `parse_head` does with no active stream
(`cmp_input_streams(_, None) = Less`).  The declarations up to `loop_riN` are the ones of `StrHostile.lean` that depend
on `Match`, copied with `Match` replaced (text transformation; only `parseHead_hclassN` has a new proof in its
input-stream branch).  Then: one `parse` call and operation histories at the level of the PARSER (replies, unread
bytes, verdict) — with no active stream the status of every call is `stream_end = true`, so the status clauses of
`RI` are applied to a status with `stream_end = false` and transferred with `loop_res` (the parser a loop leaves does
not depend on the status it is given).
-/
namespace Fcgi.Str
open Fcgi Fcgi.Req Fcgi.Spec

/-- The parser belongs to the configuration `E` (request id, role, active stream, `max_conns`). -/
structure MatchN (E : Cfg) (p : Parser) : Prop where
  id : p.request.id = E.id
  role : p.request.role = E.role
  strm : p.stream = none
  mc : p.maxConns = E.mc
  s0 : E.s = 0

theorem MatchN.of_eq {E : Cfg} {p p' : Parser} (h : MatchN E p) (e1 : p'.request = p.request)
    (e2 : p'.stream = p.stream) (e3 : p'.maxConns = p.maxConns) : MatchN E p' :=
  ⟨by rw [e1]; exact h.id, by rw [e1]; exact h.role, by rw [e2]; exact h.strm,
   by rw [e3]; exact h.mc, h.s0⟩

/-- **Header classification.**  In front of 8 header bytes at a record boundary, `parse_head`
does what `hclass` says: `Err` for a foreign version or an own-id `AbortRequest` (header left in
place), `stream_end` for an own-id empty record of the active stream or a record of a later stream
(header left in place), and otherwise it consumes the header, queues `o` and enters `st`. -/
theorem parseHead_hclassN {E : Cfg} {p : Parser} (hm : MatchN E p)
    {b0 b1 b2 b3 b4 b5 b6 b7 : UInt8} {rest : Bytes}
    (hraw : p.raw = b0 :: b1 :: b2 :: b3 :: b4 :: b5 :: b6 :: b7 :: rest)
    (dest : Option Nat) (res : Status) :
    match hclass E b0 b1 b2 b3 b4 b5 with
    | .stop .more => False
    | .stop .eos => HeldBack p
    | .stop (.err e) => headErr p.raw p.request.id = some e
    | .pass st o => HeadCont p dest res rest (be16 b4 b5) b6.toNat st o (parseHead p dest res) := by
  by_cases hv : b0.toNat ≠ 1
  · have hc : hclass E b0 b1 b2 b3 b4 b5 = .stop (.err (.unknownVersion b0)) := by
      simp only [hclass, if_pos hv]
    rw [hc]
    simp only [headErr, hraw, fromBytes8, if_pos hv]
  · by_cases hval : RT.valid b1.toNat = false
    · have hc : hclass E b0 b1 b2 b3 b4 b5 = .pass .skip (UnknownType.toRecord b1 (be16 b2 b3)) := by
        simp only [hclass, if_neg hv, if_pos hval]
      rw [hc]
      simp only [parseHead, hraw, fromBytes8, if_neg hv, hval, Bool.not_false, if_true]
      exact ⟨_, _, rfl, rfl, rfl, rfl, rfl, rfl, rfl, rfl, rfl, rfl, rfl, rfl⟩
    · have hval' : RT.valid b1.toNat = true := by simpa using hval
      have hfb : RecordHeader.fromBytes [b0, b1, b2, b3, b4, b5, b6, b7] =
          some (.ok { rtype := b1.toNat, requestId := be16 b2 b3, contentLength := be16 b4 b5,
                      paddingLength := b6.toNat }) := by
        rw [fromBytes8, if_neg hv]
        simp only [hval', Bool.not_true, Bool.false_eq_true, if_false]
      by_cases hin : RT.isInputStream b1.toNat = true ∧ be16 b2 b3 = E.id
      · have hinb : (RT.isInputStream b1.toNat && be16 b2 b3 == p.request.id) = true := by
          rw [hm.id]; simp [hin.1, hin.2]
        have hs : ¬ b1.toNat = E.s := by
          intro hs
          rw [hm.s0] at hs
          have h1 := hin.1
          rw [hs] at h1
          exact absurd h1 (by decide)
        have hl : ¬ Later E.role (some E.s) b1.toNat := by
          intro hl
          have h1 := hl.1
          have h2 := hl.2
          have h3 : rankOf E.role none ≤ rankOf E.role (some E.s) := by
            rw [hm.s0]
            have hnm : (0 : Nat) ∉ inputStreams E.role := fun hmem => by
              have := mem_inputStreams_isInput hmem
              exact absurd this (by decide)
            show (inputStreams E.role).length ≤ (inputStreams E.role).idxOf 0
            exact Nat.le_of_not_lt (fun hlt => hnm (List.idxOf_lt_length_iff.1 hlt))
          have := rankOf_le_none E.role (some b1.toNat)
          omega
        have hc : hclass E b0 b1 b2 b3 b4 b5 = .pass .skip [] := by
          simp only [hclass, if_neg hv, if_neg hval, if_pos hin, if_neg hs, if_neg hl]
        rw [hc]
        have hcmp' : cmpInputStreams p.request.role b1.toNat p.stream = some .lt := by
          rw [hm.strm]; rfl
        simp only [parseHead, hraw, hfb, hinb, if_true, hcmp']
        exact ⟨_, _, rfl, rfl, rfl, rfl, rfl, by simp, rfl, rfl, rfl, rfl, rfl, rfl⟩
      · have hinb : (RT.isInputStream b1.toNat && be16 b2 b3 == p.request.id) = false := by
          rw [hm.id]
          cases hi : RT.isInputStream b1.toNat with
          | false => rfl
          | true =>
            simp only [Bool.true_and, beq_eq_false_iff_ne, ne_eq]
            exact fun he => hin ⟨hi, he⟩
        by_cases hab : b1.toNat = RT.abortRequest ∧ be16 b2 b3 = E.id
        · have hc : hclass E b0 b1 b2 b3 b4 b5 = .stop (.err .abortRequest) := by
            simp only [hclass, if_neg hv, if_neg hval, if_neg hin, if_pos hab]
          rw [hc]
          have habb : (b1.toNat == RT.abortRequest && be16 b2 b3 == p.request.id) = true := by
            rw [hm.id]; simp [hab.1, hab.2]
          simp only [headErr, hraw, hfb, hinb, Bool.false_eq_true, if_false, habb, if_true]
        · have habb : (b1.toNat == RT.abortRequest && be16 b2 b3 == p.request.id) = false := by
            rw [hm.id]
            cases ha : b1.toNat == RT.abortRequest with
            | false => rfl
            | true =>
              simp only [beq_iff_eq] at ha
              simp only [Bool.true_and, beq_eq_false_iff_ne, ne_eq]
              exact fun he => hab ⟨ha, he⟩
          by_cases hbg : b1.toNat = RT.beginRequest ∧ be16 b2 b3 ≠ E.id
          · have hc : hclass E b0 b1 b2 b3 b4 b5 = .pass .skip
                (EndRequest.toRecord { appStatus := 0, protocolStatus := 1 } (be16 b2 b3)) := by
              simp only [hclass, if_neg hv, if_neg hval, if_neg hin, if_neg hab, if_pos hbg]
            rw [hc]
            have hbgb : (b1.toNat == RT.beginRequest && be16 b2 b3 != p.request.id) = true := by
              rw [hm.id]; simp [hbg.1, hbg.2]
            simp only [parseHead, hraw, hfb, hinb, Bool.false_eq_true, if_false, habb, hbgb, if_true]
            exact ⟨_, _, rfl, rfl, rfl, rfl, rfl, rfl, rfl, rfl, rfl, rfl, rfl, rfl⟩
          · have hbgb : (b1.toNat == RT.beginRequest && be16 b2 b3 != p.request.id) = false := by
              rw [hm.id]
              cases ha : b1.toNat == RT.beginRequest with
              | false => rfl
              | true =>
                simp only [beq_iff_eq] at ha
                simp only [Bool.true_and, bne_eq_false_iff_eq]
                exact Classical.byContradiction fun he => hbg ⟨ha, he⟩
            by_cases hgv : b1.toNat = RT.getValues ∧ be16 b2 b3 = 0
            · have hc : hclass E b0 b1 b2 b3 b4 b5 = .pass (.values 0) [] := by
                simp only [hclass, if_neg hv, if_neg hval, if_neg hin, if_neg hab, if_neg hbg,
                  if_pos hgv]
              rw [hc]
              have hgvb : (b1.toNat == RT.getValues && RecordHeader.isManagement { rtype := b1.toNat, requestId := be16 b2 b3, contentLength := be16 b4 b5, paddingLength := b6.toNat }) = true := by
                simp [RecordHeader.isManagement, hgv.1, hgv.2, RT.getValues, RT.isManagement]
              simp only [parseHead, hraw, hfb, hinb, Bool.false_eq_true, if_false, habb, hbgb, hgvb,
                if_true]
              exact ⟨_, _, rfl, rfl, rfl, rfl, rfl, by simp, rfl, rfl, rfl, rfl, rfl, rfl⟩
            · have hc : hclass E b0 b1 b2 b3 b4 b5 = .pass .skip [] := by
                simp only [hclass, if_neg hv, if_neg hval, if_neg hin, if_neg hab, if_neg hbg,
                  if_neg hgv]
              rw [hc]
              have hgvb : (b1.toNat == RT.getValues && RecordHeader.isManagement { rtype := b1.toNat, requestId := be16 b2 b3, contentLength := be16 b4 b5, paddingLength := b6.toNat }) = false := by
                cases ha : b1.toNat == RT.getValues with
                | false => rfl
                | true =>
                  simp only [beq_iff_eq] at ha
                  simp only [Bool.true_and, RecordHeader.isManagement, Bool.and_eq_false_iff,
                    beq_eq_false_iff_ne, ne_eq]
                  exact Or.inr fun he => hgv ⟨ha, he⟩
              simp only [parseHead, hraw, hfb, hinb, Bool.false_eq_true, if_false, habb, hbgb, hgvb]
              exact ⟨_, _, rfl, rfl, rfl, rfl, rfl, by simp, rfl, rfl, rfl, rfl, rfl, rfl⟩

/-- `ref` of what is still to come is constant along a call, up to what was delivered / queued
so far: `T` is the target (content, replies, verdict, unread of the whole call). -/
def RIN (E : Cfg) (fut : Bytes) (b : Bool) (T : RefOut) (p : Parser) (res : Status) : Prop :=
  MatchN E p ∧
  got b p res ++ (ref E p.state p.pay p.pad (p.raw ++ fut)).content = T.content ∧
  p.output ++ (ref E p.state p.pay p.pad (p.raw ++ fut)).out = T.out ∧
  (ref E p.state p.pay p.pad (p.raw ++ fut)).verdict = T.verdict ∧
  (ref E p.state p.pay p.pad (p.raw ++ fut)).unread = T.unread ∧
  (res.streamEnd = true → p.pay = 0 ∧ p.pad = 0 ∧ AtStopHdr E p.raw .eos)

theorem RIN.step {E : Cfg} {fut : Bytes} {b : Bool} {T : RefOut} {p : Parser} {res : Status}
    (h : RIN E fut b T p res) (hne : ¬ res.streamEnd = true)
    {p' : Parser} {res' : Status} {d o : Bytes} {st' : SState} {pay' pad' : Nat} {raw' : Bytes}
    (e1 : p'.request = p.request) (e2 : p'.stream = p.stream) (e3 : p'.maxConns = p.maxConns)
    (es : p'.state = st') (ep : p'.pay = pay') (epd : p'.pad = pad') (er : p'.raw = raw')
    (hg : got b p' res' = got b p res ++ d) (ho : p'.output = p.output ++ o)
    (href : ref E p.state p.pay p.pad (p.raw ++ fut) = (ref E st' pay' pad' (raw' ++ fut)).pre d o)
    (hse : res'.streamEnd = res.streamEnd) : RIN E fut b T p' res' := by
  obtain ⟨hm, hC, hO, hV, hU, -⟩ := h
  rw [href] at hC hO hV hU
  unfold RIN
  rw [es, ep, epd, er]
  refine ⟨hm.of_eq e1 e2 e3, ?_, ?_, hV, hU, ?_⟩
  · rw [hg, List.append_assoc]; exact hC
  · rw [ho, List.append_assoc]; exact hO
  · intro h'; rw [hse] at h'; exact absurd h' hne

/-- What one step of the loop body keeps. -/
def StepRIN (E : Cfg) (fut : Bytes) (T : RefOut) (dest : Option Nat) : Iter → Prop
  | .cont p' _ r' => RIN E fut dest.isSome T p' r'
  | .stop p' r' => RIN E fut dest.isSome T p' r' ∧ (dest.isSome = false → Terminal E p')
  | .err p' e => (∃ r', RIN E fut dest.isSome T p' r') ∧ p'.pay = 0 ∧ p'.pad = 0 ∧
      AtStopHdr E p'.raw (.err e)
  | .panic _ => False

theorem StepRIN.ite {E fut T dest} {cnd : Prop} [Decidable cnd] {p2 : Parser}
    {d2 : Option Nat} {r2 : Status} (hI : RIN E fut dest.isSome T p2 r2)
    (hL : ¬ cnd → dest.isSome = false → Terminal E p2) :
    StepRIN E fut T dest (if cnd then .cont p2 d2 r2 else .stop p2 r2) := by
  split
  · exact hI
  · rename_i hc; exact ⟨hI, hL hc⟩

/-- **`parse_payload` keeps the invariant.** -/
theorem parsePayload_riN {E fut T} (p : Parser) (dest : Option Nat) (res : Status)
    (h : RIN E fut dest.isSome T p res) (hpay : 0 < p.pay) :
    StepRIN E fut T dest (parsePayload p dest res) := by
  have hne : ¬ res.streamEnd = true := fun hs => by have := (h.2.2.2.2.2 hs).1; omega
  unfold parsePayload
  cases hst : p.state with
  | stream =>
    have hnv : ∀ v, SState.stream ≠ .values v := fun v hv => by cases hv
    cases dest with
    | some cap =>
      simp only []
      split
      · exfalso; omega
      · have hk1 : min (min p.pay p.raw.length) cap ≤ p.pay := by omega
        have hk2 : min (min p.pay p.raw.length) cap ≤ p.raw.length := by omega
        refine StepRIN.ite ?_ (fun _ hd => by cases hd)
        refine h.step hne (d := p.raw.take (min (min p.pay p.raw.length) cap)) (o := [])
          rfl rfl rfl rfl rfl rfl rfl ?_ (by simp) ?_ rfl
        · simp only [got, Option.isSome_some, if_true, List.take_take]
          rw [Nat.min_eq_left (Nat.min_le_left _ _)]
        · rw [hst]; exact ref_adv_raw E hnv p.pad p.raw fut hk1 hk2
    | none =>
      simp only []
      split
      · exfalso; omega
      · have hk1 : min p.pay p.raw.length ≤ p.pay := by omega
        have hk2 : min p.pay p.raw.length ≤ p.raw.length := by omega
        refine StepRIN.ite ?_ ?_
        · refine h.step hne (d := p.raw.take (min p.pay p.raw.length)) (o := [])
            rfl rfl rfl rfl rfl rfl rfl ?_ (by simp) ?_ rfl
          · simp [got]
          · rw [hst]; exact ref_adv_raw E hnv p.pad p.raw fut hk1 hk2
        · intro hc _
          simp only [Bool.and_eq_true, beq_iff_eq, decide_eq_true_eq] at hc
          exact Or.inl (List.drop_eq_nil_of_le (by omega))
  | skip =>
    have hnv : ∀ v, SState.skip ≠ .values v := fun v hv => by cases hv
    simp only []
    split
    · exfalso; omega
    · have hk1 : min p.pay p.raw.length ≤ p.pay := by omega
      have hk2 : min p.pay p.raw.length ≤ p.raw.length := by omega
      refine StepRIN.ite ?_ ?_
      · refine h.step hne (d := []) (o := []) rfl rfl rfl rfl rfl rfl rfl ?_ (by simp) ?_ rfl
        · cases dest <;> simp [got]
        · rw [hst]; exact ref_adv_raw E hnv p.pad p.raw fut hk1 hk2
      · intro hc _
        simp only [Bool.and_eq_true, beq_iff_eq, decide_eq_true_eq] at hc
        exact Or.inl (List.drop_eq_nil_of_le (by omega))
  | values v =>
    by_cases hlt : p.raw.length < p.pay
    · have hmin : min p.pay p.raw.length = p.raw.length := by omega
      have hrest := nvall_rest_le p.raw
      obtain ⟨a0, ha0⟩ := C16.rest_suffix p.raw
      have hdrop : p.raw.drop (p.raw.length - (NV.all p.raw).2.length) = (NV.all p.raw).2 := by
        have hl : p.raw.length - (NV.all p.raw).2.length = a0.length := by
          have := congrArg List.length ha0
          simp only [List.length_append] at this; omega
        rw [hl]
        conv => lhs; rw [ha0]
        exact List.drop_left
      simp only [hlt, if_true, hmin, List.take_length]
      split
      · exfalso; omega
      · split
        · rename_i hc
          exfalso
          simp only [Bool.and_eq_true, beq_iff_eq, decide_eq_true_eq] at hc
          omega
        · refine ⟨h.step hne (d := []) (o := []) rfl rfl rfl rfl rfl rfl rfl ?_ (by simp) ?_ rfl, ?_⟩
          · cases dest <;> simp [got]
          · rw [hst, hdrop]; exact ref_values_more E v p.pad p.raw fut hlt
          · intro _
            refine Or.inr (Or.inr ⟨_, rfl, ?_, ?_⟩)
            · simp only [hdrop]; omega
            · simp only [hdrop]; exact C16.stops_for_good p.raw
    · have hmin : min p.pay p.raw.length = p.pay := by omega
      simp only [hlt, if_false, hmin]
      split
      · exfalso; omega
      · refine StepRIN.ite ?_ ?_
        · refine h.step hne (d := [])
            (o := Vars.responseRecord (Vars.extend v (NV.all (p.raw.take p.pay)).1) p.maxConns)
            rfl rfl rfl rfl rfl rfl rfl ?_ rfl ?_ rfl
          · cases dest <;> simp [got]
          · rw [hst, h.1.mc, Nat.sub_self]
            exact ref_values_done_raw E v _ p.pad p.raw fut hpay (by omega)
        · intro hc _
          simp only [Bool.and_eq_true, beq_iff_eq, decide_eq_true_eq] at hc
          exact Or.inl (List.drop_eq_nil_of_le (by omega))

/-- **`parse_head` keeps the invariant**; `Err e` exactly in front of a header classified
`stop (err e)`, `stream_end` exactly in front of one classified `stop eos`. -/
theorem parseHead_riN {E fut T} (q : Parser) (d : Option Nat) (r : Status) (hpay : q.pay = 0)
    (hpad : q.pad = 0) (h : RIN E fut d.isSome T q r) : StepRIN E fut T d (parseHead q d r) := by
  by_cases hlen : q.raw.length < 8
  · rw [parseHead_short hlen]
    exact ⟨h, fun _ => Or.inr (Or.inl ⟨hpay, hpad, Or.inl hlen⟩)⟩
  · obtain ⟨b0, b1, b2, b3, b4, b5, b6, b7, rest, hraw⟩ := cons8_of_len hlen
    have hh := parseHead_hclassN h.1 hraw d r
    cases hc : hclass E b0 b1 b2 b3 b4 b5 with
    | stop v =>
      rw [hc] at hh
      have hat : AtStopHdr E q.raw v := ⟨b0, b1, b2, b3, b4, b5, b6, b7, rest, hraw, hc⟩
      cases v with
      | more => exact hh.elim
      | eos =>
        rw [parseHead_held hh]
        obtain ⟨hm, hC, hO, hV, hU, -⟩ := h
        exact ⟨⟨hm, hC, hO, hV, hU, fun _ => ⟨hpay, hpad, hat⟩⟩,
          fun _ => Or.inr (Or.inl ⟨hpay, hpad, Or.inr ⟨_, hat⟩⟩)⟩
      | err e =>
        rw [parseHead_of_headErr d r hh]
        exact ⟨⟨r, h⟩, hpay, hpad, hat⟩
    | pass st o =>
      rw [hc] at hh
      have hne : ¬ r.streamEnd = true := fun hs => by
        obtain ⟨c0, c1, c2, c3, c4, c5, c6, c7, rest', he, hc'⟩ := (h.2.2.2.2.2 hs).2.2
        rw [hraw] at he
        simp only [List.cons.injEq] at he
        obtain ⟨rfl, rfl, rfl, rfl, rfl, rfl, rfl, rfl, rfl⟩ := he
        rw [hc] at hc'; cases hc'
      obtain ⟨p', r', hit, e1, e2, e3, e4, e5, e6, e7, e8, e9, e10, e11⟩ := hh
      rw [hit]
      refine h.step hne (d := []) (o := o) e7 e8 e9 e4 e2 e3 e1 ?_ e5 ?_ e11
      · simp [got, e6, e10]
      · rw [hpay, hpad, hraw]
        simp only [List.cons_append]
        rw [ref_hdr, hc]

theorem StepRIN.trans {E fut T} {p q : Parser} {dest d : Option Nat} {res r : Status} {it : Iter}
    (hrel : Rel p dest res q d r) (h : StepRIN E fut T d it) : StepRIN E fut T dest it := by
  cases it with
  | cont p' d' r' => simp only [StepRIN] at h ⊢; rw [← hrel.dsome]; exact h
  | stop p' r' => simp only [StepRIN] at h ⊢; rw [← hrel.dsome]; exact h
  | err p' e => simp only [StepRIN] at h ⊢; rw [← hrel.dsome]; exact h
  | panic s => exact h

/-- The padding step followed by `parse_head`. -/
theorem padHead_riN {E fut T} (q : Parser) (d : Option Nat) (r : Status) (hpay : q.pay = 0)
    (h : RIN E fut d.isSome T q r) :
    StepRIN E fut T d
      (if q.pad > 0 then
        if q.raw.length ≤ q.pad then
          .stop { q with raw := [], g1 := q.g1 + q.raw.length, pad := q.pad - q.raw.length } r
        else parseHead { q with raw := q.raw.drop q.pad, g1 := q.g1 + q.pad, pad := 0 } d r
      else parseHead q d r) := by
  split
  · rename_i hpos
    have hne : ¬ r.streamEnd = true := fun hs => by have := (h.2.2.2.2.2 hs).2.1; omega
    split
    · rename_i hle
      refine ⟨h.step hne (d := []) (o := []) rfl rfl rfl rfl rfl rfl rfl ?_ (by simp) ?_ rfl,
        fun _ => Or.inl rfl⟩
      · cases d <;> simp [got]
      · rw [hpay]
        have := ref_adv_pad_raw E q.state q.state q.raw fut hle (Nat.le_refl _)
        rw [List.drop_length] at this
        rw [this]; rfl
    · rename_i hgt
      refine parseHead_riN _ d r hpay rfl ?_
      refine h.step hne (d := []) (o := []) rfl rfl rfl rfl rfl rfl rfl ?_ (by simp) ?_ rfl
      · cases d <;> simp [got]
      · rw [hpay]
        have := ref_adv_pad_raw E q.state q.state q.raw fut (Nat.le_refl q.pad) (by omega)
        rw [Nat.sub_self] at this
        rw [this]; rfl
  · exact parseHead_riN q d r hpay (by omega) h

/-- **One iteration of the loop body keeps the invariant.** -/
theorem iter_riN {E fut T} (p : Parser) (dest : Option Nat) (res : Status)
    (h : RIN E fut dest.isSome T p res) : StepRIN E fut T dest (iter p dest res) := by
  unfold iter
  by_cases hpay : p.pay > 0
  · simp only [hpay, if_true]
    have hp := parsePayload_riN p dest res h hpay
    have hg := parsePayload_good p dest res
    cases hpp : parsePayload p dest res with
    | cont q d r =>
      rw [hpp] at hp hg
      obtain ⟨hrel, -, hq, -⟩ := hg
      simp only [StepRIN] at hp
      rw [← hrel.dsome] at hp
      exact StepRIN.trans hrel (padHead_riN q d r hq hp)
    | stop q r => rw [hpp] at hp; exact hp
    | err q e => rw [hpp] at hp; exact hp
    | panic s => rw [hpp] at hp; exact hp.elim
  · simp only [hpay, if_false]
    exact padHead_riN p dest res (by omega) h

/-- What the loop returns. -/
def LoopRIN (E : Cfg) (fut : Bytes) (T : RefOut) (dest : Option Nat) : Parser × ParseRes → Prop
  | (p', .ok st) => RIN E fut dest.isSome T p' st ∧ (dest.isSome = false → Terminal E p')
  | (p', .err e) => (∃ r', RIN E fut dest.isSome T p' r') ∧ p'.pay = 0 ∧ p'.pad = 0 ∧
      AtStopHdr E p'.raw (.err e)
  | (_, .panic _) => False

theorem LoopRIN.trans {E fut T} {p q : Parser} {dest d : Option Nat} {res r : Status}
    {out : Parser × ParseRes} (hrel : Rel p dest res q d r) (h : LoopRIN E fut T d out) :
    LoopRIN E fut T dest out := by
  obtain ⟨p', pr⟩ := out
  cases pr with
  | ok st => simp only [LoopRIN] at h ⊢; rw [← hrel.dsome]; exact h
  | err e => simp only [LoopRIN] at h ⊢; rw [← hrel.dsome]; exact h
  | panic s => exact h

/-- **The loop keeps the invariant.** -/
theorem loop_riN {E fut T} (p : Parser) (dest : Option Nat) (res : Status)
    (h : RIN E fut dest.isSome T p res) : LoopRIN E fut T dest (loop p dest res) := by
  generalize hn : p.raw.length = n
  induction n using Nat.strongRecOn generalizing p dest res with
  | _ n ih =>
    rw [loop]
    split
    · rename_i hemp
      simp only [List.isEmpty_iff] at hemp
      exact ⟨h, fun _ => Or.inl hemp⟩
    · have hi := iter_riN p dest res h
      have hg := iter_good p dest res
      cases hit : iter p dest res with
      | cont p' d' r' =>
        rw [hit] at hi hg
        obtain ⟨h1, h2, -⟩ := hg
        simp only [if_pos h2]
        simp only [StepRIN] at hi
        rw [← h1.dsome] at hi
        exact LoopRIN.trans h1 (ih _ (by omega) p' d' r' hi rfl)
      | stop p' r' => rw [hit] at hi; exact hi
      | err p' e => rw [hit] at hi; exact hi
      | panic s => rw [hit] at hi; exact hi.elim

/-! ## One `parse` call and operation histories, at the level of the parser -/

/-- **One legal `parse` call with no active stream**, at the level of the parser: the replies queued by the call and
the reference on what is still to come add up to the reference before the call; verdict and unread remainder are
those of the reference; a call into the internal buffer ends in a terminal state. -/
theorem parse_riN {E : Cfg} {fut : Bytes} {p : Parser} {new : Bytes} {dest : Option Nat}
    (hm : MatchN E p) (hinv : SInv p) (hd : dest = none ∨ p.parsed = []) (hfree : new.length ≤ p.free) :
    MatchN E (p.parse new dest).1 ∧
    C03S.outGrowth p (.parse new dest) ++ (Rem E (p.parse new dest).1 fut).out = (Rem E p (new ++ fut)).out ∧
    (Rem E (p.parse new dest).1 fut).verdict = (Rem E p (new ++ fut)).verdict ∧
    (Rem E (p.parse new dest).1 fut).unread = (Rem E p (new ++ fut)).unread ∧
    (dest = none → Terminal E (p.parse new dest).1) := by
  have hfr := parse_frame p new dest
  obtain ⟨-, -, -, -, -, ⟨o, ho⟩, -⟩ := hfr
  have hog : C03S.outGrowth p (.parse new dest) = o := by
    simp only [C03S.outGrowth]; rw [← ho, List.drop_left]
  have hI : RIN E fut dest.isSome
      ((ref E p.state p.pay p.pad (p.raw ++ (new ++ fut))).pre
        (got dest.isSome (p.feed new) { stream := 0, streamEnd := false, output := 0, delivered := [] }) p.output)
      (p.feed new) { stream := 0, streamEnd := false, output := 0, delivered := [] } := by
    refine ⟨hm.of_eq rfl rfl rfl, ?_, ?_, ?_, ?_, fun h => ?_⟩
    · simp only [Parser.feed, List.append_assoc]; rfl
    · simp only [Parser.feed, List.append_assoc]; rfl
    · simp only [Parser.feed, List.append_assoc]; rfl
    · simp only [Parser.feed, List.append_assoc]; rfl
    · cases h
  have hl := loop_riN (p.feed new) dest _ hI
  have hres := loop_res _ (p.feed new) dest (initStatus p)
    { stream := 0, streamEnd := false, output := 0, delivered := [] } (Nat.le_refl _)
  have hpq : (p.parse new dest).1 =
      (loop (p.feed new) dest { stream := 0, streamEnd := false, output := 0, delivered := [] }).1 := by
    rw [parse_eq_loop p new dest hinv.1 hd hfree]; exact hres.1
  have key : ∀ (p' : Parser) (r' : Status), (p.parse new dest).1 = p' →
      RIN E fut dest.isSome
        ((ref E p.state p.pay p.pad (p.raw ++ (new ++ fut))).pre
          (got dest.isSome (p.feed new) { stream := 0, streamEnd := false, output := 0, delivered := [] }) p.output)
        p' r' →
      MatchN E (p.parse new dest).1 ∧
      C03S.outGrowth p (.parse new dest) ++ (Rem E (p.parse new dest).1 fut).out = (Rem E p (new ++ fut)).out ∧
      (Rem E (p.parse new dest).1 fut).verdict = (Rem E p (new ++ fut)).verdict ∧
      (Rem E (p.parse new dest).1 fut).unread = (Rem E p (new ++ fut)).unread := by
    rintro p' r' e ⟨hm', -, hO, hV, hU, -⟩
    subst e
    refine ⟨hm', ?_, hV, hU⟩
    rw [hog]
    rw [← ho] at hO
    simp only [RefOut.pre_out, List.append_assoc] at hO
    exact List.append_cancel_left hO
  cases hlr : loop (p.feed new) dest { stream := 0, streamEnd := false, output := 0, delivered := [] } with
  | mk p' pr =>
    rw [hlr] at hl hpq
    simp only at hpq
    cases pr with
    | panic s => exact hl.elim
    | ok st =>
      obtain ⟨hri, hterm⟩ := hl
      obtain ⟨k1, k2, k3, k4⟩ := key p' st hpq hri
      exact ⟨k1, k2, k3, k4, fun hdn => by subst hdn; rw [hpq]; exact hterm rfl⟩
    | err e =>
      obtain ⟨⟨r', hri⟩, h1, h2, h3⟩ := hl
      obtain ⟨k1, k2, k3, k4⟩ := key p' r' hpq hri
      exact ⟨k1, k2, k3, k4, fun _ => by rw [hpq]; exact Or.inr (Or.inl ⟨h1, h2, Or.inr ⟨_, h3⟩⟩)⟩

/-- **Operation histories with no active stream** (no `set_stream`): all replies generated, followed by the
reference's replies for what is still to come, are the reference's replies for everything fed and to be fed; verdict
and unread remainder likewise. -/
theorem ops_refN {E : Cfg} {x : Bytes} : ∀ (ops : List Op) (p : Parser), MatchN E p → SInv p → LegalAll p ops → NoSet ops →
    MatchN E (applyOps p ops) ∧ SInv (applyOps p ops) ∧
    C03S.grownAll p ops ++ (Rem E (applyOps p ops) x).out = (Rem E p (fedBytes ops ++ x)).out ∧
    (Rem E (applyOps p ops) x).verdict = (Rem E p (fedBytes ops ++ x)).verdict ∧
    (Rem E (applyOps p ops) x).unread = (Rem E p (fedBytes ops ++ x)).unread := by
  intro ops
  induction ops with
  | nil => intro p hm hinv _ _; exact ⟨hm, hinv, rfl, rfl, rfl⟩
  | cons op t ih =>
    intro p hm hinv hl hns
    have hnt : NoSet t := fun s hs => hns s (List.mem_cons_of_mem _ hs)
    have hi1 := (step_safe hinv hl.1).1
    cases op with
    | parse new dest =>
      obtain ⟨m1, o1, v1, u1, -⟩ := parse_riN (E := E) (fut := fedBytes t ++ x) hm hinv hl.1.1 hl.1.2
      obtain ⟨m2, i2, o2, v2, u2⟩ := ih _ m1 hi1 hl.2 hnt
      have e : applyOp p (.parse new dest) = (p.parse new dest).1 := rfl
      refine ⟨m2, i2, ?_, ?_, ?_⟩
      · show C03S.outGrowth p (.parse new dest) ++ C03S.grownAll (p.parse new dest).1 t ++
            (Rem E (applyOps (p.parse new dest).1 t) x).out = (Rem E p ((new ++ fedBytes t) ++ x)).out
        rw [List.append_assoc, o2, List.append_assoc new]; exact o1
      · rw [show applyOps p (.parse new dest :: t) = applyOps (p.parse new dest).1 t from rfl, v2]
        show _ = (Rem E p ((new ++ fedBytes t) ++ x)).verdict
        rw [List.append_assoc]; exact v1
      · rw [show applyOps p (.parse new dest :: t) = applyOps (p.parse new dest).1 t from rfl, u2]
        show _ = (Rem E p ((new ++ fedBytes t) ++ x)).unread
        rw [List.append_assoc]; exact u1
    | consumeStream amt =>
      obtain ⟨m2, i2, o2, v2, u2⟩ := ih (applyOp p (.consumeStream amt)) (hm.of_eq rfl rfl rfl) hi1 hl.2 hnt
      exact ⟨m2, i2, o2, v2, u2⟩
    | compress =>
      obtain ⟨m2, i2, o2, v2, u2⟩ := ih (applyOp p (.compress)) (hm.of_eq rfl rfl rfl) hi1 hl.2 hnt
      exact ⟨m2, i2, o2, v2, u2⟩
    | consumeOutput amt =>
      obtain ⟨m2, i2, o2, v2, u2⟩ := ih (applyOp p (.consumeOutput amt)) (hm.of_eq rfl rfl rfl) hi1 hl.2 hnt
      exact ⟨m2, i2, o2, v2, u2⟩
    | setStream s => exact absurd List.mem_cons_self (hns s)

/-- a drained parser with no active stream is terminal -/
theorem drained_terminalN {E : Cfg} {p : Parser} (hm : MatchN E p) (hinv : SInv p) (h : Drained p) :
    Terminal E p := by
  have := (parse_riN (E := E) (fut := []) (new := []) (dest := none) hm hinv (Or.inl rfl) (by simp)).2.2.2.2 rfl
  rwa [h] at this

/-- the configuration under which the reference describes a parser with no active stream -/
def cfgN (p : Parser) : Cfg := ⟨p.request.id, p.request.role, 0, p.maxConns⟩

theorem matchN_of_none {p : Parser} (h : p.stream = none) : MatchN (cfgN p) p := ⟨rfl, rfl, h, rfl, rfl⟩

/-- **Drained histories with no active stream ARE the reference**: all replies generated are the reference's replies
for the bytes fed, the unread bytes are the reference's unread remainder, and the state is terminal with the
reference's verdict. -/
theorem drained_outcomeN {p : Parser} (hinv : SInv p) (hs : p.stream = none) (hb : p.pay = 0 ∧ p.pad = 0)
    {ops : List Op} (hl : LegalAll p ops) (hns : NoSet ops) (hdr : Drained (applyOps p ops)) :
    C03S.grownAll p ops = (refWire (cfgN p) (p.raw ++ fedBytes ops)).out ∧
    (applyOps p ops).raw = (refWire (cfgN p) (p.raw ++ fedBytes ops)).unread ∧
    Terminal.verdictIs (cfgN p) (applyOps p ops) (refWire (cfgN p) (p.raw ++ fedBytes ops)).verdict := by
  obtain ⟨m, i, ho, hv, hu⟩ := ops_refN (E := cfgN p) (x := []) ops p (matchN_of_none hs) hinv hl hns
  obtain ⟨v, hr, hvi⟩ := ref_terminal (drained_terminalN m i hdr)
  have hrem : Rem (cfgN p) (applyOps p ops) [] = ⟨[], [], v, (applyOps p ops).raw⟩ := by
    simp only [Rem, List.append_nil]; exact hr
  have hstart : Rem (cfgN p) p (fedBytes ops ++ []) = refWire (cfgN p) (p.raw ++ fedBytes ops) := by
    simp only [Rem, List.append_nil]
    rw [hb.1, hb.2]
    exact ref_eq_refWire _ _ _
  rw [hrem, hstart] at ho hv hu
  simp only [List.append_nil] at ho
  exact ⟨ho, hu, by rw [← hv]; exact hvi⟩

end Fcgi.Str
