import Fcgi.Proofs.E2ENoFuel
import Fcgi.Proofs.E2EWritersChain
/-!
# The two-writer engine (`Proofs/E2EWriters`) without the model-fuel bound (`…N`)

`BR2OKW.hfu : 2·n + wcostAll W + 20 ≤ 1000`, the conjunct `2·n' + wcostAll W + 20 ≤ 1000` of the stage `HB1W` and the
parameter `hfu` of `hwq_pollW` are gone: at every poll of the handler the fuel is `handlerFuel c.env r + scriptOf c`, and
`scriptOf c` dominates the cost of the rounds and writes still in the script (`rounds_cost`, `otail_cost`, `wtail_cost`).
`write_phase2N` asks for `scriptCost h + 1 ≤ fuel`.  Copies by text transformation (suffix `N`) of the lemmas of
`Proofs/E2EWriters` that carried the bound; the write-loop lemmas (`tail_run`, `open_phase2`, `writeAll_run2`) are shared.
-/
namespace Fcgi.E2E
open Fcgi Fcgi.Req Fcgi.Str Fcgi.Async Fcgi.Run Fcgi.Spec Fcgi.C09E

theorem rounds_cost (n k : Nat) : ((rounds n k).map opCost).sum = 2 * n := by
  induction n with
  | zero => rfl
  | succ n ih => simp only [rounds, List.map_cons, List.sum_cons, opCost, ih]; omega

theorem wops_cost (W : WList) : wcostAll W ≤ ((wops W).map opCost).sum := by
  induction W with
  | nil => simp [wops, wcostAll]
  | cons x W ih =>
    have := wcost_le x.2.length
    simp only [wops, wcostAll, List.map_cons, List.sum_cons, opCost] at ih ⊢
    omega

theorem wtail_cost (W : WList) (st : ExitStatus) : wcostAll W + 3 ≤ ((wtail W st).map opCost).sum := by
  have := wops_cost W
  simp only [wtail, List.map_append, List.sum_append, List.map_cons, List.sum_cons, opCost, List.map_nil, List.sum_nil]
  omega

theorem otail_cost (W : WList) (st : ExitStatus) : wcostAll W + 5 ≤ ((otail W st).map opCost).sum := by
  have := wtail_cost W st
  simp only [otail, List.map_cons, List.sum_cons, opCost]
  omega

/-- `BR2OKW` without the model-fuel bound -/
structure BR2OKWN (g : Cfg) (W : WList) (n k : Nat) : Prop where
  wf : WellFormedPreamble g.p g.recs
  role : g.p.role = 1
  pairs : ∀ q ∈ g.p.pairs, (NV.enc q).length ≤ alignedBufsize g.b
  noise : NoiseFits (alignedBufsize g.b) g.recs
  hb : Body g.p.id 5 g.content g.body
  hf : NoiseFits (alignedBufsize g.b) g.body
  hp : g.pad.length < 256
  hX2 : g.X2 = []
  hX : g.X = serAll g.body ++ g.term.ser
  hU : g.U = g.term.ser
  hs : g.hscript = bscriptW n k W g.st

/-- `HB1W` without the fuel conjunct -/
def HB1WN (g : Cfg) (W : WList) (k : Nat) (c : Conn) : Prop :=
  ∃ r n' handed dO shown, c.phase = .handler r { ops := rounds n' k ++ .readAll :: otail W g.st, propagate := true } ∧
    BSt g.K g.L1 [] r c.env.mutex c.env.tr handed dO ∧
    Pos g.R r.sp.raw r.sp.pay r.sp.pad c.env.tr.input ∧
    handed = taken k shown ∧ SlEv shown c.env.tr ∧
    Ben c.env.tr ∧ c.stop = false ∧ Ev1 g c.env.tr ∧ c.scripts = g.more

def S01WN (g : Cfg) (W : WList) (k : Nat) (c : Conn) : Prop := FStage g c ∨ HB1WN g W k c ∨ HA1W g W k c

abbrev R1WN (g : Cfg) (W : WList) (k : Nat) (N : Nat) (c : Conn) : Prop := RQ0W g W (Q1 g k) (S01WN g W k) N c

/-- **One poll of the tail**, the handler suspended in a `write_all`. -/
theorem write_phase2N {id : Nat} {W : WList} {st : ExitStatus} {Lb : Bytes}
    {r : AReq} {h : HState} {e : Run.Env} (hw : HW2 id W st Lb h e) (hb : Ben e.tr)
    {fuel : Nat} (hf : scriptCost h + 1 ≤ fuel) :
    WOut2 id W st Lb r e (handlerPoll fuel r h e) := by
  obtain ⟨ops, sub, wsl, pr⟩ := h
  obtain ⟨hpr, i, data, W', ws, L, sent, hops, hws, hidle, hst, hlog, hL, hc⟩ := hw
  simp only at hpr hops hws hst hL hc
  subst hpr hops hws
  have hW := wtail_cost W' st
  have hwl := wcost_le (restOf sub data).length
  have hf : wcost (restOf sub data).length + wcostAll W' + 4 ≤ fuel := by
    simp only [scriptCost, curCost_writeAll] at hf
    omega
  rcases writeAll_run2 (ty := 6 + i.val) (me := i.val) (id := id) r data (wtail W' st) true (restOf sub data).length fuel sub
      (wtab ws) (ws i) e L sent (by show i.val < 2; exact i.isLt) (wtab_get ws i) (Nat.le_refl _) (by omega) hb hst hlog with
    ⟨w', e', rd', L', sent', d1, d2, d3, d4, d5, d6, d7, d8, d9, d10, d11⟩ |
    ⟨w', e', f', d1, d2, d3, d4, d5, d6, d7, d8⟩
  · rw [d1]
    refine ⟨rfl, d7, d8, d9, Or.inl ⟨rfl, d10, d11, rfl, i, data, W', (fun j => if j = i then w' else ws j), L', sent',
      rfl, wtab_set ws i w', ?_, ?_, d3, ?_, ?_⟩⟩
    · intro j hj; simp only [if_neg hj]; exact hidle j hj
    · simp only [if_true]; exact d5
    · show L' ++ (streamRecords (6 + i.val) id rd' ++ outOf id W') = _
      rw [← List.append_assoc, d4, List.append_assoc]; exact hL
    · show wcost rd'.length + wcostAll W' ≤ wcostAll W
      have : wcost rd'.length ≤ wcost (restOf sub data).length := by unfold wcost; omega
      omega
  · rw [d1, wtab_set]
    have hs1 : TStep e.tr (e'.ev "W=ok").tr := d6.trans (TStep.ev _ (by decide))
    refine (tail_run id r st W Lb W' f' (fun j => if j = i then w' else ws j) (e'.ev "W=ok") (by omega) (hb.step hs1)
      ?_ d5 ?_ (by omega)).after hs1 d7 d8
    · intro j
      by_cases hj : j = i
      · subst hj; simp only [if_true]; exact d4
      · simp only [if_neg hj]; exact hidle j hj
    · show (e'.tr.ev "W=ok").wlog ++ outOf id W' = _
      rw [Transport.ev_wlog, d3, List.append_assoc]; exact hL

/-- **One poll** with the handler in its `write_all`. -/
theorem hwq_pollWN {g : Cfg} {W : WList} {Q : Transport → Prop} {S0 : Conn → Prop} (hQ : MonoQ Q)
    {c : Conn} (h : HWqW g W Q c) : RQ0W g W Q S0 3 c := by
  obtain ⟨r, h, O1, hph, hw, hfin, hO, hseen, hb, hstop, hev, hsc⟩ := h
  have hfuel := handlerFuel_ge c.env r
  have hout := write_phase2N (r := r) hw hb (fuel := (handlerFuel c.env r + scriptOf c)) (by rw [scriptOf_handler hph]; omega)
  exact bwrite_outQW hQ (r := r) (e0 := c.env) hph rfl hout (.refl _) rfl hfin hO hseen hb hstop hev hsc

theorem BR2OKWN.fok {g : Cfg} {W : WList} {n k : Nat} (ok : BR2OKWN g W n k) : FOK g := ⟨ok.wf, ok.pairs, ok.noise⟩

theorem BR2OKWN.hid {g : Cfg} {W : WList} {n k : Nat} (ok : BR2OKWN g W n k) : g.p.id < 65536 := (pid_of_wf ok.wf).2

theorem BR2OKWN.kok {g : Cfg} {W : WList} {n k : Nat} (ok : BR2OKWN g W n k) : g.K.OK := resp_kok ok.hid ok.hb ok.hf ok.hp ok.hX2 ok.hX

theorem BR2OKWN.kfin {g : Cfg} {W : WList} {n k : Nat} (ok : BR2OKWN g W n k) : g.K.final = true := by
  simp [RCtx.final, Cfg.K, ok.role, nextInputStream, RT.stdin]

theorem BR2OKWN.ku {g : Cfg} {W : WList} {n k : Nat} (ok : BR2OKWN g W n k) : g.K.U = g.U := by simp [Cfg.K, ok.hX2, ok.hU]

theorem BR2OKWN.rwf {g : Cfg} {W : WList} {n k : Nat} (ok : BR2OKWN g W n k) : ∀ r ∈ g.R, r.WF := by
  intro r hr
  rcases List.mem_append.1 hr with hr | hr
  · exact body_wf ok.hid ok.hb r hr
  · rw [List.mem_singleton.1 hr]; exact ⟨ok.hid, by simp [Cfg.term], ok.hp⟩

theorem BR2OKWN.XR {g : Cfg} {W : WList} {n k : Nat} (ok : BR2OKWN g W n k) : g.X = serAll g.R := by
  rw [ok.hX, Cfg.R, C02.serAll_append, C02.serAll_single]

theorem S01WN.cong {g : Cfg} {W : WList} {k : Nat} (c c' : Conn) (h : S01WN g W k c)
    (hph : c'.phase = c.phase) (hsc : c'.scripts = c.scripts) (hstop : c'.stop = c.stop)
    (hm : c'.env.mutex = c.env.mutex) (hs : TrSame c.env.tr c'.env.tr) : S01WN g W k c' := by
  rcases h with h | ⟨r, n', handed, dO, shown, h1, h2, h3, h4, h5, h7, h8, h9, h10⟩ |
    ⟨r, acc, dO, shown, h1, h2, h3, h4, h5, h6, h7⟩
  · exact Or.inl (h.cong hph hsc hstop hm hs)
  · exact Or.inr (Or.inl ⟨r, n', handed, dO, shown, hph.trans h1, BSt.cong' h2 hm hs, by rw [hs.input]; exact h3, h4,
      fun s hx => hs.mem (h5 s hx), hs.ben h7, hstop.trans h8, hs.ev1 h9, hsc.trans h10⟩)
  · exact Or.inr (Or.inr ⟨r, acc, dO, shown, hph.trans h1, BSt.cong' h2 hm hs, fun s hx => hs.mem (h3 s hx), hs.ben h4,
      hstop.trans h5, hs.ev1 h6, hsc.trans h7⟩)

/-- the rest of a poll from the handler's `readAll` on -/
theorem ra1_pollWN {g : Cfg} {W : WList} {n k : Nat} (ok : BR2OKWN g W n k) {c : Conn} {r0 r : AReq} {H0 : HState} {sub : HSub}
    {e : Run.Env} {f : Nat} {dO : Bytes} {shown : List Bytes} (hph : c.phase = .handler r0 H0)
    (heq : handlerPoll ((handlerFuel c.env r0 + scriptOf c)) r0 H0 c.env =
      handlerPoll f r { ops := .readAll :: otail W g.st, sub := sub, propagate := true } e)
    (hs : BSt g.K g.L1 [] r e.mutex e.tr (taken k shown ++ accOf sub) dO) (hsl : SlEv shown e.tr)
    (hts : TStep c.env.tr e.tr) (hsg : e.segs = c.env.segs)
    (hf : 2 * ((2 * g.cap + e.tr.input.length) / 64) + 2 * e.tr.input.length + wcostAll W + 12 ≤ f)
    (hb : Ben c.env.tr) (hstop : c.stop = false) (hev : Ev1 g c.env.tr) (hsc : c.scripts = g.more) :
    R1WN g W k 3 c := by
  have hK := ok.kok
  have hrl := BSt.rem_le hK hs
  have hcapK : g.K.cap = g.cap := rfl
  have hdiv : (g.K.C.length - (taken k shown ++ accOf sub).length) / 64 ≤ (2 * g.cap + e.tr.input.length) / 64 :=
    Nat.div_le_div_right (by omega)
  have hbe := hb.step hts
  rcases readAllO_run hK (L := g.L1) (P := []) (taken k shown) (otail W g.st) [] true
      (2 * ((g.K.C.length - (taken k shown ++ accOf sub).length) / 64) + 2 * e.tr.input.length + 4) f r sub e dO 1 1
      (by omega) (by omega) (fun _ => Nat.le_refl _) (fun h => by omega) hbe hs with
    ⟨r', acc', e', dO', d1, d3, d5, d6, d8, d9⟩ |
    ⟨r', e', acc, f', d1, d2, d3, d4, dl, dm, dpay, dpad, dwire, dw, dsg, dts⟩
  · have hstep := C07.handler_step c r0 H0 hph
    rw [heq, d1] at hstep
    have hstep' : stepConn c = .halt ⟨.handler r' { ops := .readAll :: otail W g.st, sub := .readAllAcc acc', propagate := true },
        e', c.scripts, c.stop⟩ .pending := hstep
    have ht := hts.trans d6
    exact Or.inl (Or.inl ⟨_, (Halts.now hstep').mono (by omega), ⟨ht.w, d5.trans hsg, rfl⟩,
      Or.inl (Or.inr (Or.inr ⟨r', acc', dO', shown, rfl, d3, hsl.step d6, hb.step ht, hstop, hev.step ht, hsc⟩)),
      d8, by show ans e'.tr < ans c.env.tr; have := hts.ans_le; omega⟩)
  · -- the `readAll` is complete: `output_stream(Stdout)`, `write_all(data)`
    obtain ⟨⟨G, hi⟩, _, _, ⟨O1, hl1, hl2⟩⟩ := d4
    have hreq : r'.sp.request = g.p.request := hi.req
    have hrl2 : r'.sp.raw.length ≤ g.cap := by
      have := hi.sinv.1
      rw [hi.capK] at this
      simp only [Str.Parser.freeStart] at this
      omega
    have hts1 : TStep e.tr (e'.ev (rEvent acc)).tr := dts.trans (TStep.ev _ (isHS_rEvent _))
    have hfin : REnd g.N r' (e'.ev (rEvent acc)).tr.input :=
      ⟨dw ok.kfin, dl, dpay, dpad, by show r'.sp.raw ++ e'.tr.input = g.U; rw [dwire]; exact ok.ku, hreq, hi.capK,
        hi.mt.mc, hrl2, hi.sinv⟩
    have hid2 : r'.sp.request.id = g.p.id := by rw [hreq]; rfl
    have hinle := dts.tle.input_len
    have hw := open_phase2 (W := W) (st := g.st) (Lb := g.L1 ++ O1) (r := r') (e := e'.ev (rEvent acc))
      (dw ok.kfin) dm (by show (e'.tr.ev _).wlog = _; rw [Transport.ev_wlog, hl1])
      (hbe.step hts1) (fuel := f') (by omega)
    rw [hid2] at hw
    have hseen : Q1 g k (e'.ev (rEvent acc)).tr :=
      ⟨shown, acc, d3.symm, fun s hx => (hts1.mem_events (hsl s hx)), by
        show rEvent acc ∈ e'.tr.events ++ [rEvent acc]; simp⟩
    have hO : O1 ++ r'.sp.output = g.Ob := by rw [hl2]; rfl
    exact bwrite_outQW (q1_mono g k) (r := r') (e0 := e'.ev (rEvent acc)) (O1 := O1) hph (heq.trans d1) hw
      (hts.trans hts1) (dsg.trans hsg) hfin hO hseen hb hstop hev hsc

/-- **One poll** with the handler in its rounds. -/
theorem hb1_pollWN {g : Cfg} {W : WList} {n k : Nat} (ok : BR2OKWN g W n k) {c : Conn} (h : HB1WN g W k c) : R1WN g W k 3 c := by
  obtain ⟨r, n', handed, dO, shown, hph, hs, hpos, hsh, hevs, hb, hstop, hev, hsc⟩ := h
  have hK := ok.kok
  have hcapr : r.sp.cap = g.cap := by obtain ⟨⟨G, hi⟩, _⟩ := hs; exact hi.capK
  have hcost : 2 * n' + wcostAll W + 6 ≤ scriptOf c := by
    rw [scriptOf_handler hph, scriptCost_fresh]
    have := rounds_cost n' k; have := otail_cost W g.st
    simp only [List.map_append, List.sum_append, List.map_cons, List.sum_cons, opCost]
    omega
  have hfuel : 1000 + 4 * c.env.tr.input.length + 4 * g.cap + (2 * n' + wcostAll W + 6) ≤ (handlerFuel c.env r + scriptOf c) := by
    have := handlerFuel_ge' c.env r; rw [hcapr] at this; omega
  rcases rounds_runG hK (L := g.L1) (P := []) ok.rwf k (.readAll :: otail W g.st) [] true n'
      ((handlerFuel c.env r + scriptOf c)) r c.env handed dO shown (by omega) hb hs hpos hsh hevs with
    ⟨n2, r', e', handed', dO', shown', a0, a1, a2, a3, a4, a5, a6, a7, a8, a9, _⟩ |
    ⟨r', e', handed', dO', shown', f', b1, b2, b3, b4, b5, b6, b7, b8, _⟩
  · have hstep := C07.handler_step c r _ hph
    rw [a1] at hstep
    have hstep' : stepConn c = .halt ⟨.handler r' { ops := rounds n2 k ++ .readAll :: otail W g.st, propagate := true },
        e', c.scripts, c.stop⟩ .pending := hstep
    exact Or.inl (Or.inl ⟨_, (Halts.now hstep').mono (by omega), ⟨a7.w, a6, rfl⟩,
      Or.inl (Or.inr (Or.inl ⟨r', n2, handed', dO', shown', rfl, a2, a3, a4, a5, hb.step a7, hstop, hev.step a7,
        hsc⟩)), a8, a9⟩)
  · have hinle := b8.tle.input_len
    have hdiv : (2 * g.cap + e'.tr.input.length) / 64 ≤ (2 * g.cap + c.env.tr.input.length) / 64 :=
      Nat.div_le_div_right (by omega)
    refine ra1_pollWN ok (sub := .fresh) (shown := shown') hph b1 (by
        rw [← b5]
        show BSt g.K g.L1 [] r' e'.mutex e'.tr (handed' ++ []) dO'
        rw [List.append_nil]; exact b3) b6 b8 b7 ?_
      hb hstop hev hsc
    omega

/-- **One poll** with the handler suspended in its `readAll`. -/
theorem ha1_pollWN {g : Cfg} {W : WList} {n k : Nat} (ok : BR2OKWN g W n k) {c : Conn} (h : HA1W g W k c) : R1WN g W k 3 c := by
  obtain ⟨r, acc, dO, shown, hph, hs, hsl, hb, hstop, hev, hsc⟩ := h
  have hcapr : r.sp.cap = g.cap := by obtain ⟨⟨G, hi⟩, _⟩ := hs; exact hi.capK
  have hcost : wcostAll W + 6 ≤ scriptOf c := by
    rw [scriptOf_handler hph]
    have := otail_cost W g.st
    simp only [scriptCost, curCost_readAllN]
    omega
  have hfuel : 1000 + 4 * c.env.tr.input.length + 4 * g.cap + (wcostAll W + 6) ≤ (handlerFuel c.env r + scriptOf c) := by
    have := handlerFuel_ge' c.env r; rw [hcapr] at this; omega
  refine ra1_pollWN ok (sub := .readAllAcc acc) (shown := shown) hph rfl hs hsl (.refl _) rfl ?_ hb hstop hev hsc
  omega

/-- the first poll of the handler -/
theorem bufread2_firstWN {g : Cfg} {W : WList} {n k : Nat} (ok : BR2OKWN g W n k) (c : Conn) (hc : FirstCfg g c) : R1WN g W k 6 c := by
  obtain ⟨e1, hph, hlen, hwire, hlog, hm, hb, hstop, hev, hsc⟩ := hc
  have hrole : g.p.request.role = 1 := ok.role
  have hstart : C03SI.Start g.K.E (Str.Parser.fromParser g.cap g.p.request e1 g.mc) :=
    C03SI.start_fresh g.cap g.p.request e1 g.mc hlen ok.hid (Or.inl hrole)
  have hrinv : RInv g.K (AReq.new (Str.Parser.fromParser g.cap g.p.request e1 g.mc)) e1 c.env.tr.input [] [] := by
    refine ⟨hstart.mtch, hstart.inv, rfl, rfl, rfl, hwire, fun x => ?_⟩
    have := C03SI.rem_start hstart x
    show refWire g.K.E (e1 ++ x) = (Rem g.K.E (Str.Parser.fromParser g.cap g.p.request e1 g.mc) x).pre [] []
    rw [this]; rfl
  have hrst : RSt g.K g.L1 [] (AReq.new (Str.Parser.fromParser g.cap g.p.request e1 g.mc)) c.env.mutex c.env.tr [] [] :=
    ⟨⟨e1, hrinv⟩, by rw [hm]; exact lockInv_free rfl, Or.inl hm, ⟨[], by rw [hlog, List.append_nil], rfl⟩⟩
  rw [ok.hs] at hph
  exact (hb1_pollWN ok ⟨_, n, [], [], [], hph, by
      show RStB g.K g.L1 [] _ c.env.mutex c.env.tr ([] ++ _) []
      exact .of hrst,
    ⟨[], [], g.R, rfl, rfl, by
      show e1 ++ c.env.tr.input = [] ++ ([] ++ serAll g.R)
      rw [hwire, ok.XR]; rfl, List.suffix_refl _⟩,
    rfl, (fun _ h => nomatch h), hb, hstop, hev, hsc⟩).mono (by omega)

theorem s1q_pollWN {g : Cfg} {W : WList} {n k : Nat} (ok : BR2OKWN g W n k) {c : Conn} (h : SQW g W (Q1 g k) (S01WN g W k) c) :
    R1WN g W k (2 * c.env.tr.input.length + 15) c := by
  rcases h with (h | h | h) | h | h
  · exact fstage_poll3 ok.fok (fun _ h => Or.inl (Or.inl h)) (bufread2_firstWN ok) h
  · exact (hb1_pollWN ok h).mono (by omega)
  · exact (ha1_pollWN ok h).mono (by omega)
  · exact (hwq_pollWN (q1_mono g k) h).mono (by omega)
  · exact (tq_pollW (q1_mono g k) h).mono (by omega)

/-- `run_bufread2` without the size hypothesis (`run_stages3'`). -/
theorem run_bufread2WN' {g : Cfg} {W : WList} {n k : Nat} (ok : BR2OKWN g W n k) {Z : Bytes}
    (hns : NoStuckW g.cap g.mc (g.U ++ Z))
    (hNF : ∀ F x, F ++ x ++ Z = g.U ++ Z → (run .header F g.mc).st.isFinal = false)
    (em : EndMode) (evs0 : List String) (c : Conn) (n0 fuel : Nat) (hst : FStage g c)
    (hem : c.env.tr.endMode = em) (hev0 : ∀ s ∈ evs0, s ∈ c.env.tr.events)
    (hsegs : c.env.segs = []) (hf : ans c.env.tr + 1 ≤ fuel) :
    ∃ c'' fin, runTask fuel c n0 none = (c'', fin) ∧
      (GEnd g.cap g.mc Z g.more (g.hs0 + 1)
          (fun i : Bytes × Bytes × List Bytes × Bytes => g.p.flags.toNat % 2 = 1 ∧ i.1 ++ i.2.1 = g.Ob ∧
            g.content = taken k i.2.2.1 ++ i.2.2.2)
          (fun _ => g.U ++ Z) (fun i => g.Lw W i.1 i.2.1)
          (fun i => hsEvent g.p.request :: rEvent i.2.2.2 :: i.2.2.1.map fEvent) em evs0 (ans c.env.tr) c'' fin ∨
       (fin = "RET" ∧ FQW g W (Q1 g k) c'' ∧ c''.env.tr.endMode = em ∧ (∀ s ∈ evs0, s ∈ c''.env.tr.events))) :=
  run_stages3' (cap24 g) (fun _ _ => hns) (fun _ _ => hNF)
    (fun _ _ h => SQW.cong (q1_mono g k) (fun c c' h a b d e f => S01WN.cong c c' h a b d e f) h)
    (fun _ h => (s1q_pollWN ok h).imp (fun _ _ h => h) (fun c1 _ h => by
      obtain ⟨O1, O2, hO, ⟨shown, acc, q1, q2, q3⟩, haf⟩ := h
      obtain ⟨raw, hph, hw, hraw⟩ := haf.ph
      exact ⟨(O1, O2, shown, acc), ⟨haf.keep, hO, q1⟩,
        Or.inr ⟨raw, hph, by rw [hw], hraw, haf.log, haf.ben, haf.stop⟩,
        ⟨haf.sc, haf.mtx, haf.ev.1, fun s hs => by
          rcases List.mem_cons.1 hs with rfl | hs
          · exact haf.ev.2
          rcases List.mem_cons.1 hs with rfl | hs
          · exact q3
          · obtain ⟨x, hx, rfl⟩ := List.mem_map.1 hs
            exact q2 x hx⟩⟩) (fun _ _ h => h))
    em evs0 c n0 fuel (Or.inl (Or.inl hst)) hem hev0 hsegs hf

theorem BR2OKWN.front {g : Cfg} {W : WList} {n k : Nat} (ok : BR2OKWN g W n k) {us : List Rec}
    (hu : LeftOK (alignedBufsize g.b) us) : BR2OKWN (g.front us) W n k :=
  ⟨wf_idle ok.wf us hu.1, ok.role, ok.pairs, noiseFits_app hu.2 ok.noise, ok.hb, ok.hf, ok.hp, ok.hX2, ok.hX, ok.hU,
    ok.hs⟩

/-- the request (KEEP_CONN) started from any `StartAt` of a chain: it ends parked behind its Stdin terminator, which
the stream parser never consumed -/
theorem serve_writers_coreN {g : Cfg} {W : WList} (ok : BR2OKWN g W 0 0) (hk : g.p.flags.toNat % 2 = 1) {left : List Rec}
    (hleft : LeftOK (alignedBufsize g.b) left) {Z : Bytes} (hT : IdleNoise g.term)
    (hZ : GoodNext g.cap g.mc [g.term] Z)
    {Lw : Bytes} {evs : List String} {A0 : Nat} {c : Conn} (n0 fuel : Nat)
    (hLw : Lw = g.L0 ++ idleOwed g.mc left)
    (hstart : StartAt g.cap g.mc left Lw ((g.hscript, true) :: g.more) g.hs0 evs A0 g.W c)
    (hf : A0 + 1 ≤ fuel) :
    ∃ c' O1 O2, runTask fuel c n0 none = (c', "STALL") ∧ O1 ++ O2 = g.Ob ∧ rEvent g.content ∈ c'.env.tr.events ∧
      Waiting g.cap g.mc [g.term] ((g.front left).Lw W O1 O2 ++ idleOwed g.mc [g.term]) g.more (g.hs0 + 1)
        (hsEvent g.p.request :: evs) A0 c' := by
  have okf := ok.front hleft
  obtain ⟨hst, hsg, hem, hans, hev, hin⟩ := fstage_of_startAt hleft hLw hstart
  have hser : serAll [g.term] = g.term.ser := C02.serAll_single _
  have hidle : ∀ e ∈ [g.term], IdleNoise e := fun e he => by rw [List.mem_singleton.1 he]; exact hT
  have hU : (g.front left).U = g.term.ser := ok.hU
  obtain ⟨c', fin, hrun, hres⟩ :=
    run_bufread2WN' okf (Z := Z) (by rw [hU, ← hser]; exact hZ.1) (by rw [hU, ← hser]; exact hZ.2)
      .pend evs c n0 fuel hst hem hev hsg (by omega)
  rcases hres with ⟨⟨O1, O2, shown, acc⟩, ⟨hkp0, hO, hcont⟩, hkp, hem', hev', hans', hsg', hend⟩ |
      ⟨_, ⟨O1, O2, _, _, hfu⟩, _, _⟩
  · have hacc : acc = g.content := by
      have : g.content = taken 0 shown ++ acc := hcont
      have h0 : taken 0 shown = [] := by
        clear this hcont hkp
        induction shown with
        | nil => rfl
        | cons s l ih => simpa [taken] using ih
      rw [h0, List.nil_append] at this
      exact this.symm
    rcases hend with ⟨rfl, hp⟩ | ⟨_, hfn⟩
    · obtain ⟨F, hF, hps, hph, hlg⟩ := hp.pst
      have hFe : F = serAll [g.term] := by
        rw [hser, ← hU]; exact List.append_cancel_right hF
      subst hFe
      have hnf : (run .header (serAll [g.term]) g.mc).st.isFinal = false := (run_idle_out g.mc _ hidle).2.2
      have hob : (run .header (serAll [g.term]) (g.front left).mc).out = idleOwed g.mc [g.term] :=
        (run_idle_out g.mc _ hidle).1
      refine ⟨c', O1, O2, hrun, hO, by rw [← hacc]; exact hkp.ev _ (by simp), ⟨hph, hnf, hps.rem, hp.inp, by rw [hlg, hob],
        ⟨(g.front left).Lw W O1 O2, by
          show _ = _ ++ (run .header (serAll [g.term]) (g.front left).mc).out
          rw [hob]⟩, hps.stop, hps.ben, hkp.sc, hkp.mx,
        hkp.hs, ?_, hsg', hem', by omega⟩⟩
      intro s hs
      rcases List.mem_cons.1 hs with rfl | hs
      · exact hkp.ev _ List.mem_cons_self
      · exact hev' s hs
    · rw [hfn.em] at hem'; cases hem'
  · have := hfu.nokeep
    have e : (g.front left).p = g.p := rfl
    rw [e] at this
    omega

end Fcgi.E2E
