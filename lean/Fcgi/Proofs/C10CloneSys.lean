import Fcgi.Props.C10
import Fcgi.Props.C10Clone
/-!
# C10 at system level with a GROWING set of writers: `clone` and `drop` as operations

`Props/C10.lean` §5–6 proves mutual exclusion and `no_interleave` for a fixed list of writers.  Here
the schedule may also clone any writer at any moment (`Clone for StreamWriter`: the clone is
appended to the list) and drop writers (the driver's `a.drop`: the writer can no longer be polled;
if its lock future held the mutex, the mutex is released).

* `Sys2`, `Op2`, `step2`, `run2`, `emitted2`, `completed2`, `gstep2`, `grun2`, `OpOK2`, `WellBehaved2`;
* `ownInv_clone`, `ownInv_drop`, `exclusion_step2` — the ownership invariant survives every step;
* `logInv_clone`, `logInv_drop`, `logInv_step2`, `logInv_run2` — so does the log invariant; the
  clone step is exactly where the OLD `Clone` (which copied the remaining lengths of the record in
  progress) fails: `old_clone_breaks_loginv`.
-/
namespace Fcgi.C10
open Fcgi Fcgi.Async

/-- The shared world plus the set of writers that were dropped (their slots stay, so that indices —
mutex owner ids — remain stable; a dropped slot holds an idle writer that is never polled again). -/
structure Sys2 where
  sys : Sys
  dead : List Nat

inductive Op2
  | old (op : Op)        -- `poll_write` / `poll_flush` of a writer, `poll_output` of the request
  | clone (i : Nat)      -- `writers[i].clone()`, appended at the end of the list
  | drop (i : Nat)       -- writer `i` is dropped

/-- The writer an operation is about. -/
def Op2.target : Op2 → Option Nat
  | .old (.wpoll i _) => some i
  | .old (.fpoll i) => some i
  | .old .opoll => none
  | .clone i => some i
  | .drop i => some i

/-- An operation on a dropped writer cannot happen (the value is gone): modelled as a no-op. -/
def Op2.blocked (s : Sys2) (op : Op2) : Bool :=
  match op.target with
  | some i => s.dead.contains i
  | none => false

def step2 (s : Sys2) (op : Op2) : Sys2 :=
  if op.blocked s then s else
  match op with
  | .old o => { s with sys := step s.sys o }
  | .clone i =>
    match s.sys.writers[i]? with
    | some w => { s with sys := { s.sys with writers := s.sys.writers ++ [w.clone] } }
    | none => s
  | .drop i =>
    match s.sys.writers[i]? with
    | some w =>
      { sys := { s.sys with writers := s.sys.writers.set i w.clone,
                            mutex := lockDrop w.lock s.sys.mutex },
        dead := i :: s.dead }
    | none => s

def run2 (s : Sys2) (ops : List Op2) : Sys2 := ops.foldl step2 s

/-- What an operation completes (clones and drops complete nothing). -/
def emitted2 (s : Sys2) (op : Op2) : List Entry :=
  if op.blocked s then [] else
  match op with
  | .old o => emitted s.sys o
  | _ => []

def completed2 : Sys2 → List Op2 → List Entry
  | _, [] => []
  | s, op :: ops => emitted2 s op ++ completed2 (step2 s op) ops

/-- The ghost state grows with the writer list: a clone starts with no write in progress; a
dropped writer has none any more. -/
def gstep2 (g : Ghost) (s : Sys2) (op : Op2) : Ghost :=
  if op.blocked s then g else
  match op with
  | .old o => gstep g s.sys o
  | .clone i =>
    match s.sys.writers[i]? with
    | some _ => g.set s.sys.writers.length none
    | none => g
  | .drop i =>
    match s.sys.writers[i]? with
    | some _ => g.set i none
    | none => g

/-- Well-behaved callers: as in `C10.OpOK` for the polls; a clone may be taken at ANY moment; a
writer is not dropped while a write of its own is in progress AND it holds the mutex (that would
release the mutex with a partial record on the wire — the documented hazard,
`drop_mid_record_hazard`). -/
def OpOK2 (g : Ghost) (s : Sys2) (op : Op2) : Prop :=
  if op.blocked s then True else
  match op with
  | .old o => OpOK g s.sys o
  | .clone _ => True
  | .drop i => ∀ w buf, s.sys.writers[i]? = some w → g i = some buf → w.lock ≠ .held

def WellBehaved2 : Ghost → Sys2 → List Op2 → Prop
  | _, _, [] => True
  | g, s, op :: ops => OpOK2 g s op ∧ WellBehaved2 (gstep2 g s op) (step2 s op) ops

def grun2 : Ghost → Sys2 → List Op2 → Ghost
  | g, _, [] => g
  | g, s, op :: ops => grun2 (gstep2 g s op) (step2 s op) ops

/-! ## The ownership invariant -/

/-- **Clone step.**  Appending a clone — of a writer in ANY state — keeps the ownership invariant:
the clone holds no lock, and no owner id names it yet. -/
theorem ownInv_clone {s : Sys} (h : OwnInv s) (w : Writer) :
    OwnInv { s with writers := s.writers ++ [w.clone] } := by
  refine ⟨fun i wi hi => ?_, h.req, fun j hj => ?_⟩
  · simp only at hi ⊢
    by_cases hlt : i < s.writers.length
    · rw [List.getElem?_append_left hlt] at hi
      exact h.writers i wi hi
    · rw [List.getElem?_append_right (by omega)] at hi
      have hi0 : i - s.writers.length = 0 := by
        cases hk : i - s.writers.length with
        | zero => rfl
        | succ k => rw [hk] at hi; simp at hi
      rw [hi0] at hi
      simp only [List.getElem?_cons_zero, Option.some.injEq] at hi
      subst hi
      unfold Consistent
      constructor
      · intro hl; simp [Writer.clone] at hl
      · intro hm
        have := h.bound i hm
        omega
  · simp only at hj ⊢
    have := h.bound j hj
    simp only [List.length_append, List.length_singleton]
    omega

/-- **Drop step.**  Dropping writer `i` (its slot becomes an idle writer; the mutex is released if
its lock future held it) keeps the ownership invariant. -/
theorem ownInv_drop {s : Sys} (h : OwnInv s) {i : Nat} {w : Writer} (hw : s.writers[i]? = some w) :
    OwnInv { s with writers := s.writers.set i w.clone, mutex := lockDrop w.lock s.mutex } := by
  have hci := h.writers i w hw
  have hm' : lockDrop w.lock s.mutex = s.mutex ∨
      (w.lock = .held ∧ s.mutex = some (i + 1) ∧ lockDrop w.lock s.mutex = none) := by
    cases hl : w.lock with
    | held => exact Or.inr ⟨rfl, hci.mp hl, rfl⟩
    | none => exact Or.inl rfl
    | polling => exact Or.inl rfl
  have hcons : ∀ (o : Nat) (l : LockSt), o ≠ i + 1 → Consistent o l s.mutex →
      Consistent o l (lockDrop w.lock s.mutex) := by
    intro o l ho hc
    rcases hm' with e | ⟨_, hm, e⟩
    · rw [e]; exact hc
    · rw [e]
      unfold Consistent at hc ⊢
      constructor
      · intro hl
        have := hc.mp hl
        rw [hm] at this
        simp at this
        exact absurd this.symm ho
      · intro hx; cases hx
  refine ⟨fun j wj hj => ?_, hcons 0 _ (by omega) h.req, fun j hj => ?_⟩
  · simp only at hj ⊢
    by_cases hji : j = i
    · subst hji
      have hlt : j < s.writers.length := by
        rcases Nat.lt_or_ge j s.writers.length with h1 | h1
        · exact h1
        · rw [List.getElem?_eq_none h1] at hw; cases hw
      rw [List.getElem?_set_self hlt] at hj
      cases hj
      unfold Consistent
      constructor
      · intro hl; simp [Writer.clone] at hl
      · intro hx
        rcases hm' with e | ⟨_, _, e⟩
        · rw [e] at hx
          have := hci.mpr hx
          rw [this] at e
          simp [lockDrop] at e
          rw [← e] at hx; cases hx
        · rw [e] at hx; cases hx
    · rw [List.getElem?_set_ne (fun hh => hji hh.symm)] at hj
      exact hcons (j + 1) _ (by omega) (h.writers j wj hj)
  · simp only at hj ⊢
    rw [List.length_set]
    rcases hm' with e | ⟨_, _, e⟩
    · rw [e] at hj; exact h.bound j hj
    · rw [e] at hj; cases hj

theorem exclusion_step2 (s : Sys2) (op : Op2) (h : OwnInv s.sys) : OwnInv (step2 s op).sys := by
  unfold step2
  split
  · exact h
  · cases op with
    | old o => exact exclusion_step s.sys o h
    | clone i =>
      simp only
      split
      · exact ownInv_clone h _
      · exact h
    | drop i =>
      simp only
      split
      · rename_i w hw; exact ownInv_drop h hw
      · exact h

/-! ## The log invariant -/

/-- **Clone step.**  Appending a clone, with the ghost state extended by "no write in progress",
keeps the log invariant.  This is exactly where the OLD `Clone` fails: a clone that inherits the
remaining lengths of its source's record is `isWriting` with no write of its own — `idle` is
violated (`old_clone_breaks_loginv`). -/
theorem logInv_clone {g : Ghost} {s : Sys} {done cur : Bytes} (h : LogInv g s done cur) (w : Writer) :
    LogInv (g.set s.writers.length none) { s with writers := s.writers ++ [w.clone] } done cur := by
  have hget : ∀ (i : Nat) (wi : Writer), (s.writers ++ [w.clone])[i]? = some wi →
      (i < s.writers.length ∧ s.writers[i]? = some wi) ∨ (i = s.writers.length ∧ wi = w.clone) := by
    intro i wi hi
    by_cases hlt : i < s.writers.length
    · rw [List.getElem?_append_left hlt] at hi; exact Or.inl ⟨hlt, hi⟩
    · rw [List.getElem?_append_right (by omega)] at hi
      have hi0 : i - s.writers.length = 0 := by
        cases hk : i - s.writers.length with
        | zero => rfl
        | succ k => rw [hk] at hi; simp at hi
      rw [hi0] at hi
      simp only [List.getElem?_cons_zero, Option.some.injEq] at hi
      exact Or.inr ⟨by omega, hi.symm⟩
  refine ⟨ownInv_clone h.own w, h.log, fun i wi hi hg => ?_, fun i wi buf hi hg => ?_, fun hq => ?_⟩
  · rcases hget i wi hi with ⟨hlt, hi'⟩ | ⟨_, rfl⟩
    · rw [Ghost.set_ne _ _ (by omega)] at hg
      exact h.idle i wi hi' hg
    · exact (C10Clone.clone_idle w).2
  · rcases hget i wi hi with ⟨hlt, hi'⟩ | ⟨rfl, _⟩
    · rw [Ghost.set_ne _ _ (by omega)] at hg
      exact h.busy i wi buf hi' hg
    · rw [Ghost.set_self] at hg; cases hg
  · apply h.quiet
    intro i buf hm hg
    have hlt := h.own.bound i hm
    exact hq i buf hm (by rw [Ghost.set_ne _ _ (by omega)]; exact hg)

/-- **Drop step**, for a writer that is not both inside a write of its own and holding the mutex. -/
theorem logInv_drop {g : Ghost} {s : Sys} {done cur : Bytes} (h : LogInv g s done cur) {i : Nat}
    {w : Writer} (hw : s.writers[i]? = some w) (hok : ∀ buf, g i = some buf → w.lock ≠ .held) :
    LogInv (g.set i none)
      { s with writers := s.writers.set i w.clone, mutex := lockDrop w.lock s.mutex } done cur := by
  have hci := h.own.writers i w hw
  have hlt : i < s.writers.length := by
    rcases Nat.lt_or_ge i s.writers.length with h1 | h1
    · exact h1
    · rw [List.getElem?_eq_none h1] at hw; cases hw
  have hmx : ∀ j, lockDrop w.lock s.mutex = some j → s.mutex = some j := by
    intro j hj
    cases hl : w.lock <;> rw [hl] at hj <;> first | exact hj | cases hj
  refine ⟨ownInv_drop h.own hw, h.log, fun j wj hj hg => ?_, fun j wj buf hj hg => ?_, fun hq => ?_⟩
  · simp only at hj
    by_cases hji : j = i
    · subst hji
      rw [List.getElem?_set_self hlt] at hj
      cases hj
      exact (C10Clone.clone_idle w).2
    · rw [List.getElem?_set_ne (fun hh => hji hh.symm)] at hj
      rw [Ghost.set_ne _ _ hji] at hg
      exact h.idle j wj hj hg
  · simp only at hj ⊢
    by_cases hji : j = i
    · subst hji; rw [Ghost.set_self] at hg; cases hg
    · rw [List.getElem?_set_ne (fun hh => hji hh.symm)] at hj
      rw [Ghost.set_ne _ _ hji] at hg
      obtain ⟨hb, sent, hinv, hc⟩ := h.busy j wj buf hj hg
      exact ⟨hb, sent, hinv, fun hm => hc (hmx _ hm)⟩
  · simp only at hq
    apply h.quiet
    intro j buf hm hg
    by_cases hji : j = i
    · subst hji
      exact hok buf hg (hci.mpr hm)
    · have hne : w.lock ≠ .held := by
        intro hl
        have := hci.mp hl
        rw [hm] at this
        simp at this
        exact hji this
      have hsame : lockDrop w.lock s.mutex = s.mutex := by
        cases hl : w.lock <;> first | rfl | exact absurd hl hne
      exact hq j buf (by rw [hsame]; exact hm) (by rw [Ghost.set_ne _ _ hji]; exact hg)

theorem logInv_step2 {g : Ghost} {s : Sys2} {done cur : Bytes} (h : LogInv g s.sys done cur)
    (op : Op2) (hok : OpOK2 g s op) :
    ∃ cur', LogInv (gstep2 g s op) (step2 s op).sys
      (done ++ (emitted2 s op).flatMap Entry.bytes) cur' := by
  unfold OpOK2 at hok
  unfold gstep2 step2 emitted2
  by_cases hb : op.blocked s = true
  · simp only [hb, if_true]
    exact ⟨cur, by simpa using h⟩
  · simp only [hb, if_false, Bool.false_eq_true] at hok ⊢
    cases op with
    | old o => exact logInv_step h o hok
    | clone i =>
      simp only
      cases hw : s.sys.writers[i]? with
      | none => exact ⟨cur, by simpa using h⟩
      | some w => exact ⟨cur, by simpa using logInv_clone h w⟩
    | drop i =>
      simp only at hok ⊢
      cases hw : s.sys.writers[i]? with
      | none => exact ⟨cur, by simpa using h⟩
      | some w => exact ⟨cur, by simpa using logInv_drop h hw (fun buf hg => hok w buf hw hg)⟩

theorem logInv_run2 (ops : List Op2) : ∀ (g : Ghost) (s : Sys2) (done cur : Bytes),
    LogInv g s.sys done cur → WellBehaved2 g s ops →
    ∃ cur', LogInv (grun2 g s ops) (run2 s ops).sys
      (done ++ (completed2 s ops).flatMap Entry.bytes) cur' := by
  induction ops with
  | nil => intro g s done cur h _; exact ⟨cur, by simpa [completed2, grun2, run2] using h⟩
  | cons op ops ih =>
    intro g s done cur h hwb
    obtain ⟨hok, hrest⟩ := hwb
    obtain ⟨cur1, h1⟩ := logInv_step2 h op hok
    obtain ⟨cur2, h2⟩ := ih _ _ _ _ h1 hrest
    refine ⟨cur2, ?_⟩
    simpa [completed2, grun2, run2, List.flatMap_append, List.append_assoc] using h2

end Fcgi.C10
