import Fcgi.Model.CgiName
/-!
# Helper lemmas about the CGI variable-name model (`Fcgi.Model.CgiName`)

Generic facts about `upperByte`/`upper`, `eqIgnoreCase`, `cmpBytes`, `hashWrites` and `lookup`
used by `Fcgi.Props.C19`.  Core Lean only.
-/
namespace Fcgi.CgiName
open Fcgi

/-! ## Bytes -/

/-- Lower-casing identifies two bytes exactly when upper-casing does. -/
theorem lower_eq_iff_upper_eq (x y : UInt8) :
    lowerByte x = lowerByte y ↔ upperByte x = upperByte y := by
  simp only [lowerByte, upperByte, ← UInt8.toNat_inj]
  split <;> split <;> split <;> split <;> simp [UInt8.toNat_ofNat'] <;> omega

theorem upperByte_idem (x : UInt8) : upperByte (upperByte x) = upperByte x := by
  simp only [upperByte, ← UInt8.toNat_inj]
  split <;> (try split) <;> simp_all [UInt8.toNat_ofNat'] <;> omega

/-- Upper-casing never produces `0xff` from another byte. -/
theorem upperByte_eq_ff (x : UInt8) : upperByte x = 255 ↔ x = 255 := by
  simp only [upperByte, ← UInt8.toNat_inj]
  split <;> simp [UInt8.toNat_ofNat'] <;> omega

/-! ## `upper` -/

@[simp] theorem upper_nil : upper [] = [] := rfl
@[simp] theorem upper_cons (x : UInt8) (s : Bytes) : upper (x :: s) = upperByte x :: upper s := rfl
@[simp] theorem upper_length (s : Bytes) : (upper s).length = s.length := by simp [upper]
theorem upper_append (s t : Bytes) : upper (s ++ t) = upper s ++ upper t := by simp [upper]
theorem upper_take (n : Nat) (s : Bytes) : upper (s.take n) = (upper s).take n := by
  simp [upper, List.map_take]
theorem upper_drop (n : Nat) (s : Bytes) : upper (s.drop n) = (upper s).drop n := by
  simp [upper, List.map_drop]
theorem upper_idem (s : Bytes) : upper (upper s) = upper s := by
  induction s with
  | nil => rfl
  | cons x s ih => simp [upperByte_idem, ih]

theorem ff_mem_upper (s : Bytes) : (255 : UInt8) ∈ upper s ↔ (255 : UInt8) ∈ s := by
  induction s with
  | nil => simp
  | cons x s ih =>
    simp only [upper_cons, List.mem_cons, ih]
    rw [eq_comm, upperByte_eq_ff, eq_comm]

/-! ## `eqIgnoreCase` -/

theorem eqIgnoreCase_iff : ∀ a b : Bytes, eqIgnoreCase a b = true ↔ upper a = upper b
  | [], [] => by simp [eqIgnoreCase]
  | [], _ :: _ => by simp [eqIgnoreCase]
  | _ :: _, [] => by simp [eqIgnoreCase]
  | x :: a, y :: b => by
    simp [eqIgnoreCase, lower_eq_iff_upper_eq, eqIgnoreCase_iff a b]

/-! ## `cmpBytes` (lexicographic order on raw byte strings) -/

theorem cmpBytes_eq_iff : ∀ a b : Bytes, cmpBytes a b = .eq ↔ a = b
  | [], [] => by simp [cmpBytes]
  | [], _ :: _ => by simp [cmpBytes]
  | _ :: _, [] => by simp [cmpBytes]
  | x :: a, y :: b => by
    simp only [cmpBytes, List.cons.injEq, ← UInt8.toNat_inj]
    split
    · simp; omega
    · split
      · simp; omega
      · rw [cmpBytes_eq_iff a b]
        constructor
        · intro h; exact ⟨by omega, h⟩
        · exact fun h => h.2

theorem cmpBytes_swap : ∀ a b : Bytes, cmpBytes b a = (cmpBytes a b).swap
  | [], [] => by simp [cmpBytes]
  | [], _ :: _ => by simp [cmpBytes]
  | _ :: _, [] => by simp [cmpBytes]
  | x :: a, y :: b => by
    simp only [cmpBytes]
    split
    · have : ¬ x.toNat < y.toNat := by omega
      simp [*]
    · split
      · simp
      · exact cmpBytes_swap a b

theorem cmpBytes_lt_trans : ∀ a b c : Bytes,
    cmpBytes a b = .lt → cmpBytes b c = .lt → cmpBytes a c = .lt
  | [], [], _ => by simp [cmpBytes]
  | [], _ :: _, [] => by simp [cmpBytes]
  | [], _ :: _, _ :: _ => by simp [cmpBytes]
  | _ :: _, [], _ => by simp [cmpBytes]
  | _ :: _, _ :: _, [] => by simp [cmpBytes]
  | x :: a, y :: b, z :: c => by
    simp only [cmpBytes]
    intro h1 h2
    by_cases hxy : x.toNat < y.toNat
    · by_cases hyz : y.toNat < z.toNat
      · have : x.toNat < z.toNat := by omega
        simp [this]
      · simp only [hyz, if_false] at h2
        split at h2
        · cases h2
        · have : x.toNat < z.toNat := by omega
          simp [this]
    · simp only [hxy, if_false] at h1
      split at h1
      · cases h1
      · by_cases hyz : y.toNat < z.toNat
        · have : x.toNat < z.toNat := by omega
          simp [this]
        · simp only [hyz, if_false] at h2
          split at h2
          · cases h2
          · have e1 : ¬ x.toNat < z.toNat := by omega
            have e2 : ¬ z.toNat < x.toNat := by omega
            simp only [e1, e2, if_false]
            exact cmpBytes_lt_trans a b c h1 h2

theorem ne_gt_iff (o : Ordering) : o ≠ .gt ↔ o = .lt ∨ o = .eq := by
  cases o <;> simp

theorem cmpBytes_trans (a b c : Bytes)
    (h1 : cmpBytes a b ≠ .gt) (h2 : cmpBytes b c ≠ .gt) : cmpBytes a c ≠ .gt := by
  rw [ne_gt_iff] at h1 h2 ⊢
  rcases h1 with h1 | h1
  · rcases h2 with h2 | h2
    · exact .inl (cmpBytes_lt_trans a b c h1 h2)
    · rw [cmpBytes_eq_iff] at h2; subst h2; exact .inl h1
  · rw [cmpBytes_eq_iff] at h1; subst h1; exact h2

/-! ## `hashWrites` -/

theorem hashWrites_lt (s : Bytes) (h : s.length < 16) : hashWrites s = [upper s ++ [255]] := by
  rw [hashWrites]; simp [h]

theorem hashWrites_ge (s : Bytes) (h : 16 ≤ s.length) :
    hashWrites s = upper (s.take 16) :: hashWrites (s.drop 16) := by
  rw [hashWrites]; simp [Nat.not_lt.mpr h]

theorem hashWrites_flatten (s : Bytes) : (hashWrites s).flatten = upper s ++ [255] := by
  induction h : s.length using Nat.strongRecOn generalizing s with
  | _ n ih =>
    by_cases hlt : s.length < 16
    · simp [hashWrites_lt s hlt]
    · have hge : 16 ≤ s.length := Nat.not_lt.mp hlt
      rw [hashWrites_ge s hge, List.flatten_cons,
        ih (s.drop 16).length (by simp; omega) (s.drop 16) rfl,
        ← List.append_assoc, ← upper_append, List.take_append_drop]

theorem hashWrites_congr (a b : Bytes) (hab : upper a = upper b) : hashWrites a = hashWrites b := by
  induction h : a.length using Nat.strongRecOn generalizing a b with
  | _ n ih =>
    have hlen : a.length = b.length := by
      have := congrArg List.length hab
      simpa using this
    by_cases hlt : a.length < 16
    · rw [hashWrites_lt a hlt, hashWrites_lt b (hlen ▸ hlt), hab]
    · have hge : 16 ≤ a.length := Nat.not_lt.mp hlt
      rw [hashWrites_ge a hge, hashWrites_ge b (hlen ▸ hge), upper_take, upper_take, hab]
      congr 1
      exact ih (a.drop 16).length (by simp; omega) (a.drop 16) (b.drop 16)
        (by rw [upper_drop, upper_drop, hab]) rfl

/-- A `0xff`-terminated string is a prefix of another only if they are equal, provided neither
body contains `0xff`. -/
theorem ff_terminated_prefix : ∀ l1 l2 : Bytes, (255 : UInt8) ∉ l1 → (255 : UInt8) ∉ l2 →
    (l1 ++ [255]) <+: (l2 ++ [255]) → l1 = l2
  | [], [], _, _, _ => rfl
  | [], y :: l2, _, h2, h => by
    simp only [List.nil_append, List.cons_append, List.cons_prefix_cons] at h
    exact absurd h.1 (fun e => h2 (e ▸ List.mem_cons_self))
  | x :: l1, [], h1, _, h => by
    simp only [List.nil_append, List.cons_append, List.cons_prefix_cons] at h
    exact absurd h.1 (fun e => h1 (e ▸ List.mem_cons_self))
  | x :: l1, y :: l2, h1, h2, h => by
    simp only [List.cons_append, List.cons_prefix_cons] at h
    rw [h.1, ff_terminated_prefix l1 l2 (fun m => h1 (List.mem_cons_of_mem _ m))
      (fun m => h2 (List.mem_cons_of_mem _ m)) h.2]

/-! ## `lookup` in an arbitrary table (instantiated with `table` in `Fcgi.Props.C19`) -/

theorem findIdx_beq_some {t : List Bytes} {s : Bytes} {i : Nat}
    (h : t.findIdx? (· == s) = some i) : i < t.length ∧ t.getD i [] = s := by
  rw [List.findIdx?_eq_some_iff_getElem] at h
  obtain ⟨hi, hp, _⟩ := h
  refine ⟨hi, ?_⟩
  simp only [beq_iff_eq] at hp
  simp [List.getD_eq_getElem?_getD, List.getElem?_eq_getElem hi, hp]

theorem findIdx_beq_none {t : List Bytes} {s : Bytes}
    (h : t.findIdx? (· == s) = none) : s ∉ t := by
  rw [List.findIdx?_eq_none_iff] at h
  intro hm
  have := h s hm
  simp at this

theorem nodup_getElem_inj {t : List Bytes} (hn : t.Nodup) {i j : Nat}
    (hi : i < t.length) (hj : j < t.length) : t[i] = t[j] ↔ i = j := by
  rw [← List.getElem?_inj hi hn (j := j), List.getElem?_eq_getElem hi, List.getElem?_eq_getElem hj,
    Option.some.injEq]

theorem findIdx_beq_getD {t : List Bytes} (hn : t.Nodup) {i : Nat} (hi : i < t.length) :
    t.findIdx? (· == t.getD i []) = some i := by
  have hg : t.getD i [] = t[i] := by
    simp [List.getD_eq_getElem?_getD, List.getElem?_eq_getElem hi]
  rw [hg, List.findIdx?_eq_some_iff_getElem]
  refine ⟨hi, by simp, ?_⟩
  intro j hji
  simp only [beq_iff_eq]
  intro e
  have := (nodup_getElem_inj hn (Nat.lt_trans hji hi) hi).mp e
  omega

theorem getD_inj_of_nodup {t : List Bytes} (hn : t.Nodup) {i j : Nat}
    (hi : i < t.length) (hj : j < t.length) : t.getD i [] = t.getD j [] ↔ i = j := by
  have hgi : t.getD i [] = t[i] := by
    simp [List.getD_eq_getElem?_getD, List.getElem?_eq_getElem hi]
  have hgj : t.getD j [] = t[j] := by
    simp [List.getD_eq_getElem?_getD, List.getElem?_eq_getElem hj]
  rw [hgi, hgj, nodup_getElem_inj hn hi hj]

theorem getD_mem {t : List Bytes} {i : Nat} (hi : i < t.length) : t.getD i [] ∈ t := by
  have hgi : t.getD i [] = t[i] := by
    simp [List.getD_eq_getElem?_getD, List.getElem?_eq_getElem hi]
  rw [hgi]; exact List.getElem_mem hi

end Fcgi.CgiName
