import Fcgi.Proofs.E2ETruncStr

/-!
# C12 end to end, part 3: the whole run when the input ends inside the stream

`MCfg`: a well-formed preamble `recs` for `p`, then the cut wire `Y` of the `Stdin` stream (the
reference says "more input needed" on `Y`), then end-of-file.  The handler script starts with
`readAll` and propagates errors.  `mstage_poll`: one poll of the connection task, from
`parse_request` or from the suspended `readAll`; `mid_run`: the executor.
-/
namespace Fcgi.C12E
open Fcgi Fcgi.Req Fcgi.Str Fcgi.Async Fcgi.Run Fcgi.Spec Fcgi.E2E

structure MCfg where
  p : Preamble
  recs : List Rec
  b : Nat
  mc : Nat
  /-- the cut wire of the stream, and what the reference makes of it -/
  Y : Bytes
  C : Bytes
  O : Bytes
  U : Bytes
  /-- the handler's operations after `readAll`; the scripts of later requests -/
  rest : List HOp
  more : List (List HOp × Bool)
  L0 : Bytes
  hs0 : Nat

namespace MCfg
def cap (g : MCfg) : Nat := alignedBufsize g.b
def W (g : MCfg) : Bytes := serAll g.recs ++ g.Y
def K (g : MCfg) : RCtx := ⟨⟨g.p.id, g.p.role, 5, g.mc⟩, g.p.request, g.cap, g.Y, g.C, g.O, g.U⟩
def L1 (g : MCfg) : Bytes := g.L0 ++ owedPreamble g.p g.mc g.recs

structure OK (g : MCfg) : Prop where
  wf : WellFormedPreamble g.p g.recs
  role : g.p.role = 1 ∨ g.p.role = 3
  pairs : ∀ q ∈ g.p.pairs, (NV.enc q).length ≤ g.cap
  noise : NoiseFits g.cap g.recs
  cut : g.K.Cut
  fuel : g.cap / 32 + 8 ≤ 1000

/-- `OK` without the model-fuel bound: the `4·cap` term of the handler fuel pays for `cap/32` (all the lemmas
below need only this). -/
structure OKu (g : MCfg) : Prop where
  wf : WellFormedPreamble g.p g.recs
  role : g.p.role = 1 ∨ g.p.role = 3
  pairs : ∀ q ∈ g.p.pairs, (NV.enc q).length ≤ g.cap
  noise : NoiseFits g.cap g.recs
  cut : g.K.Cut

theorem OK.toU {g : MCfg} (ok : g.OK) : g.OKu := ⟨ok.wf, ok.role, ok.pairs, ok.noise, ok.cut⟩
end MCfg

theorem mpid_lt {g : MCfg} (ok : g.OKu) : 0 < g.p.id ∧ g.p.id < 65536 := by
  have h := ok.wf
  generalize g.recs = rs at h
  induction h with
  | noise r hn t ih => exact ih
  | «begin» pad res body5 hb hp hid hrole hl t => exact hid

theorem mns {g : MCfg} (ok : g.OKu) : NoStuckW g.cap g.mc g.W := noStuck_of ok.wf g.Y g.b g.mc ok.pairs ok.noise

theorem rem_leT {K : RCtx} (hK : K.Cut) {r : AReq} {G fut dC dO : Bytes} (h : RInv K r G fut dC dO) :
    K.C.length ≤ dC.length + K.cap + fut.length := by
  have h1 := (nowT hK h).1
  have h2 := ref_content_le K.E _ r.sp.state r.sp.pay r.sp.pad (r.sp.raw ++ fut) (Nat.le_refl _)
  have h3 := h.sinv.1
  have h4 := h.capK
  rw [h1]
  unfold Rem
  simp only [List.length_append, Str.Parser.freeStart] at *
  omega

/-- the event of the handler future ending with the propagated `UnexpectedEof` -/
def heEvent : String := s!"HE(err:{showIo .unexpectedEof})"

/-- exactly one handler start so far, for this request -/
def MEv1 (g : MCfg) (t : Transport) : Prop := hsCount t.events = g.hs0 + 1 ∧ hsEvent g.p.request ∈ t.events

theorem MEv1.step {g : MCfg} {t t' : Transport} (h : MEv1 g t) (s : TStep t t') : MEv1 g t' :=
  ⟨s.hs.trans h.1, s.mem_events h.2⟩

/-- the handler state while it is in its `readAll` -/
abbrev rdH (g : MCfg) (sub : HSub) : HState :=
  { ops := .readAll :: g.rest, sub := sub, writers := [], propagate := true }

/-- Where the connection task is between two polls. -/
inductive MStage (g : MCfg) (c : Conn) : Prop
  /-- inside `parse_request` -/
  | parse {F : Bytes} : PSt g.cap g.mc g.W g.L0 [] c F → c.scripts = (.readAll :: g.rest, true) :: g.more →
      c.env.mutex = none → hsCount c.env.tr.events = g.hs0 → MStage g c
  /-- the handler is suspended in its `readAll` -/
  | hread {r : AReq} {sub : HSub} {dO : Bytes} :
      c.phase = .handler r { ops := .readAll :: g.rest, sub := sub, writers := [], propagate := true } →
      RSt g.K g.L1 [] r c.env.mutex c.env.tr (accOf sub) dO → Ben c.env.tr → MEv1 g c.env.tr →
      c.scripts = g.more → MStage g c

/-- How the task ends: the handler was started once, read exactly the content `C` of the cut wire,
got `UnexpectedEof`, returned it; the connection is finished without `close`; the write log holds
the preamble replies and the stream-noise replies and nothing else. -/
structure MFin (g : MCfg) (c' : Conn) : Prop where
  phase : c'.phase = .finished
  wlog : c'.env.tr.wlog = g.L1 ++ g.O
  input : c'.env.tr.input = []
  hs : hsCount c'.env.tr.events = g.hs0 + 1
  start : hsEvent g.p.request ∈ c'.env.tr.events
  rerr : reEvent g.C ∈ c'.env.tr.events
  herr : heEvent ∈ c'.env.tr.events
  scripts : c'.scripts = g.more

def MOut (g : MCfg) (c c' : Conn) (r : PRes) : Prop :=
  (r = .pending ∧ MStage g c' ∧ c'.env.tr.woken = true ∧ ans c'.env.tr < ans c.env.tr) ∨
  (r = .finished ∧ MFin g c')

theorem MOut.mono {g : MCfg} {c c1 c' : Conn} {r : PRes} (hl : Link c c1) (h : MOut g c1 c' r) : MOut g c c' r := by
  rcases h with ⟨a, b, d, e⟩ | h
  · exact Or.inl ⟨a, b, d, by have := hl.ts.ans_le; omega⟩
  · exact Or.inr h

def MRes (g : MCfg) (N : Nat) (c : Conn) : Prop := ∃ c' r, Halts N c c' r ∧ Link c c' ∧ MOut g c c' r

theorem MRes.of_steps {g : MCfg} {k N : Nat} {c c1 : Conn} (hs : Steps k c c1) (hl : Link c c1)
    (h : MRes g N c1) : MRes g (k + N) c := by
  obtain ⟨c', r, hh, hl2, ho⟩ := h
  exact ⟨c', r, hh.of_steps hs, hl.trans hl2, ho.mono hl⟩

theorem MRes.mono {g : MCfg} {N M : Nat} {c : Conn} (h : MRes g N c) (hm : N ≤ M) : MRes g M c := by
  obtain ⟨c', r, hh, hl2, ho⟩ := h
  exact ⟨c', r, hh.mono hm, hl2, ho⟩

/-- One poll that starts inside the handler's `readAll`. -/
theorem hread_poll {g : MCfg} (ok : g.OKu) {c : Conn} {r : AReq} {sub : HSub} {dO : Bytes}
    (hph : c.phase = .handler r { ops := .readAll :: g.rest, sub := sub, writers := [], propagate := true })
    (hs : RSt g.K g.L1 [] r c.env.mutex c.env.tr (accOf sub) dO) (hb : Ben c.env.tr)
    (hem : c.env.tr.endMode = .eof) (hev : MEv1 g c.env.tr) (hsc : c.scripts = g.more) :
    MRes g 1 c := by
  have hstep := C07.handler_step c r _ hph
  obtain ⟨G0, hi0⟩ := hs.inv
  have hrl := rem_leT ok.cut hi0
  have hfu := handlerFuel_ge' c.env r
  have hcapr := hi0.capK
  have hcapK : g.K.cap = g.cap := rfl
  rcases readAll_runT ok.cut (L := g.L1) (P := []) g.rest [] true
      (2 * ((g.K.C.length - (accOf sub).length) / 64) + 2 * c.env.tr.input.length + 2) ((handlerFuel c.env r + scriptOf c))
      r sub c.env dO 1 (by omega) (by omega) (fun h => by omega) hb hem hs with
    ⟨r', acc', e', dO', d1, d3, d5, d6, d8, d9⟩ |
    ⟨r', e', f', d1, _, d3, d4, _, _, _, d8, d9⟩
  · rw [d1] at hstep
    have hstep' : stepConn c = .halt ⟨.handler r' (rdH g (.readAllAcc acc')), e', c.scripts, c.stop⟩ .pending := hstep
    exact ⟨_, .pending, Halts.now hstep', ⟨d6.w, d5, rfl⟩,
      Or.inl ⟨rfl, .hread rfl d3 (hb.step d6) (hev.step d6) hsc, d8, d9⟩⟩
  · rw [d1] at hstep
    simp only [if_true] at hstep
    have hstep' : stepConn c = .halt ⟨.finished, (e'.ev (reEvent g.K.C)).ev heEvent, c.scripts, c.stop⟩ .finished := by
      rw [hstep]; simp [heEvent]
    have hts : TStep c.env.tr ((e'.tr.ev (reEvent g.K.C)).ev heEvent) :=
      (d9.trans (TStep.ev _ (isHS_reEvent _))).trans (TStep.ev _ (by simp [isHS, heEvent, toString_str, showIo]))
    refine ⟨_, .finished, Halts.now hstep', ⟨hts.w, d8, rfl⟩, Or.inr ⟨rfl, rfl, ?_, d3, ?_, ?_, ?_, ?_, hsc⟩⟩
    · show e'.tr.wlog = _
      rw [d4]; rfl
    · exact (hev.step hts).1
    · exact (hev.step hts).2
    · show reEvent g.C ∈ (e'.tr.events ++ [reEvent g.K.C]) ++ [heEvent]
      simp [MCfg.K]
    · show heEvent ∈ (e'.tr.events ++ [reEvent g.K.C]) ++ [heEvent]
      simp

/-- **The handler start** on the cut wire: `parse_request` has consumed `F1`, its request parser is
`done`, the final `write_all` of its replies completes. -/
theorem mhandler_start {g : MCfg} (ok : g.OKu) {c1 : Conn} {F1 rest : Bytes} {t' : Transport}
    (hph : c1.phase = .parseReq (track g.cap g.mc F1) (.writing rest true))
    (hw : F1 ++ c1.env.tr.input = g.W) (hstop1 : c1.stop = false)
    (hrem1 : (run .header F1 g.mc).rem.length ≤ g.cap)
    (hf : (run .header F1 g.mc).st.isFinal = true)
    (hwa : writeAllLoop (rest.length + 1) rest c1.env.tr = ([], t', .ready))
    (hlog : t'.wlog = g.L0 ++ (run .header F1 g.mc).out)
    (hsc1 : c1.scripts = (.readAll :: g.rest, true) :: g.more) :
    ∃ e1, F1 = serAll g.recs ++ e1 ∧ e1 ++ c1.env.tr.input = g.Y ∧ t'.wlog = g.L1 ∧ e1.length ≤ g.cap ∧
      stepConn c1 = .next
        ⟨.handler (AReq.new (Str.Parser.fromParser g.cap g.p.request e1 g.mc))
            { ops := .readAll :: g.rest, propagate := true },
          (⟨t', c1.env.mutex, c1.env.segs⟩ : Run.Env).ev (hsEvent g.p.request), g.more, false⟩ := by
  have hF1 : F1 <+: serAll g.recs ++ g.Y := ⟨c1.env.tr.input, by simpa [MCfg.W] using hw⟩
  rcases C06.run_wire_state ok.wf g.Y hF1 g.mc with ⟨e1, hFe, he1, hrun⟩ | ⟨t, _, _, hnf⟩
  · have hd : (track g.cap g.mc F1).state = .done g.p.request := by simp only [track, hrun]
    obtain ⟨r, hrq, hr, hstep⟩ := C07.done_starts_handler c1 (track g.cap g.mc F1) rest [] t' g.p.request
      hph hstop1 hwa hd
    rw [hsc1] at hstep
    have hcap : (track g.cap g.mc F1).cap = g.cap := rfl
    have hinput : (track g.cap g.mc F1).input = e1 := by simp only [track, hrun]
    have hmc : (track g.cap g.mc F1).maxConns = g.mc := rfl
    rw [hcap, hinput, hmc] at hr
    subst hr
    have hwire : e1 ++ c1.env.tr.input = g.Y := by
      have : F1 ++ c1.env.tr.input = serAll g.recs ++ g.Y := by simpa [MCfg.W] using hw
      rw [hFe, List.append_assoc] at this
      exact List.append_cancel_left this
    have he1len : e1.length ≤ g.cap := by
      have := hrem1; rw [hrun] at this; exact this
    exact ⟨e1, hFe, hwire, by rw [hlog, hrun]; rfl, he1len, hstep⟩
  · rw [hf] at hnf; cases hnf

theorem mrinv_start {g : MCfg} (ok : g.OKu) {e1 input : Bytes}
    (hlen : e1.length ≤ g.cap) (hwire : e1 ++ input = g.Y) :
    RInv g.K (AReq.new (Str.Parser.fromParser g.cap g.p.request e1 g.mc)) e1 input [] [] := by
  have hstart : C03SI.Start g.K.E (Str.Parser.fromParser g.cap g.p.request e1 g.mc) :=
    C03SI.start_fresh g.cap g.p.request e1 g.mc hlen (mpid_lt ok).2 ok.role
  refine ⟨hstart.mtch, hstart.inv, rfl, rfl, rfl, hwire, fun x => ?_⟩
  have := C03SI.rem_start hstart x
  show refWire g.K.E (e1 ++ x) = (Rem g.K.E (Str.Parser.fromParser g.cap g.p.request e1 g.mc) x).pre [] []
  rw [this]; rfl

/-- A poll that is inside `parse_request`. -/
theorem mparse_poll {g : MCfg} (ok : g.OKu) {c : Conn} {F : Bytes} (hst : PSt g.cap g.mc g.W g.L0 [] c F)
    (hem : c.env.tr.endMode = .eof)
    (hsc : c.scripts = (.readAll :: g.rest, true) :: g.more) (hm : c.env.mutex = none)
    (hev : hsCount c.env.tr.events = g.hs0) : MRes g (2 * c.env.tr.input.length + 6) c := by
  obtain ⟨n, c1, F1, hn, hs, hfr, hout⟩ := parse_loop (alignedBufsize_ge g.b) (mns ok) _ c F hst (Nat.le_refl _)
  have hnb : n ≤ 2 * c.env.tr.input.length + 2 := by have := wbit_le c; omega
  rcases hout with ⟨c2, h1, h2, h3, h4, h5⟩ | ⟨rest, t', hph, hf, hw, hstop1, hben1, hrem1, hwa, hlog, hts', hinp'⟩ |
      ⟨hin, hnf, hph, hst1⟩
  · refine ⟨c2, .pending, ⟨n, c1, by omega, hs, h1⟩, hfr.link.trans h3.link, Or.inl ⟨rfl, ?_, h4, ?_⟩⟩
    · have hts := hfr.ts.trans h3.ts
      exact .parse h2 (h3.scripts.trans (hfr.scripts.trans hsc)) (h3.mutex.trans (hfr.mutex.trans hm))
        (hts.hs.trans hev)
    · have := hfr.ts.ans_le; omega
  · -- the preamble is complete and its replies are written: the handler starts
    have hsc1 : c1.scripts = (.readAll :: g.rest, true) :: g.more := hfr.scripts.trans hsc
    obtain ⟨e1, _, hwire, hL1, he1len, hstep'⟩ :=
      mhandler_start ok hph (by simpa using hw) hstop1 hrem1 hf hwa hlog hsc1
    have hmx1 : c1.env.mutex = none := hfr.mutex.trans hm
    have hwsE : WStep c1.env.tr (t'.ev (hsEvent g.p.request)) :=
      hts'.w.trans ⟨List.suffix_refl _, List.suffix_refl _, rfl, rfl, Or.inl rfl, Nat.le_refl _,
        fun s hs => List.mem_append_left _ hs⟩
    have hev1 : MEv1 g (t'.ev (hsEvent g.p.request)) := by
      have h0 : hsCount t'.events = g.hs0 := (hfr.ts.trans hts').hs.trans hev
      constructor
      · show hsCount (t'.events ++ [hsEvent g.p.request]) = g.hs0 + 1
        rw [hsCount_append, h0, hsCount_single_true (isHS_hsEvent _)]
      · show hsEvent g.p.request ∈ t'.events ++ [hsEvent g.p.request]
        simp
    have hben2 : Ben (t'.ev (hsEvent g.p.request)) := hben1.wstep hwsE
    have hem2 : (t'.ev (hsEvent g.p.request)).endMode = .eof := hwsE.em.trans (hfr.ts.em.trans hem)
    have hrst : RSt g.K g.L1 [] (AReq.new (Str.Parser.fromParser g.cap g.p.request e1 g.mc)) c1.env.mutex
        (t'.ev (hsEvent g.p.request)) [] [] := by
      refine ⟨⟨e1, mrinv_start ok he1len (by show e1 ++ t'.input = g.Y; rw [hinp']; exact hwire)⟩, ?_,
        Or.inl hmx1, ⟨[], by show t'.wlog = _; rw [hL1, List.append_nil], rfl⟩⟩
      rw [hmx1]; exact lockInv_free rfl
    have hcore := hread_poll ok
      (c := ⟨.handler (AReq.new (Str.Parser.fromParser g.cap g.p.request e1 g.mc))
              { ops := .readAll :: g.rest, propagate := true },
          (⟨t', c1.env.mutex, c1.env.segs⟩ : Run.Env).ev (hsEvent g.p.request), g.more, false⟩)
      (sub := .fresh) rfl hrst hben2 hem2 hev1 rfl
    have hres := MRes.of_steps (hs.trans (Steps.one hstep')) (hfr.link.trans ⟨hwsE, rfl, hstop1.symm ▸ rfl⟩) hcore
    exact hres.mono (by omega)
  · exfalso
    have hF1 : F1 = g.W := by
      have := hst1.wire
      rwa [hin, List.append_nil, List.append_nil] at this
    rcases C06.run_wire_state ok.wf g.Y (F := F1) (by rw [hF1]; exact List.prefix_refl _) g.mc with
      ⟨e1, _, _, hrun⟩ | ⟨t, ht, hFt, _⟩
    · rw [hrun] at hnf; cases hnf
    · rw [hF1, MCfg.W] at hFt
      have := congrArg List.length hFt
      have : 0 < t.length := List.length_pos_iff.mpr ht
      simp only [List.length_append] at *
      omega

theorem mstage_poll {g : MCfg} (ok : g.OKu) {c : Conn} (hst : MStage g c) (hem : c.env.tr.endMode = .eof) :
    MRes g (2 * c.env.tr.input.length + 6) c := by
  cases hst with
  | parse h1 h2 h3 h4 => exact mparse_poll ok h1 hem h2 h3 h4
  | hread h1 h2 h3 h4 h5 => exact (hread_poll ok h1 h2 h3 hem h4 h5).mono (by omega)

theorem MStage.cong {g : MCfg} {c c' : Conn} (h : MStage g c) (hph : c'.phase = c.phase)
    (hsc : c'.scripts = c.scripts) (hstop : c'.stop = c.stop) (hmx : c'.env.mutex = c.env.mutex)
    (hs : TrSame c.env.tr c'.env.tr) : MStage g c' := by
  cases h with
  | parse h1 h2 h3 h4 => exact .parse (h1.cong hph hstop hs) (hsc.trans h2) (hmx.trans h3) (hs.hs.trans h4)
  | hread h1 h2 h3 h4 h5 =>
    exact .hread (hph.trans h1) (h2.cong hmx hs) (hs.ben h3) ⟨hs.hs.trans h4.1, hs.mem h4.2⟩ (hsc.trans h5)

/-- **The executor** on a wire cut inside the stream. -/
theorem mid_run {g : MCfg} (ok : g.OKu) : ∀ (A : Nat) (c : Conn) (n fuel : Nat),
    MStage g c → c.env.tr.endMode = .eof → c.env.segs = [] → ans c.env.tr ≤ A → A + 1 ≤ fuel →
    2 * c.env.tr.input.length + 6 ≤ 100000 →
    ∃ c', runTask fuel c n none = (c', "RET") ∧ MFin g c' := by
  intro A
  induction A with
  | zero =>
    intro c n fuel hst hem hsegs hA hf hlen
    obtain ⟨f, rfl⟩ : ∃ f, fuel = f + 1 := ⟨fuel - 1, by omega⟩
    obtain ⟨hsame, hph, hsc, hstop, hmx, hsg, hwk⟩ := prePoll_same c n hsegs
    have hst0 := hst.cong hph hsc hstop hmx hsame
    obtain ⟨c', r, hh, hl, ho⟩ := mstage_poll ok hst0 (hsame.em.trans hem)
    have hpoll := hh.pollT (by rw [hsame.input]; exact hlen)
    have hans0 : ans (prePoll c n none).env.tr = ans c.env.tr := by unfold ans; rw [hsame.rd, hsame.wr]
    rw [runTask_succ, hpoll]
    rcases ho with ⟨rfl, _, _, ha⟩ | ⟨rfl, hfin⟩
    · omega
    · exact ⟨c', rfl, hfin⟩
  | succ A ih =>
    intro c n fuel hst hem hsegs hA hf hlen
    obtain ⟨f, rfl⟩ : ∃ f, fuel = f + 1 := ⟨fuel - 1, by omega⟩
    obtain ⟨hsame, hph, hsc, hstop, hmx, hsg, hwk⟩ := prePoll_same c n hsegs
    have hst0 := hst.cong hph hsc hstop hmx hsame
    obtain ⟨c', r, hh, hl, ho⟩ := mstage_poll ok hst0 (hsame.em.trans hem)
    have hpoll := hh.pollT (by rw [hsame.input]; exact hlen)
    have hans0 : ans (prePoll c n none).env.tr = ans c.env.tr := by unfold ans; rw [hsame.rd, hsame.wr]
    rw [runTask_succ, hpoll]
    rcases ho with ⟨rfl, hst', hw, ha⟩ | ⟨rfl, hfin⟩
    · simp only [hw, if_true]
      have hlen' : 2 * c'.env.tr.input.length + 6 ≤ 100000 := by
        have := hl.ts.inp
        rw [hsame.input] at this
        omega
      exact ih c' (n + 1) f hst' (hl.ts.em.trans (hsame.em.trans hem)) (hl.segs.trans hsg) (by omega)
        (by omega) hlen'
    · exact ⟨c', rfl, hfin⟩

/-- … started in front of `parse_request`. -/
theorem mid_run_start {g : MCfg} (ok : g.OK) {c : Conn} {n fuel : Nat}
    (hph : c.phase = .parseReq ⟨g.cap, [], .header, g.mc⟩ .start) (hstop : c.stop = false)
    (hinp : c.env.tr.input = g.W) (hlog : c.env.tr.wlog = g.L0) (hb : Ben c.env.tr)
    (hem : c.env.tr.endMode = .eof) (hsegs : c.env.segs = []) (hm : c.env.mutex = none)
    (hsc : c.scripts = (.readAll :: g.rest, true) :: g.more) (hev : hsCount c.env.tr.events = g.hs0)
    (hf : ans c.env.tr + 1 ≤ fuel) (hlen : 2 * c.env.tr.input.length + 7 ≤ 100000) :
    ∃ c', runTask fuel c n none = (c', "RET") ∧ MFin g c' := by
  have ok := ok.toU
  obtain ⟨f, rfl⟩ : ∃ f, fuel = f + 1 := ⟨fuel - 1, by omega⟩
  obtain ⟨hsame, hph0, hsc0, hstop0, hmx, hsg, hwk⟩ := prePoll_same c n hsegs
  rw [runTask_succ]
  generalize prePoll c n none = c0 at *
  have hstop1 : c0.stop = false := hstop0.trans hstop
  have hns0 := mns ok [] (List.nil_prefix)
  have h24 := alignedBufsize_ge g.b
  have hstart := start_track (cap := g.cap) (mc := g.mc) h24 (raw := []) (Nat.zero_le _) hns0
  have hstep := step_start c0 _ (hph0.trans hph) hstop1
  rw [hstart] at hstep
  have hstep' : stepConn c0 = .next (mkC c0 (.parseReq (track g.cap g.mc [])
      (.writing (run .header [] g.mc).out (run .header [] g.mc).st.isFinal)) c0.env.tr) := hstep
  have hremle : (run .header [] g.mc).rem.length ≤ g.cap := by
    have := (run_ok [] g.mc (st := .header) trivial).2.2.length_le
    simp only [List.length_nil] at this
    omega
  have hst : PSt g.cap g.mc g.W g.L0 [] (mkC c0 (.parseReq (track g.cap g.mc [])
      (.writing (run .header [] g.mc).out (run .header [] g.mc).st.isFinal)) c0.env.tr) [] :=
    ⟨by show [] ++ c0.env.tr.input ++ [] = g.W
        rw [hsame.input, hinp, List.nil_append, List.append_nil],
      hstop1, hsame.ben hb, hremle, Or.inr ⟨_, rfl, by show c0.env.tr.wlog ++ _ = _; rw [hsame.wlog, hlog], [], rfl⟩⟩
  have hres := mparse_poll ok hst (hsame.em.trans hem) (hsc0.trans hsc) (hmx.trans hm) (hsame.hs.trans hev)
  obtain ⟨c', r, hh, hl, ho⟩ := MRes.of_steps (Steps.one hstep') (mkC_link c0 _ (.refl _)) hres
  have hpoll := hh.pollT (by
    show 1 + (2 * c0.env.tr.input.length + 6) ≤ 100000
    rw [hsame.input]; omega)
  have hans0 : ans c0.env.tr = ans c.env.tr := by unfold ans; rw [hsame.rd, hsame.wr]
  rw [hpoll]
  rcases ho with ⟨rfl, hst', hw, ha⟩ | ⟨rfl, hfin⟩
  · simp only [hw, if_true]
    have hlen' : 2 * c'.env.tr.input.length + 6 ≤ 100000 := by
      have := hl.ts.inp
      rw [hsame.input] at this
      omega
    exact mid_run ok (ans c'.env.tr) c' (n + 1) f hst' (hl.ts.em.trans (hsame.em.trans hem))
      (hl.segs.trans hsg) (Nat.le_refl _) (by omega) hlen'
  · exact ⟨c', rfl, hfin⟩

end Fcgi.C12E
