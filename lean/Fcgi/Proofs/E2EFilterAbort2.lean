import Fcgi.Proofs.E2EFilterAbort2Str
/-!
# End-to-end composition (C11) — a Filter whose handler READS, aborted before any Data content

Handler `[readAll, set_stream(Data), readAll, return s0]`, run in either error mode `pr`
(`true`: every call is followed by `?` — the first failing read ends the handler with the error, `close`
is called with `ExitStatus::ABORT`; `false`: the handler ignores the errors and returns its own `s0`).

Whatever read fails with the abort error — the first (`AbortRequest` inside Stdin) or the second (between
the Stdin terminator and the first Data content) —, the parser then stands in front of the abort record
(`AtAbort`), the request is NOT writeable (`poll_input` never returned `Ready` on the last input
stream).  `close()`'s `writeable()` selects the Data stream (again), polls for input, fails with the
same abort error at once — swallowed —, and `close` ends with the bare `EndRequest`.

* `ab_wpoll` — one poll of `close` inside `writeable()`, the parser standing in front of the abort
  record (context `g.K0`), `Ow` = the replies generated before.
* `reabort_rst` / `reabort_close` — from `AtAbort` of any stream context of the request to that state.
* `hr2_core` / `hr1A_core` — the handler's polls.
* `S1` / `s1_poll` / `run_filterR1` / `serve_filterR1_core` — placement (i): the abort inside Stdin.
-/
namespace Fcgi.E2E
open Fcgi Fcgi.Req Fcgi.Str Fcgi.Async Fcgi.Run Fcgi.Spec Fcgi.C09E

/-! ## Contexts -/

/-- the Data stream as seen by a parser that stands in front of the request's `AbortRequest` record -/
def Cfg.K0 (g : Cfg) : RCtx := ⟨⟨g.p.id, 3, 8, g.mc⟩, g.p.request, g.cap, g.U, [], [], g.U⟩

/-- the log when `close` is done: the preamble's replies, the replies `Ow` owed for what came before the
abort record, the bare `EndRequest` -/
def Cfg.LfO (g : Cfg) (Ow : Bytes) : Bytes := g.L1 ++ Ow ++ g.epN

/-- a stream of records of the stream and noise, cut by the request's `AbortRequest` record -/
theorem aborted_of_body (E : Str.Cfg) (hs : E.s = 5 ∨ E.s = 8) (hid : E.id < 65536) {content : Bytes}
    {body : List Rec} (hb : Body E.id E.s content body) {a : Rec} (ab : IsAbort E.id a) (tail : Bytes)
    (rq : Request) (cap : Nat) (h8 : 8 ≤ cap) (hfit : NoiseFits cap body) :
    RCtx.Aborted ⟨E, rq, cap, serAll (body ++ [a]) ++ tail, content, owedStream E.id E.s E.mc body, a.ser ++ tail⟩ := by
  have hwa := isAbort_wf ab hid
  have hcls : rclass E a = .abort := by
    simp [rclass, ab.1, ab.2.1, RT.isInputStream, RT.abortRequest]
  have href := refWire_abort E hs hid hb a hwa hcls
  have hwf : ∀ r ∈ body ++ [a], r.WF := by
    intro r hr
    rcases List.mem_append.1 hr with hr | hr
    · exact body_wf hid hb r hr
    · rw [List.mem_singleton.1 hr]; exact hwa
  refine ⟨href tail, ?_, h8⟩
  intro G hG hv
  have hfull : (refWire E (serAll (body ++ [a]))).verdict ≠ .more := by
    have := href []
    rw [List.append_nil] at this
    rw [this]; intro h; cases h
  rcases prefix_append_cases hG with ⟨e, rfl, _⟩ | ⟨t, _, hFt⟩
  · exfalso
    have hv' : (refWire E (serAll (body ++ [a]) ++ e)).verdict = .more := hv
    rw [href e] at hv'
    cases hv'
  · refine stream_fits E _ hwf hfull h8 ?_ G ⟨t, hFt⟩ hv
    intro r hr hg
    rcases List.mem_append.1 hr with hr | hr
    · exact hfit r hr hg
    · rw [List.mem_singleton.1 hr] at hg
      exact absurd hg.1 (by rw [ab.1]; decide)

theorem k0_aborted {g : Cfg} {a : Rec} (hid : g.p.id < 65536) (ab : IsAbort g.p.id a)
    (hU : g.U = a.ser ++ serAll g.body2) : g.K0.Aborted := by
  have h := aborted_of_body ⟨g.p.id, 3, 8, g.mc⟩ (Or.inr rfl) hid Body.nil ab (serAll g.body2) g.p.request g.cap
    (by have := cap24 g; omega) (fun _ h => nomatch h)
  have e1 : serAll ([] ++ [a]) ++ serAll g.body2 = g.U := by
    rw [hU, List.nil_append, C02.serAll_single]
  rw [e1, ← hU] at h
  exact h

/-! ## `close` inside `writeable()`, in front of the abort record -/

/-- `close`, suspended in `writeable()`; the request is not writeable -/
def WA2 (g : Cfg) (Ow : Bytes) (c : Conn) : Prop :=
  ∃ r dO, c.phase = .closing r .inWriteable g.st 0 ∧ RSt g.K0 g.L1 Ow r c.env.mutex c.env.tr [] dO ∧
    r.writeable = false ∧ Ben c.env.tr ∧ c.stop = false ∧ Ev1 g c.env.tr ∧ c.scripts = g.more

/-- the stages of `close` -/
def TA (g : Cfg) (Ow : Bytes) (c : Conn) : Prop := WA2 g Ow c ∨ LE g (g.LfO Ow) g.epN c

theorem TA.cong {g : Cfg} {Ow : Bytes} {c c' : Conn} (h : TA g Ow c)
    (hph : c'.phase = c.phase) (hsc : c'.scripts = c.scripts) (hstop : c'.stop = c.stop)
    (hm : c'.env.mutex = c.env.mutex) (hs : TrSame c.env.tr c'.env.tr) : TA g Ow c' := by
  rcases h with ⟨r, dO, h1, h2, h3, h4, h5, h6, h7⟩ | h
  · exact Or.inl ⟨r, dO, hph.trans h1, h2.cong hm hs, h3, hs.ben h4, hstop.trans h5, hs.ev1 h6, hsc.trans h7⟩
  · exact Or.inr (h.cong hph hsc hstop hm hs)

/-- **One poll of `close` inside `writeable()`**: suspended, or the abort record is reached (again) —
`close` swallows the error and finishes with the bare `EndRequest(id, g.st)`. -/
theorem ab_wpoll {g : Cfg} (hK : g.K0.Aborted) {Ow : Bytes} {c : Conn} {r r1 : AReq} {cs : CloseSt}
    {dO : Bytes} (hph : c.phase = .closing r cs g.st 0)
    (hp1 : closeP1 r cs c.env.mutex c.env.tr = wTail (r1.pollInput none c.env.mutex c.env.tr))
    (hs : RSt g.K0 g.L1 Ow r1 c.env.mutex c.env.tr [] dO) (hnw : r1.writeable = false)
    (hb : Ben c.env.tr) (hstop : c.stop = false) (hev : Ev1 g c.env.tr) (hsc : c.scripts = g.more) :
    GRes3 (TA g Ow) (AfterE g (g.LfO Ow)) (FinE g (g.LfO Ow)) 2 c := by
  rcases hpi : r1.pollInput none c.env.mutex c.env.tr with ⟨r', m', t', res⟩
  obtain ⟨hts, hpost⟩ := pollInput_simA0 hK rfl hb hs hpi
  rw [hnw] at hpost
  rw [hpi] at hp1
  cases res with
  | pending =>
    obtain ⟨⟨dO', hs'⟩, hwk, hans, hw'⟩ := hpost
    have heq : closePoll r cs g.st 0 c.env.mutex c.env.tr = (r', .inWriteable, m', t', .pending) := by
      rw [closePoll_eq', hp1]; rfl
    have hstep := C07.closing_step c r cs g.st 0 hph
    rw [heq] at hstep
    have hstep' : stepConn c = .halt ⟨.closing r' .inWriteable g.st 0, ⟨t', m', c.env.segs⟩, c.scripts, c.stop⟩ .pending :=
      hstep
    exact Or.inl (Or.inl ⟨_, (Halts.now hstep').mono (by omega), ⟨hts.w, rfl, rfl⟩,
      Or.inl ⟨r', dO', rfl, hs', hw', hb.step hts, hstop, hev.step hts, hsc⟩, hwk, hans⟩)
  | ready k d => exact hpost.elim
  | err e =>
    obtain ⟨rfl, rfl, hat, hw'⟩ := hpost
    have hp1' : closeP1 r cs c.env.mutex c.env.tr = .ok (r', none, t', .start) := hp1
    have heq0 := closePoll_w_tail g.st hp1'
    have hrb : (spIgnore r'.sp).isRecordBoundary = true := by
      simp [Str.Parser.isRecordBoundary, spIgnore_pay, spIgnore_pad, hat.pay, hat.pad]
    have hcb : closeBoundary (spIgnore r'.sp) false t' = (spIgnore r'.sp, t', .ready) := by
      simp [closeBoundary, hrb]
    rw [hcb] at heq0
    have hreq : r'.sp.request = g.p.request := hat.req
    have hepi : epilogueOf { r' with sp := spIgnore r'.sp } g.st = g.epN := by
      simp only [epilogueOf, hw', Bool.false_eq_true, if_false, Cfg.epN]
      show makeRequestEpilogue (spIgnore r'.sp).request.id g.st [] = _
      rw [spIgnore_request, hreq]
      rfl
    have heq : closePoll r cs g.st 0 c.env.mutex c.env.tr =
        closeP4 { sp := spIgnore r'.sp, lock := .none, writeable := r'.writeable } none t'
          (.writeOut (spIgnore r'.sp).output g.epN) := by
      rw [heq0, ← hepi]
      simp only [closeTail, closeP2Tail, closeP3_start, Nat.lt_irrefl, gt_iff_lt, if_false, hat.lock, lockDrop]
    have hrawlen : r'.sp.raw.length ≤ g.cap := by
      have := hat.sinv.1
      rw [hat.capK] at this
      simp only [Str.Parser.freeStart] at this
      have e : g.K0.cap = g.cap := rfl
      omega
    have hce : CEndW g { sp := spIgnore r'.sp, lock := .none, writeable := r'.writeable } t'.input :=
      ⟨by show (spIgnore r'.sp).pay = 0; rw [spIgnore_pay]; exact hat.pay,
        by show (spIgnore r'.sp).pad = 0; rw [spIgnore_pad]; exact hat.pad,
        by show (spIgnore r'.sp).raw ++ t'.input = g.U
           rw [spIgnore_raw]; exact hat.wire,
        by show (spIgnore r'.sp).request = _; rw [spIgnore_request]; exact hreq,
        by show (spIgnore r'.sp).cap = _; rw [spIgnore_cap]; exact hat.capK,
        by show (spIgnore r'.sp).maxConns = _; rw [spIgnore_mc]; exact hat.mcK,
        by show (spIgnore r'.sp).raw.length ≤ _; rw [spIgnore_raw]; exact hrawlen⟩
    obtain ⟨O1, hl1, hl2⟩ := hat.log
    have hlog : t'.wlog ++ (spIgnore r'.sp).output ++ g.epN = g.LfO Ow := by
      have hl2' : O1 ++ r'.sp.output = Ow := by rw [hl2]; exact List.append_nil _
      rw [spIgnore_output, hl1, List.append_assoc g.L1, hl2']
      rfl
    exact (eclose_out (g := g) (Lf := g.LfO Ow) (ep := g.epN) hph heq hts hce hlog hb hstop hev hsc).imp
      (fun _ _ h => Or.inr h) (fun _ _ h => h) (fun _ _ h => h)
  | panic s => exact hpost.elim

theorem ta_poll {g : Cfg} (hK : g.K0.Aborted) {Ow : Bytes} {c : Conn} (h : TA g Ow c) :
    GRes3 (TA g Ow) (AfterE g (g.LfO Ow)) (FinE g (g.LfO Ow)) 2 c := by
  rcases h with ⟨r, dO, h1, h2, h3, h4, h5, h6, h7⟩ | h
  · exact ab_wpoll hK h1 (closeP1_resume _ _ _) h2 h3 h4 h5 h6 h7
  · exact (le_poll h).imp (fun _ _ h => Or.inr h) (fun _ _ h => h) (fun _ _ h => h)

/-! ## From the failed read to `close` -/

/-- a stream context of the request `g` whose wire ends in front of the request's `AbortRequest` -/
structure KLink (g : Cfg) (K : RCtx) : Prop where
  U : K.U = g.U
  rq : K.rq = g.p.request
  cap : K.cap = g.cap
  mc : K.E.mc = g.mc

/-- `set_stream(Data)` with the parser standing in front of the abort record (after a failed read of
Stdin or of Data): accepted; the request is ready to read the Data stream — whose first record is the
abort record. -/
theorem reabort_rst {g : Cfg} (hrole : g.p.role = 3) {K : RCtx} {P : Bytes} {r : AReq} {t : Transport}
    (hat : AtAbort K g.L1 P r t) (hl : KLink g K) (hpar : r.sp.parsed = [])
    (hstrm : r.sp.stream = some 5 ∨ r.sp.stream = some 8) :
    ∃ sp8, r.sp.setStream (some 8) = .ok sp8 ∧
      RSt g.K0 g.L1 (P ++ K.O) ({ r with sp := sp8 } : AReq) none t [] [] := by
  have hreq : r.sp.request = g.p.request := hat.req.trans hl.rq
  have hrole' : r.sp.request.role = 3 := by rw [hreq]; exact hrole
  have hid' : r.sp.request.id = g.p.id := by rw [hreq]; rfl
  have hmc : r.sp.maxConns = g.mc := hat.mcK.trans hl.mc
  have hcap : r.sp.cap = g.cap := hat.capK.trans hl.cap
  obtain ⟨O1, l1, l2⟩ := hat.log
  have hwire : r.sp.raw ++ t.input = g.U := hat.wire.trans hl.U
  rcases hstrm with h5 | h8
  · have hset : r.sp.setStream (some 8) = .ok (r.sp.switchTo (some 8)) := by
      rw [setStream_some_input r.sp (s := 8) rfl (fun e he => by rw [h5] at he; cases he; rfl)]
      rw [if_neg (by rw [h5]; decide), if_pos (by rw [hrole', h5]; decide)]
    refine ⟨_, hset, ⟨r.sp.raw, ⟨hid', hrole', rfl, hmc, by show 8 ∈ inputStreams 3; decide⟩,
      SInv_switchTo hat.sinv (Or.inr ⟨8, rfl, by rw [hrole']; decide⟩), hreq, hcap, rfl, hwire, fun x => ?_⟩,
      lockInv_free hat.lock, Or.inl rfl, ⟨O1, l1, by rw [List.append_nil]; exact l2⟩⟩
    show refWire g.K0.E (r.sp.raw ++ x) = (Rem g.K0.E (r.sp.switchTo (some 8)) x).pre [] []
    have hp : (r.sp.switchTo (some 8)).pay = 0 := hat.pay
    have hd : (r.sp.switchTo (some 8)).pad = 0 := hat.pad
    unfold Rem
    rw [hp, hd]
    show _ = ref g.K0.E _ 0 0 (r.sp.raw ++ x)
    rw [ref_eq_refWire]
  · have hset : r.sp.setStream (some 8) = .ok r.sp := by
      rw [setStream_some_input r.sp (s := 8) rfl (fun e he => by rw [h8] at he; cases he; rfl)]
      rw [if_pos h8]
    refine ⟨_, hset, ⟨r.sp.raw, ⟨hid', hrole', h8, hmc, by show 8 ∈ inputStreams 3; decide⟩,
      hat.sinv, hreq, hcap, hpar, hwire, fun x => ?_⟩,
      lockInv_free hat.lock, Or.inl rfl, ⟨O1, l1, by rw [List.append_nil]; exact l2⟩⟩
    show refWire g.K0.E (r.sp.raw ++ x) = (Rem g.K0.E r.sp x).pre [] []
    unfold Rem
    rw [hat.pay, hat.pad]
    show _ = ref g.K0.E _ 0 0 (r.sp.raw ++ x)
    rw [ref_eq_refWire]

/-- `close` called with the parser standing in front of the abort record, the request not writeable -/
theorem reabort_close {g : Cfg} (hK0 : g.K0.Aborted) (hrole : g.p.role = 3) {K : RCtx} {P Ow : Bytes}
    {c : Conn} {r : AReq} (hph : c.phase = .closing r .start g.st 0)
    (hat : AtAbort K g.L1 P r c.env.tr) (hl : KLink g K) (hOw : P ++ K.O = Ow) (hpar : r.sp.parsed = [])
    (hstrm : r.sp.stream = some 5 ∨ r.sp.stream = some 8) (hm : c.env.mutex = none)
    (hnw : r.writeable = false)
    (hb : Ben c.env.tr) (hstop : c.stop = false) (hev : Ev1 g c.env.tr) (hsc : c.scripts = g.more) :
    GRes3 (TA g Ow) (AfterE g (g.LfO Ow)) (FinE g (g.LfO Ow)) 2 c := by
  obtain ⟨sp8, hset, hrst⟩ := reabort_rst hrole hat hl hpar hstrm
  have hlast : (inputStreams r.sp.request.role).getLast? = some 8 := by
    rw [hat.req, hl.rq]
    show (inputStreams g.p.role).getLast? = some 8
    rw [hrole]; rfl
  rw [hOw] at hrst
  exact ab_wpoll hK0 (r1 := { r with sp := sp8 }) hph
    (closeP1_first r _ _ hnw (sp8 := sp8) (by rw [hlast]; exact hset)) (by rw [hm]; exact hrst) hnw
    hb hstop hev hsc

/-! ## The handler -/

/-- the handler: read Stdin to its end, select Data, read Data to its end, return `s0` -/
def rscript (s0 : ExitStatus) : List HOp := [.readAll, .setStream 8, .readAll, .ret s0]

/-- the poll of the handler ended the handler, after a read that failed with the abort error: with that
error (mode `pr`), or — error ignored — with the handler's own `s0` -/
def HDoneA (g : Cfg) (Ow : Bytes) (s0 : ExitStatus) (pr : Bool) (fuel : Nat) (r : AReq) (H : HState) (e : Run.Env) :
    Prop :=
  ∃ (K : RCtx) (P : Bytes) (r' : AReq) (H' : HState) (e' : Run.Env), KLink g K ∧ P ++ K.O = Ow ∧
    handlerPoll fuel r H e = (r', H', e', .done (if pr then .error .abortRequest else .ok s0)) ∧
    H'.writers = [] ∧ AtAbort K g.L1 P r' e'.tr ∧ e'.mutex = none ∧ e'.segs = e.segs ∧ TStep e.tr e'.tr ∧
    r'.writeable = r.writeable ∧ r'.sp.parsed = [] ∧ (r'.sp.stream = some 5 ∨ r'.sp.stream = some 8)

/-- The handler in its second `readAll`, on a Data stream cut by the abort before any content. -/
theorem hr2_core {g : Cfg} {K2 : RCtx} (hK : K2.Aborted) (hC : K2.C = []) (hl : KLink g K2)
    (hs8 : K2.E.s = 5 ∨ K2.E.s = 8) {P2 Ow : Bytes} (hOw : P2 ++ K2.O = Ow) (s0 : ExitStatus) (pr : Bool)
    (fuel : Nat) (r : AReq) (sub : HSub) (e : Run.Env) (dO : Bytes)
    (hf : 2 * e.tr.input.length + 4 ≤ fuel) (hb : Ben e.tr)
    (hs : RSt K2 g.L1 P2 r e.mutex e.tr (accOf sub) dO) :
    (∃ (r' : AReq) (acc' : Bytes) (e' : Run.Env) (dO' : Bytes),
      handlerPoll fuel r ⟨[.readAll, .ret s0], sub, [], pr⟩ e =
        (r', ⟨[.readAll, .ret s0], .readAllAcc acc', [], pr⟩, e', .pending) ∧
      RSt K2 g.L1 P2 r' e'.mutex e'.tr acc' dO' ∧ e'.segs = e.segs ∧ TStep e.tr e'.tr ∧
      e'.tr.woken = true ∧ ans e'.tr < ans e.tr ∧ r'.writeable = r.writeable) ∨
    HDoneA g Ow s0 pr fuel r ⟨[.readAll, .ret s0], sub, [], pr⟩ e := by
  have h0 : (K2.C.length - (accOf sub).length) / 64 = 0 := by rw [hC]; simp
  obtain ⟨G0, hi0⟩ := hs.inv
  rcases readAll_runAW hK (Or.inr hC) (L := g.L1) (P := P2) [.ret s0] [] pr
      (2 * e.tr.input.length + 2) fuel r sub e dO 1 (by rw [h0]; omega) (by omega) (fun h => by omega) hb hs with
    ⟨r', acc', e', dO', d1, d3, d5, d6, d8, d9, d10⟩ |
    ⟨r', acc, lost, e', f', d1, d2, d3, d4, d5, d6, d7, d8, d9, d10⟩
  · exact Or.inl ⟨r', acc', e', dO', d1, d3, d5, d6, d8, d9, d10⟩
  · right
    have hts1 : TStep e.tr (e'.ev (raEvent acc)).tr := d7.trans (TStep.ev _ (isHS_raEvent _))
    have hstr : r'.sp.stream = some 5 ∨ r'.sp.stream = some 8 := by
      rw [d10, hi0.mt.strm]
      rcases hs8 with h | h <;> rw [h] <;> simp
    refine ⟨K2, P2, r', ⟨[.ret s0], .fresh, [], pr⟩, e'.ev (raEvent acc), hl, hOw, ?_, rfl, d4.congr rfl rfl,
      d5, d6, hts1, d8, d9, hstr⟩
    cases pr with
    | true => simpa using d1
    | false =>
      simp only [Bool.false_eq_true, if_false] at d1 ⊢
      obtain ⟨f2, rfl⟩ : ∃ f2, f' = f2 + 1 := ⟨f' - 1, by omega⟩
      rw [hp_ret] at d1
      exact d1

/-- The handler in its first `readAll`, on a Stdin stream cut by the abort. -/
theorem hr1A_core {g : Cfg} {K1 : RCtx} (hK1 : K1.Aborted) (hfin : K1.final = false) (hl1 : KLink g K1)
    (hs5 : K1.E.s = 5) (hK0 : g.K0.Aborted) (hrole : g.p.role = 3) {Ow : Bytes} (hOw : K1.O = Ow)
    (s0 : ExitStatus) (pr : Bool) (fuel : Nat) (r : AReq) (sub : HSub) (e : Run.Env) (dO : Bytes)
    (hf : 2 * ((K1.C.length - (accOf sub).length) / 64) + 4 * e.tr.input.length + 10 ≤ fuel) (hb : Ben e.tr)
    (hs : RSt K1 g.L1 [] r e.mutex e.tr (accOf sub) dO) :
    (∃ (r' : AReq) (acc' : Bytes) (e' : Run.Env) (dO' : Bytes),
      handlerPoll fuel r ⟨rscript s0, sub, [], pr⟩ e = (r', ⟨rscript s0, .readAllAcc acc', [], pr⟩, e', .pending) ∧
      RSt K1 g.L1 [] r' e'.mutex e'.tr acc' dO' ∧ e'.segs = e.segs ∧ TStep e.tr e'.tr ∧
      e'.tr.woken = true ∧ ans e'.tr < ans e.tr ∧ r'.writeable = r.writeable) ∨
    (∃ (r' : AReq) (acc' : Bytes) (e' : Run.Env) (dO' : Bytes),
      handlerPoll fuel r ⟨rscript s0, sub, [], pr⟩ e =
        (r', ⟨[.readAll, .ret s0], .readAllAcc acc', [], pr⟩, e', .pending) ∧
      RSt g.K0 g.L1 Ow r' e'.mutex e'.tr acc' dO' ∧ e'.segs = e.segs ∧ TStep e.tr e'.tr ∧
      e'.tr.woken = true ∧ ans e'.tr < ans e.tr ∧ r'.writeable = r.writeable) ∨
    HDoneA g Ow s0 pr fuel r ⟨rscript s0, sub, [], pr⟩ e := by
  obtain ⟨G0, hi0⟩ := hs.inv
  rcases readAll_runAW hK1 (Or.inl hfin) (L := g.L1) (P := []) [.setStream 8, .readAll, .ret s0] [] pr
      (2 * ((K1.C.length - (accOf sub).length) / 64) + 2 * e.tr.input.length + 2) fuel r sub e dO 1
      (by omega) (by omega) (fun h => by omega) hb hs with
    ⟨r', acc', e', dO', d1, d3, d5, d6, d8, d9, d10⟩ |
    ⟨r', acc, lost, e', f', d1, d2, d3, d4, d5, d6, d7, d8, d9, d10⟩
  · exact Or.inl ⟨r', acc', e', dO', d1, d3, d5, d6, d8, d9, d10⟩
  · right
    have hts1 : TStep e.tr (e'.ev (raEvent acc)).tr := d7.trans (TStep.ev _ (isHS_raEvent _))
    have hstr : r'.sp.stream = some 5 := by rw [d10, hi0.mt.strm, hs5]
    cases pr with
    | true =>
      right
      refine ⟨K1, [], r', ⟨[.setStream 8, .readAll, .ret s0], .fresh, [], true⟩, e'.ev (raEvent acc), hl1,
        by rw [List.nil_append]; exact hOw, ?_, rfl, d4.congr rfl rfl, d5, d6, hts1, d8, d9, Or.inl hstr⟩
      simpa [rscript] using d1
    | false =>
      simp only [Bool.false_eq_true, if_false] at d1
      obtain ⟨f2, rfl⟩ : ∃ f2, f' = f2 + 1 := ⟨f' - 1, by omega⟩
      obtain ⟨sp8, hset, hrst⟩ := reabort_rst hrole d4 hl1 d9 (Or.inl hstr)
      have hset' : r'.setStream 8 = some { r' with sp := sp8 } := by simp [AReq.setStream, hset]
      rw [hp_setStream, hset'] at d1
      simp only at d1
      have hrst' : RSt g.K0 g.L1 Ow ({ r' with sp := sp8 } : AReq) ((e'.ev (raEvent acc)).ev "s=ok").mutex
          ((e'.ev (raEvent acc)).ev "s=ok").tr (accOf .fresh) [] := by
        rw [List.nil_append, hOw] at hrst
        obtain ⟨⟨G, hi⟩, lk, mx, lg⟩ := hrst
        show RSt g.K0 g.L1 Ow _ e'.mutex _ [] []
        rw [d5]
        exact ⟨⟨G, hi⟩, lk, mx, lg⟩
      have hts2 : TStep e.tr ((e'.ev (raEvent acc)).ev "s=ok").tr := hts1.trans (TStep.ev _ (by decide))
      have hinle : ((e'.ev (raEvent acc)).ev "s=ok").tr.input.length ≤ e.tr.input.length := hts2.tle.input_len
      rcases hr2_core (g := g) hK0 rfl ⟨rfl, rfl, rfl, rfl⟩ (Or.inr rfl) (P2 := Ow) (Ow := Ow) (List.append_nil _) s0
          false f2 { r' with sp := sp8 } .fresh ((e'.ev (raEvent acc)).ev "s=ok") [] (by omega)
          (hb.step hts2) hrst' with
        ⟨r2, acc2, e2, dO2, q1, q3, q5, q6, q8, q9, q10⟩ |
        ⟨K, P, r2, H2, e2, k1, k2, k3, k4, k5, k6, k7, k8, k9, k10, k11⟩
      · left
        refine ⟨r2, acc2, e2, dO2, by rw [rscript, d1]; exact q1, q3, q5.trans d6, hts2.trans q6, q8, ?_, q10.trans d8⟩
        have := hts2.ans_le
        have q9' : ans e2.tr < ans ((e'.ev (raEvent acc)).ev "s=ok").tr := q9
        omega
      · right
        exact ⟨K, P, r2, H2, e2, k1, k2, by rw [rscript, d1]; exact k3, k4, k5, k6, k7.trans d6, hts2.trans k8,
          k9.trans d8, k10, k11⟩

/-! ## The connection task -/

/-- the handler has ended after its failed read: `close` -/
theorem done_close {g : Cfg} (hK0 : g.K0.Aborted) (hrole : g.p.role = 3) {Ow : Bytes} {s0 : ExitStatus}
    {pr : Bool} (hmode : g.st = if pr then ExitStatus.abort else s0) {c : Conn} {r : AReq} {H : HState}
    (hph : c.phase = .handler r H) (hd : HDoneA g Ow s0 pr ((handlerFuel c.env r + scriptOf c)) r H c.env)
    (hnw : r.writeable = false) (hb : Ben c.env.tr) (hstop : c.stop = false) (hev : Ev1 g c.env.tr)
    (hsc : c.scripts = g.more) :
    GRes3 (TA g Ow) (AfterE g (g.LfO Ow)) (FinE g (g.LfO Ow)) 3 c := by
  obtain ⟨K, P, r', H', e', hl, hOw, heq, hws, hat, hm, hsg, hts, hw, hpar, hstr⟩ := hd
  have hstep := C07.handler_step c r H hph
  rw [heq] at hstep
  have fin : ∀ (ev : String), isHS ev = false →
      stepConn c = .next ⟨.closing r' .start g.st 0, e'.ev ev, c.scripts, c.stop⟩ →
      GRes3 (TA g Ow) (AfterE g (g.LfO Ow)) (FinE g (g.LfO Ow)) 3 c := by
    intro ev hq hstep'
    have hts2 : TStep c.env.tr (e'.ev ev).tr := hts.trans (TStep.ev _ hq)
    have hcore := reabort_close hK0 hrole
      (c := ⟨.closing r' .start g.st 0, e'.ev ev, c.scripts, c.stop⟩) rfl
      (hat.congr rfl rfl) hl hOw hpar hstr hm (hw.trans hnw) (hb.step hts2) hstop (hev.step hts2) hsc
    exact (GRes3.of_steps (Steps.one hstep') ⟨hts2.w, hsg, rfl⟩ hcore).mono (by omega)
  cases pr with
  | true =>
    simp only [if_true] at hmode hstep
    rw [hws] at hstep
    refine fin "HE(err:abort-request)" (by decide) ?_
    rw [hmode]
    exact hstep
  | false =>
    simp only [Bool.false_eq_true, if_false] at hmode hstep
    rw [hws] at hstep
    refine fin s!"HE(ok:{showStatus g.st})" (by simp [isHS, toString_str]) ?_
    rw [hmode]
    exact hstep

/-- the handler suspended in its second `readAll` -/
def HR2 (g : Cfg) (K2 : RCtx) (P2 : Bytes) (s0 : ExitStatus) (pr : Bool) (c : Conn) : Prop :=
  ∃ r sub dO, c.phase = .handler r ⟨[.readAll, .ret s0], sub, [], pr⟩ ∧
    RSt K2 g.L1 P2 r c.env.mutex c.env.tr (accOf sub) dO ∧
    r.writeable = false ∧ Ben c.env.tr ∧ c.stop = false ∧ Ev1 g c.env.tr ∧ c.scripts = g.more

theorem HR2.cong {g : Cfg} {K2 : RCtx} {P2 : Bytes} {s0 : ExitStatus} {pr : Bool} {c c' : Conn}
    (h : HR2 g K2 P2 s0 pr c)
    (hph : c'.phase = c.phase) (hsc : c'.scripts = c.scripts) (hstop : c'.stop = c.stop)
    (hm : c'.env.mutex = c.env.mutex) (hs : TrSame c.env.tr c'.env.tr) : HR2 g K2 P2 s0 pr c' := by
  obtain ⟨r, sub, dO, h1, h2, h3, h4, h5, h6, h7⟩ := h
  exact ⟨r, sub, dO, hph.trans h1, h2.cong hm hs, h3, hs.ben h4, hstop.trans h5, hs.ev1 h6, hsc.trans h7⟩

/-- **One poll** with the handler in its second `readAll`. -/
theorem hr2_poll {g : Cfg} {K2 : RCtx} (hK : K2.Aborted) (hC : K2.C = []) (hl : KLink g K2)
    (hs8 : K2.E.s = 5 ∨ K2.E.s = 8) {P2 Ow : Bytes} (hOw : P2 ++ K2.O = Ow)
    (hK0 : g.K0.Aborted) (hrole : g.p.role = 3) {s0 : ExitStatus}
    {pr : Bool} (hmode : g.st = if pr then ExitStatus.abort else s0) {c : Conn}
    (h : HR2 g K2 P2 s0 pr c) :
    GRes3 (fun c => HR2 g K2 P2 s0 pr c ∨ TA g Ow c) (AfterE g (g.LfO Ow)) (FinE g (g.LfO Ow)) 3 c := by
  obtain ⟨r, sub, dO, hph, hs, hnw, hb, hstop, hev, hsc⟩ := h
  have hfuel := handlerFuel_ge c.env r
  rcases hr2_core hK hC hl hs8 hOw s0 pr ((handlerFuel c.env r + scriptOf c)) r sub c.env dO (by omega) hb hs with
    ⟨r', acc', e', dO', d1, d3, d5, d6, d8, d9, d10⟩ | hd
  · have hstep := C07.handler_step c r _ hph
    rw [d1] at hstep
    have hstep' : stepConn c = .halt ⟨.handler r' ⟨[.readAll, .ret s0], .readAllAcc acc', [], pr⟩, e', c.scripts, c.stop⟩
        .pending := hstep
    exact Or.inl (Or.inl ⟨_, (Halts.now hstep').mono (by omega), ⟨d6.w, d5, rfl⟩,
      Or.inl ⟨r', .readAllAcc acc', dO', rfl, d3, d10.trans hnw, hb.step d6, hstop, hev.step d6, hsc⟩, d8, d9⟩)
  · exact (done_close hK0 hrole hmode hph hd hnw hb hstop hev hsc).imp
      (fun _ _ h => Or.inr h) (fun _ _ h => h) (fun _ _ h => h)

/-! ## Placement (i): the `AbortRequest` inside Stdin -/

/-- The hypotheses: a Filter; `g.body` = the Stdin records (content `g.content`, no terminator) and noise
before the request's `AbortRequest` record `a`, `g.body2` = the records behind it; the handler `rscript s0`
in mode `pr`; `g.st` = the status `close` is called with. -/
structure FR1OK (g : Cfg) (a : Rec) (s0 : ExitStatus) (pr : Bool) : Prop where
  wf : WellFormedPreamble g.p g.recs
  role : g.p.role = 3
  pairs : ∀ q ∈ g.p.pairs, (NV.enc q).length ≤ alignedBufsize g.b
  noise : NoiseFits (alignedBufsize g.b) g.recs
  body : Body g.p.id 5 g.content g.body
  bfits : NoiseFits (alignedBufsize g.b) g.body
  ab : IsAbort g.p.id a
  hX : g.X = serAll (g.body ++ [a]) ++ serAll g.body2
  hU : g.U = a.ser ++ serAll g.body2
  hs : g.hscript = rscript s0
  mode : g.st = if pr then ExitStatus.abort else s0
  /-- model fuel: `handlerPoll` gets `1000 + 4·|input| + 4·cap` units per poll -/
  hfu : g.X.length ≤ 31000

theorem FR1OK.fok {g : Cfg} {a : Rec} {s0 : ExitStatus} {pr : Bool} (ok : FR1OK g a s0 pr) : FOK g :=
  ⟨ok.wf, ok.pairs, ok.noise⟩
theorem FR1OK.hid {g : Cfg} {a : Rec} {s0 : ExitStatus} {pr : Bool} (ok : FR1OK g a s0 pr) : g.p.id < 65536 :=
  (pid_of_wf ok.wf).2

theorem FR1OK.front {g : Cfg} {a : Rec} {s0 : ExitStatus} {pr : Bool} (ok : FR1OK g a s0 pr) {us : List Rec}
    (hu : LeftOK (alignedBufsize g.b) us) : FR1OK (g.front us) a s0 pr :=
  ⟨wf_idle ok.wf us hu.1, ok.role, ok.pairs, noiseFits_app hu.2 ok.noise, ok.body, ok.bfits, ok.ab, ok.hX, ok.hU,
    ok.hs, ok.mode, ok.hfu⟩

/-- the Stdin stream, cut by the abort -/
def Cfg.K5a (g : Cfg) : RCtx :=
  ⟨⟨g.p.id, 3, 5, g.mc⟩, g.p.request, g.cap, g.X, g.content, owedStream g.p.id 5 g.mc g.body, g.U⟩

/-- the replies owed for what precedes the abort record -/
def Cfg.Ow1 (g : Cfg) : Bytes := owedStream g.p.id 5 g.mc g.body

theorem FR1OK.k5 {g : Cfg} {a : Rec} {s0 : ExitStatus} {pr : Bool} (ok : FR1OK g a s0 pr) : g.K5a.Aborted := by
  have h := aborted_of_body ⟨g.p.id, 3, 5, g.mc⟩ (Or.inl rfl) ok.hid ok.body ok.ab (serAll g.body2) g.p.request g.cap
    (by have := cap24 g; omega) ok.bfits
  rw [← ok.hX, ← ok.hU] at h
  exact h

theorem FR1OK.k0 {g : Cfg} {a : Rec} {s0 : ExitStatus} {pr : Bool} (ok : FR1OK g a s0 pr) : g.K0.Aborted :=
  k0_aborted ok.hid ok.ab ok.hU

theorem k5a_final (g : Cfg) : g.K5a.final = false := by
  simp [RCtx.final, Cfg.K5a, nextInputStream, RT.stdin]

/-- the handler suspended in its first `readAll` -/
def HR1A (g : Cfg) (s0 : ExitStatus) (pr : Bool) (c : Conn) : Prop :=
  ∃ r sub dO, c.phase = .handler r ⟨rscript s0, sub, [], pr⟩ ∧
    RSt g.K5a g.L1 [] r c.env.mutex c.env.tr (accOf sub) dO ∧
    r.writeable = false ∧ Ben c.env.tr ∧ c.stop = false ∧ Ev1 g c.env.tr ∧ c.scripts = g.more

def S1 (g : Cfg) (s0 : ExitStatus) (pr : Bool) (c : Conn) : Prop :=
  FStageP g pr c ∨ HR1A g s0 pr c ∨ HR2 g g.K0 g.Ow1 s0 pr c ∨ TA g g.Ow1 c

theorem S1.cong {g : Cfg} {s0 : ExitStatus} {pr : Bool} {c c' : Conn} (h : S1 g s0 pr c)
    (hph : c'.phase = c.phase) (hsc : c'.scripts = c.scripts) (hstop : c'.stop = c.stop)
    (hm : c'.env.mutex = c.env.mutex) (hs : TrSame c.env.tr c'.env.tr) : S1 g s0 pr c' := by
  rcases h with h | ⟨r, sub, dO, h1, h2, h3, h4, h5, h6, h7⟩ | h | h
  · exact Or.inl (h.cong hph hsc hstop hm hs)
  · exact Or.inr (Or.inl ⟨r, sub, dO, hph.trans h1, h2.cong hm hs, h3, hs.ben h4, hstop.trans h5, hs.ev1 h6,
      hsc.trans h7⟩)
  · exact Or.inr (Or.inr (Or.inl (h.cong hph hsc hstop hm hs)))
  · exact Or.inr (Or.inr (Or.inr (h.cong hph hsc hstop hm hs)))

/-- **One poll** with the handler in (or about to start) its first `readAll`. -/
theorem hr1A_poll {g : Cfg} {a : Rec} {s0 : ExitStatus} {pr : Bool} (ok : FR1OK g a s0 pr) {c : Conn}
    (h : HR1A g s0 pr c) :
    GRes3 (S1 g s0 pr) (AfterE g (g.LfO g.Ow1)) (FinE g (g.LfO g.Ow1)) 3 c := by
  obtain ⟨r, sub, dO, hph, hs, hnw, hb, hstop, hev, hsc⟩ := h
  have hK := ok.k5
  obtain ⟨G0, hi0⟩ := hs.inv
  have hrl := hi0.rem_leA hK
  have hcapr : r.sp.cap = g.cap := hi0.capK
  have hcapK : g.K5a.cap = g.cap := rfl
  have hinl : c.env.tr.input.length ≤ g.X.length := by
    have := congrArg List.length hi0.wire
    simp only [List.length_append] at this
    have e : g.K5a.X = g.X := rfl
    rw [e] at this
    omega
  have hfu := ok.hfu
  have hfuel : 2 * ((g.K5a.C.length - (accOf sub).length) / 64) + 4 * c.env.tr.input.length + 10 ≤
      (handlerFuel c.env r + scriptOf c) := by
    unfold handlerFuel
    rw [hcapr]
    omega
  rcases hr1A_core hK (k5a_final g) ⟨rfl, rfl, rfl, rfl⟩ rfl ok.k0 ok.role (Ow := g.Ow1) rfl s0 pr
      ((handlerFuel c.env r + scriptOf c)) r sub c.env dO hfuel hb hs with
    ⟨r', acc', e', dO', d1, d3, d5, d6, d8, d9, d10⟩ | ⟨r', acc', e', dO', d1, d3, d5, d6, d8, d9, d10⟩ | hd
  · have hstep := C07.handler_step c r _ hph
    rw [d1] at hstep
    have hstep' : stepConn c = .halt ⟨.handler r' ⟨rscript s0, .readAllAcc acc', [], pr⟩, e', c.scripts, c.stop⟩
        .pending := hstep
    exact Or.inl (Or.inl ⟨_, (Halts.now hstep').mono (by omega), ⟨d6.w, d5, rfl⟩,
      Or.inr (Or.inl ⟨r', .readAllAcc acc', dO', rfl, d3, d10.trans hnw, hb.step d6, hstop, hev.step d6, hsc⟩),
      d8, d9⟩)
  · have hstep := C07.handler_step c r _ hph
    rw [d1] at hstep
    have hstep' : stepConn c = .halt ⟨.handler r' ⟨[.readAll, .ret s0], .readAllAcc acc', [], pr⟩, e', c.scripts, c.stop⟩
        .pending := hstep
    exact Or.inl (Or.inl ⟨_, (Halts.now hstep').mono (by omega), ⟨d6.w, d5, rfl⟩,
      Or.inr (Or.inr (Or.inl ⟨r', .readAllAcc acc', dO', rfl, d3, d10.trans hnw, hb.step d6, hstop, hev.step d6,
        hsc⟩)), d8, d9⟩)
  · exact (done_close ok.k0 ok.role ok.mode hph hd hnw hb hstop hev hsc).imp
      (fun _ _ h => Or.inr (Or.inr (Or.inr h))) (fun _ _ h => h) (fun _ _ h => h)

/-- the first poll of the handler -/
theorem filterR1_first {g : Cfg} {a : Rec} {s0 : ExitStatus} {pr : Bool} (ok : FR1OK g a s0 pr) (c : Conn)
    (hc : FirstCfgP g pr c) :
    GRes3 (S1 g s0 pr) (AfterE g (g.LfO g.Ow1)) (FinE g (g.LfO g.Ow1)) 6 c := by
  obtain ⟨e1, hph, hlen, hwire, hlog, hm, hb, hstop, hev, hsc⟩ := hc
  have hrole : g.p.request.role = 3 := ok.role
  have hwr : (AReq.new (Str.Parser.fromParser g.cap g.p.request e1 g.mc)).writeable = false := by
    simp [AReq.new, Str.Parser.fromParser, hrole, inputStreams]
  have hstart : C03SI.Start g.K5a.E (Str.Parser.fromParser g.cap g.p.request e1 g.mc) := by
    have := C03SI.start_fresh g.cap g.p.request e1 g.mc hlen ok.hid (Or.inr hrole)
    rw [hrole] at this
    exact this
  have hrinv : RInv g.K5a (AReq.new (Str.Parser.fromParser g.cap g.p.request e1 g.mc)) e1 c.env.tr.input [] [] := by
    refine ⟨hstart.mtch, hstart.inv, rfl, rfl, rfl, hwire, fun x => ?_⟩
    have := C03SI.rem_start hstart x
    show refWire g.K5a.E (e1 ++ x) = (Rem g.K5a.E (Str.Parser.fromParser g.cap g.p.request e1 g.mc) x).pre [] []
    rw [this]; rfl
  rw [ok.hs] at hph
  exact (hr1A_poll ok ⟨_, .fresh, [], hph, ⟨⟨e1, hrinv⟩, by rw [hm]; exact lockInv_free rfl, Or.inl hm,
    ⟨[], by rw [hlog, List.append_nil], rfl⟩⟩, hwr, hb, hstop, hev, hsc⟩).mono (by omega)

theorem s1_poll {g : Cfg} {a : Rec} {s0 : ExitStatus} {pr : Bool} (ok : FR1OK g a s0 pr) {c : Conn}
    (h : S1 g s0 pr c) :
    GRes3 (S1 g s0 pr) (AfterE g (g.LfO g.Ow1)) (FinE g (g.LfO g.Ow1)) (2 * c.env.tr.input.length + 15) c := by
  rcases h with h | h | h | h
  · exact fstage_poll3P ok.fok (fun _ h => Or.inl h) (filterR1_first ok) h
  · exact (hr1A_poll ok h).mono (by omega)
  · exact ((hr2_poll ok.k0 rfl ⟨rfl, rfl, rfl, rfl⟩ (Or.inr rfl) (List.append_nil _) ok.k0 ok.role ok.mode h).imp
      (fun _ _ h => h.elim (fun h => Or.inr (Or.inr (Or.inl h))) (fun h => Or.inr (Or.inr (Or.inr h))))
      (fun _ _ h => h) (fun _ _ h => h)).mono (by omega)
  · exact ((ta_poll ok.k0 h).imp (fun _ _ h => Or.inr (Or.inr (Or.inr h))) (fun _ _ h => h) (fun _ _ h => h)).mono
      (by omega)

/-- **The executor**, placement (i). -/
theorem run_filterR1 {g : Cfg} {a : Rec} {s0 : ExitStatus} {pr : Bool} (ok : FR1OK g a s0 pr) {Z : Bytes}
    (hns : NoStuckW g.cap g.mc (g.U ++ Z))
    (hNF : ∀ F x, F ++ x ++ Z = g.U ++ Z → (run .header F g.mc).st.isFinal = false)
    (em : EndMode) (evs0 : List String) (c : Conn) (n0 fuel : Nat) (hst : FStageP g pr c)
    (hem : c.env.tr.endMode = em) (hev0 : ∀ s ∈ evs0, s ∈ c.env.tr.events)
    (hsegs : c.env.segs = []) (hf : ans c.env.tr + 1 ≤ fuel) (hlen : 6 * c.env.tr.input.length + 26 ≤ 100000) :
    ∃ c'' fin, runTask fuel c n0 none = (c'', fin) ∧
      (GEnd g.cap g.mc Z g.more (g.hs0 + 1) (fun _ : Unit => g.p.flags.toNat % 2 = 1) (fun _ => g.U ++ Z)
          (fun _ => g.LfO g.Ow1) (fun _ => [hsEvent g.p.request]) em evs0 (ans c.env.tr) c'' fin ∨
       (fin = "RET" ∧ FinE g (g.LfO g.Ow1) c'' ∧ c''.env.tr.endMode = em ∧ (∀ s ∈ evs0, s ∈ c''.env.tr.events))) :=
  run_stages3 (cap24 g) (fun _ _ => hns) (fun _ _ => hNF) (fun _ _ h => h.cong)
    (fun _ h => (s1_poll ok h).imp (fun _ _ h => h)
      (fun _ _ h => h.ztail (evs := []) (fun _ hs => nomatch hs)) (fun _ _ h => h))
    em evs0 c n0 fuel (Or.inl hst) hem hev0 hsegs hf hlen

/-- the request (KEEP_CONN) started from any `StartAt` of a chain: it ends parked behind its abort
record and what followed it -/
theorem serve_filterR1_core {g : Cfg} {a : Rec} {s0 : ExitStatus} {pr : Bool} (ok : FR1OK g a s0 pr) (hk : g.p.flags.toNat % 2 = 1)
    {left : List Rec} (hleft : LeftOK (alignedBufsize g.b) left) {Z : Bytes}
    (hR : ∀ e ∈ a :: g.body2, IdleNoise e) (hZ : GoodNext g.cap g.mc (a :: g.body2) Z)
    {Lw : Bytes} {evs : List String} {A0 : Nat} {c : Conn} (n0 fuel : Nat)
    (hLw : Lw = g.L0 ++ idleOwed g.mc left)
    (hstart : StartAt g.cap g.mc left Lw ((g.hscript, pr) :: g.more) g.hs0 evs A0 g.W c)
    (hf : A0 + 1 ≤ fuel) (hsize : 6 * g.W.length + 26 ≤ 100000) :
    ∃ c', runTask fuel c n0 none = (c', "STALL") ∧
      Waiting g.cap g.mc (a :: g.body2) ((g.front left).LfO g.Ow1 ++ idleOwed g.mc (a :: g.body2)) g.more
        (g.hs0 + 1) (hsEvent g.p.request :: evs) A0 c' := by
  have okf := ok.front hleft
  obtain ⟨hst, hsg, hem, hans, hev, hin⟩ := fstage_of_startAtP hleft hLw hstart
  have hser : serAll (a :: g.body2) = g.U := by rw [ok.hU, serAll_cons]
  obtain ⟨c', fin, hrun, hres⟩ :=
    run_filterR1 okf (Z := Z) (by show NoStuckW g.cap g.mc (g.U ++ Z); rw [← hser]; exact hZ.1)
      (by show ∀ F x, F ++ x ++ Z = g.U ++ Z → _; rw [← hser]; exact hZ.2) .pend evs c n0 fuel hst hem hev hsg
      (by omega) (by rw [hin]; exact hsize)
  rcases hres with ⟨_, _, hkp, hem', hev', hans', hsg', hend⟩ | ⟨_, hfu, _, _⟩
  · rcases hend with ⟨rfl, hp⟩ | ⟨_, hfn⟩
    · obtain ⟨F, hF, hps, hph, hlg⟩ := hp.pst
      have hFe : F = serAll (a :: g.body2) := by
        have : F ++ Z = g.U ++ Z := hF
        rw [hser]; exact List.append_cancel_right this
      subst hFe
      have hnf : (run .header (serAll (a :: g.body2)) g.mc).st.isFinal = false := (run_idle_out g.mc _ hR).2.2
      have hob : (run .header (serAll (a :: g.body2)) (g.front left).mc).out = idleOwed g.mc (a :: g.body2) :=
        (run_idle_out g.mc _ hR).1
      refine ⟨c', hrun, ⟨hph, hnf, hps.rem, hp.inp, by rw [hlg, hob]; rfl, ⟨(g.front left).LfO g.Ow1, by
        show _ = _ ++ (run .header (serAll (a :: g.body2)) (g.front left).mc).out
        rw [hob]⟩, hps.stop, hps.ben, hkp.sc, hkp.mx,
        hkp.hs, ?_, hsg', hem', by omega⟩⟩
      intro s hs
      rcases List.mem_cons.1 hs with rfl | hs
      · exact hkp.ev _ List.mem_cons_self
      · exact hev' s hs
    · rw [hfn.em] at hem'; cases hem'
  · have := hfu.nokeep
    have e : (g.front left).p = g.p := rfl
    rw [e] at this
    omega



/-! ## Placement (ii): the `AbortRequest` between the Stdin terminator and the first Data content -/

theorem setStream_writeable {r r8 : AReq} {s : Nat} (h : r.setStream s = some r8) : r8.writeable = r.writeable := by
  unfold AReq.setStream at h
  split at h
  · cases h; rfl
  · cases h

/-- The hypotheses: a Filter; `g.body` = the Stdin records (content `g.content`) and noise before the
Stdin terminator `g.term`, `mid` = what lies between the terminator and the request's `AbortRequest`
record `a` (noise; no Data record), `g.body2` = the records behind `a`. -/
structure FR2OK (g : Cfg) (mid : List Rec) (a : Rec) (s0 : ExitStatus) (pr : Bool) : Prop where
  wf : WellFormedPreamble g.p g.recs
  role : g.p.role = 3
  pairs : ∀ q ∈ g.p.pairs, (NV.enc q).length ≤ alignedBufsize g.b
  noise : NoiseFits (alignedBufsize g.b) g.recs
  body : Body g.p.id 5 g.content g.body
  bfits : NoiseFits (alignedBufsize g.b) g.body
  hpad : g.pad.length < 256
  hmid : ∀ r ∈ mid, StdinRec g.p.id r
  mfits : NoiseFits (alignedBufsize g.b) mid
  hpost : ∀ r ∈ g.body2, r.WF
  pfits : NoiseFits (alignedBufsize g.b) g.body2
  ab : IsAbort g.p.id a
  hX : g.X = serAll g.body ++ (g.term.ser ++ g.X2)
  hX2 : g.X2 = serAll (mid ++ [a]) ++ serAll g.body2
  hU : g.U = a.ser ++ serAll g.body2
  hs : g.hscript = rscript s0
  mode : g.st = if pr then ExitStatus.abort else s0
  /-- model fuel: `handlerPoll` gets `1000 + 4·|input| + 4·cap` units per poll -/
  hfu : g.X.length ≤ 31000

theorem FR2OK.fok {g : Cfg} {mid : List Rec} {a : Rec} {s0 : ExitStatus} {pr : Bool} (ok : FR2OK g mid a s0 pr) :
    FOK g := ⟨ok.wf, ok.pairs, ok.noise⟩
theorem FR2OK.hid {g : Cfg} {mid : List Rec} {a : Rec} {s0 : ExitStatus} {pr : Bool} (ok : FR2OK g mid a s0 pr) :
    g.p.id < 65536 := (pid_of_wf ok.wf).2

theorem FR2OK.front {g : Cfg} {mid : List Rec} {a : Rec} {s0 : ExitStatus} {pr : Bool} (ok : FR2OK g mid a s0 pr)
    {us : List Rec} (hu : LeftOK (alignedBufsize g.b) us) : FR2OK (g.front us) mid a s0 pr :=
  ⟨wf_idle ok.wf us hu.1, ok.role, ok.pairs, noiseFits_app hu.2 ok.noise, ok.body, ok.bfits, ok.hpad, ok.hmid,
    ok.mfits, ok.hpost, ok.pfits, ok.ab, ok.hX, ok.hX2, ok.hU, ok.hs, ok.mode, ok.hfu⟩

theorem FR2OK.term_wf {g : Cfg} {mid : List Rec} {a : Rec} {s0 : ExitStatus} {pr : Bool}
    (ok : FR2OK g mid a s0 pr) : g.term.WF := ⟨ok.hid, by simp [Cfg.term], ok.hpad⟩

/-- the Stdin stream is complete -/
theorem FR2OK.k1 {g : Cfg} {mid : List Rec} {a : Rec} {s0 : ExitStatus} {pr : Bool} (ok : FR2OK g mid a s0 pr) :
    g.K.OK := by
  have hid := ok.hid
  have hwa := isAbort_wf ok.ab hid
  have hrw : ∀ r ∈ mid ++ [a] ++ g.body2, r.WF := by
    intro r hr
    rcases List.mem_append.1 hr with hr | hr
    · rcases List.mem_append.1 hr with hr | hr
      · exact (ok.hmid r hr).1
      · rw [List.mem_singleton.1 hr]; exact hwa
    · exact ok.hpost r hr
  have hrf : NoiseFits (alignedBufsize g.b) (mid ++ [a] ++ g.body2) := by
    intro r hr hg
    rcases List.mem_append.1 hr with hr | hr
    · rcases List.mem_append.1 hr with hr | hr
      · exact ok.mfits r hr hg
      · rw [List.mem_singleton.1 hr] at hg
        exact absurd hg.1 (by rw [ok.ab.1]; decide)
    · exact ok.pfits r hr hg
  have hX2 : g.X2 = serAll (mid ++ [a] ++ g.body2) := by rw [ok.hX2, ← C02.serAll_append]
  have hXs : g.X = serAll (g.body ++ g.term :: (mid ++ [a] ++ g.body2)) := by
    rw [ok.hX, hX2]
    simp only [C02.serAll_append, serAll_cons, List.append_assoc]
  have hcls : rclass ⟨g.p.id, g.p.role, 5, g.mc⟩ g.term = .endStream := by simp [rclass, Cfg.term, RT.isInputStream]
  have href := refWire_stream ⟨g.p.id, g.p.role, 5, g.mc⟩ (Or.inl rfl) hid ok.body g.term ok.term_wf hcls _ hrw
  have hwf : ∀ r ∈ g.body ++ g.term :: (mid ++ [a] ++ g.body2), r.WF := by
    intro r hr
    rcases List.mem_append.1 hr with hr | hr
    · exact body_wf hid ok.body r hr
    · rcases List.mem_cons.1 hr with rfl | hr
      · exact ok.term_wf
      · exact hrw r hr
  refine ⟨?_, ?_, by have := cap24 g; show 8 ≤ g.cap; omega⟩
  · show refWire ⟨g.p.id, g.p.role, 5, g.mc⟩ g.X = _
    rw [hXs, href]
    simp only [Cfg.K, hX2, serAll_cons]
  · intro G hG hv
    have hG' : G <+: g.X := hG
    rw [hXs] at hG'
    refine stream_fits ⟨g.p.id, g.p.role, 5, g.mc⟩ _ hwf (by rw [href]; intro h; cases h)
      (by have := cap24 g; show 8 ≤ alignedBufsize g.b; exact Nat.le_trans (by omega) this) ?_ G hG' hv
    intro r hr hg
    rcases List.mem_append.1 hr with hr | hr
    · exact ok.bfits r hr hg
    · rcases List.mem_cons.1 hr with rfl | hr
      · exact absurd hg.1 (by simp [Cfg.term, RT.getValues])
      · exact hrf r hr hg

theorem k_final {g : Cfg} (hrole : g.p.role = 3) : g.K.final = false := by
  simp [RCtx.final, Cfg.K, hrole, nextInputStream, RT.stdin]

/-- the Data stream behind the Stdin terminator: cut by the abort before any content -/
def Cfg.K8m (g : Cfg) (mid : List Rec) : RCtx :=
  ⟨⟨g.p.id, 3, 8, g.mc⟩, g.p.request, g.cap, g.term.ser ++ g.X2, [], owedI g.p.id g.mc (g.term :: mid), g.U⟩

/-- the replies owed for what precedes the abort record -/
def Cfg.Ow2 (g : Cfg) (mid : List Rec) : Bytes := owedStream g.p.id 5 g.mc g.body ++ owedI g.p.id g.mc (g.term :: mid)

theorem FR2OK.k8 {g : Cfg} {mid : List Rec} {a : Rec} {s0 : ExitStatus} {pr : Bool} (ok : FR2OK g mid a s0 pr) :
    (g.K8m mid).Aborted := by
  have ok' : FAOK { g with body := g.term :: mid, X := g.term.ser ++ g.X2, hscript := [.ret g.st] } a := by
    refine ⟨ok.wf, ok.role, ok.pairs, ok.noise, ?_, ?_, ok.ab, ?_, ok.hU, rfl⟩
    · intro r hr
      rcases List.mem_cons.1 hr with rfl | hr
      · exact ⟨ok.term_wf, Or.inr ⟨rfl, rfl⟩⟩
      · exact ok.hmid r hr
    · intro r hr hg
      rcases List.mem_cons.1 hr with rfl | hr
      · exact absurd hg.1 (by simp [Cfg.term, RT.getValues])
      · exact ok.mfits r hr hg
    · show g.term.ser ++ g.X2 = serAll (g.term :: mid ++ [a]) ++ serAll g.body2
      rw [ok.hX2, List.cons_append, serAll_cons, List.append_assoc]
  have h := ok'.kaok
  have e : Cfg.KFA { g with body := g.term :: mid, X := g.term.ser ++ g.X2, hscript := [.ret g.st] } a = g.K8m mid := by
    simp only [Cfg.KFA, Cfg.K8m, ok.hU]
    rfl
  rw [e] at h
  exact h

theorem FR2OK.k0 {g : Cfg} {mid : List Rec} {a : Rec} {s0 : ExitStatus} {pr : Bool} (ok : FR2OK g mid a s0 pr) :
    g.K0.Aborted := k0_aborted ok.hid ok.ab ok.hU

theorem FR2OK.follows {g : Cfg} {mid : List Rec} {a : Rec} {s0 : ExitStatus} {pr : Bool} (ok : FR2OK g mid a s0 pr) :
    Follows g.K (g.K8m mid) :=
  ⟨by show (⟨g.p.id, g.p.role, 5, g.mc⟩ : Str.Cfg) = ⟨g.p.id, 3, 5, g.mc⟩; rw [ok.role], rfl, rfl, rfl, rfl⟩

/-- The handler in its first `readAll`, on a complete Stdin stream; the Data stream behind it is cut by
the abort before any content. -/
theorem hr1_core {g : Cfg} {mid : List Rec} {a : Rec} {s0 : ExitStatus} {pr : Bool} (ok : FR2OK g mid a s0 pr)
    (fuel : Nat) (r : AReq) (sub : HSub) (e : Run.Env) (dO : Bytes)
    (hf : 2 * ((g.K.C.length - (accOf sub).length) / 64) + 2 * e.tr.input.length + 8 ≤ fuel) (hb : Ben e.tr)
    (hs : RSt g.K g.L1 [] r e.mutex e.tr (accOf sub) dO) :
    (∃ (r' : AReq) (acc' : Bytes) (e' : Run.Env) (dO' : Bytes),
      handlerPoll fuel r ⟨rscript s0, sub, [], pr⟩ e = (r', ⟨rscript s0, .readAllAcc acc', [], pr⟩, e', .pending) ∧
      RSt g.K g.L1 [] r' e'.mutex e'.tr acc' dO' ∧ e'.segs = e.segs ∧ TStep e.tr e'.tr ∧
      e'.tr.woken = true ∧ ans e'.tr < ans e.tr ∧ r'.writeable = r.writeable) ∨
    (∃ (r' : AReq) (acc' : Bytes) (e' : Run.Env) (dO' : Bytes),
      handlerPoll fuel r ⟨rscript s0, sub, [], pr⟩ e =
        (r', ⟨[.readAll, .ret s0], .readAllAcc acc', [], pr⟩, e', .pending) ∧
      RSt (g.K8m mid) g.L1 g.Ow1 r' e'.mutex e'.tr acc' dO' ∧ e'.segs = e.segs ∧ TStep e.tr e'.tr ∧
      e'.tr.woken = true ∧ ans e'.tr < ans e.tr ∧ r'.writeable = r.writeable) ∨
    HDoneA g (g.Ow2 mid) s0 pr fuel r ⟨rscript s0, sub, [], pr⟩ e := by
  have hK1 := ok.k1
  rcases readAll_runW hK1 (k_final ok.role) (L := g.L1) (P := []) [.setStream 8, .readAll, .ret s0] [] pr
      (2 * ((g.K.C.length - (accOf sub).length) / 64) + 2 * e.tr.input.length + 2) fuel r sub e dO 1
      (by omega) (by omega) (fun h => by omega) hb hs with
    ⟨r', acc', e', dO', d1, d3, d5, d6, d8, d9, d10⟩ |
    ⟨r', e', f', d1, d2, d3, dl, dm, dpay, dpad, dwire, dw, dsg, dts, dwr⟩
  · exact Or.inl ⟨r', acc', e', dO', d1, d3, d5, d6, d8, d9, d10⟩
  · right
    have hts1 : TStep e.tr (e'.ev (rEvent g.K.C)).tr := dts.trans (TStep.ev _ (isHS_rEvent _))
    obtain ⟨f2, rfl⟩ : ∃ f2, f' = f2 + 1 := ⟨f' - 1, by omega⟩
    obtain ⟨r8, hset, hlk8, hrst⟩ := switch_stream ok.follows d3 dpay dpad dwire
    have hw8 := setStream_writeable hset
    rw [hp_setStream, hset] at d1
    simp only at d1
    have hrst' : RSt (g.K8m mid) g.L1 g.Ow1 r8 ((e'.ev (rEvent g.K.C)).ev "s=ok").mutex
        ((e'.ev (rEvent g.K.C)).ev "s=ok").tr (accOf .fresh) [] := by
      rw [List.nil_append] at hrst
      obtain ⟨⟨G, hi⟩, lk, mx, lg⟩ := hrst
      exact ⟨⟨G, hi⟩, lk, mx, lg⟩
    have hts2 : TStep e.tr ((e'.ev (rEvent g.K.C)).ev "s=ok").tr := hts1.trans (TStep.ev _ (by decide))
    have hin2 : ((e'.ev (rEvent g.K.C)).ev "s=ok").tr.input.length = e'.tr.input.length := rfl
    rcases hr2_core (g := g) ok.k8 rfl ⟨rfl, rfl, rfl, rfl⟩ (Or.inr rfl) (P2 := g.Ow1) (Ow := g.Ow2 mid) rfl s0
        pr f2 r8 .fresh ((e'.ev (rEvent g.K.C)).ev "s=ok") [] (by omega)
        (hb.step hts2) hrst' with
      ⟨r2, acc2, e2, dO2, q1, q3, q5, q6, q8, q9, q10⟩ |
      ⟨K, P, r2, H2, e2, k1, k2, k3, k4, k5, k6, k7, k8, k9, k10, k11⟩
    · left
      refine ⟨r2, acc2, e2, dO2, by rw [rscript, d1]; exact q1, q3, q5.trans dsg, hts2.trans q6, q8, ?_,
        (q10.trans hw8).trans dwr⟩
      have := hts2.ans_le
      have q9' : ans e2.tr < ans ((e'.ev (rEvent g.K.C)).ev "s=ok").tr := q9
      omega
    · right
      exact ⟨K, P, r2, H2, e2, k1, k2, by rw [rscript, d1]; exact k3, k4, k5, k6, k7.trans dsg, hts2.trans k8,
        (k9.trans hw8).trans dwr, k10, k11⟩

/-- the handler suspended in its first `readAll` -/
def HR1 (g : Cfg) (s0 : ExitStatus) (pr : Bool) (c : Conn) : Prop :=
  ∃ r sub dO, c.phase = .handler r ⟨rscript s0, sub, [], pr⟩ ∧
    RSt g.K g.L1 [] r c.env.mutex c.env.tr (accOf sub) dO ∧
    r.writeable = false ∧ Ben c.env.tr ∧ c.stop = false ∧ Ev1 g c.env.tr ∧ c.scripts = g.more

def S2 (g : Cfg) (mid : List Rec) (s0 : ExitStatus) (pr : Bool) (c : Conn) : Prop :=
  FStageP g pr c ∨ HR1 g s0 pr c ∨ HR2 g (g.K8m mid) g.Ow1 s0 pr c ∨ TA g (g.Ow2 mid) c

theorem S2.cong {g : Cfg} {mid : List Rec} {s0 : ExitStatus} {pr : Bool} {c c' : Conn} (h : S2 g mid s0 pr c)
    (hph : c'.phase = c.phase) (hsc : c'.scripts = c.scripts) (hstop : c'.stop = c.stop)
    (hm : c'.env.mutex = c.env.mutex) (hs : TrSame c.env.tr c'.env.tr) : S2 g mid s0 pr c' := by
  rcases h with h | ⟨r, sub, dO, h1, h2, h3, h4, h5, h6, h7⟩ | h | h
  · exact Or.inl (h.cong hph hsc hstop hm hs)
  · exact Or.inr (Or.inl ⟨r, sub, dO, hph.trans h1, h2.cong hm hs, h3, hs.ben h4, hstop.trans h5, hs.ev1 h6,
      hsc.trans h7⟩)
  · exact Or.inr (Or.inr (Or.inl (h.cong hph hsc hstop hm hs)))
  · exact Or.inr (Or.inr (Or.inr (h.cong hph hsc hstop hm hs)))

/-- **One poll** with the handler in (or about to start) its first `readAll`. -/
theorem hr1_poll {g : Cfg} {mid : List Rec} {a : Rec} {s0 : ExitStatus} {pr : Bool} (ok : FR2OK g mid a s0 pr)
    {c : Conn} (h : HR1 g s0 pr c) :
    GRes3 (S2 g mid s0 pr) (AfterE g (g.LfO (g.Ow2 mid))) (FinE g (g.LfO (g.Ow2 mid))) 3 c := by
  obtain ⟨r, sub, dO, hph, hs, hnw, hb, hstop, hev, hsc⟩ := h
  have hK := ok.k1
  obtain ⟨G0, hi0⟩ := hs.inv
  have hrl := hi0.rem_le hK
  have hcapr : r.sp.cap = g.cap := hi0.capK
  have hcapK : g.K.cap = g.cap := rfl
  have hinl : c.env.tr.input.length ≤ g.X.length := by
    have := congrArg List.length hi0.wire
    simp only [List.length_append] at this
    have e : g.K.X = g.X := rfl
    rw [e] at this
    omega
  have hfu := ok.hfu
  have hfuel : 2 * ((g.K.C.length - (accOf sub).length) / 64) + 2 * c.env.tr.input.length + 8 ≤
      (handlerFuel c.env r + scriptOf c) := by
    unfold handlerFuel
    rw [hcapr]
    omega
  rcases hr1_core ok ((handlerFuel c.env r + scriptOf c)) r sub c.env dO hfuel hb hs with
    ⟨r', acc', e', dO', d1, d3, d5, d6, d8, d9, d10⟩ | ⟨r', acc', e', dO', d1, d3, d5, d6, d8, d9, d10⟩ | hd
  · have hstep := C07.handler_step c r _ hph
    rw [d1] at hstep
    have hstep' : stepConn c = .halt ⟨.handler r' ⟨rscript s0, .readAllAcc acc', [], pr⟩, e', c.scripts, c.stop⟩
        .pending := hstep
    exact Or.inl (Or.inl ⟨_, (Halts.now hstep').mono (by omega), ⟨d6.w, d5, rfl⟩,
      Or.inr (Or.inl ⟨r', .readAllAcc acc', dO', rfl, d3, d10.trans hnw, hb.step d6, hstop, hev.step d6, hsc⟩),
      d8, d9⟩)
  · have hstep := C07.handler_step c r _ hph
    rw [d1] at hstep
    have hstep' : stepConn c = .halt ⟨.handler r' ⟨[.readAll, .ret s0], .readAllAcc acc', [], pr⟩, e', c.scripts, c.stop⟩
        .pending := hstep
    exact Or.inl (Or.inl ⟨_, (Halts.now hstep').mono (by omega), ⟨d6.w, d5, rfl⟩,
      Or.inr (Or.inr (Or.inl ⟨r', .readAllAcc acc', dO', rfl, d3, d10.trans hnw, hb.step d6, hstop, hev.step d6,
        hsc⟩)), d8, d9⟩)
  · exact (done_close ok.k0 ok.role ok.mode hph hd hnw hb hstop hev hsc).imp
      (fun _ _ h => Or.inr (Or.inr (Or.inr h))) (fun _ _ h => h) (fun _ _ h => h)

/-- the first poll of the handler -/
theorem filterR2_first {g : Cfg} {mid : List Rec} {a : Rec} {s0 : ExitStatus} {pr : Bool}
    (ok : FR2OK g mid a s0 pr) (c : Conn) (hc : FirstCfgP g pr c) :
    GRes3 (S2 g mid s0 pr) (AfterE g (g.LfO (g.Ow2 mid))) (FinE g (g.LfO (g.Ow2 mid))) 6 c := by
  obtain ⟨e1, hph, hlen, hwire, hlog, hm, hb, hstop, hev, hsc⟩ := hc
  have hrole : g.p.request.role = 3 := ok.role
  have hwr : (AReq.new (Str.Parser.fromParser g.cap g.p.request e1 g.mc)).writeable = false := by
    simp [AReq.new, Str.Parser.fromParser, hrole, inputStreams]
  have hstart : C03SI.Start g.K.E (Str.Parser.fromParser g.cap g.p.request e1 g.mc) :=
    C03SI.start_fresh g.cap g.p.request e1 g.mc hlen ok.hid (Or.inr hrole)
  have hrinv : RInv g.K (AReq.new (Str.Parser.fromParser g.cap g.p.request e1 g.mc)) e1 c.env.tr.input [] [] := by
    refine ⟨hstart.mtch, hstart.inv, rfl, rfl, rfl, hwire, fun x => ?_⟩
    have := C03SI.rem_start hstart x
    show refWire g.K.E (e1 ++ x) = (Rem g.K.E (Str.Parser.fromParser g.cap g.p.request e1 g.mc) x).pre [] []
    rw [this]; rfl
  rw [ok.hs] at hph
  exact (hr1_poll ok ⟨_, .fresh, [], hph, ⟨⟨e1, hrinv⟩, by rw [hm]; exact lockInv_free rfl, Or.inl hm,
    ⟨[], by rw [hlog, List.append_nil], rfl⟩⟩, hwr, hb, hstop, hev, hsc⟩).mono (by omega)

theorem s2_poll {g : Cfg} {mid : List Rec} {a : Rec} {s0 : ExitStatus} {pr : Bool} (ok : FR2OK g mid a s0 pr)
    {c : Conn} (h : S2 g mid s0 pr c) :
    GRes3 (S2 g mid s0 pr) (AfterE g (g.LfO (g.Ow2 mid))) (FinE g (g.LfO (g.Ow2 mid)))
      (2 * c.env.tr.input.length + 15) c := by
  rcases h with h | h | h | h
  · exact fstage_poll3P ok.fok (fun _ h => Or.inl h) (filterR2_first ok) h
  · exact (hr1_poll ok h).mono (by omega)
  · exact ((hr2_poll ok.k8 rfl ⟨rfl, rfl, rfl, rfl⟩ (Or.inr rfl) rfl ok.k0 ok.role ok.mode h).imp
      (fun _ _ h => h.elim (fun h => Or.inr (Or.inr (Or.inl h))) (fun h => Or.inr (Or.inr (Or.inr h))))
      (fun _ _ h => h) (fun _ _ h => h)).mono (by omega)
  · exact ((ta_poll ok.k0 h).imp (fun _ _ h => Or.inr (Or.inr (Or.inr h))) (fun _ _ h => h) (fun _ _ h => h)).mono
      (by omega)

/-- **The executor**, placement (ii). -/
theorem run_filterR2 {g : Cfg} {mid : List Rec} {a : Rec} {s0 : ExitStatus} {pr : Bool}
    (ok : FR2OK g mid a s0 pr) {Z : Bytes}
    (hns : NoStuckW g.cap g.mc (g.U ++ Z))
    (hNF : ∀ F x, F ++ x ++ Z = g.U ++ Z → (run .header F g.mc).st.isFinal = false)
    (em : EndMode) (evs0 : List String) (c : Conn) (n0 fuel : Nat) (hst : FStageP g pr c)
    (hem : c.env.tr.endMode = em) (hev0 : ∀ s ∈ evs0, s ∈ c.env.tr.events)
    (hsegs : c.env.segs = []) (hf : ans c.env.tr + 1 ≤ fuel) (hlen : 6 * c.env.tr.input.length + 26 ≤ 100000) :
    ∃ c'' fin, runTask fuel c n0 none = (c'', fin) ∧
      (GEnd g.cap g.mc Z g.more (g.hs0 + 1) (fun _ : Unit => g.p.flags.toNat % 2 = 1) (fun _ => g.U ++ Z)
          (fun _ => g.LfO (g.Ow2 mid)) (fun _ => [hsEvent g.p.request]) em evs0 (ans c.env.tr) c'' fin ∨
       (fin = "RET" ∧ FinE g (g.LfO (g.Ow2 mid)) c'' ∧ c''.env.tr.endMode = em ∧
        (∀ s ∈ evs0, s ∈ c''.env.tr.events))) :=
  run_stages3 (cap24 g) (fun _ _ => hns) (fun _ _ => hNF) (fun _ _ h => h.cong)
    (fun _ h => (s2_poll ok h).imp (fun _ _ h => h)
      (fun _ _ h => h.ztail (evs := []) (fun _ hs => nomatch hs)) (fun _ _ h => h))
    em evs0 c n0 fuel (Or.inl hst) hem hev0 hsegs hf hlen

/-- the request (KEEP_CONN) started from any `StartAt` of a chain: it ends parked behind its abort
record and what followed it -/
theorem serve_filterR2_core {g : Cfg} {mid : List Rec} {a : Rec} {s0 : ExitStatus} {pr : Bool} (ok : FR2OK g mid a s0 pr) (hk : g.p.flags.toNat % 2 = 1)
    {left : List Rec} (hleft : LeftOK (alignedBufsize g.b) left) {Z : Bytes}
    (hR : ∀ e ∈ a :: g.body2, IdleNoise e) (hZ : GoodNext g.cap g.mc (a :: g.body2) Z)
    {Lw : Bytes} {evs : List String} {A0 : Nat} {c : Conn} (n0 fuel : Nat)
    (hLw : Lw = g.L0 ++ idleOwed g.mc left)
    (hstart : StartAt g.cap g.mc left Lw ((g.hscript, pr) :: g.more) g.hs0 evs A0 g.W c)
    (hf : A0 + 1 ≤ fuel) (hsize : 6 * g.W.length + 26 ≤ 100000) :
    ∃ c', runTask fuel c n0 none = (c', "STALL") ∧
      Waiting g.cap g.mc (a :: g.body2) ((g.front left).LfO (g.Ow2 mid) ++ idleOwed g.mc (a :: g.body2)) g.more
        (g.hs0 + 1) (hsEvent g.p.request :: evs) A0 c' := by
  have okf := ok.front hleft
  obtain ⟨hst, hsg, hem, hans, hev, hin⟩ := fstage_of_startAtP hleft hLw hstart
  have hser : serAll (a :: g.body2) = g.U := by rw [ok.hU, serAll_cons]
  obtain ⟨c', fin, hrun, hres⟩ :=
    run_filterR2 okf (Z := Z) (by show NoStuckW g.cap g.mc (g.U ++ Z); rw [← hser]; exact hZ.1)
      (by show ∀ F x, F ++ x ++ Z = g.U ++ Z → _; rw [← hser]; exact hZ.2) .pend evs c n0 fuel hst hem hev hsg
      (by omega) (by rw [hin]; exact hsize)
  rcases hres with ⟨_, _, hkp, hem', hev', hans', hsg', hend⟩ | ⟨_, hfu, _, _⟩
  · rcases hend with ⟨rfl, hp⟩ | ⟨_, hfn⟩
    · obtain ⟨F, hF, hps, hph, hlg⟩ := hp.pst
      have hFe : F = serAll (a :: g.body2) := by
        have : F ++ Z = g.U ++ Z := hF
        rw [hser]; exact List.append_cancel_right this
      subst hFe
      have hnf : (run .header (serAll (a :: g.body2)) g.mc).st.isFinal = false := (run_idle_out g.mc _ hR).2.2
      have hob : (run .header (serAll (a :: g.body2)) (g.front left).mc).out = idleOwed g.mc (a :: g.body2) :=
        (run_idle_out g.mc _ hR).1
      refine ⟨c', hrun, ⟨hph, hnf, hps.rem, hp.inp, by rw [hlg, hob]; rfl, ⟨(g.front left).LfO (g.Ow2 mid), by
        show _ = _ ++ (run .header (serAll (a :: g.body2)) (g.front left).mc).out
        rw [hob]⟩, hps.stop, hps.ben, hkp.sc, hkp.mx,
        hkp.hs, ?_, hsg', hem', by omega⟩⟩
      intro s hs
      rcases List.mem_cons.1 hs with rfl | hs
      · exact hkp.ev _ List.mem_cons_self
      · exact hev' s hs
    · rw [hfn.em] at hem'; cases hem'
  · have := hfu.nokeep
    have e : (g.front left).p = g.p := rfl
    rw [e] at this
    omega



end Fcgi.E2E
