import Fcgi.Proofs.E2EAuthStr
/-!
# Generic stages, with requests that do not keep the connection

`GRes3 S A Fn`: as `GRes S A`, or the poll ends the task (`finished`) in a configuration `Fn` — the end
of `close()` of a request without KEEP_CONN.  `FirstCfg` / `fstage_first`: `parse_request` of a request
up to the configuration in which its handler is polled for the first time (what the variant does from
there is its own business).  `run_stages3`: the executor.
-/
namespace Fcgi.E2E
open Fcgi Fcgi.Req Fcgi.Str Fcgi.Async Fcgi.Run Fcgi.Spec

def GRes3 (S A Fn : Conn → Prop) (N : Nat) (c : Conn) : Prop :=
  GRes S A N c ∨ ∃ c', Halts N c c' .finished ∧ Link c c' ∧ Fn c'

theorem GRes3.of_steps {S A Fn : Conn → Prop} {k N : Nat} {c c1 : Conn} (hs : Steps k c c1)
    (hl : Link c c1) (h : GRes3 S A Fn N c1) : GRes3 S A Fn (k + N) c := by
  rcases h with h | ⟨c', hh, hl2, hf⟩
  · exact Or.inl (GRes.of_steps hs hl h)
  · exact Or.inr ⟨c', hh.of_steps hs, hl.trans hl2, hf⟩

theorem GRes3.mono {S A Fn : Conn → Prop} {N M : Nat} {c : Conn} (h : GRes3 S A Fn N c) (hm : N ≤ M) :
    GRes3 S A Fn M c := by
  rcases h with h | ⟨c', hh, r⟩
  · exact Or.inl (h.mono hm)
  · exact Or.inr ⟨c', hh.mono hm, r⟩

theorem GRes3.imp {S S' A A' Fn Fn' : Conn → Prop} {N : Nat} {c : Conn} (h : GRes3 S A Fn N c)
    (hS : ∀ c', Link c c' → S c' → S' c') (hA : ∀ c', Link c c' → A c' → A' c')
    (hF : ∀ c', Link c c' → Fn c' → Fn' c') : GRes3 S' A' Fn' N c := by
  rcases h with h | ⟨c', hh, hl, hf⟩
  · exact Or.inl (h.imp hS hA)
  · exact Or.inr ⟨c', hh, hl, hF c' hl hf⟩

/-- `URes2` without assuming KEEP_CONN -/
theorem URes2.toG3 {g : Cfg} {N : Nat} {c : Conn} (h : URes2 g N c) :
    GRes3 (LStage g) (AfterU g) (FinU g) N c := by
  rcases h with ⟨c', hh, hl, hS, hw, ha⟩ | ⟨k, c1, hk1, hs, hl, haf⟩ | ⟨c', hh, hl, hf⟩
  · exact Or.inl (Or.inl ⟨c', hh, hl, hS, hw, ha⟩)
  · exact Or.inl (Or.inr ⟨k, c1, hk1, hs, hl, haf⟩)
  · exact Or.inr ⟨c', hh, hl, hf⟩

theorem lstage_poll3 {g : Cfg} {c : Conn} (h : LStage g c) :
    GRes3 (LStage g) (AfterU g) (FinU g) 2 c := by
  obtain ⟨hu, r0, cs0, hph0⟩ := h
  cases hu with
  | start hph => rw [hph0] at hph; cases hph
  | parse hst =>
    exfalso
    rcases hst.5 with ⟨h, _, _⟩ | ⟨_, h, _⟩ <;> (rw [hph0] at h; cases h)
  | hwrite hph => rw [hph0] at hph; cases hph
  | @closeW r rest' hph hce hm hlog hb hstop hev hsc =>
    refine (uclose_out' (g := g) (r2 := r) (rest := rest') hph ?_ (.refl _) hce hm hlog hb hstop hev hsc).toG3
    rw [closePoll_late _ _ _ _ _ _ rfl]
  | @close r rest' hph hce hm hlog hb hstop hev hsc =>
    refine (uclose_core' (g := g) (r2 := r) (rest := rest') hph ?_ (.refl _) hce hm hlog hb hstop hev hsc).toG3
    rw [closePoll_late _ _ _ _ _ _ rfl]
    rfl

/-- the configuration in which the handler of the request is polled for the first time -/
def FirstCfg (g : Cfg) (c : Conn) : Prop :=
  ∃ e1, c.phase = .handler (AReq.new (Str.Parser.fromParser g.cap g.p.request e1 g.mc))
      { ops := g.hscript, propagate := true } ∧
    e1.length ≤ g.cap ∧ e1 ++ c.env.tr.input = g.X ∧ c.env.tr.wlog = g.L1 ∧
    c.env.mutex = none ∧ Ben c.env.tr ∧ c.stop = false ∧ Ev1 g c.env.tr ∧ c.scripts = g.more

/-- **One poll** from the `parse_request` of the request: suspended there, or at the first poll of the
handler. -/
theorem fstage_first {g : Cfg} (ok : FOK g) {c : Conn} (hst : FStage g c) :
    GRes (FStage g) (FirstCfg g) (2 * c.env.tr.input.length + 9) c :=
  fstage_poll ok (fun _ h => h) (fun {c e1} h1 h2 h3 h4 h5 h6 h7 h8 h9 =>
    Or.inr ⟨0, c, Nat.zero_le _, .refl _, Link.refl _, e1, h1, h2, h3, h4, h5, h6, h7, h8, h9⟩) hst

/-- … composed with what the variant does from the first poll of the handler -/
theorem fstage_poll3 {g : Cfg} (ok : FOK g) {S A Fn : Conn → Prop} (hS : ∀ c, FStage g c → S c)
    (hfirst : ∀ c, FirstCfg g c → GRes3 S A Fn 6 c) {c : Conn} (hst : FStage g c) :
    GRes3 S A Fn (2 * c.env.tr.input.length + 15) c := by
  rcases fstage_first ok hst with ⟨c', hh, hl, hS', hw, ha⟩ | ⟨k, c1, hk, hs, hl, hf⟩
  · exact Or.inl (Or.inl ⟨c', hh.mono (by omega), hl, hS c' hS', hw, ha⟩)
  · exact (GRes3.of_steps hs hl (hfirst c1 hf)).mono (by omega)

theorem run_stages3 {cap mc : Nat} (h24 : 24 ≤ cap) {Z : Bytes} {sc : List (List HOp × Bool)} {h0 : Nat} {ι : Type}
    {P : ι → Prop} {W0 L : ι → Bytes} {evs : ι → List String}
    (hns : ∀ i, P i → NoStuckW cap mc (W0 i))
    (hNF : ∀ i, P i → ∀ F x, F ++ x ++ Z = W0 i → (run .header F mc).st.isFinal = false)
    {S Fn : Conn → Prop}
    (hcong : ∀ c c', S c → c'.phase = c.phase → c'.scripts = c.scripts → c'.stop = c.stop →
      c'.env.mutex = c.env.mutex → TrSame c.env.tr c'.env.tr → S c')
    (hpoll : ∀ c, S c → GRes3 S (ZTailAt cap mc Z sc h0 P W0 L evs) Fn (2 * c.env.tr.input.length + 15) c)
    (em : EndMode) (evs0 : List String) (c : Conn) (n0 fuel : Nat) (hst : S c)
    (hem : c.env.tr.endMode = em) (hev0 : ∀ s ∈ evs0, s ∈ c.env.tr.events)
    (hsegs : c.env.segs = []) (hf : ans c.env.tr + 1 ≤ fuel) (hlen : 6 * c.env.tr.input.length + 26 ≤ 100000) :
    ∃ c'' fin, runTask fuel c n0 none = (c'', fin) ∧
      (GEnd cap mc Z sc h0 P W0 L evs em evs0 (ans c.env.tr) c'' fin ∨
       (fin = "RET" ∧ Fn c'' ∧ c''.env.tr.endMode = em ∧ (∀ s ∈ evs0, s ∈ c''.env.tr.events))) := by
  refine run_gen
    (fun c0 => (S c0 ∨ ZTailAt cap mc Z sc h0 P W0 L evs c0) ∧
      c0.env.tr.endMode = em ∧ (∀ s ∈ evs0, s ∈ c0.env.tr.events) ∧ ans c0.env.tr ≤ ans c.env.tr)
    (fun c0 => (∃ c', Halts (4 * c0.env.tr.input.length + 22) c0 c' .finished ∧ Link c0 c' ∧ Fn c') ∨ ∃ i, P i ∧
      ((∃ c', Halts (4 * c0.env.tr.input.length + 22) c0 c' .pending ∧ Link c0 c' ∧ c'.env.tr.woken = c0.env.tr.woken ∧
        ZT cap mc (W0 i) (L i) Z c' ∧ PKeep sc h0 (evs i) c' ∧ ZParked cap mc (W0 i) (L i) Z c') ∨
      (∃ c', Halts (4 * c0.env.tr.input.length + 22) c0 c' .finished ∧ Link c0 c' ∧
        PKeep sc h0 (evs i) c' ∧ ZFin mc (W0 i) (L i) Z c')))
    (fun c'' fin => GEnd cap mc Z sc h0 P W0 L evs em evs0 (ans c.env.tr) c'' fin ∨
       (fin = "RET" ∧ Fn c'' ∧ c''.env.tr.endMode = em ∧ (∀ s ∈ evs0, s ∈ c''.env.tr.events)))
    (fun c0 c1 h a b c d e => by
      refine ⟨?_, e.em.trans h.2.1, fun s hs => e.mem (h.2.2.1 s hs), by
        have := h.2.2.2; unfold ans at this ⊢; rw [e.rd, e.wr]; exact this⟩
      rcases h.1 with h1 | ⟨i, hi, h1, h2⟩
      · exact Or.inl (hcong _ _ h1 a b c d e)
      · exact Or.inr ⟨i, hi, h1.cong a c e, h2.same b d e⟩)
    (fun c0 h => ?_)
    (fun c0 n1 f0 hS0 hsg hq _ hlen0 => ?_)
    (ans c.env.tr) c n0 fuel ⟨Or.inl hst, hem, hev0, Nat.le_refl _⟩ hsegs (Nat.le_refl _) hf hlen
  · -- one poll
    have keep : ∀ {c' : Conn}, Link c0 c' → c'.env.tr.endMode = em ∧ (∀ s ∈ evs0, s ∈ c'.env.tr.events) ∧
        ans c'.env.tr ≤ ans c.env.tr :=
      fun hl => ⟨hl.ts.em.trans h.2.1, fun s hs => hl.ts.evm s (h.2.2.1 s hs),
        Nat.le_trans hl.ts.ans_le h.2.2.2⟩
    rcases h.1 with h1 | ⟨i, hi, h1, h2⟩
    · rcases hpoll c0 h1 with (⟨c', hh, hl, hS, hw, ha⟩ | ⟨k, c1, hk1, hs, hl, i, hi, hzt, hkp⟩) | ⟨c', hh, hl, hfn⟩
      · exact Or.inl ⟨c', hh.mono (by omega), hl, ⟨Or.inl hS, keep hl⟩, hw, ha⟩
      · have hin1 := hl.ts.inp
        rcases ZRes.of_steps hs hl (ztail_poll h24 (hns i hi) (hNF i hi) hzt hkp) with
          ⟨c', hh, hl', hS, hw, ha⟩ | ⟨c', hh, r⟩ | ⟨c', hh, r⟩
        · exact Or.inl ⟨c', hh.mono (by omega), hl', ⟨Or.inr ⟨i, hi, hS⟩, keep hl'⟩, hw, ha⟩
        · exact Or.inr (Or.inr ⟨i, hi, Or.inl ⟨c', hh.mono (by omega), r⟩⟩)
        · exact Or.inr (Or.inr ⟨i, hi, Or.inr ⟨c', hh.mono (by omega), r⟩⟩)
      · exact Or.inr (Or.inl ⟨c', hh.mono (by omega), hl, hfn⟩)
    · rcases ztail_poll h24 (hns i hi) (hNF i hi) h1 h2 with ⟨c', hh, hl', hS, hw, ha⟩ | ⟨c', hh, r⟩ | ⟨c', hh, r⟩
      · exact Or.inl ⟨c', hh.mono (by omega), hl', ⟨Or.inr ⟨i, hi, hS⟩, keep hl'⟩, hw, ha⟩
      · exact Or.inr (Or.inr ⟨i, hi, Or.inl ⟨c', hh.mono (by omega), r⟩⟩)
      · exact Or.inr (Or.inr ⟨i, hi, Or.inr ⟨c', hh.mono (by omega), r⟩⟩)
  · -- from the last poll to the end of `runTask`
    obtain ⟨hsame, hph, hsc, hstop, hmx, hsg', hwk⟩ := prePoll_same c0 n1 hsg
    have hN : 4 * (prePoll c0 n1 none).env.tr.input.length + 22 ≤ 100000 := by rw [hsame.input]; omega
    have keep : ∀ {c' : Conn}, Link (prePoll c0 n1 none) c' → c'.env.tr.endMode = em ∧
        (∀ s ∈ evs0, s ∈ c'.env.tr.events) ∧ ans c'.env.tr ≤ ans c.env.tr ∧ c'.env.segs = [] :=
      fun hl => ⟨(hl.ts.em.trans hsame.em).trans hS0.2.1, fun s hs => hl.ts.evm s (hsame.mem (hS0.2.2.1 s hs)),
        by
          have hans0 : ans (prePoll c0 n1 none).env.tr = ans c0.env.tr := by unfold ans; rw [hsame.rd, hsame.wr]
          have := hl.ts.ans_le; have := hS0.2.2.2; omega, hl.segs.trans hsg'⟩
    rcases hq with ⟨c', hh, hl, hfn⟩ | ⟨i, hi, hq⟩
    · have hpoll' := hh.pollT hN
      obtain ⟨k1, k2, k3, k4⟩ := keep hl
      exact ⟨c', "RET", by rw [runTask_succ, hpoll'], Or.inr ⟨rfl, hfn, k1, k2⟩⟩
    rcases hq with ⟨c', hh, hl, hw, hzt, hkp, hpk⟩ | ⟨c', hh, hl, hkp, hfin⟩
    · have hpoll' := hh.pollT hN
      have hw' : c'.env.tr.woken = false := hw.trans hwk
      obtain ⟨k1, k2, k3, k4⟩ := keep hl
      rw [runTask_succ, hpoll']
      simp only [hw', Bool.false_eq_true, if_false]
      rw [release_nil _ k4]
      simp only [hw', Bool.false_eq_true, if_false]
      refine ⟨_, "STALL", rfl, Or.inl ⟨i, hi, ?_⟩⟩
      obtain ⟨F, hF, hps, hph', hlg⟩ := hpk.pst
      exact ⟨hkp.same rfl rfl ⟨rfl, rfl, rfl, rfl, rfl, rfl, [], by simp, Quiet.nil⟩, k1, k2, k3, k4,
        Or.inl ⟨rfl, ⟨F, hF, hps.cong rfl rfl ⟨rfl, rfl, rfl, rfl, rfl, rfl, [], by simp, Quiet.nil⟩, hph', hlg⟩,
          hpk.inp, hpk.em⟩⟩
    · have hpoll' := hh.pollT hN
      obtain ⟨k1, k2, k3, k4⟩ := keep hl
      exact ⟨c', "RET", by rw [runTask_succ, hpoll'], Or.inl ⟨i, hi, hkp, k1, k2, k3, k4, Or.inr ⟨rfl, hfin⟩⟩⟩



theorem run_stages3' {cap mc : Nat} (h24 : 24 ≤ cap) {Z : Bytes} {sc : List (List HOp × Bool)} {h0 : Nat} {ι : Type}
    {P : ι → Prop} {W0 L : ι → Bytes} {evs : ι → List String}
    (hns : ∀ i, P i → NoStuckW cap mc (W0 i))
    (hNF : ∀ i, P i → ∀ F x, F ++ x ++ Z = W0 i → (run .header F mc).st.isFinal = false)
    {S Fn : Conn → Prop}
    (hcong : ∀ c c', S c → c'.phase = c.phase → c'.scripts = c.scripts → c'.stop = c.stop →
      c'.env.mutex = c.env.mutex → TrSame c.env.tr c'.env.tr → S c')
    (hpoll : ∀ c, S c → GRes3 S (ZTailAt cap mc Z sc h0 P W0 L evs) Fn (2 * c.env.tr.input.length + 15) c)
    (em : EndMode) (evs0 : List String) (c : Conn) (n0 fuel : Nat) (hst : S c)
    (hem : c.env.tr.endMode = em) (hev0 : ∀ s ∈ evs0, s ∈ c.env.tr.events)
    (hsegs : c.env.segs = []) (hf : ans c.env.tr + 1 ≤ fuel) :
    ∃ c'' fin, runTask fuel c n0 none = (c'', fin) ∧
      (GEnd cap mc Z sc h0 P W0 L evs em evs0 (ans c.env.tr) c'' fin ∨
       (fin = "RET" ∧ Fn c'' ∧ c''.env.tr.endMode = em ∧ (∀ s ∈ evs0, s ∈ c''.env.tr.events))) := by
  refine run_gen'
    (fun c0 => (S c0 ∨ ZTailAt cap mc Z sc h0 P W0 L evs c0) ∧
      c0.env.tr.endMode = em ∧ (∀ s ∈ evs0, s ∈ c0.env.tr.events) ∧ ans c0.env.tr ≤ ans c.env.tr)
    (fun c0 => (∃ c', Halts (4 * c0.env.tr.input.length + 22) c0 c' .finished ∧ Link c0 c' ∧ Fn c') ∨ ∃ i, P i ∧
      ((∃ c', Halts (4 * c0.env.tr.input.length + 22) c0 c' .pending ∧ Link c0 c' ∧ c'.env.tr.woken = c0.env.tr.woken ∧
        ZT cap mc (W0 i) (L i) Z c' ∧ PKeep sc h0 (evs i) c' ∧ ZParked cap mc (W0 i) (L i) Z c') ∨
      (∃ c', Halts (4 * c0.env.tr.input.length + 22) c0 c' .finished ∧ Link c0 c' ∧
        PKeep sc h0 (evs i) c' ∧ ZFin mc (W0 i) (L i) Z c')))
    (fun c'' fin => GEnd cap mc Z sc h0 P W0 L evs em evs0 (ans c.env.tr) c'' fin ∨
       (fin = "RET" ∧ Fn c'' ∧ c''.env.tr.endMode = em ∧ (∀ s ∈ evs0, s ∈ c''.env.tr.events)))
    (fun c0 c1 h a b c d e => by
      refine ⟨?_, e.em.trans h.2.1, fun s hs => e.mem (h.2.2.1 s hs), by
        have := h.2.2.2; unfold ans at this ⊢; rw [e.rd, e.wr]; exact this⟩
      rcases h.1 with h1 | ⟨i, hi, h1, h2⟩
      · exact Or.inl (hcong _ _ h1 a b c d e)
      · exact Or.inr ⟨i, hi, h1.cong a c e, h2.same b d e⟩)
    (fun c0 h => ?_)
    (fun c0 n1 f0 hS0 hsg hq _ => ?_)
    (ans c.env.tr) c n0 fuel ⟨Or.inl hst, hem, hev0, Nat.le_refl _⟩ hsegs (Nat.le_refl _) hf
  · -- one poll
    have keep : ∀ {c' : Conn}, Link c0 c' → c'.env.tr.endMode = em ∧ (∀ s ∈ evs0, s ∈ c'.env.tr.events) ∧
        ans c'.env.tr ≤ ans c.env.tr :=
      fun hl => ⟨hl.ts.em.trans h.2.1, fun s hs => hl.ts.evm s (h.2.2.1 s hs),
        Nat.le_trans hl.ts.ans_le h.2.2.2⟩
    rcases h.1 with h1 | ⟨i, hi, h1, h2⟩
    · rcases hpoll c0 h1 with (⟨c', hh, hl, hS, hw, ha⟩ | ⟨k, c1, hk1, hs, hl, i, hi, hzt, hkp⟩) | ⟨c', hh, hl, hfn⟩
      · exact Or.inl ⟨c', hh.mono (by omega), hl, ⟨Or.inl hS, keep hl⟩, hw, ha⟩
      · have hin1 := hl.ts.inp
        rcases ZRes.of_steps hs hl (ztail_poll h24 (hns i hi) (hNF i hi) hzt hkp) with
          ⟨c', hh, hl', hS, hw, ha⟩ | ⟨c', hh, r⟩ | ⟨c', hh, r⟩
        · exact Or.inl ⟨c', hh.mono (by omega), hl', ⟨Or.inr ⟨i, hi, hS⟩, keep hl'⟩, hw, ha⟩
        · exact Or.inr (Or.inr ⟨i, hi, Or.inl ⟨c', hh.mono (by omega), r⟩⟩)
        · exact Or.inr (Or.inr ⟨i, hi, Or.inr ⟨c', hh.mono (by omega), r⟩⟩)
      · exact Or.inr (Or.inl ⟨c', hh.mono (by omega), hl, hfn⟩)
    · rcases ztail_poll h24 (hns i hi) (hNF i hi) h1 h2 with ⟨c', hh, hl', hS, hw, ha⟩ | ⟨c', hh, r⟩ | ⟨c', hh, r⟩
      · exact Or.inl ⟨c', hh.mono (by omega), hl', ⟨Or.inr ⟨i, hi, hS⟩, keep hl'⟩, hw, ha⟩
      · exact Or.inr (Or.inr ⟨i, hi, Or.inl ⟨c', hh.mono (by omega), r⟩⟩)
      · exact Or.inr (Or.inr ⟨i, hi, Or.inr ⟨c', hh.mono (by omega), r⟩⟩)
  · -- from the last poll to the end of `runTask`
    obtain ⟨hsame, hph, hsc, hstop, hmx, hsg', hwk⟩ := prePoll_same c0 n1 hsg
    have hN : 4 * (prePoll c0 n1 none).env.tr.input.length + 22 ≤ 6 * (prePoll c0 n1 none).env.tr.input.length + 26 := by omega
    have keep : ∀ {c' : Conn}, Link (prePoll c0 n1 none) c' → c'.env.tr.endMode = em ∧
        (∀ s ∈ evs0, s ∈ c'.env.tr.events) ∧ ans c'.env.tr ≤ ans c.env.tr ∧ c'.env.segs = [] :=
      fun hl => ⟨(hl.ts.em.trans hsame.em).trans hS0.2.1, fun s hs => hl.ts.evm s (hsame.mem (hS0.2.2.1 s hs)),
        by
          have hans0 : ans (prePoll c0 n1 none).env.tr = ans c0.env.tr := by unfold ans; rw [hsame.rd, hsame.wr]
          have := hl.ts.ans_le; have := hS0.2.2.2; omega, hl.segs.trans hsg'⟩
    rcases hq with ⟨c', hh, hl, hfn⟩ | ⟨i, hi, hq⟩
    · have hpoll' := hh.pollB hN
      obtain ⟨k1, k2, k3, k4⟩ := keep hl
      exact ⟨c', "RET", by rw [runTask_succ, hpoll'], Or.inr ⟨rfl, hfn, k1, k2⟩⟩
    rcases hq with ⟨c', hh, hl, hw, hzt, hkp, hpk⟩ | ⟨c', hh, hl, hkp, hfin⟩
    · have hpoll' := hh.pollB hN
      have hw' : c'.env.tr.woken = false := hw.trans hwk
      obtain ⟨k1, k2, k3, k4⟩ := keep hl
      rw [runTask_succ, hpoll']
      simp only [hw', Bool.false_eq_true, if_false]
      rw [release_nil _ k4]
      simp only [hw', Bool.false_eq_true, if_false]
      refine ⟨_, "STALL", rfl, Or.inl ⟨i, hi, ?_⟩⟩
      obtain ⟨F, hF, hps, hph', hlg⟩ := hpk.pst
      exact ⟨hkp.same rfl rfl ⟨rfl, rfl, rfl, rfl, rfl, rfl, [], by simp, Quiet.nil⟩, k1, k2, k3, k4,
        Or.inl ⟨rfl, ⟨F, hF, hps.cong rfl rfl ⟨rfl, rfl, rfl, rfl, rfl, rfl, [], by simp, Quiet.nil⟩, hph', hlg⟩,
          hpk.inp, hpk.em⟩⟩
    · have hpoll' := hh.pollB hN
      obtain ⟨k1, k2, k3, k4⟩ := keep hl
      exact ⟨c', "RET", by rw [runTask_succ, hpoll'], Or.inl ⟨i, hi, hkp, k1, k2, k3, k4, Or.inr ⟨rfl, hfin⟩⟩⟩


end Fcgi.E2E
