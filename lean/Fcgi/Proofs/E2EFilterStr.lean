import Fcgi.Proofs.E2EFilterRef
/-!
# `record_boundary()` over the rest of a Filter's Data stream

`Proofs/E2EPrefixStr.lean` redone for the view `view1` / `E1 = ⟨id, 1, 5⟩`: `R2f`, `parse_r2f`,
`bloop_simf`.  New: `r2f_of_switch` — the state right after `set_stream(None)` in `close()` of a Filter
whose `writeable()` ran `poll_input(None)` in stream 8 from the start of Stdin: the replies generated
so far are those owed for the Stdin records plus `dO₁`, and `R2f` holds on the Data records with `dO₁`.
-/
namespace Fcgi.E2E
open Fcgi Fcgi.Req Fcgi.Str Fcgi.Async Fcgi.Run Fcgi.Spec


structure R2f (id mc cap : Nat) (R : List Rec) (P : Bytes) (sp : Str.Parser) (G fut dO : Bytes) : Prop where
  ign : Ign id R sp fut
  mt : Match (E1 id mc) (view1 sp)
  sinv : SInv (view1 sp)
  capK : sp.cap = cap
  par : sp.parsed = []
  wire : G ++ fut = serAll R
  /-- `P`: replies generated before the Data records (for the Stdin stream) -/
  hist : ∀ x, G ++ x <+: serAll R →
    (refWire (E1 id mc) (G ++ x)).pre [] P = (Rem (E1 id mc) (view1 sp) x).pre [] dO

/-- the records of the stream and the buffer -/
structure R2fCtx (id mc cap : Nat) (R : List Rec) : Prop where
  recs : ∀ r ∈ R, DataRec id r
  hid : id < 65536
  fits : NoiseFits cap R
  cap8 : 8 ≤ cap

theorem R2f.now {id mc cap : Nat} {R : List Rec} {P : Bytes} (hc : R2fCtx id mc cap R) {sp : Str.Parser} {G fut dO : Bytes}
    (h : R2f id mc cap R P sp G fut dO) :
    (Rem (E1 id mc) (view1 sp) fut).content = [] ∧ dO ++ (Rem (E1 id mc) (view1 sp) fut).out = P ++ owedI id mc R ∧
    (Rem (E1 id mc) (view1 sp) fut).verdict = .more := by
  have := h.hist fut (by rw [h.wire]; exact List.prefix_refl _)
  rw [h.wire, refWire_view1 id mc hc.recs] at this
  have h1 := congrArg RefOut.content this
  have h2 := congrArg RefOut.out this
  have h3 := congrArg RefOut.verdict this
  simp only [RefOut.pre_content, RefOut.pre_out, RefOut.pre_verdict, List.nil_append] at h1 h2 h3
  exact ⟨h1.symm, h2.symm, h3.symm⟩

/-- **One `parse(new, None)` call of `record_boundary()`.** -/
theorem parse_r2f {id mc cap : Nat} {R : List Rec} {P : Bytes} (hc : R2fCtx id mc cap R) {sp : Str.Parser} {G new fut dO : Bytes}
    (hi : R2f id mc cap R P sp G (new ++ fut) dO) (hfree : new.length ≤ sp.free) :
    ∃ p' st o, sp.parse new none = (p', .ok st) ∧ p'.output = sp.output ++ o ∧ p'.request = sp.request ∧
      p'.maxConns = sp.maxConns ∧
      R2f id mc cap R P p' (G ++ new) fut (dO ++ o) ∧
      (p'.isRecordBoundary = false → p'.raw.length < cap ∧ fut ≠ []) := by
  have hR := data_recsOK1 hc.recs
  obtain ⟨hv, hign⟩ := parse_ign1 hR hi.ign
  have hfree' : new.length ≤ (view1 sp).free := hfree
  have hpar' : (view1 sp).parsed = [] := hi.par
  have hpt := C03S.parse_total (view1 sp) new none hi.sinv (Or.inl rfl) hfree'
  have hri : ∀ x, ∃ lost, _ := fun x =>
    parse_ri (E := E1 id mc) (fut := x) (p := view1 sp) (new := new) (dest := none) hi.mt hi.sinv (Or.inl rfl) hfree'
  have hfr := parse_frame (view1 sp) new none
  have hnow := hi.now hc
  cases hp : sp.parse new none with
  | mk p1 res1 =>
    rw [hp] at hv hign
    simp only at hv hign
    rw [hv] at hpt hfr
    cases res1 with
    | panic s => exact hpt.elim
    | err e =>
      exfalso
      obtain ⟨lost, _, _, _, hvd, _, _, hm⟩ := hri fut
      rw [hv] at hvd hm
      simp only [resv] at hvd hm
      obtain ⟨a, b, c⟩ := hm
      rw [a, b, ref_atStop c] at hvd
      have := hnow.2.2
      unfold Rem at this
      rw [← hvd] at this
      cases this
    | ok st =>
      have hign1 : Ign id R p1 fut := by
        rcases hign with h | ⟨s, hs⟩
        · exact h
        · cases hs
      simp only [resv] at hpt hfr
      obtain ⟨hs', hfs', hcap', hreq', _, hmc', _⟩ := hpt
      obtain ⟨o, ho⟩ := hfr.2.2.2.2.2.1
      obtain ⟨d, hd⟩ := hfr.2.2.2.2.2.2
      have ho' : p1.output = sp.output ++ o := ho.symm
      have hog : C03S.outGrowth (view1 sp) (.parse new none) = o := by
        simp only [C03S.outGrowth, hv]
        show (view1 p1).output.drop (view1 sp).output.length = o
        rw [show (view1 p1).output = p1.output from rfl, show (view1 sp).output = sp.output from rfl, ho', List.drop_left]
      have hav : availOp (view1 sp) (.parse new none) = d := by
        simp only [availOp, hv]
        show (view1 p1).parsed.drop (view1 sp).parsed.length = d
        rw [← hd, List.drop_left]
      -- nothing goes into the stream buffer
      have hd0 : d = [] := by
        obtain ⟨lost, _, h1, _, _, _, _, _⟩ := hri fut
        rw [hv] at h1
        simp only at h1
        rw [hav] at h1
        have hc0 := hnow.1
        unfold Rem at hc0
        rw [hc0] at h1
        exact (List.append_eq_nil_iff.1 (List.append_eq_nil_iff.1 h1).1).1
      have hpar1 : p1.parsed = [] := by
        have : (view1 p1).parsed = (view1 sp).parsed ++ d := hd.symm
        rw [hd0, List.append_nil] at this
        exact this.trans hi.par
      have hist' : ∀ x, (G ++ new) ++ x <+: serAll R →
          (refWire (E1 id mc) ((G ++ new) ++ x)).pre [] P = (Rem (E1 id mc) (view1 p1) x).pre [] (dO ++ o) := by
        intro x hx
        obtain ⟨lost, _, h1, h2, h3, h4, hl, _⟩ := hri x
        rw [hv] at h1 h2 h3 h4 hl
        simp only at h1 h2 h3 h4 hl
        rw [(hl trivial).1, List.append_nil, hav, hd0, List.nil_append] at h1
        rw [hog] at h2
        rw [List.append_assoc] at hx ⊢
        rw [hi.hist (new ++ x) hx]
        apply RefOut.ext'
        · simp only [RefOut.pre_content, Rem, List.nil_append]; rw [← h1]
        · simp only [RefOut.pre_out, Rem, List.append_assoc]; rw [← h2]
        · simp only [RefOut.pre_verdict, Rem]; rw [h3]
        · simp only [RefOut.pre_unread, Rem]; rw [h4]
      have hmt' : Match (E1 id mc) (view1 p1) := by
        obtain ⟨_, hm', _⟩ := hri fut
        rw [hv] at hm'; exact hm'
      have hterm : Terminal (E1 id mc) (view1 p1) := by
        obtain ⟨_, _, _, _, _, _, hl, _⟩ := hri fut
        rw [hv] at hl
        exact (hl rfl).2
      have hi' : R2f id mc cap R P p1 (G ++ new) fut (dO ++ o) :=
        ⟨hign1, hmt', hs', (show p1.cap = sp.cap from hcap').trans hi.capK, hpar1,
          by rw [List.append_assoc]; exact hi.wire, hist'⟩
      refine ⟨p1, st, o, rfl, ho', (congrArg (fun r : Request => r) ?_), hmc', hi', ?_⟩
      · -- the actual request is untouched
        have := (parse_frame sp new none).2.1
        rw [hp] at this
        exact this
      · intro hnb
        have hnb' : ¬ (p1.pay = 0 ∧ p1.pad = 0) := by
          intro hx
          simp [Str.Parser.isRecordBoundary, hx.1, hx.2] at hnb
        have hidle : Idle (view1 p1) := by
          rcases hterm with h | ⟨h1, h2, _⟩ | h
          · exact Or.inl (Or.inl h)
          · exact absurd ⟨h1, h2⟩ hnb'
          · exact Or.inr h
        have h0 := hist' [] (by
          rw [List.append_nil]
          exact ⟨fut, by rw [List.append_assoc]; exact hi.wire⟩)
        rw [idle_ref (E1 id mc) hidle, List.append_nil] at h0
        have hvm : (refWire (E1 id mc) (G ++ new)).verdict = .more := congrArg RefOut.verdict h0
        have hu : (refWire (E1 id mc) (G ++ new)).unread = p1.raw := congrArg RefOut.unread h0
        constructor
        · rw [← hu]
          exact fits_view1 id mc hc.hid hc.recs hc.cap8 hc.fits _
            ⟨fut, by rw [List.append_assoc]; exact hi.wire⟩ hvm
        · intro hf
          subst hf
          obtain ⟨c, pd, rs, h1, h2, h3, _⟩ := hign1.pos
          rw [List.append_nil] at h3
          have hlen := congrArg List.length h3
          simp only [List.length_append] at hlen
          rcases hidle with (h | ⟨a, b, _⟩) | ⟨v, _, hlt, _⟩
          · have h' : p1.raw = [] := h
            rw [h'] at hlen
            simp only [List.length_nil] at hlen
            exact hnb' ⟨by omega, by omega⟩
          · exact hnb' ⟨a, b⟩
          · have : (view1 p1).raw.length < (view1 p1).pay := hlt
            have e1 : (view1 p1).raw = p1.raw := rfl
            have e2 : (view1 p1).pay = p1.pay := rfl
            rw [e1, e2] at this
            omega

/-! ## The loop of `record_boundary()` -/

theorem R2f.compress {id mc cap : Nat} {R : List Rec} {P : Bytes} {sp : Str.Parser} {G fut dO : Bytes}
    (h : R2f id mc cap R P sp G fut dO) : R2f id mc cap R P sp.compress G fut dO :=
  ⟨⟨h.ign.strm, h.ign.rid, h.ign.pos⟩, h.mt.of_eq rfl rfl rfl, SInv_compress h.sinv, h.capK, h.par, h.wire, h.hist⟩

theorem R2f.input {id mc cap : Nat} {R : List Rec} {P : Bytes} {sp : Str.Parser} {G fut fut' dO : Bytes}
    (h : R2f id mc cap R P sp G fut dO) (e : fut' = fut) : R2f id mc cap R P sp G fut' dO := by subst e; exact h

/-- what `record_boundary()` leaves when it is done or suspended -/
structure BEndf (id mc cap : Nat) (R : List Rec) (P : Bytes) (sp sp' : Str.Parser) (dO : Bytes) (t' : Transport) : Prop where
  out : ∃ o G', sp'.output = sp.output ++ o ∧ R2f id mc cap R P sp' G' t'.input (dO ++ o)
  req : sp'.request = sp.request
  mc : sp'.maxConns = sp.maxConns

theorem bloop_simf {id mc cap : Nat} {R : List Rec} {P : Bytes} (hc : R2fCtx id mc cap R) : ∀ (fuel : Nat) (sp : Str.Parser)
    (new : Bytes) (t : Transport) {G dO : Bytes} {sp' : Str.Parser} {t' : Transport} {res : ORes},
    Ben t → R2f id mc cap R P sp G (new ++ t.input) dO → new.length ≤ sp.free → t.input.length + 2 ≤ fuel →
    boundaryLoop fuel sp new t = (sp', t', res) →
    TStep t t' ∧ t'.wlog = t.wlog ∧ BEndf id mc cap R P sp sp' dO t' ∧
      ((res = .ready ∧ sp'.isRecordBoundary = true) ∨
       (res = .pending ∧ t'.woken = true ∧ ans t' < ans t ∧ sp'.isRecordBoundary = false ∧
          sp'.raw.length < cap ∧ sp'.g0 = 0 ∧ sp'.g1 = 0 ∧ t'.input ≠ [])) := by
  intro fuel
  induction fuel with
  | zero => intro sp new t G dO sp' t' res _ _ _ hf; omega
  | succ k ih =>
    intro sp new t G dO sp' t' res hb hi hfree hf h
    obtain ⟨p1, st, o, hp, ho, hreq, hmc, hi1, hstall⟩ := parse_r2f hc hi hfree
    simp only [boundaryLoop, hp] at h
    by_cases hbd : p1.isRecordBoundary = true
    · simp only [boundaryLoop.cont, hbd, if_true] at h
      cases h
      exact ⟨.refl _, rfl, ⟨⟨o, _, ho, hi1⟩, hreq, hmc⟩, Or.inl ⟨rfl, hbd⟩⟩
    · have hbd' : p1.isRecordBoundary = false := by simpa using hbd
      obtain ⟨hraw, hne⟩ := hstall hbd'
      have hpe : p1.parsed.isEmpty = true := by rw [hi1.par]; rfl
      simp only [boundaryLoop.cont, hbd', Bool.false_eq_true, if_false, hpe, Bool.not_true] at h
      have hi2 := hi1.compress
      have hfreec : p1.compress.free = cap - p1.raw.length := by
        simp [Str.Parser.free, Str.Parser.freeStart, Str.Parser.compress, hi1.par, hi1.capK]
      have hfp : 0 < p1.compress.free := by rw [hfreec]; omega
      split at h
      · rename_i t1 hr
        have hwl : t1.wlog = t.wlog := by have := read_wlog t p1.compress.free; rwa [hr] at this
        obtain ⟨hinp, hw | hw⟩ := read_pending hb hr
        · have hts := read_tstep hr
          cases h
          exact ⟨hts, hwl, ⟨⟨o, _, ho, hi2.input hinp⟩, hreq, hmc⟩,
            Or.inr ⟨rfl, hw.1, hw.2, hbd', hraw, rfl, rfl, by rw [hinp]; exact hne⟩⟩
        · exact absurd hw.1 hne
      · rename_i t1 e hr
        exact (read_error hb hr).elim
      · rename_i t1 hr
        obtain ⟨_, _, _, hz⟩ := read_ok_ben hb hr
        rcases hz rfl with hz | hz
        · omega
        · exact absurd hz.1 hne
      · rename_i t1 bs hbs hr
        obtain ⟨hin, hwl, hlen, _⟩ := read_ok_ben hb hr
        have hbne : bs ≠ [] := fun hx => hbs (by rw [hx])
        have hbpos : 0 < bs.length := List.length_pos_iff.mpr hbne
        have hs1 := read_tstep hr
        have hlen1 : t1.input.length + 2 ≤ k := by
          have := congrArg List.length hin
          simp only [List.length_append] at this
          omega
        obtain ⟨q1, q2, ⟨⟨o2, G2, ho2, hi3⟩, hreq2, hmc2⟩, q4⟩ :=
          ih p1.compress bs t1 (hb.step hs1) (hi2.input (by rw [← hin])) hlen hlen1 h
        refine ⟨hs1.trans q1, q2.trans hwl, ⟨⟨o ++ o2, G2, ?_, by rw [← List.append_assoc]; exact hi3⟩,
          hreq2.trans hreq, hmc2.trans hmc⟩, ?_⟩
        · rw [ho2]
          show p1.output ++ o2 = _
          rw [ho, List.append_assoc]
        · rcases q4 with q4 | ⟨a, b, c, d⟩
          · exact Or.inl q4
          · exact Or.inr ⟨a, b, by have := hs1.ans_le; omega, d⟩


/-! ## The framing through `poll_input(None)` -/

/-- **`poll_input(None)` with an empty stream buffer keeps the framing.** -/
theorem pollInput_pos_none {R : List Rec} (hR : ∀ r ∈ R, r.WF) {r : AReq} {m : MutexSt} {t : Transport}
    {r' : AReq} {m' : MutexSt} {t' : Transport} {res : IRes} (hb : Ben t) (hl : LockInv r m)
    (hm : m = none ∨ m = some 0) (hpar : r.sp.parsed = [])
    (hpos : Pos R r.sp.raw r.sp.pay r.sp.pad t.input)
    (h : r.pollInput none m t = (r', m', t', res)) (hnp : ∀ s, res ≠ .panic s) :
    Pos R r'.sp.raw r'.sp.pay r'.sp.pad t'.input := by
  simp only [AReq.pollInput, hpar] at h
  rcases hpo : r.pollOutput m t with ⟨r3, m3, t3, ores⟩
  rw [hpo] at h
  obtain ⟨kk, e1, e2, e3, e4, e5, _, e7, e8⟩ := Async.pollOutput_spec hl hpo
  obtain ⟨b1, b2⟩ := pollOutput_ben hl hm hb hpo
  have hp3 : Pos R r3.sp.raw r3.sp.pay r3.sp.pad t3.input := by
    rw [e1, e4.1]; exact hpos
  cases ores with
  | pending => simp only at h; cases h; exact hp3
  | err e => simp only at h; cases h; exact hp3
  | panic s => simp only at h; cases h; exact absurd rfl (hnp _)
  | ready =>
    obtain ⟨f1, f2, f3, f4⟩ := e7 rfl
    have hm3 : m3 = none := by
      by_cases ho0 : r.sp.output = []
      · have hm0 : m = none := by
          rcases hm with hm | hm
          · exact hm
          · have := hl.1.2 hm
            rw [hl.2 ho0] at this; cases this
        rw [(f3 ho0).2.1, hm0]
      · exact f4 ho0
    subst hm3
    simp only at h
    exact inLoop_pos hR _ r3 [] t3 (hb.step b1) f2 (by simpa using hp3) h hnp

/-! ## The switch -/

/-- the Data stream's reference passes over the Stdin records in front -/
theorem refWire8_stdin (id mc : Nat) {R5 : List Rec} (h5 : ∀ r ∈ R5, StdinRec id r) (w : Bytes) :
    refWire (E8 id mc) (serAll R5 ++ w) = (refWire (E8 id mc) w).pre [] (owedI id mc R5) := by
  have hwf : ∀ r ∈ R5, r.WF := fun r hr => (h5 r hr).1
  rw [← ref_eq_refWire _ .skip, ref_serAll _ _ hwf _ .skip]
  have hrr := refRun_view id mc R5 h5 []
  rw [List.append_nil] at hrr
  have hadd : ∀ n, Stop.add n .ranOut = .ranOut := by
    intro n
    induction n with
    | zero => rfl
    | succ n ih => simp only [Stop.add, ih, Stop.succ]
  rw [hrr]
  simp only [refRun, hadd, glue]
  rw [ref_eq_refWire]
  simp only [List.nil_append, List.append_nil]

/-- the parser has got past the Stdin records once it has delivered Data content -/
theorem past_stdin {id mc : Nat} {R5 : List Rec} (h5 : ∀ r ∈ R5, StdinRec id r) {K : RCtx} {r : AReq}
    {G fut dC dO W : Bytes} (hE : K.E = E8 id mc) (hX : K.X = serAll R5 ++ W)
    (hi : C09E.RInvB K r G fut dC dO) (hd : dC ≠ []) : ∃ Gd, G = serAll R5 ++ Gd := by
  have hG : G <+: serAll R5 ++ W := ⟨fut, by rw [← hX]; exact hi.wire⟩
  rcases List.prefix_or_prefix_of_prefix hG (List.prefix_append _ _) with h | ⟨Gd, h⟩
  · exfalso
    have hc := clean_recs id R5 (stdin_recsOK h5) G h
    have h0 := hi.hist []
    rw [List.append_nil, hE] at h0
    have hcon := congrArg RefOut.content h0
    rw [← ref_eq_refWire _ .skip, ref8_content_nil id mc hc .skip (by intro hx; cases hx)] at hcon
    simp only [RefOut.pre_content] at hcon
    exact hd (List.append_eq_nil_iff.1 hcon.symm).1
  · exact ⟨Gd, h.symm⟩

/-- a suffix of `A ++ B` is a suffix of `B`, or a suffix of `A` followed by `B` -/
theorem suffix_append_cases {α : Type} {rs A B : List α} (h : rs <:+ A ++ B) :
    rs <:+ B ∨ ∃ A', A' <:+ A ∧ rs = A' ++ B := by
  obtain ⟨t, ht⟩ := h
  rcases List.append_eq_append_iff.1 ht with ⟨a', h1, h2⟩ | ⟨c', h1, h2⟩
  · exact Or.inr ⟨a', ⟨t, h1.symm⟩, h2⟩
  · exact Or.inl ⟨c', h2.symm⟩

/-- … and its framing stands inside the Data records -/
theorem pos_in_data {id mc : Nat} {R5 Rd : List Rec} (h5 : ∀ r ∈ R5, StdinRec id r) {K : RCtx} (hK : K.OK) {r : AReq}
    {G fut dC dO : Bytes} (hE : K.E = E8 id mc)
    (href : ∀ A', A' <:+ R5 → (refWire (E8 id mc) (serAll (A' ++ Rd))).content = K.C)
    (hi : C09E.RInvB K r G fut dC dO) (hd : dC ≠ [])
    (hpos : Pos (R5 ++ Rd) r.sp.raw r.sp.pay r.sp.pad fut) : Pos Rd r.sp.raw r.sp.pay r.sp.pad fut := by
  obtain ⟨c, pd, rs, hc, hpd, hw, hsuf⟩ := hpos
  rcases suffix_append_cases hsuf with h | ⟨A', hA, rfl⟩
  · exact ⟨c, pd, rs, hc, hpd, hw, h⟩
  · exfalso
    have hnow := (hi.now hK).1
    unfold Rem at hnow
    rw [hE, hw, ← hc, ← hpd, ref_body, ref_eq_refWire] at hnow
    simp only [RefOut.pre_content] at hnow
    rw [href A' hA] at hnow
    have hl := congrArg List.length hnow
    simp only [List.length_append] at hl
    have : 0 < dC.length := List.length_pos_iff.mpr hd
    omega

/-- **The switch.**  The Filter's `Request` inside `close()` after `writeable()` (`RInvB` for
`⟨id, 3, 8⟩` on the wire Stdin records ++ Data records, past the Stdin records, framed on the Data
records), `set_stream(None)`: the ignoring parser's view follows `⟨id, 1, 5⟩` on the Data bytes handed
to the parser so far; `P` = the replies owed for the Stdin records. -/
theorem r2f_of_switch {id mc cap : Nat} {R5 Rd : List Rec} (h5 : ∀ r ∈ R5, StdinRec id r)
    (hc : R2fCtx id mc cap Rd) {K : RCtx} {r : AReq}
    {Gd fut dC dO : Bytes} (hE : K.E = E8 id mc) (hX : K.X = serAll R5 ++ serAll Rd) (hcap : K.cap = cap)
    (hi : C09E.RInvB K r (serAll R5 ++ Gd) fut dC dO) (hpos : Pos Rd r.sp.raw r.sp.pay r.sp.pad fut) :
    R2f id mc cap Rd (owedI id mc R5) (r.sp.switchTo none) Gd fut dO := by
  have hR := data_recsOK1 hc.recs
  have hmt := hi.mt
  rw [hE] at hmt
  have hsinv := hi.sinv
  have hwire : Gd ++ fut = serAll Rd := by
    have := hi.wire
    rw [hX, List.append_assoc] at this
    exact List.append_cancel_left this
  refine ⟨⟨rfl, hmt.id, hpos⟩, ⟨hmt.id, rfl, rfl, hmt.mc, (by show 5 ∈ inputStreams 1; decide)⟩, ?_, hi.capK.trans hcap, rfl,
    hwire, ?_⟩
  · obtain ⟨h1, h2, h3, h4, _, h6⟩ := hsinv
    refine ⟨?_, h2, h3, ?_, Or.inr ⟨5, rfl, (by show 5 ∈ inputStreams 1; decide)⟩, h6⟩
    · simp only [Str.Parser.freeStart, view1, Str.Parser.switchTo, Str.Parser.discardStream, List.length_nil] at h1 ⊢
      omega
    · show match (if r.sp.state == .stream then SState.skip else r.sp.state) with | .values v => v < 8 | _ => True
      cases hst : r.sp.state with
      | values v => rw [hst] at h4; exact h4
      | stream => trivial
      | skip => trivial
  · intro x hx
    have hxf : x <+: fut := by
      rw [← hwire] at hx
      exact (List.prefix_append_right_inj Gd).1 hx
    have hclean0 : CleanW1 id 0 0 (Gd ++ x) := clean_recs1 id Rd hR _ hx
    have hclean1 : CleanW1 id r.sp.pay r.sp.pad (r.sp.raw ++ x) :=
      clean_pos1 hR hpos ((List.prefix_append_right_inj r.sp.raw).2 hxf)
    have h8 := hi.hist x
    rw [hE, List.append_assoc, refWire8_stdin id mc h5] at h8
    -- the two `⟨id,3,8⟩` references, and the view's
    have hA0 := ref_81 id mc hclean0 .skip
    have hA := ref_81 id mc hclean1 r.sp.state
    rw [ref_eq_refWire, show sw .skip = .skip from rfl, ref_eq_refWire] at hA0
    have hst : (view1 (r.sp.switchTo none)).state = sw r.sp.state := by
      show (if r.sp.state == .stream then SState.skip else r.sp.state) = _
      cases r.sp.state <;> rfl
    have hrem : Rem (E1 id mc) (view1 (r.sp.switchTo none)) x =
        ref (E1 id mc) (sw r.sp.state) r.sp.pay r.sp.pad (r.sp.raw ++ x) := by
      unfold Rem
      rw [hst]
      rfl
    rw [hrem]
    have hv := congrArg RefOut.verdict h8
    have hu := congrArg RefOut.unread h8
    have ho := congrArg RefOut.out h8
    simp only [RefOut.pre_verdict, RefOut.pre_unread, RefOut.pre_out, Rem] at hv hu ho
    rcases hA0 with ⟨a1, a2⟩ | ⟨a1, a2⟩ <;> rcases hA with ⟨b1, b2⟩ | ⟨b1, b2⟩
    · rw [a2, b2]
      simp only [RefOut.pre, List.nil_append]
      rw [ho, hu]
    · exact absurd (hv ▸ a1) b1
    · exact absurd (hv ▸ b1 : (refWire (E8 id mc) (Gd ++ x)).verdict = .more) a1
    · rw [a2, b2, RefOut.pre_pre, RefOut.pre_pre, hu]
      simp only [List.nil_append]
      rw [ho]

end Fcgi.E2E
