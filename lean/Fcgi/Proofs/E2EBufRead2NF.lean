import Fcgi.Proofs.E2EWritersNF
import Fcgi.Proofs.E2EBufRead2
/-!
# `fill_buf`/`consume` rounds, then `read_to_end`, then one write (`Proofs/E2EBufRead2`, variant 1) without the model-fuel bound

`BR2OK.hfu : 2·n + wcost |data| + 20 ≤ 1000`, the conjunct of `HB1` and the parameter of `hwq_poll` are gone: `scriptOf c`
dominates the rounds and the write still in the script.  Same transformation as `Proofs/E2EWritersNF.lean` (suffix `NF`);
`write_phaseGN` = `write_phaseG` asking for the cost of the REST of the data only.
-/
namespace Fcgi.E2E
open Fcgi Fcgi.Req Fcgi.Str Fcgi.Async Fcgi.Run Fcgi.Spec Fcgi.C09E

/-- `write_phaseG` asking for the cost of the rest of the data -/
theorem write_phaseGN {id : Nat} {data : Bytes} {st : ExitStatus} {Lb : Bytes}
    {r : AReq} {h : HState} {e : Run.Env} (hw : HWriteG id data st Lb h e) (hb : Ben e.tr)
    {fuel : Nat} (hf : wcost (restOf h.sub data).length + 3 ≤ fuel) :
    WOutG id data st Lb r e (handlerPoll fuel r h e) := by
  obtain ⟨ops, sub, ws, pr⟩ := h
  obtain ⟨hops, hpr, ⟨w, L, sent, hws, hst, hlog, hL⟩, hlen⟩ := hw
  simp only at hops hpr hws hst hL hlen
  subst hops hpr hws
  have hfu : wcost (restOf sub data).length + 3 ≤ fuel := hf
  rcases writeAll_run (id := id) r data [.dropW 0, .ret st] true (restOf sub data).length fuel sub w e
      L sent (Nat.le_refl _) (by omega) hb hst hlog with
    ⟨w', e', rd', L', sent', d1, d2, d3, d4, d5, d6, d7, d8, d9, d10, d11⟩ |
    ⟨w', e', f', d1, d2, d3, d4, d5, d6, d7, d8, d9⟩
  · show WOutG id data st Lb r e (handlerPoll fuel r
      { ops := wscript data st, sub := sub, writers := [some w], propagate := true } e)
    rw [show wscript data st = .writeAll 0 data :: [.dropW 0, .ret st] from rfl, d1]
    refine ⟨rfl, d7, d8, d9, Or.inl ⟨rfl, d10, d11, rfl, rfl, ⟨w', L', sent', rfl, d5, d3, ?_⟩, ?_⟩⟩
    · show L' ++ streamRecords 6 id rd' = _
      rw [d4, hL]
    · show rd'.length ≤ data.length
      omega
  · show WOutG id data st Lb r e (handlerPoll fuel r
      { ops := wscript data st, sub := sub, writers := [some w], propagate := true } e)
    rw [show wscript data st = .writeAll 0 data :: [.dropW 0, .ret st] from rfl, d1]
    obtain ⟨f2, rfl⟩ : ∃ f2, f' = f2 + 2 := ⟨f' - 2, by omega⟩
    rw [hp_dropW]
    simp only [List.getD_cons_zero, List.set_cons_zero]
    rw [hp_ret]
    have hs2 : TStep e.tr (e'.tr.ev "W=ok") := d7.trans (TStep.ev _ (by decide))
    refine ⟨rfl, hs2, d8, d9, Or.inr ⟨rfl, rfl, ?_, ?_⟩⟩
    · show lockDrop w'.lock (e'.ev "W=ok").mutex = none
      rw [d5]; exact d6
    · show (e'.tr.ev "W=ok").wlog = _
      rw [Transport.ev_wlog, d3, hL]

/-- `BR2OK` without the model-fuel bound -/
structure BR2OKN (g : Cfg) (n k : Nat) : Prop where
  wf : WellFormedPreamble g.p g.recs
  role : g.p.role = 1
  pairs : ∀ q ∈ g.p.pairs, (NV.enc q).length ≤ alignedBufsize g.b
  noise : NoiseFits (alignedBufsize g.b) g.recs
  hb : Body g.p.id 5 g.content g.body
  hf : NoiseFits (alignedBufsize g.b) g.body
  hp : g.pad.length < 256
  hX2 : g.X2 = []
  hX : g.X = serAll g.body ++ g.term.ser
  hU : g.U = g.term.ser
  hs : g.hscript = bscript2 n k g.data g.st

/-- `HB1` without the fuel conjunct -/
def HB1N (g : Cfg) (k : Nat) (c : Conn) : Prop :=
  ∃ r n' handed dO shown, c.phase = .handler r { ops := rounds n' k ++ .readAll :: oscript g.data g.st, propagate := true } ∧
    BSt g.K g.L1 [] r c.env.mutex c.env.tr handed dO ∧
    Pos g.R r.sp.raw r.sp.pay r.sp.pad c.env.tr.input ∧
    handed = taken k shown ∧ SlEv shown c.env.tr ∧
    Ben c.env.tr ∧ c.stop = false ∧ Ev1 g c.env.tr ∧ c.scripts = g.more

def S01N (g : Cfg) (k : Nat) (c : Conn) : Prop := FStage g c ∨ HB1N g k c ∨ HA1 g k c

abbrev R1N (g : Cfg) (k : Nat) (N : Nat) (c : Conn) : Prop := RQ0 g (Q1 g k) (S01N g k) N c

/-- **One poll** with the handler in its `write_all`. -/
theorem hwq_pollNF {g : Cfg} {Q : Transport → Prop} {S0 : Conn → Prop} (hQ : MonoQ Q)
    {c : Conn} (h : HWq g Q c) : RQ0 g Q S0 3 c := by
  obtain ⟨r, h, O1, hph, hw, hfin, hO, hseen, hb, hstop, hev, hsc⟩ := h
  have hfuel := handlerFuel_ge c.env r
  have hout := write_phaseGN (r := r) hw hb (fuel := (handlerFuel c.env r + scriptOf c)) (by
    have h2 := wcost_le (restOf h.sub g.data).length
    have h3 : scriptOf c = (restOf h.sub g.data).length + 1 + 2 := by
      rw [scriptOf_handler hph]
      obtain ⟨ops, sub, ws, pr⟩ := h
      have := hw.ops
      simp only at this
      subst this
      simp [scriptCost, wscript, curCost_writeAll, opCost]
    omega)
  exact bwrite_outQ hQ (r := r) (e0 := c.env) hph rfl hout (.refl _) rfl hfin hO hseen hb hstop hev hsc

theorem BR2OKN.fok {g : Cfg} {n k : Nat} (ok : BR2OKN g n k) : FOK g := ⟨ok.wf, ok.pairs, ok.noise⟩

theorem BR2OKN.hid {g : Cfg} {n k : Nat} (ok : BR2OKN g n k) : g.p.id < 65536 := (pid_of_wf ok.wf).2

theorem BR2OKN.kok {g : Cfg} {n k : Nat} (ok : BR2OKN g n k) : g.K.OK := resp_kok ok.hid ok.hb ok.hf ok.hp ok.hX2 ok.hX

theorem BR2OKN.kfin {g : Cfg} {n k : Nat} (ok : BR2OKN g n k) : g.K.final = true := by
  simp [RCtx.final, Cfg.K, ok.role, nextInputStream, RT.stdin]

theorem BR2OKN.ku {g : Cfg} {n k : Nat} (ok : BR2OKN g n k) : g.K.U = g.U := by simp [Cfg.K, ok.hX2, ok.hU]

theorem BR2OKN.rwf {g : Cfg} {n k : Nat} (ok : BR2OKN g n k) : ∀ r ∈ g.R, r.WF := by
  intro r hr
  rcases List.mem_append.1 hr with hr | hr
  · exact body_wf ok.hid ok.hb r hr
  · rw [List.mem_singleton.1 hr]; exact ⟨ok.hid, by simp [Cfg.term], ok.hp⟩

theorem BR2OKN.XR {g : Cfg} {n k : Nat} (ok : BR2OKN g n k) : g.X = serAll g.R := by
  rw [ok.hX, Cfg.R, C02.serAll_append, C02.serAll_single]

theorem S01N.cong {g : Cfg} {k : Nat} (c c' : Conn) (h : S01N g k c)
    (hph : c'.phase = c.phase) (hsc : c'.scripts = c.scripts) (hstop : c'.stop = c.stop)
    (hm : c'.env.mutex = c.env.mutex) (hs : TrSame c.env.tr c'.env.tr) : S01N g k c' := by
  rcases h with h | ⟨r, n', handed, dO, shown, h1, h2, h3, h4, h5, h7, h8, h9, h10⟩ |
    ⟨r, acc, dO, shown, h1, h2, h3, h4, h5, h6, h7⟩
  · exact Or.inl (h.cong hph hsc hstop hm hs)
  · exact Or.inr (Or.inl ⟨r, n', handed, dO, shown, hph.trans h1, BSt.cong' h2 hm hs, by rw [hs.input]; exact h3, h4,
      fun s hx => hs.mem (h5 s hx), hs.ben h7, hstop.trans h8, hs.ev1 h9, hsc.trans h10⟩)
  · exact Or.inr (Or.inr ⟨r, acc, dO, shown, hph.trans h1, BSt.cong' h2 hm hs, fun s hx => hs.mem (h3 s hx), hs.ben h4,
      hstop.trans h5, hs.ev1 h6, hsc.trans h7⟩)

/-- the rest of a poll from the handler's `readAll` on -/
theorem ra1_pollNF {g : Cfg} {n k : Nat} (ok : BR2OKN g n k) {c : Conn} {r0 r : AReq} {H0 : HState} {sub : HSub}
    {e : Run.Env} {f : Nat} {dO : Bytes} {shown : List Bytes} (hph : c.phase = .handler r0 H0)
    (heq : handlerPoll ((handlerFuel c.env r0 + scriptOf c)) r0 H0 c.env =
      handlerPoll f r { ops := .readAll :: oscript g.data g.st, sub := sub, propagate := true } e)
    (hs : BSt g.K g.L1 [] r e.mutex e.tr (taken k shown ++ accOf sub) dO) (hsl : SlEv shown e.tr)
    (hts : TStep c.env.tr e.tr) (hsg : e.segs = c.env.segs)
    (hf : 2 * ((2 * g.cap + e.tr.input.length) / 64) + 2 * e.tr.input.length + wcost g.data.length + 12 ≤ f)
    (hb : Ben c.env.tr) (hstop : c.stop = false) (hev : Ev1 g c.env.tr) (hsc : c.scripts = g.more) :
    R1N g k 3 c := by
  have hK := ok.kok
  have hrl := BSt.rem_le hK hs
  have hcapK : g.K.cap = g.cap := rfl
  have hdiv : (g.K.C.length - (taken k shown ++ accOf sub).length) / 64 ≤ (2 * g.cap + e.tr.input.length) / 64 :=
    Nat.div_le_div_right (by omega)
  have hbe := hb.step hts
  rcases readAllO_run hK (L := g.L1) (P := []) (taken k shown) (oscript g.data g.st) [] true
      (2 * ((g.K.C.length - (taken k shown ++ accOf sub).length) / 64) + 2 * e.tr.input.length + 4) f r sub e dO 1 1
      (by omega) (by omega) (fun _ => Nat.le_refl _) (fun h => by omega) hbe hs with
    ⟨r', acc', e', dO', d1, d3, d5, d6, d8, d9⟩ |
    ⟨r', e', acc, f', d1, d2, d3, d4, dl, dm, dpay, dpad, dwire, dw, dsg, dts⟩
  · have hstep := C07.handler_step c r0 H0 hph
    rw [heq, d1] at hstep
    have hstep' : stepConn c = .halt ⟨.handler r' { ops := .readAll :: oscript g.data g.st, sub := .readAllAcc acc', propagate := true },
        e', c.scripts, c.stop⟩ .pending := hstep
    have ht := hts.trans d6
    exact Or.inl (Or.inl ⟨_, (Halts.now hstep').mono (by omega), ⟨ht.w, d5.trans hsg, rfl⟩,
      Or.inl (Or.inr (Or.inr ⟨r', acc', dO', shown, rfl, d3, hsl.step d6, hb.step ht, hstop, hev.step ht, hsc⟩)),
      d8, by show ans e'.tr < ans c.env.tr; have := hts.ans_le; omega⟩)
  · -- the `readAll` is complete: `output_stream(Stdout)`, `write_all(data)`
    obtain ⟨⟨G, hi⟩, _, _, ⟨O1, hl1, hl2⟩⟩ := d4
    have hreq : r'.sp.request = g.p.request := hi.req
    have hrl2 : r'.sp.raw.length ≤ g.cap := by
      have := hi.sinv.1
      rw [hi.capK] at this
      simp only [Str.Parser.freeStart] at this
      omega
    have hts1 : TStep e.tr (e'.ev (rEvent acc)).tr := dts.trans (TStep.ev _ (isHS_rEvent _))
    have hfin : REnd g.N r' (e'.ev (rEvent acc)).tr.input :=
      ⟨dw ok.kfin, dl, dpay, dpad, by show r'.sp.raw ++ e'.tr.input = g.U; rw [dwire]; exact ok.ku, hreq, hi.capK,
        hi.mt.mc, hrl2, hi.sinv⟩
    have hid2 : r'.sp.request.id = g.p.id := by rw [hreq]; rfl
    have hinle := dts.tle.input_len
    have hw := open_phaseG (data := g.data) (st := g.st) (Lb := g.L1 ++ O1) (r := r') (e := e'.ev (rEvent acc))
      (dw ok.kfin) (by rw [hreq]; exact ok.role) dm (by show (e'.tr.ev _).wlog = _; rw [Transport.ev_wlog, hl1])
      (hbe.step hts1) (fuel := f') (by omega)
    rw [hid2] at hw
    have hseen : Q1 g k (e'.ev (rEvent acc)).tr :=
      ⟨shown, acc, d3.symm, fun s hx => (hts1.mem_events (hsl s hx)), by
        show rEvent acc ∈ e'.tr.events ++ [rEvent acc]; simp⟩
    have hO : O1 ++ r'.sp.output = g.Ob := by rw [hl2]; rfl
    exact bwrite_outQ (q1_mono g k) (r := r') (e0 := e'.ev (rEvent acc)) (O1 := O1) hph (heq.trans d1) hw
      (hts.trans hts1) (dsg.trans hsg) hfin hO hseen hb hstop hev hsc

/-- **One poll** with the handler in its rounds. -/
theorem hb1_pollNF {g : Cfg} {n k : Nat} (ok : BR2OKN g n k) {c : Conn} (h : HB1N g k c) : R1N g k 3 c := by
  obtain ⟨r, n', handed, dO, shown, hph, hs, hpos, hsh, hevs, hb, hstop, hev, hsc⟩ := h
  have hK := ok.kok
  have hcapr : r.sp.cap = g.cap := by obtain ⟨⟨G, hi⟩, _⟩ := hs; exact hi.capK
  have hwl := wcost_le g.data.length
  have hcost : 2 * n' + wcost g.data.length + 4 ≤ scriptOf c := by
    rw [scriptOf_handler hph, scriptCost_fresh]
    have := rounds_cost n' k
    simp only [List.map_append, List.sum_append, List.map_cons, List.sum_cons, opCost, oscript, List.map_nil, List.sum_nil]
    omega
  have hfuel : 1000 + 4 * c.env.tr.input.length + 4 * g.cap + (2 * n' + wcost g.data.length + 4) ≤ (handlerFuel c.env r + scriptOf c) := by
    have := handlerFuel_ge' c.env r; rw [hcapr] at this; omega
  rcases rounds_runG hK (L := g.L1) (P := []) ok.rwf k (.readAll :: oscript g.data g.st) [] true n'
      ((handlerFuel c.env r + scriptOf c)) r c.env handed dO shown (by omega) hb hs hpos hsh hevs with
    ⟨n2, r', e', handed', dO', shown', a0, a1, a2, a3, a4, a5, a6, a7, a8, a9, _⟩ |
    ⟨r', e', handed', dO', shown', f', b1, b2, b3, b4, b5, b6, b7, b8, _⟩
  · have hstep := C07.handler_step c r _ hph
    rw [a1] at hstep
    have hstep' : stepConn c = .halt ⟨.handler r' { ops := rounds n2 k ++ .readAll :: oscript g.data g.st, propagate := true },
        e', c.scripts, c.stop⟩ .pending := hstep
    exact Or.inl (Or.inl ⟨_, (Halts.now hstep').mono (by omega), ⟨a7.w, a6, rfl⟩,
      Or.inl (Or.inr (Or.inl ⟨r', n2, handed', dO', shown', rfl, a2, a3, a4, a5, hb.step a7, hstop, hev.step a7,
        hsc⟩)), a8, a9⟩)
  · have hinle := b8.tle.input_len
    have hdiv : (2 * g.cap + e'.tr.input.length) / 64 ≤ (2 * g.cap + c.env.tr.input.length) / 64 :=
      Nat.div_le_div_right (by omega)
    refine ra1_pollNF ok (sub := .fresh) (shown := shown') hph b1 (by
        rw [← b5]
        show BSt g.K g.L1 [] r' e'.mutex e'.tr (handed' ++ []) dO'
        rw [List.append_nil]; exact b3) b6 b8 b7 ?_
      hb hstop hev hsc
    omega

/-- **One poll** with the handler suspended in its `readAll`. -/
theorem ha1_pollNF {g : Cfg} {n k : Nat} (ok : BR2OKN g n k) {c : Conn} (h : HA1 g k c) : R1N g k 3 c := by
  obtain ⟨r, acc, dO, shown, hph, hs, hsl, hb, hstop, hev, hsc⟩ := h
  have hcapr : r.sp.cap = g.cap := by obtain ⟨⟨G, hi⟩, _⟩ := hs; exact hi.capK
  have hwl := wcost_le g.data.length
  have hcost : wcost g.data.length + 4 ≤ scriptOf c := by
    rw [scriptOf_handler hph]
    simp only [scriptCost, curCost_readAllN, oscript, List.map_cons, List.sum_cons, opCost, List.map_nil, List.sum_nil]
    omega
  have hfuel : 1000 + 4 * c.env.tr.input.length + 4 * g.cap + (wcost g.data.length + 4) ≤ (handlerFuel c.env r + scriptOf c) := by
    have := handlerFuel_ge' c.env r; rw [hcapr] at this; omega
  refine ra1_pollNF ok (sub := .readAllAcc acc) (shown := shown) hph rfl hs hsl (.refl _) rfl ?_ hb hstop hev hsc
  omega

/-- the first poll of the handler -/
theorem bufread2_firstNF {g : Cfg} {n k : Nat} (ok : BR2OKN g n k) (c : Conn) (hc : FirstCfg g c) : R1N g k 6 c := by
  obtain ⟨e1, hph, hlen, hwire, hlog, hm, hb, hstop, hev, hsc⟩ := hc
  have hrole : g.p.request.role = 1 := ok.role
  have hstart : C03SI.Start g.K.E (Str.Parser.fromParser g.cap g.p.request e1 g.mc) :=
    C03SI.start_fresh g.cap g.p.request e1 g.mc hlen ok.hid (Or.inl hrole)
  have hrinv : RInv g.K (AReq.new (Str.Parser.fromParser g.cap g.p.request e1 g.mc)) e1 c.env.tr.input [] [] := by
    refine ⟨hstart.mtch, hstart.inv, rfl, rfl, rfl, hwire, fun x => ?_⟩
    have := C03SI.rem_start hstart x
    show refWire g.K.E (e1 ++ x) = (Rem g.K.E (Str.Parser.fromParser g.cap g.p.request e1 g.mc) x).pre [] []
    rw [this]; rfl
  have hrst : RSt g.K g.L1 [] (AReq.new (Str.Parser.fromParser g.cap g.p.request e1 g.mc)) c.env.mutex c.env.tr [] [] :=
    ⟨⟨e1, hrinv⟩, by rw [hm]; exact lockInv_free rfl, Or.inl hm, ⟨[], by rw [hlog, List.append_nil], rfl⟩⟩
  rw [ok.hs] at hph
  exact (hb1_pollNF ok ⟨_, n, [], [], [], hph, by
      show RStB g.K g.L1 [] _ c.env.mutex c.env.tr ([] ++ _) []
      exact .of hrst,
    ⟨[], [], g.R, rfl, rfl, by
      show e1 ++ c.env.tr.input = [] ++ ([] ++ serAll g.R)
      rw [hwire, ok.XR]; rfl, List.suffix_refl _⟩,
    rfl, (fun _ h => nomatch h), hb, hstop, hev, hsc⟩).mono (by omega)

theorem s1q_pollNF {g : Cfg} {n k : Nat} (ok : BR2OKN g n k) {c : Conn} (h : SQ g (Q1 g k) (S01N g k) c) :
    R1N g k (2 * c.env.tr.input.length + 15) c := by
  rcases h with (h | h | h) | h | h
  · exact fstage_poll3 ok.fok (fun _ h => Or.inl (Or.inl h)) (bufread2_firstNF ok) h
  · exact (hb1_pollNF ok h).mono (by omega)
  · exact (ha1_pollNF ok h).mono (by omega)
  · exact (hwq_pollNF (q1_mono g k) h).mono (by omega)
  · exact (tq_poll (q1_mono g k) h).mono (by omega)

/-- `run_bufread2` without the size hypothesis (`run_stages3'`). -/
theorem run_bufread2NF' {g : Cfg} {n k : Nat} (ok : BR2OKN g n k) {Z : Bytes}
    (hns : NoStuckW g.cap g.mc (g.U ++ Z))
    (hNF : ∀ F x, F ++ x ++ Z = g.U ++ Z → (run .header F g.mc).st.isFinal = false)
    (em : EndMode) (evs0 : List String) (c : Conn) (n0 fuel : Nat) (hst : FStage g c)
    (hem : c.env.tr.endMode = em) (hev0 : ∀ s ∈ evs0, s ∈ c.env.tr.events)
    (hsegs : c.env.segs = []) (hf : ans c.env.tr + 1 ≤ fuel) :
    ∃ c'' fin, runTask fuel c n0 none = (c'', fin) ∧
      (GEnd g.cap g.mc Z g.more (g.hs0 + 1)
          (fun i : Bytes × Bytes × List Bytes × Bytes => g.p.flags.toNat % 2 = 1 ∧ i.1 ++ i.2.1 = g.Ob ∧
            g.content = taken k i.2.2.1 ++ i.2.2.2)
          (fun _ => g.U ++ Z) (fun i => g.Lb i.1 i.2.1)
          (fun i => hsEvent g.p.request :: rEvent i.2.2.2 :: i.2.2.1.map fEvent) em evs0 (ans c.env.tr) c'' fin ∨
       (fin = "RET" ∧ FQ g (Q1 g k) c'' ∧ c''.env.tr.endMode = em ∧ (∀ s ∈ evs0, s ∈ c''.env.tr.events))) :=
  run_stages3' (cap24 g) (fun _ _ => hns) (fun _ _ => hNF)
    (fun _ _ h => SQ.cong (q1_mono g k) (fun c c' h a b d e f => S01N.cong c c' h a b d e f) h)
    (fun _ h => (s1q_pollNF ok h).imp (fun _ _ h => h) (fun c1 _ h => by
      obtain ⟨O1, O2, hO, ⟨shown, acc, q1, q2, q3⟩, haf⟩ := h
      obtain ⟨raw, hph, hw, hraw⟩ := haf.ph
      exact ⟨(O1, O2, shown, acc), ⟨haf.keep, hO, q1⟩,
        Or.inr ⟨raw, hph, by rw [hw], hraw, haf.log, haf.ben, haf.stop⟩,
        ⟨haf.sc, haf.mtx, haf.ev.1, fun s hs => by
          rcases List.mem_cons.1 hs with rfl | hs
          · exact haf.ev.2
          rcases List.mem_cons.1 hs with rfl | hs
          · exact q3
          · obtain ⟨x, hx, rfl⟩ := List.mem_map.1 hs
            exact q2 x hx⟩⟩) (fun _ _ h => h))
    em evs0 c n0 fuel (Or.inl (Or.inl hst)) hem hev0 hsegs hf

end Fcgi.E2E
