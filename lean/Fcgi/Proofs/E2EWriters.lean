import Fcgi.Proofs.E2EBufRead2
/-!
# End-to-end composition (C07/C10) — a handler with TWO writers and any sequence of `write_all`s

Handler tail `otail W st`: `output_stream(Stdout)`, `output_stream(Stderr)`, then for every `(i, data) ∈ W`, in
order, `write_all(data)` on writer `i` (0 = Stdout, 1 = Stderr; any `data`, empty or longer than one record),
then both writers are dropped and the handler returns `st`.

* `WSt2`, `pw_step2`, `writeAll_run2` — `Proofs/E2EHandler`'s `write_all` analysis for writer number `me` of
  stream type `ty` in a writer table `ws` (the other writers are untouched);
* `outOf id W` — the records the script owes: the concatenation, in SCRIPT ORDER, of `streamRecords (6 + i) id data`;
* `HW2`, `WOut2`, `tail_run`, `write_phase2`, `open_phase2` — one poll of the tail: suspended inside ONE `write_all`
  (the writers before it are idle again: lock free, no record begun; the log is the complete records of the
  writes before it plus a prefix of the current record), or done with exactly `outOf id W` appended to the log;
* the connection-level stages are those of `Proofs/E2EBufRead2` (variant 1: `n` rounds of `fill_buf`/`consume`,
  then `readAll`) with this tail instead of the canonical one — generated from them, see the second part.
-/
namespace Fcgi.E2E
open Fcgi Fcgi.Req Fcgi.Str Fcgi.Async Fcgi.Run Fcgi.Spec Fcgi.C09E

/-! ## One `write_all` on writer `me` of a writer table -/

/-- `WSt` for a writer of stream type `ty` that is writer number `me` (mutex owner `me + 1`) -/
structure WSt2 (ty me id : Nat) (w : Writer) (m : MutexSt) (rd sent : Bytes) : Prop where
  ty : w.rtype = ty
  id : w.id = id
  st : (w.lock = .none ∧ w.isWriting = false ∧ m = none ∧ sent = []) ∨
       (WInv w rd sent ∧ Consistent (me + 1) w.lock m ∧ (m = none ∨ m = some (me + 1)))

/-- an idle writer: no lock, no record begun -/
structure WIdle (ty id : Nat) (w : Writer) : Prop where
  ty : w.rtype = ty
  id : w.id = id
  lock : w.lock = .none
  wr : w.isWriting = false

theorem WIdle.wst {ty id : Nat} {w : Writer} (h : WIdle ty id w) (me : Nat) (rd : Bytes) : WSt2 ty me id w none rd [] :=
  ⟨h.ty, h.id, Or.inl ⟨h.lock, h.wr, rfl, rfl⟩⟩

def WritePostB2 (ty me id : Nat) (rd L : Bytes) (t : Transport) (w' : Writer) (m' : MutexSt) (t' : Transport) :
    WRes → Prop
  | .ready n => n = min rd.length 65535 ∧ t'.wlog = L ++ recordOf ty id (rd.take 65535) ∧
      WSt2 ty me id w' m' (rd.drop 65535) [] ∧ WIdle ty id w' ∧ m' = none
  | .pending => ∃ sent', t'.wlog = L ++ sent' ∧ WSt2 ty me id w' m' rd sent' ∧ t'.woken = true ∧ ans t' < ans t
  | .err _ => False
  | .panic _ => False

theorem pw_step_busy2 {ty me id : Nat} {w : Writer} {m : MutexSt} {rd sent L : Bytes} {t : Transport}
    {w' : Writer} {m' : MutexSt} {t' : Transport} {res : WRes}
    (hty : w.rtype = ty) (hid : w.id = id) (hinv : WInv w rd sent) (hc : Consistent (me + 1) w.lock m)
    (hm : m = none ∨ m = some (me + 1)) (hne : rd ≠ []) (hb : Ben t) (hl : t.wlog = L ++ sent)
    (h : w.pollWrite me rd m t = (w', m', t', res)) :
    TStep t t' ∧ t'.input = t.input ∧ WritePostB2 ty me id rd L t w' m' t' res := by
  obtain ⟨q1, q2, q3, q4, q5⟩ := pollWrite_ben w me rd m t sent hne hinv hc hm hb h
  obtain ⟨p1, p2, delta, p3, p4, p5, _, p7⟩ := pollWrite_spec w me rd m t sent hne hinv hc h
  refine ⟨q1, q2, ?_⟩
  cases res with
  | ready n =>
    obtain ⟨a1, a2, a3, a4, a5⟩ := p4 n rfl
    refine ⟨a1, ?_, ⟨p1.trans hty, p2.trans hid, Or.inl ⟨a4, a5, a3, rfl⟩⟩, ⟨p1.trans hty, p2.trans hid, a4, a5⟩, a3⟩
    rw [p3, hl, List.append_assoc, a2, a1, take_min_len, hty, hid]
  | pending =>
    obtain ⟨b1, b2⟩ := p5 (Or.inl rfl)
    obtain ⟨c1, c2⟩ := q5 rfl
    exact ⟨sent ++ delta, by rw [p3, hl, List.append_assoc], ⟨p1.trans hty, p2.trans hid, Or.inr ⟨b1, b2, q4⟩⟩,
      c1, c2⟩
  | err x => exact q3 x rfl
  | panic s => exact p7 s rfl

theorem pw_step2 {ty me id : Nat} {w : Writer} {m : MutexSt} {rd sent L : Bytes} {t : Transport}
    {w' : Writer} {m' : MutexSt} {t' : Transport} {res : WRes}
    (hs : WSt2 ty me id w m rd sent) (hne : rd ≠ []) (hb : Ben t) (hl : t.wlog = L ++ sent)
    (h : w.pollWrite me rd m t = (w', m', t', res)) :
    TStep t t' ∧ t'.input = t.input ∧ WritePostB2 ty me id rd L t w' m' t' res := by
  obtain ⟨hty, hid, hst | ⟨hinv, hc, hm⟩⟩ := hs
  · obtain ⟨a1, a2, a3, a4⟩ := hst
    subst a3 a4
    rw [pollWrite_idle w me none t hne a1 a2] at h
    have hc : Consistent (me + 1) (fresh w rd).lock none := by unfold Consistent; simp [fresh]
    exact pw_step_busy2 (w := fresh w rd) hty hid (fresh_WInv w hne) hc (Or.inl rfl) hne hb hl h
  · exact pw_step_busy2 hty hid hinv hc hm hne hb hl h

theorem getD_set_self (ws : List (Option Writer)) (i : Nat) (hi : i < ws.length) (x : Writer) :
    (ws.set i (some x)).getD i none = some x := by
  simp [List.getD, hi]

/-- What `handlerPoll` does for a `writeAll me data` on writer `me` of the table `ws`. -/
theorem writeAll_run2 {ty me id : Nat} (r : AReq) (data : Bytes) (rest : List HOp) (pr : Bool) :
    ∀ (N fuel : Nat) (sub : HSub) (ws : List (Option Writer)) (w : Writer) (e : Run.Env) (L sent : Bytes),
      me < ws.length → ws.getD me none = some w →
      (restOf sub data).length ≤ N → wcost (restOf sub data).length ≤ fuel → Ben e.tr →
      WSt2 ty me id w e.mutex (restOf sub data) sent → e.tr.wlog = L ++ sent →
      (∃ (w' : Writer) (e' : Run.Env) (rd' L' sent' : Bytes),
          handlerPoll fuel r { ops := .writeAll me data :: rest, sub := sub, writers := ws, propagate := pr } e =
            (r, { ops := .writeAll me data :: rest, sub := .writeRest rd', writers := ws.set me (some w'), propagate := pr },
              e', .pending) ∧
          rd' ≠ [] ∧ e'.tr.wlog = L' ++ sent' ∧
          L' ++ streamRecords ty id rd' = L ++ streamRecords ty id (restOf sub data) ∧
          WSt2 ty me id w' e'.mutex rd' sent' ∧ rd'.length ≤ (restOf sub data).length ∧
          TStep e.tr e'.tr ∧ e'.tr.input = e.tr.input ∧ e'.segs = e.segs ∧
          e'.tr.woken = true ∧ ans e'.tr < ans e.tr) ∨
      (∃ (w' : Writer) (e' : Run.Env) (fuel' : Nat),
          handlerPoll fuel r { ops := .writeAll me data :: rest, sub := sub, writers := ws, propagate := pr } e =
            handlerPoll fuel' r { ops := rest, sub := .fresh, writers := ws.set me (some w'), propagate := pr } (e'.ev "W=ok") ∧
          fuel ≤ fuel' + wcost (restOf sub data).length ∧
          e'.tr.wlog = L ++ streamRecords ty id (restOf sub data) ∧
          WIdle ty id w' ∧ e'.mutex = none ∧
          TStep e.tr e'.tr ∧ e'.tr.input = e.tr.input ∧ e'.segs = e.segs) := by
  intro N
  induction N with
  | zero =>
    intro fuel sub ws w e L sent hi hw hN hf hb hs hl
    have hrd : restOf sub data = [] := List.length_eq_zero_iff.1 (by omega)
    obtain ⟨f, rfl⟩ : ∃ f, fuel = f + 1 := ⟨fuel - 1, by unfold wcost at hf; omega⟩
    right
    rw [hp_writeAll f r me data rest sub ws w hw pr e]
    simp only [hrd, List.isEmpty_nil, if_true]
    obtain ⟨hty, hid, hst | ⟨hinv, _, _⟩⟩ := hs
    · obtain ⟨a1, a2, a3, a4⟩ := hst
      subst a4
      have hset : ws.set me (some w) = ws := by
        apply List.ext_getElem?
        intro j
        by_cases hj : j = me
        · subst hj
          rw [List.getElem?_set_self hi]
          have := hw
          simp only [List.getD] at this
          cases hg : ws[j]? with
          | none => simp [hg] at this
          | some x => simp [hg] at this; rw [this]
        · rw [List.getElem?_set_ne (fun h => hj h.symm)]
      refine ⟨w, e, f, by rw [hset], by unfold wcost; simp, by simpa [streamRecords_nil] using hl, ⟨hty, hid, a1, a2⟩, a3,
        .refl _, rfl, rfl⟩
    · have := hinv.loop.pos
      rw [hrd] at this
      simp at this
  | succ N ih =>
    intro fuel sub ws w e L sent hi hw hN hf hb hs hl
    by_cases hrd : restOf sub data = []
    · exact ih fuel sub ws w e L sent hi hw (by rw [hrd]; simp) hf hb hs hl
    · obtain ⟨f, rfl⟩ : ∃ f, fuel = f + 1 := ⟨fuel - 1, by unfold wcost at hf; omega⟩
      have hpos : 0 < (restOf sub data).length := List.length_pos_iff.mpr hrd
      rw [hp_writeAll f r me data rest sub ws w hw pr e]
      have hemp : (restOf sub data).isEmpty = false := by simpa using hrd
      simp only [hemp, Bool.false_eq_true, if_false]
      rcases hpw : w.pollWrite me (restOf sub data) e.mutex e.tr with ⟨w1, m1, t1, res⟩
      obtain ⟨s1, s2, s3⟩ := pw_step2 hs hrd hb hl hpw
      cases res with
      | pending =>
        left
        obtain ⟨sent', b1, b2, b3, b4⟩ := s3
        exact ⟨w1, { e with mutex := m1, tr := t1 }, restOf sub data, L, sent', rfl, hrd, b1, rfl, b2,
          Nat.le_refl _, s1, s2, rfl, b3, b4⟩
      | err x => exact s3.elim
      | panic s => exact s3.elim
      | ready n =>
        obtain ⟨c1, c2, c3, _, _⟩ := s3
        have hn : n ≠ 0 := by omega
        obtain ⟨n', rfl⟩ : ∃ n', n = n' + 1 := ⟨n - 1, by omega⟩
        simp only
        have hdrop : (restOf sub data).drop (n' + 1) = (restOf sub data).drop 65535 := by
          rw [c1, drop_min_len]
        rw [hdrop]
        have hlen' : ((restOf sub data).drop 65535).length ≤ N := by
          simp only [List.length_drop]; omega
        have hcost : wcost ((restOf sub data).drop 65535).length ≤ f := by
          unfold wcost at hf ⊢
          simp only [List.length_drop]
          omega
        have hrec := streamRecords_cons ty id hrd
        have hi' : me < (ws.set me (some w1)).length := by rw [List.length_set]; exact hi
        have hss : ∀ x : Writer, (ws.set me (some w1)).set me (some x) = ws.set me (some x) := fun x => by simp
        rcases ih f (.writeRest ((restOf sub data).drop 65535)) (ws.set me (some w1)) w1 { e with mutex := m1, tr := t1 }
            (L ++ recordOf ty id ((restOf sub data).take 65535)) [] hi' (getD_set_self ws me hi w1) hlen' hcost (hb.step s1) c3
            (by simpa using c2) with
          ⟨w2, e2, rd2, L2, sent2, d1, d2, d3, d4, d5, d6, d7, d8, d9, d10, d11⟩ |
          ⟨w2, e2, f2, d1, d2, d3, d4, d5, d6, d7, d8⟩
        · left
          rw [hss] at d1
          refine ⟨w2, e2, rd2, L2, sent2, d1, d2, d3, ?_, d5, ?_, s1.trans d7, d8.trans s2, d9, d10, ?_⟩
          · rw [d4, hrec, List.append_assoc]; rfl
          · have d6' : rd2.length ≤ ((restOf sub data).drop 65535).length := d6
            simp only [List.length_drop] at d6'; omega
          · have := s1.ans_le
            have d11' : ans e2.tr < ans t1 := d11
            omega
        · right
          rw [hss] at d1
          refine ⟨w2, e2, f2, d1, ?_, ?_, d4, d5, s1.trans d6, d7.trans s2, d8⟩
          · have d2' : f ≤ f2 + wcost ((restOf sub data).drop 65535).length := d2
            unfold wcost at d2' ⊢
            simp only [List.length_drop] at d2'
            omega
          · rw [d3, hrec, List.append_assoc]; rfl

/-! ## The tail: any sequence of `write_all`s on the two writers -/

/-- the output ops of the script: `(i, data)` = `write_all(data)` on writer `i` (0 = Stdout, 1 = Stderr) -/
abbrev WList := List (_root_.Fin 2 × Bytes)

def wops (W : WList) : List HOp := W.map fun x => HOp.writeAll x.1.val x.2
/-- the writes, then both writers are dropped and the handler returns `st` -/
def wtail (W : WList) (st : ExitStatus) : List HOp := wops W ++ [.dropW 0, .dropW 1, .ret st]
/-- `output_stream(Stdout)`, `output_stream(Stderr)`, the writes, drop, return -/
def otail (W : WList) (st : ExitStatus) : List HOp := .open_ 6 :: .open_ 7 :: wtail W st

/-- **what the writes owe**: for every write, in script order, the records framing its data — of the writer's
stream type (6 = Stdout, 7 = Stderr), with the request's id; nothing for an empty write -/
def outOf (id : Nat) : WList → Bytes
  | [] => []
  | x :: W => streamRecords (6 + x.1.val) id x.2 ++ outOf id W

/-- fuel the writes need in `handlerPoll` -/
def wcostAll : WList → Nat
  | [] => 0
  | x :: W => wcost x.2.length + wcostAll W

theorem wtail_cons (x : _root_.Fin 2 × Bytes) (W : WList) (st : ExitStatus) :
    wtail (x :: W) st = .writeAll x.1.val x.2 :: wtail W st := rfl

/-- the writer table of the script -/
def wtab (ws : _root_.Fin 2 → Writer) : List (Option Writer) := [some (ws 0), some (ws 1)]

theorem wtab_set (ws : _root_.Fin 2 → Writer) (i : _root_.Fin 2) (w : Writer) :
    (wtab ws).set i.val (some w) = wtab (fun j => if j = i then w else ws j) := by
  match i with
  | ⟨0, _⟩ => rfl
  | ⟨1, _⟩ => rfl

theorem wtab_get (ws : _root_.Fin 2 → Writer) (i : _root_.Fin 2) : (wtab ws).getD i.val none = some (ws i) := by
  match i with
  | ⟨0, _⟩ => rfl
  | ⟨1, _⟩ => rfl

/-- handler suspended in ONE of its `write_all`s: the current write `(i, data)` has `restOf sub data` to go, `sent`
of its current record is on the wire; every other writer is idle; the writes after it are `W'`; `Lb` = the
log when the writers were opened, `W` = all the writes of the script -/
structure HW2 (id : Nat) (W : WList) (st : ExitStatus) (Lb : Bytes) (h : HState) (e : Run.Env) : Prop where
  pr : h.propagate = true
  ex : ∃ (i : _root_.Fin 2) (data : Bytes) (W' : WList) (ws : _root_.Fin 2 → Writer) (L sent : Bytes),
    h.ops = .writeAll i.val data :: wtail W' st ∧ h.writers = wtab ws ∧
    (∀ j : _root_.Fin 2, j ≠ i → WIdle (6 + j.val) id (ws j)) ∧
    WSt2 (6 + i.val) i.val id (ws i) e.mutex (restOf h.sub data) sent ∧
    e.tr.wlog = L ++ sent ∧
    L ++ (streamRecords (6 + i.val) id (restOf h.sub data) ++ outOf id W') = Lb ++ outOf id W ∧
    wcost (restOf h.sub data).length + wcostAll W' ≤ wcostAll W

/-- result of one poll of the tail: the request is untouched, nothing is read; suspended in a write, or done
with exactly `outOf id W` appended to the log `Lb` and both writers dropped -/
def WOut2 (id : Nat) (W : WList) (st : ExitStatus) (Lb : Bytes) (r : AReq) (e : Run.Env)
    (out : AReq × HState × Run.Env × HRes) : Prop :=
  out.1 = r ∧ TStep e.tr out.2.2.1.tr ∧ out.2.2.1.tr.input = e.tr.input ∧ out.2.2.1.segs = e.segs ∧
  ((out.2.2.2 = .pending ∧ out.2.2.1.tr.woken = true ∧ ans out.2.2.1.tr < ans e.tr ∧
      HW2 id W st Lb out.2.1 out.2.2.1) ∨
   (out.2.2.2 = .done (.ok st) ∧ out.2.1.writers = [none, none] ∧ out.2.2.1.mutex = none ∧
      out.2.2.1.tr.wlog = Lb ++ outOf id W))

theorem WOut2.after {id : Nat} {W : WList} {st : ExitStatus} {Lb : Bytes} {r : AReq} {e e0 : Run.Env}
    {out : AReq × HState × Run.Env × HRes} (h : WOut2 id W st Lb r e out)
    (hts : TStep e0.tr e.tr) (hin : e.tr.input = e0.tr.input) (hsg : e.segs = e0.segs) :
    WOut2 id W st Lb r e0 out := by
  obtain ⟨q0, q1, q2, q3, q4⟩ := h
  refine ⟨q0, hts.trans q1, q2.trans hin, q3.trans hsg, ?_⟩
  rcases q4 with ⟨a1, a2, a3, a4⟩ | a
  · exact Or.inl ⟨a1, a2, by have := hts.ans_le; omega, a4⟩
  · exact Or.inr a

/-- **The tail from between two writes** (all writers idle, the mutex free). -/
theorem tail_run (id : Nat) (r : AReq) (st : ExitStatus) (Wall : WList) (Lb : Bytes) :
    ∀ (W : WList) (fuel : Nat) (ws : _root_.Fin 2 → Writer) (e : Run.Env),
      wcostAll W + 4 ≤ fuel → Ben e.tr → (∀ j : _root_.Fin 2, WIdle (6 + j.val) id (ws j)) → e.mutex = none →
      e.tr.wlog ++ outOf id W = Lb ++ outOf id Wall → wcostAll W ≤ wcostAll Wall →
      WOut2 id Wall st Lb r e (handlerPoll fuel r
        { ops := wtail W st, sub := .fresh, writers := wtab ws, propagate := true } e) := by
  intro W
  induction W with
  | nil =>
    intro fuel ws e hf hb hid hm hL _
    obtain ⟨f, rfl⟩ : ∃ f, fuel = f + 3 := ⟨fuel - 3, by omega⟩
    show WOut2 id Wall st Lb r e (handlerPoll (f + 2 + 1) r
      { ops := .dropW 0 :: [.dropW 1, .ret st], sub := .fresh, writers := wtab ws, propagate := true } e)
    rw [hp_dropW]
    simp only [wtab, List.getD_cons_zero, List.set_cons_zero]
    rw [hp_dropW]
    simp only [List.getD_cons_succ, List.getD_cons_zero, List.set_cons_succ, List.set_cons_zero]
    rw [hp_ret]
    refine ⟨rfl, .refl _, rfl, rfl, Or.inr ⟨rfl, rfl, ?_, ?_⟩⟩
    · show lockDrop (ws 1).lock (lockDrop (ws 0).lock e.mutex) = none
      rw [(hid 0).lock, (hid 1).lock, hm]; rfl
    · show e.tr.wlog = _
      simpa [outOf] using hL
  | cons x W ih =>
    intro fuel ws e hf hb hid hm hL hc
    obtain ⟨i, data⟩ := x
    rw [wtail_cons]
    have hcost : wcostAll ((i, data) :: W) = wcost data.length + wcostAll W := rfl
    rw [hcost] at hf hc
    have hout : outOf id ((i, data) :: W) = streamRecords (6 + i.val) id data ++ outOf id W := rfl
    rw [hout] at hL
    rcases writeAll_run2 (ty := 6 + i.val) (me := i.val) (id := id) r data (wtail W st) true data.length fuel .fresh
        (wtab ws) (ws i) e e.tr.wlog [] (by show i.val < 2; exact i.isLt) (wtab_get ws i) (Nat.le_refl _) (by
          show wcost data.length ≤ fuel; omega) hb (by rw [hm]; exact (hid i).wst i.val data) (by simp) with
      ⟨w', e', rd', L', sent', d1, d2, d3, d4, d5, d6, d7, d8, d9, d10, d11⟩ |
      ⟨w', e', f', d1, d2, d3, d4, d5, d6, d7, d8⟩
    · rw [d1]
      refine ⟨rfl, d7, d8, d9, Or.inl ⟨rfl, d10, d11, rfl, i, data, W, (fun j => if j = i then w' else ws j), L', sent',
        rfl, wtab_set ws i w', ?_, ?_, d3, ?_, ?_⟩⟩
      · intro j hj; simp only [if_neg hj]; exact hid j
      · simp only [if_true]; exact d5
      · show L' ++ (streamRecords (6 + i.val) id rd' ++ outOf id W) = _
        rw [← List.append_assoc, d4, ← hL]
        simp [restOf]
      · show wcost rd'.length + wcostAll W ≤ wcostAll Wall
        have d6' : rd'.length ≤ data.length := d6
        have : wcost rd'.length ≤ wcost data.length := by unfold wcost; omega
        omega
    · rw [d1, wtab_set]
      have d2' : fuel ≤ f' + wcost data.length := d2
      have d3' : e'.tr.wlog = e.tr.wlog ++ streamRecords (6 + i.val) id data := d3
      have hs1 : TStep e.tr (e'.ev "W=ok").tr := d6.trans (TStep.ev _ (by decide))
      refine (ih f' (fun j => if j = i then w' else ws j) (e'.ev "W=ok") (by omega) (hb.step hs1) ?_ d5 ?_ (by omega)).after
        hs1 d7 d8
      · intro j
        by_cases hj : j = i
        · subst hj; simp only [if_true]; exact d4
        · simp only [if_neg hj]; exact hid j
      · show (e'.tr.ev "W=ok").wlog ++ outOf id W = _
        rw [Transport.ev_wlog, d3', List.append_assoc]; exact hL

/-- **One poll of the tail**, the handler suspended in a `write_all`. -/
theorem write_phase2 {id : Nat} {W : WList} {st : ExitStatus} {Lb : Bytes}
    {r : AReq} {h : HState} {e : Run.Env} (hw : HW2 id W st Lb h e) (hb : Ben e.tr)
    {fuel : Nat} (hf : wcostAll W + 4 ≤ fuel) :
    WOut2 id W st Lb r e (handlerPoll fuel r h e) := by
  obtain ⟨ops, sub, wsl, pr⟩ := h
  obtain ⟨hpr, i, data, W', ws, L, sent, hops, hws, hidle, hst, hlog, hL, hc⟩ := hw
  simp only at hpr hops hws hst hL hc
  subst hpr hops hws
  rcases writeAll_run2 (ty := 6 + i.val) (me := i.val) (id := id) r data (wtail W' st) true (restOf sub data).length fuel sub
      (wtab ws) (ws i) e L sent (by show i.val < 2; exact i.isLt) (wtab_get ws i) (Nat.le_refl _) (by omega) hb hst hlog with
    ⟨w', e', rd', L', sent', d1, d2, d3, d4, d5, d6, d7, d8, d9, d10, d11⟩ |
    ⟨w', e', f', d1, d2, d3, d4, d5, d6, d7, d8⟩
  · rw [d1]
    refine ⟨rfl, d7, d8, d9, Or.inl ⟨rfl, d10, d11, rfl, i, data, W', (fun j => if j = i then w' else ws j), L', sent',
      rfl, wtab_set ws i w', ?_, ?_, d3, ?_, ?_⟩⟩
    · intro j hj; simp only [if_neg hj]; exact hidle j hj
    · simp only [if_true]; exact d5
    · show L' ++ (streamRecords (6 + i.val) id rd' ++ outOf id W') = _
      rw [← List.append_assoc, d4, List.append_assoc]; exact hL
    · show wcost rd'.length + wcostAll W' ≤ wcostAll W
      have : wcost rd'.length ≤ wcost (restOf sub data).length := by unfold wcost; omega
      omega
  · rw [d1, wtab_set]
    have hs1 : TStep e.tr (e'.ev "W=ok").tr := d6.trans (TStep.ev _ (by decide))
    refine (tail_run id r st W Lb W' f' (fun j => if j = i then w' else ws j) (e'.ev "W=ok") (by omega) (hb.step hs1)
      ?_ d5 ?_ (by omega)).after hs1 d7 d8
    · intro j
      by_cases hj : j = i
      · subst hj; simp only [if_true]; exact d4
      · simp only [if_neg hj]; exact hidle j hj
    · show (e'.tr.ev "W=ok").wlog ++ outOf id W' = _
      rw [Transport.ev_wlog, d3, List.append_assoc]; exact hL

/-- **The tail from its start**: both writers are opened, then the writes. -/
theorem open_phase2 {W : WList} {st : ExitStatus} {Lb : Bytes} {r : AReq} {e : Run.Env}
    (hwr : r.writeable = true) (hm : e.mutex = none) (hlog : e.tr.wlog = Lb)
    (hb : Ben e.tr) {fuel : Nat} (hf : wcostAll W + 6 ≤ fuel) :
    WOut2 r.sp.request.id W st Lb r e (handlerPoll fuel r { ops := otail W st, propagate := true } e) := by
  obtain ⟨f2, rfl⟩ : ∃ f2, fuel = f2 + 2 := ⟨fuel - 2, by omega⟩
  show WOut2 _ W st Lb r e (handlerPoll (f2 + 1 + 1) r
    { ops := .open_ 6 :: .open_ 7 :: wtail W st, sub := .fresh, writers := [], propagate := true } e)
  rw [hp_open]
  rw [if_neg (by simp [hwr, outputStreams, RT.stdout, RT.stderr])]
  rw [hp_open]
  rw [if_neg (by simp [hwr, outputStreams, RT.stdout, RT.stderr])]
  have hs1 : TStep e.tr ((e.ev s!"o=w{([] : List (Option Writer)).length}").ev
      s!"o=w{(([] : List (Option Writer)) ++ [some ({ rtype := 6, id := r.sp.request.id } : Writer)]).length}").tr :=
    (TStep.ev _ (by decide)).trans (TStep.ev _ (by simp [isHS, toString_str]))
  exact (tail_run r.sp.request.id r st W Lb W f2
    (fun j => if j = 0 then { rtype := 6, id := r.sp.request.id } else { rtype := 7, id := r.sp.request.id })
    _ (by omega) (hb.step hs1) (fun j => by
      match j with
      | ⟨0, _⟩ => exact ⟨rfl, rfl, rfl, rfl⟩
      | ⟨1, _⟩ => exact ⟨rfl, rfl, rfl, rfl⟩) hm (by
      show ((e.tr.ev _).ev _).wlog ++ _ = _
      rw [Transport.ev_wlog, Transport.ev_wlog, hlog]) (Nat.le_refl _)).after hs1 rfl rfl

/-- **A `flush` between two writes contributes nothing** (handler level): on an idle writer, with the mutex free
and a transport whose flush succeeds at once (`fl = []`: no scripted `Pending`/error for flushes), the op takes
the lock, flushes, releases the lock — log, input and writer table are as before.  (It is NOT part of the
end-to-end theorem: the e2e invariants do not track the transport's flush answers.) -/
theorem flush_step (fuel : Nat) (r : AReq) (i : Nat) (rest : List HOp) (sub : HSub)
    (ws : List (Option Writer)) (w : Writer) (hw : ws.getD i none = some w) (pr : Bool) (e : Run.Env)
    (hl : w.lock = .none) (hwr : w.isWriting = false) (hm : e.mutex = none) (hfl : e.tr.fl = []) :
    ∃ e', handlerPoll (fuel + 1) r { ops := .flush i :: rest, sub := sub, writers := ws, propagate := pr } e =
      handlerPoll fuel r { ops := rest, sub := .fresh, writers := ws.set i (some { w with lock := .none }), propagate := pr } e' ∧
      e'.tr.wlog = e.tr.wlog ∧ e'.tr.input = e.tr.input ∧ e'.mutex = none ∧ e'.tr.fl = [] := by
  simp only [handlerPoll, hw]
  simp [Writer.pollFlush, hl, hwr, hm, lockPoll, Transport.flush, hfl]
  exact ⟨_, rfl, rfl, rfl, rfl, rfl⟩

/-! ## The connection level: the stages of `Proofs/E2EBufRead2` (variant 1) with this tail

GENERATED from `Proofs/E2EBufRead2.lean` (the write-phase framework `HWq … tq_poll` and variant 1) by replacing the
canonical tail `oscript g.data g.st` by `otail W g.st`, `HWriteG`/`WOutG` by `HW2`/`WOut2`, the payload
`streamRecords 6 id data` by `outOf id W`, and the fuel term `wcost |data|` by `wcostAll W`. -/

/-- the log when `close` is done: `O₁` was written before the handler's output, `O₂` by `close` -/
def Cfg.Lw (g : Cfg) (W : WList) (O1 O2 : Bytes) : Bytes := g.L1 ++ O1 ++ outOf g.p.id W ++ O2 ++ g.epi

theorem HW2.cong {id : Nat} {W : WList} {st : ExitStatus} {Lb : Bytes} {h : HState} {e e' : Run.Env}
    (hw : HW2 id W st Lb h e) (hm : e'.mutex = e.mutex) (hl : e'.tr.wlog = e.tr.wlog) :
    HW2 id W st Lb h e' := by
  obtain ⟨a, i, data, W', ws, L, sent, c1, c2, c3, c4, c5, c6, c7⟩ := hw
  exact ⟨a, i, data, W', ws, L, sent, c1, c2, c3, by rw [hm]; exact c4, by rw [hl]; exact c5, c6, c7⟩

/-- the handler in its `write_all`, its input read to the end -/
def HWqW (g : Cfg) (W : WList) (Q : Transport → Prop) (c : Conn) : Prop :=
  ∃ r h O1, c.phase = .handler r h ∧ HW2 g.p.id W g.st (g.L1 ++ O1) h c.env ∧
    REnd g.N r c.env.tr.input ∧ O1 ++ r.sp.output = g.Ob ∧ Q c.env.tr ∧
    Ben c.env.tr ∧ c.stop = false ∧ Ev1 g c.env.tr ∧ c.scripts = g.more

def TQW (g : Cfg) (W : WList) (Q : Transport → Prop) (c : Conn) : Prop :=
  ∃ O1 O2, O1 ++ O2 = g.Ob ∧ Q c.env.tr ∧ LE g (g.Lw W O1 O2) g.epi c
def AQW (g : Cfg) (W : WList) (Q : Transport → Prop) (c : Conn) : Prop :=
  ∃ O1 O2, O1 ++ O2 = g.Ob ∧ Q c.env.tr ∧ AfterE g (g.Lw W O1 O2) c
def FQW (g : Cfg) (W : WList) (Q : Transport → Prop) (c : Conn) : Prop :=
  ∃ O1 O2, O1 ++ O2 = g.Ob ∧ Q c.env.tr ∧ FinE g (g.Lw W O1 O2) c

/-- the stages: those of the reading part `S0`, the write phase, `close` -/
def SQW (g : Cfg) (W : WList) (Q : Transport → Prop) (S0 : Conn → Prop) (c : Conn) : Prop := S0 c ∨ HWqW g W Q c ∨ TQW g W Q c

abbrev RQ0W (g : Cfg) (W : WList) (Q : Transport → Prop) (S0 : Conn → Prop) (N : Nat) (c : Conn) : Prop :=
  GRes3 (SQW g W Q S0) (AQW g W Q) (FQW g W Q) N c

/-- **The handler has returned**: `close` of a request that has read its input to the end. -/
theorem bdoneQW {g : Cfg} {W : WList} {Q : Transport → Prop} {S0 : Conn → Prop} (hQ : MonoQ Q) {c : Conn} {r0 r : AReq} {h h' : HState} {e' : Run.Env}
    {O1 : Bytes} (hph : c.phase = .handler r0 h)
    (heq : handlerPoll ((handlerFuel c.env r0 + scriptOf c)) r0 h c.env = (r, h', e', .done (.ok g.st)))
    (hws : h'.writers = [none, none]) (hm : e'.mutex = none)
    (hlog : e'.tr.wlog = (g.L1 ++ O1) ++ outOf g.p.id W)
    (hfin : REnd g.N r e'.tr.input) (hO : O1 ++ r.sp.output = g.Ob) (hseen : Q e'.tr)
    (hts : TStep c.env.tr e'.tr) (hsg : e'.segs = c.env.segs)
    (hb : Ben c.env.tr) (hstop : c.stop = false) (hev : Ev1 g c.env.tr) (hsc : c.scripts = g.more) :
    RQ0W g W Q S0 3 c := by
  have hstep := C07.handler_step c r0 h hph
  rw [heq] at hstep
  have halive : (h'.writers.filter Option.isSome).length = 0 := by rw [hws]; rfl
  simp only [halive] at hstep
  have hstep' : stepConn c =
      .next ⟨.closing r .start g.st 0, e'.ev s!"HE(ok:{showStatus g.st})", c.scripts, c.stop⟩ := hstep
  have hts2 : TStep c.env.tr (e'.tr.ev s!"HE(ok:{showStatus g.st})") :=
    hts.trans (TStep.ev _ (by simp [isHS, toString_str]))
  obtain ⟨heq2, hce⟩ := close_start_eq (g := g) (r := r) (t := e'.tr.ev s!"HE(ok:{showStatus g.st})") hfin
  have hcore := eclose_out (g := g) (Lf := g.Lw W O1 r.sp.output) (ep := g.epi)
    (c := ⟨.closing r .start g.st 0, e'.ev s!"HE(ok:{showStatus g.st})", c.scripts, c.stop⟩)
    (r := r) (r2 := closeReq r) (cs := .start) (rest := r.sp.output) rfl
    (by show closePoll r .start g.st 0 e'.mutex _ = closeP4 _ none _ _
        rw [hm]; exact heq2)
    (.refl _) hce
    (by show (e'.tr.ev _).wlog ++ r.sp.output ++ g.epi = g.Lw W O1 r.sp.output
        rw [Transport.ev_wlog, hlog]; simp only [Cfg.Lw, List.append_assoc])
    (hb.step hts2) hstop (hev.step hts2) hsc
  have hseen2 : Q (e'.tr.ev s!"HE(ok:{showStatus g.st})") :=
    hQ.up _ _ (fun _ hx => List.mem_append_left _ hx) hseen
  have hres : RQ0W g W Q S0 2 ⟨.closing r .start g.st 0, e'.ev s!"HE(ok:{showStatus g.st})", c.scripts, c.stop⟩ := hcore.imp
    (fun c' hl x => Or.inr (Or.inr ⟨O1, r.sp.output, hO, hQ.up _ _ (fun _ hx => hl.ts.evm _ hx) hseen2, x⟩))
    (fun c' hl x => (⟨O1, r.sp.output, hO, hQ.up _ _ (fun _ hx => hl.ts.evm _ hx) hseen2, x⟩ : AQW g W Q c'))
    (fun c' hl x => (⟨O1, r.sp.output, hO, hQ.up _ _ (fun _ hx => hl.ts.evm _ hx) hseen2, x⟩ : FQW g W Q c'))
  exact (GRes3.of_steps (Steps.one hstep') ⟨hts2.w, hsg, rfl⟩ hres).mono (by omega)

/-- what a poll of the write phase comes to -/
theorem bwrite_outQW {g : Cfg} {W : WList} {Q : Transport → Prop} {S0 : Conn → Prop} (hQ : MonoQ Q) {c : Conn} {r0 r : AReq} {h : HState} {e0 : Run.Env}
    {O1 : Bytes} (hph : c.phase = .handler r0 h)
    {out : AReq × HState × Run.Env × HRes}
    (heq : handlerPoll ((handlerFuel c.env r0 + scriptOf c)) r0 h c.env = out)
    (hw : WOut2 g.p.id W g.st (g.L1 ++ O1) r e0 out)
    (hts0 : TStep c.env.tr e0.tr) (hsg0 : e0.segs = c.env.segs)
    (hfin : REnd g.N r e0.tr.input) (hO : O1 ++ r.sp.output = g.Ob) (hseen : Q e0.tr)
    (hb : Ben c.env.tr) (hstop : c.stop = false) (hev : Ev1 g c.env.tr) (hsc : c.scripts = g.more) :
    RQ0W g W Q S0 3 c := by
  obtain ⟨r', h', e', res⟩ := out
  obtain ⟨q0, q1, q2, q3, q4⟩ := hw
  simp only at q0 q1 q2 q3 q4
  subst q0
  have hts := hts0.trans q1
  have hseen' : Q e'.tr := hQ.up _ _ (fun _ hx => q1.mem_events hx) hseen
  rcases q4 with ⟨rfl, hwk, hans, hwg⟩ | ⟨rfl, hws, hm, hlog⟩
  · have hstep := C07.handler_step c r0 h hph
    rw [heq] at hstep
    have hstep' : stepConn c = .halt ⟨.handler r' h', e', c.scripts, c.stop⟩ .pending := hstep
    exact Or.inl (Or.inl ⟨_, (Halts.now hstep').mono (by omega), ⟨hts.w, q3.trans hsg0, rfl⟩,
      Or.inr (Or.inl ⟨r', h', O1, rfl, hwg, by rw [q2]; exact hfin, hO, hseen', hb.step hts, hstop,
        hev.step hts, hsc⟩), hwk, by show ans e'.tr < ans c.env.tr; have := hts0.ans_le; omega⟩)
  · exact bdoneQW hQ hph heq hws hm hlog (by rw [q2]; exact hfin) hO hseen' hts (q3.trans hsg0) hb hstop hev hsc


theorem SQW.cong {g : Cfg} {W : WList} {Q : Transport → Prop} {S0 : Conn → Prop} (hQ : MonoQ Q)
    (h0 : ∀ c c', S0 c → c'.phase = c.phase → c'.scripts = c.scripts → c'.stop = c.stop →
      c'.env.mutex = c.env.mutex → TrSame c.env.tr c'.env.tr → S0 c') {c c' : Conn} (h : SQW g W Q S0 c)
    (hph : c'.phase = c.phase) (hsc : c'.scripts = c.scripts) (hstop : c'.stop = c.stop)
    (hm : c'.env.mutex = c.env.mutex) (hs : TrSame c.env.tr c'.env.tr) : SQW g W Q S0 c' := by
  rcases h with h | ⟨r, h, O1, h1, h2, h3, h4, h5, h6, h7, h8, h9⟩ | ⟨O1, O2, h1, h2, h3⟩
  · exact Or.inl (h0 c c' h hph hsc hstop hm hs)
  · exact Or.inr (Or.inl ⟨r, h, O1, hph.trans h1, h2.cong hm hs.wlog, by rw [hs.input]; exact h3, h4,
      hQ.up _ _ (fun _ hx => hs.mem hx) h5, hs.ben h6, hstop.trans h7, hs.ev1 h8, hsc.trans h9⟩)
  · exact Or.inr (Or.inr ⟨O1, O2, h1, hQ.up _ _ (fun _ hx => hs.mem hx) h2, h3.cong hph hsc hstop hm hs⟩)

/-- **One poll** with the handler in its `write_all`. -/
theorem hwq_pollW {g : Cfg} {W : WList} {Q : Transport → Prop} {S0 : Conn → Prop} (hQ : MonoQ Q)
    (hfu : wcostAll W + 4 ≤ 1000) {c : Conn} (h : HWqW g W Q c) : RQ0W g W Q S0 3 c := by
  obtain ⟨r, h, O1, hph, hw, hfin, hO, hseen, hb, hstop, hev, hsc⟩ := h
  have hfuel := handlerFuel_ge c.env r
  have hout := write_phase2 (r := r) hw hb (fuel := (handlerFuel c.env r + scriptOf c)) (by omega)
  exact bwrite_outQW hQ (r := r) (e0 := c.env) hph rfl hout (.refl _) rfl hfin hO hseen hb hstop hev hsc

theorem tq_pollW {g : Cfg} {W : WList} {Q : Transport → Prop} {S0 : Conn → Prop} (hQ : MonoQ Q) {c : Conn} (h : TQW g W Q c) :
    RQ0W g W Q S0 2 c := by
  obtain ⟨O1, O2, hO, hseen, h⟩ := h
  exact (le_poll h).imp
    (fun c' hl x => Or.inr (Or.inr ⟨O1, O2, hO, hQ.up _ _ (fun _ hx => hl.ts.evm _ hx) hseen, x⟩))
    (fun c' hl x => ⟨O1, O2, hO, hQ.up _ _ (fun _ hx => hl.ts.evm _ hx) hseen, x⟩)
    (fun c' hl x => ⟨O1, O2, hO, hQ.up _ _ (fun _ hx => hl.ts.evm _ hx) hseen, x⟩)

/-- `n` rounds of `fill_buf` / `consume(k)`, then `readAll`, then the write-only script -/
def bscriptW (n k : Nat) (W : WList) (st : ExitStatus) : List HOp := rounds n k ++ .readAll :: otail W st

structure BR2OKW (g : Cfg) (W : WList) (n k : Nat) : Prop where
  wf : WellFormedPreamble g.p g.recs
  role : g.p.role = 1
  pairs : ∀ q ∈ g.p.pairs, (NV.enc q).length ≤ alignedBufsize g.b
  noise : NoiseFits (alignedBufsize g.b) g.recs
  hb : Body g.p.id 5 g.content g.body
  hf : NoiseFits (alignedBufsize g.b) g.body
  hp : g.pad.length < 256
  hX2 : g.X2 = []
  hX : g.X = serAll g.body ++ g.term.ser
  hU : g.U = g.term.ser
  hs : g.hscript = bscriptW n k W g.st
  /-- model fuel -/
  hfu : 2 * n + wcostAll W + 20 ≤ 1000

theorem BR2OKW.fok {g : Cfg} {W : WList} {n k : Nat} (ok : BR2OKW g W n k) : FOK g := ⟨ok.wf, ok.pairs, ok.noise⟩
theorem BR2OKW.hid {g : Cfg} {W : WList} {n k : Nat} (ok : BR2OKW g W n k) : g.p.id < 65536 := (pid_of_wf ok.wf).2
theorem BR2OKW.kok {g : Cfg} {W : WList} {n k : Nat} (ok : BR2OKW g W n k) : g.K.OK := resp_kok ok.hid ok.hb ok.hf ok.hp ok.hX2 ok.hX
theorem BR2OKW.kfin {g : Cfg} {W : WList} {n k : Nat} (ok : BR2OKW g W n k) : g.K.final = true := by
  simp [RCtx.final, Cfg.K, ok.role, nextInputStream, RT.stdin]
theorem BR2OKW.ku {g : Cfg} {W : WList} {n k : Nat} (ok : BR2OKW g W n k) : g.K.U = g.U := by simp [Cfg.K, ok.hX2, ok.hU]
theorem BR2OKW.rwf {g : Cfg} {W : WList} {n k : Nat} (ok : BR2OKW g W n k) : ∀ r ∈ g.R, r.WF := by
  intro r hr
  rcases List.mem_append.1 hr with hr | hr
  · exact body_wf ok.hid ok.hb r hr
  · rw [List.mem_singleton.1 hr]; exact ⟨ok.hid, by simp [Cfg.term], ok.hp⟩
theorem BR2OKW.XR {g : Cfg} {W : WList} {n k : Nat} (ok : BR2OKW g W n k) : g.X = serAll g.R := by
  rw [ok.hX, Cfg.R, C02.serAll_append, C02.serAll_single]

/-- the handler in its rounds, or about to start its `readAll` (`n' = 0`) -/
def HB1W (g : Cfg) (W : WList) (k : Nat) (c : Conn) : Prop :=
  ∃ r n' handed dO shown, c.phase = .handler r { ops := rounds n' k ++ .readAll :: otail W g.st, propagate := true } ∧
    BSt g.K g.L1 [] r c.env.mutex c.env.tr handed dO ∧
    Pos g.R r.sp.raw r.sp.pay r.sp.pad c.env.tr.input ∧
    handed = taken k shown ∧ SlEv shown c.env.tr ∧ 2 * n' + wcostAll W + 20 ≤ 1000 ∧
    Ben c.env.tr ∧ c.stop = false ∧ Ev1 g c.env.tr ∧ c.scripts = g.more

/-- the handler suspended in its `readAll`, `acc` collected so far -/
def HA1W (g : Cfg) (W : WList) (k : Nat) (c : Conn) : Prop :=
  ∃ r acc dO shown, c.phase = .handler r { ops := .readAll :: otail W g.st, sub := .readAllAcc acc, propagate := true } ∧
    BSt g.K g.L1 [] r c.env.mutex c.env.tr (taken k shown ++ acc) dO ∧ SlEv shown c.env.tr ∧
    Ben c.env.tr ∧ c.stop = false ∧ Ev1 g c.env.tr ∧ c.scripts = g.more

def S01W (g : Cfg) (W : WList) (k : Nat) (c : Conn) : Prop := FStage g c ∨ HB1W g W k c ∨ HA1W g W k c

theorem S01W.cong {g : Cfg} {W : WList} {k : Nat} (c c' : Conn) (h : S01W g W k c)
    (hph : c'.phase = c.phase) (hsc : c'.scripts = c.scripts) (hstop : c'.stop = c.stop)
    (hm : c'.env.mutex = c.env.mutex) (hs : TrSame c.env.tr c'.env.tr) : S01W g W k c' := by
  rcases h with h | ⟨r, n', handed, dO, shown, h1, h2, h3, h4, h5, h6, h7, h8, h9, h10⟩ |
    ⟨r, acc, dO, shown, h1, h2, h3, h4, h5, h6, h7⟩
  · exact Or.inl (h.cong hph hsc hstop hm hs)
  · exact Or.inr (Or.inl ⟨r, n', handed, dO, shown, hph.trans h1, BSt.cong' h2 hm hs, by rw [hs.input]; exact h3, h4,
      fun s hx => hs.mem (h5 s hx), h6, hs.ben h7, hstop.trans h8, hs.ev1 h9, hsc.trans h10⟩)
  · exact Or.inr (Or.inr ⟨r, acc, dO, shown, hph.trans h1, BSt.cong' h2 hm hs, fun s hx => hs.mem (h3 s hx), hs.ben h4,
      hstop.trans h5, hs.ev1 h6, hsc.trans h7⟩)

abbrev R1W (g : Cfg) (W : WList) (k : Nat) (N : Nat) (c : Conn) : Prop := RQ0W g W (Q1 g k) (S01W g W k) N c

/-- the rest of a poll from the handler's `readAll` on -/
theorem ra1_pollW {g : Cfg} {W : WList} {n k : Nat} (ok : BR2OKW g W n k) {c : Conn} {r0 r : AReq} {H0 : HState} {sub : HSub}
    {e : Run.Env} {f : Nat} {dO : Bytes} {shown : List Bytes} (hph : c.phase = .handler r0 H0)
    (heq : handlerPoll ((handlerFuel c.env r0 + scriptOf c)) r0 H0 c.env =
      handlerPoll f r { ops := .readAll :: otail W g.st, sub := sub, propagate := true } e)
    (hs : BSt g.K g.L1 [] r e.mutex e.tr (taken k shown ++ accOf sub) dO) (hsl : SlEv shown e.tr)
    (hts : TStep c.env.tr e.tr) (hsg : e.segs = c.env.segs)
    (hf : 2 * ((2 * g.cap + e.tr.input.length) / 64) + 2 * e.tr.input.length + wcostAll W + 12 ≤ f)
    (hb : Ben c.env.tr) (hstop : c.stop = false) (hev : Ev1 g c.env.tr) (hsc : c.scripts = g.more) :
    R1W g W k 3 c := by
  have hK := ok.kok
  have hrl := BSt.rem_le hK hs
  have hcapK : g.K.cap = g.cap := rfl
  have hdiv : (g.K.C.length - (taken k shown ++ accOf sub).length) / 64 ≤ (2 * g.cap + e.tr.input.length) / 64 :=
    Nat.div_le_div_right (by omega)
  have hbe := hb.step hts
  rcases readAllO_run hK (L := g.L1) (P := []) (taken k shown) (otail W g.st) [] true
      (2 * ((g.K.C.length - (taken k shown ++ accOf sub).length) / 64) + 2 * e.tr.input.length + 4) f r sub e dO 1 1
      (by omega) (by omega) (fun _ => Nat.le_refl _) (fun h => by omega) hbe hs with
    ⟨r', acc', e', dO', d1, d3, d5, d6, d8, d9⟩ |
    ⟨r', e', acc, f', d1, d2, d3, d4, dl, dm, dpay, dpad, dwire, dw, dsg, dts⟩
  · have hstep := C07.handler_step c r0 H0 hph
    rw [heq, d1] at hstep
    have hstep' : stepConn c = .halt ⟨.handler r' { ops := .readAll :: otail W g.st, sub := .readAllAcc acc', propagate := true },
        e', c.scripts, c.stop⟩ .pending := hstep
    have ht := hts.trans d6
    exact Or.inl (Or.inl ⟨_, (Halts.now hstep').mono (by omega), ⟨ht.w, d5.trans hsg, rfl⟩,
      Or.inl (Or.inr (Or.inr ⟨r', acc', dO', shown, rfl, d3, hsl.step d6, hb.step ht, hstop, hev.step ht, hsc⟩)),
      d8, by show ans e'.tr < ans c.env.tr; have := hts.ans_le; omega⟩)
  · -- the `readAll` is complete: `output_stream(Stdout)`, `write_all(data)`
    obtain ⟨⟨G, hi⟩, _, _, ⟨O1, hl1, hl2⟩⟩ := d4
    have hreq : r'.sp.request = g.p.request := hi.req
    have hrl2 : r'.sp.raw.length ≤ g.cap := by
      have := hi.sinv.1
      rw [hi.capK] at this
      simp only [Str.Parser.freeStart] at this
      omega
    have hts1 : TStep e.tr (e'.ev (rEvent acc)).tr := dts.trans (TStep.ev _ (isHS_rEvent _))
    have hfin : REnd g.N r' (e'.ev (rEvent acc)).tr.input :=
      ⟨dw ok.kfin, dl, dpay, dpad, by show r'.sp.raw ++ e'.tr.input = g.U; rw [dwire]; exact ok.ku, hreq, hi.capK,
        hi.mt.mc, hrl2, hi.sinv⟩
    have hid2 : r'.sp.request.id = g.p.id := by rw [hreq]; rfl
    have hinle := dts.tle.input_len
    have hw := open_phase2 (W := W) (st := g.st) (Lb := g.L1 ++ O1) (r := r') (e := e'.ev (rEvent acc))
      (dw ok.kfin) dm (by show (e'.tr.ev _).wlog = _; rw [Transport.ev_wlog, hl1])
      (hbe.step hts1) (fuel := f') (by omega)
    rw [hid2] at hw
    have hseen : Q1 g k (e'.ev (rEvent acc)).tr :=
      ⟨shown, acc, d3.symm, fun s hx => (hts1.mem_events (hsl s hx)), by
        show rEvent acc ∈ e'.tr.events ++ [rEvent acc]; simp⟩
    have hO : O1 ++ r'.sp.output = g.Ob := by rw [hl2]; rfl
    exact bwrite_outQW (q1_mono g k) (r := r') (e0 := e'.ev (rEvent acc)) (O1 := O1) hph (heq.trans d1) hw
      (hts.trans hts1) (dsg.trans hsg) hfin hO hseen hb hstop hev hsc

/-- **One poll** with the handler in its rounds. -/
theorem hb1_pollW {g : Cfg} {W : WList} {n k : Nat} (ok : BR2OKW g W n k) {c : Conn} (h : HB1W g W k c) : R1W g W k 3 c := by
  obtain ⟨r, n', handed, dO, shown, hph, hs, hpos, hsh, hevs, hfu, hb, hstop, hev, hsc⟩ := h
  have hK := ok.kok
  have hcapr : r.sp.cap = g.cap := by obtain ⟨⟨G, hi⟩, _⟩ := hs; exact hi.capK
  have hfuel : 1000 + 4 * c.env.tr.input.length + 4 * g.cap ≤ (handlerFuel c.env r + scriptOf c) := by
    unfold handlerFuel; rw [hcapr]; omega
  rcases rounds_runG hK (L := g.L1) (P := []) ok.rwf k (.readAll :: otail W g.st) [] true n'
      ((handlerFuel c.env r + scriptOf c)) r c.env handed dO shown (by omega) hb hs hpos hsh hevs with
    ⟨n2, r', e', handed', dO', shown', a0, a1, a2, a3, a4, a5, a6, a7, a8, a9, _⟩ |
    ⟨r', e', handed', dO', shown', f', b1, b2, b3, b4, b5, b6, b7, b8, _⟩
  · have hstep := C07.handler_step c r _ hph
    rw [a1] at hstep
    have hstep' : stepConn c = .halt ⟨.handler r' { ops := rounds n2 k ++ .readAll :: otail W g.st, propagate := true },
        e', c.scripts, c.stop⟩ .pending := hstep
    exact Or.inl (Or.inl ⟨_, (Halts.now hstep').mono (by omega), ⟨a7.w, a6, rfl⟩,
      Or.inl (Or.inr (Or.inl ⟨r', n2, handed', dO', shown', rfl, a2, a3, a4, a5, by omega, hb.step a7, hstop, hev.step a7,
        hsc⟩)), a8, a9⟩)
  · have hinle := b8.tle.input_len
    have hdiv : (2 * g.cap + e'.tr.input.length) / 64 ≤ (2 * g.cap + c.env.tr.input.length) / 64 :=
      Nat.div_le_div_right (by omega)
    refine ra1_pollW ok (sub := .fresh) (shown := shown') hph b1 (by
        rw [← b5]
        show BSt g.K g.L1 [] r' e'.mutex e'.tr (handed' ++ []) dO'
        rw [List.append_nil]; exact b3) b6 b8 b7 ?_
      hb hstop hev hsc
    omega

/-- **One poll** with the handler suspended in its `readAll`. -/
theorem ha1_pollW {g : Cfg} {W : WList} {n k : Nat} (ok : BR2OKW g W n k) {c : Conn} (h : HA1W g W k c) : R1W g W k 3 c := by
  obtain ⟨r, acc, dO, shown, hph, hs, hsl, hb, hstop, hev, hsc⟩ := h
  have hcapr : r.sp.cap = g.cap := by obtain ⟨⟨G, hi⟩, _⟩ := hs; exact hi.capK
  have hfuel : 1000 + 4 * c.env.tr.input.length + 4 * g.cap ≤ (handlerFuel c.env r + scriptOf c) := by
    unfold handlerFuel; rw [hcapr]; omega
  have hfu := ok.hfu
  refine ra1_pollW ok (sub := .readAllAcc acc) (shown := shown) hph rfl hs hsl (.refl _) rfl ?_ hb hstop hev hsc
  omega

/-- the first poll of the handler -/
theorem bufread2_firstW {g : Cfg} {W : WList} {n k : Nat} (ok : BR2OKW g W n k) (c : Conn) (hc : FirstCfg g c) : R1W g W k 6 c := by
  obtain ⟨e1, hph, hlen, hwire, hlog, hm, hb, hstop, hev, hsc⟩ := hc
  have hrole : g.p.request.role = 1 := ok.role
  have hstart : C03SI.Start g.K.E (Str.Parser.fromParser g.cap g.p.request e1 g.mc) :=
    C03SI.start_fresh g.cap g.p.request e1 g.mc hlen ok.hid (Or.inl hrole)
  have hrinv : RInv g.K (AReq.new (Str.Parser.fromParser g.cap g.p.request e1 g.mc)) e1 c.env.tr.input [] [] := by
    refine ⟨hstart.mtch, hstart.inv, rfl, rfl, rfl, hwire, fun x => ?_⟩
    have := C03SI.rem_start hstart x
    show refWire g.K.E (e1 ++ x) = (Rem g.K.E (Str.Parser.fromParser g.cap g.p.request e1 g.mc) x).pre [] []
    rw [this]; rfl
  have hrst : RSt g.K g.L1 [] (AReq.new (Str.Parser.fromParser g.cap g.p.request e1 g.mc)) c.env.mutex c.env.tr [] [] :=
    ⟨⟨e1, hrinv⟩, by rw [hm]; exact lockInv_free rfl, Or.inl hm, ⟨[], by rw [hlog, List.append_nil], rfl⟩⟩
  rw [ok.hs] at hph
  have hfu := ok.hfu
  exact (hb1_pollW ok ⟨_, n, [], [], [], hph, by
      show RStB g.K g.L1 [] _ c.env.mutex c.env.tr ([] ++ _) []
      exact .of hrst,
    ⟨[], [], g.R, rfl, rfl, by
      show e1 ++ c.env.tr.input = [] ++ ([] ++ serAll g.R)
      rw [hwire, ok.XR]; rfl, List.suffix_refl _⟩,
    rfl, (fun _ h => nomatch h), by omega, hb, hstop, hev, hsc⟩).mono (by omega)

theorem s1q_pollW {g : Cfg} {W : WList} {n k : Nat} (ok : BR2OKW g W n k) {c : Conn} (h : SQW g W (Q1 g k) (S01W g W k) c) :
    R1W g W k (2 * c.env.tr.input.length + 15) c := by
  have hfu := ok.hfu
  rcases h with (h | h | h) | h | h
  · exact fstage_poll3 ok.fok (fun _ h => Or.inl (Or.inl h)) (bufread2_firstW ok) h
  · exact (hb1_pollW ok h).mono (by omega)
  · exact (ha1_pollW ok h).mono (by omega)
  · exact (hwq_pollW (q1_mono g k) (by omega) h).mono (by omega)
  · exact (tq_pollW (q1_mono g k) h).mono (by omega)

/-- `run_bufread2` without the size hypothesis (`run_stages3'`). -/
theorem run_bufread2W' {g : Cfg} {W : WList} {n k : Nat} (ok : BR2OKW g W n k) {Z : Bytes}
    (hns : NoStuckW g.cap g.mc (g.U ++ Z))
    (hNF : ∀ F x, F ++ x ++ Z = g.U ++ Z → (run .header F g.mc).st.isFinal = false)
    (em : EndMode) (evs0 : List String) (c : Conn) (n0 fuel : Nat) (hst : FStage g c)
    (hem : c.env.tr.endMode = em) (hev0 : ∀ s ∈ evs0, s ∈ c.env.tr.events)
    (hsegs : c.env.segs = []) (hf : ans c.env.tr + 1 ≤ fuel) :
    ∃ c'' fin, runTask fuel c n0 none = (c'', fin) ∧
      (GEnd g.cap g.mc Z g.more (g.hs0 + 1)
          (fun i : Bytes × Bytes × List Bytes × Bytes => g.p.flags.toNat % 2 = 1 ∧ i.1 ++ i.2.1 = g.Ob ∧
            g.content = taken k i.2.2.1 ++ i.2.2.2)
          (fun _ => g.U ++ Z) (fun i => g.Lw W i.1 i.2.1)
          (fun i => hsEvent g.p.request :: rEvent i.2.2.2 :: i.2.2.1.map fEvent) em evs0 (ans c.env.tr) c'' fin ∨
       (fin = "RET" ∧ FQW g W (Q1 g k) c'' ∧ c''.env.tr.endMode = em ∧ (∀ s ∈ evs0, s ∈ c''.env.tr.events))) :=
  run_stages3' (cap24 g) (fun _ _ => hns) (fun _ _ => hNF)
    (fun _ _ h => SQW.cong (q1_mono g k) (fun c c' h a b d e f => S01W.cong c c' h a b d e f) h)
    (fun _ h => (s1q_pollW ok h).imp (fun _ _ h => h) (fun c1 _ h => by
      obtain ⟨O1, O2, hO, ⟨shown, acc, q1, q2, q3⟩, haf⟩ := h
      obtain ⟨raw, hph, hw, hraw⟩ := haf.ph
      exact ⟨(O1, O2, shown, acc), ⟨haf.keep, hO, q1⟩,
        Or.inr ⟨raw, hph, by rw [hw], hraw, haf.log, haf.ben, haf.stop⟩,
        ⟨haf.sc, haf.mtx, haf.ev.1, fun s hs => by
          rcases List.mem_cons.1 hs with rfl | hs
          · exact haf.ev.2
          rcases List.mem_cons.1 hs with rfl | hs
          · exact q3
          · obtain ⟨x, hx, rfl⟩ := List.mem_map.1 hs
            exact q2 x hx⟩⟩) (fun _ _ h => h))
    em evs0 c n0 fuel (Or.inl (Or.inl hst)) hem hev0 hsegs hf

end Fcgi.E2E
