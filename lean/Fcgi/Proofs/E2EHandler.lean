import Fcgi.Proofs.E2EStr
/-!
# End-to-end composition (C07) — part 3: one poll of the canonical handler

The canonical handler script is `[readAll, open_ 6, writeAll 0 data, dropW 0, ret st]`.
* `writeLoop_ben`, `pollWrite_ben`: on a benign transport `poll_write` never fails and its only
  `Pending` is a transient one of the transport;
* `chunks`, `streamRecords`: the framing `write_all` produces (records of at most 65535 bytes);
* `readAll_run`, `writeAll_run`, `script_run`: what `handlerPoll` returns for this script.
-/
namespace Fcgi.E2E
open Fcgi Fcgi.Req Fcgi.Str Fcgi.Async Fcgi.Run

/-! ## `poll_write` on a benign transport -/

theorem writeLoop_ben : ∀ (fuel : Nat) (w : Writer) (head buf : Bytes) (t : Transport)
    {w' : Writer} {t' : Transport} {res : WRes},
    Ben t → writeLoop fuel w head buf t = (w', t', res) →
    TStep t t' ∧ t'.input = t.input ∧ (∀ e, res ≠ .err e) ∧
    (res = .pending → t'.woken = true ∧ ans t' < ans t) := by
  intro fuel
  induction fuel with
  | zero =>
    intro w head buf t w' t' res _ h
    simp only [writeLoop] at h; cases h
    exact ⟨.refl _, rfl, (fun e he => by cases he), (fun he => by cases he)⟩
  | succ k ih =>
    intro w head buf t w' t' res hb h
    rw [writeLoop] at h
    split at h
    · cases h
      exact ⟨.refl _, rfl, (fun e he => by cases he), (fun he => by cases he)⟩
    · rename_i hw
      split at h
      · cases h
        exact ⟨.refl _, rfl, (fun e he => by cases he), (fun he => by cases he)⟩
      · rename_i hcl
        rcases hv : t.writeV [head.drop w.headIdx, buf.drop (buf.length - w.contentLen), zeros w.padLen] "V"
          with ⟨t1, r⟩
        simp only at h
        rw [hv] at h
        obtain ⟨s1, s2, s3⟩ := writeV_tstep hb hv
        cases r with
        | pending =>
          cases h
          exact ⟨s1, s2, (fun e he => by cases he), fun _ => ⟨s3.2.1, s3.2.2⟩⟩
        | ready x =>
          cases x with
          | error e => exact s3.elim
          | ok n =>
            cases n with
            | zero =>
              exfalso
              have hz := s3.2.2
              have hnil : [head.drop w.headIdx, buf.drop (buf.length - w.contentLen), zeros w.padLen].flatten = [] := by
                exact Classical.byContradiction (fun hne => by have := hz hne; omega)
              have hl := congrArg List.length hnil
              simp only [List.flatten_cons, List.flatten_nil, List.append_nil, List.length_append,
                List.length_drop, zeros, List.length_replicate, List.length_nil] at hl
              have hw' : w.isWriting = true := by simpa using hw
              simp only [Writer.isWriting, Bool.or_eq_true, bne_iff_ne, ne_eq] at hw'
              omega
            | succ n =>
              simp only at h
              split at h
              · cases h
                exact ⟨s1, s2, (fun e he => by cases he), (fun he => by cases he)⟩
              · obtain ⟨q1, q2, q3, q4⟩ := ih _ _ _ _ (hb.step s1) h
                refine ⟨s1.trans q1, q2.trans s2, q3, fun hp => ?_⟩
                obtain ⟨a, b⟩ := q4 hp
                exact ⟨a, by have := s1.ans_le; omega⟩

/-- `poll_write` of a write in progress whose writer is not blocked by another holder of the mutex:
never an error; `Pending` only as a transient `Pending` of the transport. -/
theorem pollWrite_ben (w : Writer) (me : Nat) (buf : Bytes) (m : MutexSt) (t : Transport) (sent : Bytes)
    (hb : buf ≠ []) (hinv : WInv w buf sent) (hc : Consistent (me + 1) w.lock m)
    (hm : m = none ∨ m = some (me + 1)) (hben : Ben t)
    {w' : Writer} {m' : MutexSt} {t' : Transport} {res : WRes}
    (h : w.pollWrite me buf m t = (w', m', t', res)) :
    TStep t t' ∧ t'.input = t.input ∧ (∀ e, res ≠ .err e) ∧ (m' = none ∨ m' = some (me + 1)) ∧
    (res = .pending → t'.woken = true ∧ ans t' < ans t) := by
  have hl : w.lock ≠ .none := by
    rcases hinv.lock with h | ⟨h, _⟩ <;> rw [h] <;> simp
  have ho : w.origLen ≤ buf.length := by rw [hinv.orig]; omega
  rw [pollWrite_started w me m t hb hl hinv.writing ho] at h
  obtain ⟨_, hgot, hnot⟩ := lockPoll_spec w.lock m (me + 1) hc
  split at h
  · rename_i hg
    obtain ⟨_, _, h3, h4⟩ := hnot hg
    exfalso
    rcases hm with hm | hm
    · exact h4 hm
    · exact h3 (hc.2 hm)
  · rename_i hg
    have hg' : (lockPoll w.lock m (me + 1)).2.2 = true := by simpa using hg
    obtain ⟨_, hm2, _⟩ := hgot hg'
    rcases hl' : writeLoop (8 + w.contentLen + w.padLen + 1)
        { w with lock := (lockPoll w.lock m (me + 1)).1 } w.headBytes (buf.take w.origLen) t
      with ⟨w3, t3, r⟩
    rw [hl'] at h
    obtain ⟨q1, q2, q3, q4⟩ := writeLoop_ben _ _ _ _ _ hben hl'
    cases r with
    | ready n => cases h; exact ⟨q1, q2, (fun e he => by cases he), Or.inl rfl, (fun he => by cases he)⟩
    | pending => cases h; exact ⟨q1, q2, q3, Or.inr hm2, q4⟩
    | err e => exact absurd rfl (q3 e)
    | panic s => cases h; exact ⟨q1, q2, (fun e he => by cases he), Or.inr hm2, (fun he => by cases he)⟩

/-! ## The framing of `write_all` -/

def chunksAux : Nat → Bytes → List Bytes
  | 0, _ => []
  | f + 1, d => if d.isEmpty then [] else d.take 65535 :: chunksAux f (d.drop 65535)

/-- `data` cut into pieces of 65535 bytes (the last one shorter): the payloads of the records
`write_all` produces through `poll_write`. -/
def chunks (d : Bytes) : List Bytes := chunksAux d.length d

/-- The records `write_all(data)` on a `StreamWriter` of type `ty` for request `id` puts on the wire. -/
def streamRecords (ty id : Nat) (d : Bytes) : Bytes := (chunks d).flatMap (recordOf ty id)

theorem chunksAux_stable : ∀ (f g : Nat) (d : Bytes), d.length ≤ f → d.length ≤ g →
    chunksAux f d = chunksAux g d := by
  intro f
  induction f with
  | zero =>
    intro g d hd _
    have : d = [] := List.length_eq_zero_iff.1 (by omega)
    subst this
    cases g <;> rfl
  | succ k ih =>
    intro g d hd hg
    cases d with
    | nil => cases g <;> rfl
    | cons x xs =>
      simp only [List.length_cons] at hd hg
      obtain ⟨g', rfl⟩ : ∃ g', g = g' + 1 := ⟨g - 1, by omega⟩
      simp only [chunksAux, List.isEmpty_cons, Bool.false_eq_true, if_false]
      congr 1
      exact ih _ _ (by simp only [List.length_drop, List.length_cons]; omega)
        (by simp only [List.length_drop, List.length_cons]; omega)

theorem chunksAux_enough (f : Nat) (d : Bytes) (h : d.length ≤ f) : chunksAux f d = chunksAux d.length d :=
  chunksAux_stable _ _ _ h (Nat.le_refl _)

theorem chunks_nil : chunks [] = [] := rfl

theorem chunks_cons {d : Bytes} (h : d ≠ []) : chunks d = d.take 65535 :: chunks (d.drop 65535) := by
  cases d with
  | nil => exact absurd rfl h
  | cons x xs =>
    simp only [chunks, chunksAux, List.length_cons, List.isEmpty_cons, Bool.false_eq_true, if_false]
    congr 1
    exact chunksAux_enough _ _ (by simp only [List.length_drop, List.length_cons]; omega)

theorem streamRecords_nil (ty id : Nat) : streamRecords ty id [] = [] := rfl

theorem streamRecords_cons (ty id : Nat) {d : Bytes} (h : d ≠ []) :
    streamRecords ty id d = recordOf ty id (d.take 65535) ++ streamRecords ty id (d.drop 65535) := by
  simp only [streamRecords, chunks_cons h, List.flatMap_cons]

/-- the pieces are non-empty, at most 65535 bytes long, and concatenate to the data -/
theorem chunks_spec : ∀ (n : Nat) (d : Bytes), d.length ≤ n →
    (chunks d).flatten = d ∧ ∀ c ∈ chunks d, 0 < c.length ∧ c.length ≤ 65535 := by
  intro n
  induction n with
  | zero =>
    intro d hd
    have : d = [] := List.length_eq_zero_iff.1 (by omega)
    subst this
    exact ⟨rfl, fun c hc => by simp [chunks_nil] at hc⟩
  | succ k ih =>
    intro d hd
    by_cases hne : d = []
    · subst hne; exact ⟨rfl, fun c hc => by simp [chunks_nil] at hc⟩
    · have hpos : 0 < d.length := List.length_pos_iff.mpr hne
      obtain ⟨h1, h2⟩ := ih (d.drop 65535) (by simp only [List.length_drop]; omega)
      rw [chunks_cons hne]
      refine ⟨by rw [List.flatten_cons, h1, List.take_append_drop], fun c hc => ?_⟩
      rcases List.mem_cons.1 hc with rfl | hc
      · simp only [List.length_take]; omega
      · exact h2 c hc

/-! ## Unfolding `handlerPoll` for the ops of the canonical script -/

def accOf : HSub → Bytes
  | .readAllAcc a => a
  | _ => []

/-- the trace event of a completed `readAll` -/
def rEvent (acc : Bytes) : String := s!"R={acc.length}:{hexOrDash acc}"

theorem isHS_rEvent (acc : Bytes) : isHS (rEvent acc) = false := by
  simp [isHS, rEvent, toString_str]

theorem hp_ret (fuel : Nat) (r : AReq) (st : ExitStatus) (rest : List HOp) (sub : HSub)
    (ws : List (Option Writer)) (pr : Bool) (e : Run.Env) :
    handlerPoll (fuel + 1) r { ops := .ret st :: rest, sub := sub, writers := ws, propagate := pr } e =
      (r, { ops := .ret st :: rest, sub := sub, writers := ws, propagate := pr }, e, .done (.ok st)) := rfl

theorem hp_readAll (fuel : Nat) (r : AReq) (rest : List HOp) (sub : HSub)
    (ws : List (Option Writer)) (pr : Bool) (e : Run.Env) :
    handlerPoll (fuel + 1) r { ops := .readAll :: rest, sub := sub, writers := ws, propagate := pr } e =
      match r.pollInput (some 64) e.mutex e.tr with
        | (r, m, t, .pending) =>
          (r, { ops := .readAll :: rest, sub := .readAllAcc (accOf sub), writers := ws, propagate := pr },
            { e with mutex := m, tr := t }, .pending)
        | (r, m, t, .ready 0 _) =>
          handlerPoll fuel r { ops := rest, sub := .fresh, writers := ws, propagate := pr }
            ({ e with mutex := m, tr := t }.ev (rEvent (accOf sub)))
        | (r, m, t, .ready _ d) =>
          handlerPoll fuel r { ops := .readAll :: rest, sub := .readAllAcc (accOf sub ++ d), writers := ws, propagate := pr }
            { e with mutex := m, tr := t }
        | (r, m, t, .err x) =>
          if pr then (r, { ops := rest, sub := .fresh, writers := ws, propagate := pr },
              ({ e with mutex := m, tr := t }.ev s!"R!{showIo x}:{(accOf sub).length}:{hexOrDash (accOf sub)}"), .done (.error x))
          else handlerPoll fuel r { ops := rest, sub := .fresh, writers := ws, propagate := pr }
              ({ e with mutex := m, tr := t }.ev s!"R!{showIo x}:{(accOf sub).length}:{hexOrDash (accOf sub)}")
        | (r, m, t, .panic s) =>
          (r, { ops := .readAll :: rest, sub := sub, writers := ws, propagate := pr }, { e with mutex := m, tr := t }, .panic s) := by
  cases sub <;> rfl

theorem hp_open (fuel : Nat) (r : AReq) (ty : Nat) (rest : List HOp) (sub : HSub)
    (ws : List (Option Writer)) (pr : Bool) (e : Run.Env) :
    handlerPoll (fuel + 1) r { ops := .open_ ty :: rest, sub := sub, writers := ws, propagate := pr } e =
      if !(outputStreams r.sp.request.role).contains ty || !r.writeable then
        (r, { ops := .open_ ty :: rest, sub := sub, writers := ws, propagate := pr }, e, .panic "async_io:324 output_stream assertion")
      else handlerPoll fuel r
        { ops := rest, sub := .fresh, writers := ws ++ [some { rtype := ty, id := r.sp.request.id }], propagate := pr }
        (e.ev s!"o=w{ws.length}") := rfl

theorem hp_dropW (fuel : Nat) (r : AReq) (i : Nat) (rest : List HOp) (sub : HSub)
    (ws : List (Option Writer)) (pr : Bool) (e : Run.Env) :
    handlerPoll (fuel + 1) r { ops := .dropW i :: rest, sub := sub, writers := ws, propagate := pr } e =
      match ws.getD i none with
      | some w => handlerPoll fuel r { ops := rest, sub := .fresh, writers := ws.set i none, propagate := pr }
          { e with mutex := lockDrop w.lock e.mutex }
      | none => handlerPoll fuel r { ops := rest, sub := .fresh, writers := ws, propagate := pr } e := by
  simp only [handlerPoll]
  cases ws.getD i none <;> rfl

def restOf (sub : HSub) (data : Bytes) : Bytes :=
  match sub with
  | .writeRest rd => rd
  | _ => data

theorem hp_writeAll (fuel : Nat) (r : AReq) (i : Nat) (data : Bytes) (rest : List HOp) (sub : HSub)
    (ws : List (Option Writer)) (w : Writer) (hw : ws.getD i none = some w) (pr : Bool) (e : Run.Env) :
    handlerPoll (fuel + 1) r { ops := .writeAll i data :: rest, sub := sub, writers := ws, propagate := pr } e =
      if (restOf sub data).isEmpty then
        handlerPoll fuel r { ops := rest, sub := .fresh, writers := ws, propagate := pr } (e.ev "W=ok")
      else match w.pollWrite i (restOf sub data) e.mutex e.tr with
        | (w, m, t, .pending) =>
          (r, { ops := .writeAll i data :: rest, sub := .writeRest (restOf sub data), writers := ws.set i (some w), propagate := pr },
            { e with mutex := m, tr := t }, .pending)
        | (w, m, t, .ready 0) =>
          if pr then (r, { ops := rest, sub := .fresh, writers := ws.set i (some w), propagate := pr },
            ({ e with mutex := m, tr := t }.ev "W!writezero"), .done (.error .writeZero))
          else handlerPoll fuel r { ops := rest, sub := .fresh, writers := ws.set i (some w), propagate := pr }
            ({ e with mutex := m, tr := t }.ev "W!writezero")
        | (w, m, t, .ready n) =>
          handlerPoll fuel r
            { ops := .writeAll i data :: rest, sub := .writeRest ((restOf sub data).drop n), writers := ws.set i (some w), propagate := pr }
            { e with mutex := m, tr := t }
        | (w, m, t, .err x) =>
          if pr then (r, { ops := rest, sub := .fresh, writers := ws.set i (some w), propagate := pr },
            ({ e with mutex := m, tr := t }.ev s!"W!{showIo x}"), .done (.error x))
          else handlerPoll fuel r { ops := rest, sub := .fresh, writers := ws.set i (some w), propagate := pr }
            ({ e with mutex := m, tr := t }.ev s!"W!{showIo x}")
        | (w, m, t, .panic s) =>
          (r, { ops := .writeAll i data :: rest, sub := sub, writers := ws.set i (some w), propagate := pr },
            { e with mutex := m, tr := t }, .panic s) := by
  simp only [handlerPoll, hw]
  cases sub <;> rfl

/-! ## `write_all` through the `StreamWriter` -/

/-- State of the handler's Stdout writer between `poll_write` calls: idle (no lock, mutex free,
nothing of the current record sent), or in the middle of the record for the rest `rd` of the data
with `sent` already on the wire. -/
structure WSt (id : Nat) (w : Writer) (m : MutexSt) (rd sent : Bytes) : Prop where
  ty : w.rtype = 6
  id : w.id = id
  st : (w.lock = .none ∧ w.isWriting = false ∧ m = none ∧ sent = []) ∨
       (WInv w rd sent ∧ Consistent 1 w.lock m ∧ (m = none ∨ m = some 1))

theorem take_min_len (l : Bytes) (n : Nat) : l.take (min l.length n) = l.take n := by
  by_cases h : l.length ≤ n
  · rw [Nat.min_eq_left h, List.take_length, List.take_of_length_le h]
  · rw [Nat.min_eq_right (by omega)]

theorem drop_min_len (l : Bytes) (n : Nat) : l.drop (min l.length n) = l.drop n := by
  by_cases h : l.length ≤ n
  · rw [Nat.min_eq_left h, List.drop_length, List.drop_of_length_le h]
  · rw [Nat.min_eq_right (by omega)]

def WritePostB (id : Nat) (rd L : Bytes) (t : Transport) (w' : Writer) (m' : MutexSt) (t' : Transport) :
    WRes → Prop
  | .ready n => n = min rd.length 65535 ∧ t'.wlog = L ++ recordOf 6 id (rd.take 65535) ∧
      WSt id w' m' (rd.drop 65535) []
  | .pending => ∃ sent', t'.wlog = L ++ sent' ∧ WSt id w' m' rd sent' ∧ t'.woken = true ∧ ans t' < ans t
  | .err _ => False
  | .panic _ => False

theorem pw_step_busy {id : Nat} {w : Writer} {m : MutexSt} {rd sent L : Bytes} {t : Transport}
    {w' : Writer} {m' : MutexSt} {t' : Transport} {res : WRes}
    (hty : w.rtype = 6) (hid : w.id = id) (hinv : WInv w rd sent) (hc : Consistent 1 w.lock m)
    (hm : m = none ∨ m = some 1) (hne : rd ≠ []) (hb : Ben t) (hl : t.wlog = L ++ sent)
    (h : w.pollWrite 0 rd m t = (w', m', t', res)) :
    TStep t t' ∧ t'.input = t.input ∧ WritePostB id rd L t w' m' t' res := by
  obtain ⟨q1, q2, q3, q4, q5⟩ := pollWrite_ben w 0 rd m t sent hne hinv hc hm hb h
  obtain ⟨p1, p2, delta, p3, p4, p5, _, p7⟩ := pollWrite_spec w 0 rd m t sent hne hinv hc h
  refine ⟨q1, q2, ?_⟩
  cases res with
  | ready n =>
    obtain ⟨a1, a2, a3, a4, a5⟩ := p4 n rfl
    refine ⟨a1, ?_, ⟨p1.trans hty, p2.trans hid, Or.inl ⟨a4, a5, a3, rfl⟩⟩⟩
    rw [p3, hl, List.append_assoc, a2, a1, take_min_len, hty, hid]
  | pending =>
    obtain ⟨b1, b2⟩ := p5 (Or.inl rfl)
    obtain ⟨c1, c2⟩ := q5 rfl
    exact ⟨sent ++ delta, by rw [p3, hl, List.append_assoc], ⟨p1.trans hty, p2.trans hid, Or.inr ⟨b1, b2, q4⟩⟩,
      c1, c2⟩
  | err x => exact q3 x rfl
  | panic s => exact p7 s rfl

theorem pw_step {id : Nat} {w : Writer} {m : MutexSt} {rd sent L : Bytes} {t : Transport}
    {w' : Writer} {m' : MutexSt} {t' : Transport} {res : WRes}
    (hs : WSt id w m rd sent) (hne : rd ≠ []) (hb : Ben t) (hl : t.wlog = L ++ sent)
    (h : w.pollWrite 0 rd m t = (w', m', t', res)) :
    TStep t t' ∧ t'.input = t.input ∧ WritePostB id rd L t w' m' t' res := by
  obtain ⟨hty, hid, hst | ⟨hinv, hc, hm⟩⟩ := hs
  · obtain ⟨a1, a2, a3, a4⟩ := hst
    subst a3 a4
    rw [pollWrite_idle w 0 none t hne a1 a2] at h
    have hc : Consistent 1 (fresh w rd).lock none := by unfold Consistent; simp [fresh]
    exact pw_step_busy (w := fresh w rd) hty hid (fresh_WInv w hne) hc (Or.inl rfl) hne hb hl h
  · exact pw_step_busy hty hid hinv hc hm hne hb hl h

/-- fuel `write_all` of `n` bytes needs in `handlerPoll`: one unit per record and one to move on -/
def wcost (n : Nat) : Nat := (n + 65534) / 65535 + 1

/-- What `handlerPoll` does for a `writeAll 0 data` on the single writer of the script. -/
theorem writeAll_run {id : Nat} (r : AReq) (data : Bytes) (rest : List HOp) (pr : Bool) :
    ∀ (N fuel : Nat) (sub : HSub) (w : Writer) (e : Run.Env) (L sent : Bytes),
      (restOf sub data).length ≤ N → wcost (restOf sub data).length ≤ fuel → Ben e.tr →
      WSt id w e.mutex (restOf sub data) sent → e.tr.wlog = L ++ sent →
      (∃ (w' : Writer) (e' : Run.Env) (rd' L' sent' : Bytes),
          handlerPoll fuel r { ops := .writeAll 0 data :: rest, sub := sub, writers := [some w], propagate := pr } e =
            (r, { ops := .writeAll 0 data :: rest, sub := .writeRest rd', writers := [some w'], propagate := pr },
              e', .pending) ∧
          rd' ≠ [] ∧ e'.tr.wlog = L' ++ sent' ∧
          L' ++ streamRecords 6 id rd' = L ++ streamRecords 6 id (restOf sub data) ∧
          WSt id w' e'.mutex rd' sent' ∧ rd'.length ≤ (restOf sub data).length ∧
          TStep e.tr e'.tr ∧ e'.tr.input = e.tr.input ∧ e'.segs = e.segs ∧
          e'.tr.woken = true ∧ ans e'.tr < ans e.tr) ∨
      (∃ (w' : Writer) (e' : Run.Env) (fuel' : Nat),
          handlerPoll fuel r { ops := .writeAll 0 data :: rest, sub := sub, writers := [some w], propagate := pr } e =
            handlerPoll fuel' r { ops := rest, sub := .fresh, writers := [some w'], propagate := pr } (e'.ev "W=ok") ∧
          fuel ≤ fuel' + wcost (restOf sub data).length ∧
          e'.tr.wlog = L ++ streamRecords 6 id (restOf sub data) ∧
          w'.rtype = 6 ∧ w'.lock = .none ∧ e'.mutex = none ∧
          TStep e.tr e'.tr ∧ e'.tr.input = e.tr.input ∧ e'.segs = e.segs) := by
  intro N
  induction N with
  | zero =>
    intro fuel sub w e L sent hN hf hb hs hl
    have hrd : restOf sub data = [] := List.length_eq_zero_iff.1 (by omega)
    obtain ⟨f, rfl⟩ : ∃ f, fuel = f + 1 := ⟨fuel - 1, by unfold wcost at hf; omega⟩
    right
    rw [hp_writeAll f r 0 data rest sub [some w] w rfl pr e]
    simp only [hrd, List.isEmpty_nil, if_true]
    obtain ⟨hty, hid, hst | ⟨hinv, _, _⟩⟩ := hs
    · obtain ⟨a1, a2, a3, a4⟩ := hst
      subst a4
      refine ⟨w, e, f, rfl, by unfold wcost; simp, by simpa [streamRecords_nil] using hl, hty, a1, a3,
        .refl _, rfl, rfl⟩
    · have := hinv.loop.pos
      rw [hrd] at this
      simp at this
  | succ N ih =>
    intro fuel sub w e L sent hN hf hb hs hl
    by_cases hrd : restOf sub data = []
    · exact ih fuel sub w e L sent (by rw [hrd]; simp) hf hb hs hl
    · obtain ⟨f, rfl⟩ : ∃ f, fuel = f + 1 := ⟨fuel - 1, by unfold wcost at hf; omega⟩
      have hpos : 0 < (restOf sub data).length := List.length_pos_iff.mpr hrd
      rw [hp_writeAll f r 0 data rest sub [some w] w rfl pr e]
      have hemp : (restOf sub data).isEmpty = false := by simpa using hrd
      simp only [hemp, Bool.false_eq_true, if_false]
      rcases hpw : w.pollWrite 0 (restOf sub data) e.mutex e.tr with ⟨w1, m1, t1, res⟩
      obtain ⟨s1, s2, s3⟩ := pw_step hs hrd hb hl hpw
      cases res with
      | pending =>
        left
        obtain ⟨sent', b1, b2, b3, b4⟩ := s3
        exact ⟨w1, { e with mutex := m1, tr := t1 }, restOf sub data, L, sent', rfl, hrd, b1, rfl, b2,
          Nat.le_refl _, s1, s2, rfl, b3, b4⟩
      | err x => exact s3.elim
      | panic s => exact s3.elim
      | ready n =>
        obtain ⟨c1, c2, c3⟩ := s3
        have hn : n ≠ 0 := by omega
        obtain ⟨n', rfl⟩ : ∃ n', n = n' + 1 := ⟨n - 1, by omega⟩
        simp only [List.set_cons_zero]
        have hdrop : (restOf sub data).drop (n' + 1) = (restOf sub data).drop 65535 := by
          rw [c1, drop_min_len]
        rw [hdrop]
        have hlen' : ((restOf sub data).drop 65535).length ≤ N := by
          simp only [List.length_drop]; omega
        have hcost : wcost ((restOf sub data).drop 65535).length ≤ f := by
          unfold wcost at hf ⊢
          simp only [List.length_drop]
          omega
        have hrec := streamRecords_cons 6 id hrd
        rcases ih f (.writeRest ((restOf sub data).drop 65535)) w1 { e with mutex := m1, tr := t1 }
            (L ++ recordOf 6 id ((restOf sub data).take 65535)) [] hlen' hcost (hb.step s1) c3
            (by simpa using c2) with
          ⟨w2, e2, rd2, L2, sent2, d1, d2, d3, d4, d5, d6, d7, d8, d9, d10, d11⟩ |
          ⟨w2, e2, f2, d1, d2, d3, d4, d5, d6, d7, d8, d9⟩
        · left
          refine ⟨w2, e2, rd2, L2, sent2, d1, d2, d3, ?_, d5, ?_, s1.trans d7, d8.trans s2, d9, d10, ?_⟩
          · rw [d4, hrec, List.append_assoc]; rfl
          · have d6' : rd2.length ≤ ((restOf sub data).drop 65535).length := d6
            simp only [List.length_drop] at d6'; omega
          · have := s1.ans_le
            have d11' : ans e2.tr < ans t1 := d11
            omega
        · right
          refine ⟨w2, e2, f2, d1, ?_, ?_, d4, d5, d6, s1.trans d7, d8.trans s2, d9⟩
          · have d2' : f ≤ f2 + wcost ((restOf sub data).drop 65535).length := d2
            unfold wcost at d2' ⊢
            simp only [List.length_drop] at d2'
            omega
          · rw [d3, hrec, List.append_assoc]; rfl

/-! ## `readAll` -/

/-- What `handlerPoll` does for `readAll`: it suspends on a transient `Pending` of the transport with
the bytes read so far in its accumulator, or completes with exactly the stream content, the parser
standing at the end mark and every reply owed for the stream's noise generated (written or queued).

Fuel: a `read` into the 64-byte buffer returns 64 bytes, or leaves the parser idle (then the next
one must first get at least one byte from the transport), or reaches the end of the stream; so the
number of `read`s in one poll is at most `2·⌊|rest of the content|/64⌋ + 2·|input| + d + 1`
(`d = 0` if the parser is known to be idle). -/
theorem readAll_run {K : RCtx} (hK : K.OK) {L P : Bytes} (rest : List HOp) (ws : List (Option Writer))
    (pr : Bool) :
    ∀ (N fuel : Nat) (r : AReq) (sub : HSub) (e : Run.Env) (dO : Bytes) (d : Nat),
      2 * ((K.C.length - (accOf sub).length) / 64) + 2 * e.tr.input.length + d < N → N + 1 ≤ fuel →
      (d = 0 → Idle r.sp ∨ accOf sub = K.C) → Ben e.tr → RSt K L P r e.mutex e.tr (accOf sub) dO →
      (∃ (r' : AReq) (acc' : Bytes) (e' : Run.Env) (dO' : Bytes),
          handlerPoll fuel r { ops := .readAll :: rest, sub := sub, writers := ws, propagate := pr } e =
            (r', { ops := .readAll :: rest, sub := .readAllAcc acc', writers := ws, propagate := pr }, e', .pending) ∧
          RSt K L P r' e'.mutex e'.tr acc' dO' ∧ e'.segs = e.segs ∧ TStep e.tr e'.tr ∧
          e'.tr.woken = true ∧ ans e'.tr < ans e.tr) ∨
      (∃ (r' : AReq) (e' : Run.Env) (fuel' : Nat),
          handlerPoll fuel r { ops := .readAll :: rest, sub := sub, writers := ws, propagate := pr } e =
            handlerPoll fuel' r' { ops := rest, sub := .fresh, writers := ws, propagate := pr }
              (e'.ev (rEvent K.C)) ∧
          fuel + 2 * e'.tr.input.length ≤ fuel' + N ∧ RSt K L P r' e'.mutex e'.tr K.C K.O ∧ r'.lock = .none ∧ e'.mutex = none ∧
          r'.sp.pay = 0 ∧ r'.sp.pad = 0 ∧ r'.sp.raw ++ e'.tr.input = K.U ∧
          (K.final = true → r'.writeable = true) ∧
          e'.segs = e.segs ∧ TStep e.tr e'.tr) := by
  intro N
  induction N with
  | zero => intro fuel r sub e dO d hN; omega
  | succ N ih =>
    intro fuel r sub e dO d hN hf hd hb hs
    obtain ⟨f, rfl⟩ : ∃ f, fuel = f + 1 := ⟨fuel - 1, by omega⟩
    rw [hp_readAll]
    rcases hpi : r.pollInput (some 64) e.mutex e.tr with ⟨r1, m1, t1, res⟩
    obtain ⟨s1, s4, s5⟩ := pollInput_sim hK (by omega : 0 < 64) hb hs hpi
    cases res with
    | pending =>
      left
      obtain ⟨⟨dO', hs'⟩, hw, ha⟩ := s4
      exact ⟨r1, accOf sub, { e with mutex := m1, tr := t1 }, dO', rfl, hs', rfl, s1, hw, ha⟩
    | err x => exact s4.elim
    | panic x => exact s4.elim
    | ready k dd =>
      obtain ⟨hk, dO', hs', hlk, hm1, hor, hfull, hwr⟩ := s4
      subst hm1
      cases k with
      | zero =>
        right
        have hd0 : dd = [] := List.length_eq_zero_iff.1 hk.symm
        subst hd0
        rcases hor with hor | ⟨a1, a2, a3, a4, a5⟩
        · omega
        · simp only [List.append_nil] at a1 hs'
          refine ⟨r1, { e with mutex := none, tr := t1 }, f, ?_,
            by have := s1.tle.input_len; show f + 1 + 2 * t1.input.length ≤ f + (N + 1); omega,
            ?_, hlk, rfl, a3, a4, a5, hwr, rfl, s1⟩
          · simp only [a1]
          · rw [← a1, ← a2]; exact hs'
      | succ k' =>
        simp only
        obtain ⟨G1, hi1⟩ := hs'.inv
        have hnow := (hi1.now hK).1
        have hlenC : (accOf sub).length + (k' + 1) ≤ K.C.length := by
          have := congrArg List.length hnow
          simp only [List.length_append] at this
          omega
        have hinle := s1.tle.input_len
        have hdec : ∃ d1, (d1 = 0 → Idle r1.sp ∨ accOf sub ++ dd = K.C) ∧
            2 * ((K.C.length - (accOf sub ++ dd).length) / 64) + 2 * t1.input.length + d1 < N := by
          have hin' : d = 0 → t1.input.length < e.tr.input.length := by
            intro h0
            rcases hd h0 with hdr | hfin
            · exact s5 hdr _ _ rfl
            · rw [hfin] at hlenC; omega
          simp only [List.length_append]
          rcases hfull with h64 | hdr | ⟨hfin, _⟩
          · refine ⟨1, fun h => by omega, ?_⟩
            by_cases h0 : d = 0
            · have := hin' h0; omega
            · omega
          · refine ⟨0, fun _ => Or.inl hdr, ?_⟩
            by_cases h0 : d = 0
            · have := hin' h0; omega
            · omega
          · refine ⟨0, fun _ => Or.inr hfin, ?_⟩
            by_cases h0 : d = 0
            · have := hin' h0; omega
            · omega
        obtain ⟨d1, hd1, hm1⟩ := hdec
        rcases ih f r1 (.readAllAcc (accOf sub ++ dd)) { e with mutex := none, tr := t1 } dO' d1 hm1
            (by omega) hd1 (hb.step s1) hs' with
          ⟨r2, acc2, e2, dO2, d1', d3, d5, d6, d8, d9⟩ |
          ⟨r2, e2, f2, d1', d2, d3, d4, d5, d6, d7, d8, dw, d9, d10⟩
        · left
          refine ⟨r2, acc2, e2, dO2, d1', d3, d5, s1.trans d6, d8, ?_⟩
          have := s1.ans_le
          have d9' : ans e2.tr < ans t1 := d9
          omega
        · right
          exact ⟨r2, e2, f2, d1', by omega, d3, d4, d5, d6, d7, d8, dw, d9, s1.trans d10⟩

/-! ## One poll of the canonical handler -/

/-- the canonical handler of a Responder -/
def script (data : Bytes) (st : ExitStatus) : List HOp :=
  [.readAll, .open_ 6, .writeAll 0 data, .dropW 0, .ret st]

/-- … from the opening of the Stdout writer on (the canonical handler of an Authorizer) -/
def oscript (data : Bytes) (st : ExitStatus) : List HOp := [.open_ 6, .writeAll 0 data, .dropW 0, .ret st]

/-- … from its `write_all` on -/
def wscript (data : Bytes) (st : ExitStatus) : List HOp := [.writeAll 0 data, .dropW 0, .ret st]

theorem TStep.mem_events {t t' : Transport} (h : TStep t t') {s : String} (hs : s ∈ t.events) : s ∈ t'.events := by
  obtain ⟨n, hn, _⟩ := h.tle.ev
  rw [hn]; exact List.mem_append_left _ hs

/-- What the write and close stages know about the request: the request itself, the buffer size,
`max_conns`, and the bytes that are still unread when the handler is done with its input (`U`: the
terminating record of the last input stream; nothing for an Authorizer). -/
structure ECtx where
  rq : Request
  cap : Nat
  mc : Nat
  U : Bytes

def RCtx.ectx (K : RCtx) : ECtx := ⟨K.rq, K.cap, K.E.mc, K.U⟩

/-- The request stands at the end of its input: writeable, lock free, at a record boundary, `U`
unparsed. -/
structure REnd (N : ECtx) (r : AReq) (input : Bytes) : Prop where
  wr : r.writeable = true
  lock : r.lock = .none
  pay : r.sp.pay = 0
  pad : r.sp.pad = 0
  wire : r.sp.raw ++ input = N.U
  req : r.sp.request = N.rq
  capK : r.sp.cap = N.cap
  mcK : r.sp.maxConns = N.mc
  rawlen : r.sp.raw.length ≤ N.cap
  sinv : SInv r.sp

/-- the end of the last input stream -/
theorem REnd.of_read {K : RCtx} {r : AReq} {G input : Bytes} (hi : RInv K r G input K.C K.O)
    (hw : r.writeable = true) (hl : r.lock = .none) (hpay : r.sp.pay = 0) (hpad : r.sp.pad = 0)
    (hwire : r.sp.raw ++ input = K.U) : REnd K.ectx r input := by
  refine ⟨hw, hl, hpay, hpad, hwire, hi.req, hi.capK, hi.mt.mc, ?_, hi.sinv⟩
  have := hi.sinv.1
  have hc := hi.capK
  simp only [Str.Parser.freeStart] at this
  show r.sp.raw.length ≤ K.cap
  omega

/-- What is fixed during the write stage: the data, the status, the log `L1` when the handler
started, all replies `Otot` owed for noise inside the input streams, the `R=` events of its reads. -/
structure WCtx where
  N : ECtx
  data : Bytes
  st : ExitStatus
  L1 : Bytes
  Otot : Bytes
  revs : List String

/-- handler suspended in (or about to start) `readAll` of the stream described by `K`; `rest` = the
ops after it; `L` = the write log when the handler started, `P` = replies generated for earlier
streams -/
structure HRead (K : RCtx) (rest : List HOp) (L P : Bytes)
    (r : AReq) (h : HState) (e : Run.Env) : Prop where
  ops : h.ops = .readAll :: rest
  ws : h.writers = []
  pr : h.propagate = true
  rem : ∃ dO, RSt K L P r e.mutex e.tr (accOf h.sub) dO

/-- handler suspended in (or about to start) `writeAll`; `O1` = the stream-noise replies written
before the handler's output (the rest is still queued in the parser) -/
structure HWrite (W : WCtx) (O1 : Bytes) (r : AReq) (h : HState) (e : Run.Env) : Prop where
  ops : h.ops = wscript W.data W.st
  pr : h.propagate = true
  wr : ∃ w L sent, h.writers = [some w] ∧ WSt W.N.rq.id w e.mutex (restOf h.sub W.data) sent ∧
      e.tr.wlog = L ++ sent ∧
      L ++ streamRecords 6 W.N.rq.id (restOf h.sub W.data) = (W.L1 ++ O1) ++ streamRecords 6 W.N.rq.id W.data
  len : (restOf h.sub W.data).length ≤ W.data.length
  fin : REnd W.N r e.tr.input
  out : O1 ++ r.sp.output = W.Otot
  ev : ∀ s ∈ W.revs, s ∈ e.tr.events

/-- the handler returned `Ok(st)` -/
structure HDone (W : WCtx) (O1 : Bytes) (r : AReq) (h : HState) (e : Run.Env) : Prop where
  ws : h.writers = [none]
  mtx : e.mutex = none
  log : e.tr.wlog = (W.L1 ++ O1) ++ streamRecords 6 W.N.rq.id W.data
  fin : REnd W.N r e.tr.input
  out : O1 ++ r.sp.output = W.Otot
  ev : ∀ s ∈ W.revs, s ∈ e.tr.events

/-- Result of one poll of the handler; `Rd` = the states in which it may be suspended in a read. -/
def HOut (W : WCtx) (Rd : AReq → HState → Run.Env → Prop) (e : Run.Env)
    (out : AReq × HState × Run.Env × HRes) : Prop :=
  TStep e.tr out.2.2.1.tr ∧ out.2.2.1.segs = e.segs ∧
  ((out.2.2.2 = .pending ∧ out.2.2.1.tr.woken = true ∧ ans out.2.2.1.tr < ans e.tr ∧
      (Rd out.1 out.2.1 out.2.2.1 ∨ ∃ O1, HWrite W O1 out.1 out.2.1 out.2.2.1)) ∨
   (out.2.2.2 = .done (.ok W.st) ∧ ∃ O1, HDone W O1 out.1 out.2.1 out.2.2.1))

theorem REnd.step {N : ECtx} {r : AReq} {t t' : Transport} (h : REnd N r t.input)
    (hi : t'.input = t.input) : REnd N r t'.input := by rw [hi]; exact h

theorem write_phase {W : WCtx} {Rd : AReq → HState → Run.Env → Prop} {O1 : Bytes}
    {r : AReq} {h : HState} {e : Run.Env} (hw : HWrite W O1 r h e) (hb : Ben e.tr)
    {fuel : Nat} (hf : wcost W.data.length + 3 ≤ fuel) :
    HOut W Rd e (handlerPoll fuel r h e) := by
  obtain ⟨ops, sub, ws, pr⟩ := h
  obtain ⟨hops, hpr, ⟨w, L, sent, hws, hst, hlog, hL⟩, hlen, hfin, hout, hev⟩ := hw
  simp only at hops hpr hws hst hL hlen
  subst hops hpr hws
  have hfu : wcost (restOf sub W.data).length + 3 ≤ fuel := by
    unfold wcost at hf ⊢
    omega
  rcases writeAll_run (id := W.N.rq.id) r W.data [.dropW 0, .ret W.st] true (restOf sub W.data).length fuel sub w e
      L sent (Nat.le_refl _) (by omega) hb hst hlog with
    ⟨w', e', rd', L', sent', d1, d2, d3, d4, d5, d6, d7, d8, d9, d10, d11⟩ |
    ⟨w', e', f', d1, d2, d3, d4, d5, d6, d7, d8, d9⟩
  · show HOut W Rd e (handlerPoll fuel r
      { ops := wscript W.data W.st, sub := sub, writers := [some w], propagate := true } e)
    rw [show wscript W.data W.st = .writeAll 0 W.data :: [.dropW 0, .ret W.st] from rfl, d1]
    refine ⟨d7, d9, Or.inl ⟨rfl, d10, d11, Or.inr ⟨O1, rfl, rfl, ⟨w', L', sent', rfl, d5, d3, ?_⟩, ?_, ?_,
      hout, fun s hs => d7.mem_events (hev s hs)⟩⟩⟩
    · show L' ++ streamRecords 6 W.N.rq.id rd' = _
      rw [d4, hL]
    · show rd'.length ≤ W.data.length
      omega
    · exact hfin.step d8
  · show HOut W Rd e (handlerPoll fuel r
      { ops := wscript W.data W.st, sub := sub, writers := [some w], propagate := true } e)
    rw [show wscript W.data W.st = .writeAll 0 W.data :: [.dropW 0, .ret W.st] from rfl, d1]
    obtain ⟨f2, rfl⟩ : ∃ f2, f' = f2 + 2 := ⟨f' - 2, by omega⟩
    rw [hp_dropW]
    simp only [List.getD_cons_zero, List.set_cons_zero]
    rw [hp_ret]
    have hs2 : TStep e.tr (e'.tr.ev "W=ok") := d7.trans (TStep.ev _ (by decide))
    refine ⟨hs2, d9, Or.inr ⟨rfl, O1, ⟨rfl, ?_, ?_, ?_, hout, fun s hs => hs2.mem_events (hev s hs)⟩⟩⟩
    · show lockDrop w'.lock (e'.ev "W=ok").mutex = none
      rw [d5]; exact d6
    · show (e'.tr.ev "W=ok").wlog = _
      rw [Transport.ev_wlog, d3, hL]
    · exact hfin.step d8

/-- The handler opens its Stdout writer (the request being writeable, at the end of its input, the
mutex free) and goes on to `writeAll`. -/
theorem open_phase {W : WCtx} {Rd : AReq → HState → Run.Env → Prop} {O1 : Bytes} {r : AReq} {e : Run.Env}
    (hfin : REnd W.N r e.tr.input) (hm : e.mutex = none) (hlog : e.tr.wlog = W.L1 ++ O1)
    (hout : O1 ++ r.sp.output = W.Otot) (hev : ∀ s ∈ W.revs, s ∈ e.tr.events) (hb : Ben e.tr)
    {fuel : Nat} (hf : wcost W.data.length + 4 ≤ fuel) :
    HOut W Rd e (handlerPoll fuel r { ops := oscript W.data W.st, propagate := true } e) := by
  obtain ⟨f2, rfl⟩ : ∃ f2, fuel = f2 + 1 := ⟨fuel - 1, by omega⟩
  show HOut W Rd e (handlerPoll (f2 + 1) r
    { ops := .open_ 6 :: [.writeAll 0 W.data, .dropW 0, .ret W.st], sub := .fresh, writers := [],
      propagate := true } e)
  rw [hp_open]
  have hwr : r.writeable = true := hfin.wr
  rw [if_neg (by simp [hwr, outputStreams, RT.stdout, RT.stderr])]
  have hstr : (s!"o=w{([] : List (Option Writer)).length}" : String) = "o=w0" := by decide
  rw [hstr]
  show HOut W Rd e (handlerPoll f2 r
      { ops := wscript W.data W.st, sub := .fresh,
        writers := [] ++ [some { rtype := 6, id := r.sp.request.id }], propagate := true }
      (e.ev "o=w0"))
  have hs1 : TStep e.tr (e.ev "o=w0").tr := TStep.ev _ (by decide)
  have hid' : r.sp.request.id = W.N.rq.id := by rw [hfin.req]
  have hw : HWrite W O1 r
      { ops := wscript W.data W.st, sub := .fresh,
        writers := [] ++ [some { rtype := 6, id := r.sp.request.id }], propagate := true }
      (e.ev "o=w0") := by
    refine ⟨rfl, rfl, ⟨{ rtype := 6, id := r.sp.request.id }, W.L1 ++ O1, [], rfl,
      ⟨rfl, hid', Or.inl ⟨rfl, rfl, hm, rfl⟩⟩, ?_, rfl⟩, Nat.le_refl _, hfin, hout, ?_⟩
    · show e.tr.wlog = (W.L1 ++ O1) ++ []
      rw [hlog, List.append_nil]
    · intro s hs
      show s ∈ e.tr.events ++ ["o=w0"]
      exact List.mem_append_left _ (hev s hs)
  have hb2 : Ben (e.ev "o=w0").tr := hb.step hs1
  obtain ⟨q1, q2, q3⟩ := write_phase (Rd := Rd) hw hb2 (fuel := f2) (by omega)
  refine ⟨hs1.trans q1, q2, ?_⟩
  rcases q3 with ⟨a1, a2, a3, a4⟩ | a
  · exact Or.inl ⟨a1, a2, by have := hs1.ans_le; omega, a4⟩
  · exact Or.inr a

/-- The canonical Responder handler suspended in (or starting) its `readAll`. -/
theorem read_phase {K : RCtx} (hK : K.OK) (hfinal : K.final = true) {W : WCtx} (hN : W.N = K.ectx)
    (hOt : W.Otot = K.O) (hrevs : W.revs = [rEvent K.C])
    {r : AReq} {h : HState} {e : Run.Env} (hr : HRead K (oscript W.data W.st) W.L1 [] r h e) (hb : Ben e.tr)
    {fuel : Nat} (hf : K.cap / 32 + 3 * e.tr.input.length + wcost W.data.length + 12 ≤ fuel) :
    HOut W (HRead K (oscript W.data W.st) W.L1 []) e (handlerPoll fuel r h e) := by
  obtain ⟨ops, sub, ws, pr⟩ := h
  obtain ⟨hops, hws, hpr, ⟨dO, hs⟩⟩ := hr
  simp only at hops hpr hws hs
  subst hops hpr hws
  obtain ⟨G0, hi0⟩ := hs.inv
  have hrl := hi0.rem_le hK
  rcases readAll_run hK (L := W.L1) (P := []) (oscript W.data W.st) [] true
      (2 * ((K.C.length - (accOf sub).length) / 64) + 2 * e.tr.input.length + 2) fuel r sub e dO 1
      (by omega) (by omega) (fun h => by omega) hb hs with
    ⟨r', acc', e', dO', d1, d3, d5, d6, d8, d9⟩ |
    ⟨r', e', f', d1, d2, d3, dl, dm, d4, d5, d6, dw, d8, d9⟩
  · rw [d1]
    exact ⟨d6, d5, Or.inl ⟨rfl, d8, d9, Or.inl ⟨rfl, rfl, rfl, ⟨dO', d3⟩⟩⟩⟩
  · rw [d1]
    obtain ⟨G1, hi1⟩ := d3.inv
    obtain ⟨O1, hlog1, hlog2⟩ := d3.log
    have hs1 : TStep e.tr (e'.ev (rEvent K.C)).tr := d9.trans (TStep.ev _ (isHS_rEvent _))
    have hfin : REnd W.N r' (e'.ev (rEvent K.C)).tr.input := by
      rw [hN]
      exact REnd.of_read hi1 (dw hfinal) dl d4 d5 d6
    obtain ⟨q1, q2, q3⟩ := open_phase (W := W) (Rd := HRead K (oscript W.data W.st) W.L1 []) (O1 := O1) hfin
      (show (e'.ev (rEvent K.C)).mutex = none from dm)
      (show (e'.tr.ev (rEvent K.C)).wlog = W.L1 ++ O1 by rw [Transport.ev_wlog, hlog1])
      (by rw [hOt]; simpa using hlog2)
      (by intro s hs
          rw [hrevs, List.mem_singleton] at hs
          subst hs
          show rEvent K.C ∈ e'.tr.events ++ [rEvent K.C]
          simp)
      (hb.step hs1) (fuel := f') (by omega)
    refine ⟨hs1.trans q1, q2.trans d8, ?_⟩
    rcases q3 with ⟨a1, a2, a3, a4⟩ | a
    · exact Or.inl ⟨a1, a2, by have := hs1.ans_le; omega, a4⟩
    · exact Or.inr a

/-! ## The Filter: Stdin, then `set_stream(Data)`, then Data -/

theorem hp_setStream (fuel : Nat) (r : AReq) (t : Nat) (rest : List HOp) (sub : HSub)
    (ws : List (Option Writer)) (pr : Bool) (e : Run.Env) :
    handlerPoll (fuel + 1) r { ops := .setStream t :: rest, sub := sub, writers := ws, propagate := pr } e =
      match r.setStream t with
      | some r => handlerPoll fuel r { ops := rest, sub := .fresh, writers := ws, propagate := pr } (e.ev "s=ok")
      | none => (r, { ops := .setStream t :: rest, sub := sub, writers := ws, propagate := pr }, e,
          .panic "async_io:292 streams should follow the order given by Role::input_streams") := by
  simp only [handlerPoll]
  cases r.setStream t <;> rfl

/-- the canonical handler of a Filter -/
def fscript (data : Bytes) (st : ExitStatus) : List HOp :=
  [.readAll, .setStream 8, .readAll, .open_ 6, .writeAll 0 data, .dropW 0, .ret st]

/-- `K2` describes the Data stream that follows the Stdin stream `K1` of a Filter request: same
request, same buffer; its wire is what `K1` left unread. -/
structure Follows (K1 K2 : RCtx) : Prop where
  e1 : K1.E = ⟨K1.E.id, 3, 5, K1.E.mc⟩
  e2 : K2.E = ⟨K1.E.id, 3, 8, K1.E.mc⟩
  rq : K2.rq = K1.rq
  cap : K2.cap = K1.cap
  X : K2.X = K1.U

/-- `set_stream(Data)` at the end of Stdin: the request is ready to read the Data stream. -/
theorem switch_stream {K1 K2 : RCtx} (hf : Follows K1 K2) {L P : Bytes} {r : AReq} {m : MutexSt} {t : Transport}
    (hs : RSt K1 L P r m t K1.C K1.O) (hpay : r.sp.pay = 0) (hpad : r.sp.pad = 0)
    (hwire : r.sp.raw ++ t.input = K1.U) :
    ∃ r', r.setStream 8 = some r' ∧ r'.lock = r.lock ∧ RSt K2 L (P ++ K1.O) r' m t [] [] := by
  obtain ⟨⟨G, hi⟩, lk, mx, ⟨O1, l1, l2⟩⟩ := hs
  have hrole : r.sp.request.role = 3 := by rw [hi.mt.role, hf.e1]
  have hstrm : r.sp.stream = some 5 := by rw [hi.mt.strm, hf.e1]
  have hset : r.sp.setStream (some 8) = .ok (r.sp.switchTo (some 8)) := by
    rw [setStream_some_input r.sp (s := 8) rfl (fun e he => by rw [hstrm] at he; cases he; rfl)]
    rw [if_neg (by rw [hstrm]; decide), if_pos (by rw [hrole, hstrm]; decide)]
  refine ⟨{ r with sp := r.sp.switchTo (some 8) }, by simp [AReq.setStream, hset], rfl, ?_⟩
  have hsinv : SInv (r.sp.switchTo (some 8)) :=
    SInv_switchTo hi.sinv (Or.inr ⟨8, rfl, by rw [hrole]; decide⟩)
  have hmt : Match K2.E (r.sp.switchTo (some 8)) := by
    rw [hf.e2]
    exact ⟨hi.mt.id, hrole, rfl, hi.mt.mc, by show 8 ∈ inputStreams 3; decide⟩
  refine ⟨⟨r.sp.raw, hmt, hsinv, by rw [hf.rq]; exact hi.req, by rw [hf.cap]; exact hi.capK, rfl,
    by rw [hf.X]; exact hwire, fun x => ?_⟩, ?_, mx, ⟨O1, l1, by rw [List.append_nil]; exact l2⟩⟩
  · show refWire K2.E (r.sp.raw ++ x) = (Rem K2.E (r.sp.switchTo (some 8)) x).pre [] []
    have hp : (r.sp.switchTo (some 8)).pay = 0 := hpay
    have hd : (r.sp.switchTo (some 8)).pad = 0 := hpad
    unfold Rem
    rw [hp, hd]
    show _ = ref K2.E _ 0 0 (r.sp.raw ++ x)
    rw [ref_eq_refWire]
  · exact ⟨lk.1, fun h => lk.2 h⟩

/-- the Filter handler suspended in its first or in its second `readAll` -/
def FRd (K1 K2 : RCtx) (W : WCtx) (r : AReq) (h : HState) (e : Run.Env) : Prop :=
  HRead K1 (.setStream 8 :: .readAll :: oscript W.data W.st) W.L1 [] r h e ∨
    (HRead K2 (oscript W.data W.st) W.L1 K1.O r h e ∧ rEvent K1.C ∈ e.tr.events)

/-- The canonical Filter handler, suspended in (or starting) one of its two `readAll`s. -/
theorem read_phaseF {K1 K2 : RCtx} (hK1 : K1.OK) (hK2 : K2.OK) (hf : Follows K1 K2) {W : WCtx}
    (hN : W.N = K2.ectx) (hOt : W.Otot = K1.O ++ K2.O) (hrevs : W.revs = [rEvent K1.C, rEvent K2.C])
    {r : AReq} {h : HState} {e : Run.Env}
    (hr : FRd K1 K2 W r h e) (hb : Ben e.tr)
    {fuel : Nat} (hfu : K1.cap / 16 + 3 * e.tr.input.length + wcost W.data.length + 24 ≤ fuel) :
    HOut W (FRd K1 K2 W) e
      (handlerPoll fuel r h e) := by
  have hfin2 : K2.final = true := by simp [RCtx.final, hf.e2, nextInputStream, RT.stdin]
  -- the second `readAll` and what follows
  have second : ∀ (fuel : Nat) (r : AReq) (sub : HSub) (e : Run.Env),
      (∃ dO, RSt K2 W.L1 K1.O r e.mutex e.tr (accOf sub) dO) → rEvent K1.C ∈ e.tr.events → Ben e.tr →
      2 * ((K2.C.length - (accOf sub).length) / 64) + 2 * e.tr.input.length + wcost W.data.length + 12 ≤ fuel →
      HOut W (FRd K1 K2 W) e
        (handlerPoll fuel r ⟨.readAll :: oscript W.data W.st, sub, [], true⟩ e) := by
    intro fuel r sub e ⟨dO, hs⟩ hev1 hb hfu
    obtain ⟨G0, hi0⟩ := hs.inv
    have hrl := hi0.rem_le hK2
    rcases readAll_run hK2 (L := W.L1) (P := K1.O) (oscript W.data W.st) [] true
        (2 * ((K2.C.length - (accOf sub).length) / 64) + 2 * e.tr.input.length + 2) fuel r sub e dO 1
        (by omega) (by omega) (fun h => by omega) hb hs with
      ⟨r', acc', e', dO', d1, d3, d5, d6, d8, d9⟩ |
      ⟨r', e', f', d1, d2, d3, dl, dm, d4, d5, d6, dw, d8, d9⟩
    · rw [d1]
      exact ⟨d6, d5, Or.inl ⟨rfl, d8, d9, Or.inl (Or.inr ⟨⟨rfl, rfl, rfl, ⟨dO', d3⟩⟩, d6.mem_events hev1⟩)⟩⟩
    · rw [d1]
      obtain ⟨G1, hi1⟩ := d3.inv
      obtain ⟨O1, hlog1, hlog2⟩ := d3.log
      have hs1 : TStep e.tr (e'.ev (rEvent K2.C)).tr := d9.trans (TStep.ev _ (isHS_rEvent _))
      have hfin : REnd W.N r' (e'.ev (rEvent K2.C)).tr.input := by
        rw [hN]
        exact REnd.of_read hi1 (dw hfin2) dl d4 d5 d6
      obtain ⟨q1, q2, q3⟩ := open_phase (W := W) (Rd := FRd K1 K2 W) (O1 := O1) hfin
        (show (e'.ev (rEvent K2.C)).mutex = none from dm)
        (show (e'.tr.ev (rEvent K2.C)).wlog = W.L1 ++ O1 by rw [Transport.ev_wlog, hlog1])
        (by rw [hOt]; exact hlog2)
        (by intro s hs
            rw [hrevs] at hs
            show s ∈ e'.tr.events ++ [rEvent K2.C]
            rcases List.mem_cons.1 hs with rfl | hs
            · exact List.mem_append_left _ (d9.mem_events hev1)
            · rw [List.mem_singleton.1 hs]; simp)
        (hb.step hs1) (fuel := f') (by omega)
      refine ⟨hs1.trans q1, q2.trans d8, ?_⟩
      rcases q3 with ⟨a1, a2, a3, a4⟩ | a
      · exact Or.inl ⟨a1, a2, by have := hs1.ans_le; omega, a4⟩
      · exact Or.inr a
  obtain ⟨ops, sub, ws, pr⟩ := h
  rcases hr with hr | ⟨hr, hev1⟩
  · obtain ⟨hops, hws, hpr, ⟨dO, hs⟩⟩ := hr
    simp only at hops hpr hws hs
    subst hops hpr hws
    obtain ⟨G0, hi0⟩ := hs.inv
    have hrl := hi0.rem_le hK1
    rcases readAll_run hK1 (L := W.L1) (P := []) (.setStream 8 :: .readAll :: oscript W.data W.st) [] true
        (2 * ((K1.C.length - (accOf sub).length) / 64) + 2 * e.tr.input.length + 2) fuel r sub e dO 1
        (by omega) (by omega) (fun h => by omega) hb hs with
      ⟨r', acc', e', dO', d1, d3, d5, d6, d8, d9⟩ |
      ⟨r', e', f', d1, d2, d3, dl, dm, d4, d5, d6, dw, d8, d9⟩
    · rw [d1]
      exact ⟨d6, d5, Or.inl ⟨rfl, d8, d9, Or.inl (Or.inl ⟨rfl, rfl, rfl, ⟨dO', d3⟩⟩)⟩⟩
    · rw [d1]
      obtain ⟨f2, rfl⟩ : ∃ f2, f' = f2 + 1 := ⟨f' - 1, by omega⟩
      rw [hp_setStream]
      obtain ⟨r2, hset, hlk2, hs2⟩ := switch_stream hf d3 d4 d5 d6
      have hset' : r'.setStream 8 = some r2 := hset
      rw [hset']
      simp only
      have hs1 : TStep e.tr ((e'.ev (rEvent K1.C)).ev "s=ok").tr :=
        (d9.trans (TStep.ev _ (isHS_rEvent _))).trans (TStep.ev _ (by decide))
      have hinle := d9.tle.input_len
      obtain ⟨q1, q2, q3⟩ := second f2 r2 .fresh ((e'.ev (rEvent K1.C)).ev "s=ok")
        ⟨[], by
          have : RSt K2 W.L1 ([] ++ K1.O) r2 e'.mutex e'.tr [] [] := hs2
          rw [List.nil_append] at this
          exact ⟨this.inv, this.lk, this.mx, this.log⟩⟩
        (by show rEvent K1.C ∈ (e'.tr.events ++ [rEvent K1.C]) ++ ["s=ok"]; simp)
        (hb.step hs1)
        (by show 2 * ((K2.C.length - ([] : Bytes).length) / 64) + 2 * e'.tr.input.length + wcost W.data.length + 12 ≤ f2
            obtain ⟨G2, hi2⟩ := hs2.inv
            have hrl2 := hi2.rem_le hK2
            rw [hf.cap] at hrl2
            simp only [List.length_nil] at hrl2 ⊢
            omega)
      refine ⟨hs1.trans q1, q2.trans d8, ?_⟩
      rcases q3 with ⟨a1, a2, a3, a4⟩ | a
      · exact Or.inl ⟨a1, a2, by have := hs1.ans_le; omega, a4⟩
      · exact Or.inr a
  · obtain ⟨hops, hws, hpr, hrem⟩ := hr
    simp only at hops hpr hws hrem
    subst hops hpr hws
    obtain ⟨dO, hs⟩ := hrem
    obtain ⟨G2, hi2⟩ := hs.inv
    have hrl2 := hi2.rem_le hK2
    rw [hf.cap] at hrl2
    exact second fuel r sub e ⟨dO, hs⟩ hev1 hb (by omega)

end Fcgi.E2E
