import Fcgi.Proofs.E2EStr
/-!
# End-to-end composition (C07) — part 3: one poll of the canonical handler

The canonical handler script is `[readAll, open_ 6, writeAll 0 data, dropW 0, ret st]`.
* `writeLoop_ben`, `pollWrite_ben`: on a benign transport `poll_write` never fails and its only
  `Pending` is a transient one of the transport;
* `chunks`, `streamRecords`: the framing `write_all` produces (records of at most 65535 bytes);
* `readAll_run`, `writeAll_run`, `script_run`: what `handlerPoll` returns for this script.
-/
namespace Fcgi.E2E
open Fcgi Fcgi.Req Fcgi.Str Fcgi.Async Fcgi.Run

/-! ## `poll_write` on a benign transport -/

theorem writeLoop_ben : ∀ (fuel : Nat) (w : Writer) (head buf : Bytes) (t : Transport)
    {w' : Writer} {t' : Transport} {res : WRes},
    Ben t → writeLoop fuel w head buf t = (w', t', res) →
    TStep t t' ∧ t'.input = t.input ∧ (∀ e, res ≠ .err e) ∧
    (res = .pending → t'.woken = true ∧ ans t' < ans t) := by
  intro fuel
  induction fuel with
  | zero =>
    intro w head buf t w' t' res _ h
    simp only [writeLoop] at h; cases h
    exact ⟨.refl _, rfl, (fun e he => by cases he), (fun he => by cases he)⟩
  | succ k ih =>
    intro w head buf t w' t' res hb h
    rw [writeLoop] at h
    split at h
    · cases h
      exact ⟨.refl _, rfl, (fun e he => by cases he), (fun he => by cases he)⟩
    · rename_i hw
      split at h
      · cases h
        exact ⟨.refl _, rfl, (fun e he => by cases he), (fun he => by cases he)⟩
      · rename_i hcl
        rcases hv : t.writeV [head.drop w.headIdx, buf.drop (buf.length - w.contentLen), zeros w.padLen] "V"
          with ⟨t1, r⟩
        simp only at h
        rw [hv] at h
        obtain ⟨s1, s2, s3⟩ := writeV_tstep hb hv
        cases r with
        | pending =>
          cases h
          exact ⟨s1, s2, (fun e he => by cases he), fun _ => ⟨s3.2.1, s3.2.2⟩⟩
        | ready x =>
          cases x with
          | error e => exact s3.elim
          | ok n =>
            cases n with
            | zero =>
              exfalso
              have hz := s3.2.2
              have hnil : [head.drop w.headIdx, buf.drop (buf.length - w.contentLen), zeros w.padLen].flatten = [] := by
                exact Classical.byContradiction (fun hne => by have := hz hne; omega)
              have hl := congrArg List.length hnil
              simp only [List.flatten_cons, List.flatten_nil, List.append_nil, List.length_append,
                List.length_drop, zeros, List.length_replicate, List.length_nil] at hl
              have hw' : w.isWriting = true := by simpa using hw
              simp only [Writer.isWriting, Bool.or_eq_true, bne_iff_ne, ne_eq] at hw'
              omega
            | succ n =>
              simp only at h
              split at h
              · cases h
                exact ⟨s1, s2, (fun e he => by cases he), (fun he => by cases he)⟩
              · obtain ⟨q1, q2, q3, q4⟩ := ih _ _ _ _ (hb.step s1) h
                refine ⟨s1.trans q1, q2.trans s2, q3, fun hp => ?_⟩
                obtain ⟨a, b⟩ := q4 hp
                exact ⟨a, by have := s1.ans_le; omega⟩

/-- `poll_write` of a write in progress whose writer is not blocked by another holder of the mutex:
never an error; `Pending` only as a transient `Pending` of the transport. -/
theorem pollWrite_ben (w : Writer) (me : Nat) (buf : Bytes) (m : MutexSt) (t : Transport) (sent : Bytes)
    (hb : buf ≠ []) (hinv : WInv w buf sent) (hc : Consistent (me + 1) w.lock m)
    (hm : m = none ∨ m = some (me + 1)) (hben : Ben t)
    {w' : Writer} {m' : MutexSt} {t' : Transport} {res : WRes}
    (h : w.pollWrite me buf m t = (w', m', t', res)) :
    TStep t t' ∧ t'.input = t.input ∧ (∀ e, res ≠ .err e) ∧ (m' = none ∨ m' = some (me + 1)) ∧
    (res = .pending → t'.woken = true ∧ ans t' < ans t) := by
  have hl : w.lock ≠ .none := by
    rcases hinv.lock with h | ⟨h, _⟩ <;> rw [h] <;> simp
  have ho : w.origLen ≤ buf.length := by rw [hinv.orig]; omega
  rw [pollWrite_started w me m t hb hl hinv.writing ho] at h
  obtain ⟨_, hgot, hnot⟩ := lockPoll_spec w.lock m (me + 1) hc
  split at h
  · rename_i hg
    obtain ⟨_, _, h3, h4⟩ := hnot hg
    exfalso
    rcases hm with hm | hm
    · exact h4 hm
    · exact h3 (hc.2 hm)
  · rename_i hg
    have hg' : (lockPoll w.lock m (me + 1)).2.2 = true := by simpa using hg
    obtain ⟨_, hm2, _⟩ := hgot hg'
    rcases hl' : writeLoop (8 + w.contentLen + w.padLen + 1)
        { w with lock := (lockPoll w.lock m (me + 1)).1 } w.headBytes (buf.take w.origLen) t
      with ⟨w3, t3, r⟩
    rw [hl'] at h
    obtain ⟨q1, q2, q3, q4⟩ := writeLoop_ben _ _ _ _ _ hben hl'
    cases r with
    | ready n => cases h; exact ⟨q1, q2, (fun e he => by cases he), Or.inl rfl, (fun he => by cases he)⟩
    | pending => cases h; exact ⟨q1, q2, q3, Or.inr hm2, q4⟩
    | err e => exact absurd rfl (q3 e)
    | panic s => cases h; exact ⟨q1, q2, (fun e he => by cases he), Or.inr hm2, (fun he => by cases he)⟩

/-! ## The framing of `write_all` -/

def chunksAux : Nat → Bytes → List Bytes
  | 0, _ => []
  | f + 1, d => if d.isEmpty then [] else d.take 65535 :: chunksAux f (d.drop 65535)

/-- `data` cut into pieces of 65535 bytes (the last one shorter): the payloads of the records
`write_all` produces through `poll_write`. -/
def chunks (d : Bytes) : List Bytes := chunksAux d.length d

/-- The records `write_all(data)` on a `StreamWriter` of type `ty` for request `id` puts on the wire. -/
def streamRecords (ty id : Nat) (d : Bytes) : Bytes := (chunks d).flatMap (recordOf ty id)

theorem chunksAux_stable : ∀ (f g : Nat) (d : Bytes), d.length ≤ f → d.length ≤ g →
    chunksAux f d = chunksAux g d := by
  intro f
  induction f with
  | zero =>
    intro g d hd _
    have : d = [] := List.length_eq_zero_iff.1 (by omega)
    subst this
    cases g <;> rfl
  | succ k ih =>
    intro g d hd hg
    cases d with
    | nil => cases g <;> rfl
    | cons x xs =>
      simp only [List.length_cons] at hd hg
      obtain ⟨g', rfl⟩ : ∃ g', g = g' + 1 := ⟨g - 1, by omega⟩
      simp only [chunksAux, List.isEmpty_cons, Bool.false_eq_true, if_false]
      congr 1
      exact ih _ _ (by simp only [List.length_drop, List.length_cons]; omega)
        (by simp only [List.length_drop, List.length_cons]; omega)

theorem chunksAux_enough (f : Nat) (d : Bytes) (h : d.length ≤ f) : chunksAux f d = chunksAux d.length d :=
  chunksAux_stable _ _ _ h (Nat.le_refl _)

theorem chunks_nil : chunks [] = [] := rfl

theorem chunks_cons {d : Bytes} (h : d ≠ []) : chunks d = d.take 65535 :: chunks (d.drop 65535) := by
  cases d with
  | nil => exact absurd rfl h
  | cons x xs =>
    simp only [chunks, chunksAux, List.length_cons, List.isEmpty_cons, Bool.false_eq_true, if_false]
    congr 1
    exact chunksAux_enough _ _ (by simp only [List.length_drop, List.length_cons]; omega)

theorem streamRecords_nil (ty id : Nat) : streamRecords ty id [] = [] := rfl

theorem streamRecords_cons (ty id : Nat) {d : Bytes} (h : d ≠ []) :
    streamRecords ty id d = recordOf ty id (d.take 65535) ++ streamRecords ty id (d.drop 65535) := by
  simp only [streamRecords, chunks_cons h, List.flatMap_cons]

/-- the pieces are non-empty, at most 65535 bytes long, and concatenate to the data -/
theorem chunks_spec : ∀ (n : Nat) (d : Bytes), d.length ≤ n →
    (chunks d).flatten = d ∧ ∀ c ∈ chunks d, 0 < c.length ∧ c.length ≤ 65535 := by
  intro n
  induction n with
  | zero =>
    intro d hd
    have : d = [] := List.length_eq_zero_iff.1 (by omega)
    subst this
    exact ⟨rfl, fun c hc => by simp [chunks_nil] at hc⟩
  | succ k ih =>
    intro d hd
    by_cases hne : d = []
    · subst hne; exact ⟨rfl, fun c hc => by simp [chunks_nil] at hc⟩
    · have hpos : 0 < d.length := List.length_pos_iff.mpr hne
      obtain ⟨h1, h2⟩ := ih (d.drop 65535) (by simp only [List.length_drop]; omega)
      rw [chunks_cons hne]
      refine ⟨by rw [List.flatten_cons, h1, List.take_append_drop], fun c hc => ?_⟩
      rcases List.mem_cons.1 hc with rfl | hc
      · simp only [List.length_take]; omega
      · exact h2 c hc

/-! ## Unfolding `handlerPoll` for the ops of the canonical script -/

def accOf : HSub → Bytes
  | .readAllAcc a => a
  | _ => []

/-- the trace event of a completed `readAll` -/
def rEvent (acc : Bytes) : String := s!"R={acc.length}:{hexOrDash acc}"

theorem isHS_rEvent (acc : Bytes) : isHS (rEvent acc) = false := by
  simp [isHS, rEvent, toString_str]

theorem hp_ret (fuel : Nat) (r : AReq) (st : ExitStatus) (rest : List HOp) (sub : HSub)
    (ws : List (Option Writer)) (pr : Bool) (e : Run.Env) :
    handlerPoll (fuel + 1) r { ops := .ret st :: rest, sub := sub, writers := ws, propagate := pr } e =
      (r, { ops := .ret st :: rest, sub := sub, writers := ws, propagate := pr }, e, .done (.ok st)) := rfl

theorem hp_readAll (fuel : Nat) (r : AReq) (rest : List HOp) (sub : HSub)
    (ws : List (Option Writer)) (pr : Bool) (e : Run.Env) :
    handlerPoll (fuel + 1) r { ops := .readAll :: rest, sub := sub, writers := ws, propagate := pr } e =
      match r.pollInput (some 64) e.mutex e.tr with
        | (r, m, t, .pending) =>
          (r, { ops := .readAll :: rest, sub := .readAllAcc (accOf sub), writers := ws, propagate := pr },
            { e with mutex := m, tr := t }, .pending)
        | (r, m, t, .ready 0 _) =>
          handlerPoll fuel r { ops := rest, sub := .fresh, writers := ws, propagate := pr }
            ({ e with mutex := m, tr := t }.ev (rEvent (accOf sub)))
        | (r, m, t, .ready _ d) =>
          handlerPoll fuel r { ops := .readAll :: rest, sub := .readAllAcc (accOf sub ++ d), writers := ws, propagate := pr }
            { e with mutex := m, tr := t }
        | (r, m, t, .err x) =>
          if pr then (r, { ops := rest, sub := .fresh, writers := ws, propagate := pr },
              ({ e with mutex := m, tr := t }.ev s!"R!{showIo x}:{(accOf sub).length}:{hexOrDash (accOf sub)}"), .done (.error x))
          else handlerPoll fuel r { ops := rest, sub := .fresh, writers := ws, propagate := pr }
              ({ e with mutex := m, tr := t }.ev s!"R!{showIo x}:{(accOf sub).length}:{hexOrDash (accOf sub)}")
        | (r, m, t, .panic s) =>
          (r, { ops := .readAll :: rest, sub := sub, writers := ws, propagate := pr }, { e with mutex := m, tr := t }, .panic s) := by
  cases sub <;> rfl

theorem hp_open (fuel : Nat) (r : AReq) (ty : Nat) (rest : List HOp) (sub : HSub)
    (ws : List (Option Writer)) (pr : Bool) (e : Run.Env) :
    handlerPoll (fuel + 1) r { ops := .open_ ty :: rest, sub := sub, writers := ws, propagate := pr } e =
      if !(outputStreams r.sp.request.role).contains ty || !r.writeable then
        (r, { ops := .open_ ty :: rest, sub := sub, writers := ws, propagate := pr }, e, .panic "async_io:324 output_stream assertion")
      else handlerPoll fuel r
        { ops := rest, sub := .fresh, writers := ws ++ [some { rtype := ty, id := r.sp.request.id }], propagate := pr }
        (e.ev s!"o=w{ws.length}") := rfl

theorem hp_dropW (fuel : Nat) (r : AReq) (i : Nat) (rest : List HOp) (sub : HSub)
    (ws : List (Option Writer)) (pr : Bool) (e : Run.Env) :
    handlerPoll (fuel + 1) r { ops := .dropW i :: rest, sub := sub, writers := ws, propagate := pr } e =
      match ws.getD i none with
      | some w => handlerPoll fuel r { ops := rest, sub := .fresh, writers := ws.set i none, propagate := pr }
          { e with mutex := lockDrop w.lock e.mutex }
      | none => handlerPoll fuel r { ops := rest, sub := .fresh, writers := ws, propagate := pr } e := by
  simp only [handlerPoll]
  cases ws.getD i none <;> rfl

def restOf (sub : HSub) (data : Bytes) : Bytes :=
  match sub with
  | .writeRest rd => rd
  | _ => data

theorem hp_writeAll (fuel : Nat) (r : AReq) (i : Nat) (data : Bytes) (rest : List HOp) (sub : HSub)
    (ws : List (Option Writer)) (w : Writer) (hw : ws.getD i none = some w) (pr : Bool) (e : Run.Env) :
    handlerPoll (fuel + 1) r { ops := .writeAll i data :: rest, sub := sub, writers := ws, propagate := pr } e =
      if (restOf sub data).isEmpty then
        handlerPoll fuel r { ops := rest, sub := .fresh, writers := ws, propagate := pr } (e.ev "W=ok")
      else match w.pollWrite i (restOf sub data) e.mutex e.tr with
        | (w, m, t, .pending) =>
          (r, { ops := .writeAll i data :: rest, sub := .writeRest (restOf sub data), writers := ws.set i (some w), propagate := pr },
            { e with mutex := m, tr := t }, .pending)
        | (w, m, t, .ready 0) =>
          if pr then (r, { ops := rest, sub := .fresh, writers := ws.set i (some w), propagate := pr },
            ({ e with mutex := m, tr := t }.ev "W!writezero"), .done (.error .writeZero))
          else handlerPoll fuel r { ops := rest, sub := .fresh, writers := ws.set i (some w), propagate := pr }
            ({ e with mutex := m, tr := t }.ev "W!writezero")
        | (w, m, t, .ready n) =>
          handlerPoll fuel r
            { ops := .writeAll i data :: rest, sub := .writeRest ((restOf sub data).drop n), writers := ws.set i (some w), propagate := pr }
            { e with mutex := m, tr := t }
        | (w, m, t, .err x) =>
          if pr then (r, { ops := rest, sub := .fresh, writers := ws.set i (some w), propagate := pr },
            ({ e with mutex := m, tr := t }.ev s!"W!{showIo x}"), .done (.error x))
          else handlerPoll fuel r { ops := rest, sub := .fresh, writers := ws.set i (some w), propagate := pr }
            ({ e with mutex := m, tr := t }.ev s!"W!{showIo x}")
        | (w, m, t, .panic s) =>
          (r, { ops := .writeAll i data :: rest, sub := sub, writers := ws.set i (some w), propagate := pr },
            { e with mutex := m, tr := t }, .panic s) := by
  simp only [handlerPoll, hw]
  cases sub <;> rfl

/-! ## `write_all` through the `StreamWriter` -/

/-- State of the handler's Stdout writer between `poll_write` calls: idle (no lock, mutex free,
nothing of the current record sent), or in the middle of the record for the rest `rd` of the data
with `sent` already on the wire. -/
structure WSt (id : Nat) (w : Writer) (m : MutexSt) (rd sent : Bytes) : Prop where
  ty : w.rtype = 6
  id : w.id = id
  st : (w.lock = .none ∧ w.isWriting = false ∧ m = none ∧ sent = []) ∨
       (WInv w rd sent ∧ Consistent 1 w.lock m ∧ (m = none ∨ m = some 1))

theorem take_min_len (l : Bytes) (n : Nat) : l.take (min l.length n) = l.take n := by
  by_cases h : l.length ≤ n
  · rw [Nat.min_eq_left h, List.take_length, List.take_of_length_le h]
  · rw [Nat.min_eq_right (by omega)]

theorem drop_min_len (l : Bytes) (n : Nat) : l.drop (min l.length n) = l.drop n := by
  by_cases h : l.length ≤ n
  · rw [Nat.min_eq_left h, List.drop_length, List.drop_of_length_le h]
  · rw [Nat.min_eq_right (by omega)]

def WritePostB (id : Nat) (rd L : Bytes) (t : Transport) (w' : Writer) (m' : MutexSt) (t' : Transport) :
    WRes → Prop
  | .ready n => n = min rd.length 65535 ∧ t'.wlog = L ++ recordOf 6 id (rd.take 65535) ∧
      WSt id w' m' (rd.drop 65535) []
  | .pending => ∃ sent', t'.wlog = L ++ sent' ∧ WSt id w' m' rd sent' ∧ t'.woken = true ∧ ans t' < ans t
  | .err _ => False
  | .panic _ => False

theorem pw_step_busy {id : Nat} {w : Writer} {m : MutexSt} {rd sent L : Bytes} {t : Transport}
    {w' : Writer} {m' : MutexSt} {t' : Transport} {res : WRes}
    (hty : w.rtype = 6) (hid : w.id = id) (hinv : WInv w rd sent) (hc : Consistent 1 w.lock m)
    (hm : m = none ∨ m = some 1) (hne : rd ≠ []) (hb : Ben t) (hl : t.wlog = L ++ sent)
    (h : w.pollWrite 0 rd m t = (w', m', t', res)) :
    TStep t t' ∧ t'.input = t.input ∧ WritePostB id rd L t w' m' t' res := by
  obtain ⟨q1, q2, q3, q4, q5⟩ := pollWrite_ben w 0 rd m t sent hne hinv hc hm hb h
  obtain ⟨p1, p2, delta, p3, p4, p5, _, p7⟩ := pollWrite_spec w 0 rd m t sent hne hinv hc h
  refine ⟨q1, q2, ?_⟩
  cases res with
  | ready n =>
    obtain ⟨a1, a2, a3, a4, a5⟩ := p4 n rfl
    refine ⟨a1, ?_, ⟨p1.trans hty, p2.trans hid, Or.inl ⟨a4, a5, a3, rfl⟩⟩⟩
    rw [p3, hl, List.append_assoc, a2, a1, take_min_len, hty, hid]
  | pending =>
    obtain ⟨b1, b2⟩ := p5 (Or.inl rfl)
    obtain ⟨c1, c2⟩ := q5 rfl
    exact ⟨sent ++ delta, by rw [p3, hl, List.append_assoc], ⟨p1.trans hty, p2.trans hid, Or.inr ⟨b1, b2, q4⟩⟩,
      c1, c2⟩
  | err x => exact q3 x rfl
  | panic s => exact p7 s rfl

theorem pw_step {id : Nat} {w : Writer} {m : MutexSt} {rd sent L : Bytes} {t : Transport}
    {w' : Writer} {m' : MutexSt} {t' : Transport} {res : WRes}
    (hs : WSt id w m rd sent) (hne : rd ≠ []) (hb : Ben t) (hl : t.wlog = L ++ sent)
    (h : w.pollWrite 0 rd m t = (w', m', t', res)) :
    TStep t t' ∧ t'.input = t.input ∧ WritePostB id rd L t w' m' t' res := by
  obtain ⟨hty, hid, hst | ⟨hinv, hc, hm⟩⟩ := hs
  · obtain ⟨a1, a2, a3, a4⟩ := hst
    subst a3 a4
    rw [pollWrite_idle w 0 none t hne a1 a2] at h
    have hc : Consistent 1 (fresh w rd).lock none := by unfold Consistent; simp [fresh]
    exact pw_step_busy (w := fresh w rd) hty hid (fresh_WInv w hne) hc (Or.inl rfl) hne hb hl h
  · exact pw_step_busy hty hid hinv hc hm hne hb hl h

/-- fuel `write_all` of `n` bytes needs in `handlerPoll`: one unit per record and one to move on -/
def wcost (n : Nat) : Nat := (n + 65534) / 65535 + 1

/-- What `handlerPoll` does for a `writeAll 0 data` on the single writer of the script. -/
theorem writeAll_run {id : Nat} (r : AReq) (data : Bytes) (rest : List HOp) (pr : Bool) :
    ∀ (N fuel : Nat) (sub : HSub) (w : Writer) (e : Run.Env) (L sent : Bytes),
      (restOf sub data).length ≤ N → wcost (restOf sub data).length ≤ fuel → Ben e.tr →
      WSt id w e.mutex (restOf sub data) sent → e.tr.wlog = L ++ sent →
      (∃ (w' : Writer) (e' : Run.Env) (rd' L' sent' : Bytes),
          handlerPoll fuel r { ops := .writeAll 0 data :: rest, sub := sub, writers := [some w], propagate := pr } e =
            (r, { ops := .writeAll 0 data :: rest, sub := .writeRest rd', writers := [some w'], propagate := pr },
              e', .pending) ∧
          rd' ≠ [] ∧ e'.tr.wlog = L' ++ sent' ∧
          L' ++ streamRecords 6 id rd' = L ++ streamRecords 6 id (restOf sub data) ∧
          WSt id w' e'.mutex rd' sent' ∧ rd'.length ≤ (restOf sub data).length ∧
          TStep e.tr e'.tr ∧ e'.tr.input = e.tr.input ∧ e'.segs = e.segs ∧
          e'.tr.woken = true ∧ ans e'.tr < ans e.tr) ∨
      (∃ (w' : Writer) (e' : Run.Env) (fuel' : Nat),
          handlerPoll fuel r { ops := .writeAll 0 data :: rest, sub := sub, writers := [some w], propagate := pr } e =
            handlerPoll fuel' r { ops := rest, sub := .fresh, writers := [some w'], propagate := pr } (e'.ev "W=ok") ∧
          fuel ≤ fuel' + wcost (restOf sub data).length ∧
          e'.tr.wlog = L ++ streamRecords 6 id (restOf sub data) ∧
          w'.rtype = 6 ∧ w'.lock = .none ∧ e'.mutex = none ∧
          TStep e.tr e'.tr ∧ e'.tr.input = e.tr.input ∧ e'.segs = e.segs) := by
  intro N
  induction N with
  | zero =>
    intro fuel sub w e L sent hN hf hb hs hl
    have hrd : restOf sub data = [] := List.length_eq_zero_iff.1 (by omega)
    obtain ⟨f, rfl⟩ : ∃ f, fuel = f + 1 := ⟨fuel - 1, by unfold wcost at hf; omega⟩
    right
    rw [hp_writeAll f r 0 data rest sub [some w] w rfl pr e]
    simp only [hrd, List.isEmpty_nil, if_true]
    obtain ⟨hty, hid, hst | ⟨hinv, _, _⟩⟩ := hs
    · obtain ⟨a1, a2, a3, a4⟩ := hst
      subst a4
      refine ⟨w, e, f, rfl, by unfold wcost; simp, by simpa [streamRecords_nil] using hl, hty, a1, a3,
        .refl _, rfl, rfl⟩
    · have := hinv.loop.pos
      rw [hrd] at this
      simp at this
  | succ N ih =>
    intro fuel sub w e L sent hN hf hb hs hl
    by_cases hrd : restOf sub data = []
    · exact ih fuel sub w e L sent (by rw [hrd]; simp) hf hb hs hl
    · obtain ⟨f, rfl⟩ : ∃ f, fuel = f + 1 := ⟨fuel - 1, by unfold wcost at hf; omega⟩
      have hpos : 0 < (restOf sub data).length := List.length_pos_iff.mpr hrd
      rw [hp_writeAll f r 0 data rest sub [some w] w rfl pr e]
      have hemp : (restOf sub data).isEmpty = false := by simpa using hrd
      simp only [hemp, Bool.false_eq_true, if_false]
      rcases hpw : w.pollWrite 0 (restOf sub data) e.mutex e.tr with ⟨w1, m1, t1, res⟩
      obtain ⟨s1, s2, s3⟩ := pw_step hs hrd hb hl hpw
      cases res with
      | pending =>
        left
        obtain ⟨sent', b1, b2, b3, b4⟩ := s3
        exact ⟨w1, { e with mutex := m1, tr := t1 }, restOf sub data, L, sent', rfl, hrd, b1, rfl, b2,
          Nat.le_refl _, s1, s2, rfl, b3, b4⟩
      | err x => exact s3.elim
      | panic s => exact s3.elim
      | ready n =>
        obtain ⟨c1, c2, c3⟩ := s3
        have hn : n ≠ 0 := by omega
        obtain ⟨n', rfl⟩ : ∃ n', n = n' + 1 := ⟨n - 1, by omega⟩
        simp only [List.set_cons_zero]
        have hdrop : (restOf sub data).drop (n' + 1) = (restOf sub data).drop 65535 := by
          rw [c1, drop_min_len]
        rw [hdrop]
        have hlen' : ((restOf sub data).drop 65535).length ≤ N := by
          simp only [List.length_drop]; omega
        have hcost : wcost ((restOf sub data).drop 65535).length ≤ f := by
          unfold wcost at hf ⊢
          simp only [List.length_drop]
          omega
        have hrec := streamRecords_cons 6 id hrd
        rcases ih f (.writeRest ((restOf sub data).drop 65535)) w1 { e with mutex := m1, tr := t1 }
            (L ++ recordOf 6 id ((restOf sub data).take 65535)) [] hlen' hcost (hb.step s1) c3
            (by simpa using c2) with
          ⟨w2, e2, rd2, L2, sent2, d1, d2, d3, d4, d5, d6, d7, d8, d9, d10, d11⟩ |
          ⟨w2, e2, f2, d1, d2, d3, d4, d5, d6, d7, d8, d9⟩
        · left
          refine ⟨w2, e2, rd2, L2, sent2, d1, d2, d3, ?_, d5, ?_, s1.trans d7, d8.trans s2, d9, d10, ?_⟩
          · rw [d4, hrec, List.append_assoc]; rfl
          · have d6' : rd2.length ≤ ((restOf sub data).drop 65535).length := d6
            simp only [List.length_drop] at d6'; omega
          · have := s1.ans_le
            have d11' : ans e2.tr < ans t1 := d11
            omega
        · right
          refine ⟨w2, e2, f2, d1, ?_, ?_, d4, d5, d6, s1.trans d7, d8.trans s2, d9⟩
          · have d2' : f ≤ f2 + wcost ((restOf sub data).drop 65535).length := d2
            unfold wcost at d2' ⊢
            simp only [List.length_drop] at d2'
            omega
          · rw [d3, hrec, List.append_assoc]; rfl

/-! ## `readAll` -/

/-- What `handlerPoll` does for `readAll` on a quiet stream: it suspends on a transient `Pending` of
the transport with the bytes read so far in its accumulator, or completes with exactly the rest of
the stream content appended, the parser standing at the end mark.

Fuel: a `read` into the 64-byte buffer returns 64 bytes, or leaves the parser drained (then the next
one must first get at least one byte from the transport), or reaches the end of the stream; so the
number of `read`s in one poll is at most `2·⌊|remC|/64⌋ + 2·|input| + d + 1` (`d = 0` if the
parser is known to be drained). -/
theorem readAll_run {K : RCtx} (rest : List HOp) (ws : List (Option Writer)) (pr : Bool) :
    ∀ (N fuel : Nat) (r : AReq) (sub : HSub) (e : Run.Env) (remC : Bytes) (d : Nat),
      2 * (remC.length / 64) + 2 * e.tr.input.length + d < N → N + 1 ≤ fuel →
      (d = 0 → Drained r.sp ∨ remC = []) → Ben e.tr → RInv K r e.tr.input remC →
      (∃ (r' : AReq) (acc' : Bytes) (e' : Run.Env) (remC' : Bytes),
          handlerPoll fuel r { ops := .readAll :: rest, sub := sub, writers := ws, propagate := pr } e =
            (r', { ops := .readAll :: rest, sub := .readAllAcc acc', writers := ws, propagate := pr }, e', .pending) ∧
          acc' ++ remC' = accOf sub ++ remC ∧ RInv K r' e'.tr.input remC' ∧
          e'.mutex = e.mutex ∧ e'.segs = e.segs ∧ TStep e.tr e'.tr ∧ e'.tr.wlog = e.tr.wlog ∧
          e'.tr.woken = true ∧ ans e'.tr < ans e.tr) ∨
      (∃ (r' : AReq) (e' : Run.Env) (fuel' : Nat),
          handlerPoll fuel r { ops := .readAll :: rest, sub := sub, writers := ws, propagate := pr } e =
            handlerPoll fuel' r' { ops := rest, sub := .fresh, writers := ws, propagate := pr }
              (e'.ev (rEvent (accOf sub ++ remC))) ∧
          fuel ≤ fuel' + N ∧ RInv K r' e'.tr.input [] ∧
          r'.sp.pay = 0 ∧ r'.sp.pad = 0 ∧ r'.sp.raw ++ e'.tr.input = K.E.tail ∧
          e'.mutex = e.mutex ∧ e'.segs = e.segs ∧ TStep e.tr e'.tr ∧ e'.tr.wlog = e.tr.wlog) := by
  intro N
  induction N with
  | zero => intro fuel r sub e remC d hN; omega
  | succ N ih =>
    intro fuel r sub e remC d hN hf hd hb hi
    obtain ⟨f, rfl⟩ : ∃ f, fuel = f + 1 := ⟨fuel - 1, by omega⟩
    rw [hp_readAll]
    rcases hpi : r.pollInput (some 64) e.mutex e.tr with ⟨r1, m1, t1, res⟩
    obtain ⟨s1, s2, s3, s4, s5⟩ := pollInput_sim (by omega : 0 < 64) hb hi hpi
    subst s3
    cases res with
    | pending =>
      left
      exact ⟨r1, accOf sub, { e with mutex := e.mutex, tr := t1 }, remC, rfl, rfl, s4.1, rfl, rfl, s1, s2,
        s4.2.1, s4.2.2⟩
    | err x => exact s4.elim
    | panic x => exact s4.elim
    | ready k dd =>
      obtain ⟨hk, remC', hdd, hi', hor, hfull⟩ := s4
      cases k with
      | zero =>
        right
        have hd0 : dd = [] := List.length_eq_zero_iff.1 hk.symm
        subst hd0
        rcases hor with hor | ⟨a1, a2, a3, a4⟩
        · omega
        · simp only [List.nil_append] at hdd
          subst hdd
          subst a1
          refine ⟨r1, { e with mutex := e.mutex, tr := t1 }, f, ?_, by omega, hi', a2, a3, a4, rfl, rfl, s1, s2⟩
          simp only [List.append_nil]
      | succ k' =>
        simp only
        have hlenC := congrArg List.length hdd
        simp only [List.length_append] at hlenC
        have hinle := s1.tle.input_len
        -- the new drained flag and the decrease of the measure
        have hdec : ∃ d1, (d1 = 0 → Drained r1.sp ∨ remC' = []) ∧
            2 * (remC'.length / 64) + 2 * t1.input.length + d1 < N := by
          have hin' : d = 0 → t1.input.length < e.tr.input.length := by
            intro h0
            rcases hd h0 with hdr | hnil
            · exact s5 hdr _ _ rfl
            · have h00 : remC.length = 0 := by rw [hnil]; rfl
              omega
          rcases hfull with h64 | hdr | ⟨hnil, _⟩
          · refine ⟨1, fun h => by omega, ?_⟩
            by_cases h0 : d = 0
            · have := hin' h0; omega
            · omega
          · refine ⟨0, fun _ => Or.inl hdr, ?_⟩
            by_cases h0 : d = 0
            · have := hin' h0; omega
            · omega
          · refine ⟨0, fun _ => Or.inr hnil, ?_⟩
            by_cases h0 : d = 0
            · have := hin' h0; omega
            · omega
        obtain ⟨d1, hd1, hm1⟩ := hdec
        rcases ih f r1 (.readAllAcc (accOf sub ++ dd)) { e with mutex := e.mutex, tr := t1 } remC' d1 hm1
            (by omega) hd1 (hb.step s1) hi' with
          ⟨r2, acc2, e2, remC2, d1', d2, d3, d4, d5, d6, d7, d8, d9⟩ |
          ⟨r2, e2, f2, d1', d2, d3, d4, d5, d6, d7, d8, d9, d10⟩
        · left
          refine ⟨r2, acc2, e2, remC2, d1', ?_, d3, d4, d5, s1.trans d6, d7.trans s2, d8, ?_⟩
          · rw [d2]; simp only [accOf, List.append_assoc, hdd]
          · have := s1.ans_le
            have d9' : ans e2.tr < ans t1 := d9
            omega
        · right
          refine ⟨r2, e2, f2, ?_, by omega, d3, d4, d5, d6, d7, d8, s1.trans d9, d10.trans s2⟩
          rw [d1']; simp only [accOf, List.append_assoc, hdd]

/-! ## One poll of the canonical handler -/

/-- the canonical handler -/
def script (data : Bytes) (st : ExitStatus) : List HOp :=
  [.readAll, .open_ 6, .writeAll 0 data, .dropW 0, .ret st]

/-- … from its `write_all` on -/
def wscript (data : Bytes) (st : ExitStatus) : List HOp := [.writeAll 0 data, .dropW 0, .ret st]

theorem TStep.mem_events {t t' : Transport} (h : TStep t t') {s : String} (hs : s ∈ t.events) : s ∈ t'.events := by
  obtain ⟨n, hn, _⟩ := h.tle.ev
  rw [hn]; exact List.mem_append_left _ hs

/-- The request stands at the end mark of its (quiet) stream: everything was delivered, nothing is
queued, the terminating record is still unparsed. -/
structure REnd (K : RCtx) (r : AReq) (input : Bytes) : Prop where
  inv : RInv K r input []
  pay : r.sp.pay = 0
  pad : r.sp.pad = 0
  wire : r.sp.raw ++ input = K.E.tail

/-- handler suspended in (or about to start) `readAll` -/
structure HRead (K : RCtx) (content data : Bytes) (st : ExitStatus) (L1 : Bytes)
    (r : AReq) (h : HState) (e : Run.Env) : Prop where
  ops : h.ops = script data st
  ws : h.writers = []
  pr : h.propagate = true
  rem : ∃ remC, accOf h.sub ++ remC = content ∧ RInv K r e.tr.input remC
  mtx : e.mutex = none
  log : e.tr.wlog = L1

/-- handler suspended in (or about to start) `writeAll` -/
structure HWrite (K : RCtx) (content data : Bytes) (st : ExitStatus) (L1 : Bytes)
    (r : AReq) (h : HState) (e : Run.Env) : Prop where
  ops : h.ops = wscript data st
  pr : h.propagate = true
  wr : ∃ w L sent, h.writers = [some w] ∧ WSt K.E.id w e.mutex (restOf h.sub data) sent ∧
      e.tr.wlog = L ++ sent ∧
      L ++ streamRecords 6 K.E.id (restOf h.sub data) = L1 ++ streamRecords 6 K.E.id data
  len : (restOf h.sub data).length ≤ data.length
  fin : REnd K r e.tr.input
  ev : rEvent content ∈ e.tr.events

/-- the handler returned `Ok(st)` -/
structure HDone (K : RCtx) (content data : Bytes) (L1 : Bytes)
    (r : AReq) (h : HState) (e : Run.Env) : Prop where
  ws : h.writers = [none]
  mtx : e.mutex = none
  log : e.tr.wlog = L1 ++ streamRecords 6 K.E.id data
  fin : REnd K r e.tr.input
  ev : rEvent content ∈ e.tr.events

/-- Result of one poll of the handler. -/
def HOut (K : RCtx) (content data : Bytes) (st : ExitStatus) (L1 : Bytes) (e : Run.Env)
    (out : AReq × HState × Run.Env × HRes) : Prop :=
  TStep e.tr out.2.2.1.tr ∧ out.2.2.1.segs = e.segs ∧
  ((out.2.2.2 = .pending ∧ out.2.2.1.tr.woken = true ∧ ans out.2.2.1.tr < ans e.tr ∧
      (HRead K content data st L1 out.1 out.2.1 out.2.2.1 ∨ HWrite K content data st L1 out.1 out.2.1 out.2.2.1)) ∨
   (out.2.2.2 = .done (.ok st) ∧ HDone K content data L1 out.1 out.2.1 out.2.2.1))

theorem REnd.step {K : RCtx} {r : AReq} {t t' : Transport} (h : REnd K r t.input)
    (hi : t'.input = t.input) : REnd K r t'.input := by rw [hi]; exact h

theorem write_phase {K : RCtx} {content data : Bytes} {st : ExitStatus} {L1 : Bytes}
    {r : AReq} {h : HState} {e : Run.Env} (hw : HWrite K content data st L1 r h e) (hb : Ben e.tr)
    {fuel : Nat} (hf : wcost data.length + 3 ≤ fuel) :
    HOut K content data st L1 e (handlerPoll fuel r h e) := by
  obtain ⟨ops, sub, ws, pr⟩ := h
  obtain ⟨hops, hpr, ⟨w, L, sent, hws, hst, hlog, hL⟩, hlen, hfin, hev⟩ := hw
  simp only at hops hpr hws hst hL hlen
  subst hops hpr hws
  have hfu : wcost (restOf sub data).length + 3 ≤ fuel := by
    unfold wcost at hf ⊢
    omega
  · rcases writeAll_run (id := K.E.id) r data [.dropW 0, .ret st] true (restOf sub data).length fuel sub w e L sent
        (Nat.le_refl _) (by omega) hb hst hlog with
      ⟨w', e', rd', L', sent', d1, d2, d3, d4, d5, d6, d7, d8, d9, d10, d11⟩ |
      ⟨w', e', f', d1, d2, d3, d4, d5, d6, d7, d8, d9⟩
    · show HOut K content data st L1 e (handlerPoll fuel r
        { ops := wscript data st, sub := sub, writers := [some w], propagate := true } e)
      rw [show wscript data st = .writeAll 0 data :: [.dropW 0, .ret st] from rfl, d1]
      refine ⟨d7, d9, Or.inl ⟨rfl, d10, d11, Or.inr ⟨rfl, rfl, ⟨w', L', sent', rfl, d5, d3, ?_⟩, ?_, ?_, d7.mem_events hev⟩⟩⟩
      · show L' ++ streamRecords 6 K.E.id rd' = _
        rw [d4, hL]
      · show rd'.length ≤ data.length
        omega
      · exact hfin.step d8
    · show HOut K content data st L1 e (handlerPoll fuel r
        { ops := wscript data st, sub := sub, writers := [some w], propagate := true } e)
      rw [show wscript data st = .writeAll 0 data :: [.dropW 0, .ret st] from rfl, d1]
      obtain ⟨f2, rfl⟩ : ∃ f2, f' = f2 + 2 := ⟨f' - 2, by omega⟩
      rw [hp_dropW]
      simp only [List.getD_cons_zero, List.set_cons_zero]
      rw [hp_ret]
      have hs2 : TStep e.tr (e'.tr.ev "W=ok") := d7.trans (TStep.ev _ (by decide))
      refine ⟨hs2, d9, Or.inr ⟨rfl, ⟨rfl, ?_, ?_, ?_, hs2.mem_events hev⟩⟩⟩
      · show lockDrop w'.lock (e'.ev "W=ok").mutex = none
        rw [d5]; exact d6
      · show (e'.tr.ev "W=ok").wlog = _
        rw [Transport.ev_wlog, d3, hL]
      · exact hfin.step d8

theorem read_phase {K : RCtx} {content data : Bytes} {st : ExitStatus} {L1 : Bytes}
    {r : AReq} {h : HState} {e : Run.Env} (hr : HRead K content data st L1 r h e) (hb : Ben e.tr)
    {fuel : Nat} (hf : K.cap / 32 + 3 * e.tr.input.length + wcost data.length + 12 ≤ fuel) :
    HOut K content data st L1 e (handlerPoll fuel r h e) := by
  obtain ⟨ops, sub, ws, pr⟩ := h
  obtain ⟨hops, hws, hpr, ⟨remC, hacc, hi⟩, hm, hlog⟩ := hr
  simp only at hops hpr hws hacc
  subst hops hpr hws
  have hrl := hi.remC_le
  show HOut K content data st L1 e (handlerPoll fuel r
    { ops := .readAll :: [.open_ 6, .writeAll 0 data, .dropW 0, .ret st], sub := sub, writers := [],
      propagate := true } e)
  rcases readAll_run (K := K) [.open_ 6, .writeAll 0 data, .dropW 0, .ret st] [] true
      (2 * (remC.length / 64) + 2 * e.tr.input.length + 2) fuel r sub e
      remC 1 (by omega) (by omega) (fun h => by omega) hb hi with
    ⟨r', acc', e', remC', d1, d2, d3, d4, d5, d6, d7, d8, d9⟩ |
    ⟨r', e', f', d1, d2, d3, d4, d5, d6, d7, d8, d9, d10⟩
  · rw [d1]
    exact ⟨d6, d5, Or.inl ⟨rfl, d8, d9, Or.inl ⟨rfl, rfl, rfl, ⟨remC', d2.trans hacc, d3⟩,
      d4.trans hm, d7.trans hlog⟩⟩⟩
  · rw [d1, hacc]
    obtain ⟨f2, rfl⟩ : ∃ f2, f' = f2 + 1 := ⟨f' - 1, by omega⟩
    rw [hp_open]
    have hwr : r'.writeable = true := d3.wr
    rw [if_neg (by simp [hwr, outputStreams, RT.stdout, RT.stderr])]
    have hstr : (s!"o=w{([] : List (Option Writer)).length}" : String) = "o=w0" := by decide
    rw [hstr]
    show HOut K content data st L1 e (handlerPoll f2 r'
        { ops := wscript data st, sub := .fresh,
          writers := [] ++ [some { rtype := 6, id := r'.sp.request.id }], propagate := true }
        ((e'.ev (rEvent content)).ev "o=w0"))
    have hs1 : TStep e.tr ((e'.ev (rEvent content)).ev "o=w0").tr :=
      (d9.trans (TStep.ev _ (isHS_rEvent _))).trans (TStep.ev _ (by decide))
    have hid' : r'.sp.request.id = K.E.id := d3.sim.id
    have hw : HWrite K content data st L1 r'
        { ops := wscript data st, sub := .fresh,
          writers := [] ++ [some { rtype := 6, id := r'.sp.request.id }], propagate := true }
        ((e'.ev (rEvent content)).ev "o=w0") := by
      refine ⟨rfl, rfl, ⟨{ rtype := 6, id := r'.sp.request.id }, L1, [], rfl,
        ⟨rfl, hid', Or.inl ⟨rfl, rfl, ?_, rfl⟩⟩, ?_, rfl⟩, Nat.le_refl _, ⟨d3, d4, d5, d6⟩, ?_⟩
      · show e'.mutex = none
        rw [d7]; exact hm
      · show e'.tr.wlog = L1 ++ []
        rw [d10, hlog, List.append_nil]
      · show rEvent content ∈ (e'.tr.events ++ [rEvent content]) ++ ["o=w0"]
        simp
    have hb2 : Ben ((e'.ev (rEvent content)).ev "o=w0").tr := hb.step hs1
    obtain ⟨q1, q2, q3⟩ := write_phase hw hb2 (fuel := f2) (by omega)
    refine ⟨hs1.trans q1, q2.trans d8, ?_⟩
    rcases q3 with ⟨a1, a2, a3, a4⟩ | a
    · exact Or.inl ⟨a1, a2, by have := hs1.ans_le; omega, a4⟩
    · exact Or.inr a

end Fcgi.E2E
