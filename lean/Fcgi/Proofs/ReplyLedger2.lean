import Fcgi.Proofs.ReplyLedger
import Fcgi.Proofs.AsyncWriter
/-!
# The stream parser's ledger as an invariant of the handler phase

`HI`: the invariant carried through `handlerPoll` for ARBITRARY scripts of the handler DSL: `AInv`,
`LockInv`, the mutex consistency of every writer (`Consistent (i+1)`, as `C10.OwnInv`), and the ledger
`GLed` from the stream parser `sp0` the handler was started with; for scripts without
`set_stream` / `writeable()` (`Plain`) additionally `LegalAll` and `NoSet`, which is what the reference
theorem `C08R.handler_read_ledger` needs.
-/
namespace Fcgi.C08R
open Fcgi Fcgi.Req Fcgi.Str Fcgi.Async Fcgi.Run

/-! ## Mutex frames -/

/-- the step left the mutex alone, or only party `o` touched it -/
def Fr (o : Nat) (m m' : MutexSt) : Prop := m' = m ∨ Touched o m m'

theorem Fr.refl (o : Nat) (m : MutexSt) : Fr o m m := Or.inl rfl

theorem Fr.trans {o : Nat} {a b c : MutexSt} (h1 : Fr o a b) (h2 : Fr o b c) : Fr o a c := by
  rcases h1 with rfl | h1
  · exact h2
  · rcases h2 with rfl | h2
    · exact Or.inr h1
    · exact Or.inr ⟨h1.1, h2.2⟩

/-- another party's consistency is not affected -/
theorem Fr.other {o o' : Nat} {m m' : MutexSt} {l : LockSt} (h : Fr o m m') (hne : o' ≠ o)
    (hc : Consistent o' l m) : Consistent o' l m' := by
  rcases h with rfl | ⟨h1, h2⟩
  · exact hc
  · unfold Consistent at *
    constructor
    · intro hl
      have := hc.mp hl
      rcases h1 with h1 | h1 <;> rw [h1] at this <;> cases this
      exact absurd rfl hne
    · intro hm
      rcases h2 with h2 | h2 <;> rw [h2] at hm <;> cases hm
      exact absurd rfl hne

theorem Fr.bound {o : Nat} {m m' : MutexSt} (h : Fr o m m') {n : Nat}
    (hb : ∀ j, m = some (j + 1) → j < n) (ho : ∀ j, o = j + 1 → j < n) :
    ∀ j, m' = some (j + 1) → j < n := by
  intro j hj
  rcases h with rfl | ⟨_, h2⟩
  · exact hb j hj
  · rcases h2 with h2 | h2 <;> rw [h2] at hj <;> cases hj
    exact ho j rfl

/-- `poll_output` only lets party 0 touch the mutex -/
theorem pollOutput_fr {r : AReq} {m : MutexSt} {t : Transport} {r' : AReq} {m' : MutexSt} {t' : Transport}
    {o : ORes} (hc : Consistent 0 r.lock m) (h : r.pollOutput m t = (r', m', t', o)) :
    Fr 0 m m' ∧ Consistent 0 r'.lock m' :=
  let ⟨⟨h1, h2, _⟩, _⟩ := pollOutput_own r m t hc h
  ⟨h2, h1⟩

theorem inLoop_fr : ∀ (fuel : Nat) (r : AReq) (new : Bytes) (dest : Option Nat) (m : MutexSt) (t : Transport)
    {r' : AReq} {m' : MutexSt} {t' : Transport} {res : IRes}, Consistent 0 r.lock m →
    inLoop fuel r new dest m t = (r', m', t', res) → Fr 0 m m' := by
  intro fuel
  induction fuel with
  | zero => intro r new dest m t r' m' t' res _ h; simp only [inLoop] at h; cases h; exact Fr.refl _ _
  | succ n ih =>
    intro r new dest m t r' m' t' res hc h
    simp only [inLoop] at h
    split at h
    · cases h; exact Fr.refl _ _
    · cases h; exact Fr.refl _ _
    · split at h
      · cases h; exact Fr.refl _ _
      · rename_i sp st _ _
        rcases hpo : AReq.pollOutput { sp := sp.compress, lock := r.lock, writeable := r.writeable } m t with
          ⟨r1, m1, t1, o⟩
        have hfr := pollOutput_fr (r := { sp := sp.compress, lock := r.lock, writeable := r.writeable }) hc hpo
        simp only [hpo] at h
        cases o with
        | pending => cases h; exact hfr.1
        | err e => cases h; exact hfr.1
        | panic s => cases h; exact hfr.1
        | ready =>
          simp only at h
          split at h
          · cases h; exact hfr.1
          · cases h; exact hfr.1
          · cases h; exact hfr.1
          · exact hfr.1.trans (ih _ _ _ _ _ hfr.2 h)

theorem pollInput_fr {r : AReq} {dest : Option Nat} {m : MutexSt} {t : Transport} {r' : AReq} {m' : MutexSt}
    {t' : Transport} {res : IRes} (hc : Consistent 0 r.lock m)
    (h : r.pollInput dest m t = (r', m', t', res)) : Fr 0 m m' := by
  simp only [AReq.pollInput] at h
  split at h
  · cases h; exact Fr.refl _ _
  · cases h; exact Fr.refl _ _
  · cases h; exact Fr.refl _ _
  · rcases hpo : r.pollOutput m t with ⟨r1, m1, t1, o⟩
    have hfr := pollOutput_fr hc hpo
    simp only [hpo] at h
    cases o with
    | pending => cases h; exact hfr.1
    | err e => cases h; exact hfr.1
    | panic s => cases h; exact hfr.1
    | ready => exact hfr.1.trans (inLoop_fr _ _ _ _ _ _ hfr.2 h)

/-! ## The invariant of the handler phase -/

/-- ops of the handler DSL that do not select a stream (`writeable()` selects the role's last one) -/
def plainOp : HOp → Bool
  | .setStream _ | .writeable => false
  | _ => true

def Plain (script : List HOp) : Prop := ∀ op ∈ script, plainOp op = true

structure HI (sp0 : Str.Parser) (wl0 : Bytes) (script0 : List HOp) (r : AReq) (ws : List (Option Writer))
    (e : Run.Env) : Prop where
  ainv : AInv r
  linv : LockInv r e.mutex
  wcons : ∀ i w, ws[i]? = some (some w) → Consistent (i + 1) w.lock e.mutex
  bound : ∀ j, e.mutex = some (j + 1) → j < ws.length
  led : ∃ ops, GLed sp0 ops r.sp wl0 e.tr.wlog ∧ (Plain script0 → LegalAll sp0 ops ∧ NoSet ops)

variable {sp0 : Str.Parser} {wl0 : Bytes} {script0 : List HOp}

theorem HI.ev {r : AReq} {ws : List (Option Writer)} {e : Run.Env} (h : HI sp0 wl0 script0 r ws e) (s : String) :
    HI sp0 wl0 script0 r ws (e.ev s) :=
  ⟨h.ainv, h.linv, h.wcons, h.bound, h.led⟩

/-- a step of the request itself (`poll_input`) -/
theorem HI.pollInput {r : AReq} {ws : List (Option Writer)} {e : Run.Env} (h : HI sp0 wl0 script0 r ws e)
    {dest : Option Nat} {r' : AReq} {m' : MutexSt} {t' : Transport} {res : IRes}
    (hp : r.pollInput dest e.mutex e.tr = (r', m', t', res)) :
    HI sp0 wl0 script0 r' ws { e with mutex := m', tr := t' } := by
  obtain ⟨⟨ops', htr, _, _⟩, hpo, _⟩ := pollInput_spec h.ainv h.linv hp
  obtain ⟨hsi, hcap, _, _⟩ := htr.inv h.ainv.1
  have hfr := pollInput_fr h.linv.1 hp
  obtain ⟨ops, hg, hpl⟩ := h.led
  refine ⟨⟨hsi, by rw [hcap]; exact h.ainv.2⟩, hpo.linv,
    fun i w hw => hfr.other (Nat.succ_ne_zero i) (h.wcons i w hw),
    hfr.bound h.bound (fun j hj => by cases hj), ops ++ ops', hg.tr htr, fun hP => ?_⟩
  obtain ⟨hl, hns⟩ := hpl hP
  refine ⟨Async.legalAll_append.2 ⟨hl, by rw [← hg.sp_eq]; exact htr.legal⟩, fun s hm => ?_⟩
  rcases List.mem_append.1 hm with hx | hx
  · exact hns s hx
  · exact htr.noset s hx

/-- an operation on the parser alone that sends nothing and keeps `SInv` and the reply buffer -/
theorem HI.quiet {r : AReq} {ws : List (Option Writer)} {e : Run.Env} (h : HI sp0 wl0 script0 r ws e)
    (op : Op) (hop : C03S.outSent r.sp op = []) (hsi : SInv (applyOp r.sp op))
    (hcap : (applyOp r.sp op).cap = r.sp.cap) (hout : (applyOp r.sp op).output = r.sp.output)
    (hpl : Plain script0 → Legal r.sp op ∧ ∀ s, op ≠ .setStream s) :
    HI sp0 wl0 script0 { r with sp := applyOp r.sp op } ws e := by
  obtain ⟨ops, hg, hp⟩ := h.led
  refine ⟨⟨hsi, by show 24 ≤ (applyOp r.sp op).cap; rw [hcap]; exact h.ainv.2⟩,
    lockInv_sp h.linv (fun hx => by rw [← hout]; exact hx), h.wcons, h.bound,
    ops ++ [op], hg.quiet op hop, fun hP => ?_⟩
  obtain ⟨hl, hns⟩ := hp hP
  obtain ⟨h1, h2⟩ := hpl hP
  refine ⟨Async.legalAll_append.2 ⟨hl, by rw [← hg.sp_eq]; exact ⟨h1, trivial⟩⟩, fun s hm => ?_⟩
  rcases List.mem_append.1 hm with hx | hx
  · exact hns s hx
  · exact h2 s (List.mem_singleton.1 hx).symm

/-- a step of writer `i` (`poll_write` / `poll_flush`): `OwnPost (i+1)` -/
theorem HI.writer {r : AReq} {ws : List (Option Writer)} {e : Run.Env} (h : HI sp0 wl0 script0 r ws e)
    {i : Nat} {w w' : Writer} (hw : ws[i]? = some (some w)) {m' : MutexSt} {t' : Transport} {done : Prop}
    (hown : OwnPost (i + 1) e.mutex e.tr w'.lock m' t' done) :
    HI sp0 wl0 script0 r (ws.set i (some w')) { e with mutex := m', tr := t' } := by
  obtain ⟨hc, hfr, delta, hd, _⟩ := hown
  have hfr' : Fr (i + 1) e.mutex m' := hfr
  have hil : i < ws.length := by
    rcases Nat.lt_or_ge i ws.length with hx | hx
    · exact hx
    · rw [List.getElem?_eq_none hx] at hw; cases hw
  obtain ⟨ops, hg, hp⟩ := h.led
  refine ⟨h.ainv, ⟨(hfr'.other (Nat.succ_ne_zero i).symm h.linv.1 : Consistent 0 r.lock m'), h.linv.2⟩, ?_, ?_,
    ops, ?_, hp⟩
  · intro j x hj
    rw [List.getElem?_set] at hj
    split at hj
    · rename_i hij
      subst hij
      first
        | (cases hj; exact hc)
        | (split at hj
           · cases hj; exact hc
           · cases hj)
    · rename_i hij
      exact hfr'.other (fun hx => hij (by omega)) (h.wcons j x hj)
  · rw [List.length_set]
    exact hfr'.bound h.bound (fun j hj => by cases hj; exact hil)
  · show GLed sp0 ops r.sp wl0 t'.wlog
    rw [hd]; exact hg.other delta

theorem HI.consume {r : AReq} {ws : List (Option Writer)} {e : Run.Env} (h : HI sp0 wl0 script0 r ws e) (k : Nat) :
    HI sp0 wl0 script0 { r with sp := r.sp.consumeStream k } ws e := by
  have hs := (trace_safe h.ainv.1 (ops := [.consumeStream k]) ⟨trivial, trivial⟩).1
  have hf := C05.applyOps_frame [.consumeStream k] r.sp
  exact h.quiet (.consumeStream k) rfl hs hf.1 rfl (fun _ => ⟨trivial, fun s hx => by cases hx⟩)

theorem HI.setStream {r : AReq} {ws : List (Option Writer)} {e : Run.Env} (h : HI sp0 wl0 script0 r ws e)
    {st : Option Nat} {sp' : Str.Parser} (hs : r.sp.setStream st = .ok sp') (hnp : ¬ Plain script0) :
    HI sp0 wl0 script0 { r with sp := sp' } ws e := by
  have ha : applyOp r.sp (.setStream st) = sp' := by simp [applyOp, hs]
  obtain ⟨_, h2, h3, _, _, _⟩ := setStream_ok_frame hs
  have := h.quiet (.setStream st) rfl (by rw [ha]; exact SInv_setStream h.ainv.1 hs) (by rw [ha]; exact h3)
    (by rw [ha]; exact h2) (fun hP => absurd hP hnp)
  rwa [ha] at this

theorem HI.open_ {r : AReq} {ws : List (Option Writer)} {e : Run.Env} (h : HI sp0 wl0 script0 r ws e)
    (w : Writer) (hw : w.lock = .none) : HI sp0 wl0 script0 r (ws ++ [some w]) e := by
  refine ⟨h.ainv, h.linv, fun i x hx => ?_, fun j hj => ?_, h.led⟩
  · rcases Nat.lt_or_ge i ws.length with hi | hi
    · rw [List.getElem?_append_left hi] at hx; exact h.wcons i x hx
    · rw [List.getElem?_append_right hi] at hx
      have hi0 : i - ws.length = 0 := by
        rcases Nat.eq_zero_or_pos (i - ws.length) with h0 | h0
        · exact h0
        · rw [List.getElem?_eq_none (by simp; omega)] at hx; cases hx
      rw [hi0] at hx
      simp only [List.getElem?_cons_zero, Option.some.injEq] at hx
      subst hx
      unfold Consistent
      rw [hw]
      constructor
      · intro hx; cases hx
      · intro hm
        have := h.bound i hm
        omega
  · have := h.bound j hj
    rw [List.length_append]; omega

theorem HI.dropW {r : AReq} {ws : List (Option Writer)} {e : Run.Env} (h : HI sp0 wl0 script0 r ws e)
    {i : Nat} {w : Writer} (hw : ws[i]? = some (some w)) :
    HI sp0 wl0 script0 r (ws.set i none) { e with mutex := lockDrop w.lock e.mutex } := by
  have hc := h.wcons i w hw
  have hfr : Fr (i + 1) e.mutex (lockDrop w.lock e.mutex) := by
    unfold lockDrop
    cases hl : w.lock with
    | held =>
      have := hc.mp hl
      exact Or.inr ⟨Or.inr this, Or.inl rfl⟩
    | none => exact Or.inl rfl
    | polling => exact Or.inl rfl
  have hil : i < ws.length := by
    rcases Nat.lt_or_ge i ws.length with hx | hx
    · exact hx
    · rw [List.getElem?_eq_none hx] at hw; cases hw
  refine ⟨h.ainv, ⟨hfr.other (Nat.succ_ne_zero i).symm h.linv.1, h.linv.2⟩, ?_, ?_, h.led⟩
  · intro j x hj
    rw [List.getElem?_set] at hj
    split at hj
    · first
        | cases hj
        | (split at hj <;> cases hj)
    · rename_i hij
      exact hfr.other (fun hx => hij (by omega)) (h.wcons j x hj)
  · rw [List.length_set]
    exact hfr.bound h.bound (fun j hj => by cases hj; exact hil)

/-- `writeable()`: possibly `set_stream(last)`, then `poll_input(None)` -/
theorem HI.writeablePoll {r : AReq} {ws : List (Option Writer)} {e : Run.Env} (h : HI sp0 wl0 script0 r ws e)
    (hnp : ¬ Plain script0) {started : Bool} {r' : AReq} {b : Bool} {m' : MutexSt} {t' : Transport} {res : ORes}
    (hp : r.writeablePoll started e.mutex e.tr = (r', b, m', t', res)) :
    HI sp0 wl0 script0 r' ws { e with mutex := m', tr := t' } := by
  have key : ∀ r1 : AReq, HI sp0 wl0 script0 r1 ws e →
      (match r1.pollInput none e.mutex e.tr with
        | (r, m, t, .ready _ _) => (r, true, m, t, ORes.ready)
        | (r, m, t, .pending) => (r, true, m, t, .pending)
        | (r, m, t, .err e) => (r, true, m, t, .err e)
        | (r, m, t, .panic s) => (r, true, m, t, .panic s)) = (r', b, m', t', res) →
      HI sp0 wl0 script0 r' ws { e with mutex := m', tr := t' } := by
    intro r1 h1 hq
    rcases hpi : r1.pollInput none e.mutex e.tr with ⟨r2, m2, t2, x⟩
    have := h1.pollInput hpi
    rw [hpi] at hq
    cases x <;> (simp only at hq; cases hq; exact this)
  unfold AReq.writeablePoll at hp
  by_cases h0 : (!started && r.writeable) = true
  · rw [if_pos h0] at hp; cases hp; exact h
  · rw [if_neg h0] at hp
    cases started with
    | true => exact key r h hp
    | false =>
      simp only [Bool.false_eq_true, if_false] at hp
      cases hs : r.sp.setStream (inputStreams r.sp.request.role).getLast? with
      | ok sp' => simp only [hs] at hp; exact key _ (h.setStream hs hnp) hp
      | rejected => simp only [hs] at hp; cases hp; exact h
      | panic s => simp only [hs] at hp; cases hp; exact h

theorem getD_some {ws : List (Option Writer)} {i : Nat} {w : Writer} (h : ws.getD i none = some w) :
    ws[i]? = some (some w) := by
  rw [List.getD_eq_getElem?_getD] at h
  cases hx : ws[i]? with
  | none => rw [hx] at h; cases h
  | some y => rw [hx] at h; simp only [Option.getD_some] at h; rw [h]

/-- what `handlerPoll_hi` says about a result -/
def HPost (sp0 : Str.Parser) (wl0 : Bytes) (script0 : List HOp) (x : AReq × HState × Run.Env × HRes) : Prop :=
  HI sp0 wl0 script0 x.1 x.2.1.writers x.2.2.1 ∧ x.2.1.ops <:+ script0

/-- **`HI` is an invariant of `handlerPoll`**, for every script of the handler DSL. -/
theorem handlerPoll_hi : ∀ (fuel : Nat) (r : AReq) (h : HState) (e : Run.Env),
    HI sp0 wl0 script0 r h.writers e → h.ops <:+ script0 →
    HPost sp0 wl0 script0 (handlerPoll fuel r h e) := by
  intro fuel
  induction fuel with
  | zero => intro r h e hi hs; exact ⟨hi, hs⟩
  | succ n ih =>
    intro r h e hi hsuf
    rcases hops : h.ops with _ | ⟨op, rest⟩
    · simp only [handlerPoll, hops]; exact ⟨hi, hsuf⟩
    · have hsuf' : rest <:+ script0 := by
        rw [hops] at hsuf; exact (List.suffix_cons op rest).trans hsuf
      have hmem : op ∈ script0 := by
        rw [hops] at hsuf; exact hsuf.subset List.mem_cons_self
      have NEXT : ∀ (r1 : AReq) (h1 : HState) (e1 : Run.Env), HI sp0 wl0 script0 r1 h1.writers e1 →
          HPost sp0 wl0 script0 (handlerPoll n r1 { h1 with ops := rest, sub := .fresh } e1) :=
        fun r1 h1 e1 h1i => ih r1 _ e1 h1i hsuf'
      have FAIL : ∀ (r1 : AReq) (h1 : HState) (e1 : Run.Env) (err : IoErr), HI sp0 wl0 script0 r1 h1.writers e1 →
          HPost sp0 wl0 script0 (if h1.propagate then
            (r1, { h1 with ops := rest, sub := .fresh }, e1, .done (.error err))
            else handlerPoll n r1 { h1 with ops := rest, sub := .fresh } e1) := by
        intro r1 h1 e1 err h1i
        split
        · exact ⟨h1i, hsuf'⟩
        · exact NEXT r1 h1 e1 h1i
      have hsufc : (op :: rest) <:+ script0 := by rw [hops] at hsuf; exact hsuf
      have HERE : ∀ (r1 : AReq) (h1 : HState) (e1 : Run.Env) (res : HRes), HI sp0 wl0 script0 r1 h1.writers e1 →
          h1.ops <:+ script0 → HPost sp0 wl0 script0 (r1, h1, e1, res) :=
        fun r1 h1 e1 res h1i ho => ⟨h1i, ho⟩
      cases op with
      | ret st => simp only [handlerPoll, hops]; exact HERE _ _ _ _ hi (by first | exact hsuf | exact hsufc)
      | retErr err => simp only [handlerPoll, hops]; exact HERE _ _ _ _ hi (by first | exact hsuf | exact hsufc)
      | read k =>
        simp only [handlerPoll, hops]
        rcases hpi : r.pollInput (some k) e.mutex e.tr with ⟨r1, m1, t1, res⟩
        have h1 := hi.pollInput hpi
        cases res with
        | pending => exact HERE _ _ _ _ h1 (by first | exact hsuf | exact hsufc)
        | ready a d => exact NEXT _ h _ (h1.ev _)
        | err x => exact FAIL _ h _ _ (h1.ev _)
        | panic s => exact HERE _ _ _ _ h1 (by first | exact hsuf | exact hsufc)
      | readAll =>
        simp only [handlerPoll, hops]
        rcases hpi : r.pollInput (some 64) e.mutex e.tr with ⟨r1, m1, t1, res⟩
        have h1 := hi.pollInput hpi
        cases res with
        | pending => exact HERE _ _ _ _ h1 (by first | exact hsuf | exact hsufc)
        | ready a d =>
          cases a with
          | zero => exact NEXT _ h _ (h1.ev _)
          | succ a' => exact ih _ _ _ h1 (by first | exact hsuf | exact hsufc)
        | err x => exact FAIL _ h _ _ (h1.ev _)
        | panic s => exact HERE _ _ _ _ h1 (by first | exact hsuf | exact hsufc)
      | fill =>
        simp only [handlerPoll, hops]
        rcases hpi : r.pollInput none e.mutex e.tr with ⟨r1, m1, t1, res⟩
        have h1 := hi.pollInput hpi
        cases res with
        | pending => exact HERE _ _ _ _ h1 (by first | exact hsuf | exact hsufc)
        | ready a d => exact NEXT _ h _ (h1.ev _)
        | err x => exact FAIL _ h _ _ (h1.ev _)
        | panic s => exact HERE _ _ _ _ h1 (by first | exact hsuf | exact hsufc)
      | consume k =>
        simp only [handlerPoll, hops]
        exact NEXT _ h _ (hi.consume k)
      | setStream t =>
        have hnp : ¬ Plain script0 := fun hP => by have := hP _ hmem; cases this
        simp only [handlerPoll, hops]
        cases hs : r.setStream t with
        | none => exact HERE _ _ _ _ hi (by first | exact hsuf | exact hsufc)
        | some r' =>
          obtain ⟨sp', hsp, rfl⟩ := (setStream_some_iff r t r').mp hs
          exact NEXT _ h _ ((hi.setStream hsp hnp).ev _)
      | writeable =>
        have hnp : ¬ Plain script0 := fun hP => by have := hP _ hmem; cases this
        simp only [handlerPoll, hops]
        rcases hwp : r.writeablePoll (h.sub == .writeableStarted) e.mutex e.tr with ⟨r1, b1, m1, t1, res⟩
        have h1 := hi.writeablePoll hnp hwp
        cases res with
        | pending => exact HERE _ _ _ _ h1 (by first | exact hsuf | exact hsufc)
        | ready => exact NEXT _ h _ (h1.ev _)
        | err x => exact FAIL _ h _ _ (h1.ev _)
        | panic s => exact HERE _ _ _ _ h1 (by first | exact hsuf | exact hsufc)
      | open_ t =>
        simp only [handlerPoll, hops]
        split
        · exact HERE _ _ _ _ hi (by first | exact hsuf | exact hsufc)
        · exact NEXT _ { h with writers := h.writers ++ [some { rtype := t, id := r.sp.request.id }] } _
            ((hi.open_ _ rfl).ev _)
      | dropW i =>
        simp only [handlerPoll, hops]
        cases hw : h.writers.getD i none with
        | none => exact NEXT _ h _ hi
        | some w => exact NEXT _ { h with writers := h.writers.set i none } _ (hi.dropW (getD_some hw))
      | writeAll i data =>
        simp only [handlerPoll, hops]
        cases hw : h.writers.getD i none with
        | none => exact NEXT _ h _ (hi.ev _)
        | some w =>
          simp only []
          cases hsub : h.sub <;> simp only [] <;>
          (split
           · exact NEXT _ h _ (hi.ev _)
           · rename_i hemp
             rcases hpw : w.pollWrite i _ e.mutex e.tr with ⟨w1, m1, t1, res⟩
             have hown := (pollWrite_own w i _ e.mutex e.tr (hi.wcons i w (getD_some hw)) hpw).1
             have h1 := hi.writer (getD_some hw) hown
             cases res with
             | pending =>
               simp only []
               exact HERE _ _ _ _ h1 (by first | exact hsuf | exact hsufc)
             | ready k =>
               cases k with
               | zero => simp only []; exact FAIL _ { h with writers := h.writers.set i (some w1) } _ _ (h1.ev _)
               | succ k' =>
                 simp only []
                 exact ih _ _ _ h1 (by first | exact hsuf | exact hsufc)
             | err x => simp only []; exact FAIL _ { h with writers := h.writers.set i (some w1) } _ _ (h1.ev _)
             | panic s =>
               simp only []
               exact HERE _ _ _ _ h1 (by first | exact hsuf | exact hsufc))
      | flush i =>
        simp only [handlerPoll, hops]
        cases hw : h.writers.getD i none with
        | none => exact NEXT _ h _ (hi.ev _)
        | some w =>
          simp only []
          rcases hpf : w.pollFlush i e.mutex e.tr with ⟨w1, m1, t1, res⟩
          have hown := (pollFlush_own w i e.mutex e.tr (hi.wcons i w (getD_some hw)) hpf).1
          have h1 := hi.writer (getD_some hw) hown
          cases res with
          | pending => simp only []; exact HERE _ _ _ _ h1 (by first | exact hsuf | exact hsufc)
          | ready k => simp only []; exact NEXT _ { h with writers := h.writers.set i (some w1) } _ (h1.ev _)
          | err x => simp only []; exact FAIL _ { h with writers := h.writers.set i (some w1) } _ _ (h1.ev _)
          | panic s => simp only []; exact HERE _ _ _ _ h1 (by first | exact hsuf | exact hsufc)

/-! ## The first request of a connection: `parse_request`, then its handler -/

theorem HI.congr {r : AReq} {ws : List (Option Writer)} {e e' : Run.Env} (h : HI sp0 wl0 script0 r ws e)
    (hm : e'.mutex = e.mutex) (hl : e'.tr.wlog = e.tr.wlog) : HI sp0 wl0 script0 r ws e' :=
  ⟨h.ainv, by rw [hm]; exact h.linv, by rw [hm]; exact h.wcons, by rw [hm]; exact h.bound, by rw [hl]; exact h.led⟩

/-- the handler of the request the first `parse_request` produced: the request parser `rp` had consumed
`D`, the log was `L0 ++ (run D).out` when the handler started, and `HI` holds from the stream parser
`from_parser` made of `rp`'s leftover -/
def HStage (mc : Nat) (L0 : Bytes) (r : AReq) (h : HState) (e : Run.Env) : Prop :=
  ∃ (rp : Req.Parser) (rq : Request) (D : Bytes) (script0 : List HOp),
    PInv rp ∧ rp.maxConns = mc ∧ rp.state = .done rq ∧
    rp.state = (run .header D mc).st ∧ rp.input = (run .header D mc).rem ∧
    HI (Str.Parser.fromParser rp.cap rq rp.input mc) (L0 ++ (run .header D mc).out) script0 r h.writers e ∧
    h.ops <:+ script0

def J (mc hs0 : Nat) (L0 W0 : Bytes) (c : Conn) : Prop :=
  FirstPR mc hs0 L0 W0 c ∧ (hsCount c.env.tr.events = hs0 → c.env.mutex = none) ∧
  (hsCount c.env.tr.events = hs0 + 1 → ∀ r h, c.phase = .handler r h → HStage mc L0 r h c.env)

theorem step_mutex_parse (c : Conn) (h : c.phase.isParse = true ∨ c.phase = .finished) :
    (stepConn c).conn.env.mutex = c.env.mutex := by
  obtain ⟨phase, env, scripts, stop⟩ := c
  cases phase with
  | finished => rfl
  | handler r hs => simp [Phase.isParse] at h
  | closing r cs st al => simp [Phase.isParse] at h
  | parseReq rp sub =>
    cases stop with
    | true => rfl
    | false =>
      cases sub <;> simp only [stepConn, Bool.false_eq_true, if_false] <;> repeat' split
      all_goals rfl

theorem halt_handler_from_handler {c c' : Conn} {res : PRes} {r' : AReq} {h' : HState}
    (hs : stepConn c = .halt c' res) (hph : c'.phase = .handler r' h') : ∃ r h, c.phase = .handler r h := by
  obtain ⟨phase, env, scripts, stop⟩ := c
  cases phase with
  | finished => simp only [stepConn] at hs; cases hs; cases hph
  | handler r h => exact ⟨r, h, rfl⟩
  | closing r cs st al =>
    simp only [stepConn] at hs
    repeat' (split at hs)
    all_goals first | (cases hs; cases hph; done) | (cases hs; done)
  | parseReq rp sub =>
    cases stop with
    | true => simp only [stepConn, if_true] at hs; cases hs; cases hph
    | false =>
      cases sub <;> simp only [stepConn, Bool.false_eq_true, if_false] at hs <;> repeat' (split at hs)
      all_goals first | (cases hs; cases hph; done) | (cases hs; done)

/-- every completed request has a 16-bit id (true of the wire format; not recorded by `WFState`) -/
def HID (mc : Nat) : Prop := ∀ F rq, (run .header F mc).st = .done rq → rq.id < 65536

theorem j_step {mc hs0 : Nat} {L0 W0 : Bytes} (hid : HID mc) {c : Conn} (h : J mc hs0 L0 W0 c)
    (hnp : ∀ c1 s, stepConn c ≠ .halt c1 (.panic s)) : J mc hs0 L0 W0 (stepConn c).conn := by
  obtain ⟨new, he, hn⟩ := C07.one_handler_per_done c
  have hc : hsCount (stepConn c).conn.env.tr.events = hsCount c.env.tr.events + hsCount new := by
    rw [he, hsCount_append]
  obtain ⟨h1, h2, h3⟩ := h
  refine ⟨firstPR_step h1, fun heq => ?_, fun heq r' h' hph => ?_⟩
  · have h0 : hsCount c.env.tr.events = hs0 := by have := h1.1; omega
    rw [step_mutex_parse c (by
      rcases h1.2 h0 with hf | ⟨D, hl, _⟩
      · exact Or.inr hf
      · exact Or.inl (prled_isParse hl))]
    exact h2 h0
  · cases hst : stepConn c with
    | next c1 =>
      rw [hst] at hph hc hn heq
      simp only [Step.conn] at hph hc hn heq
      obtain ⟨rp, rest, rest', t, rq, hp, hstop, hw, hd, _, hr, hh, _, henv⟩ :=
        C07.handler_only_from_done c c1 r' h' hst hph
      have hn1 : hsCount new = 1 := by
        simpa [hp, hph, Phase.isParse, Phase.isHandler] using hn
      have h0 : hsCount c.env.tr.events = hs0 := by omega
      have hmx := h2 h0
      rcases h1.2 h0 with hf | ⟨D, hl, _⟩
      · rw [hf] at hp; cases hp
      · simp only [PRLed, hp, List.nil_append] at hl
        obtain ⟨hmc, ⟨hpi, hin, hstt⟩, _, hlog⟩ := hl
        have hst' : rp.state = (run .header D rp.maxConns).st := by
          rcases hstt with hx | ⟨hx, _⟩
          · exact hx
          · rw [hx] at hd; cases hd
        obtain ⟨⟨dn, hdn, hwl⟩, _, hready, _⟩ := writeAllLoop_spec _ _ _ hw
        have hr0 := hready rfl
        subst hr0
        rw [List.append_nil] at hdn
        have hidq : rq.id < 65536 := hid D rq (by rw [← hmc]; rw [← hst', hd])
        have ha : AInv (AReq.new (Str.Parser.fromParser rp.cap rq rp.input rp.maxConns)) :=
          new_ainv (C03S.fromParser_inv rp.cap rq rp.input rp.maxConns hpi.1 hidq) hpi.2.2
        have hl0 : LockInv (AReq.new (Str.Parser.fromParser rp.cap rq rp.input rp.maxConns)) none :=
          new_lockInv _ (fun h => nomatch h)
        subst hmc
        refine ⟨rp, rq, D, (C07.nextScript c.scripts).1, hpi, rfl, hd, hst', hin, ?_,
          by rw [hh]; exact List.suffix_refl _⟩
        simp only [Step.conn]
        rw [hh, hr, henv]
        refine ⟨ha, (by show LockInv _ c.env.mutex; rw [hmx]; exact hl0), (fun i w hw => by cases hw),
          fun j hj => ?_, [], ?_, fun _ => ⟨trivial, fun s hx => by cases hx⟩⟩
        · have : c.env.mutex = some (j + 1) := hj
          rw [hmx] at this; cases this
        · show GLed _ [] _ _ t.wlog
          rw [hwl, ← hdn, hlog]
          exact GLed.nil _ _
    | halt c1 res =>
      rw [hst] at hph hc hn heq
      simp only [Step.conn] at hph hc hn heq
      obtain ⟨r, hh, hp⟩ := halt_handler_from_handler hst hph
      have hn0 : hsCount new = 0 := by simpa [hp, Phase.isParse] using hn
      have h0 : hsCount c.env.tr.events = hs0 + 1 := by omega
      obtain ⟨rp, rq, D, script0, g1, g2, g3, g4, g5, g6, g7⟩ := h3 h0 r hh hp
      rw [C07.handler_step c r hh hp] at hst
      rcases hhp : handlerPoll ((handlerFuel c.env r + scriptOf c)) r hh c.env with ⟨r1, hh1, e1, hres⟩
      have hpost := handlerPoll_hi ((handlerFuel c.env r + scriptOf c)) r hh c.env g6 g7
      rw [hhp] at hst hpost
      cases hres with
      | pending =>
        simp only at hst
        cases hst
        simp only at hph
        cases hph
        exact ⟨rp, rq, D, script0, g1, g2, g3, g4, g5, hpost.1, hpost.2⟩
      | panic s =>
        simp only at hst
        have hst0 : stepConn c = .halt c1 res := by
          rw [C07.handler_step c r hh hp, hhp]; exact hst
        cases hst
        exact absurd hst0 (hnp _ _)
      | done x =>
        cases x with
        | ok st => simp only at hst; cases hst
        | error x =>
          simp only at hst
          split at hst
          · cases hst
          · cases hst; cases hph

theorem j_poll {mc hs0 : Nat} {L0 W0 : Bytes} (hid : HID mc) : ∀ (fuel : Nat) (c : Conn) {c' : Conn} {res : PRes},
    J mc hs0 L0 W0 c → pollConn fuel c = (c', res) → (∀ s, res ≠ .panic s) → J mc hs0 L0 W0 c'
  | 0, c, c', res, _, hp, hnp => by
    have : pollConn 0 c = (c, .panic "model: connection fuel exhausted") := rfl
    rw [this] at hp; cases hp; exact absurd rfl (hnp _)
  | fuel + 1, c, c', res, h, hp, hnp => by
    rw [pollConn_succ] at hp
    cases hst : stepConn c with
    | next c1 =>
      have hj := j_step hid h (fun c2 s hx => by rw [hst] at hx; cases hx)
      rw [hst] at hp hj
      exact j_poll hid fuel c1 hj hp hnp
    | halt c1 r =>
      rw [hst] at hp
      simp only [Step.run] at hp
      cases hp
      have hj := j_step hid h (fun c2 s hx => by rw [hst] at hx; cases hx; exact hnp s rfl)
      rw [hst] at hj
      exact hj

theorem J.congr {mc hs0 : Nat} {L0 W0 : Bytes} {c c' : Conn} (h : J mc hs0 L0 W0 c)
    (hp : c'.phase = c.phase) (hl : c'.env.tr.wlog = c.env.tr.wlog)
    (he : hsCount c'.env.tr.events = hsCount c.env.tr.events) (hw : wireOf c'.env = wireOf c.env)
    (hm : c'.env.mutex = c.env.mutex) : J mc hs0 L0 W0 c' := by
  obtain ⟨h1, h2, h3⟩ := h
  refine ⟨firstPR_congr h1 hp hl he hw, fun hq => by rw [hm]; exact h2 (by omega), fun hq r hh hph => ?_⟩
  obtain ⟨rp, rq, D, script0, g1, g2, g3, g4, g5, g6, g7⟩ := h3 (by omega) r hh (by rw [← hp]; exact hph)
  exact ⟨rp, rq, D, script0, g1, g2, g3, g4, g5, g6.congr hm hl, g7⟩

theorem J.release {mc hs0 : Nat} {L0 W0 : Bytes} {c : Conn} (h : J mc hs0 L0 W0 c) :
    J mc hs0 L0 W0 { c with env := c.env.release.1 } := by
  obtain ⟨a, b, d⟩ := release_frame c.env
  exact h.congr rfl a (by show hsCount c.env.release.1.tr.events = _; rw [b]) d (C08Inv.release_spec c.env).1

theorem J.prePoll {mc hs0 : Nat} {L0 W0 : Bytes} {c : Conn} (n : Nat) (sa : Option Nat)
    (h : J mc hs0 L0 W0 c) : J mc hs0 L0 W0 (prePoll c n sa) := by
  have key : ∀ c0 : Conn, c0.phase = c.phase → c0.env = c.env →
      J mc hs0 L0 W0 ({ c0 with env := ({ c0.env.release.1 with
        tr := { c0.env.release.1.tr with woken := false } } : Run.Env).ev s!"|{n}" }) := by
    intro c0 hp he
    obtain ⟨a, b, d⟩ := release_frame c0.env
    refine h.congr hp ?_ ?_ ?_ ?_
    · show c0.env.release.1.tr.wlog = _
      rw [a, he]
    · show hsCount (c0.env.release.1.tr.events ++ [s!"|{n}"]) = _
      rw [hsCount_append, b, he, hsCount_single_false (by simp [isHS, toString_str])]; rfl
    · show wireOf _ = _
      rw [← he, ← d]; rfl
    · show c0.env.release.1.mutex = _
      rw [(C08Inv.release_spec c0.env).1, he]
  unfold Run.prePoll
  split
  · exact key _ rfl rfl
  · exact key _ rfl rfl

/-- a run that ends in STALL keeps `J` -/
theorem j_run {mc hs0 : Nat} {L0 W0 : Bytes} (hid : HID mc) : ∀ (fuel : Nat) (c : Conn) (n : Nat) (sa : Option Nat),
    J mc hs0 L0 W0 c → (runTask fuel c n sa).2 = "STALL" → J mc hs0 L0 W0 (runTask fuel c n sa).1
  | 0, _, _, _, _, h => absurd h C08Inv.fuel_ne_stall
  | fuel + 1, c, n, sa, hj, h => by
    rw [runTask_succ] at h ⊢
    have hj0 := hj.prePoll n sa
    rcases hpc : pollConn (connFuel (Run.prePoll c n sa)) (Run.prePoll c n sa) with ⟨c1, res⟩
    rw [hpc] at h
    cases res with
    | finished => exact absurd h C08Inv.ret_ne_stall
    | panic s => exact absurd h C08Inv.panic_ne_stall
    | pending =>
      have hp := j_poll hid _ _ hj0 hpc (fun s hx => by cases hx)
      revert h
      simp only []
      split
      · exact fun h => j_run hid fuel _ _ _ hp h
      · split
        · exact fun h => j_run hid fuel _ _ _ hp.release h
        · split
          · split
            · exact fun h => j_run hid fuel _ _ _ hp.release h
            · exact fun _ => hp.release
          · exact fun _ => hp.release

end Fcgi.C08R
