import Fcgi.Proofs.E2EIgnore
import Fcgi.Props.C03StrSet
import Fcgi.Props.C04
/-!
# End-to-end composition (C07/C05) — the reference for a Responder's Stdin wire read in ignore mode

`CleanW`: a byte string along which (walking payloads, paddings and headers as the reference does)
no own-id Data header is met.  On such strings the reference does not depend on the role
(`ref_role`: Responder `⟨id, 1, 5⟩` = Filter `⟨id, 3, 5⟩`), so `ref_switch` (`Proofs/StrPhase`)
applies: the view of the ignoring parser follows `⟨id, 3, 8⟩`, under which every record of a
Responder's Stdin stream is passed over (`rclass_view`).
-/
namespace Fcgi.E2E
open Fcgi Fcgi.Req Fcgi.Str Fcgi.Async Fcgi.Run Fcgi.Spec

inductive CleanW (id : Nat) : Nat → Nat → Bytes → Prop
  | payShort {pay pad : Nat} {w : Bytes} : 0 < pay → w.length < pay → CleanW id pay pad w
  | payFull {pay pad : Nat} {w : Bytes} : 0 < pay → ¬ w.length < pay → CleanW id 0 pad (w.drop pay) →
      CleanW id pay pad w
  | padShort {pad : Nat} {w : Bytes} : 0 < pad → w.length < pad → CleanW id 0 pad w
  | padFull {pad : Nat} {w : Bytes} : 0 < pad → ¬ w.length < pad → CleanW id 0 0 (w.drop pad) → CleanW id 0 pad w
  | short {w : Bytes} : w.length < 8 → CleanW id 0 0 w
  | hdr {b0 b1 b2 b3 b4 b5 b6 b7 : UInt8} {rest : Bytes} : ¬ (b1.toNat = 8 ∧ be16 b2 b3 = id) →
      CleanW id (be16 b4 b5) b6.toNat rest → CleanW id 0 0 (b0 :: b1 :: b2 :: b3 :: b4 :: b5 :: b6 :: b7 :: rest)

/-- the header classification does not depend on the role, except for own-id Data headers -/
theorem hclass_role (id mc : Nat) {b0 b1 b2 b3 b4 b5 : UInt8} (h : ¬ (b1.toNat = 8 ∧ be16 b2 b3 = id)) :
    hclass ⟨id, 1, 5, mc⟩ b0 b1 b2 b3 b4 b5 = hclass ⟨id, 3, 5, mc⟩ b0 b1 b2 b3 b4 b5 := by
  unfold hclass
  simp only
  split
  · rfl
  · split
    · rfl
    · split
      · rename_i hc
        split
        · rfl
        · rename_i h5
          have h8 : b1.toNat = 8 := by
            have := hc.1
            simp only [RT.isInputStream, Bool.or_eq_true, beq_iff_eq] at this
            rcases this with h' | h'
            · exact absurd h' h5
            · exact h'
          exact absurd ⟨h8, hc.2⟩ h
      · rfl

/-- **The reference does not depend on the role** on a string without own-id Data headers. -/
theorem ref_role (id mc : Nat) {pay pad : Nat} {w : Bytes} (h : CleanW id pay pad w) (st : SState) :
    ref ⟨id, 1, 5, mc⟩ st pay pad w = ref ⟨id, 3, 5, mc⟩ st pay pad w := by
  induction h generalizing st with
  | payShort h1 h2 => rw [ref_pay_short _ _ _ h1 h2, ref_pay_short _ _ _ h1 h2]
  | payFull h1 h2 _ ih => rw [ref_pay_full _ _ _ h1 (by omega), ref_pay_full _ _ _ h1 (by omega), ih]
  | padShort h1 h2 => rw [ref_pad_short _ _ h1 h2, ref_pad_short _ _ h1 h2]
  | padFull h1 h2 _ ih => rw [ref_pad_full _ _ h1 (by omega), ref_pad_full _ _ h1 (by omega), ih]
  | short h1 => rw [ref_short _ _ h1, ref_short _ _ h1]
  | hdr hc _ ih =>
    rw [ref_hdr, ref_hdr, hclass_role id mc hc]
    split
    · rfl
    · rw [ih]

/-! ## Prefixes of a framed wire are clean -/

theorem prefix_drop {w a b : Bytes} (h : w <+: a ++ b) (hl : a.length ≤ w.length) : w.drop a.length <+: b := by
  obtain ⟨t, ht⟩ := h
  refine ⟨t, ?_⟩
  have := congrArg (List.drop a.length) ht
  rw [List.drop_append_of_le_length hl, List.drop_left] at this
  exact this

theorem clean_body (id : Nat) {S : Bytes} (hS : ∀ w, w <+: S → CleanW id 0 0 w) (c pd : Bytes) {w : Bytes}
    (hw : w <+: c ++ (pd ++ S)) : CleanW id c.length pd.length w := by
  have pad_part : ∀ w', w' <+: pd ++ S → CleanW id 0 pd.length w' := by
    intro w' hw'
    by_cases hp : 0 < pd.length
    · by_cases hs : w'.length < pd.length
      · exact .padShort hp hs
      · exact .padFull hp hs (hS _ (prefix_drop hw' (by omega)))
    · have : pd = [] := List.length_eq_zero_iff.1 (by omega)
      subst this
      exact hS _ (by simpa using hw')
  by_cases hc : 0 < c.length
  · by_cases hs : w.length < c.length
    · exact .payShort hc hs
    · exact .payFull hc hs (pad_part _ (prefix_drop hw (by omega)))
  · have : c = [] := List.length_eq_zero_iff.1 (by omega)
    subst this
    exact pad_part _ (by simpa using hw)

theorem clean_recs (id : Nat) : ∀ (rs : List Rec), RecsOK id rs → ∀ w, w <+: serAll rs → CleanW id 0 0 w := by
  intro rs
  induction rs with
  | nil =>
    intro _ w hw
    have : w = [] := List.prefix_nil.1 (by simpa [serAll] using hw)
    subst this
    exact .short (by simp)
  | cons r rs ih =>
    intro hR w hw
    by_cases hs : w.length < 8
    · exact .short hs
    · have hr := hR r List.mem_cons_self
      obtain ⟨t, ht⟩ := hw
      rw [serAll_cons] at ht
      obtain ⟨e1, e2⟩ := raw_hdr (raw := w) (fut := t) (r := r) (X := serAll rs) ht (by omega)
      rw [e1]
      have hbody : w.drop 8 <+: r.content ++ (r.pad ++ serAll rs) := ⟨t, e2⟩
      have := clean_body id (ih (fun x hx => hR x (List.mem_cons_of_mem _ hx))) r.content r.pad hbody
      simp only [hdr, List.cons_append, List.nil_append]
      refine .hdr ?_ ?_
      · rw [be16_toBe16 hr.1.1]; exact hr.2
      · rw [be16_toBe16 hr.1.2.1, toNat_ofNat_lt hr.1.2.2]; exact this

/-- a prefix of a framed wire is clean -/
theorem clean_pos {id : Nat} {R : List Rec} (hR : RecsOK id R) {raw fut : Bytes} {pay pad : Nat}
    (h : Pos R raw pay pad fut) {w : Bytes} (hw : w <+: raw ++ fut) : CleanW id pay pad w := by
  obtain ⟨c, pd, rs, hc, hpd, hwire, hsuf⟩ := h
  rw [hwire] at hw
  rw [← hc, ← hpd]
  exact clean_body id (clean_recs id rs (fun r hr => hR r (hsuf.subset hr))) c pd hw

/-! ## A Responder's Stdin records under the view's configuration `⟨id, 3, 8⟩` -/

/-- a record of a Responder's Stdin stream: its own data / terminator, or stream noise -/
def StdinRec (id : Nat) (r : Rec) : Prop := r.WF ∧ (StreamNoise id r ∨ (r.rtype = 5 ∧ r.id = id))

theorem streamRecs_stdin {id : Nat} (hid : id < 65536) {c : Bytes} {rs : List Rec} (h : StreamRecs id 5 c rs) :
    ∀ r ∈ rs, StdinRec id r := by
  induction h with
  | term pad res hp => intro r hr; rw [List.mem_singleton.1 hr]; exact ⟨⟨hid, by simp, hp⟩, Or.inr ⟨rfl, rfl⟩⟩
  | noise r hn t ih =>
    intro x hx
    rcases List.mem_cons.1 hx with rfl | hx
    · exact ⟨hn.1, Or.inl hn⟩
    · exact ih x hx
  | chunk c pad res hc hp t ih =>
    intro x hx
    rcases List.mem_cons.1 hx with rfl | hx
    · exact ⟨⟨hid, hc.2, hp⟩, Or.inr ⟨rfl, rfl⟩⟩
    · exact ih x hx

theorem stdin_recsOK {id : Nat} {rs : List Rec} (h : ∀ r ∈ rs, StdinRec id r) : RecsOK id rs := by
  intro r hr
  obtain ⟨hwf, hk⟩ := h r hr
  refine ⟨hwf, fun hx => ?_⟩
  rcases hk with hn | ⟨h5, _⟩
  · exact hn.2 ⟨hx.2, Or.inr (Or.inl hx.1)⟩
  · rw [h5] at hx; exact absurd hx.1 (by decide)

/-- what is owed for a record while request `id` is in progress -/
def owedI (id mc : Nat) (rs : List Rec) : Bytes := rs.flatMap (owed (some id) mc)

theorem owed_own5 {id : Nat} (mc : Nat) {r : Rec} (h5 : r.rtype = 5) : owed (some id) mc r = [] :=
  C04.owed_other (some id) mc r (by rw [h5]; rfl) (by rw [h5]; decide) (fun hx => by rw [h5] at hx; exact absurd hx.1 (by decide))

/-- … every one of them is passed over -/
theorem rclass_view (id mc : Nat) {r : Rec} (h : StdinRec id r) : rclass ⟨id, 3, 8, mc⟩ r = .noise := by
  rcases h.2 with hn | ⟨h5, hid⟩
  · exact rclass_noise (E := ⟨id, 3, 8, mc⟩) hn
  · have hl : ¬ Later 3 (some 8) 5 := by decide
    simp [rclass, h5, hid, RT.isInputStream, hl]

theorem refRun_view (id mc : Nat) : ∀ (rs : List Rec), (∀ r ∈ rs, StdinRec id r) → ∀ tl,
    refRun ⟨id, 3, 8, mc⟩ (rs ++ tl) =
      ⟨(refRun ⟨id, 3, 8, mc⟩ tl).content, owedI id mc rs ++ (refRun ⟨id, 3, 8, mc⟩ tl).out,
        Stop.add rs.length (refRun ⟨id, 3, 8, mc⟩ tl).stop⟩
  | [], _, tl => by simp [owedI, Stop.add]
  | r :: rs, h, tl => by
    have ih := refRun_view id mc rs (fun x hx => h x (List.mem_cons_of_mem _ hx)) tl
    simp only [List.cons_append, refRun, rclass_view id mc (h r List.mem_cons_self), ih, List.length_cons, Stop.add,
      owedI, List.flatMap_cons, List.append_assoc]

/-- the reference of the view on whole records of the stream: everything passed over, the owed
replies, nothing left -/
theorem refWire_view (id mc : Nat) {rs : List Rec} (h : ∀ r ∈ rs, StdinRec id r) :
    refWire ⟨id, 3, 8, mc⟩ (serAll rs) = ⟨[], owedI id mc rs, .more, []⟩ := by
  have hwf : ∀ r ∈ rs, r.WF := fun r hr => (h r hr).1
  have := refWire_of_presentation ⟨id, 3, 8, mc⟩ hwf (tail := []) (nextRec_short (by simp))
  rw [List.append_nil] at this
  have hrun := refRun_view id mc rs h []
  rw [List.append_nil] at hrun
  have hadd : ∀ n, Stop.add n .ranOut = .ranOut := by
    intro n
    induction n with
    | zero => rfl
    | succ n ih => simp only [Stop.add, ih, Stop.succ]
  rw [this, hrun]
  simp [refRun, glue, hadd, refTail, RefOut.pre]

/-- the view's reference never holds back a buffer-full: `NoiseFits` for the stream's records -/
theorem fits_view (id mc : Nat) (hid : id < 65536) {rs : List Rec} (h : ∀ r ∈ rs, StdinRec id r) {M : Nat}
    (h8 : 8 ≤ M) (hfit : NoiseFits M rs) :
    ∀ G, G <+: serAll rs → (refWire ⟨id, 3, 8, mc⟩ G).verdict = .more →
      (refWire ⟨id, 3, 8, mc⟩ G).unread.length < M := by
  let e8 : Rec := { rtype := 8, id := id, content := [], pad := [] }
  have he : e8.WF := ⟨hid, by simp [e8], by simp [e8]⟩
  have hcls : rclass ⟨id, 3, 8, mc⟩ e8 = .endStream := by simp [rclass, e8, RT.isInputStream]
  have hwf : ∀ r ∈ rs ++ [e8], r.WF := by
    intro r hr
    rcases List.mem_append.1 hr with hr | hr
    · exact (h r hr).1
    · rw [List.mem_singleton.1 hr]; exact he
  have hfull : (refWire ⟨id, 3, 8, mc⟩ (serAll (rs ++ [e8]))).verdict ≠ .more := by
    have := refWire_of_presentation ⟨id, 3, 8, mc⟩ hwf (tail := []) (nextRec_short (by simp))
    rw [List.append_nil] at this
    have hrun := refRun_view id mc rs h [e8]
    have htl : refRun ⟨id, 3, 8, mc⟩ [e8] = ⟨[], [], .endOfStream 0⟩ := by simp only [refRun, hcls]
    rw [this, hrun, htl]
    have hadd : ∀ n, Stop.add n (.endOfStream 0) = .endOfStream n := by
      intro n
      induction n with
      | zero => rfl
      | succ n ih => simp only [Stop.add, ih, Stop.succ]
    simp only [hadd, glue]
    intro hx; cases hx
  intro G hG hv
  refine stream_fits ⟨id, 3, 8, mc⟩ (rs ++ [e8]) hwf hfull h8 ?_ G ?_ hv
  · intro r hr hg
    rcases List.mem_append.1 hr with hr | hr
    · exact hfit r hr hg
    · rw [List.mem_singleton.1 hr] at hg
      exact absurd hg.1 (by simp [e8, RT.getValues])
  · rw [serAll_app]
    exact hG.trans (List.prefix_append _ _)

end Fcgi.E2E
