import Fcgi.Proofs.C12Inv

/-!
# A run depends only on the scripted answers it has consumed — all three scripts, the async layer

`ext X t`: the transport `t` with `X.xr` / `X.xw` / `X.xf` appended to its read / write / flush
scripts; each appended script is empty or starts with a failing answer (`Bad X`: `.err` for reads
and flushes, `.err` or `.zero` for writes).  On an exhausted script the model answers `.all` (reads,
writes) resp. `.ok` (flushes).  Every function `f` of the async model satisfies the dichotomy

* **same**: `f (ext X t)` is `f t` with the appended answers still unconsumed — same results, events,
  log; or
* **hit**: the run on `ext X t` consumed a failing answer: its result is the error `e` that answer
  produces (`XErr X e`: the transport's read / write / flush error, or `WriteZero`), and `HitR`: its
  write log is a byte prefix of the log of the run on `t`, and it has seen no more handler starts.
-/
namespace Fcgi.Indep3
open Fcgi Fcgi.Req Fcgi.Str Fcgi.Async Fcgi.Run Fcgi.C12Inv

structure Ext where
  xr : List RdAns := []
  xw : List WrAns := []
  xf : List FlAns := []

def ext (X : Ext) (t : Transport) : Transport :=
  { t with rd := t.rd ++ X.xr, wr := t.wr ++ X.xw, fl := t.fl ++ X.xf }

/-- each appended script is empty or starts with a failing answer -/
structure Bad (X : Ext) : Prop where
  r : X.xr = [] ∨ ∃ post, X.xr = .err :: post
  w : X.xw = [] ∨ ∃ b post, X.xw = b :: post ∧ wrBad b = true
  f : X.xf = [] ∨ ∃ post, X.xf = .err :: post

/-- the errors the appended answers produce -/
def XErr (X : Ext) (e : IoErr) : Prop :=
  ((∃ post, X.xr = .err :: post) ∧ (e = .connectionAborted ∨ e = .transportRead)) ∨
  ((∃ post, X.xw = .err :: post) ∧ (e = .connectionAborted ∨ e = .transportWrite)) ∨
  ((∃ post, X.xw = .zero :: post) ∧ e = .writeZero) ∨
  ((∃ post, X.xf = .err :: post) ∧ (e = .connectionAborted ∨ e = .transportFlush))

theorem XErr.ne {X : Ext} {e : IoErr} (h : XErr X e) : (e == IoErr.abortRequest) = false := by
  rcases h with ⟨_, h | h⟩ | ⟨_, h | h⟩ | ⟨_, h⟩ | ⟨_, h | h⟩ <;> subst h <;> rfl

theorem XErr.stop {X : Ext} {e : IoErr} (h : XErr X e) : errStop e = true := by
  rcases h with ⟨_, h | h⟩ | ⟨_, h | h⟩ | ⟨_, h⟩ | ⟨_, h | h⟩ <;> subst h <;> rfl

@[simp] theorem ext_input (X : Ext) (t : Transport) : (ext X t).input = t.input := rfl
@[simp] theorem ext_wlog (X : Ext) (t : Transport) : (ext X t).wlog = t.wlog := rfl
theorem ext_ev (X : Ext) (t : Transport) (s : String) : (ext X t).ev s = ext X (t.ev s) := rfl

/-- one of the appended failing answers has been consumed -/
def Used (X : Ext) (a : Transport) : Prop :=
  (∃ b post, X.xr = b :: post ∧ a.rd <:+ post) ∨ (∃ b post, X.xw = b :: post ∧ a.wr <:+ post) ∨
  (∃ b post, X.xf = b :: post ∧ a.fl <:+ post)

/-- the failing run is behind the other one: a prefix of its log, no more handler starts; and it
has consumed one of the appended answers -/
structure HitR (X : Ext) (a t : Transport) : Prop where
  log : a.wlog <+: t.wlog
  hs : hsCount a.events ≤ hsCount t.events
  used : Used X a

theorem pre_tle {X : Ext} {a t t' : Transport} (h : HitR X a t) (hle : TLe t t') : HitR X a t' := by
  obtain ⟨w, hw⟩ := hle.wl
  obtain ⟨n, hn, _⟩ := hle.ev
  refine ⟨by rw [hw]; exact h.log.trans (List.prefix_append _ _), ?_, h.used⟩
  rw [hn, hsCount_append]
  have := h.hs
  omega

theorem pre_ev {X : Ext} {a t : Transport} (s : String) (h : HitR X a t) : HitR X a (t.ev s) := by
  refine ⟨h.log, ?_, h.used⟩
  show _ ≤ hsCount (t.events ++ [s])
  rw [hsCount_append]
  have := h.hs
  omega

theorem HitR.evl {X : Ext} {a t : Transport} {s : String} (hq : isHS s = false) (h : HitR X a t) : HitR X (a.ev s) t := by
  refine ⟨h.log, ?_, h.used⟩
  show hsCount (a.events ++ [s]) ≤ _
  rw [hsCount_append, hsCount_single_false hq]
  exact h.hs

theorem HitR.refl' {X : Ext} {a t : Transport} (h1 : a.wlog = t.wlog) (h2 : hsCount a.events = hsCount t.events)
    (h3 : Used X a) : HitR X a t :=
  ⟨by rw [h1]; exact List.prefix_refl _, by omega, h3⟩

/-! ## The primitives -/

theorem rdErr_kinds (t : Transport) : t.rdErr = .connectionAborted ∨ t.rdErr = .transportRead := by
  unfold Transport.rdErr; split <;> simp
theorem wrErr_kinds (t : Transport) : t.wrErr = .connectionAborted ∨ t.wrErr = .transportWrite := by
  unfold Transport.wrErr; split <;> simp
theorem flErr_kinds (t : Transport) : t.flErr = .connectionAborted ∨ t.flErr = .transportFlush := by
  unfold Transport.flErr; split <;> simp

theorem read_ext (X : Ext) (t : Transport) (cap : Nat) (h : t.rd ≠ [] ∨ cap = 0 ∨ X.xr = []) :
    (ext X t).read cap = (ext X (t.read cap).1, (t.read cap).2) := by
  obtain ⟨input, endMode, rd, wr, fl, wlog, events, hold, woken, readWaker, abortKind⟩ := t
  obtain ⟨xr, xw, xf⟩ := X
  rcases h with h | h | h
  · simp only at h
    cases rd with
    | nil => exact absurd rfl h
    | cons a r =>
      unfold Transport.read ext
      simp only [List.cons_append]
      repeat' split
      all_goals first | rfl | simp_all [Transport.ev, Transport.rdErr]
  · subst h
    unfold Transport.read ext
    simp [Transport.ev]
  · simp only at h
    subst h
    unfold Transport.read ext
    simp only [List.append_nil]
    repeat' split
    all_goals first | rfl | simp_all [Transport.ev, Transport.rdErr]

theorem read_hit {X : Ext} (t : Transport) (cap : Nat) (hrd : t.rd = []) (hcap : cap ≠ 0)
    (hx : ∃ post, X.xr = .err :: post) :
    ∃ t2 e, (ext X t).read cap = (t2, .ready (.error e)) ∧ XErr X e ∧ HitR X t2 t := by
  obtain ⟨post, hp⟩ := hx
  obtain ⟨input, endMode, rd, wr, fl, wlog, events, hold, woken, readWaker, abortKind⟩ := t
  obtain ⟨xr, xw, xf⟩ := X
  simp only at hrd hp
  subst hrd hp
  have hc : (cap == 0) = false := by simpa using hcap
  refine ⟨(⟨input, endMode, post, wr ++ xw, fl ++ xf, wlog, events, hold, woken, readWaker, abortKind⟩ : Transport).ev
      s!"R{cap}:E", (⟨input, endMode, post, wr ++ xw, fl ++ xf, wlog, events, hold, woken, readWaker, abortKind⟩ :
      Transport).rdErr, ?_, ?_, ?_⟩
  · unfold Transport.read ext
    simp only [hc, Bool.false_eq_true, if_false, List.nil_append]
  · exact Or.inl ⟨⟨post, rfl⟩, rdErr_kinds _⟩
  · refine HitR.evl ?_ (HitR.refl' rfl rfl (Or.inl ⟨_, post, rfl, List.suffix_refl _⟩))
    simp [isHS, toString_str]

theorem read_dich {X : Ext} (hX : Bad X) (t : Transport) (cap : Nat) :
    (ext X t).read cap = (ext X (t.read cap).1, (t.read cap).2) ∨
    (∃ t2 e, (ext X t).read cap = (t2, .ready (.error e)) ∧ XErr X e ∧ HitR X t2 t) := by
  by_cases h : t.rd ≠ [] ∨ cap = 0 ∨ X.xr = []
  · exact Or.inl (read_ext X t cap h)
  · right
    have h1 : t.rd = [] := by
      by_cases h' : t.rd = []
      · exact h'
      · exact absurd (Or.inl h') h
    have h2 : cap ≠ 0 := fun h' => h (Or.inr (Or.inl h'))
    have h3 : X.xr ≠ [] := fun h' => h (Or.inr (Or.inr h'))
    rcases hX.r with h4 | h4
    · exact absurd h4 h3
    · exact read_hit t cap h1 h2 h4

theorem flush_ext (X : Ext) (t : Transport) (h : t.fl ≠ [] ∨ X.xf = []) :
    (ext X t).flush = (ext X t.flush.1, t.flush.2) := by
  obtain ⟨input, endMode, rd, wr, fl, wlog, events, hold, woken, readWaker, abortKind⟩ := t
  obtain ⟨xr, xw, xf⟩ := X
  rcases h with h | h
  · simp only at h
    cases fl with
    | nil => exact absurd rfl h
    | cons a r =>
      unfold Transport.flush ext
      simp only [List.cons_append]
      cases a <;> simp [Transport.ev, Transport.flErr]
  · simp only at h
    subst h
    unfold Transport.flush ext
    simp only [List.append_nil]
    repeat' split
    all_goals first | rfl | simp_all [Transport.ev, Transport.flErr]

theorem flush_hit {X : Ext} (t : Transport) (hfl : t.fl = []) (hx : ∃ post, X.xf = .err :: post) :
    ∃ t2 e, (ext X t).flush = (t2, .ready (.error e)) ∧ XErr X e ∧ HitR X t2 t := by
  obtain ⟨post, hp⟩ := hx
  obtain ⟨input, endMode, rd, wr, fl, wlog, events, hold, woken, readWaker, abortKind⟩ := t
  obtain ⟨xr, xw, xf⟩ := X
  simp only at hfl hp
  subst hfl hp
  refine ⟨(⟨input, endMode, rd ++ xr, wr ++ xw, post, wlog, events, hold, woken, readWaker, abortKind⟩ : Transport).ev
      "F:E", (⟨input, endMode, rd ++ xr, wr ++ xw, post, wlog, events, hold, woken, readWaker, abortKind⟩ :
      Transport).flErr, ?_, ?_, ?_⟩
  · unfold Transport.flush ext
    simp only [List.nil_append]
  · exact Or.inr (Or.inr (Or.inr ⟨⟨post, rfl⟩, flErr_kinds _⟩))
  · refine HitR.evl ?_ (HitR.refl' rfl rfl (Or.inr (Or.inr ⟨_, post, rfl, List.suffix_refl _⟩)))
    simp [isHS]

theorem flush_dich {X : Ext} (hX : Bad X) (t : Transport) :
    (ext X t).flush = (ext X t.flush.1, t.flush.2) ∨
    (∃ t2 e, (ext X t).flush = (t2, .ready (.error e)) ∧ XErr X e ∧ HitR X t2 t) := by
  by_cases h : t.fl ≠ [] ∨ X.xf = []
  · exact Or.inl (flush_ext X t h)
  · right
    have h1 : t.fl = [] := by
      by_cases h' : t.fl = []
      · exact h'
      · exact absurd (Or.inl h') h
    have h3 : X.xf ≠ [] := fun h' => h (Or.inr h')
    rcases hX.f with h4 | h4
    · exact absurd h4 h3
    · exact flush_hit t h1 h4

theorem writeV_ext (X : Ext) (t : Transport) (sl : List Bytes) (tag : String)
    (h : t.wr ≠ [] ∨ sl.flatten = [] ∨ X.xw = []) :
    (ext X t).writeV sl tag = (ext X (t.writeV sl tag).1, (t.writeV sl tag).2) := by
  obtain ⟨input, endMode, rd, wr, fl, wlog, events, hold, woken, readWaker, abortKind⟩ := t
  obtain ⟨xr, xw, xf⟩ := X
  unfold Transport.writeV ext
  simp only
  by_cases hd : sl.flatten.isEmpty = true
  · simp [hd, Transport.ev]
  · have hd' : sl.flatten ≠ [] := by simpa using hd
    rcases h with h | h | h
    · simp only at h
      cases wr with
      | nil => exact absurd rfl h
      | cons a r =>
        simp only [hd, Bool.false_eq_true, if_false, List.cons_append]
        cases a <;> simp [Transport.ev, Transport.wrErr]
    · exact absurd h hd'
    · simp only at h
      subst h
      simp only [hd, Bool.false_eq_true, if_false, List.append_nil]
      repeat' split
      all_goals first | rfl | simp_all [Transport.ev, Transport.wrErr]

/-- a write answer that stops the caller, with the error it stands for -/
def pHit (X : Ext) (r : Poll (Except IoErr Nat)) : Prop :=
  (∃ e, r = .ready (.error e) ∧ XErr X e) ∨ (r = .ready (.ok 0) ∧ XErr X .writeZero)

theorem writeV_hit {X : Ext} (t : Transport) (sl : List Bytes) (tag : String) (htag : tag = "W" ∨ tag = "V")
    (hwr : t.wr = []) (hd : sl.flatten ≠ []) (hx : ∃ b post, X.xw = b :: post ∧ wrBad b = true) :
    pHit X ((ext X t).writeV sl tag).2 ∧ HitR X ((ext X t).writeV sl tag).1 t := by
  obtain ⟨b, post, hp, hb⟩ := hx
  obtain ⟨input, endMode, rd, wr, fl, wlog, events, hold, woken, readWaker, abortKind⟩ := t
  obtain ⟨xr, xw, xf⟩ := X
  simp only at hwr hp
  subst hwr hp
  have hd' : sl.flatten.isEmpty = false := by simpa using hd
  cases b with
  | err =>
    have heq : (ext ⟨xr, .err :: post, xf⟩ ⟨input, endMode, rd, [], fl, wlog, events, hold, woken, readWaker, abortKind⟩).writeV sl tag =
        ((⟨input, endMode, rd ++ xr, post, fl ++ xf, wlog, events, hold, woken, readWaker, abortKind⟩ : Transport).ev
          s!"{tag ++ String.intercalate "+" (sl.map (fun s => toString s.length))}:E",
         .ready (.error (⟨input, endMode, rd ++ xr, post, fl ++ xf, wlog, events, hold, woken, readWaker, abortKind⟩ : Transport).wrErr)) := by
      unfold Transport.writeV ext
      simp only [hd', List.nil_append, Bool.false_eq_true, if_false]
    rw [heq]
    refine ⟨Or.inl ⟨_, rfl, Or.inr (Or.inl ⟨⟨post, rfl⟩, wrErr_kinds _⟩)⟩, HitR.evl ?_ (HitR.refl' rfl rfl (Or.inr (Or.inl ⟨_, post, rfl, List.suffix_refl _⟩)))⟩
    rcases htag with rfl | rfl <;> simp [isHS, toString_str]
  | zero =>
    have heq : (ext ⟨xr, .zero :: post, xf⟩ ⟨input, endMode, rd, [], fl, wlog, events, hold, woken, readWaker, abortKind⟩).writeV sl tag =
        ((⟨input, endMode, rd ++ xr, post, fl ++ xf, wlog, events, hold, woken, readWaker, abortKind⟩ : Transport).ev
          s!"{tag ++ String.intercalate "+" (sl.map (fun s => toString s.length))}:Z", .ready (.ok 0)) := by
      unfold Transport.writeV ext
      simp only [hd', List.nil_append, Bool.false_eq_true, if_false]
    rw [heq]
    refine ⟨Or.inr ⟨rfl, Or.inr (Or.inr (Or.inl ⟨⟨post, rfl⟩, rfl⟩))⟩, HitR.evl ?_ (HitR.refl' rfl rfl (Or.inr (Or.inl ⟨_, post, rfl, List.suffix_refl _⟩)))⟩
    rcases htag with rfl | rfl <;> simp [isHS, toString_str]
  | n k => cases hb
  | all => cases hb
  | pending => cases hb

theorem writeV_dich {X : Ext} (hX : Bad X) (t : Transport) (sl : List Bytes) (tag : String)
    (htag : tag = "W" ∨ tag = "V") :
    (ext X t).writeV sl tag = (ext X (t.writeV sl tag).1, (t.writeV sl tag).2) ∨
    (pHit X ((ext X t).writeV sl tag).2 ∧ HitR X ((ext X t).writeV sl tag).1 t) := by
  by_cases h : t.wr ≠ [] ∨ sl.flatten = [] ∨ X.xw = []
  · exact Or.inl (writeV_ext X t sl tag h)
  · have h1 : t.wr = [] := by
      by_cases h' : t.wr = []
      · exact h'
      · exact absurd (Or.inl h') h
    have h3 : X.xw ≠ [] := fun h' => h (Or.inr (Or.inr h'))
    rcases hX.w with h4 | h4
    · exact absurd h4 h3
    · exact Or.inr (writeV_hit t sl tag htag h1 (fun h' => h (Or.inr (Or.inl h'))) h4)

theorem write_dich {X : Ext} (hX : Bad X) (t : Transport) (buf : Bytes) :
    (ext X t).write buf = (ext X (t.write buf).1, (t.write buf).2) ∨
    (pHit X ((ext X t).write buf).2 ∧ HitR X ((ext X t).write buf).1 t) :=
  writeV_dich hX t [buf] "W" (Or.inl rfl)

theorem pStop_cases {X : Ext} {r : Poll (Except IoErr Nat)} (h : pHit X r) :
    (∃ e, r = .ready (.error e) ∧ XErr X e) ∨ (r = .ready (.ok 0) ∧ XErr X .writeZero) := h

/-- results that carry the error of a consumed failing answer -/
def oHit (X : Ext) (r : ORes) : Prop := ∃ e, r = .err e ∧ XErr X e
def iHit (X : Ext) (r : IRes) : Prop := ∃ e, r = .err e ∧ XErr X e
def wHit (X : Ext) (r : WRes) : Prop := ∃ e, r = .err e ∧ XErr X e
def hHit (X : Ext) (r : HRes) : Prop := ∃ e, r = .done (.error e) ∧ XErr X e
def cHit (X : Ext) (r : CRes) : Prop := ∃ e, r = .err e ∧ XErr X e

theorem oStop_cases {X : Ext} {r : ORes} (h : oHit X r) : ∃ e, r = .err e ∧ XErr X e := h
theorem iStop_cases {X : Ext} {r : IRes} (h : iHit X r) : ∃ e, r = .err e ∧ XErr X e := h
theorem wStop_cases {X : Ext} {r : WRes} (h : wHit X r) : ∃ e, r = .err e ∧ XErr X e := h

/-! ## `write_all`, `poll_output` -/

theorem writeAllLoop_dich {X : Ext} (hX : Bad X) : ∀ (fuel : Nat) (buf : Bytes) (t : Transport)
    {rest : Bytes} {t' : Transport} {res : ORes}, writeAllLoop fuel buf t = (rest, t', res) →
    writeAllLoop fuel buf (ext X t) = (rest, ext X t', res) ∨
    (∃ rest2 t2 res2, writeAllLoop fuel buf (ext X t) = (rest2, t2, res2) ∧ oHit X res2 ∧
      HitR X t2 t') := by
  intro fuel
  induction fuel with
  | zero => intro buf t rest t' res h; simp only [writeAllLoop] at h ⊢; cases h; exact Or.inl rfl
  | succ n ih =>
    intro buf t rest t' res h
    have hle := writeAllLoop_le _ _ _ h
    simp only [writeAllLoop] at h ⊢
    by_cases hbuf : buf.isEmpty = true
    · simp only [hbuf, if_true] at h ⊢
      cases h; exact Or.inl rfl
    · simp only [hbuf, Bool.false_eq_true, if_false] at h ⊢
      rcases write_dich hX t buf with hs | ⟨hp, hl⟩
      · rw [hs]
        rcases hw : t.write buf with ⟨tw, r⟩
        rw [hw] at h
        simp only
        cases r with
        | pending => simp only at h ⊢; cases h; exact Or.inl rfl
        | ready x =>
          cases x with
          | error e => simp only at h ⊢; cases h; exact Or.inl rfl
          | ok k =>
            cases k with
            | zero => simp only at h ⊢; cases h; exact Or.inl rfl
            | succ k => simp only at h ⊢; exact ih _ _ h
      · right
        rcases h2 : (ext X t).write buf with ⟨t2, r2⟩
        rw [h2] at hp hl
        simp only at hp hl
        rcases pStop_cases hp with ⟨e, rfl, he⟩ | ⟨rfl, hz⟩
        · exact ⟨buf, t2, .err e, rfl, ⟨_, rfl, he⟩, pre_tle hl hle⟩
        · exact ⟨buf, t2, .err .writeZero, rfl, ⟨_, rfl, hz⟩, pre_tle hl hle⟩

theorem outLoop_dich {X : Ext} (hX : Bad X) : ∀ (fuel : Nat) (sp : Str.Parser) (t : Transport)
    {sp' : Str.Parser} {t' : Transport} {res : ORes}, outLoop fuel sp t = (sp', t', res) →
    outLoop fuel sp (ext X t) = (sp', ext X t', res) ∨
    (∃ sp2 t2 res2, outLoop fuel sp (ext X t) = (sp2, t2, res2) ∧ oHit X res2 ∧ HitR X t2 t') := by
  intro fuel
  induction fuel with
  | zero => intro sp t sp' t' res h; simp only [outLoop] at h ⊢; cases h; exact Or.inl rfl
  | succ n ih =>
    intro sp t sp' t' res h
    have hle := outLoop_le _ _ _ h
    simp only [outLoop] at h ⊢
    by_cases hbuf : sp.output.isEmpty = true
    · simp only [hbuf, if_true] at h ⊢
      cases h; exact Or.inl rfl
    · simp only [hbuf, Bool.false_eq_true, if_false] at h ⊢
      rcases write_dich hX t sp.output with hs | ⟨hp, hl⟩
      · rw [hs]
        rcases hw : t.write sp.output with ⟨tw, r⟩
        rw [hw] at h
        simp only
        cases r with
        | pending => simp only at h ⊢; cases h; exact Or.inl rfl
        | ready x =>
          cases x with
          | error e => simp only at h ⊢; cases h; exact Or.inl rfl
          | ok k =>
            cases k with
            | zero => simp only at h ⊢; cases h; exact Or.inl rfl
            | succ k => simp only at h ⊢; exact ih _ _ h
      · right
        rcases h2 : (ext X t).write sp.output with ⟨t2, r2⟩
        rw [h2] at hp hl
        simp only at hp hl
        rcases pStop_cases hp with ⟨e, rfl, he⟩ | ⟨rfl, hz⟩
        · exact ⟨sp, t2, .err e, rfl, ⟨_, rfl, he⟩, pre_tle hl hle⟩
        · exact ⟨sp, t2, .err .writeZero, rfl, ⟨_, rfl, hz⟩, pre_tle hl hle⟩

theorem pollOutput_dich {X : Ext} (hX : Bad X) {r : AReq} {m : MutexSt} {t : Transport}
    {r' : AReq} {m' : MutexSt} {t' : Transport} {res : ORes} (h : r.pollOutput m t = (r', m', t', res)) :
    r.pollOutput m (ext X t) = (r', m', ext X t', res) ∨
    (∃ r2 m2 t2 res2, r.pollOutput m (ext X t) = (r2, m2, t2, res2) ∧ oHit X res2 ∧ HitR X t2 t') := by
  simp only [AReq.pollOutput] at h ⊢
  split
  · split
    · simp_all
    · simp_all
  · rename_i hne
    simp only [hne, Bool.false_eq_true, if_false] at h
    rcases hlp : lockPoll (if r.lock == .none then LockSt.polling else r.lock) m 0 with ⟨l, m1, got⟩
    rw [hlp] at h
    simp only at h ⊢
    by_cases hg : got = true
    · subst hg
      simp only [Bool.not_true, Bool.false_eq_true, if_false] at h ⊢
      rcases ho : outLoop (r.sp.output.length + 1) r.sp t with ⟨sp1, t1, o⟩
      rw [ho] at h
      rcases outLoop_dich hX _ _ _ ho with hs | ⟨sp2, t2, res2, h2, hst, hpre⟩
      · left
        simp only [hs]
        cases o <;> simp only at h ⊢ <;> cases h <;> rfl
      · right
        obtain ⟨e, rfl, he⟩ := oStop_cases hst
        simp only [h2]
        refine ⟨_, _, t2, .err e, rfl, ⟨_, rfl, he⟩, ?_⟩
        cases o <;> simp only at h <;> cases h <;> exact hpre
    · have hg' : got = false := by simpa using hg
      subst hg'
      simp only [Bool.not_false, if_true] at h ⊢
      cases h; exact Or.inl rfl

/-! ## `poll_input` -/

/-- the part of the read loop behind `poll_output`: read, then loop -/
def inCont (fuel : Nat) (r : AReq) (dest : Option Nat) (m : MutexSt) (t : Transport) :
    AReq × MutexSt × Transport × IRes :=
  match t.read r.sp.free with
  | (t, .pending) => (r, m, t, .pending)
  | (t, .ready (.error e)) => (r, m, t, .err e)
  | (t, .ready (.ok [])) => (r, m, t, .err .unexpectedEof)
  | (t, .ready (.ok bs)) => inLoop fuel r bs dest m t

theorem inLoop_succ (fuel : Nat) (r : AReq) (new : Bytes) (dest : Option Nat) (m : MutexSt) (t : Transport) :
    inLoop (fuel + 1) r new dest m t =
      match r.sp.parse new dest with
      | (sp, .panic s) => ({ r with sp := sp }, m, t, .panic s)
      | (sp, .err e) => ({ r with sp := sp }, m, t, .err (ioOfPErr e))
      | (sp, .ok st) =>
        if st.streamEnd || st.stream > 0 then
          ((if !r.writeable && ({ r with sp := sp } : AReq).isFinalStream then { sp := sp, lock := r.lock, writeable := true }
            else { r with sp := sp }), m, t, .ready st.stream st.delivered)
        else
          match ({ r with sp := sp.compress } : AReq).pollOutput m t with
          | (r, m, t, .pending) => (r, m, t, .pending)
          | (r, m, t, .err e) => (r, m, t, .err e)
          | (r, m, t, .panic s) => (r, m, t, .panic s)
          | (r, m, t, .ready) => inCont fuel r dest m t := by
  simp only [inLoop, inCont]
  rfl

theorem inLoop_dich {X : Ext} (hX : Bad X) : ∀ (fuel : Nat) (r : AReq) (new : Bytes) (dest : Option Nat)
    (m : MutexSt) (t : Transport) {r' : AReq} {m' : MutexSt} {t' : Transport} {res : IRes},
    inLoop fuel r new dest m t = (r', m', t', res) →
    inLoop fuel r new dest m (ext X t) = (r', m', ext X t', res) ∨
    (∃ r2 m2 t2 res2, inLoop fuel r new dest m (ext X t) = (r2, m2, t2, res2) ∧ iHit X res2 ∧
      HitR X t2 t') := by
  intro fuel
  induction fuel with
  | zero => intro r new dest m t r' m' t' res h; simp only [inLoop] at h ⊢; cases h; exact Or.inl rfl
  | succ n ih =>
    intro r new dest m t r' m' t' res h
    -- the continuation behind `poll_output`
    have hcont : ∀ (r3 : AReq) (m3 : MutexSt) (t3 : Transport), inCont n r3 dest m3 t3 = (r', m', t', res) →
        TLe t3 t' ∧ (inCont n r3 dest m3 (ext X t3) = (r', m', ext X t', res) ∨
          (∃ r2 m2 t2 res2, inCont n r3 dest m3 (ext X t3) = (r2, m2, t2, res2) ∧ iHit X res2 ∧
            HitR X t2 t')) := by
      intro r3 m3 t3 hc
      simp only [inCont] at hc ⊢
      rcases hr : t3.read r3.sp.free with ⟨t4, rr⟩
      rw [hr] at hc
      have h4 := read_le hr
      have hle : TLe t3 t' := by
        cases rr with
        | pending => simp only at hc; cases hc; exact h4
        | ready x =>
          cases x with
          | error e => simp only at hc; cases hc; exact h4
          | ok bs =>
            cases bs with
            | nil => simp only at hc; cases hc; exact h4
            | cons b bs => simp only at hc; exact h4.trans (inLoop_le _ _ _ _ _ _ hc)
      refine ⟨hle, ?_⟩
      rcases read_dich hX t3 r3.sp.free with hs | ⟨t2, e, h2, he, hpre⟩
      · rw [hs, hr]
        simp only
        cases rr with
        | pending => simp only at hc ⊢; cases hc; exact Or.inl rfl
        | ready x =>
          cases x with
          | error e => simp only at hc ⊢; cases hc; exact Or.inl rfl
          | ok bs =>
            cases bs with
            | nil => simp only at hc ⊢; cases hc; exact Or.inl rfl
            | cons b bs => simp only at hc ⊢; exact ih _ _ _ _ _ hc
      · right
        rw [h2]
        exact ⟨r3, m3, t2, .err e, rfl, ⟨_, rfl, he⟩, pre_tle hpre hle⟩
    rw [inLoop_succ] at h ⊢
    rcases hp : r.sp.parse new dest with ⟨sp, pr⟩
    rw [hp] at h
    cases pr with
    | panic s => simp only at h ⊢; cases h; exact Or.inl rfl
    | err e => simp only at h ⊢; cases h; exact Or.inl rfl
    | ok st =>
      by_cases hc : (st.streamEnd || decide (st.stream > 0)) = true
      · simp only [hc, if_true] at h ⊢
        cases h; exact Or.inl rfl
      · simp only [hc, Bool.false_eq_true, if_false] at h ⊢
        rcases hpo : AReq.pollOutput { r with sp := sp.compress } m t with ⟨r3, m3, t3, o⟩
        rw [hpo] at h
        rcases pollOutput_dich hX hpo with hs | ⟨r2, m2, t2, res2, h2, hst, hpre⟩
        · rw [hs]
          cases o with
          | pending => simp only at h ⊢; cases h; exact Or.inl rfl
          | err e => simp only at h ⊢; cases h; exact Or.inl rfl
          | panic s => simp only at h ⊢; cases h; exact Or.inl rfl
          | ready => simp only at h ⊢; exact (hcont _ _ _ h).2
        · right
          obtain ⟨e, rfl, he⟩ := oStop_cases hst
          rw [h2]
          simp only
          refine ⟨r2, m2, t2, .err e, rfl, ⟨_, rfl, he⟩, ?_⟩
          cases o with
          | pending => simp only at h; cases h; exact hpre
          | err e => simp only at h; cases h; exact hpre
          | panic s => simp only at h; cases h; exact hpre
          | ready => simp only at h; exact pre_tle hpre (hcont _ _ _ h).1

/-- `poll_input` behind its shortcuts: `poll_output`, then the read loop -/
def piMain (r : AReq) (dest : Option Nat) (m : MutexSt) (t : Transport) : AReq × MutexSt × Transport × IRes :=
  match r.pollOutput m t with
  | (r, m, t, .pending) => (r, m, t, .pending)
  | (r, m, t, .err e) => (r, m, t, .err e)
  | (r, m, t, .panic s) => (r, m, t, .panic s)
  | (r, m, t, .ready) => inLoop (t.input.length + 2) r [] dest m t

theorem piMain_dich {X : Ext} (hX : Bad X) {r : AReq} {dest : Option Nat} {m : MutexSt} {t : Transport}
    {r' : AReq} {m' : MutexSt} {t' : Transport} {res : IRes} (h : piMain r dest m t = (r', m', t', res)) :
    piMain r dest m (ext X t) = (r', m', ext X t', res) ∨
    (∃ r2 m2 t2 res2, piMain r dest m (ext X t) = (r2, m2, t2, res2) ∧ iHit X res2 ∧ HitR X t2 t') := by
  simp only [piMain] at h ⊢
  rcases hpo : r.pollOutput m t with ⟨r3, m3, t3, o⟩
  rw [hpo] at h
  rcases pollOutput_dich hX hpo with hs | ⟨r2, m2, t2, res2, h2, hst, hpre⟩
  · rw [hs]
    cases o with
    | pending => simp only at h ⊢; cases h; exact Or.inl rfl
    | err e => simp only at h ⊢; cases h; exact Or.inl rfl
    | panic s => simp only at h ⊢; cases h; exact Or.inl rfl
    | ready => simp only [ext_input] at h ⊢; exact inLoop_dich hX _ _ _ _ _ _ h
  · right
    obtain ⟨e, rfl, he⟩ := oStop_cases hst
    rw [h2]
    simp only
    refine ⟨r2, m2, t2, .err e, rfl, ⟨_, rfl, he⟩, ?_⟩
    cases o with
    | pending => simp only at h; cases h; exact hpre
    | err e => simp only at h; cases h; exact hpre
    | panic s => simp only at h; cases h; exact hpre
    | ready => simp only at h; exact pre_tle hpre (inLoop_le _ _ _ _ _ _ h)

theorem pollInput_eq (r : AReq) (dest : Option Nat) (m : MutexSt) (t : Transport) :
    r.pollInput dest m t =
      match dest, r.sp.parsed with
      | some 0, _ => (r, m, t, .ready 0 [])
      | none, _ :: _ => (r, m, t, .ready 0 [])
      | some n, b :: bs =>
        ({ r with sp := r.sp.consumeStream (min n (b :: bs).length) }, m, t,
          .ready (min n (b :: bs).length) ((b :: bs).take (min n (b :: bs).length)))
      | _, _ => piMain r dest m t := by
  unfold AReq.pollInput piMain
  rcases dest with _ | n
  · rcases hb : r.sp.parsed with _ | ⟨b, bs⟩ <;> rfl
  · rcases n with _ | n
    · rfl
    · rcases hb : r.sp.parsed with _ | ⟨b, bs⟩ <;> rfl

theorem pollInput_dich {X : Ext} (hX : Bad X) {r : AReq} {dest : Option Nat} {m : MutexSt} {t : Transport}
    {r' : AReq} {m' : MutexSt} {t' : Transport} {res : IRes} (h : r.pollInput dest m t = (r', m', t', res)) :
    r.pollInput dest m (ext X t) = (r', m', ext X t', res) ∨
    (∃ r2 m2 t2 res2, r.pollInput dest m (ext X t) = (r2, m2, t2, res2) ∧ iHit X res2 ∧ HitR X t2 t') := by
  rw [pollInput_eq] at h ⊢
  split at h
  · cases h; exact Or.inl rfl
  · cases h; exact Or.inl rfl
  · cases h; exact Or.inl rfl
  · exact piMain_dich hX h

theorem writeablePoll_dich {X : Ext} (hX : Bad X) {r : AReq} {started : Bool} {m : MutexSt} {t : Transport}
    {r' : AReq} {b : Bool} {m' : MutexSt} {t' : Transport} {res : ORes}
    (h : r.writeablePoll started m t = (r', b, m', t', res)) :
    r.writeablePoll started m (ext X t) = (r', b, m', ext X t', res) ∨
    (∃ r2 b2 m2 t2 res2, r.writeablePoll started m (ext X t) = (r2, b2, m2, t2, res2) ∧ oHit X res2 ∧
      HitR X t2 t') := by
  unfold AReq.writeablePoll at h ⊢
  by_cases hc : (!started && r.writeable) = true
  · simp only [hc, if_true] at h ⊢; cases h; exact Or.inl rfl
  · simp only [hc, Bool.false_eq_true, if_false] at h ⊢
    split at h
    · rename_i heq
      try simp only [heq]
      cases h; exact Or.inl rfl
    · rename_i r0 heq
      try simp only [heq]
      rcases hpi : r0.pollInput none m t with ⟨r3, m3, t3, ri⟩
      rw [hpi] at h
      rcases pollInput_dich hX hpi with hs | ⟨r2, m2, t2, res2, h2, hst, hpre⟩
      · rw [hs]
        cases ri <;> simp only at h ⊢ <;> cases h <;> exact Or.inl rfl
      · right
        obtain ⟨e, rfl, he⟩ := iStop_cases hst
        rw [h2]
        refine ⟨r2, true, m2, t2, .err e, rfl, ⟨_, rfl, he⟩, ?_⟩
        cases ri <;> simp only at h <;> cases h <;> exact hpre

/-! ## `StreamWriter` -/

theorem writeLoop_dich {X : Ext} (hX : Bad X) : ∀ (fuel : Nat) (w : Writer) (head buf : Bytes) (t : Transport)
    {w' : Writer} {t' : Transport} {res : WRes}, writeLoop fuel w head buf t = (w', t', res) →
    writeLoop fuel w head buf (ext X t) = (w', ext X t', res) ∨
    (∃ w2 t2 res2, writeLoop fuel w head buf (ext X t) = (w2, t2, res2) ∧ wHit X res2 ∧ HitR X t2 t') := by
  intro fuel
  induction fuel with
  | zero => intro w head buf t w' t' res h; simp only [writeLoop] at h ⊢; cases h; exact Or.inl rfl
  | succ n ih =>
    intro w head buf t w' t' res h
    have hle := writeLoop_le _ _ _ _ _ h
    simp only [writeLoop] at h ⊢
    by_cases h1 : (!w.isWriting) = true
    · simp only [h1, if_true] at h ⊢; cases h; exact Or.inl rfl
    · simp only [h1, Bool.false_eq_true, if_false] at h ⊢
      by_cases h2 : w.contentLen > buf.length
      · simp only [h2, if_true] at h ⊢; cases h; exact Or.inl rfl
      · simp only [h2, if_false] at h ⊢
        rcases writeV_dich hX t [head.drop w.headIdx, buf.drop (buf.length - w.contentLen), zeros w.padLen] "V" (Or.inr rfl) with
          hs | ⟨hp, hl⟩
        · rw [hs]
          rcases hw : t.writeV [head.drop w.headIdx, buf.drop (buf.length - w.contentLen), zeros w.padLen] "V" with ⟨tw, r⟩
          rw [hw] at h
          cases r with
          | pending => simp only at h ⊢; cases h; exact Or.inl rfl
          | ready x =>
            cases x with
            | error e => simp only at h ⊢; cases h; exact Or.inl rfl
            | ok k =>
              cases k with
              | zero => simp only at h ⊢; cases h; exact Or.inl rfl
              | succ k =>
                simp only at h ⊢
                split at h
                · rename_i hc
                  rw [if_pos hc]
                  cases h; exact Or.inl rfl
                · rename_i hc
                  rw [if_neg hc]
                  exact ih _ _ _ _ h
        · right
          rcases h2' : (ext X t).writeV [head.drop w.headIdx, buf.drop (buf.length - w.contentLen), zeros w.padLen] "V" with
            ⟨t2, r2⟩
          rw [h2'] at hp hl
          simp only at hp hl
          rcases pStop_cases hp with ⟨e, rfl, he⟩ | ⟨rfl, hz⟩
          · exact ⟨w, t2, .err e, rfl, ⟨_, rfl, he⟩, pre_tle hl hle⟩
          · exact ⟨w, t2, .err .writeZero, rfl, ⟨_, rfl, hz⟩, pre_tle hl hle⟩

theorem pollWrite_dich {X : Ext} (hX : Bad X) {w : Writer} {me : Nat} {buf : Bytes} {m : MutexSt}
    {t : Transport} {w' : Writer} {m' : MutexSt} {t' : Transport} {res : WRes}
    (h : w.pollWrite me buf m t = (w', m', t', res)) :
    w.pollWrite me buf m (ext X t) = (w', m', ext X t', res) ∨
    (∃ w2 m2 t2 res2, w.pollWrite me buf m (ext X t) = (w2, m2, t2, res2) ∧ wHit X res2 ∧ HitR X t2 t') := by
  simp only [Writer.pollWrite] at h ⊢
  split at h
  · rename_i hc; (try simp only [hc, if_true]); cases h; exact Or.inl rfl
  · rename_i hc
    try simp only [hc, if_false]
    split at h
    · rename_i heq; (try simp only [heq]); cases h; exact Or.inl rfl
    · rename_i w1 heq
      try simp only [heq]
      split at h
      · rename_i hc1; (try simp only [hc1, if_true]); cases h; exact Or.inl rfl
      · rename_i hc1
        try simp only [hc1, if_false]
        split at h
        · rename_i hc2; (try simp only [hc2, if_true]); cases h; exact Or.inl rfl
        · rename_i hc2
          try simp only [hc2, if_false]
          rcases hlp : lockPoll w1.lock m (me + 1) with ⟨l, m1, got⟩
          rw [hlp] at h
          simp only at h ⊢
          split at h
          · rename_i hg; (try simp only [hg, if_true]); cases h; exact Or.inl rfl
          · rename_i hg
            try simp only [hg, if_false]
            rcases hwl : writeLoop (8 + w1.contentLen + w1.padLen + 1) { w1 with lock := l }
              ({ w1 with lock := l } : Writer).headBytes (buf.take w1.origLen) t with ⟨w3, t3, r3⟩
            rw [hwl] at h
            rcases writeLoop_dich hX _ _ _ _ _ hwl with hs | ⟨w2, t2, res2, h2, hst, hpre⟩
            · rw [hs]
              cases r3 <;> simp only at h ⊢ <;> cases h <;> exact Or.inl rfl
            · right
              obtain ⟨e, rfl, he⟩ := wStop_cases hst
              rw [h2]
              refine ⟨w2, m1, t2, .err e, rfl, ⟨_, rfl, he⟩, ?_⟩
              cases r3 <;> simp only at h <;> cases h <;> exact hpre

/-- `poll_flush`: after a FAILED flush the writer's lock is dropped and the output mutex is free
(unlike after a failed write, where the `StreamWriter` keeps the lock). -/
theorem pollFlush_dich {X : Ext} (hX : Bad X) {w : Writer} {me : Nat} {m : MutexSt} {t : Transport}
    {w' : Writer} {m' : MutexSt} {t' : Transport} {res : WRes} (h : w.pollFlush me m t = (w', m', t', res)) :
    w.pollFlush me m (ext X t) = (w', m', ext X t', res) ∨
    (∃ w2 t2 res2, w.pollFlush me m (ext X t) = (w2, none, t2, res2) ∧ w2.lock = .none ∧ wHit X res2 ∧
      HitR X t2 t') := by
  have hle := pollFlush_le h
  simp only [Writer.pollFlush] at h ⊢
  by_cases hw : w.isWriting = true
  · simp only [hw, if_true] at h ⊢; cases h; exact Or.inl rfl
  · simp only [hw, Bool.false_eq_true, if_false] at h ⊢
    rcases hlp : lockPoll (if w.lock == .none then LockSt.polling else w.lock) m (me + 1) with ⟨l, m1, got⟩
    rw [hlp] at h
    simp only at h ⊢
    cases got with
    | false => simp only [Bool.not_false, if_true] at h ⊢; cases h; exact Or.inl rfl
    | true =>
      simp only [Bool.not_true, Bool.false_eq_true, if_false] at h ⊢
      rcases hf : t.flush with ⟨tf, r⟩
      rw [hf] at h
      rcases flush_dich hX t with hs | ⟨t2, e, h2, he, hpre⟩
      · rw [hs, hf]
        cases r with
        | pending => simp only at h ⊢; cases h; exact Or.inl rfl
        | ready x => cases x <;> (simp only at h ⊢; cases h; exact Or.inl rfl)
      · right
        rw [h2]
        exact ⟨_, t2, .err e, rfl, rfl, ⟨_, rfl, he⟩, pre_tle hpre hle⟩

/-! ## The handler -/

def extE (X : Ext) (e : Env) : Env := { e with tr := ext X e.tr }

def restOf (sub : HSub) (data : Bytes) : Bytes :=
  match sub with
  | .writeRest rd => rd
  | _ => data

theorem hp_writeAll' (fuel : Nat) (r : AReq) (i : Nat) (data : Bytes) (rest : List HOp) (sub : HSub)
    (ws : List (Option Writer)) (w : Writer) (hw : ws.getD i none = some w) (e : Run.Env) :
    handlerPoll (fuel + 1) r { ops := .writeAll i data :: rest, sub := sub, writers := ws, propagate := true } e =
      if (restOf sub data).isEmpty then
        handlerPoll fuel r { ops := rest, sub := .fresh, writers := ws, propagate := true } (e.ev "W=ok")
      else match w.pollWrite i (restOf sub data) e.mutex e.tr with
        | (w, m, t, .pending) =>
          (r, { ops := .writeAll i data :: rest, sub := .writeRest (restOf sub data), writers := ws.set i (some w), propagate := true },
            { e with mutex := m, tr := t }, .pending)
        | (w, m, t, .ready 0) =>
          (r, { ops := rest, sub := .fresh, writers := ws.set i (some w), propagate := true },
            ({ e with mutex := m, tr := t }.ev "W!writezero"), .done (.error .writeZero))
        | (w, m, t, .ready n) =>
          handlerPoll fuel r
            { ops := .writeAll i data :: rest, sub := .writeRest ((restOf sub data).drop n), writers := ws.set i (some w), propagate := true }
            { e with mutex := m, tr := t }
        | (w, m, t, .err x) =>
          (r, { ops := rest, sub := .fresh, writers := ws.set i (some w), propagate := true },
            ({ e with mutex := m, tr := t }.ev s!"W!{showIo x}"), .done (.error x))
        | (w, m, t, .panic s) =>
          (r, { ops := .writeAll i data :: rest, sub := sub, writers := ws.set i (some w), propagate := true },
            { e with mutex := m, tr := t }, .panic s) := by
  simp only [handlerPoll, hw]
  cases sub <;> rfl

theorem handlerPoll_dich {X : Ext} (hX : Bad X) : ∀ (fuel : Nat) (r : AReq) (h : HState) (e : Env)
    {r' : AReq} {h' : HState} {e' : Env} {res : HRes}, h.propagate = true →
    handlerPoll fuel r h e = (r', h', e', res) →
    handlerPoll fuel r h (extE X e) = (r', h', extE X e', res) ∨
    (∃ r2 h2 e2 res2, handlerPoll fuel r h (extE X e) = (r2, h2, e2, res2) ∧ hHit X res2 ∧
      HitR X e2.tr e'.tr) := by
  intro fuel
  induction fuel with
  | zero => intro r h e r' h' e' res _ hh; simp only [handlerPoll] at hh ⊢; cases hh; exact Or.inl rfl
  | succ n ih =>
    intro r h e r' h' e' res hpr hh
    obtain ⟨ops, sub, ws, pr⟩ := h
    simp only at hpr
    subst hpr
    cases ops with
    | nil => simp only [handlerPoll] at hh ⊢; cases hh; exact Or.inl rfl
    | cons op rest =>
      cases op with
      | ret st => simp only [handlerPoll] at hh ⊢; cases hh; exact Or.inl rfl
      | retErr x => simp only [handlerPoll] at hh ⊢; cases hh; exact Or.inl rfl
      | consume k => simp only [handlerPoll] at hh ⊢; exact ih _ _ _ rfl hh
      | setStream ty =>
        simp only [handlerPoll] at hh ⊢
        cases hs : r.setStream ty with
        | none => rw [hs] at hh; simp only at hh ⊢; cases hh; exact Or.inl rfl
        | some r1 => rw [hs] at hh; simp only at hh ⊢; exact ih _ _ (e.ev "s=ok") rfl hh
      | open_ ty =>
        simp only [handlerPoll] at hh ⊢
        split at hh
        · rename_i hc; rw [if_pos hc]; cases hh; exact Or.inl rfl
        · rename_i hc; rw [if_neg hc]; exact ih _ _ (e.ev _) rfl hh
      | dropW i =>
        simp only [handlerPoll] at hh ⊢
        cases hw : ws.getD i none with
        | none => rw [hw] at hh; simp only at hh ⊢; exact ih _ _ _ rfl hh
        | some w => rw [hw] at hh; simp only at hh ⊢; exact ih _ _ { e with mutex := lockDrop w.lock e.mutex } rfl hh
      | read k =>
        simp only [handlerPoll, extE] at hh ⊢
        rcases hpi : r.pollInput (some k) e.mutex e.tr with ⟨r3, m3, t3, ri⟩
        rw [hpi] at hh
        rcases pollInput_dich hX hpi with hs | ⟨r2, m2, t2, res2, h2, hst, hpre⟩
        · rw [hs]
          cases ri with
          | pending => simp only at hh ⊢; cases hh; exact Or.inl rfl
          | ready kk d => simp only at hh ⊢; exact ih _ _ ({ e with mutex := m3, tr := t3 }.ev _) rfl hh
          | err x => simp only [if_true] at hh ⊢; cases hh; exact Or.inl rfl
          | panic s => simp only at hh ⊢; cases hh; exact Or.inl rfl
        · right
          obtain ⟨x, rfl, he⟩ := iStop_cases hst
          rw [h2]
          simp only [if_true]
          refine ⟨_, _, _, _, rfl, ⟨_, rfl, he⟩, ?_⟩
          show HitR X (t2.ev _) e'.tr
          refine HitR.evl (by simp [isHS, toString_str]) ?_
          cases ri with
          | pending => simp only at hh; cases hh; exact hpre
          | ready kk d => simp only at hh; exact pre_tle (pre_ev _ hpre) (handlerPoll_le _ _ _ _ hh)
          | err x => simp only [if_true] at hh; cases hh; exact pre_ev _ hpre
          | panic s => simp only at hh; cases hh; exact hpre
      | fill =>
        simp only [handlerPoll, extE] at hh ⊢
        rcases hpi : r.pollInput none e.mutex e.tr with ⟨r3, m3, t3, ri⟩
        rw [hpi] at hh
        rcases pollInput_dich hX hpi with hs | ⟨r2, m2, t2, res2, h2, hst, hpre⟩
        · rw [hs]
          cases ri with
          | pending => simp only at hh ⊢; cases hh; exact Or.inl rfl
          | ready kk d => simp only at hh ⊢; exact ih _ _ ({ e with mutex := m3, tr := t3 }.ev _) rfl hh
          | err x => simp only [if_true] at hh ⊢; cases hh; exact Or.inl rfl
          | panic s => simp only at hh ⊢; cases hh; exact Or.inl rfl
        · right
          obtain ⟨x, rfl, he⟩ := iStop_cases hst
          rw [h2]
          simp only [if_true]
          refine ⟨_, _, _, _, rfl, ⟨_, rfl, he⟩, ?_⟩
          show HitR X (t2.ev _) e'.tr
          refine HitR.evl (by simp [isHS, toString_str]) ?_
          cases ri with
          | pending => simp only at hh; cases hh; exact hpre
          | ready kk d => simp only at hh; exact pre_tle (pre_ev _ hpre) (handlerPoll_le _ _ _ _ hh)
          | err x => simp only [if_true] at hh; cases hh; exact pre_ev _ hpre
          | panic s => simp only at hh; cases hh; exact hpre
      | readAll =>
        simp only [handlerPoll, extE] at hh ⊢
        rcases hpi : r.pollInput (some 64) e.mutex e.tr with ⟨r3, m3, t3, ri⟩
        rw [hpi] at hh
        rcases pollInput_dich hX hpi with hs | ⟨r2, m2, t2, res2, h2, hst, hpre⟩
        · rw [hs]
          cases ri with
          | pending => simp only at hh ⊢; cases hh; exact Or.inl rfl
          | ready kk d =>
            cases kk with
            | zero => simp only at hh ⊢; exact ih _ _ ({ e with mutex := m3, tr := t3 }.ev _) rfl hh
            | succ kk => simp only at hh ⊢; exact ih _ _ { e with mutex := m3, tr := t3 } rfl hh
          | err x => simp only [if_true] at hh ⊢; cases hh; exact Or.inl rfl
          | panic s => simp only at hh ⊢; cases hh; exact Or.inl rfl
        · right
          obtain ⟨x, rfl, he⟩ := iStop_cases hst
          rw [h2]
          simp only [if_true]
          refine ⟨_, _, _, _, rfl, ⟨_, rfl, he⟩, ?_⟩
          show HitR X (t2.ev _) e'.tr
          refine HitR.evl (by simp [isHS, toString_str]) ?_
          cases ri with
          | pending => simp only at hh; cases hh; exact hpre
          | ready kk d =>
            cases kk with
            | zero => simp only at hh; exact pre_tle (pre_ev _ hpre) (handlerPoll_le _ _ _ _ hh)
            | succ kk => simp only at hh; exact pre_tle hpre (handlerPoll_le _ _ _ _ hh)
          | err x => simp only [if_true] at hh; cases hh; exact pre_ev _ hpre
          | panic s => simp only at hh; cases hh; exact hpre
      | writeable =>
        simp only [handlerPoll, extE] at hh ⊢
        rcases hpi : r.writeablePoll (sub == .writeableStarted) e.mutex e.tr with ⟨r3, b3, m3, t3, ri⟩
        rw [hpi] at hh
        rcases writeablePoll_dich hX hpi with hs | ⟨r2, b2, m2, t2, res2, h2, hst, hpre⟩
        · rw [hs]
          cases ri with
          | pending => simp only at hh ⊢; cases hh; exact Or.inl rfl
          | ready => simp only at hh ⊢; exact ih _ _ ({ e with mutex := m3, tr := t3 }.ev _) rfl hh
          | err x => simp only [if_true] at hh ⊢; cases hh; exact Or.inl rfl
          | panic s => simp only at hh ⊢; cases hh; exact Or.inl rfl
        · right
          obtain ⟨x, rfl, he⟩ := oStop_cases hst
          rw [h2]
          simp only [if_true]
          refine ⟨_, _, _, _, rfl, ⟨_, rfl, he⟩, ?_⟩
          show HitR X (t2.ev _) e'.tr
          refine HitR.evl (by simp [isHS, toString_str]) ?_
          cases ri with
          | pending => simp only at hh; cases hh; exact hpre
          | ready => simp only at hh; exact pre_tle (pre_ev _ hpre) (handlerPoll_le _ _ _ _ hh)
          | err x => simp only [if_true] at hh; cases hh; exact pre_ev _ hpre
          | panic s => simp only at hh; cases hh; exact hpre
      | flush i =>
        simp only [handlerPoll, extE] at hh ⊢
        cases hw : ws.getD i none with
        | none => rw [hw] at hh; simp only at hh ⊢; exact ih _ _ (e.ev _) rfl hh
        | some w =>
          rw [hw] at hh
          simp only at hh ⊢
          rcases hpf : w.pollFlush i e.mutex e.tr with ⟨w3, m3, t3, rf⟩
          rw [hpf] at hh
          rcases pollFlush_dich hX hpf with hs | ⟨w2, t2, res2, h2, _, hst, hpre⟩
          · rw [hs]
            cases rf with
            | pending => simp only at hh ⊢; cases hh; exact Or.inl rfl
            | ready kk => simp only at hh ⊢; exact ih _ _ ({ e with mutex := m3, tr := t3 }.ev _) rfl hh
            | err x => simp only [if_true] at hh ⊢; cases hh; exact Or.inl rfl
            | panic s => simp only at hh ⊢; cases hh; exact Or.inl rfl
          · right
            obtain ⟨x, rfl, he⟩ := wStop_cases hst
            rw [h2]
            simp only [if_true]
            refine ⟨_, _, _, _, rfl, ⟨_, rfl, he⟩, ?_⟩
            show HitR X (t2.ev _) e'.tr
            refine HitR.evl (by simp [isHS, toString_str]) ?_
            cases rf with
            | pending => simp only at hh; cases hh; exact hpre
            | ready kk => simp only at hh; exact pre_tle (pre_ev _ hpre) (handlerPoll_le _ _ _ _ hh)
            | err x => simp only [if_true] at hh; cases hh; exact pre_ev _ hpre
            | panic s => simp only at hh; cases hh; exact hpre
      | writeAll i data =>
        cases hw : ws.getD i none with
        | none =>
          simp only [handlerPoll, extE, hw] at hh ⊢
          exact ih _ _ (e.ev _) rfl hh
        | some w =>
          rw [hp_writeAll' _ _ _ _ _ _ _ w hw] at hh ⊢
          simp only [extE] at hh ⊢
          by_cases hc : (restOf sub data).isEmpty = true
          · rw [if_pos hc] at hh ⊢; exact ih _ _ (e.ev _) rfl hh
          · rw [if_neg hc] at hh ⊢
            rcases hpw : w.pollWrite i (restOf sub data) e.mutex e.tr with ⟨w3, m3, t3, rw3⟩
            rw [hpw] at hh
            rcases pollWrite_dich hX hpw with hs | ⟨w2, m2, t2, res2, h2, hst, hpre⟩
            · rw [hs]
              cases rw3 with
              | pending => simp only at hh ⊢; cases hh; exact Or.inl rfl
              | ready kk =>
                cases kk with
                | zero => simp only at hh ⊢; cases hh; exact Or.inl rfl
                | succ kk => simp only at hh ⊢; exact ih _ _ { e with mutex := m3, tr := t3 } rfl hh
              | err x => simp only at hh ⊢; cases hh; exact Or.inl rfl
              | panic s => simp only at hh ⊢; cases hh; exact Or.inl rfl
            · right
              obtain ⟨x, rfl, he⟩ := wStop_cases hst
              rw [h2]
              refine ⟨_, _, _, _, rfl, ⟨_, rfl, he⟩, ?_⟩
              show HitR X (t2.ev _) e'.tr
              refine HitR.evl (by simp [isHS, toString_str]) ?_
              cases rw3 with
              | pending => simp only at hh; cases hh; exact hpre
              | ready kk =>
                cases kk with
                | zero => simp only at hh; cases hh; exact pre_ev _ hpre
                | succ kk => simp only at hh; exact pre_tle hpre (handlerPoll_le _ _ _ _ hh)
              | err x => simp only at hh; cases hh; exact pre_ev _ hpre
              | panic s => simp only at hh; cases hh; exact hpre

/-! ## `close` -/

theorem boundaryLoop_dich {X : Ext} (hX : Bad X) : ∀ (fuel : Nat) (sp : Str.Parser) (new : Bytes) (t : Transport)
    {sp' : Str.Parser} {t' : Transport} {res : ORes}, boundaryLoop fuel sp new t = (sp', t', res) →
    boundaryLoop fuel sp new (ext X t) = (sp', ext X t', res) ∨
    (∃ sp2 t2 res2, boundaryLoop fuel sp new (ext X t) = (sp2, t2, res2) ∧ oHit X res2 ∧ HitR X t2 t') := by
  intro fuel
  induction fuel with
  | zero => intro sp new t sp' t' res h; simp only [boundaryLoop] at h ⊢; cases h; exact Or.inl rfl
  | succ n ih =>
    intro sp new t sp' t' res h
    have hcont : ∀ (sp : Str.Parser) (t : Transport), boundaryLoop.cont sp t n = (sp', t', res) →
        boundaryLoop.cont sp (ext X t) n = (sp', ext X t', res) ∨
        (∃ sp2 t2 res2, boundaryLoop.cont sp (ext X t) n = (sp2, t2, res2) ∧ oHit X res2 ∧ HitR X t2 t') := by
      intro sp t hc
      have hle : TLe t t' := boundaryCont_le (fun sp new t sp' t' res h => boundaryLoop_le _ _ _ _ h) hc
      simp only [boundaryLoop.cont] at hc ⊢
      by_cases hb : sp.isRecordBoundary = true
      · simp only [hb, if_true] at hc ⊢; cases hc; exact Or.inl rfl
      · simp only [hb, Bool.false_eq_true, if_false] at hc ⊢
        by_cases hp : (!sp.parsed.isEmpty) = true
        · simp only [hp, if_true] at hc ⊢; cases hc; exact Or.inl rfl
        · simp only [hp, Bool.false_eq_true, if_false] at hc ⊢
          rcases hr : t.read sp.compress.free with ⟨t4, rr⟩
          rw [hr] at hc
          rcases read_dich hX t sp.compress.free with hs | ⟨t2, e, h2, he, hpre⟩
          · rw [hs, hr]
            cases rr with
            | pending => simp only at hc ⊢; cases hc; exact Or.inl rfl
            | ready x =>
              cases x with
              | error e => simp only at hc ⊢; cases hc; exact Or.inl rfl
              | ok bs =>
                cases bs with
                | nil => simp only at hc ⊢; cases hc; exact Or.inl rfl
                | cons b bs => simp only at hc ⊢; exact ih _ _ _ hc
          · right
            rw [h2]
            exact ⟨_, t2, .err e, rfl, ⟨_, rfl, he⟩, pre_tle hpre hle⟩
    simp only [boundaryLoop] at h ⊢
    rcases hp : sp.parse new none with ⟨sp1, pr⟩
    rw [hp] at h
    cases pr with
    | panic s => simp only at h ⊢; cases h; exact Or.inl rfl
    | err e =>
      simp only at h ⊢
      by_cases hc : (e == PErr.abortRequest) = true
      · simp only [hc, if_true] at h ⊢; exact hcont _ _ h
      · simp only [hc, Bool.false_eq_true, if_false] at h ⊢; cases h; exact Or.inl rfl
    | ok st => simp only at h ⊢; exact hcont _ _ h

theorem closeBoundary_dich {X : Ext} (hX : Bad X) {sp : Str.Parser} {resume : Bool} {t : Transport}
    {sp' : Str.Parser} {t' : Transport} {res : ORes} (h : closeBoundary sp resume t = (sp', t', res)) :
    closeBoundary sp resume (ext X t) = (sp', ext X t', res) ∨
    (∃ sp2 t2 res2, closeBoundary sp resume (ext X t) = (sp2, t2, res2) ∧ oHit X res2 ∧ HitR X t2 t') := by
  have hle := closeBoundary_le h
  simp only [closeBoundary] at h ⊢
  cases resume with
  | true =>
    simp only [if_true] at h ⊢
    rcases hr : t.read sp.free with ⟨t4, rr⟩
    rw [hr] at h
    rcases read_dich hX t sp.free with hs | ⟨t2, e, h2, he, hpre⟩
    · rw [hs, hr]
      cases rr with
      | pending => simp only at h ⊢; cases h; exact Or.inl rfl
      | ready x =>
        cases x with
        | error e => simp only at h ⊢; cases h; exact Or.inl rfl
        | ok bs =>
          cases bs with
          | nil => simp only at h ⊢; cases h; exact Or.inl rfl
          | cons b bs => simp only [ext_input] at h ⊢; exact boundaryLoop_dich hX _ _ _ _ h
    · right
      rw [h2]
      exact ⟨_, t2, .err e, rfl, ⟨_, rfl, he⟩, pre_tle hpre hle⟩
  | false =>
    simp only [Bool.false_eq_true, if_false] at h ⊢
    by_cases hb : sp.isRecordBoundary = true
    · simp only [hb, if_true] at h ⊢; cases h; exact Or.inl rfl
    · simp only [hb, Bool.false_eq_true, if_false, ext_input] at h ⊢
      exact boundaryLoop_dich hX _ _ _ _ h

/-- `ext` on the two kinds of phase results -/
def mapOut (X : Ext) (x : CloseOut) : CloseOut := (x.1, x.2.1, x.2.2.1, ext X x.2.2.2.1, x.2.2.2.2)
def mapMid (X : Ext) (x : CloseMid) : CloseMid := (x.1, x.2.1, ext X x.2.2.1, x.2.2.2)
def mapX (X : Ext) : Except CloseOut CloseMid → Except CloseOut CloseMid
  | .error x => .error (mapOut X x)
  | .ok y => .ok (mapMid X y)

/-- the transport a phase ends with -/
def xTr : Except CloseOut CloseMid → Transport
  | .error x => x.2.2.2.1
  | .ok y => y.2.2.1

theorem closeP2_dich {X : Ext} (hX : Bad X) (r : AReq) (m : MutexSt) (t : Transport) (st : CloseSt) :
    closeP2 r m (ext X t) st = mapX X (closeP2 r m t st) ∨
    (∃ r2 cs2 m2 t2 e, closeP2 r m (ext X t) st = .error (r2, cs2, m2, t2, .err e) ∧ XErr X e ∧
      HitR X t2 (xTr (closeP2 r m t st))) := by
  have main : ∀ (cs : CloseSt) (sp : Str.Parser) (resume : Bool),
      (match closeBoundary sp resume (ext X t) with
        | (sp, t, .ready) => (Except.ok ({ r with sp := sp }, m, t, CloseSt.start) : Except CloseOut CloseMid)
        | (sp, t, .pending) => .error ({ r with sp := sp }, .inBoundary, m, t, .pending)
        | (sp, t, .err e) => .error ({ r with sp := sp }, .inBoundary, m, t, .err e)
        | (sp, t, .panic s) => .error ({ r with sp := sp }, .inBoundary, m, t, .panic s)) =
      mapX X (match closeBoundary sp resume t with
        | (sp, t, .ready) => (Except.ok ({ r with sp := sp }, m, t, CloseSt.start) : Except CloseOut CloseMid)
        | (sp, t, .pending) => .error ({ r with sp := sp }, .inBoundary, m, t, .pending)
        | (sp, t, .err e) => .error ({ r with sp := sp }, .inBoundary, m, t, .err e)
        | (sp, t, .panic s) => .error ({ r with sp := sp }, .inBoundary, m, t, .panic s)) ∨
      (∃ r2 cs2 m2 t2 e, (match closeBoundary sp resume (ext X t) with
        | (sp, t, .ready) => (Except.ok ({ r with sp := sp }, m, t, CloseSt.start) : Except CloseOut CloseMid)
        | (sp, t, .pending) => .error ({ r with sp := sp }, .inBoundary, m, t, .pending)
        | (sp, t, .err e) => .error ({ r with sp := sp }, .inBoundary, m, t, .err e)
        | (sp, t, .panic s) => .error ({ r with sp := sp }, .inBoundary, m, t, .panic s)) =
          .error (r2, cs2, m2, t2, .err e) ∧ XErr X e ∧
        HitR X t2 (xTr (match closeBoundary sp resume t with
        | (sp, t, .ready) => (Except.ok ({ r with sp := sp }, m, t, CloseSt.start) : Except CloseOut CloseMid)
        | (sp, t, .pending) => .error ({ r with sp := sp }, .inBoundary, m, t, .pending)
        | (sp, t, .err e) => .error ({ r with sp := sp }, .inBoundary, m, t, .err e)
        | (sp, t, .panic s) => .error ({ r with sp := sp }, .inBoundary, m, t, .panic s)))) := by
    intro cs sp resume
    rcases hcb : closeBoundary sp resume t with ⟨sp1, t1, o⟩
    rcases closeBoundary_dich hX hcb with hs | ⟨sp2, t2, res2, h2, hst, hpre⟩
    · left
      rw [hs]
      cases o <;> rfl
    · right
      obtain ⟨e, rfl, he⟩ := oStop_cases hst
      rw [h2]
      refine ⟨_, _, _, t2, e, rfl, he, ?_⟩
      cases o <;> exact hpre
  cases st with
  | start =>
    simp only [closeP2]
    cases r.sp.setStream none with
    | ok sp => exact main .start sp false
    | rejected => exact Or.inl rfl
    | panic site => exact Or.inl rfl
  | inBoundary => simp only [closeP2]; exact main .inBoundary r.sp true
  | inWriteable => exact Or.inl rfl
  | writeOut a b => exact Or.inl rfl
  | writeEnd a => exact Or.inl rfl

theorem closeP3_ext (X : Ext) (r : AReq) (m : MutexSt) (t : Transport) (st : CloseSt) (status : ExitStatus)
    (alive : Nat) : closeP3 r m (ext X t) st status alive = mapX X (closeP3 r m t st status alive) := by
  simp only [closeP3]
  split
  · split <;> rfl
  · rfl

theorem closeP1_dich {X : Ext} (hX : Bad X) (r : AReq) (st : CloseSt) (m : MutexSt) (t : Transport) :
    closeP1 r st m (ext X t) = mapX X (closeP1 r st m t) ∨
    (∃ r2 cs2 m2 t2 e, closeP1 r st m (ext X t) = .error (r2, cs2, m2, t2, .err e) ∧ XErr X e ∧
      HitR X t2 (xTr (closeP1 r st m t))) := by
  have main : ∀ b : Bool,
      (match r.writeablePoll b m (ext X t) with
        | (r, _, m, t, .ready) => (Except.ok (r, m, t, CloseSt.start) : Except CloseOut CloseMid)
        | (r, _, m, t, .pending) => .error (r, .inWriteable, m, t, .pending)
        | (r, _, m, t, .err e) => if e == IoErr.abortRequest then .ok (r, m, t, .start) else .error (r, .inWriteable, m, t, .err e)
        | (r, _, m, t, .panic s) => .error (r, .inWriteable, m, t, .panic s)) =
      mapX X (match r.writeablePoll b m t with
        | (r, _, m, t, .ready) => (Except.ok (r, m, t, CloseSt.start) : Except CloseOut CloseMid)
        | (r, _, m, t, .pending) => .error (r, .inWriteable, m, t, .pending)
        | (r, _, m, t, .err e) => if e == IoErr.abortRequest then .ok (r, m, t, .start) else .error (r, .inWriteable, m, t, .err e)
        | (r, _, m, t, .panic s) => .error (r, .inWriteable, m, t, .panic s)) ∨
      (∃ r2 cs2 m2 t2 e, (match r.writeablePoll b m (ext X t) with
        | (r, _, m, t, .ready) => (Except.ok (r, m, t, CloseSt.start) : Except CloseOut CloseMid)
        | (r, _, m, t, .pending) => .error (r, .inWriteable, m, t, .pending)
        | (r, _, m, t, .err e) => if e == IoErr.abortRequest then .ok (r, m, t, .start) else .error (r, .inWriteable, m, t, .err e)
        | (r, _, m, t, .panic s) => .error (r, .inWriteable, m, t, .panic s)) = .error (r2, cs2, m2, t2, .err e) ∧
        XErr X e ∧ HitR X t2 (xTr (match r.writeablePoll b m t with
        | (r, _, m, t, .ready) => (Except.ok (r, m, t, CloseSt.start) : Except CloseOut CloseMid)
        | (r, _, m, t, .pending) => .error (r, .inWriteable, m, t, .pending)
        | (r, _, m, t, .err e) => if e == IoErr.abortRequest then .ok (r, m, t, .start) else .error (r, .inWriteable, m, t, .err e)
        | (r, _, m, t, .panic s) => .error (r, .inWriteable, m, t, .panic s)))) := by
    intro b
    rcases hwp : r.writeablePoll b m t with ⟨r3, b3, m3, t3, o⟩
    rcases writeablePoll_dich hX hwp with hs | ⟨r2, b2, m2, t2, res2, h2, hst, hpre⟩
    · left
      rw [hs]
      cases o with
      | ready => rfl
      | pending => rfl
      | panic s => rfl
      | err e => simp only; split <;> rfl
    · right
      obtain ⟨e, rfl, he⟩ := oStop_cases hst
      rw [h2]
      have hne : (e == IoErr.abortRequest) = false := he.ne
      simp only [hne, Bool.false_eq_true, if_false]
      refine ⟨_, _, _, _, e, rfl, he, ?_⟩
      cases o with
      | ready => exact hpre
      | pending => exact hpre
      | panic s => exact hpre
      | err e' => simp only; split <;> exact hpre
  cases st with
  | start => exact main _
  | inWriteable => exact main _
  | inBoundary => exact Or.inl rfl
  | writeOut a b => exact Or.inl rfl
  | writeEnd a => exact Or.inl rfl

theorem finishEnd_dich {X : Ext} (hX : Bad X) {r : AReq} {rest : Bytes} {m : MutexSt} {t : Transport}
    {r' : AReq} {cs' : CloseSt} {m' : MutexSt} {t' : Transport} {res : CRes}
    (h : closePoll.finishEnd r rest m t = (r', cs', m', t', res)) :
    closePoll.finishEnd r rest m (ext X t) = (r', cs', m', ext X t', res) ∨
    (∃ r2 cs2 m2 t2 res2, closePoll.finishEnd r rest m (ext X t) = (r2, cs2, m2, t2, res2) ∧ cHit X res2 ∧
      HitR X t2 t') := by
  simp only [closePoll.finishEnd] at h ⊢
  rcases hw : writeAllLoop (rest.length + 1) rest t with ⟨rest1, t1, o⟩
  rw [hw] at h
  rcases writeAllLoop_dich hX _ _ _ hw with hs | ⟨rest2, t2, res2, h2, hst, hpre⟩
  · rw [hs]
    cases o with
    | pending => simp only at h ⊢; cases h; exact Or.inl rfl
    | err e => simp only at h ⊢; cases h; exact Or.inl rfl
    | panic s => simp only at h ⊢; cases h; exact Or.inl rfl
    | ready =>
      simp only at h ⊢
      split at h
      · rename_i hk
        rw [if_pos hk]
        split at h <;> (cases h; exact Or.inl rfl)
      · rename_i hk
        rw [if_neg hk]
        cases h; exact Or.inl rfl
  · right
    obtain ⟨e, rfl, he⟩ := oStop_cases hst
    rw [h2]
    refine ⟨_, _, _, t2, .err e, rfl, ⟨_, rfl, he⟩, ?_⟩
    have : t1 = t' := by
      cases o with
      | pending => simp only at h; cases h; rfl
      | err e => simp only at h; cases h; rfl
      | panic s => simp only at h; cases h; rfl
      | ready =>
        simp only at h
        split at h
        · split at h <;> (cases h; rfl)
        · cases h; rfl
    rw [← this]; exact hpre

theorem closeP4_dich {X : Ext} (hX : Bad X) {r : AReq} {st : CloseSt} {m : MutexSt} {t : Transport}
    {r' : AReq} {cs' : CloseSt} {m' : MutexSt} {t' : Transport} {res : CRes}
    (h : closeP4 r m t st = (r', cs', m', t', res)) :
    closeP4 r m (ext X t) st = (r', cs', m', ext X t', res) ∨
    (∃ r2 cs2 m2 t2 res2, closeP4 r m (ext X t) st = (r2, cs2, m2, t2, res2) ∧ cHit X res2 ∧
      HitR X t2 t') := by
  cases st with
  | start => simp only [closeP4] at h ⊢; cases h; exact Or.inl rfl
  | inWriteable => simp only [closeP4] at h ⊢; cases h; exact Or.inl rfl
  | inBoundary => simp only [closeP4] at h ⊢; cases h; exact Or.inl rfl
  | writeEnd rest => simp only [closeP4] at h ⊢; exact finishEnd_dich hX h
  | writeOut rest endreq =>
    simp only [closeP4] at h ⊢
    rcases hw : writeAllLoop (rest.length + 1) rest t with ⟨rest1, t1, o⟩
    rw [hw] at h
    rcases writeAllLoop_dich hX _ _ _ hw with hs | ⟨rest2, t2, res2, h2, hst, hpre⟩
    · rw [hs]
      cases o with
      | pending => simp only at h ⊢; cases h; exact Or.inl rfl
      | err e => simp only at h ⊢; cases h; exact Or.inl rfl
      | panic s => simp only at h ⊢; cases h; exact Or.inl rfl
      | ready => simp only at h ⊢; exact finishEnd_dich hX h
    · right
      obtain ⟨e, rfl, he⟩ := oStop_cases hst
      rw [h2]
      refine ⟨_, _, _, t2, .err e, rfl, ⟨_, rfl, he⟩, ?_⟩
      cases o with
      | pending => simp only at h; cases h; exact hpre
      | err e => simp only at h; cases h; exact hpre
      | panic s => simp only at h; cases h; exact hpre
      | ready => simp only at h; exact pre_tle hpre (finishEnd_le h)



end Fcgi.Indep3
