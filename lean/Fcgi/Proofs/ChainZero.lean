import Fcgi.Proofs.ChainTurn
/-!
# C05 at the sync level — the fully buffered preamble (`parse(0)` first)

`C03.LegalFeed` (needed for chunk invariance) asks for non-empty chunks, so `C05C.turn` cannot
express a request whose preamble is already completely in the buffer at the hand-off: the request
parser must be called at least once to find it, and the API call for that is `parse(0)` — what the
async `parse_request` does first (`C08.parse_before_read`).  `turn0`: the request parser is called
with no new input first, then fed the chunks (possibly none).  `turn0_eq`: that is the turn of
`C05C.turn` in which the look-ahead is presented as the first chunk of an empty-buffered parser —
`request::Parser::parse` depends on `input ++ new` only —, so everything proved for `turn` / `chain`
holds for `turn0` / `chain0` (`turn0_spec`, `chain0_spec`).
-/
namespace Fcgi.C05C
open Fcgi Fcgi.Req Fcgi.Str Fcgi.Spec
open Fcgi.E2E (idleOwed serAll_app)

/-- `parse(0)`, then the chunks -/
def feed0 (rp : Req.Parser) (cs : List Bytes) : Req.Parser × Bytes × List Bytes :=
  match rp.parse [] with
  | (p1, some y) => ((C03.feedAll p1 cs).1, y.output ++ (C03.feedAll p1 cs).2.1, (C03.feedAll p1 cs).2.2)
  | (p1, none) => (p1, [], cs)

def turn0 (rp : Req.Parser) (t : Turn) : Option (Obs × Req.Parser) :=
  match (feed0 rp t.cs).1.state, (feed0 rp t.cs).1.intoStreamParser with
  | .done r, .ok sp =>
    match (applyOps sp t.ops).intoRequestParser with
    | some (.ok rp') => some (⟨r, (feed0 rp t.cs).2.1, sp, applyOps sp t.ops⟩, rp')
    | _ => none
  | _, _ => none

def chain0 : Req.Parser → List Turn → Option (List Obs × Req.Parser)
  | rp, [] => some ([], rp)
  | rp, t :: ts =>
    match turn0 rp t with
    | some (o, rp') =>
      match chain0 rp' ts with
      | some (os, rpK) => some (o :: os, rpK)
      | none => none
    | none => none

/-- chunks (if any) non-empty and within the free space, all fed; stream-parser calls legal -/
def TurnLegal0 (rp : Req.Parser) (t : Turn) : Prop :=
  C03.LegalFeed (rp.parse []).1 t.cs ∧ (feed0 rp t.cs).2.2 = [] ∧
    ∀ sp, (feed0 rp t.cs).1.intoStreamParser = .ok sp → LegalAll sp t.ops

def ChainLegal0 : Req.Parser → List Turn → Prop
  | _, [] => True
  | rp, t :: ts => TurnLegal0 rp t ∧ ∀ o rp', turn0 rp t = some (o, rp') → ChainLegal0 rp' ts

/-- the same turn with the look-ahead presented as the first chunk -/
def present (rp : Req.Parser) (t : Turn) : Req.Parser × Turn :=
  if rp.input = [] then (rp, t) else ({ rp with input := [] }, ⟨rp.input :: t.cs, t.ops⟩)

theorem parse_nil_empty {rp : Req.Parser} (hp : PInv rp) (hst : rp.state = .header) (hin : rp.input = []) :
    rp.parse [] = (rp, some { done := false, output := [] }) := by
  rw [parse_eq hp (by simp)]
  obtain ⟨cap, input, state, mc⟩ := rp
  simp only at hst hin
  subst hst hin
  have h24 : 24 ≤ cap := hp.2.2
  simp only [List.append_nil, resting_header mc]
  rw [if_neg (by simp [State.isFinal]; omega)]
  rfl

theorem parse_present {rp : Req.Parser} (hp : PInv rp) :
    ({ rp with input := [] } : Req.Parser).parse rp.input = rp.parse [] := by
  have hp' : PInv ({ rp with input := [] } : Req.Parser) := ⟨Nat.zero_le _, hp.2.1, hp.2.2⟩
  rw [parse_eq hp (by simp), parse_eq hp' (by have := hp.1; simp [Req.Parser.free]; omega)]
  simp only [List.nil_append, List.append_nil]

theorem feed0_eq {rp : Req.Parser} (hp : PInv rp) (hst : rp.state = .header) (t : Turn) :
    feed0 rp t.cs = C03.feedAll (present rp t).1 (present rp t).2.cs := by
  unfold present
  by_cases hin : rp.input = []
  · rw [if_pos hin]
    simp only [feed0, parse_nil_empty hp hst hin, List.nil_append]
  · rw [if_neg hin]
    have hfin : ({ rp with input := [] } : Req.Parser).state.isFinal = false := by
      show rp.state.isFinal = false; rw [hst]; rfl
    simp only [feed0]
    obtain ⟨y, hy, -⟩ := C03.parse_total hp (new := []) (by simp)
    have hpar : rp.parse [] = ((rp.parse []).1, some y) := by rw [← hy]
    rw [C03.feedAll, if_neg (by rw [hfin]; simp), parse_present hp, hpar]

/-- **`parse(0)` first is the same turn with the look-ahead as first chunk.** -/
theorem turn0_eq {rp : Req.Parser} (hp : PInv rp) (hst : rp.state = .header) (t : Turn) :
    turn0 rp t = turn (present rp t).1 (present rp t).2 ∧
    (TurnLegal0 rp t → TurnLegal (present rp t).1 (present rp t).2) ∧
    PInv (present rp t).1 ∧ (present rp t).1.state = .header ∧ (present rp t).1.maxConns = rp.maxConns ∧
    (present rp t).1.cap = rp.cap ∧ (present rp t).2.ops = t.ops ∧
    (present rp t).1.input ++ (present rp t).2.cs.flatten = rp.input ++ t.cs.flatten := by
  have hf := feed0_eq hp hst t
  have hops : (present rp t).2.ops = t.ops := by unfold present; split <;> rfl
  refine ⟨?_, ?_, ?_, ?_, ?_, ?_, hops, ?_⟩
  · simp only [turn0, turn, hf, hops]
    rfl
  · intro ⟨h1, h2, h3⟩
    rw [hf] at h2 h3
    rw [← hops] at h3
    refine ⟨?_, h2, h3⟩
    unfold present
    by_cases hin : rp.input = []
    · rw [if_pos hin]
      rw [parse_nil_empty hp hst hin] at h1
      exact h1
    · rw [if_neg hin]
      refine Or.inr ⟨hin, by have := hp.1; simp [Req.Parser.free]; omega, ?_⟩
      rw [parse_present hp]; exact h1
  · unfold present; split
    · exact hp
    · exact ⟨Nat.zero_le _, hp.2.1, hp.2.2⟩
  · unfold present; split <;> exact hst
  · unfold present; split <;> rfl
  · unfold present; split <;> rfl
  · unfold present; split <;> simp

/-- `turn_spec` for a turn that starts with `parse(0)` (same statement) -/
theorem turn0_spec {mc : Nat} {rp : Req.Parser} (hp : PInv rp) (hst : rp.state = .header)
    (hmc : rp.maxConns = mc) {u : List Rec} (hu : ∀ e ∈ u, IdleNoise e) {q : Spec1} (hq : q.OK)
    {later : List Rec} (hlater : ∀ r ∈ later, r.WF) {t : Turn} {fut : Bytes}
    (hwire : rp.input ++ t.fed ++ fut = serAll (u ++ q.recs ++ q.srecs ++ later))
    (hl : TurnLegal0 rp t) {o : Obs} {rp' : Req.Parser} (ht : turn0 rp t = some (o, rp'))
    (hno : Front rp.cap mc q later t o → NoOverrun q t o) :
    o.r = q.p.request ∧ o.reqOut = idleOwed mc u ++ owedPreamble q.p mc q.recs ∧
    Front rp.cap mc q later t o ∧
    o.sp.raw ++ C05.fedBytes t.ops ++ fut = serAll (q.srecs ++ later) ∧
    rp.input ++ t.cs.flatten = serAll (u ++ q.recs) ++ o.sp.raw ∧
    (∃ d u', q.srecs = d ++ u' ∧ o.sp.raw ++ C05.fedBytes t.ops = serAll d ++ rp'.input ∧
      rp'.input ++ fut = serAll (u' ++ later) ∧ (∀ e ∈ u', IdleNoise e)) ∧
    rp'.input = o.spEnd.raw ∧ PInv rp' ∧ rp'.state = .header ∧ rp'.maxConns = mc ∧ rp'.cap = rp.cap := by
  obtain ⟨e1, e2, e3, e4, e5, e6, e7, e8⟩ := turn0_eq hp hst t
  have hfront : ∀ c, Front c mc q later (present rp t).2 o ↔ Front c mc q later t o := by
    intro c; unfold Front; rw [e7]
  have hnov : NoOverrun q (present rp t).2 o ↔ NoOverrun q t o := by unfold NoOverrun; rw [e7]
  have hwire' : (present rp t).1.input ++ (present rp t).2.fed ++ fut =
      serAll (u ++ q.recs ++ q.srecs ++ later) := by
    rw [← hwire]
    unfold Turn.fed
    rw [e7, ← List.append_assoc, e8]
    simp [List.append_assoc]
  have h := turn_spec (mc := mc) e3 e4 (e5.trans hmc) hu hq hlater hwire' (e2 hl) (by rw [← e1]; exact ht)
    (fun hf => hnov.2 (hno (by rw [← e6]; exact (hfront _).1 hf)))
  rw [e6, e7, e8] at h
  obtain ⟨a, b, c, d, e, f, g⟩ := h
  exact ⟨a, b, (hfront _).1 c, d, e, f, g⟩

theorem chain0_cons {rp : Req.Parser} {t : Turn} {ts : List Turn} {os : List Obs} {rpK : Req.Parser}
    (h : chain0 rp (t :: ts) = some (os, rpK)) :
    ∃ o rp' os', turn0 rp t = some (o, rp') ∧ chain0 rp' ts = some (os', rpK) ∧ os = o :: os' := by
  simp only [chain0] at h
  split at h
  · rename_i o rp' h1
    split at h
    · rename_i os' rpK' h2
      cases h
      exact ⟨o, rp', os', h1, h2, rfl⟩
    · cases h
  · cases h

/-- **k turns on one shared buffer, each starting with `parse(0)`**, `k ≤` the number of requests on the wire (so the bytes fed may
reach into requests that are not served yet: look-ahead at the last hand-off too). -/
theorem chain0_spec {cap mc : Nat} : ∀ (ts : List Turn) (qs : List Spec1) (os : List Obs) (rp : Req.Parser)
    (u : List Rec) (fut : Bytes) (rpK : Req.Parser),
    (∀ q ∈ qs, q.OK) → PInv rp → rp.state = .header → rp.maxConns = mc → rp.cap = cap →
    (∀ e ∈ u, IdleNoise e) → ts.length ≤ qs.length →
    rp.input ++ ts.flatMap Turn.fed ++ fut = serAll (u ++ wireRecs qs) →
    ChainLegal0 rp ts → chain0 rp ts = some (os, rpK) → NoOverruns cap mc qs ts os →
    Results cap mc u qs ts os ∧ PInv rpK ∧ rpK.state = .header ∧ rpK.maxConns = mc ∧ rpK.cap = cap ∧
      ∃ uK, (∀ e ∈ uK, IdleNoise e) ∧ rpK.input ++ fut = serAll (uK ++ wireRecs (qs.drop ts.length)) := by
  intro ts
  induction ts with
  | nil =>
    intro qs os rp u fut rpK _ hp hst hmc hcap hu _ hwire _ hch _
    simp only [chain0, Option.some.injEq, Prod.mk.injEq] at hch
    obtain ⟨rfl, rfl⟩ := hch
    refine ⟨?_, hp, hst, hmc, hcap, u, hu, ?_⟩
    · cases qs <;> trivial
    · simpa using hwire
  | cons t ts ih =>
    intro qs os rp u fut rpK hqs hp hst hmc hcap hu hlen hwire hleg hch hno
    cases qs with
    | nil => simp at hlen
    | cons q qs =>
      obtain ⟨o, rp', os', ht, hch', rfl⟩ := chain0_cons hch
      obtain ⟨hl1, hl2⟩ := hleg
      obtain ⟨hno1, hno2⟩ := hno
      have hq := hqs q List.mem_cons_self
      have hqs' : ∀ x ∈ qs, x.OK := fun x hx => hqs x (List.mem_cons_of_mem _ hx)
      have hwire1 : rp.input ++ t.fed ++ (ts.flatMap Turn.fed ++ fut) =
          serAll (u ++ q.recs ++ q.srecs ++ wireRecs qs) := by
        rw [wireRecs_cons] at hwire
        simpa [List.append_assoc] using hwire
      obtain ⟨h1, h2, h3, h4, -, ⟨d, u', h6, h7, h8, h9⟩, h10, h11, h12, h13, h14⟩ :=
        turn0_spec hp hst hmc hu hq (wireRecs_wf hqs') hwire1 hl1 ht (by rw [hcap]; exact hno1)
      obtain ⟨r1, r2, r3, r4, r5, uK, r6, r7⟩ := ih qs os' rp' u' fut rpK hqs' h11 h12 h13 (h14.trans hcap) h9
        (by simpa using hlen) (by rw [List.append_assoc]; exact h8) (hl2 o rp' ht) hch' hno2
      refine ⟨⟨h1, h2, by rw [← hcap]; exact h3, d, u', h6, h9, by rw [← h10]; exact h7,
        ⟨_, by rw [← h10]; exact h8⟩, r1⟩, r2, r3, r4, r5, uK, r6, ?_⟩
      simpa using r7


end Fcgi.C05C
