import Fcgi.Proofs.E2EEofErr

/-!
# End-of-file vs. a failing read at the end of the input — the connection task and the executor

`stepConn_dich`, `pollConn_dich`: one phase transition / one poll on `emC .eof c` and `emC .err c`
(`AllProp c`: every handler script propagates I/O errors): the same up to the mode, or both halt
`finished` in states related by `HitC`.  `runTask_eof_err`: the executor.
-/
namespace Fcgi.EofErr
open Fcgi Fcgi.Req Fcgi.Str Fcgi.Async Fcgi.Run Fcgi.C12Inv

def emC (m : EndMode) (c : Conn) : Conn := { c with env := emE m c.env }

def mapStep (m : EndMode) : Step → Step
  | .next c => .next (emC m c)
  | .halt c r => .halt (emC m c) r

/-- the two connections behind the failing read: both `finished`; same scripts, flag, mutex, held-back
segments; transports related by `Aft` (same log, input `[]`, scripts, flags; traces equal up to the
failing read and pairwise `EvPair` behind it) -/
structure HitC (c1 c2 : Conn) : Prop where
  ph1 : c1.phase = .finished
  ph2 : c2.phase = .finished
  sc : c2.scripts = c1.scripts
  stop : c2.stop = c1.stop
  mx : c2.env.mutex = c1.env.mutex
  segs : c2.env.segs = c1.env.segs
  tr : Aft c1.env.tr c2.env.tr

theorem isHS_he (k : String) : isHS s!"HE(err:{k})" = false := by simp [isHS, toString_str]

theorem rdErr_ne' (t : Transport) : (t.rdErr == IoErr.abortRequest) = false := by
  unfold Transport.rdErr; split <;> rfl

theorem stepConn_dich (c : Conn) (hp : AllProp c) :
    (∃ s, stepConn (emC .eof c) = mapStep .eof s ∧ stepConn (emC .err c) = mapStep .err s) ∨
    (∃ c1 c2, stepConn (emC .eof c) = .halt c1 .finished ∧ stepConn (emC .err c) = .halt c2 .finished ∧
      HitC c1 c2) := by
  obtain ⟨phase, env, scripts, stop⟩ := c
  obtain ⟨hsc, hph⟩ := hp
  simp only at hsc hph
  cases phase with
  | finished => exact Or.inl ⟨.halt ⟨.finished, env, scripts, stop⟩ .finished, rfl, rfl⟩
  | parseReq rp sub =>
    cases stop with
    | true => exact Or.inl ⟨.halt ⟨.finished, env, scripts, true⟩ .finished, rfl, rfl⟩
    | false =>
      cases sub with
      | start =>
        left
        simp only [stepConn, emC, emE, Bool.false_eq_true, if_false]
        rcases rp.parse [] with ⟨rp', _ | y⟩
        · exact ⟨.halt ⟨_, env, scripts, false⟩ _, rfl, rfl⟩
        · exact ⟨.next ⟨_, env, scripts, false⟩, rfl, rfl⟩
      | reading =>
        simp only [stepConn, emC, emE, Bool.false_eq_true, if_false]
        rcases read_dich env.tr rp.free with ⟨t', rr, h1, h2⟩ | ⟨t1, t2, h1, h2, ha⟩
        · left
          rw [h1, h2]
          cases rr with
          | pending => exact ⟨.halt ⟨_, { env with tr := t' }, scripts, false⟩ _, rfl, rfl⟩
          | ready x =>
            cases x with
            | error e => exact ⟨.halt ⟨_, { env with tr := t' }, scripts, false⟩ _, rfl, rfl⟩
            | ok bs =>
              cases bs with
              | nil => exact ⟨.halt ⟨_, { env with tr := t' }, scripts, false⟩ _, rfl, rfl⟩
              | cons b bs =>
                simp only
                rcases rp.parse (b :: bs) with ⟨rp', _ | y⟩
                · exact ⟨.halt ⟨_, { env with tr := t' }, scripts, false⟩ _, rfl, rfl⟩
                · exact ⟨.next ⟨_, { env with tr := t' }, scripts, false⟩, rfl, rfl⟩
        · right
          rw [h1, h2]
          exact ⟨_, _, rfl, rfl, ⟨rfl, rfl, rfl, rfl, rfl, rfl, ha⟩⟩
      | writing rest done =>
        left
        simp only [stepConn, emC, emE, Bool.false_eq_true, if_false]
        rw [writeAllLoop_em, writeAllLoop_em]
        rcases writeAllLoop (rest.length + 1) rest env.tr with ⟨rest1, t1, o⟩
        cases o with
        | pending => exact ⟨.halt ⟨_, { env with tr := t1 }, scripts, false⟩ _, rfl, rfl⟩
        | err e => exact ⟨.halt ⟨_, { env with tr := t1 }, scripts, false⟩ _, rfl, rfl⟩
        | panic s => exact ⟨.halt ⟨_, { env with tr := t1 }, scripts, false⟩ _, rfl, rfl⟩
        | ready =>
          simp only
          cases done with
          | false => exact ⟨.next ⟨_, { env with tr := t1 }, scripts, false⟩, rfl, rfl⟩
          | true =>
            simp only [Bool.not_true, Bool.false_eq_true, if_false]
            cases rp.intoStreamParser with
            | error e => exact ⟨.halt ⟨_, { env with tr := t1 }, scripts, false⟩ _, rfl, rfl⟩
            | ok sp =>
              cases scripts with
              | nil => exact ⟨.next ⟨_, ({ env with tr := t1 } : Env).ev _, [], false⟩, rfl, rfl⟩
              | cons sc scs => exact ⟨.next ⟨_, ({ env with tr := t1 } : Env).ev _, scs, false⟩, rfl, rfl⟩
  | handler r h =>
    simp only [stepConn, emC, emE, em_input]
    have hd := handlerPoll_dich (1000 + env.tr.input.length * 4 + (env.segs.map (·.2.length)).sum * 4 + r.sp.cap * 4 + scriptCost h)
      r h env hph
    simp only [emE] at hd
    rcases hd with ⟨r1, h1, e1, hres, q1, q2⟩ | ⟨r1, h1, e1, e2, q1, q2, hm, hs, ha⟩
    · left
      rw [q1, q2]
      cases hres with
      | pending => exact ⟨.halt ⟨_, e1, scripts, stop⟩ _, rfl, rfl⟩
      | panic s => exact ⟨.halt ⟨_, e1, scripts, stop⟩ _, rfl, rfl⟩
      | done x =>
        cases x with
        | ok st => exact ⟨.next ⟨_, e1.ev _, scripts, stop⟩, rfl, rfl⟩
        | error x =>
          simp only
          by_cases hx : (x == IoErr.abortRequest) = true
          · simp only [hx, if_true]; exact ⟨.next ⟨_, e1.ev _, scripts, stop⟩, rfl, rfl⟩
          · simp only [hx, Bool.false_eq_true, if_false]; exact ⟨.halt ⟨_, e1.ev _, scripts, stop⟩ _, rfl, rfl⟩
    · right
      rw [q1, q2]
      have hne : (IoErr.unexpectedEof == IoErr.abortRequest) = false := rfl
      simp only [hne, rdErr_ne', Bool.false_eq_true, if_false]
      refine ⟨_, _, rfl, rfl, ⟨rfl, rfl, rfl, rfl, hm, hs, ?_⟩⟩
      exact ha.snocK (fun k => s!"HE(err:{k})") (isHS_he _) (fun x => isHS_he _)
  | closing r cs status alive =>
    simp only [stepConn, emC, emE]
    rcases closePoll_dich r cs status alive env.mutex env.tr with
      ⟨r1, cs1, m1, t1, cres, q1, q2⟩ | ⟨r1, cs1, m1, t1, t2, q1, q2, ha⟩
    · left
      rw [q1, q2]
      cases cres with
      | pending => exact ⟨.halt ⟨_, { env with mutex := m1, tr := t1 }, scripts, stop⟩ _, rfl, rfl⟩
      | panic s => exact ⟨.halt ⟨_, { env with mutex := m1, tr := t1 }, scripts, stop⟩ _, rfl, rfl⟩
      | err e => exact ⟨.halt ⟨_, { env with mutex := m1, tr := t1 }, scripts, stop⟩ _, rfl, rfl⟩
      | reuse rp => exact ⟨.next ⟨_, { env with mutex := m1, tr := t1 }, scripts, stop⟩, rfl, rfl⟩
    · right
      rw [q1, q2]
      exact ⟨_, _, rfl, rfl, ⟨rfl, rfl, rfl, rfl, rfl, rfl, ha⟩⟩

/-! ## One poll -/

theorem connFuel_em (m : EndMode) (c : Conn) : connFuel (emC m c) = connFuel c := by
  obtain ⟨phase, env, scripts, stop⟩ := c
  cases phase <;> rfl

theorem allProp_em {m : EndMode} {c : Conn} : AllProp (emC m c) ↔ AllProp c :=
  ⟨fun h => allProp_of_frame rfl rfl h, fun h => allProp_of_frame rfl rfl h⟩

theorem pollConn_dich : ∀ (fuel : Nat) (c : Conn), AllProp c →
    (∃ c' r, pollConn fuel (emC .eof c) = (emC .eof c', r) ∧ pollConn fuel (emC .err c) = (emC .err c', r)) ∨
    (∃ c1 c2, pollConn fuel (emC .eof c) = (c1, .finished) ∧ pollConn fuel (emC .err c) = (c2, .finished) ∧
      HitC c1 c2)
  | 0, c, _ => Or.inl ⟨c, _, rfl, rfl⟩
  | fuel + 1, c, hp => by
    rw [pollConn_succ, pollConn_succ]
    have hsw := stepConn_w (emC .eof c) (allProp_em.2 hp)
    rcases stepConn_dich c hp with ⟨s, h1, h2⟩ | ⟨c1, c2, h1, h2, hh⟩
    · rw [h1, h2]
      rw [h1] at hsw
      cases s with
      | halt c' r => exact Or.inl ⟨c', r, rfl, rfl⟩
      | next c' =>
        simp only [mapStep, Step.run]
        exact pollConn_dich fuel c' (allProp_em.1 hsw.2)
    · rw [h1, h2]
      exact Or.inr ⟨c1, c2, rfl, rfl, hh⟩

/-! ## The executor -/

theorem emEnv_release_go (m : EndMode) : ∀ (fuel : Nat) (e : Env) (any : Bool),
    Env.release.go fuel (emE m e) any = (emE m (Env.release.go fuel e any).1, (Env.release.go fuel e any).2) := by
  intro fuel
  induction fuel with
  | zero => intro e any; unfold Env.release.go; rfl
  | succ n ih =>
    intro e any
    obtain ⟨tr, mutex, segs⟩ := e
    cases segs with
    | nil => unfold Env.release.go; rfl
    | cons p rest =>
      obtain ⟨g, bs⟩ := p
      simp only [Env.release.go, emE, em_wlog]
      by_cases hg : g.open_ tr.wlog = true
      · simp only [hg, if_true]
        exact ih ⟨{ tr with input := tr.input ++ bs }, mutex, rest⟩ true
      · simp only [hg]
        rfl

theorem release_em (m : EndMode) (e : Env) : (emE m e).release = (emE m e.release.1, e.release.2) := by
  have h := emEnv_release_go m (e.segs.length + 1) e false
  unfold Env.release
  simp only [emE] at h ⊢
  simp only [h]
  rfl

theorem prePoll_em (m : EndMode) (c : Conn) (n : Nat) (sa : Option Nat) :
    prePoll (emC m c) n sa = emC m (prePoll c n sa) := by
  unfold prePoll
  split
  · simp only [emC, release_em]; rfl
  · simp only [emC, release_em]; rfl

open Fcgi.Indep3 (afterPoll runTask_succ')

/-- **The executor: end-of-file vs. a failing read.**  For any connection `c` whose handler scripts
propagate I/O errors, the run on the transport in `eof` mode and the run on the same transport in
`err` mode end with the same verdict `fin`; either they are the same up to the mode (the run never
read at the exhausted input), or both returned (`RET`) out of that read in states related by `HitC`. -/
theorem runTask_eof_err : ∀ (fuel : Nat) (c : Conn) (n : Nat) (sa : Option Nat), AllProp c →
    (∃ c' fin, runTask fuel (emC .eof c) n sa = (emC .eof c', fin) ∧ runTask fuel (emC .err c) n sa = (emC .err c', fin)) ∨
    (∃ c1 c2, runTask fuel (emC .eof c) n sa = (c1, "RET") ∧ runTask fuel (emC .err c) n sa = (c2, "RET") ∧ HitC c1 c2)
  | 0, c, _, _, _ => Or.inl ⟨c, _, rfl, rfl⟩
  | fuel + 1, c, n, sa, hp => by
    rw [runTask_succ', runTask_succ', prePoll_em, prePoll_em, connFuel_em, connFuel_em]
    have hp0 : AllProp (prePoll c n sa) :=
      allProp_of_frame (prePoll_frame c n sa).1 (prePoll_frame c n sa).2 hp
    have hp1 := pollConn_allProp (connFuel (prePoll c n sa)) _ (allProp_em (m := .eof).2 hp0)
    rcases pollConn_dich (connFuel (prePoll c n sa)) (prePoll c n sa) hp0 with
      ⟨c', r, h1, h2⟩ | ⟨c1, c2, h1, h2, hh⟩
    · rw [h1] at hp1
      have hap : AllProp c' := allProp_em.1 hp1
      rw [h1, h2]
      cases r with
      | finished => exact Or.inl ⟨c', _, rfl, rfl⟩
      | panic s => exact Or.inl ⟨c', _, rfl, rfl⟩
      | pending =>
        simp only [afterPoll]
        have hwk1 : (emC .eof c').env.tr.woken = c'.env.tr.woken := rfl
        have hwk2 : (emC .err c').env.tr.woken = c'.env.tr.woken := rfl
        have hr1 : (emC .eof c').env.release = (emE .eof c'.env.release.1, c'.env.release.2) := release_em .eof c'.env
        have hr2 : (emC .err c').env.release = (emE .err c'.env.release.1, c'.env.release.2) := release_em .err c'.env
        rw [hwk1, hwk2, hr1, hr2]
        by_cases hw : c'.env.tr.woken = true
        · simp only [hw, if_true]
          exact runTask_eof_err fuel c' (n + 1) sa hap
        · simp only [hw, if_false]
          rcases c'.env.release with ⟨env, any⟩
          simp only
          have hap2 : AllProp { c' with env := env } := allProp_of_frame rfl rfl hap
          have hv1 : (emE .eof env).tr.woken = env.tr.woken := rfl
          have hv2 : (emE .err env).tr.woken = env.tr.woken := rfl
          rw [hv1, hv2]
          by_cases hw2 : env.tr.woken = true
          · simp only [hw2, if_true]
            exact runTask_eof_err fuel { c' with env := env } (n + 1) sa hap2
          · simp only [hw2, if_false]
            cases sa with
            | none => exact Or.inl ⟨{ c' with env := env }, _, rfl, rfl⟩
            | some k =>
              simp only
              have hs1 : (emC .eof c').stop = c'.stop := rfl
              have hs2 : (emC .err c').stop = c'.stop := rfl
              rw [hs1, hs2]
              by_cases hk : (decide (k > n) && !c'.stop) = true
              · simp only [hk, if_true]
                exact runTask_eof_err fuel { c' with env := env } k (some k) hap2
              · simp only [hk, if_false]
                exact Or.inl ⟨{ c' with env := env }, _, rfl, rfl⟩
    · rw [h1, h2]
      exact Or.inr ⟨c1, c2, rfl, rfl, hh⟩

end Fcgi.EofErr
